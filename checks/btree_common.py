"""Shared by C01/C02 (and the B-tree part of C07/C08): harness builds and history generators."""
import os, subprocess
from vlib import REPO

# (page size, ZIX_BTREE_MAX_HEIGHT or None for the default, NDEBUG build: comparator calls are counted there)
PAGES = [(64, 24, False), (64, 24, True), (128, 24, False), (256, 24, True), (4096, None, False)]

def build(ck, pages=PAGES):
    """Returns [(tag, exe, (leafMax, inodeMax, maxHeight), model_args)]"""
    out = []
    for page, mh, ndebug in pages:
        flags = ["-DZIX_BTREE_PAGE_SIZE=%dU" % page] + (["-DZIX_BTREE_MAX_HEIGHT=%dU" % mh] if mh else []) + (["-DNDEBUG"] if ndebug else [])
        tag = "p%d%s" % (page, "n" if ndebug else "")
        exe = ck.cc("h_c01_" + tag, ["h_c01.c", os.path.join(REPO, "src/allocator.c")], flags=flags)
        if not exe: return None
        cfg = subprocess.run([exe, "--cfg"], capture_output=True, text=True).stdout.split()
        out.append((tag, exe, tuple(int(x) for x in cfg), [] if ndebug else ["nocmp"]))
    return out

def history(rng, cfg, style, nops, queries="light", faults=False):
    L, I, H = cfg
    h = ["new %d %d %d" % cfg]
    present = set()
    keyspace = rng.choice([40, 120, 400]) if L < 64 else rng.choice([2000, 20000])
    ctr = 0
    def ins(k):
        if faults and rng.random() < 0.15: h.append("failat %d" % rng.randint(0, 2))
        h.append("ins %d" % k); present.add(k)
    def rm(k):
        h.append("rm %d" % k); present.discard(k)
    def sweep():
        if len(present) > 60: return
        ks = sorted(present)
        probes = set([0, (ks[-1] + 1) if ks else 1])
        for k in ks: probes.update([k, k + 1, max(k - 1, 0)])
        for k in sorted(probes): h.append("lb x %d" % k)
        for k in sorted(set(p // 16 for p in probes)): h.append("lb w %d" % k)
        if ks:
            a, b = rng.choice(ks), rng.choice(ks)
            h.append("ieq %d %d" % (a, b)); h.append("ieq %d %d" % (a, a)); h.append("ieq %d %d" % (ks[-1] + 1, ks[-1] + 5))
        h.append("walk")
    i = 0
    while i < nops:
        i += 1
        if style == "asc": ctr += 1; ins(ctr)
        elif style == "desc": ctr += 1; ins(100000 - ctr)
        elif style == "zigzag": ctr += 1; ins(50000 + (ctr if ctr % 2 else -ctr))
        elif style == "drain":
            # fill, then remove down to the minimum occupancy, poking with inserts in between
            if i < nops * 0.4: ins(rng.randint(0, keyspace))
            elif present and rng.random() < 0.8: rm(rng.choice(sorted(present)))
            else: ins(rng.randint(0, keyspace))
        else:
            r = rng.random()
            k = rng.randint(0, keyspace)
            if r < 0.45: ins(k)
            elif r < 0.80:
                if present and rng.random() < 0.8: rm(rng.choice(sorted(present)))
                else: rm(k)
            elif r < 0.90: h.append("find %d" % k)
            elif r < 0.97: h.append("lb %s %d" % (rng.choice(["x", "x", "w"]), k if rng.random() < 0.7 else k // 16))
            else: h.append("walk")
        if queries == "heavy" and rng.random() < 0.08: sweep()
    if style in ("asc", "desc", "zigzag"):
        # remove in a scrambled order, querying as the tree shrinks
        ks = sorted(present); rng.shuffle(ks)
        for j, k in enumerate(ks[: rng.randint(len(ks) // 2, len(ks))]):
            rm(k)
            if queries == "heavy" and rng.random() < 0.05: sweep()
    h.append("walk")
    if queries == "heavy": sweep()
    if rng.random() < 0.5:
        h.append("clear"); h.append("walk"); h.append("ins 5"); h.append("ins 7"); h.append("rm 5"); h.append("walk")
    return h

def histories(ck, cfgs, n_small, n_big, queries, faults=False):
    out = {}
    styles = ["rand", "rand", "asc", "desc", "zigzag", "drain", "drain", "rand"]
    for page, exe, cfg, margs in cfgs:
        hs = []
        if cfg[0] < 64:
            for i in range(n_small):
                hs.append(history(ck.rng, cfg, styles[i % len(styles)], ck.rng.randint(20, 400), queries, faults))
        else:
            for i in range(n_big):
                hs.append(history(ck.rng, cfg, styles[i % len(styles)], ck.rng.randint(2000, 15000), "light", faults))
        out[page] = hs
    return out
