"""C01 — B-tree is a sorted set under every operation history."""
import btree_common as bc
import gen_btree
from vlib import REPO

def run(ck):
    ck.level = "proof"
    ck.cov["rule"] = ("histories of insert/remove/find/lower_bound/walk/clear on four builds (page 64, 128, 256 with MAX_HEIGHT 24; page 4096 default); key orders random, "
                      "ascending, descending, zig-zag, drain-to-minimum-then-poke; after every call status, removed element, size and (white-box) the whole tree "
                      "(page ids, values, children), allocation events, comparator-call count and height are compared with the model; non-trivial = distinct history")
    ck.assumptions += ["the comparator is a total order (integers)", "page sizes are powers of two >= 64 (the sources reject others)"]
    try:
        ck.write_generated("BTreeCfg.lean", gen_btree.generate(REPO, ck.work))
    except Exception as e:
        ck.translator_failed("translator gen_btree failed: %r" % (e,))
    if not ck.build_driver(): return
    if not ck.prove(["ZixModel.Properties.C01", "ZixModel.Properties.C01Remove", "ZixModel.Properties.C01History"]):
        ck.report_proof_failure("theorems about the B-tree model no longer build")
    cfgs = bc.build(ck)
    if not cfgs: return
    q = ck.tier == "quick"
    hs = bc.histories(ck, cfgs, 250 if q else 3000, 3 if q else 20, "light")
    for page, exe, cfg, margs in cfgs:
        hist = hs[page]
        for h in hist:
            ck.count_distinct(tuple(h))
            for l in h: ck.hist(l.split()[0])
        if page == "p64": ck.sample(hist[0][:12])
        ck.kcompare(page, exe, "c01", hist, model_args=margs, corpus_prefix=page.rstrip("n"), what="B-tree (build %s: leaf %d / inode %d values) differs from the model" % ((page,) + cfg[:2]))

    known_height(ck)
    rejected_geometries(ck)

def rejected_geometries(ck):
    """Page sizes outside the theorems' hypotheses (Cfg.Valid needs INODE_VALS >= 3; iterator indexes are 16 bits) must be
    refused by the sources.  If one compiles, the harness's own set oracle looks for the failing history on that build."""
    import os, subprocess
    from vlib import REPO, sh, SAN, FEATURES, GUARD, VERIF
    ck.cov["rejected_geometries"] = {}
    for page, mode in [(32, "small"), (1 << 20, "big"), (1 << 21, "big")]:
        exe = os.path.join(ck.work, "h_c01_geom%d" % page)
        r = sh(["gcc", "-std=gnu11"] + SAN + ["-I", os.path.join(REPO, "include"), "-I", os.path.join(REPO, "src"), "-I", os.path.join(VERIF, "harness")] + FEATURES + [GUARD,
                "-DZIX_BTREE_PAGE_SIZE=%dU" % page, "-DZIX_BTREE_MAX_HEIGHT=24U", os.path.join(VERIF, "harness/h_c01.c"), os.path.join(REPO, "src/allocator.c"), "-o", exe])
        ck.cov["obligations"] += 1
        if r.returncode != 0:
            if "static assertion failed" in (r.stderr or "") or "static_assert" in (r.stderr or ""):
                ck.cov["rejected_geometries"][str(page)] = "rejected at compile time"
                ck.cov["discharged"] += 1
                continue
            ck.machinery_error("B-tree harness for page size %d does not compile for another reason:\n%s" % (page, (r.stderr or "")[-1500:])); return
        ck.cov["rejected_geometries"][str(page)] = "ACCEPTED"
        env = dict(os.environ, ASAN_OPTIONS="detect_leaks=0:abort_on_error=0:allocator_may_return_null=1")
        found = None
        if mode == "small":
            for seed in range(1, 40):
                o = subprocess.run([exe, "--selftest", str(seed), "400", "24"], capture_output=True, text=True, env=env, timeout=300)
                if "SELFTEST-OK" not in o.stdout:
                    found = "# %s/h_c01 (page size %d) --selftest %d 400 24\n%s\n%s" % ("harness", page, seed, o.stdout[-6000:], (o.stderr or "")[-1500:]); break
        else:
            o = subprocess.run([exe, "--bigleaf", "70000"], capture_output=True, text=True, env=env, timeout=600)
            if "BIGLEAF-OK" not in o.stdout:
                found = "# harness/h_c01 (page size %d) --bigleaf 70000\n%s\n%s" % (page, o.stdout[-3000:], (o.stderr or "")[-1500:])
        head = ("# property C01 — the sources accept ZIX_BTREE_PAGE_SIZE=%d, a page geometry outside the hypotheses of the B-tree theorems (Cfg.Valid: INODE_VALS >= 3; "
                "leaf positions must fit the iterator's 16-bit indexes)\n" % page)
        if found:
            ck.report_violation("geom", head + "# verdict: concrete failing history found on that build by the harness's own sorted-set oracle\n#--- failing input\n" + found)
        else:
            ck.report_violation("geom", head + "# verdict: no-failing-input-found\n", found=False)

def known_height(ck):
    """Replay of the recorded finding: page 64 with the default maximum height."""
    import os, subprocess
    from vlib import REPO
    exe = ck.cc("h_c01_p64_default_height", ["h_c01.c", os.path.join(REPO, "src/allocator.c")], flags=["-DZIX_BTREE_PAGE_SIZE=64U"])
    if not exe: return
    cfg = subprocess.run([exe, "--cfg"], capture_output=True, text=True).stdout.split()
    lines = ["new %s %s %s" % tuple(cfg)] + ["ins %d" % i for i in range(1, 261)]
    sp = ck.write_script("height.script", lines)
    rc, out, err = ck.run_impl(exe, sp)
    if any("exceeds-ZIX_BTREE_MAX_HEIGHT" in l for l in out):
        e = ck.known_finding("btree-height-exceeds-max-height-on-small-pages")
        if e: ck.hit_known(e)
        else: ck.report_violation("height", "# property C01 — page 64 / default max height: 260 ascending inserts exceed ZIX_BTREE_MAX_HEIGHT\n#--- script\n" + "\n".join(lines[:3]) + "\n... (260 ascending inserts)\n")
