"""C01 — B-tree is a sorted set under every operation history."""
import btree_common as bc
import gen_btree
from vlib import REPO

def run(ck):
    ck.level = "proof"
    ck.cov["rule"] = ("histories of insert/remove/find/lower_bound/walk/clear on four builds (page 64, 128, 256 with MAX_HEIGHT 24; page 4096 default); key orders random, "
                      "ascending, descending, zig-zag, drain-to-minimum-then-poke; after every call status, removed element, size and (white-box) the whole tree "
                      "(page ids, values, children), allocation events, comparator-call count and height are compared with the model; non-trivial = distinct history")
    ck.assumptions += ["the comparator is a total order (integers)", "page sizes are powers of two >= 64 (the sources reject others)"]
    try:
        ck.write_generated("BTreeCfg.lean", gen_btree.generate(REPO, ck.work))
    except Exception as e:
        ck.machinery_error("translator gen_btree failed: %r" % (e,)); return
    if not ck.build_driver(): return
    if not ck.prove(["ZixModel.Properties.C01", "ZixModel.Properties.C01Remove", "ZixModel.Properties.C01History"]):
        ck.report_proof_failure("theorems about the B-tree model no longer build")
    cfgs = bc.build(ck)
    if not cfgs: return
    q = ck.tier == "quick"
    hs = bc.histories(ck, cfgs, 250 if q else 3000, 3 if q else 20, "light")
    for page, exe, cfg, margs in cfgs:
        hist = hs[page]
        for h in hist:
            ck.count_distinct(tuple(h))
            for l in h: ck.hist(l.split()[0])
        if page == "p64": ck.sample(hist[0][:12])
        ck.kcompare(page, exe, "c01", hist, model_args=margs, corpus_prefix=page.rstrip("n"), what="B-tree (build %s: leaf %d / inode %d values) differs from the model" % ((page,) + cfg[:2]))

    known_height(ck)

def known_height(ck):
    """Replay of the recorded finding: page 64 with the default maximum height."""
    import os, subprocess
    from vlib import REPO
    exe = ck.cc("h_c01_p64_default_height", ["h_c01.c", os.path.join(REPO, "src/allocator.c")], flags=["-DZIX_BTREE_PAGE_SIZE=64U"])
    if not exe: return
    cfg = subprocess.run([exe, "--cfg"], capture_output=True, text=True).stdout.split()
    lines = ["new %s %s %s" % tuple(cfg)] + ["ins %d" % i for i in range(1, 261)]
    sp = ck.write_script("height.script", lines)
    rc, out, err = ck.run_impl(exe, sp)
    if any("exceeds-ZIX_BTREE_MAX_HEIGHT" in l for l in out):
        e = ck.known_finding("btree-height-exceeds-max-height-on-small-pages")
        if e: ck.hit_known(e)
        else: ck.report_violation("height", "# property C01 — page 64 / default max height: 260 ascending inserts exceed ZIX_BTREE_MAX_HEIGHT\n#--- script\n" + "\n".join(lines[:3]) + "\n... (260 ascending inserts)\n")
