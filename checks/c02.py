"""C02 — B-tree positional queries: lower_bound, find, remove-next, increment, equals."""
import btree_common as bc

def run(ck):
    ck.level = "proof"
    ck.cov["rule"] = ("histories as for C01 on the small-page builds (heights 2..6), with after every few operations a sweep: lower_bound for every key in, between, "
                      "below and above the stored keys with the exact comparator, and for every prefix with a wildcard comparator (v/16), iterator equality of "
                      "pairs of positions, a full begin..end walk; every remove reports its `next`; compared: the element each iterator dereferences to (API) and its "
                      "index path per level (white-box); the harness checks comparator argument order and user data; non-trivial = distinct history")
    ck.assumptions += ["the search comparator is compatible with the tree order (monotone; wildcard v/16)"]
    if not ck.build_driver(): return
    if not ck.prove(["ZixModel.Properties.C02", "ZixModel.Properties.C01Remove"]):
        ck.report_proof_failure("theorems about B-tree positional queries no longer build")
    cfgs = bc.build(ck, pages=[p for p in bc.PAGES if p[0] <= 256])
    if not cfgs: return
    q = ck.tier == "quick"
    hs = bc.histories(ck, cfgs, 120 if q else 1500, 0, "heavy")
    for page, exe, cfg, margs in cfgs:
        hist = hs[page]
        for h in hist:
            ck.count_distinct(tuple(h))
            for l in h: ck.hist(" ".join(l.split()[:2]) if l.startswith("lb") else l.split()[0])
        if page == "p64": ck.sample(hist[1][:14])
        ck.kcompare(page, exe, "c01", hist, model_args=margs, corpus_prefix=page.rstrip("n"), what="B-tree positional queries (build %s) differ from the model" % page)
