"""C03 — hash table is a faithful, always-terminating map for any hash function."""
import os
import gen_hash
from vlib import REPO

FAMILIES = {
    "constant": lambda k: 7,
    "identity": lambda k: k,
    "lowbits": lambda k: (k * 64) & 0xFFFFFFFF,          # all keys collide in the low 6 bits
    "mixed": lambda k: (k * 0x9E3779B97F4A7C15 + 0x1234567) % 2 ** 64,
    "twobucket": lambda k: 0xDEAD if k % 2 else 0,       # codes equal to the tombstone marker and to zero
}

def history(rng, fam, churn):
    h = ["new"]
    code = FAMILIES[fam]
    live = {}        # key -> rec
    nextrec = 1
    nops = rng.randint(20, 300)
    keyspace = rng.choice([6, 12, 40, 200])
    fresh = 1000
    for _ in range(nops):
        r = rng.random()
        if churn:
            # hold the live count between the shrink and grow thresholds, cycling fresh keys
            if len(live) >= 2 and rng.random() < 0.5:
                k = rng.choice(list(live)); h.append("%s %d %d" % (rng.choice(["rm", "erase"]), k, code(k))); del live[k]
            else:
                fresh += 1; k = fresh
                h.append("%s %d %d %d" % (rng.choice(["ins", "pins", "pinsp"]), nextrec, k, code(k))); live[k] = nextrec; nextrec += 1
                if len(live) > 3:
                    k2 = rng.choice(list(live)); h.append("rm %d %d" % (k2, code(k2))); del live[k2]
            if rng.random() < 0.3:
                k = rng.randint(5000, 5010); h.append("%s %d %d" % (rng.choice(["find", "findr", "rm"]), k, code(k)))
            continue
        k = rng.randint(1, keyspace)
        if rng.random() < 0.04:
            # erase at an arbitrary iterator value: the end iterator (what find returns for an absent key), any slot, beyond the table
            h.append("eraseat " + rng.choice(["end", str(rng.randint(0, 7)), str(rng.randint(0, 70)), str(rng.randint(0, 600))]))
            continue
        if r < 0.40:
            h.append("%s %d %d %d" % (rng.choice(["ins", "ins", "pins", "pinsp"]), nextrec, k, code(k)))
            if k not in live: live[k] = nextrec
            nextrec += 1
        elif r < 0.60:
            h.append("%s %d %d" % (rng.choice(["find", "findr"]), k, code(k)))
        elif r < 0.90:
            h.append("%s %d %d" % (rng.choice(["rm", "erase"]), k, code(k))); live.pop(k, None)
        else:
            h.append("iter")
        if nextrec > 4000: break
    h.append("iter")
    return h

def run(ck):
    ck.level = "proof"
    ck.cov["rule"] = ("histories of insert / plan+insert_at / prehashed plan / find / find_record / remove / erase (also at the end iterator, at tombstones, empty slots and beyond the table) / iterate under five hash families "
                      "(constant, identity, low-bit-colliding, mixed, codes equal to 0 and to the tombstone marker), key at offset 0/8/24 in the record, "
                      "uniform and churn generators (live count held between shrink and grow thresholds while fresh keys cycle); per call: status, record, "
                      "size, the whole slot array, count, n_entries and the callback-argument log are compared; each call under a CPU watchdog")
    ck.assumptions += ["the user's equality is key identity and equal keys have equal codes (the API's contract)"]
    try:
        ck.write_generated("HashConst.lean", gen_hash.generate(REPO))
    except Exception as e:
        ck.translator_failed("translator gen_hash failed: %r" % (e,))
    if not ck.build_driver(): return
    if not ck.prove(["ZixModel.Properties.C03", "ZixModel.Properties.C03History"]):
        ck.report_proof_failure("theorems about the hash-table model / regenerated constants no longer build")
    exe = ck.cc("h_c03", ["h_c03.c", os.path.join(REPO, "src/allocator.c")])
    if not exe: return
    nh = 150 if ck.tier == "quick" else 1500
    for off in (0, 8, 24):
        hist = []
        for fam in FAMILIES:
            for i in range(nh):
                hist.append(history(ck.rng, fam, churn=(i % 3 == 0)))
                ck.count_distinct(tuple(hist[-1]))
                for l in hist[-1]: ck.hist(l.split()[0])
        if off == 0: ck.sample(hist[0][:10]); ck.sample(hist[nh][:6])
        # the layout line is consumed by the harness only; the model's keys are ids, independent of the layout
        hist = [["layout %d" % off] + h for h in hist]
        ck.kcompare("off%d" % off, exe, "c03", hist, keep_head=2, what="hash table (key at offset %d) differs from the model" % off)
