"""C04 — the ring is a correct SPSC channel on every schedule (C11 release/acquire)."""
import os, subprocess
import gen_ringoff, gen_ringorders
from vlib import REPO, VERIF, FEATURES, sh

def build(ck):
    inc = ["-I", os.path.join(REPO, "include"), "-I", os.path.join(REPO, "src"), "-I", os.path.join(VERIF, "harness")] + FEATURES
    try:
        offs = gen_ringoff.flags(REPO, ck.work)
    except Exception as e:
        ck.machinery_error("ring.c: struct offsets could not be obtained: %r" % (e,)); return None
    obj = os.path.join(ck.work, "ring_tsan.o")
    r = sh(["clang-14", "-std=gnu11", "-O1", "-g", "-fsanitize=thread", "-Dmemcpy=verif_memcpy", "-c", os.path.join(REPO, "src/ring.c"), "-o", obj] + inc)
    if r.returncode != 0:
        ck.machinery_error("ring.c does not compile with thread instrumentation:\n" + r.stderr[-2000:]); return None
    exe = os.path.join(ck.work, "h_c04")
    r = sh(["clang-14", "-std=gnu11", "-O1", "-g", os.path.join(VERIF, "harness/h_c04.c"), obj, os.path.join(REPO, "src/allocator.c"),
            os.path.join(REPO, "src/errno_status.c"), "-o", exe, "-lpthread"] + inc + offs)
    if r.returncode != 0:
        ck.machinery_error("C04 harness does not link:\n" + r.stderr[-2000:]); return None
    return exe

def header_attributes(ck):
    """(G) The attribute macro on each public ring function, read from the header.  A function that loads a head the other
    thread stores (everything but zix_ring_capacity) must not be declared pure or const: the caller's compiler may then
    merge or hoist calls, and a polling loop never sees the other side's progress."""
    import re
    txt = open(os.path.join(REPO, "include/zix/ring.h")).read()
    txt = re.sub(r"/\*.*?\*/", "", txt, flags=re.S)
    decls = re.findall(r"\b(ZIX_[A-Z_]*API)\b([^;{}]*?)\b(zix_ring_\w+)\s*\(", txt)
    if len(decls) < 10: raise RuntimeError("ring.h: declarations not recognised")
    return {name: api for api, _, name in decls}

def build_client(ck):
    """The client-view harness: optimised caller that sees only the public header; ring.c compiled separately."""
    inc = ["-I", os.path.join(REPO, "include"), "-I", os.path.join(REPO, "src")] + FEATURES
    objs = []
    for f in ["ring.c", "allocator.c", "errno_status.c"]:
        o = os.path.join(ck.work, "cw_" + f.replace(".c", ".o"))
        r = sh(["gcc", "-std=gnu11", "-O2", "-c", os.path.join(REPO, "src", f), "-o", o] + inc)
        if r.returncode != 0:
            ck.machinery_error("%s does not compile:\n%s" % (f, r.stderr[-2000:])); return None
        objs.append(o)
    exe = os.path.join(ck.work, "h_c04w")
    r = sh(["gcc", "-std=gnu11", "-O2", os.path.join(VERIF, "harness/h_c04w.c")] + objs + ["-o", exe, "-lpthread", "-I", os.path.join(REPO, "include")])
    if r.returncode != 0:
        ck.machinery_error("C04 client-view harness does not build:\n" + r.stderr[-2000:]); return None
    return exe

def run(ck):
    ck.level = "proof"
    ck.cov["rule"] = ("for every public thread-safe function (write, begin/amend/amend/commit, write_space, read, peek, skip, read_space) x ring size N in {1,2,4,8,16} (thorough: to 64) x every head pair "
                      "(r, w) x every request size 0..N+1: the sequence of shared-memory accesses (atomic load/store with memory order, per-byte buffer reads and writes, any plain access to a head that "
                      "is not the thread's own) logged from the clang -fsanitize=thread instrumentation of ring.c must equal the program of the model whose theorems quantify over all schedules; "
                      "plus return value and both heads. A two-thread soak run checks the byte stream on this hardware (support only).")
    ck.assumptions += ["C11 release/acquire fragment rendered as the view-based machine of Model/RingRA.lean (single-writer atomics, stale acquire loads, position-based happens-before); no relaxed accesses or fences in the code (a change there changes the log)",
                       "zix_ring_reset and zix_ring_mlock are documented as not thread-safe and are not part of the concurrent programs",
                       "clang 14's ThreadSanitizer pass reports every memory access of ring.c that is not provably thread-local",
                       "Model/RingRAX.lean (vector-clock happens-before, relaxed accesses publish/acquire nothing) is only the search engine for a failing schedule when the orders change; it carries no theorem"]
    exe = build(ck)
    if not exe: return
    try:
        ck.write_generated("RingOrders.lean", gen_ringorders.generate(exe, ck.work))
    except Exception as e:
        ck.translator_failed("translator failed: %r" % (e,))
    if not ck.build_driver(): return
    explore_line = "explore observed 300 300"
    if ck.replay and "explore " in open(ck.replay if os.path.isabs(ck.replay) else os.path.join(VERIF, ck.replay)).read():
        sp = ck.write_script("explore.script", [explore_line])
        print("REPLAY explorer with the memory orders of the current tree: " + " ".join(ck.run_model("c04", sp, [])))
    if not ck.prove():
        # the orders compiled into ring.c are not the proved ones (or a theorem broke): search the happens-before machine
        # with the observed orders for a schedule with a data race or a wrong delivery
        sp = ck.write_script("explore.script", [explore_line])
        res = ck.run_model("c04", sp, [])
        found = res and res[0].startswith("explore found")
        what = "theorems about the SPSC ring machine no longer build (ring_orders_as_proved: the memory orders compiled into ring.c are regenerated on every run)"
        if found:
            orders = open(os.path.join(VERIF, "lean/ZixModel/Generated/RingOrders.lean")).read()
            ck.report_proof_failure(what, found_input_text="# schedule found by the happens-before machine Model/RingRAX.lean run with the memory orders observed in ring.c\n"
                                    "# (each step: W/R = writer/reader thread moves; the digit = how many stores past its view an atomic load returns)\n"
                                    "# replay: bin/check C04 --replay <this file>\n#--- script\n" + explore_line + "\n#--- result\n# " + res[0] + "\n#--- observed orders\n"
                                    + "\n".join("# " + l for l in orders.splitlines()))
        else:
            ck.report_proof_failure(what)
    else:
        # sanity of the search engine: with the proved orders it must find nothing (consistent with spsc_race_free)
        sp = ck.write_script("explore.script", ["explore 111111111 300 300"])
        res = ck.run_model("c04", sp, [])
        if res != ["explore none"]:
            ck.machinery_error("the happens-before search reports a violation under the proved memory orders: %r" % (res,)); return
        ck.cov["evaluations"] += 4 * 300
    sizes = [1, 2, 4, 8, 16] if ck.tier == "quick" else [1, 2, 3, 4, 8, 16, 32, 64]
    hist = []
    for N in sizes:
        n = 1
        while n < N: n *= 2
        h = []
        for fn in ["write", "tx", "wspace", "read", "peek", "skip", "rspace"]:
            for r in range(n):
                for w in range(n):
                    for size in ([0] if fn in ("wspace", "rspace") else range(0, n + 2)):
                        h.append("acc %s %d %d %d %d" % (fn, N, r, w, size))
                        ck.count_distinct(h[-1], size > 0)
        hist.append(h)
    soak = []
    for N in [1, 2, 7, 64, 1024]:
        soak.append("soak %d %d %d" % (N, 200000 if ck.tier == "quick" else 5000000, ck.seed + N))
    hist.append(soak)
    ck.sample(hist[2][:4]); ck.sample(soak[:1])
    for h in hist:
        for l in h: ck.hist(l.split()[1] if l.startswith("acc") else "soak")
    ck.kcompare("k", exe, "c04", hist, keep_head=0, corpus_prefix="acc", what="the shared-memory access sequence of a ring function differs from the model's program")
    # the caller's view: attributes of the public declarations, and optimised polling loops on both sides
    cexe = build_client(ck)
    if not cexe: return
    spins = [["spinread 1", "spinwrite 1", "spinread 100", "spinwrite 700"]]
    try:
        attrs = header_attributes(ck)
    except Exception as e:
        ck.translator_failed("translator (ring.h attributes) failed: %r" % (e,))
        attrs = {}
    ck.cov["header_attributes"] = attrs
    ck.cov["obligations"] += 1
    bad = sorted(n for n, a in attrs.items() if ("PURE" in a or "CONST" in a) and n != "zix_ring_capacity")
    if bad:
        ck.report_violation("client", "# property C04 — public declarations of the ring\n# declared pure/const in include/zix/ring.h although each call loads a head that the other thread stores: "
                            + ", ".join(bad) + "\n# the caller's compiler may merge or hoist such calls: a thread polling in a loop that writes no memory never sees the other side's progress\n"
                            "# replay: bin/check C04 --replay <this file>   (runs the optimised polling loops of harness/h_c04w.c)\n#--- script\nspinread 1\nspinwrite 1\n")
    else:
        ck.cov["discharged"] += 1
    ck.kcompare("client", cexe, "c04", spins, keep_head=0, corpus_prefix="client", what="a caller polling the ring through the public header does not see the other side's progress")
