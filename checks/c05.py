"""C05 — ring is an all-or-nothing bounded byte FIFO with atomic transactions (single thread)."""
import os
from vlib import REPO

def hexs(bs): return "".join("%02x" % b for b in bs) or "-"

def pow2ceil(s):
    n = 1
    while n < s: n *= 2
    return n

class Gen:
    """History generator that tracks the FIFO fill level so that requests cluster around the
    boundaries (exactly fits / one too many), and wrap-around offsets are all visited."""
    def __init__(self, rng): self.rng = rng; self.ctr = 0
    def data(self, n):
        out = []
        for _ in range(n):
            self.ctr = (self.ctr + 1) % 251
            out.append(self.ctr + 1)
        return out
    def history(self, size, nops):
        rng = self.rng
        cap = pow2ceil(size) - 1
        fill = 0
        h = ["new %d" % size]
        def req(space):
            x = rng.random()
            if x < 0.30: return space
            if x < 0.45: return space + 1
            if x < 0.55: return max(space - 1, 0)
            if x < 0.60: return 0
            if x < 0.65: return cap + rng.randint(0, 2)
            return rng.randint(0, max(space, 1))
        i = 0
        while i < nops:
            r = rng.random()
            if r < 0.30:
                n = req(cap - fill); h.append("write " + hexs(self.data(n)))
                if n <= cap - fill: fill += n
            elif r < 0.55:
                n = req(fill); h.append("read %d" % n)
                if n <= fill: fill -= n
            elif r < 0.62:
                h.append("peek %d" % req(fill))
            elif r < 0.70:
                n = req(fill); h.append("skip %d" % n)
                if n <= fill: fill -= n
            elif r < 0.73:
                h.append("reset"); fill = 0
            elif r < 0.80:
                h.append(rng.choice(["rspace", "wspace", "cap"]))
                if rng.random() < 0.1:   # sizes zix_ring_new must refuse (the rounding wraps to zero), and the largest it accepts
                    h.append("newbad %d" % rng.choice([0, 2 ** 31 + 1, 2 ** 32 - 1, 2 ** 31 + rng.randint(1, 2 ** 31 - 1), 3 * 2 ** 30]))
            else:
                h.append("begin"); amended = 0; fill0 = fill
                for _ in range(rng.randint(0, 4)):
                    if rng.random() < 0.25:
                        n = req(fill); h.append("read %d" % n)
                        if n <= fill: fill -= n   # reader progress is not seen by the open transaction
                    n = req(max(cap - fill0 - amended, 0)) if rng.random() < 0.7 else rng.randint(0, 3)
                    h.append("amend " + hexs(self.data(n)))
                    if n <= cap - fill0 - amended: amended += n
                    i += 1
                if rng.random() < 0.75:
                    h.append("commit"); fill += amended
                else:
                    h.append("abandon")
                h.append("rspace"); h.append("wspace")
            i += 1
        return [l for l in h if l]

def build_harness(ck):
    return ck.cc("h_c05", ["h_c05.c", os.path.join(REPO, "src/allocator.c"), os.path.join(REPO, "src/errno_status.c")])

def alloc_histories(ck):
    """zix_ring_new / zix_ring_free under refusal patterns (used by C07 and C08): result and allocator event log vs Model/RingAlloc.lean."""
    h = ["new 8"]
    for size in [0, 1, 2, 3, 5, 8, 9, 1000, 4096, 4097, 65535, 65536]:
        for mask in ["-", "0", "1", "0,1", "2", "1,2"]:
            h.append("newa %s %d" % (mask, size)); ck.count_distinct(("newa", mask, size))
    return [h]

def run(ck):
    ck.level = "proof"
    ck.cov["rule"] = ("histories 'new <size>' + up to 300 write/read/peek/skip/reset/space/begin-amend*-commit|abandon calls; sizes 1..130, "
                      "2^k and 2^k±1 up to 2^16 (thorough: 2^20); request sizes cluster at exactly-fits / one-too-many / 0 / beyond capacity; "
                      "interleaved zix_ring_new calls with sizes it must refuse (0, 2^31+1 .. 2^32-1); compared per call: return value, bytes delivered, both heads, the open transaction; non-trivial = distinct history")
    ck.assumptions += ["memcpy copies bytes", "ring sizes 1..2^31; 0 and >2^31 make next_power_of_two return 0 and are refused by zix_ring_new (theorem ring_new_refuses_iff, operation newbad)"]
    if not ck.build_driver(): return
    if not ck.prove(["ZixModel.Properties.C05", "ZixModel.Properties.C05History"]):
        ck.report_proof_failure("theorems about the ring model no longer build")
    exe = build_harness(ck)
    if not exe: return
    g = Gen(ck.rng)
    sizes = list(range(1, 131)) + [2 ** k + d for k in range(8, 17 if ck.tier == "quick" else 21) for d in (-1, 0, 1)]
    per = 6 if ck.tier == "quick" else 60
    hist = []
    for s in sizes:
        for _ in range(per if s <= 130 else 1):
            hist.append(g.history(s, ck.rng.randint(20, 300 if s <= 130 else 60)))
    for h in hist[:2]: ck.sample(h[:12])
    for h in hist:
        for l in h: ck.hist(l.split()[0])
        ck.count_distinct(tuple(h))
    ck.kcompare("k", exe, "c05", hist, what="ring value semantics differ from the model")
