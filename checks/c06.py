"""C06 — ZixTree is a balanced sorted (multi)set with stable bidirectional iterators."""
import os
from vlib import REPO

def history(rng, dups, style):
    h = ["new %d" % (1 if dups else 0)]
    nops = rng.randint(10, 400)
    keyspace = rng.choice([8, 30, 200, 5000])
    size = 0
    asc = 0
    for _ in range(nops):
        r = rng.random()
        if style == "asc": k = asc; asc += 1 if rng.random() < 0.9 else 0
        elif style == "desc": k = -asc; asc += 1
        elif style == "zigzag": asc += 1; k = asc if asc % 2 else -asc
        else: k = rng.randint(0, keyspace)
        if r < 0.50 or size < 3:
            h.append("ins %d" % k); size += 1
        elif r < 0.62:
            h.append("find %d" % rng.randint(0, keyspace))
        elif r < 0.92:
            x = rng.random()
            # removal targets: anywhere, first, last, middle (often the root region)
            t = rng.randint(0, 10 ** 6) if x < 0.5 else 0 if x < 0.6 else max(size - 1, 0) if x < 0.7 else size // 2
            h.append("rm ~%d" % t); size = max(size - 1, 0)
        else:
            h.append("walk")
    h.append("walk")
    if rng.random() < 0.7:
        while size > 0 and rng.random() < 0.9:
            h.append("rm ~%d" % rng.randint(0, 10 ** 6)); size -= 1
        h.append("walk")
    h.append("free")
    return h

def run(ck):
    ck.level = "proof"
    ck.cov["rule"] = ("histories of insert / find / remove-by-position / forward+backward walk / free, duplicates on and off, key orders random, ascending, "
                      "descending, zig-zag; after every call the whole shape (node id, key, balance factor, parent id in pre-order), size and comparator-call count "
                      "are compared with the model; the harness itself checks iterator stability, destroy-once, callback user data, allocator balance, the proved comparison bound of every find (reachable_find_bound), and the allocator events of every call (header, one node per element) against the model")
    ck.assumptions += ["the comparator is a total order (integers)"]
    if not ck.build_driver(): return
    if not ck.prove(["ZixModel.Properties.C06", "ZixModel.Properties.C06History", "ZixModel.Properties.C06Iter"]):
        ck.report_proof_failure("theorems about the AVL model no longer build")
    exe = ck.cc("h_c06", ["h_c06.c", os.path.join(REPO, "src/allocator.c")])
    if not exe: return
    nh = 600 if ck.tier == "quick" else 8000
    hist = []
    for i in range(nh):
        hist.append(history(ck.rng, dups=(i % 2 == 0), style=["rand", "rand", "asc", "desc", "zigzag", "rand"][i % 6]))
        ck.count_distinct(tuple(hist[-1]))
        for l in hist[-1]: ck.hist(l.split()[0])
    ck.sample(hist[0][:12]); ck.sample(hist[3][:8])
    ck.kcompare("k", exe, "c06", hist, what="ZixTree differs from the AVL model")
