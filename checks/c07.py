"""C07 — allocation failure is reported, atomic, leak-free and survivable."""
import os
import btree_common as bc
import c03 as hashgen
import c06 as avlgen
from vlib import REPO

def hx(s): return s.encode().hex() or "-"

def btree_fault_history(rng, cfg, nops):
    """Random history where single and persistent faults are armed before inserts, followed by a
    continuation with memory restored (every query compared with the model)."""
    h = ["new %d %d %d" % cfg]
    present = set()
    ctr = 0
    for i in range(nops):
        r = rng.random()
        ctr += 1
        k = ctr if rng.random() < 0.6 else rng.randint(0, 300)     # ascending runs fill pages → splits and grow_up
        if r < 0.62:
            x = rng.random()
            if x < 0.25: h.append("failat %d" % rng.randint(0, 3))
            elif x < 0.35: h.append("failfrom %d" % rng.randint(0, 2))
            h.append("ins %d" % k)
            if x >= 0.25 and x < 0.35:
                h.append("ins %d" % (k + 1000)); h.append("failclear")
            present.add(k)
        elif r < 0.85 and present:
            v = rng.choice(sorted(present)); h.append("rm %d" % v); present.discard(v)
        elif r < 0.93: h.append("find %d" % k)
        else: h.append("walk")
    h.append("failclear"); h.append("walk")
    ks = sorted(present); rng.shuffle(ks)
    for v in ks[: len(ks) // 2]: h.append("rm %d" % v)
    h.append("walk"); h.append("clear"); h.append("ins 1"); h.append("walk")
    return h

def run(ck):
    ck.level = "proof"
    ck.cov["rule"] = ("B-tree: histories with single ('request k from now') and persistent faults armed before inserts on page sizes 64/128, followed by continuations with memory restored — status, "
                      "contents, whole tree, allocation events compared with the model under the same oracle; new-tree construction under every fault index. Hash: every insert/remove with the "
                      "(single) table allocation refused, continuation compared. AVL: insertion with the node refused. Ring construction, path builders, string_view_copy, environment expansion, "
                      "create_directories, canonical/current/temp path, temporary directory: for EVERY request index k (single and persistent) the result must be the documented failure or the "
                      "fault-free result, with no leak and no allocator misuse (ASan/UBSan). copy_file and file_equals fallbacks are exercised by C14/C15.")
    ck.assumptions += ["a refusing allocator returns NULL and leaves its other blocks intact"]
    if not ck.build_driver(): return
    mods = ["ZixModel.Properties.C07", "ZixModel.Properties.C07Env", "ZixModel.Properties.C08Ring"]
    if not ck.prove(mods):
        ck.report_proof_failure("allocation-failure theorems no longer build")
    q = ck.tier == "quick"
    # environment expansion under an arbitrary refusal pattern: result and allocator events vs Model/EnvAlloc.lean
    # (theorems expandA_atomic_leak_free, expandA_no_fault_succeeds)
    # the ring's constructor and destructor under refusal patterns (theorems ring_new_leak_free, ring_lifecycle_balanced)
    import c05 as ringgen
    rexe = ringgen.build_harness(ck)
    if not rexe: return
    ck.kcompare("ring", rexe, "c05", ringgen.alloc_histories(ck), corpus_prefix="ring", what="zix_ring_new / zix_ring_free under refused allocations differ from the model (result or allocator events)")
    import c16 as envgen
    eexe = envgen.build_harness(ck)
    if not eexe: return
    ck.kcompare("env", eexe, "c16", envgen.alloc_histories(ck), corpus_prefix="env", what="zix_expand_environment_strings under refused allocations differs from the model (result or allocator events)")
    # ---- B-tree
    cfgs = bc.build(ck, pages=[(64, 24, False), (128, 24, True)])
    if not cfgs: return
    for page, exe, cfg, margs in cfgs:
        hist = [btree_fault_history(ck.rng, cfg, ck.rng.randint(30, 260)) for _ in range(150 if q else 2000)]
        # construction under every fault schedule
        hist.append(["failat 0", "new %d %d %d" % cfg, "failat 1", "new %d %d %d" % cfg, "failfrom 0", "new %d %d %d" % cfg, "failclear", "new %d %d %d" % cfg, "ins 3", "walk"])
        for h in hist:
            ck.count_distinct(("bt", tuple(h)))
            for l in h: ck.hist("btree-" + l.split()[0])
        ck.sample(hist[0][:10])
        ck.kcompare("bt" + page, exe, "c01", hist, model_args=margs, corpus_prefix="bt" + page.rstrip("n"), what="B-tree under allocation faults (build %s) differs from the model" % page)
    # ---- hash
    exe = ck.cc("h_c03", ["h_c03.c", os.path.join(REPO, "src/allocator.c")])
    if not exe: return
    hist = []
    for i in range(120 if q else 1500):
        fam = list(hashgen.FAMILIES)[i % len(hashgen.FAMILIES)]
        base = hashgen.history(ck.rng, fam, churn=(i % 3 == 0))
        h = []
        for l in base:
            if l.split()[0] in ("ins", "pins", "pinsp", "rm", "erase") and ck.rng.random() < 0.3: h.append("failnext")
            h.append(l)
            if ck.rng.random() < 0.03: h.append("newfail %d" % ck.rng.randint(0, 1))   # creating another table fails: nothing may be kept
        hist.append(["layout %d" % ck.rng.choice([0, 8, 24])] + h)
        ck.count_distinct(("hash", tuple(h)))
    for h in hist:
        for l in h: ck.hist("hash-" + l.split()[0])
    ck.sample(hist[0][:8])
    ck.kcompare("hash", exe, "c03", hist, keep_head=2, corpus_prefix="hash", what="hash table under allocation faults differs from the model")
    # ---- AVL
    exe = ck.cc("h_c06", ["h_c06.c", os.path.join(REPO, "src/allocator.c")])
    if not exe: return
    hist = []
    for i in range(100 if q else 1200):
        base = avlgen.history(ck.rng, dups=(i % 2 == 0), style="rand")
        h = []
        for l in base:
            if l.startswith("ins ") and ck.rng.random() < 0.25: h.append("insfail " + l.split()[1])
            h.append(l)
            if ck.rng.random() < 0.03: h.append("newfail")
        hist.append(h); ck.count_distinct(("avl", tuple(h)))
    ck.kcompare("avl", exe, "c06", hist, corpus_prefix="avl", what="ZixTree under allocation faults differs from the model")
    # ---- file_equals: every pattern of refused page requests (none, both, only the first, only the second)
    srcs15 = ["h_c15.c"] + [os.path.join(REPO, "src", f) for f in ["posix/filesystem_posix.c", "system.c", "errno_status.c", "filesystem.c", "path.c", "string_view.c", "allocator.c", "posix/system_posix.c"]]
    exe = ck.cc("h_c15", srcs15, flags=["-Wl,--wrap=fstat,--wrap=fstat64,--wrap=mkdir"])
    if not exe: return
    s15 = os.path.join(ck.work, "fs15c07"); os.makedirs(s15, exist_ok=True)
    sp = ck.write_script("page.script", ["page"])
    rc, out, err = ck.run_impl(exe, sp, [s15])
    page = int(out[0].split("=")[1]) if out else 4096
    lines = []
    for la, lb, d in [(0, 0, -1), (1, 1, -1), (1, 1, 0), (512, 512, 511), (513, 513, -1), (page, page, -1), (page + 1, page + 1, page), (3 * page, 3 * page, 2 * page), (700, 701, -1)]:
        for al in ("ok", "fail", "fail0", "fail1"):
            lines.append("feq %d %d %d 0 %s" % (la, lb, d, al)); ck.count_distinct(("feq", lines[-1])); ck.hist("feq-" + al)
    ck.kcompare("feq", exe, "c15", [lines], keep_head=0, impl_args=[s15], model_args=[str(page)], corpus_prefix="c15", what="file_equals under refused page allocations differs from the model")
    # ---- functions returning strings / statuses: implementation-only oracle over every fault index
    srcs = ["h_c07.c"] + [os.path.join(REPO, "src", f) for f in ["posix/filesystem_posix.c", "system.c", "errno_status.c", "filesystem.c", "path.c", "string_view.c", "allocator.c",
                                                                  "posix/system_posix.c", "posix/environment_posix.c", "ring.c"]]
    exe = ck.cc("h_c07", srcs)
    if not exe: return
    scratch = os.path.join(ck.work, "fs07"); os.makedirs(scratch, exist_ok=True)
    lines = []
    paths = ["", "a", "/", "a/b", "/a/../b/./c/", "../x", "a//b", "//a/b/../..", "./", "a/./b/.."]
    for a in paths:
        lines += ["norm " + hx(a), "pref " + hx(a), "svcopy " + hx(a)]
        for b in paths: lines += ["join %s %s" % (hx(a), hx(b)), "rel %s %s" % (hx(a), hx(b))]
    for s in ["", "plain", "$A", "x$A/y", "~", "~/a:$A$EMPTY$NOPE", "$A" * 12, "a" * 300 + "$A"]: lines.append("expand " + hx(s))
    for s in [".", "nonexistent", "/", "../" + os.path.basename(scratch)]: lines.append("canon " + hx(s))
    lines += ["curpath", "tmppath", "mktemp " + hx("zixtmpXXXXXX"), "mktemp " + hx("no-pattern-here"), "mktemp " + hx("nodir/zixtmpXXXXXX"), "mkdirs " + hx("m/n/o"), "mkdirs " + hx("m/n/o"), "mkdirs " + hx("p/./q/../r/")]
    for size in ["1", "8", "1000", "100000"]: lines.append("ring " + size)
    for size in ["0", "80000001", "ffffffff", "c0000000"]: lines.append("ringbad " + size)     # sizes (hex) the constructor must refuse
    sp = ck.write_script("c07.script", lines)
    rc, out, err = ck.run_impl(exe, sp, [scratch])
    ck.cov["evaluations"] += len(lines)
    for l in lines: ck.hist("fn-" + l.split()[0]); ck.count_distinct(("fn", l))
    if rc != 0 or len(out) != len(lines):
        ck.report_violation("fn", "# property C07 — a function crashed under an allocation fault (exit %s)\n# verdict: concrete failing input found\n#--- script (the call after the last output line)\n%s\n#--- output so far\n%s\n#--- stderr\n%s\n"
                            % (rc, "\n".join(lines[max(0, len(out) - 1): len(out) + 1]), "\n".join("# " + o for o in out[-3:]), "\n".join("# " + e for e in err.splitlines()[-25:])))
        return
    for l, o in zip(lines, out):
        if "SPEC-FAIL" in o:
            ck.report_violation("fn", "# property C07 — under some allocation fault index the result is neither the documented failure nor the fault-free result, or memory leaks\n"
                                "# verdict: concrete failing input found (implementation alone)\n#--- script\n%s\n#--- implementation output\n# %s\n" % (l, o))
            break
    ck.sample(lines[:3])
