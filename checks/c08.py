"""C08 — all memory goes through the caller's allocator and is released exactly once."""
import os, re, glob
import btree_common as bc
import c03 as hashgen
import c06 as avlgen
import c15 as fsgen
from vlib import REPO

GUARD_ALLOC = (os.path.join(REPO, "src/allocator.c"), ["-Dzix_default_allocator=real_zix_default_allocator"])
FORBID = ["-Dmalloc=v_forbidden_malloc", "-Dcalloc=v_forbidden_calloc", "-Drealloc=v_forbidden_realloc", "-Dfree=v_forbidden_free",
          "-Dposix_memalign=v_forbidden_posix_memalign"]

def hx(s): return s.encode().hex() or "-"

def zix_objs(files):
    return [(os.path.join(REPO, "src", f), FORBID) for f in files] + [GUARD_ALLOC]

def static_scan(ck):
    """No zix source other than allocator.c calls the C library's allocation functions directly."""
    bad = []
    for p in sorted(glob.glob(os.path.join(REPO, "src", "**", "*.c"), recursive=True)):
        if p.endswith("allocator.c") or "/win32/" in p or "/darwin/" in p: continue
        src = re.sub(r"//.*|/\*.*?\*/", "", open(p).read(), flags=re.S)
        for m in re.finditer(r"(?<![\w>.])(malloc|calloc|realloc|free|posix_memalign|aligned_alloc|strdup)\s*\(", src):
            bad.append("%s: %s" % (os.path.relpath(p, REPO), m.group(1)))
    ck.hist("static-scan-files", len(glob.glob(os.path.join(REPO, "src", "**", "*.c"), recursive=True)))
    if bad:
        ck.report_violation("static", "# property C08 — a zix source calls the C library's allocator directly, bypassing the caller's ZixAllocator\n# verdict: concrete call sites\n" + "\n".join(bad) + "\n")

def run(ck):
    ck.level = "proof"
    ck.cov["rule"] = ("every component is run on histories/inputs of its own property with (1) a tracking allocator that numbers blocks, logs every entry point, and reports release through the wrong entry, "
                      "double release, release of foreign pointers and blocks outstanding at the end; (2) a guard that aborts when a zix function uses the default allocator although the caller supplied one; "
                      "(3) zix sources compiled so that a direct call of malloc/calloc/realloc/free/posix_memalign aborts; B-tree page events, ZixTree header/node events and ZixHash header/entry-array events (allocate/free with block ids) are compared with the model per call; "
                      "copy_file is run with the kernel copy available and with copy_file_range forced to EXDEV/EINVAL/ENOSYS (the user-space loop); plus a static scan of src/ for libc allocation calls")
    ck.assumptions += ["allocator.c is the only place allowed to call the C library's allocation functions"]
    if not ck.build_driver(): return
    if not ck.prove(["ZixModel.Properties.C08", "ZixModel.Properties.C08Avl", "ZixModel.Properties.C08Hash", "ZixModel.Properties.C07Env", "ZixModel.Properties.C08Ring"]):
        ck.report_proof_failure("allocator-discipline theorems no longer build")
    static_scan(ck)
    q = ck.tier == "quick"
    # environment expansion: allocator events per call (every block released once or returned: expandA_atomic_leak_free)
    # the ring's constructor and destructor under refusal patterns (theorems ring_new_leak_free, ring_lifecycle_balanced)
    import c05 as ringgen
    rexe = ringgen.build_harness(ck)
    if not rexe: return
    ck.kcompare("ring", rexe, "c05", ringgen.alloc_histories(ck), corpus_prefix="ring", what="zix_ring_new / zix_ring_free under refused allocations differ from the model (result or allocator events)")
    import c16 as envgen
    eexe = envgen.build_harness(ck)
    if not eexe: return
    ck.kcompare("env", eexe, "c16", envgen.alloc_histories(ck), corpus_prefix="env", what="allocator events of zix_expand_environment_strings differ from the model")
    G = ["-DV_GUARD_DEFAULT"]
    # ---- B-tree (events compared with the model) -------------------------------------------------
    for page, mh in [(64, 24), (256, 24)]:
        exe = ck.cc("h_c01_g%d" % page, ["h_c01.c"], flags=G + ["-DZIX_BTREE_PAGE_SIZE=%dU" % page, "-DZIX_BTREE_MAX_HEIGHT=%dU" % mh], objs=[GUARD_ALLOC])
        if not exe: return
        import subprocess
        cfg = tuple(int(x) for x in subprocess.run([exe, "--cfg"], capture_output=True, text=True).stdout.split())
        hist = [bc.history(ck.rng, cfg, ["rand", "asc", "desc", "drain", "zigzag"][i % 5], ck.rng.randint(20, 400), "light", faults=(i % 3 == 0)) for i in range(120 if q else 1500)]
        for h in hist:
            ck.count_distinct(("bt", tuple(h)))
            for l in h: ck.hist("btree-" + l.split()[0])
        ck.kcompare("bt%d" % page, exe, "c01", hist, model_args=["nocmp"], corpus_prefix="none", what="B-tree page allocation events / allocator discipline (page %d)" % page)
    # ---- hash, AVL ------------------------------------------------------------------------------
    exe = ck.cc("h_c03_g", ["h_c03.c"], flags=G, objs=[GUARD_ALLOC])
    if not exe: return
    hist = [["layout %d" % ck.rng.choice([0, 8, 24])] + hashgen.history(ck.rng, list(hashgen.FAMILIES)[i % 5], churn=(i % 3 == 0)) for i in range(100 if q else 1200)]
    for h in hist:
        for pos in (len(h) // 3, 2 * len(h) // 3): h.insert(max(pos, 2), "newfail %d" % ck.rng.randint(0, 1))
    for h in hist: ck.count_distinct(("hash", tuple(h)))
    ck.kcompare("hash", exe, "c03", hist, keep_head=2, corpus_prefix="none", what="hash table allocator discipline")
    exe = ck.cc("h_c06_g", ["h_c06.c"], flags=G, objs=[GUARD_ALLOC])
    if not exe: return
    hist = [avlgen.history(ck.rng, dups=(i % 2 == 0), style="rand") for i in range(100 if q else 1200)]
    for h in hist: h.insert(max(len(h) // 2, 1), "newfail")
    for h in hist: ck.count_distinct(("avl", tuple(h)))
    ck.kcompare("avl", exe, "c06", hist, corpus_prefix="none", what="ZixTree allocator discipline")
    # ---- string builders, environment, filesystem, ring: every fault index, guard armed ----------
    files = ["posix/filesystem_posix.c", "system.c", "errno_status.c", "filesystem.c", "path.c", "string_view.c", "posix/system_posix.c", "posix/environment_posix.c", "ring.c"]
    exe = ck.cc("h_c07_g", ["h_c07.c"], flags=G, objs=zix_objs(files))
    if not exe: return
    scratch = os.path.join(ck.work, "fs08"); os.makedirs(scratch, exist_ok=True)
    lines = []
    paths = ["", "a", "/", "a/b", "/a/../b/./c/", "../x", "//a/b/../.."]
    for a in paths:
        lines += ["norm " + hx(a), "pref " + hx(a), "svcopy " + hx(a)]
        for b in paths: lines += ["join %s %s" % (hx(a), hx(b)), "rel %s %s" % (hx(a), hx(b))]
    for s in ["", "$A", "x$A/y~", "~/a:$A$EMPTY$NOPE", "$A" * 9]: lines.append("expand " + hx(s))
    lines += ["canon " + hx("."), "canon " + hx("nope"), "curpath", "tmppath", "mktemp " + hx("zixtmpXXXXXX"), "mktemp " + hx("no-pattern-here"), "mktemp " + hx("nodir/zixtmpXXXXXX"), "mkdirs " + hx("m/n/o"), "mkdirs " + hx("p/./q/../r/"), "ring 1", "ring 1000", "ringbad 0", "ringbad 80000001", "ringbad ffffffff"]
    sp = ck.write_script("c08.script", lines)
    rc, out, err = ck.run_impl(exe, sp, [scratch])
    ck.cov["evaluations"] += len(lines)
    for l in lines: ck.hist("fn-" + l.split()[0]); ck.count_distinct(("fn", l))
    if rc != 0 or len(out) != len(lines) or any("SPEC-FAIL" in o for o in out):
        idx = next((i for i, o in enumerate(out) if "SPEC-FAIL" in o), len(out))
        ck.report_violation("fn", "# property C08 — allocator discipline violated by a string/filesystem/ring function (exit %s)\n# verdict: concrete failing input found\n#--- script\n%s\n#--- output\n%s\n#--- stderr\n%s\n"
                            % (rc, lines[min(idx, len(lines) - 1)], "\n".join("# " + o for o in out[max(0, idx - 1): idx + 1]), "\n".join("# " + e for e in err.splitlines()[-25:])))
    # ---- copy_file on both paths, file_equals, create_directories --------------------------------
    import c14 as copygen
    files14 = ["posix/filesystem_posix.c", "system.c", "errno_status.c", "filesystem.c", "path.c", "string_view.c", "posix/system_posix.c"]
    exe = ck.cc("h_c14_g", ["h_c14.c"], flags=G + [copygen.WRAPS], objs=zix_objs(files14))
    if not exe: return
    s14 = os.path.join(ck.work, "fs14g"); os.makedirs(s14, exist_ok=True)
    import subprocess
    blk = int(subprocess.run([exe, "--blk", s14], capture_output=True, text=True).stdout.split()[0])
    lines = []
    for size in [0, 1, 513, 4097, 3 * blk + 1]:
        for dst in ["absent", "file:10", "same"]:
            for ow in (0, 1):
                for mode in [[], ["cfr#0=EXDEV"], ["cfr#0=short100", "cfr#1=EINVAL"], ["cfr#0=ENOSYS"], ["cfr#0=EXDEV", "alloc#0=fail"], ["cfr#0=EXDEV", "write#1=ENOSPC"], ["cfr#0=EXDEV", "read#1=EIO"]]:
                    lines.append("copy reg %d %s %d %d %s" % (size, dst, ow, blk, " ".join(mode))); ck.count_distinct(("copy", lines[-1]))
    ck.kcompare("copy", exe, "c14", [lines], keep_head=0, impl_args=[s14], corpus_prefix="c14", what="copy_file allocator discipline (kernel copy and user-space loop)")
    exe = ck.cc("h_c15_g", ["h_c15.c"], flags=G + [fsgen.FSTAT_WRAP], objs=zix_objs(files14))
    if not exe: return
    s15 = os.path.join(ck.work, "fs15g"); os.makedirs(s15, exist_ok=True)
    sp = ck.write_script("page.script", ["page"])
    rc, out, err = ck.run_impl(exe, sp, [s15])
    page = int(out[0].split("=")[1]) if out else 4096
    lines = []
    for tree in fsgen.TREES[:4]:
        for s in fsgen.shapes(3): lines.append("mkdirs %s | %s" % (" ".join(tree), hx(s)))
    for la, lb, d, al in [(0, 0, -1, "ok"), (page, page, -1, "ok"), (page + 1, page + 1, page, "ok"), (3 * page, 3 * page, -1, "fail"), (513, 513, 512, "fail"), (5, 6, -1, "ok"),
                          (page, page, -1, "fail0"), (page, page, -1, "fail1"), (700, 700, 699, "fail0"), (700, 700, 0, "fail1")]:
        lines.append("feq %d %d %d 0 %s" % (la, lb, d, al))
    lines += ["canon | " + hx("."), "canon d:a | " + hx("a/../a")]
    for l in lines: ck.count_distinct(("fs", l))
    ck.kcompare("fs", exe, "c15", [lines], keep_head=0, impl_args=[s15], model_args=[str(page)], corpus_prefix="none", what="filesystem functions allocator discipline")
