"""C09 — bump allocator hands out in-bounds, aligned, disjoint blocks or NULL."""
import os
from vlib import REPO

W = 2 ** 64

def gen_history(rng, off, cap):
    h = ["new %d %d" % (off, cap)]
    nops = rng.randint(1, 28)
    used = 0
    for _ in range(nops):
        r = rng.random()
        rem = max(cap - used, 0)
        def size():
            x = rng.random()
            if x < 0.35: return rng.randint(0, 24)
            if x < 0.55: return max(0, rem + rng.randint(-17, 9))
            if x < 0.70: return rng.choice([8, 16, 32, 64, 7, 9, 15, 17, 1])
            if x < 0.85: return W - rng.randint(1, 40)
            if x < 0.93: return rng.choice([2 ** 63, 2 ** 63 - 1, 2 ** 63 + 8, 2 ** 32, 2 ** 62, W - cap, (W - cap - 8) % W, W - 8, W - 7])
            return rng.randint(0, max(cap, 1))
        _size = size
        size = lambda: _size() % W
        if r < 0.40:
            s = size(); h.append("malloc %d" % s); used += (s + 7) // 8 * 8 if s <= rem else 0
        elif r < 0.52:
            x = rng.random()
            if x < 0.5:
                a, b = rng.randint(0, 12), rng.randint(0, 12)
            elif x < 0.8:
                a, b = rng.choice([(2 ** 63, 2), (2 ** 63, 4), (2 ** 32, 2 ** 32), (2 ** 32 + 1, 2 ** 32), (2 ** 61, 8), (W - 1, W - 1), (W - 1, 2), (3, (W + 2) // 3), (2 ** 61 + 1, 8), (0, W - 1), (W - 1, 0), (W - 1, 1), (1, W - 1), (5, (W // 5) + 1)])
                if rng.random() < 0.5: a, b = b, a
            else:
                a, b = rng.randint(0, max(rem, 1)), rng.randint(0, 3)
            h.append("calloc %d %d" % (a, b))
        elif r < 0.55:
            h.append("reallocdead %d" % rng.choice([0, 1, 8, 16, rng.randint(0, max(cap, 1))]))   # bad-op on both sides while the last block is live
        elif r < 0.67:
            h.append("realloc %s %d" % (rng.choice(["^", "^", "^", "~%d" % rng.randint(0, 9)]), size()))
        elif r < 0.85:
            h.append("free %s" % rng.choice(["^", "^", "~%d" % rng.randint(0, 9), "0"]))
        else:
            al = rng.choice([8, 8, 16, 16, 32, 64, 128, 4096])
            k = rng.choice([0, 1, 1, 2, 3, max(rem // al, 0), max(rem // al, 0) + 1, (W // al) - 1, (W // al) // 2])
            h.append("aalloc %d %d" % (al, (k * al) % W))
    return h

def run(ck):
    ck.level = "proof"
    ck.cov["rule"] = ("histories 'new <buffer offset 0..15> <capacity>' followed by up to 28 malloc/calloc/realloc/free/aligned_alloc requests (and realloc of the address of the last block while no live block is there: after its free, or on a fresh allocator) "
                      "(sizes: 0, small, around the remaining space, near SIZE_MAX, overflowing calloc products); block references name live "
                      "blocks only; per step the returned offset (or NULL), last, top and the harness's own in-bounds/alignment/disjointness "
                      "oracle are compared with the model. non-trivial = distinct history with at least one successful and one refused request")
    ck.assumptions += ["the buffer is a real object: base + capacity < 2^64", "alignment arguments are powers of two >= 8 dividing 65536 in K",
                       "free/realloc name live blocks (the API's contract); memset zeroes"]
    if not ck.build_driver(): return
    if not ck.prove():
        ck.report_proof_failure("theorems about the bump-allocator model no longer build")
    srcs = ["h_c09.c", os.path.join(REPO, "src/bump_allocator.c"), os.path.join(REPO, "src/allocator.c")]
    exes = [("ndebug", ck.cc("h_c09_ndebug", srcs, flags=["-DNDEBUG"])), ("assert", ck.cc("h_c09_assert", srcs))]
    if not all(e for _, e in exes): return
    nh = 4000 if ck.tier == "quick" else 60000
    caps = list(range(0, 65)) + [200, 4096, 100, 1000]
    hist = []
    for i in range(nh):
        off = i % 16
        cap = ck.rng.choice(caps)
        h = gen_history(ck.rng, off, cap)
        hist.append(h)
    for h in hist[:3]: ck.sample(h)
    for name, exe in exes:
        ck.kcompare(name, exe, "c09", hist, what="bump allocator (%s build) differs from the model" % name)
    # distribution, measured on the model's output of the last run is not kept; measure from scripts
    for h in hist:
        for l in h[1:]: ck.hist(l.split()[0])
        ck.count_distinct(tuple(h), len(h) > 3)
