"""C10 — path decomposition and queries follow the C++17 filesystem::path model."""
import path_common as pc

from vlib import REPO

def run(ck):
    ck.level = "proof"
    ck.cov["rule"] = ("every string over {'/', '.', 'a'} up to length 9 (quick) / 12 (thorough) plus seeded random strings over more bytes: all eight decomposition "
                      "views as (offset, length), the nine has_*/is_absolute answers, is_relative and the component iterator's frames are compared with the model; "
                      "the harness judges every answer against libstdc++'s std::filesystem::path (text for names and relative path, path equality for root and parent) "
                      "and checks views are slices; every input lives in an exact-size heap block under ASan; the Lean transcription of the C++17 rules is "
                      "cross-checked against libstdc++ on the same strings")
    ck.assumptions += ["POSIX build (no root names)", "libstdc++ 12 implements the C++17 rules"]
    try:
        import gen_charclass
        ck.write_generated("CharClass.lean", gen_charclass.generate(REPO, ck.work))
    except Exception as e:
        ck.translator_failed("translator gen_charclass failed: %r" % (e,))
    if not ck.build_driver(): return
    if not ck.prove():
        ck.report_proof_failure("theorems about the path model no longer build")
    exe = pc.build(ck)
    if not exe: return
    q = ck.tier == "quick"
    strs = pc.strings(9 if q else 12) + pc.random_strings(ck.rng, 3000 if q else 100000)
    hist, h = [], []
    for s in strs:
        h.append("dec " + pc.hx(s)); h.append("iter " + pc.hx(s))
        ck.count_distinct(s, "/" in s or "." in s)
        if len(h) >= 4000: hist.append(h); h = []
    h.append("nullq"); hist.append(h)
    ck.sample(hist[0][10:14])
    pc.split_std(ck, exe, "k", hist)
