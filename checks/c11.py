"""C11 — lexically_normal returns the C++17 normal form and is idempotent."""
import path_common as pc

from vlib import REPO

def run(ck):
    ck.level = "proof"
    ck.cov["rule"] = ("every string over {'/', '.', 'a'} up to length 9 (quick) / 12 (thorough) plus seeded random strings: the output text is compared with the model; "
                      "the harness checks on the implementation itself that the result is in normal form, is the same path as libstdc++'s lexically_normal, and that "
                      "normalising it again returns it unchanged; the Lean transcription of [fs.path.generic]/6 is cross-checked against libstdc++")
    ck.assumptions += ["POSIX build", "zix collapses a multi-separator root to one separator (same path)"]
    try:
        import gen_charclass
        ck.write_generated("CharClass.lean", gen_charclass.generate(REPO, ck.work))
    except Exception as e:
        ck.translator_failed("translator gen_charclass failed: %r" % (e,))
    if not ck.build_driver(): return
    if not ck.prove(["ZixModel.Properties.C11", "ZixModel.Properties.C12Buf"]):
        ck.report_proof_failure("theorems about lexically_normal no longer build")
    exe = pc.build(ck)
    if not exe: return
    q = ck.tier == "quick"
    strs = pc.strings(9 if q else 12) + pc.random_strings(ck.rng, 3000 if q else 100000)
    hist, h = [], []
    for s in strs:
        h.append("norm " + pc.hx(s))
        ck.count_distinct(s, "." in s)
        if len(h) >= 4000: hist.append(h); h = []
    hist.append(h)
    ck.sample(hist[0][30:34])
    pc.split_std(ck, exe, "k", hist)
