"""C12 — join, lexically_relative and preferred agree with C++17 path operations."""
import path_common as pc

from vlib import REPO

def run(ck):
    ck.level = "proof"
    ck.cov["rule"] = ("all pairs of strings over {'/', '.', 'a'} up to length 5 (quick) / 6 (thorough) plus seeded random pairs and NULL arguments where the API allows them: "
                      "join text, lexically_relative text or NULL, preferred text are compared with the model; the harness judges join against C++17 operator/ (text), "
                      "relative against lexically_relative (NULL iff empty; same path) of libstdc++; each argument in its own exact-size heap block under ASan")
    ck.assumptions += ["POSIX build"]
    try:
        import gen_charclass
        ck.write_generated("CharClass.lean", gen_charclass.generate(REPO, ck.work))
    except Exception as e:
        ck.translator_failed("translator gen_charclass failed: %r" % (e,))
    if not ck.build_driver(): return
    if not ck.prove(["ZixModel.Properties.C12", "ZixModel.Properties.C12Buf"]):
        ck.report_proof_failure("theorems about join / lexically_relative no longer build")
    exe = pc.build(ck)
    if not exe: return
    q = ck.tier == "quick"
    strs = pc.strings(5 if q else 6)
    hist, h = [], []
    for a in strs:
        for b in strs:
            h.append("rel %s %s" % (pc.hx(a), pc.hx(b))); h.append("join %s %s" % (pc.hx(a), pc.hx(b)))
            if len(h) >= 6000: hist.append(h); h = []
        ck.count_distinct(a)
    rs = pc.random_strings(ck.rng, 400 if q else 5000, 3, 14)
    for i in range(0, len(rs) - 1):
        a, b = rs[i], rs[i + 1]
        if ck.rng.random() < 0.5: b = a[: ck.rng.randint(0, len(a))] + b[: ck.rng.randint(0, 4)]   # shared prefixes
        h.append("rel %s %s" % (pc.hx(a), pc.hx(b))); h.append("join %s %s" % (pc.hx(a), pc.hx(b)))
    for s in strs[:400]:
        h.append("pref " + pc.hx(s)); h.append("join NULL " + pc.hx(s)); h.append("join %s NULL" % pc.hx(s))
    h.append("join NULL NULL")
    hist.append(h)
    ck.cov["distinct_nontrivial"] = len(strs) * len(strs)
    ck.sample(hist[0][200:204])
    pc.split_std(ck, exe, "k", hist)
