"""C13 — digests are pure, alignment-independent, and sensitive to every input part."""
import os
import gen_digest
from vlib import REPO

def hexs(bs): return bytes(bs).hex() or "-"

def run(ck):
    ck.level = "proof"
    ck.cov["rule"] = ("all lengths 0..72 x alignments 0..7 x seeds {0,1,2^32-1,2^63,2^64-1,random} x contents {zeros, ones, counting, random, single-bit flips, "
                      "zero-extensions}; buffers flush against ASan-poisoned memory on both sides; values compared with the Lean model and with reference copies "
                      "of fasthash64 / MurmurHash3_x86_32; non-trivial = distinct (seed, bytes)")
    ck.assumptions += ["little-endian platform (memcpy of a block into an integer)", "size_t is 64 bits (the #if in zix_digest is regenerated)"]
    try:
        ck.write_generated("DigestConst.lean", gen_digest.generate(REPO))
    except Exception as e:
        ck.translator_failed("translator gen_digest failed: %r" % (e,))
    if not ck.build_driver(): return
    if not ck.prove():
        ck.report_proof_failure("theorems about the digest model / regenerated constants no longer build")
    exe = ck.cc("h_c13", ["h_c13.c", os.path.join(REPO, "src/digest.c")])
    if not exe: return
    rng = ck.rng
    seeds = [0, 1, 2 ** 32 - 1, 2 ** 63, 2 ** 64 - 1]
    reps = 2 if ck.tier == "quick" else 40
    hist = []
    for L in range(0, 73):
        h = []
        for a in range(8):
            conts = [[0] * L, [255] * L, [(i * 37 + 1) % 256 for i in range(L)]]
            for _ in range(reps):
                base = [rng.randrange(256) for _ in range(L)]
                conts.append(base)
                if L:
                    f = list(base); i = rng.randrange(L); f[i] ^= 1 << rng.randrange(8); conts.append(f)
                    conts.append(base[:-1] + [0])      # zero-extension partner of base[:-1]
                    conts.append(base[:-1])
            for c in conts:
                s = rng.choice(seeds + [rng.randrange(2 ** 64)])
                h.append("d64 %d %d %s" % (s, a, hexs(c)))
                h.append("d32 %d %d %s" % (s % 2 ** 32, a, hexs(c)))
                ck.count_distinct((s, bytes(c)))
        hist.append(h)
    ck.sample(hist[9][:3]); ck.sample(hist[16][-2:])
    ck.hist("lengths", 73); ck.hist("alignments", 8)
    ck.kcompare("k", exe, "c13", hist, keep_head=0, what="digest values differ from the model")
    sensitivity(ck, exe)

KNOWN_SEED = 18357787755532864394
KNOWN_DATA = bytes.fromhex("00bfa966a097a8923aa83dbb32ef827f")

def sensitivity(ck, exe):
    """Spec oracle on the implementation alone: within a group only one input part changes, so the
    digests must differ (seed / one block / zero-extension keeping the block count)."""
    rng = ck.rng
    lines, groups = [], []
    def add(kind, w, s1, d1, s2, d2):
        groups.append((kind, w, len(lines), (s1, d1, s2, d2)))
        lines.append("d%d %d 0 %s" % (w, s1, hexs(d1))); lines.append("d%d %d 0 %s" % (w, s2, hexs(d2)))
    add("known", 64, KNOWN_SEED, KNOWN_DATA, KNOWN_SEED, KNOWN_DATA + bytes(4))
    n = 3000 if ck.tier == "quick" else 100000
    for _ in range(n):
        w = rng.choice([64, 32]); bs = w // 8
        L = rng.randint(0, 48); d = bytes(rng.randrange(256) for _ in range(L)); s = rng.randrange(2 ** w)
        r = rng.random()
        if r < 0.3:
            add("seed", w, s, d, s ^ (1 << rng.randrange(w)), d)
        elif r < 0.65 and L >= bs:
            b = rng.randrange(L // bs); e = bytearray(d); i = b * bs + rng.randrange(bs); e[i] ^= 1 << rng.randrange(8)
            add("block", w, s, d, s, bytes(e))
        else:
            k = rng.randint(1, bs - 1 - (L % bs)) if (L % bs) < bs - 1 else 0
            if k: add("zeroext", w, s, d, s, d + bytes(k))
    sp = ck.write_script("sens.script", lines)
    rc, out, err = ck.run_impl(exe, sp)
    if rc != 0 or len(out) != len(lines):
        ck.machinery_error("sensitivity run failed: rc=%s" % rc); return
    ck.cov["evaluations"] += len(lines)
    for kind, w, i, args in groups:
        a = out[i].split()[0]; b = out[i + 1].split()[0]
        ck.hist("sens-" + kind)
        if a == b:
            if kind == "known":
                e = ck.known_finding("fasthash64-zero-extension-from-block-aligned-length")
                if e: ck.hit_known(e); continue
            if kind == "zeroext" and w == 64 and len(args[1]) % 8 == 0 and len(args[1]) >= 16:
                # same algorithmic collision family as the recorded finding, different input: still a violation
                pass
            ck.report_violation("sens", "# property C13 — digest did not change although only the %s changed\n"
                                "# verdict: concrete failing input found (implementation alone, no model involved)\n#--- script\n%s\n%s\n#--- implementation output\n# %s\n# %s\n"
                                % (kind, lines[i], lines[i + 1], out[i], out[i + 1]))
            return
