"""C14 — copy_file reports success only for a complete copy and never harms the source."""
import itertools, os, subprocess
import gen_errno
from vlib import REPO, VERIF

WRAPS = "-Wl," + ",".join("--wrap=" + f for f in ["open", "open64", "read", "write", "copy_file_range", "fdatasync", "close", "fstat", "fstat64", "ftruncate", "ftruncate64", "posix_fadvise"])

def run(ck):
    ck.level = "proof"
    ck.cov["rule"] = ("scenarios = source kind {regular, regular reporting st_size 0, directory, fifo with and without another opener, missing} x size {0,1,511,512,513,4095,4096,4097,3 blocks+1} x destination {absent, existing file, same path, "
                      "hard link, symlink to the source, directory} x overwrite option x kernel copy {works, EXDEV at the first call, EINVAL after a partial copy} x one (thorough: two) "
                      "injected faults at every position of every call kind (errno or short count; allocation refusal; errno left set by the allocator's release); compared: status, source intact, destination bytes, descriptors "
                      "balanced (API) and the system-call trace (white-box); non-trivial = distinct scenario with at least one fault")
    ck.assumptions += ["abstract file system; outcomes of open/fstat/stat/read/write/copy_file_range/fdatasync/close are oracle-driven",
                       "successful calls leave errno unchanged; failing calls set it non-zero", "no concurrent modification of the files; durability after power loss not modelled"]
    try:
        ck.write_generated("Errno.lean", gen_errno.generate(REPO, ck.work))
    except Exception as e:
        ck.translator_failed("translator gen_errno failed: %r" % (e,))
    if not ck.build_driver(): return
    if not ck.prove():
        ck.report_proof_failure("theorems about the copy_file model no longer build")
    srcs = ["h_c14.c"] + [os.path.join(REPO, "src", f) for f in ["posix/filesystem_posix.c", "system.c", "errno_status.c", "filesystem.c", "path.c", "string_view.c", "allocator.c", "posix/system_posix.c"]]
    exe = ck.cc("h_c14", srcs, flags=[WRAPS])
    if not exe: return
    scratch = os.path.join(ck.work, "fs"); os.makedirs(scratch, exist_ok=True)
    blk = int(subprocess.run([exe, "--blk", scratch], capture_output=True, text=True).stdout.split()[0])
    rng = ck.rng
    sizes = [0, 1, 511, 512, 513, 4095, 4096, 4097, 3 * blk + 1]
    dsts = ["absent", "file:0", "file:10", "file:5000", "same", "hardlink", "symlink", "dir"]
    modes = [[], ["cfr#0=EXDEV"], ["cfr#0=short100", "cfr#1=EINVAL"], ["cfr#0=ENOSYS"]]
    extra = [[]]
    for call in ["open-src", "fstat-src", "open-dst", "fstat-dst", "ftruncate", "fdatasync"]:
        for e in ["EIO", "EACCES", "ENOSPC"]: extra.append(["%s#0=%s" % (call, e)])
    for call in ["read", "write", "cfr"]:
        for nth in [0, 1, 2, 3]:
            for e in ["EIO", "ENOSPC", "EINVAL"]: extra.append(["%s#%d=%s" % (call, nth, e)])
            for k in [1, 7, 100, 511, 4095]: extra.append(["%s#%d=short%d" % (call, nth, k)])
    extra.append(["write#0=short0"]); extra.append(["write#1=short0"])
    for which in ["close-dst", "close-src"]:
        for e in ["EIO", "EINTR", "ENOSPC"]: extra.append(["%s#0=%s" % (which, e)])
    extra.append(["close-dst#0=EIO", "close-src#0=EIO"])
    for e in ["ENOMEM", "EINVAL", "EIO"]: extra.append(["free#0=%s" % e])     # errno left behind by the allocator's release
    extra.append(["alloc#0=fail", "free#0=ENOMEM"])
    extra.append(["alloc#0=fail"]); extra.append(["alloc#0=fail", "read#1=short3"]); extra.append(["alloc#0=fail", "write#2=ENOSPC"])
    lines = []
    def add(kind, size, dst, ow, fs):
        lines.append("copy %s %d %s %d %d %s" % (kind, size, dst, ow, blk, " ".join(fs)))
        ck.count_distinct(lines[-1], bool(fs))
    for kind in ["dir", "fifo", "fifo0", "missing"]:
        for ow in (0, 1):
            for dst in ["absent", "file:10"]: add(kind, 0, dst, ow, [])
    full = ck.tier != "quick"
    for size, dst, ow, mode in itertools.product(sizes, dsts, (0, 1), modes):
        if full:
            for ex in extra: add("reg", size, dst, ow, mode + ex)
        else:
            add("reg", size, dst, ow, mode)
            for ex in rng.sample(extra, 6): add("reg", size, dst, ow, mode + ex)
    # regular sources that report no size (st_size == 0 whatever the content, as procfs text files do)
    for size, dst, ow in itertools.product(sizes, ["absent", "file:10", "same"], (0, 1)):
        add("regz", size, dst, ow, [])
        for ex in (extra if full else rng.sample(extra, 4)): add("regz", size, dst, ow, ex)
    if full:
        for _ in range(20000):
            size, dst, ow, mode = rng.choice(sizes), rng.choice(dsts), rng.randint(0, 1), rng.choice(modes)
            add("reg", size, dst, ow, mode + rng.choice(extra) + rng.choice(extra))
    # the same scenarios with descriptor 0 free, so that the source is opened as descriptor 0 (every eighth, and all the error paths)
    lines += ["fd0 " + l for i, l in enumerate(lines) if i % 8 == 0 or " dir " in l or l.split()[1] in ("dir", "fifo", "fifo0", "missing") or " same " in l]
    hist = [lines[i:i + 500] for i in range(0, len(lines), 500)]
    ck.sample(lines[12:15]); ck.sample(lines[-2:])
    for l in lines:
        if l.startswith("fd0 "): ck.hist("fd0-free"); continue
        for t in l.split()[6:]: ck.hist(t.split("#")[0])
    ck.kcompare("k", exe, "c14", hist, keep_head=0, impl_args=[scratch], what="zix_copy_file differs from the model under injected I/O outcomes")
