"""C15 — filesystem creation and queries report and produce the true state."""
import itertools, os, subprocess
import gen_errno, gen_filetype
from vlib import REPO

FSTAT_WRAP = "-Wl,--wrap=fstat,--wrap=fstat64,--wrap=mkdir"   # h_c15.c can fake the device / inode numbers file_equals sees

def hx(s): return s.encode().hex() or "-"

def shapes(maxc, alphabet=("a", "b", ".", "..", "")):
    """path shapes over components {a, b, ., .., empty}, relative and absolute ('@' = the working directory)."""
    out = []
    for n in range(1, maxc + 1):
        for cs in itertools.product(list(alphabet), repeat=n):
            depth, ok = 0, True
            for c in cs:
                if c == "..": depth -= 1
                elif c not in (".", ""): depth += 1
                if depth < -1: ok = False
            if not ok: continue
            rel = "/".join(cs)
            if not rel.replace("/", ""): continue
            # never an absolute path outside the scratch tree: relative shapes must not start with a separator
            r2 = rel.lstrip("/")
            out.append(r2); out.append(r2 + "/")
            out.append("@/" + rel); out.append("@//" + rel + "//")
    return sorted(set(out))

TREES = [[], ["d:a"], ["d:a", "d:a/b"], ["f:a"], ["d:a", "f:a/b"], ["d:b", "f:a"], ["d:a", "d:a/a", "f:a/a/b"]]

LINK_TREES = [["d:a", "l:k>a"], ["d:a", "l:k>@/a"], ["d:a", "d:a/b", "l:k>a/b"], ["f:f", "l:k>f"], ["l:k>nowhere"], ["d:a", "l:a/k>.."],
              ["l:k>k"], ["d:a", "l:j>a", "l:k>j"], ["d:b", "l:b/k>../a"], ["l:a>b"]]

def known_sysfs(ck, exe, scratch, page):
    """Replay of the recorded finding: a sysfs attribute (st_size 4096, a few bytes of content) against an exact copy of itself."""
    sp = ck.write_script("sysfs.script", ["feqsys"])
    rc, out, err = ck.run_impl(exe, sp, [scratch])
    model = ck.run_model("c15", sp, [str(page)])
    ck.cov["evaluations"] = ck.cov.get("evaluations", 0) + 1
    if rc != 0 or not out:
        ck.report_violation("sysfs", "# property C15 — zix_file_equals on a sysfs file against its copy: the harness stopped (exit %s)\n#--- script\nfeqsys\n#--- diagnostics\n%s\n" % (rc, err[-1500:])); return
    if out[0].split(" (")[0] == model[0]: return          # equal, or no such file on this system
    if out[0].startswith("eq=00 fds=1"):
        e = ck.known_finding("file-equals-trusts-overreported-size")
        if e: ck.hit_known(e); return
    ck.report_violation("sysfs", "# property C15 — zix_file_equals(/sys/devices/system/cpu/online, exact copy)\n#--- script\nfeqsys\n#--- implementation output\n# %s\n#--- model output\n# %s\n" % (out[0], model[0]))

def run(ck):
    ck.level = "proof"
    ck.cov["rule"] = ("create_directories: every path shape over components {a, b, ., .., empty} up to 4 (quick) / 5 (thorough), relative and absolute, with trailing separators, "
                      "on 7 pre-existing trees (nothing, partial, file in the way at each depth) and 10 trees with symbolic links (to a directory by relative and absolute target, nested, to a file, dangling, to the parent, self-loop, chain); compared: status, 'is a directory afterwards', second-call status (API) and the "
                      "resulting tree (white-box). file_equals: size pairs around 0 / 512 / page±1 / 3 pages with the differing byte at first, last and page boundaries, hard link, "
                      "page allocation refused (all, only the first, only the second), fstat reporting st_size 0 for either file, the real /proc/version against its copy and an empty file; create_directories with a racing creator (mkdir interposed: the same path made a directory or a file before chosen mkdir calls); a share of all operations with descriptor 0 free; file/symlink type for 9 file kinds; file_size; canonical_path vs realpath; dir_for_each; descriptor balance on every call")
    ck.assumptions += ["permissions, mount points and concurrent modification of the tree are not modelled",
                       "read() returns full pages for regular files"]
    try:
        ck.write_generated("Errno.lean", gen_errno.generate(REPO, ck.work))
        ck.write_generated("FileType.lean", gen_filetype.generate(REPO, ck.work))
    except Exception as e:
        ck.translator_failed("translator failed: %r" % (e,))
    try:
        import gen_charclass
        ck.write_generated("CharClass.lean", gen_charclass.generate(REPO, ck.work))
    except Exception as e:
        ck.translator_failed("translator gen_charclass failed: %r" % (e,))
    if not ck.build_driver(): return
    if not ck.prove(["ZixModel.Properties.C15", "ZixModel.Properties.C15Link", "ZixModel.Properties.C15LinkInst", "ZixModel.Properties.C15Race"]):
        ck.report_proof_failure("theorems about the filesystem model / regenerated file-type table no longer build")
    srcs = ["h_c15.c"] + [os.path.join(REPO, "src", f) for f in ["posix/filesystem_posix.c", "system.c", "errno_status.c", "filesystem.c", "path.c", "string_view.c", "allocator.c", "posix/system_posix.c"]]
    exe = ck.cc("h_c15", srcs, flags=[FSTAT_WRAP])
    if not exe: return
    scratch = os.path.join(ck.work, "fs15"); os.makedirs(scratch, exist_ok=True)
    sp = ck.write_script("page.script", ["page"])
    rc, out, err = ck.run_impl(exe, sp, [scratch])
    page = int(out[0].split("=")[1]) if out else 4096
    q = ck.tier == "quick"
    lines = []
    for tree in TREES:
        for s in shapes(4 if q else 5):
            lines.append("mkdirs %s | %s" % (" ".join(tree), hx(s)))
            ck.count_distinct(("mk", tuple(tree), s), ".." in s or "//" in s or bool(tree))
    # trees with symbolic links: to a directory (relative and absolute target), to a nested directory, to a file, dangling,
    # a link to the parent, a self-loop, a chain of links
    for tree in LINK_TREES:
        for sh in shapes(3 if q else 4, ("k", "a", "b", "..", "")):
            lines.append("mkdirs %s | %s" % (" ".join(tree), hx(sh)))
            ck.count_distinct(("mkl", tuple(tree), sh), True)
    lines.append("mkdirs | -")
    # a racing creator: between the library's "is it a directory?" test and its mkdir another process creates the same path,
    # as a directory (the call must still succeed) or as a file (the call must fail)
    for tree in [[], ["d:a"], ["d:a", "d:a/b"], ["f:a"], ["d:a", "l:k>a"], ["l:k>nowhere"]]:
        for sh in ["a", "a/b", "a/b/c", "k/x/y", "a//b/", "./a/../a/b", "x/y/z/w"]:
            for ds, fs in [("0", "-"), ("1", "-"), ("0,1,2,3", "-"), ("2", "-"), ("-", "0"), ("-", "1"), ("0", "1"), ("1", "0"), ("-", "-")]:
                lines.append("mkdirsrace %s %s %s | %s" % (ds, fs, " ".join(tree), hx(sh)))
                ck.count_distinct(lines[-1])
    sizes = [0, 1, 2, 511, 512, 513, page - 1, page, page + 1, 2 * page, 3 * page - 1, 3 * page, 3 * page + 1]
    for la in sizes:
        for lb in sizes:
            if la != lb and not (abs(la - lb) <= 1 or ck.rng.random() < 0.15): continue
            poss = [-1, 0, lb - 1, page - 1, page, 2 * page - 1, 2 * page, 511, 512]
            for d in sorted(set(p for p in poss if p < max(lb, 1))):
                for alloc in ("ok", "fail", "fail0", "fail1"):
                    lines.append("feq %d %d %d 0 %s" % (la, lb, d, alloc))
                    ck.count_distinct(lines[-1])
        lines.append("feq %d %d -1 1 ok" % (la, la))
    # the inode fast path: same device and same non-zero inode = same file; anything else must compare the bytes
    for da, ia, db, ib in [(-1, 42, -1, 42), (1000000007, 42, 1000000009, 42), (-1, 0, -1, 0), (-1, 42, -1, 43), (1000000007, 0, 1000000007, 0), (1000000007, 7, 1000000007, 7), (-1, 42, 1000000009, 42)]:
        for same in (0, 1):
            lines.append("feqino %d %d %d %d %d" % (da, ia, db, ib, same)); ck.count_distinct(lines[-1])
    # files whose fstat reports a size of zero whatever they hold (procfs text files, FIFOs, devices): still "identical bytes"
    for la, lb in [(0, 0), (0, 1), (1, 0), (0, 300), (5, 5), (5, 6), (513, 513), (page, page), (page, page + 1), (page + 1, page), (2 * page, 2 * page), (2 * page, page)]:
        for d in sorted(set([-1, 0, lb - 1]) if lb else [-1]):
            for za, zb in [(1, 1), (1, 0), (0, 1)]:
                for alloc in ("ok", "fail"):
                    lines.append("feqz %d %d %d %d %d %s" % (la, lb, d, za, zb, alloc)); ck.count_distinct(lines[-1])
    lines.append("feqproc")
    lines.append("fsops")
    lines.append("feqmissing")
    for k in ["reg", "dir", "fifo", "lnkreg", "lnkdir", "dangling", "chr", "sock", "missing"]: lines.append("ftype " + k)
    for k in ["missing", "0", "1", "4096", "70000"]: lines.append("fsize " + k)
    for tree, p in [([], "."), (["d:a"], "a/../a"), (["d:a", "l:k>a"], "k"), (["d:a", "l:k>a"], "k/.."), ([], "nope"), (["f:f"], "f"), (["d:a"], "@/a/./"), (["l:d>nowhere"], "d")]:
        lines.append("canon %s | %s" % (" ".join(tree), hx(p)))
    # canonical_path over the trees with symbolic links: the model's path resolution against realpath
    for tree in LINK_TREES + [[], ["d:a", "f:a/f"], ["d:a", "d:a/b", "f:a/b/f"]]:
        for sh in shapes(3, ("k", "a", "b", "f", "..", ".", "")):
            if sh: lines.append("canon %s | %s" % (" ".join(tree), hx(sh))); ck.count_distinct(lines[-1])
    lines.append("foreach"); lines.append("foreach f:x"); lines.append("foreach f:x d:y f:z.txt f:.hidden d:..a")
    # descriptor 0 free: the first file a function opens gets number 0 (file_equals, dir_for_each, canonical_path, file_size …)
    lines += ["fd0 " + l for i, l in enumerate(lines) if (l.split()[0] in ("feq", "feqz", "feqino") and i % 5 == 0) or l.split()[0] in ("feqmissing", "feqproc", "fsops", "foreach", "fsize", "ftype", "canon")]
    hist = [lines[i:i + 300] for i in range(0, len(lines), 300)]
    ck.sample(lines[40:43]); ck.sample(lines[-20:-17])
    for l in lines: ck.hist(l.split()[0])
    known_sysfs(ck, exe, scratch, page)
    ck.kcompare("k", exe, "c15", hist, keep_head=0, impl_args=[scratch], model_args=[str(page)], what="filesystem functions differ from the model / from direct system calls")
