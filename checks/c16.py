"""C16 — environment expansion substitutes exactly the references and copies the rest."""
import itertools, os
from vlib import REPO

def hx(s): return (s if isinstance(s, bytes) else s.encode()).hex() or "-"

ENVS = [
    ["A=1", "AB=two", "HOME=/h", "_=u", "A_=x y"],
    ["HOME=/home/u", "B=", "A=$A~", "AA=~"],
    ["A=v"],                         # HOME unset
    [],                              # nothing set
    ["AB=long-value-long-value", "A=s", "HOME=", "ABC"],   # entry without '='; empty HOME
    ["A=1", "A=2", "HOMER=x", "HOME=/first", "HOME=/second"],  # duplicates: first wins; prefix names
    ["A0=a0", "A=a", "Z=zed", "Z9=z9", "0=zero", "9=nine", "09=o9", "AZ_09=all", "HOME=/h"],   # names at the edges of A-Z, 0-9
    ["N" * 63 + "=v63", "N" * 63 + "X=v64", "M" * 200 + "=v200", "A=1"],   # long names (no fixed-size name buffer may truncate them)
]

def alloc_histories(ck):
    """zix_expand_environment_strings under an allocation oracle (used by C07 and C08): the same call with chosen requests
    refused (every single index, pairs, "from k on"); result and allocator event log are compared with Model/EnvAlloc.lean."""
    extra = ["$A", "a$A", "ab$A!", "$A$AB", "x$Ay", "~", "~/x", "a:~:b", "a~/b", "$", "${A}", "$_", "~:~", "/usr/$A/$AB/~/x", "$ABC", "$HOME/~", "$A~/", "$A=b", "$" + "N" * 63]
    astr = ["", "a", "$A", "a$A", "a$Ab", "$A$AB", "~", "~/x", "x:~:$AB/$A-$_", "/usr/$A/$AB/~/x", "$ABC", "a$ABC$A", "$HOME/~", "abc", "$A~"] + \
           [ck.rng.choice(extra) + ck.rng.choice(extra) for _ in range(40 if ck.tier == "quick" else 400)]
    ah = []
    for ei, env in enumerate(ENVS[:3] + [None]):
        head = "envnull" if env is None else "env " + " ".join(hx(e) for e in env)
        h = [head]
        for s in astr:
            h.append("expanda - " + hx(s))
            for k in range(0, 9): h.append("expanda %d %s" % (k, hx(s)))
            h.append("expanda 1,2 " + hx(s)); h.append("expanda 0,3 " + hx(s)); h.append("expanda 2,3,4,5,6,7,8,9,10,11,12 " + hx(s))
        ah.append(h)
        for l in h[1:]: ck.count_distinct(("expanda", ei, l))
    return ah

def build_harness(ck):
    return ck.cc("h_c16", ["h_c16.c", os.path.join(REPO, "src/posix/environment_posix.c"), os.path.join(REPO, "src/allocator.c"),
                           os.path.join(REPO, "src/string_view.c")])

def run(ck):
    ck.level = "proof"
    ck.cov["rule"] = ("every string over {$ ~ A _ a / : { }} up to length 5 (quick) / 7 (thorough) plus '1'-containing and seeded random longer strings, "
                      "each under 9 environments (set, unset, empty values, values containing $ and ~, HOME unset, duplicates, names at the edges of A-Z / 0-9, names of 63/64/200 characters, environ == NULL); "
                      "non-trivial = string containing '$' or '~'")
    ck.assumptions += ["strings and environment entries are NUL-terminated C strings", "realloc grows a block preserving its prefix"]
    try:
        import gen_charclass
        ck.write_generated("CharClass.lean", gen_charclass.generate(REPO, ck.work))
    except Exception as e:
        ck.translator_failed("translator gen_charclass failed: %r" % (e,))
    if not ck.build_driver(): return
    if not ck.prove():
        ck.report_proof_failure("theorems about the environment-expansion model no longer build (the character classes of is_var_name_char / is_path_delim are regenerated on every run)")
    exe = ck.cc("h_c16", ["h_c16.c", os.path.join(REPO, "src/posix/environment_posix.c"), os.path.join(REPO, "src/allocator.c"),
                          os.path.join(REPO, "src/string_view.c")])
    if not exe: return
    alpha = "$~A_a/:{"
    maxlen = 5 if ck.tier == "quick" else 7
    strings = [""]
    for n in range(1, maxlen + 1):
        strings += ["".join(t) for t in itertools.product(alpha, repeat=n)]
    extra = ["$A", "a$A", "ab$A!", "$A$AB", "$AB$A", "x$Ay", "~", "~/x", "a:~:b", "~a", "a~", "a~/b", "$", "$$", "$a", "${A}", "$1", "$A1", "$_", "$__x", "~~", "~:~",
             "/usr/$A/$AB/~/x", "$ABC", "$AB_", "pre$AAA", "$HOME/~", "~$A", "$A~", "$A~/", "x$", "x~", "$Z9_z"]
    # name characters at the edges of the three ranges and the characters just outside them ('/' ':' '@' '[' '^' '`')
    extra += ["$A0", "$A9", "$0", "$9", "$09", "$Z", "$Z9", "$AZ_09", "$A0/x", "$A:0", "$A/0", "$A@", "$@A", "$A[", "$[", "$A^", "$A`", "$`", "$A0$Z9", "x$0y", "$9:$0", "$Az", "$Za", "$z", "$a0",
              "~0", "~9", "~Z", "~_", "~@", "~[", "0~", "9~/",
              # a reference directly followed by '=' (the separator inside environment entries) and other punctuation
              "$A=", "$A=b", "x$A=$A", "$A=1", "$AB=$A", "=$A", "$=", "$A==", "$HOME=/x", "~=", "$A,", "$A.", "$A-", "$A+", "$A\t", "$A "]
    extra += ["$" + "N" * 63, "$" + "N" * 63 + "X", "<$" + "N" * 63 + "XY>", "$" + "N" * 62, "a$" + "M" * 200 + "/b", "$" + "M" * 199, "$" + "M" * 201, "$" + "N" * 63 + "/$" + "N" * 63 + "X"]
    for _ in range(2000 if ck.tier == "quick" else 40000):
        n = ck.rng.randint(6, 30)
        extra.append("".join(ck.rng.choice("$$~~AAB_a1/:{}x.-09Zz@[==") for _ in range(n)))
    strings += extra
    hist = []
    for ei, env in enumerate(ENVS + [None]):
        head = "envnull" if env is None else "env " + " ".join(hx(e) for e in env)
        # chunk strings so that one history is one environment x ~2000 strings
        for i in range(0, len(strings), 2000):
            hist.append([head] + ["expand " + hx(s) for s in strings[i:i + 2000]])
    for s in strings:
        ck.count_distinct(s, "$" in s or "~" in s)
        ck.hist("has-ref" if "$" in s else ("has-tilde" if "~" in s else "plain"))
    ck.sample(hist[0][:1] + hist[0][40:44]); ck.sample([hist[-1][0], hist[-1][-1]])
    ck.kcompare("k", exe, "c16", hist, what="zix_expand_environment_strings differs from the model")
