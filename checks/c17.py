"""C17 — semaphore counts correctly and honours its timeout."""
import itertools, os
import gen_errno
from vlib import REPO

def run(ck):
    ck.level = "proof"
    ck.cov["rule"] = ("timed: (now.sec, now.nsec, seconds, nanoseconds) from a boundary set cubed plus seeded random tuples, clock ok/failing, "
                      "kernel outcome scripts up to length 5 over {ok, EINTR, EAGAIN, ETIMEDOUT, EINVAL}; wait/try: all outcome scripts up to length 4; "
                      "compared: status, number of kernel calls, the abstime handed to sem_timedwait; non-trivial = distinct script with a carry or an EINTR")
    ck.assumptions += ["kernel semaphore, clock and signal delivery are modelled (oracle of call results; abstract counter), not verified; the real-thread stress run (posters/waiters/signals, try-wait count, timeouts never early) samples schedules of this machine only",
                       "a failing system call sets errno to a non-zero value (POSIX)", "time_t does not overflow (64-bit)"]
    try:
        ck.write_generated("Errno.lean", gen_errno.generate(REPO, ck.work))
    except Exception as e:
        ck.translator_failed("translator gen_errno failed: %r" % (e,))
    if not ck.build_driver(): return
    if not ck.prove():
        ck.report_proof_failure("theorems about the semaphore model / regenerated errno table no longer build")
    wraps = "-Wl,--wrap=sem_wait,--wrap=sem_trywait,--wrap=sem_timedwait,--wrap=clock_gettime,--wrap=sem_post,--wrap=sem_init,--wrap=sem_destroy"
    exe = ck.cc("h_c17", ["h_c17.c", os.path.join(REPO, "src/posix/sem_posix.c"), os.path.join(REPO, "src/errno_status.c")], flags=[wraps], libs=["-lpthread"])
    if not exe: return
    outs = ["ok", "EINTR", "EAGAIN", "ETIMEDOUT", "EINVAL"]
    hist = []
    h = []
    for n in range(0, 5):
        for t in itertools.product(outs, repeat=n):
            for op in ("wait", "try"):
                h.append(op + " " + " ".join(t))
                ck.count_distinct((op, t), "EINTR" in t)
    hist.append(h)
    # the single-call functions: post, init (arguments too), destroy
    h2 = []
    for r in ["ok", "EOVERFLOW", "EINVAL", "ENOMEM", "EPERM", "EINTR", "EAGAIN"]:
        h2 += ["post " + r, "destroy " + r] + ["init %d %s" % (v, r) for v in (0, 1, 7, 2147483647, 4294967295)]
    for l in h2: ck.count_distinct(l)
    hist.append(h2)
    NSB = [0, 1, 999999998, 999999999]
    SB = [0, 1, 2, 4294967295]
    NB = [0, 1, 999999999, 1000000000, 1000000001, 1999999999, 2000000000, 2000000001, 2100000000, 2999999999, 3000000000, 3999999999,
          4000000000, 4294967295, 294967296, 294967295, 500000000]
    NOW = [0, 1, 1700000000, 2147483647, 4102444800]
    h = []
    for ns, nn, s, n in itertools.product(NOW, NSB, SB, NB):
        h.append("timed %d %d %d %d ok ok" % (ns, nn, s, n))
        ck.count_distinct((ns, nn, s, n), nn + n >= 10 ** 9)
    hist.append(h)
    h = []
    for _ in range(20000 if ck.tier == "quick" else 400000):
        ns = ck.rng.choice(NOW + [ck.rng.randrange(0, 2 ** 33)]); nn = ck.rng.choice(NSB + [ck.rng.randrange(10 ** 9)])
        s = ck.rng.choice(SB + [ck.rng.randrange(2 ** 32)]); n = ck.rng.choice(NB + [ck.rng.randrange(2 ** 32)])
        clk = "ok" if ck.rng.random() < 0.95 else ck.rng.choice(["EINVAL", "EPERM"])
        k = ck.rng.randint(0, 4)
        o = [ck.rng.choice(["EINTR", "EINTR", "EINTR", "ok"]) for _ in range(k)] + [ck.rng.choice(["ok", "ETIMEDOUT", "EINVAL", "EAGAIN"])]
        h.append("timed %d %d %d %d %s %s" % (ns, nn, s, n, clk, " ".join(o)))
        ck.count_distinct(h[-1], nn + n >= 10 ** 9 or "EINTR" in o)
        if len(h) >= 5000: hist.append(h); h = []
    if h: hist.append(h)
    ck.sample(hist[0][100:103]); ck.sample(hist[1][7:10]); ck.sample(hist[2][:2])
    ck.kcompare("k", exe, "c17", hist, keep_head=0, what="zix_sem_* differ from the model under scripted kernel results")
    # real kernel semaphore, real threads, real signals (support for the abstract counter theorems, not a proof)
    exe2 = ck.cc("h_c17s", ["h_c17s.c", os.path.join(REPO, "src/posix/sem_posix.c"), os.path.join(REPO, "src/errno_status.c")], libs=["-lpthread"], san=False)
    if not exe2: return
    q = ck.tier == "quick"
    st = []
    for (ini, np_, nw, units) in [(0, 1, 1, 20000), (0, 4, 4, 5000), (3, 2, 7, 702), (0, 8, 2, 1000), (5, 3, 5, 1000), (1, 16, 1, 500)] + ([] if q else [(0, 32, 32, 4000), (7, 13, 3, 3002), (0, 64, 64, 1000)]):
        assert (ini + np_ * units) % nw == 0
        for sig in (0, 1):
            st.append("stress %d %d %d %d %d %d" % (ini, np_, nw, units, sig, ck.seed + len(st)))
    st += ["trycount 0", "trycount 1", "trycount 5", "trycount 1000"]
    st += ["timeout 0 30000000 0", "timeout 0 30000000 1", "timeout 0 1020000000 1", "timeout 0 2000000001 1", "timeout 1 999999999 0"]
    if not q: st += ["timeout 0 4294967295 1", "timeout 2 3000000000 0"]
    for l in st: ck.hist("real-" + l.split()[0])
    ck.sample(st[:2])
    ck.kcompare("s", exe2, "c17", [st], keep_head=0, timeout=3600, corpus_prefix="real", what="the real semaphore under threads and signals does not behave as the abstract counter predicts")
