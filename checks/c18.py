"""C18 — threads run the function once, with the requested stack, and join synchronises."""
import os, subprocess
import gen_errno
from vlib import REPO

WRAPS = "-Wl,--wrap=pthread_create,--wrap=pthread_attr_init,--wrap=pthread_attr_setstacksize,--wrap=pthread_attr_destroy"

def run(ck):
    ck.level = "other"
    ck.cov["explanation"] = ("Theorems (Lean, kernel-checked) cover zix's plumbing: the attribute carrying the requested stack size is the one handed to pthread_create, "
                             "SUCCESS iff pthread_create returned 0 (regenerated errno table), join status; composed with an ASSUMED pthread contract. The platform behaviour itself "
                             "is observed: pthread_* calls made by thread_posix.c are interposed to compare the call sequence and the attribute's stack size with the model, and "
                             "real threads (1..16 concurrently, stacks from PTHREAD_STACK_MIN to 64 MiB, page-aligned and unaligned sizes) report pthread_getattr_np, touch the requested depth, count executions and "
                             "publish a plain write that the joiner reads after join.")
    ck.cov["rule"] = "create: sizes x forced pthread_create results; run: sizes x thread counts; non-trivial = stack size above the 8 MiB default or a forced error"
    ck.assumptions += ["pthread semantics are the platform's (modelled, not verified)", "glibc/Linux: default stack 8 MiB; PTHREAD_STACK_MIN 16 KiB"]
    try:
        ck.write_generated("Errno.lean", gen_errno.generate(REPO, ck.work))
    except Exception as e:
        ck.translator_failed("translator gen_errno failed: %r" % (e,))
    if not ck.build_driver(): return
    if not ck.prove(["ZixModel.Properties.C18"]):
        ck.report_proof_failure("theorems about thread creation no longer build")
    exe = ck.cc("h_c18", ["h_c18.c", os.path.join(REPO, "src/posix/thread_posix.c"), os.path.join(REPO, "src/errno_status.c")], flags=[WRAPS], libs=["-lpthread"], san=False)
    if not exe: return
    sizes = [16384, 32768, 65536, 1 << 20, 4 << 20, 8 << 20, (8 << 20) + 4096, 16 << 20, 32 << 20, 64 << 20]
    # sizes that are not a whole number of pages (glibc rounds an attribute's size down): the thread must still get at least the request
    sizes += [16385, 20000, 65537, 100000, (1 << 20) + 1, (1 << 20) - 1, (8 << 20) + 123, (16 << 20) + 4095]
    lines = ["create 18446744073709551615 EAGAIN", "create 18446744073709547521 EINVAL", "create 18446744073709547520 EINVAL"]
    for s in sizes:
        for r in ["ok", "EAGAIN", "EINVAL", "EPERM", "ENOMEM"]:
            lines.append("create %d %s" % (s, r)); ck.count_distinct(lines[-1], s > (8 << 20) or r != "ok")
    reps = 1 if ck.tier == "quick" else 10
    for _ in range(reps):
        for s in sizes:
            for k in ([1, 4, 16] if ck.tier == "quick" else [1, 2, 8, 32, 128]):
                if s * k > (2 << 30): continue
                lines.append("run %d %d" % (s, k)); ck.count_distinct(lines[-1], s > (8 << 20))
    ck.sample(lines[:3]); ck.sample(lines[-3:])
    ck.kcompare("k", exe, "c18", [lines], keep_head=0, what="zix_thread_create/join differ from the model or from the specification on real threads")
