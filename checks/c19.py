"""C19 — file locks are mutually exclusive; TRY never blocks, BLOCK waits."""
import os
import gen_errno, gen_lock
from vlib import REPO

def run(ck):
    ck.level = "other"
    ck.cov["explanation"] = ("Theorems (Lean, kernel-checked): the flock flag expressions regenerated from the source (TRY and only TRY carries LOCK_NB, both lock modes LOCK_EX, both unlock "
                             "modes LOCK_UN), and over an ASSUMED flock table: mutual exclusion after every interleaving of lock/unlock/close by any number of handles, TRY returns at once "
                             "with SUCCESS or UNAVAILABLE, BLOCK returns only holding the lock, unlock lets a later or waiting locker succeed. The kernel's behaviour is observed: flock "
                             "interposed to compare flags and status mapping, independent handles replaying random lock/unlock/close histories against the model's holder set, and "
                             "forked processes contending on a shared occupancy counter in both modes, plus a BLOCK waiter that must not acquire before the holder releases.")
    ck.cov["rule"] = "flags: both ops x both modes x kernel results; handle histories: random lock/unlock/close over 4 handles; contention: 4..16 processes x 200 iterations x both modes"
    ck.assumptions += ["flock semantics are the kernel's (modelled, not verified)", "locks are per open file description"]
    try:
        ck.write_generated("Errno.lean", gen_errno.generate(REPO, ck.work))
        ck.write_generated("LockFlags.lean", gen_lock.generate(REPO, ck.work))
    except Exception as e:
        ck.translator_failed("translator failed: %r" % (e,))
    if not ck.build_driver(): return
    if not ck.prove(["ZixModel.Properties.C19"]):
        ck.report_proof_failure("theorems about file locks / regenerated flock flags no longer build")
    srcs = ["h_c19.c"] + [os.path.join(REPO, "src", f) for f in ["posix/filesystem_posix.c", "system.c", "errno_status.c", "filesystem.c", "path.c", "string_view.c", "allocator.c", "posix/system_posix.c"]]
    exe = ck.cc("h_c19", srcs, flags=["-Wl,--wrap=flock"], san=False)
    if not exe: return
    scratch = os.path.join(ck.work, "lockdir"); os.makedirs(scratch, exist_ok=True)
    hist = []
    h = []
    for op in ("lock", "unlock"):
        for m in ("block", "try"):
            for r in ("ok", "EWOULDBLOCK", "EINTR", "EBADF", "ENOLCK", "EINVAL"):
                h.append("flags %s %s %s" % (op, m, r)); ck.count_distinct(h[-1])
    for m in ("block", "try"):
        for k in (0, 2, 3, 17):
            h.append("flags lock %s EINTR %d" % (m, k)); ck.count_distinct(h[-1])   # interrupted k times, then granted
    h.append("flags unlock block ENOLCK 2"); ck.count_distinct(h[-1])
    hist.append(h)
    for _ in range(200 if ck.tier == "quick" else 3000):
        h = ["reset"]
        for _ in range(ck.rng.randint(3, 25)):
            r = ck.rng.random(); hd = ck.rng.randint(0, 3); m = ck.rng.choice(["try", "try", "block"])
            if r < 0.5: h.append("lock %d %s" % (hd, m))
            elif r < 0.85: h.append("unlock %d %s" % (hd, m))
            else: h.append("close %d" % hd)
        hist.append(h); ck.count_distinct(tuple(h))
    c = []
    for np_ in ([4, 8] if ck.tier == "quick" else [4, 16, 32]):
        for m in ("block", "try"):
            c.append("contend %d %d %s" % (np_, 200, m))
    hist.append(c)
    hist.append(["dirtyunlock try", "dirtyunlock block"])
    hist.append(["sigwait 1", "sigwait 5"] + ([] if ck.tier == "quick" else ["sigwait 40"]))   # a BLOCK waiter hit by signals still waits for the lock   # the holder's buffered data cannot be flushed when it unlocks
    ck.sample(hist[0][:3]); ck.sample(hist[1][:8]); ck.sample(c[:1])
    ck.kcompare("k", exe, "c19", hist, keep_head=0, impl_args=[scratch], what="zix_file_lock/unlock differ from the model or from the specification on real handles/processes")
