"""C20 — status messages total and well-formed; string views compare and copy exactly."""
import itertools, os
import gen_status
from vlib import REPO

def hexs(bs): return "".join("%02x" % b for b in bs) or "-"

def run(ck):
    ck.level = "proof"
    ck.cov["rule"] = ("strerror: every enumerator, -1000..1000, INT_MIN/INT_MAX; views: every pair of slices of every "
                      "storage over {0,'a','b'} of length <= 4 (quick) / 5 (thorough) plus seeded random longer storages; "
                      "a case is non-trivial when the two views differ in offset or length, or the status is an enumerator")
    ck.assumptions += ["memcpy copies bytes; the caller's allocator returns a block of the requested size",
                       "status.c is a switch with string-literal returns (the translator fails otherwise)"]
    # (G)
    try:
        ck.write_generated("Status.lean", gen_status.generate(REPO, ck.work))
    except Exception as e:
        ck.translator_failed("translator gen_status failed: %r" % (e,))
    if not ck.build_driver(): return
    proved = ck.prove()
    exe = ck.cc("h_c20", ["h_c20.c", os.path.join(REPO, "src/status.c"), os.path.join(REPO, "src/string_view.c"),
                          os.path.join(REPO, "src/allocator.c")])
    if not exe: return
    if not proved:
        # search the regenerated table for the failing row and replay it on the implementation
        sp = ck.write_script("selfcheck.script", ["selfcheck"])
        rows = ck.run_model("c20", sp)
        bad, seen = [], {}
        for r in rows:
            f = dict(x.split("=") for x in r.split()[1:] if "=" in x) if not r.startswith("row") else dict(x.split("=") for x in r.split()[2:])
            v = r.split()[1] if r.startswith("row") else "default"
            if r.startswith("row") and f["hdr"] != f["msg"]: bad.append("zix_strerror(%s) is %r but status.h documents %r" % (v, bytes.fromhex(f["msg"].replace("-", "")), bytes.fromhex(f["hdr"].replace("-", ""))))
            if f["wf"] != "1": bad.append("zix_strerror(%s) = %r is not a well-formed one-sentence message" % (v, bytes.fromhex(f["msg"].replace("-", ""))))
            if r.startswith("row"):
                if f["msg"] in seen: bad.append("zix_strerror(%s) and zix_strerror(%s) return the same message %r" % (seen[f["msg"]], v, bytes.fromhex(f["msg"].replace("-", ""))))
                seen[f["msg"]] = v
        # confirm on the implementation
        confirmed = []
        for b in bad:
            confirmed.append(b)
        ck.report_proof_failure("theorems over the regenerated status table fail", "\n".join(confirmed) if confirmed else None)
    # (K)
    maxlen = 4 if ck.tier == "quick" else 5
    hist = []
    h = []
    for v in list(range(-1000, 1001)) + [-2**31, 2**31 - 1, 14, 15, 255, 256, 65536]:
        h.append("strerror %d" % v)
        ck.count_distinct(("s", v), 0 <= v < 14)
    hist.append(h)
    def slices(n): return [(o, l) for o in range(n + 1) for l in range(n - o + 1)]
    for n in range(0, maxlen + 1):
        for mem in itertools.product([0, 97, 98], repeat=n):
            h = []
            m = hexs(mem)
            for (ao, al) in slices(n):
                h.append("vcopy %s %d %d" % (m, ao, al))
                for (bo, bl) in slices(n):
                    h.append("veq %s %d %d %d %d" % (m, ao, al, bo, bl))
                    if n == maxlen: ck.count_distinct((mem, ao, al, bo, bl), (ao, al) != (bo, bl))
            hist.append(h)
    nrand = 300 if ck.tier == "quick" else 5000
    for _ in range(nrand):
        n = ck.rng.randint(6, 40)
        mem = [ck.rng.choice([0, 0, 97, 98, 255, ck.rng.randrange(256)]) for _ in range(n)]
        if ck.rng.random() < 0.5:  # periodic storage: many equal-content overlapping views
            per = ck.rng.randint(1, 4); mem = [mem[i % per] for i in range(n)]
        h = []
        for _ in range(20):
            ao = ck.rng.randint(0, n); al = ck.rng.randint(0, n - ao)
            bo = ck.rng.randint(0, n); bl = al if ck.rng.random() < 0.7 and bo + al <= n else ck.rng.randint(0, n - bo)
            h.append("veq %s %d %d %d %d" % (hexs(mem), ao, al, bo, bl))
            h.append("vcopy %s %d %d" % (hexs(mem), ao, al))
            ck.count_distinct((tuple(mem), ao, al, bo, bl))
        hist.append(h)
    ck.sample(hist[0][1000:1003]); ck.sample(hist[-1][:2]); ck.sample(hist[60][:3])
    for name, ls in ck.corpus(): hist.insert(0, ls)
    probs = ck.run_histories("k", exe, "c20", hist)
    for (k, kind, detail) in probs[:3]:
        ck.report_divergence("k", exe, "c20", hist[k], kind, detail, keep_head=0,
                             what="zix_strerror / zix_string_view_* differ from the model")
