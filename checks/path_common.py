"""Shared by C10/C11/C12: harness build, string enumeration, and the cross-check of the Lean
transcription of the C++17 rules against libstdc++ ('std ...' lines)."""
import itertools, os
from vlib import REPO

def hx(s): return (s if isinstance(s, bytes) else s.encode()).hex() or "-"

def build(ck):
    return ck.cc("h_path", ["h_path.cpp", "-x", "c", os.path.join(REPO, "src/path.c"), os.path.join(REPO, "src/string_view.c"),
                            os.path.join(REPO, "src/allocator.c")], cxx=True)

def strings(maxlen, alpha="/.a"):
    out = [""]
    for n in range(1, maxlen + 1):
        out += ["".join(t) for t in itertools.product(alpha, repeat=n)]
    return out

def random_strings(rng, n, lo=6, hi=24):
    out = []
    for _ in range(n):
        k = rng.randint(lo, hi)
        out.append("".join(rng.choice("////...aab-_ \\:") for _ in range(k)))
    return out

def split_std(ck, exe, tag, hist):
    """Run histories; model/impl lines and the 'std' lines are compared by kcompare as usual: a
    difference confined to 'std' lines means the Lean transcription of the standard disagrees with
    libstdc++ — a machinery error, not a verdict about zix."""
    return ck.kcompare(tag, exe, "c10", hist, keep_head=0, what="zix_path_* differ from the model / the C++17 rules")
