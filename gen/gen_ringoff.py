#!/usr/bin/env python3
"""Field offsets of struct ZixRingImpl (src/ring.c), obtained from the compiler: used by the C04 harness to
classify instrumented accesses.  Returns a list of -D flags."""
import os, subprocess

def flags(repo, workdir):
    c = os.path.join(workdir, "ringoff.c"); exe = os.path.join(workdir, "ringoff")
    open(c, "w").write('#include "%s/src/ring.c"\n#include <stdio.h>\n#include <stddef.h>\nint main(void){printf("%%zu %%zu %%zu %%zu %%zu %%zu\\n",'
                       'offsetof(struct ZixRingImpl, write_head), offsetof(struct ZixRingImpl, read_head), offsetof(struct ZixRingImpl, size),'
                       'offsetof(struct ZixRingImpl, size_mask), offsetof(struct ZixRingImpl, buf), sizeof(struct ZixRingImpl));return 0;}\n' % repo)
    subprocess.run(["cc", "-I", os.path.join(repo, "include"), "-I", os.path.join(repo, "src"), "-DZIX_NO_DEFAULT_CONFIG", "-D_GNU_SOURCE", c,
                    os.path.join(repo, "src/allocator.c"), os.path.join(repo, "src/errno_status.c"), "-DHAVE_POSIX_MEMALIGN", "-o", exe], check=True, capture_output=True)
    v = subprocess.run([exe], check=True, capture_output=True, text=True).stdout.split()
    return ["-DOFF_WRITE_HEAD=%s" % v[0], "-DOFF_READ_HEAD=%s" % v[1], "-DOFF_SIZE=%s" % v[2], "-DOFF_MASK=%s" % v[3], "-DOFF_BUF=%s" % v[4], "-DRING_SIZEOF=%s" % v[5]]
