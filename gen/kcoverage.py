#!/usr/bin/env python3
"""Which lines of the zix sources do the correspondence runs (K) of the quick tier execute?  A blind-spot finder, not a check:
a line no harness run reaches is a line on which model and code could disagree unnoticed.
usage: kcoverage.py [Cxx ...]   -> prints, per source file, the lines never executed by any of the given checks (default: all)."""
import glob, os, re, shutil, subprocess, sys, tempfile
ROOT = os.path.dirname(os.path.dirname(os.path.abspath(__file__)))
props = sys.argv[1:] or ["C%02d" % i for i in range(1, 21)]
cov = tempfile.mkdtemp(prefix="kcov-")
env = dict(os.environ, VERIF_COV=cov, VERIF_SEED="1")
from concurrent.futures import ThreadPoolExecutor
def run(p): subprocess.run([os.path.join(ROOT, "bin/check"), p, "--tier", "quick"], cwd=ROOT, env=env, capture_output=True, text=True)
with ThreadPoolExecutor(6) as ex: list(ex.map(run, props))
hits = {}     # file -> {line: count}
branches = {} # file -> {(line, branch index): times taken}
for d in glob.glob(os.path.join(cov, "*")):
    for gcda in glob.glob(os.path.join(d, "*.gcda")):
        r = subprocess.run(["gcov", "-t", "-b", "-c", "-o", d, gcda], capture_output=True, text=True, cwd=d)
        cur = None; lastn = None
        for l in r.stdout.splitlines():
            mb = re.match(r"branch\s+(\d+) (taken (\d+)|never executed)", l)
            if mb and cur and lastn and "/repo/" in cur and ("/src/" in cur):
                key = (lastn, int(mb.group(1)))
                branches.setdefault(cur, {}); branches[cur][key] = branches[cur].get(key, 0) + (int(mb.group(3)) if mb.group(3) else 0)
                continue
            m = re.match(r"\s*-:\s*0:Source:(.*)", l)
            if m: cur = os.path.realpath(os.path.join(d, m.group(1))) if not os.path.isabs(m.group(1)) else m.group(1); continue
            m = re.match(r"\s*([0-9#=\-*]+)\*?:\s*(\d+):", l)
            if m and cur and "/repo/" in cur and ("/src/" in cur or "/include/" in cur):
                c, n = m.group(1), int(m.group(2)); lastn = n
                if c == "-": continue
                k = 0 if c.startswith(("#", "=")) else int(c.rstrip("*"))
                hits.setdefault(cur, {}); hits[cur][n] = hits[cur].get(n, 0) + k
shutil.rmtree(cov, ignore_errors=True)
tot = miss = 0
for f in sorted(hits):
    un = sorted(n for n, k in hits[f].items() if k == 0)
    tot += len(hits[f]); miss += len(un)
    src = open(f).read().split("\n")
    print("%s: %d of %d executable lines never executed" % (f.replace("/repo/", ""), len(un), len(hits[f])))
    for n in un: print("    %4d: %s" % (n, src[n - 1].strip()[:110]))
bt = bm = 0
for f in sorted(branches):
    un = sorted(k for k, v in branches[f].items() if v == 0 and hits.get(f, {}).get(k[0], 0) > 0)
    bt += len(branches[f]); bm += len(un)
    if un:
        src = open(f).read().split("\n")
        print("%s: %d of %d branch outcomes never taken (on executed lines)" % (f.replace("/repo/", ""), len(un), len(branches[f])))
        for n in sorted(set(k[0] for k in un)): print("    %4d: %s" % (n, src[n - 1].strip()[:110]))
print("branches: %d of %d outcomes never taken" % (bm, bt))
print("total: %d of %d executable lines of the zix sources are never executed by the quick-tier correspondence runs" % (miss, tot))
