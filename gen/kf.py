#!/usr/bin/env python3
"""Maintain known_findings.json (by hand, never at check run time).
usage: kf.py fixed <prop> <commit> <corpus-file-or-> <what...>
       kf.py finding <prop> <key> <what...>"""
import json, os, sys
ROOT = os.path.dirname(os.path.dirname(os.path.abspath(__file__)))
P = os.path.join(ROOT, "known_findings.json")
d = json.load(open(P))
kind = sys.argv[1]
if kind == "fixed":
    prop, commit, corpus = sys.argv[2:5]
    what = " ".join(sys.argv[5:])
    d["entries"].append({"property": prop, "kind": "fixed", "commit": commit, "replay": corpus,
                         "what": what, "line": "fixed: property=%s %s %s" % (prop, commit, what)})
else:
    prop, key = sys.argv[2:4]
    what = " ".join(sys.argv[4:])
    d["entries"].append({"property": prop, "kind": "finding", "key": key, "what": what})
json.dump(d, open(P, "w"), indent=1)
