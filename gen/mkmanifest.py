#!/usr/bin/env python3
"""Writes MANIFEST.json from the table below (kept in one place so it is always valid)."""
import json, os
ROOT = os.path.dirname(os.path.dirname(os.path.abspath(__file__)))
props = [json.loads(l)["id"] for l in open(os.path.join(ROOT, "properties.jsonl"))]

COMMON_NOTE = ("Trusted: Lean 4.33 kernel (axioms propext/Classical.choice/Quot.sound only, audited each run), the hand-written "
               "model's transcription of the C code as far as the correspondence harness exercises it, translators for generated "
               "constants, compiler/libc/sanitizers. ")

CHECKS = {
 "C20": dict(cat="proof", tech="Lean 4 theorems (decide over regenerated status tables + general lemmas) and model/implementation correspondence",
   text="zix_strerror: all theorems quantify over every Int (table part by kernel `decide` on the table regenerated from status.h/status.c on each run); "
        "string views: view_equals_iff / view_copy_exact proved for every storage and every pair of in-bounds views. Tie to the code: regenerated tables plus "
        "differential run of model and implementation on all slice pairs of small storages.",
   note="The view model abstracts pointers to (offset,length) into one storage; views into unrelated objects behave as disjoint offsets.", ref="§5 C20"),
 "C09": dict(cat="proof", tech="Lean 4 theorems (invariant by induction over request histories, omega on size_t arithmetic modelled with explicit % 2^64) and white-box model/implementation correspondence",
   text="For every buffer address and capacity and every valid request history the invariant (alignment, in-bounds, pairwise disjointness of live blocks) is proved "
        "(bump_inv_reachable, bump_live_blocks_sound); per request: soundness of granted blocks in unbounded arithmetic, refusal iff the rounded block does not fit, "
        "refusal changes nothing, realloc only for the last block and in place, free of the last block reclaims. Tie: per-step comparison of returned offset, last and top "
        "with the implementation on unaligned buffers, huge sizes and overflowing calloc products, plus the harness's own spec oracle.",
   note="calloc's zeroing (memset) and the buffer being a real object (base+capacity < 2^64) are assumed; alignments in K divide 65536.", ref="§5 C09"),
 "C05": dict(cat="proof", tech="Lean 4 theorems (bit-smear = least power of two via testBit; refinement of the masked 32-bit ring to a byte FIFO; transaction invariant) and white-box correspondence of both heads and the open transaction",
   text="Proved: next_pow2_spec (for 1 <= s <= 2^31 the smear is the least power of two >= s), new_wf/new_capacity, ring_space_sum (read_space + write_space = capacity always), write_refines / read_refines / peek_refines / skip_refines / reset_refines "
        "(success exactly when the request fits, exact bytes in FIFO order, otherwise 0 and no change), and for transactions begin_ok, tx_amend (invisible, contiguous, NO_MEM exactly beyond the free space seen at begin), tx_write_space, tx_commit_is_one_write, "
        "tx_survives_read; history level (Properties/C05History.lean): ring_refines_queue (every single-thread history of write/read/peek/skip/reset/begin/amend/commit/abandon on zix_ring_new(s), 1 <= s <= 2^31, returns exactly what a bounded FIFO with transactions returns and stores its bytes), reachable_space_sum, spec_abandon_no_trace, spec_commit_is_one_write. Tie: per call the return value, delivered bytes, both heads and the transaction record compared with the implementation for sizes 1..130 and 2^k±1, requests clustered at the fits/does-not-fit boundary.",
   note="memcpy modelled as list copy; sizes 0 and > 2^31 make next_power_of_two return 0 and are outside the property; x & mask is modelled as x % size (equal for the power-of-two sizes proved).", ref="§5 C05"),
 "C16": dict(cat="proof", tech="Lean 4 theorems (loop invariant by induction on fuel: the C scanner equals the token-level specification for every string and environment) and model/implementation correspondence on an exhaustive small alphabet",
   text="expand_terminates and expand_eq_spec are proved for every NUL-free string and every environment (fuel length+1 always suffices; the scanner's output is the token-level spec: "
        "$NAME with the longest [A-Z0-9_] run, values appended verbatim, unset references and all other text copied). Token lemmas state the tilde rules. Tie: the scanner model is compared with "
        "the implementation on every string over {$ ~ A _ a / : {} up to length 5 (7 thorough) in seven environments, each call under a CPU watchdog.",
   note="HOME-unset and glued-tilde behaviour follow the code (the property leaves them open); realloc/memcpy modelled as list append.", ref="§5 C16"),
 "C17": dict(cat="proof", tech="Lean 4 theorems (deadline arithmetic for all uint32 pairs by induction+omega; EINTR retry loop over an arbitrary oracle; regenerated errno table by decide; abstract counter invariant over all interleavings) and correspondence under scripted kernel results (linker --wrap)",
   text="deadline_exact_normalised for every now and all 2^64 (seconds, nanoseconds) pairs; wait_resumes_after_eintr / wait_never_reports_eintr for every oracle; try_wait/timed_wait status iff theorems over the errno table "
        "regenerated from errno_status.c; sem_conservation and sem_no_lost_wakeup for the abstract counter on every interleaving. Tie: sem_posix.c is run with sem_wait/sem_trywait/sem_timedwait/clock_gettime wrapped; status, "
        "call count and the abstime received are compared with the model; plus a real-thread run (posters, waiters of all three kinds, SIGUSR1 storms, try-wait counts, timeouts never early) against what the abstract counter predicts (support).",
   note="The kernel semaphore, real time and signal delivery are modelled, not verified: the schedule clauses are theorems about an abstract counter composed with the documented behaviour of sem_*.", ref="§5 C17"),
 "C13": dict(cat="proof", tech="Lean 4 theorems on a BitVec model with constants and multiplier inverses regenerated from digest.c (injectivity via explicit inverses; length law by truncation to 5 bits + decide) and correspondence against implementation and reference hashes",
   text="Proved for all seeds and byte strings: aligned = general (64 and 32 bit), seed_injective, block_injective (one word-sized block, rest fixed), length_zero_extension32 (full), "
        "length_zero_extension64 for a non-empty tail and for block-aligned lengths of at most one block; zix_digest = 64-bit variant from the regenerated #if. The unrestricted fasthash64 length clause is FALSE of the algorithm: "
        "kernel-checked witness length_zero_extension64_counterexample, replayed on the implementation and listed as a known finding. Tie: model = implementation = reference fasthash64/murmur3 on all lengths 0..72 x alignments 0..7 "
        "with the buffer flush against ASan-poisoned memory, plus an implementation-only sensitivity oracle.",
   note="little-endian platform; 64-bit size_t; 'nothing outside the buffer is read' is runtime-checked (ASan poisoning), not a theorem.", ref="§5 C13"),
 "C03": dict(cat="proof", tech="Lean 4 theorems (probe termination by induction on fuel; representation invariant preserved by insert/remove/rehash; find exactness; callback-role theorems) for an ARBITRARY hash function, plus white-box correspondence of slot array and callback log",
   text="Proved for every table and every hash/key function: hash_probe_terminates / hash_plan_terminates (fuel = table size always suffices); with the invariant Inv (distinct keys, codes consistent, every live record reachable from its home slot without "
        "crossing an empty slot, power-of-two size): find_some_iff / find_none_iff, insert_exists, insert_new (SUCCESS or NO_MEM with the table untouched), remove_absent, remove_present (also when shrinking fails), size_and_iteration, and find/insert callbacks only on stored "
        "records, their keys and the probe key in the documented order. Side conditions on the regenerated constants by decide. Tie: per-call comparison of status, record, size, whole slot array and callback log under 5 hash families x 3 record layouts, churn generators, CPU watchdog.",
   note="User equality is key identity; equal keys have equal codes (API contract). History level (Properties/C03History.lean): hash_refines_map — for every key accessor, hash function, allocation-failure pattern and every history from zix_hash_new each output is one the abstract map allows; reachable_inv (size = number iterated, no record twice); reachable_find.", ref="§5 C03"),
 "C06": dict(cat="proof", tech="Lean 4 theorems (AVL invariant with the C code's stored balance factors and rotation formulas, refinement to a sorted (multi)list with node identity, Fibonacci height bound) and white-box correspondence of the whole shape",
   text="Proved: insert_dups / insert_nodups (balanced, sorted, in-order list = positional insertion after equal keys, EXISTS names the existing element, height growth flag exact), remove_spec (balanced, in-order list = old minus exactly that node: other nodes keep identity, key and order), "
        "avl_height_bound (fib(h+2) <= size+1), find_spec (<= height comparisons; found iff stored), postorder_perm_inorder (free destroys each once), inv_new/inv_insert/inv_remove; history level (Properties/C06History.lean): tree_refines_spec (every history from zix_tree_new, duplicates on or off, allocation refused or not, yields exactly the outputs and the element list of an abstract sorted (multi)set), spec_sorted_and_size, spec_elements_stable, reachable_find_bound (c comparisons in a reachable tree of n elements: fib(c+2) <= n+1, i.e. c <= 1.44 log2(n+2)). Tie: after every call the whole shape "
        "(node id, key, balance, parent), size and comparator-call count are compared with the implementation; the harness checks iterator stability, destroy-once, callback user data, allocator balance, and the proved comparison bound on every find (so a lost balance is API-visible).",
   note="The parent-pointer iterators are transcribed as the loops of tree.c over the node table (left/right/parent of every node, which is what the harness compares after every call) and proved to step through the in-order sequence (Properties/C06Iter.lean: next_is_successor, prev_is_predecessor, begin_is_first, rbegin_is_last, forward_walk, backward_walk, reachable_walks).", ref="§5 C06"),
 "C01": dict(cat="proof", tech="Lean 4 theorems (sorted-set refinement of insert and remove by induction over the tree, lifted to every operation history under an arbitrary allocation oracle; WF invariant; height bound; comparison count; clear) and white-box correspondence on five builds",
   text="Proved for every valid page geometry (INODE_VALS = LEAF_VALS/2 >= 3), every element and every allocation-failure oracle: insert_refines / insert_success_iff_absent, remove_refines, find_refines, clear_destroys_each_once, and for every history "
        "btree_wf_invariant and btree_refines_sorted_set (statuses, contents = strictly ascending set, size = cardinality); btree_height_bound and btree_depth_le_maxHeight (height <= MAX_HEIGHT below a computed capacity; default build: >= 2^43 elements, from the regenerated geometry); "
        "find_comparisons (<= height * (log2 leafMax + 1)). Tie: status, removed element, size and (white-box) the whole tree with page ids, allocation events, height and comparator-call count compared after every call on page sizes 64/128/256/4096, five key-order generators.",
   note="Known finding (recorded): small pages with the default maximum height exceed it. Destroy/comparator user data and 'each element destroyed once' on the implementation are checked by the harness; element identity is the key (set semantics).", ref="§5 C01"),
 "C02": dict(cat="proof", tech="Lean 4 theorems (iterator paths: begin, increment, lower_bound with the ancestor fallback, equality; find in C01) by induction over the tree, plus correspondence with exhaustive probe sweeps",
   text="Proved for every well-formed tree of every valid geometry: lower_bound_spec (dereferences to the first element not less than the key under any compatible comparator — the first of the matching run for wildcards — or end; valid iterator), "
        "begin_spec, increment_walks_inorder (next element in order, end after the last, validity preserved), valid_iter_eq_iff_same_element and iter_equals_iff (equal exactly at the same position; all end iterators equal), lower_bound_comparisons (O(log n)). "
        "find_refines is in C01. Tie: lower_bound sweeps over every key in/between/below/above the stored keys with exact and wildcard comparators, iterator equality, full walks and every remove's next, compared as dereferenced element and index path per level.",
   note="remove_next_is_successor (the `next` of a successful remove is at the in-order successor, for leaf- and inode-resident victims) is proved in Properties/C01Remove. Comparator argument order and user data are checked by the harness on the implementation.", ref="§5 C02"),
 "C10": dict(cat="proof", tech="Lean 4 theorems relating the C scans (index ranges) to a Lean transcription of the C++17 rules, for every NUL-free string; the transcription itself is cross-checked against libstdc++, the scans against the implementation",
   text="Proved for every string: views_are_slices, has_iff_nonempty (all queries), filename_eq_stem_append_extension (text and adjacency), decomp_text_eq_cpp17 (filename, stem, extension, relative_path are textually the C++17 results), "
        "root_parent_same_path (root directory, root path and parent path denote the C++17 path), is_absolute_iff. Tie: every string over {/ . a} up to length 9 (12 thorough) plus random bytes: ranges, queries and iterator frames equal the model's; "
        "the harness judges every answer against libstdc++; ASan with exact-size inputs observes that nothing outside the string is read.",
   note="POSIX build only; libstdc++ 12 stands in for the C++17 model when validating the Lean transcription; 'no byte outside the input is read' is runtime-checked.", ref="§5 C10"),
 "C11": dict(cat="proof", tech="Lean 4 theorems (the element-by-element normaliser denotes the C++17 normal form; normal-form predicate; idempotence; fixed points) for every NUL-free string, with the C++17 rules cross-checked against libstdc++",
   text="Proved for every string: normal_same_path_as_cpp17 (parse (normalize s) = C++17 lexically_normal as a path value), cpp17_normal_is_normal and normal_form (no '.' unless the result is '.', no name/.., no .. under the root, no separator after a trailing .., "
        "no repeated separators, non-empty for non-empty input), normal_idempotent, normal_fixes_normal_paths. Tie: output text equals the model's on every string over {/ . a} up to length 9 (12 thorough); on the implementation itself the harness checks normal form, "
        "path equality with libstdc++ and idempotence.",
   note="POSIX build; a multi-separator root is collapsed to one separator (same path).", ref="§5 C11"),
 "C12": dict(cat="proof", tech="Lean 4 theorems (join text = C++17 operator/; the component iterator yields the C++17 iteration sequence; lexically_relative NULL iff empty and same element sequence otherwise) for all pairs of NUL-free strings",
   text="Proved for all pairs: join_eq_cpp17_text, join_null (NULL = empty), iter_elements_eq_cpp17, relative_null_iff_cpp17_empty, relative_same_path, preferred_id_posix. Tie: all pairs of strings over {/ . a} up to length 5 (6 thorough) plus random pairs and NULL "
        "arguments: text or NULL equals the model's; the harness judges join against operator/ text and relative against libstdc++; ASan with exact-size arguments observes in-bounds reads and writes.",
   note="POSIX build; out-of-bounds access is runtime-checked.", ref="§5 C12"),
 "C14": dict(cat="proof", tech="Lean 4 theorems over a model of zix_copy_file with an ARBITRARY per-call fault oracle (errno modelled), plus correspondence with every system call interposed (linker --wrap)",
   text="Proved for every source, destination state, option and every fault oracle (a failing call sets errno non-zero): copy_success_complete (SUCCESS only if the destination holds exactly the source's bytes), copy_source_untouched, copy_no_faults_succeeds "
        "(short counts, EXDEV/EINVAL/ENOSYS from copy_file_range and a refused block are not failures), copy_excl_exists / copy_excl_never_modifies, copy_refuses_nonregular, copy_onto_itself_refused, copy_closes_all. Tie: status, source intact, destination bytes, "
        "descriptor balance and the system-call trace compared under injected errno / short counts at every call position, for 9 sizes x 8 destination states x both options x 4 kernel-copy modes.",
   note="Abstract POSIX layer (open/fstat/ftruncate/read/write/copy_file_range/fdatasync/close); successful calls leave errno unchanged; block size positive (the code guarantees 4096 otherwise); no concurrent modification; durability not modelled. A close error of the last descriptor is not reported (content is complete).", ref="§5 C14"),
 "C15": dict(cat="proof", tech="Lean 4 theorems (create_directories for EVERY operating system obeying six stated laws, instantiated by a tree with symbolic links and by the symlink-free tree, via the proved path-iterator model; file_equals page loop; regenerated file-type table by decide) and correspondence on a real scratch tree and against direct system calls",
   text="Proved: mkdirs_success_iff_dir (SUCCESS exactly when the path names a directory afterwards, every path shape, every well-formed tree), mkdirs_idempotent, mkdirs_only_adds_dirs, mkdirs_empty; the same clauses for createDirectoriesG over any state type and stat/mkdir pair satisfying OsLaws (mkdirsG_success_iff_dir, mkdirsG_idempotent, mkdirsG_dirs_stay, mkdirsG_existing), linkTree_laws (POSIX path resolution with symbolic links — relative/absolute targets, dangling links, loops — satisfies the laws) and link_mkdirs_success_iff_dir / _idempotent / _only_adds_dirs; file_equals_iff_bytes (all contents, every page size, with or without pages), "
        "file_equals_symm, file_equals_missing_false; file_type_table, file_type_other_unknown, file_type_ignores_permissions over the regenerated table. Tie: create_directories on every shape over {a,b,.,..,empty} up to 4 (5) components x 7 trees and over {k,a,b,..,empty} x 10 trees with symbolic links, incl. the resulting tree; "
        "file_equals at page boundaries, hard links, refused pages; 9 file kinds vs stat/lstat; file_size; canonical_path vs realpath; dir_for_each; descriptor balance.",
   note="Permissions, mount points and concurrent modification are not modelled (they enter only through OsLaws). file_size / canonical_path / dir_for_each are judged against direct system calls by the harness, not modelled.", ref="§5 C15"),
 "C18": dict(cat="other", tech="Lean 4 theorems about the pthread call sequence and status mapping (composed with an assumed pthread contract) plus observation of interposed pthread calls and real threads",
   text="Proved: create_passes_requested_stack (the attribute handed to pthread_create carries the requested size, for every size), create_runs_once_on_requested_stack (under the platform contract), create_error_reported (SUCCESS iff pthread_create returned 0, regenerated errno table), join_status. "
        "Observed: the interposed call sequence equals the model's; real threads (stacks from PTHREAD_STACK_MIN to 64 MiB, up to 16 at once; thorough 128) report their stack size, touch the requested depth, run once with their argument, and their plain writes are visible after join.",
   note="This property is mostly the platform's: pthread semantics are assumed, not verified.", ref="§5 C18"),
 "C19": dict(cat="other", tech="Lean 4 theorems about the regenerated flock flag expressions and an assumed flock table (mutual exclusion over all interleavings, TRY non-blocking, BLOCK waits, unlock releases) plus observation on real handles and processes",
   text="Proved: lock_flags_shape (decide on the regenerated expressions), lock_mutual_exclusion (at most one holder after every interleaving of lock/unlock/close by any number of handles), try_returns_immediately (SUCCESS if free, UNAVAILABLE if held), "
        "block_returns_only_when_acquired, unlock_releases. Observed: flock interposed (flags and status mapping), random handle histories against the model's holder set, forked processes with a shared occupancy counter in both modes, a BLOCK waiter that must not acquire before release.",
   note="flock semantics are the kernel's (assumed). 'Promptly' for TRY means LOCK_NB is passed, not a stopwatch.", ref="§5 C19"),
 "C04": dict(cat="proof", tech="Lean 4 theorems over a release/acquire transition system (single-writer atomics with stale acquire loads, per-byte plain accesses, position-based happens-before) quantified over ALL schedules, tied to ring.c by the access log of its clang -fsanitize=thread instrumentation",
   text="Proved for every ring size, every well-formed writer call sequence, every reader call sequence and EVERY schedule (every interleaving at every shared access, every stale value an acquire load may return): spsc_race_free (no plain buffer access unordered with the conflicting one), "
        "spsc_deliveries_are_committed (every read/peek delivers exactly the committed bytes at its position), spsc_prefix, spsc_contents (nothing lost; uncommitted bytes never visible), spsc_quiescent_contents, spsc_wait_free (a thread scheduled alone finishes within a bound of its own work). "
        "Tie: for each public function x N <= 16 (64 thorough) x every head pair x every request size, the logged sequence of atomic loads/stores with their memory orders, per-byte buffer accesses and any non-own plain head access equals the program the theorems are about; return value and heads too.",
   note="The C11 release/acquire fragment is rendered as the machine of Model/RingRA.lean (trusted rendering, argued in DESIGN.md §5-C04); the orders of the nine atomic access sites are regenerated from the instrumented object code on every run (theorem ring_orders_as_proved); when they differ, the vector-clock machine Model/RingRAX.lean is searched with the observed orders for a racy schedule, which becomes the replay (a weakened order cannot be exhibited on x86 hardware). reset/mlock are not thread-safe by contract and are outside the programs. Two-thread soak run is support only.", ref="§5 C04"),
 "C07": dict(cat="proof", tech="Lean 4 theorems over component models with allocation oracles (B-tree: arbitrary Nat -> Bool oracle over every history; hash: refused table allocation on insert and on shrink; AVL: refused node) plus fault-injection correspondence and an every-fault-index sweep of the string/filesystem functions",
   text="Proved: btree_insert_fault_atomic (for an ARBITRARY oracle, NO_MEM leaves contents and size unchanged, was caused by a refused request of this call, and the tree stays well formed), btree_survives_any_faults (invariant after any history under any oracle), btree_new_fault, "
        "C03.insert_new (NO_MEM only if the bigger table was refused; table untouched) and C03.remove_present (removal completes and the invariant holds when shrinking is refused), avl_insert_fault_atomic. Tie: B-tree histories with single and persistent faults and continuations compared with the model "
        "(whole tree + allocation events); hash and AVL likewise; ring construction, path builders, string_view_copy, environment expansion, create_directories, canonical/current/temp path, temporary directory swept over EVERY request index k (single and persistent) with an implementation-only oracle "
        "(documented failure or fault-free result, no leak, no misuse, no crash under ASan/UBSan). copy_file's and file_equals' fallbacks are theorems/cases of C14/C15.",
   note="For the string/filesystem functions the verdict is the implementation-only oracle (no separate Lean model of their allocation behaviour beyond C16/C10-12 value models).", ref="§5 C07"),
 "C08": dict(cat="proof", tech="Lean 4 theorems about allocator events of the B-tree model (blocks carry ids; history_pages_accounted: after any history the outstanding blocks are exactly the pages reachable from the root; lifecycle_balanced: free after any history releases every block once; ZixTree: avl_lifecycle_balanced / avl_free_after_alloc / avl_outstanding over every history incl. refused and duplicate inserts; ZixHash: hash_lifecycle_balanced / hash_free_after_alloc / hash_outstanding / hash_refused_keeps_array over every history and failure pattern) plus, for every component, a tracking allocator with block registry, a default-allocator guard, libc-allocation poisoning of zix sources and a static scan",
   text="Every component (B-tree, hash, AVL, ring, path builders, string_view_copy, environment expansion, copy_file on the kernel-copy and the user-space path, file_equals, create_directories, canonical/current/temp path) is run with a tracking allocator that gives every block a serial id, logs each entry point "
        "and reports wrong-entry release, double or foreign release and outstanding blocks; a guard aborts if a zix function reaches the default allocator while a caller allocator was supplied; zix sources are compiled so that direct malloc/calloc/realloc/free/posix_memalign abort; src/ is scanned statically. "
        "B-tree page events (allocate/free with ids) equal the model's after every call. Theorems: alloc_page_fresh; the history-level page-accounting theorems (live blocks = pages of the tree, nothing outstanding after free) are being added.",
   note="Exactly-once is a theorem for the B-tree, ZixTree and ZixHash models (whose event sequences are compared call by call with the tracking allocator's log); for the string, environment, filesystem and ring functions it is observed by the tracking allocator on the exercised inputs and fault positions, not a theorem.", ref="§5 C08"),
}

NOT_YET = "check not built yet in this revision (framework under construction; see DESIGN.md §8)"

def main():
    checks, na = [], []
    for p in props:
        c = CHECKS.get(p)
        if not c:
            na.append({"property_id": p, "reason": NOT_YET}); continue
        checks.append({
            "property_id": p,
            "quick_cmd": "bin/check %s --tier quick" % p,
            "thorough_cmd": "bin/check %s --tier thorough" % p,
            "evidence_file": "evidence/%s.json" % p,
            "replay_cmd_template": "bin/check %s --replay {path}" % p,
            "engine": "lean4+correspondence",
            "level_claimed": {"category": c["cat"], "text": c["text"], "design_ref": "DESIGN.md " + c["ref"]},
            "level_note": COMMON_NOTE + c["note"],
            "technique": c["tech"],
        })
    m = {
        "version": 1,
        "setup_cmd": "cd lean && lake build ZixModel zixdriver",
        "hooks": {"guard": "ZIX_VERIF", "enable": "harnesses compile /repo's sources directly with -DZIX_VERIF (no hook is currently needed: white-box access by #include of the .c file and linker --wrap)",
                  "baseline_off_cmd": "meson test -C /repo/_build", "source_commits": [], "add_only": True},
        "engines": [{"name": "lean4+correspondence", "path": "bin/check", "serves_properties": [c["property_id"] for c in checks],
                     "kind_free_text": "Lean 4 model + theorems (lake build, #print axioms audit), generated constants, C harness vs compiled Lean driver over a line protocol"}],
        "checks": checks,
        "not_applicable": na,
        "notes": "See DESIGN.md. known_findings.json lists genuine defects (fixed or recorded).",
    }
    json.dump(m, open(os.path.join(ROOT, "MANIFEST.json"), "w"), indent=1)

if __name__ == "__main__":
    main()
