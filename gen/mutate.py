#!/usr/bin/env python3
"""Mechanical mutation campaign: a blind-spot finder for the checks (not a check itself).

  mutate.py list  [--per-file N] [--seed S] > mutants.jsonl      enumerate and sample mutants of /repo/src
  mutate.py run   mutants.jsonl results.jsonl [--workers W]       classify each mutant

A mutant is one small textual edit of one line of a zix source file.  Each is applied in a scratch git worktree of
/repo (never in /repo itself), built, run through the 24 pinned tests, and - if the tests still pass - through the
quick checks of the properties anchored in that file, run from a scratch copy of /verif with VERIF_REPO pointing at
the worktree.  Outcomes: stillborn (does not compile), killed-by-tests, caught (which check), survived.  Survivors are
either equivalent mutants or blind spots; they are reviewed by hand and the real ones become seeded changes."""
import json, os, random, re, shutil, subprocess, sys, threading, queue

ROOT = os.path.dirname(os.path.dirname(os.path.abspath(__file__)))
FILES = {
    "src/btree.c": ["C01", "C02", "C07", "C08"], "src/hash.c": ["C03", "C07", "C08"], "src/ring.c": ["C05", "C04", "C07", "C08"],
    "src/tree.c": ["C06", "C07", "C08"], "src/bump_allocator.c": ["C09"], "src/path.c": ["C10", "C11", "C12", "C07"],
    "src/digest.c": ["C13"], "src/filesystem.c": ["C15", "C07", "C08"], "src/posix/filesystem_posix.c": ["C14", "C15", "C19", "C08"],
    "src/posix/environment_posix.c": ["C16", "C07"], "src/posix/sem_posix.c": ["C17"], "src/posix/thread_posix.c": ["C18"],
    "src/status.c": ["C20"], "src/string_view.c": ["C20", "C07"], "src/errno_status.c": ["C20", "C17", "C14"], "src/system.c": ["C14", "C15"],
    "src/path_iter.h": ["C10", "C12", "C15"], "src/index_range.h": ["C10", "C11", "C12"],
}

OPS = [
    ("rel", r"(?<![<>=!\-+*/&|])<(?![<=])", "<="), ("rel", r"(?<![<>=!\-])<=(?!=)", "<"), ("rel", r"(?<![<>=!\-])>(?![>=])", ">="),
    ("rel", r"(?<![<>=!])>=(?!=)", ">"), ("rel", r"==", "!="), ("rel", r"!=", "=="),
    ("logic", r"&&", "||"), ("logic", r"\|\|", "&&"),
    ("arith", r" \+ 1U?\b", ""), ("arith", r" - 1U?\b", ""), ("arith", r"(?<=[\w\)\]]) \+ (?=[\w\(])", " - "), ("arith", r"(?<=[\w\)\]]) - (?=[\w\(])", " + "),
    ("const", r"\b0U\b", "1U"), ("const", r"\b1U\b", "2U"), ("const", r"\b2U\b", "1U"),
    ("neg", r"\bif \(!", "if ("), ("neg", r"\bwhile \(!", "while ("),
    ("incr", r"\+\+", "--"),
]

def candidates(repo):
    out = []
    for f in FILES:
        p = os.path.join(repo, f)
        if not os.path.exists(p): continue
        lines = open(p).read().split("\n")
        in_comment = False
        for i, line in enumerate(lines):
            s = line.strip()
            if "/*" in s and "*/" not in s: in_comment = True
            if in_comment:
                if "*/" in s: in_comment = False
                continue
            if not s or s.startswith(("//", "#", "*", "/*")) or "assert(" in s or "static_assert" in s: continue
            code = line.split("//")[0]
            for kind, pat, rep in OPS:
                for m in re.finditer(pat, code):
                    if "->" in code[max(0, m.start() - 1):m.end() + 1]: continue
                    new = code[:m.start()] + rep + code[m.end():] + line[len(code):]
                    out.append({"file": f, "line": i + 1, "kind": kind, "old": line, "new": new})
            # statement deletion: a plain assignment or call statement on one line
            if re.match(r"^\s+[\w\->\.\[\]\*\(\)]+(\s*[-+|&]?=\s*[^=].*|\(.*\));\s*$", code) and not re.match(r"^\s*(return|const|static|unsigned|int|size_t|char|bool|uint\w+|Zix\w+\*?\s+\w+\s*=)", code) \
               and "va_" not in code:
                out.append({"file": f, "line": i + 1, "kind": "delete", "old": line, "new": re.match(r"^\s*", line).group(0) + "/* deleted */;"})
    return out

def cmd_list(argv):
    per = int(argv[argv.index("--per-file") + 1]) if "--per-file" in argv else 25
    seed = int(argv[argv.index("--seed") + 1]) if "--seed" in argv else 1
    rng = random.Random(seed)
    c = candidates("/repo")
    byf = {}
    for m in c: byf.setdefault(m["file"], []).append(m)
    k = 0
    for f, ms in sorted(byf.items()):
        rng.shuffle(ms)
        for m in ms[:per]:
            k += 1; m["id"] = "M%04d" % k; m["props"] = FILES[f]
            print(json.dumps(m))
    sys.stderr.write("%d candidates, %d sampled\n" % (len(c), k))

def sh(cmd, **kw): return subprocess.run(cmd, capture_output=True, text=True, **kw)

def worker(wid, q, results, lock):
    repo = "/tmp/mut-repo-%d" % wid; verif = "/tmp/mut-verif-%d" % wid
    if not os.path.isdir(repo):
        sh(["git", "-C", "/repo", "worktree", "add", "--detach", repo, "HEAD"])
        sh(["meson", "setup", "_build"], cwd=repo); sh(["ninja", "-C", "_build"], cwd=repo)
    sh(["rsync", "-a", "--exclude", ".git", "--exclude", ".work", "--exclude", "replays", ROOT + "/", verif + "/"])   # refreshed at every start
    env = dict(os.environ, VERIF_REPO=repo, VERIF_SEED="1")
    while True:
        try: m = q.get_nowait()
        except queue.Empty: return
        p = os.path.join(repo, m["file"])
        lines = open(p).read().split("\n")
        res = dict(m)
        if lines[m["line"] - 1] != m["old"]:
            res["outcome"] = "stale";
        else:
            lines[m["line"] - 1] = m["new"]
            open(p, "w").write("\n".join(lines))
            try:
                b = sh(["ninja", "-C", os.path.join(repo, "_build")])
                if b.returncode != 0: res["outcome"] = "stillborn"
                else:
                    try:
                        t = sh(["meson", "test", "-C", os.path.join(repo, "_build"), "--no-rebuild", "-t", "0.5"], timeout=600)
                        ok = re.search(r"^Fail:\s+0\s*$", t.stdout, re.M) and re.search(r"^Ok:\s+21\s*$", t.stdout, re.M) and re.search(r"^Timeout:\s+0\s*$", t.stdout, re.M)
                    except subprocess.TimeoutExpired:
                        ok = False
                    if not ok: res["outcome"] = "killed-by-tests"
                    else:
                        res["outcome"] = "survived"; res["checks"] = {}
                        for prop in m["props"]:
                            try:
                                r = sh([os.path.join(verif, "bin/check"), prop, "--tier", "quick"], cwd=verif, env=env, timeout=1800)
                                v = [l for l in r.stdout.splitlines() if l.startswith("VIOLATION")]
                                res["checks"][prop] = v[:1] or ["no violation (exit %d)" % r.returncode]
                                if v: res["outcome"] = "caught"; res["caught_by"] = prop; break
                            except subprocess.TimeoutExpired:
                                res["checks"][prop] = ["timeout"]; res["outcome"] = "caught"; res["caught_by"] = prop + " (timeout)"; break
            finally:
                sh(["git", "-C", repo, "checkout", "--", "."])
        with lock:
            results.write(json.dumps(res) + "\n"); results.flush()
            sys.stderr.write("%s %s:%d %s -> %s %s\n" % (m["id"], m["file"], m["line"], m["kind"], res["outcome"], res.get("caught_by", "")))

def cmd_run(argv):
    src, dst = argv[0], argv[1]
    w = int(argv[argv.index("--workers") + 1]) if "--workers" in argv else 4
    done = set()
    if os.path.exists(dst):
        for l in open(dst): done.add(json.loads(l)["id"])
    q = queue.Queue()
    for l in open(src):
        m = json.loads(l)
        if m["id"] not in done: q.put(m)
    lock = threading.Lock()
    with open(dst, "a") as results:
        ts = [threading.Thread(target=worker, args=(i, q, results, lock)) for i in range(w)]
        for t in ts: t.start()
        for t in ts: t.join()

if __name__ == "__main__":
    {"list": cmd_list, "run": cmd_run}[sys.argv[1]](sys.argv[2:])
