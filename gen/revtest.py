#!/usr/bin/env python3
"""Undo one `fix:` commit of /repo in the working tree (reverse-apply its diff), run the quick checks of
the given properties, restore.  A repaired defect must be reported again when its repair is taken out.
usage: revtest.py <commit> <Cxx> [<Cyy> ...]"""
import subprocess, sys, os, tempfile
ROOT = os.path.dirname(os.path.dirname(os.path.abspath(__file__)))
REPO = os.environ.get("VERIF_REPO", "/repo")
commit = sys.argv[1]; props = sys.argv[2:]
d = subprocess.run(["git", "-C", REPO, "show", "--format=", commit], capture_output=True, text=True, check=True).stdout
with tempfile.NamedTemporaryFile("w", suffix=".diff", delete=False) as f:
    f.write(d); name = f.name
rev = name + ".rev"
# build the reversed patch with git itself (so that seedtest can apply it forwards)
if subprocess.run(["git", "-C", REPO, "apply", "-R", "--3way", name]).returncode:
    subprocess.run(["git", "-C", REPO, "reset", "-q", "--hard", "HEAD"], check=True)
    os.unlink(name)
    sys.exit("the reverse of %s does not apply cleanly (later commits touch the same lines): undo it by hand" % commit)
r = subprocess.run(["git", "-C", REPO, "diff", "HEAD"], capture_output=True, text=True, check=True).stdout
subprocess.run(["git", "-C", REPO, "reset", "-q", "--hard", "HEAD"], check=True)
open(rev, "w").write(r)
try:
    sys.exit(subprocess.run([sys.executable, os.path.join(ROOT, "gen/seedtest.py"), rev] + props).returncode)
finally:
    os.unlink(name); os.unlink(rev)
