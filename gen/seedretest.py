#!/usr/bin/env python3
"""Re-run the quick checks against every kept seeded change, in parallel, on scratch copies (never in /repo or /verif):
worker i owns a scratch git worktree of /repo's HEAD and an rsync'ed copy of /verif whose checks read the worktree through
VERIF_REPO.  For each seeded/<name>/patch.diff: does it still apply to HEAD?  do the checks that caught it still catch it?
usage: seedretest.py [workers]      -> seeded/retest.jsonl, one line per change."""
import json, os, subprocess, sys, glob, shutil
from concurrent.futures import ThreadPoolExecutor
ROOT = os.path.dirname(os.path.dirname(os.path.abspath(__file__)))
W = int(sys.argv[1]) if len(sys.argv) > 1 else 6
names = sorted(n for n in os.listdir(os.path.join(ROOT, "seeded")) if os.path.exists(os.path.join(ROOT, "seeded", n, "patch.diff")))
def sh(cmd, **kw): return subprocess.run(cmd, capture_output=True, text=True, **kw)
def setup(i):
    base = "/tmp/sr-%d" % i
    shutil.rmtree(base, ignore_errors=True); os.makedirs(base)
    sh(["git", "-C", "/repo", "worktree", "prune"])
    r = sh(["git", "-C", "/repo", "worktree", "add", "--detach", base + "/repo", "HEAD"]); assert r.returncode == 0, r.stderr
    sh(["rsync", "-a", "--exclude", ".git", "--exclude", ".work", "--exclude", "replays", "--exclude", "seeded", ROOT + "/", base + "/verif/"])
    os.makedirs(base + "/verif/replays", exist_ok=True)
    return base
def work(i, mine):
    base = setup(i); out = []
    env = dict(os.environ, VERIF_REPO=base + "/repo", VERIF_SEED="1")
    for n in mine:
        d = os.path.join(ROOT, "seeded", n); meta = json.load(open(os.path.join(d, "meta.json")))
        props = [p for p, v in meta.get("checks_run", {}).items() if v.get("violation_reported")] or [meta["breaks_property"]]
        rec = {"name": n, "props": props}
        if sh(["git", "-C", base + "/repo", "apply", "--check", os.path.join(d, "patch.diff")]).returncode:
            rec["applies"] = False; out.append(rec); print(json.dumps(rec), flush=True); continue
        rec["applies"] = True
        sh(["git", "-C", base + "/repo", "apply", os.path.join(d, "patch.diff")])
        res = {}
        for p in props:
            r = sh([base + "/verif/bin/check", p, "--tier", "quick"], cwd=base + "/verif", env=env, timeout=3600)
            v = [l for l in r.stdout.splitlines() if l.startswith("VIOLATION")]
            res[p] = {"exit": r.returncode, "violation": bool(v), "line": "; ".join(v[:2])}
        rec["checks"] = res; rec["caught"] = any(x["violation"] for x in res.values())
        sh(["git", "-C", base + "/repo", "checkout", "--", "."]); sh(["git", "-C", base + "/repo", "clean", "-fdq"])
        sh(["git", "-C", base + "/verif", "status"])  # no-op (not a repo); generated files are rewritten by the next check
        out.append(rec); print(json.dumps(rec), flush=True)
    sh(["git", "-C", "/repo", "worktree", "remove", "--force", base + "/repo"]); shutil.rmtree(base, ignore_errors=True)
    return out
with ThreadPoolExecutor(W) as ex:
    futs = [ex.submit(work, i, names[i::W]) for i in range(W)]
    allr = [r for f in futs for r in f.result()]
with open(os.path.join(ROOT, "seeded", "retest.jsonl"), "w") as f:
    for r in sorted(allr, key=lambda r: r["name"]): f.write(json.dumps(r) + "\n")
print("stale:", [r["name"] for r in allr if not r["applies"]]); print("missed:", [r["name"] for r in allr if r["applies"] and not r["caught"]])
