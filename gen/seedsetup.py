#!/usr/bin/env python3
"""Prepare a seeded-change task for a sub-agent: scratch worktree /tmp/seed-<PID> (built) and the prompt
/tmp/seed-prompt-<PID>.txt, made from gen/seed_prompt.txt and the property's text only.
usage: seedsetup.py <PID> [extra request text]"""
import json, os, subprocess, sys
ROOT = os.path.dirname(os.path.dirname(os.path.abspath(__file__)))
pid = sys.argv[1]; extra = " ".join(sys.argv[2:])
wt = "/tmp/seed-" + pid
if not os.path.isdir(wt):
    subprocess.run(["git", "-C", "/repo", "worktree", "add", "--detach", wt, "HEAD"], check=True, capture_output=True)
    subprocess.run(["meson", "setup", "_build"], cwd=wt, check=True, capture_output=True)
    subprocess.run(["ninja", "-C", "_build"], cwd=wt, check=True, capture_output=True)
q = [json.loads(l) for l in open(os.path.join(ROOT, "properties.jsonl")) if json.loads(l)["id"] == pid][0]
text = "Property %s - %s\n\n%s\n\nQuantifier: %s\n\nCode anchors: %s" % (q["id"], q["title"], q["statement"], q["quantifier"], json.dumps(q["anchors"]))
s = open(os.path.join(ROOT, "gen/seed_prompt.txt")).read().replace("PROPTEXT", text).replace("PID", pid)
if extra: s += "\nAdditional request for this round: " + extra + "\n"
open("/tmp/seed-prompt-%s.txt" % pid, "w").write(s)
print("/tmp/seed-prompt-%s.txt" % pid)
