#!/usr/bin/env python3
"""Regenerate the table of seeded changes in DESIGN.md (between the SEEDTABLE markers) from seeded/*/meta.json."""
import glob, json, os
ROOT = os.path.dirname(os.path.dirname(os.path.abspath(__file__)))
notes = json.load(open(os.path.join(ROOT, "seeded/NOTES.json")))
out = ["| Seeded change | What it does (author's summary, truncated) | Caught by (quick tier) | Note |", "|---|---|---|---|"]
n = 0
for d in sorted(glob.glob(os.path.join(ROOT, "seeded/C*"))):
    m = json.load(open(os.path.join(d, "meta.json")))
    name = os.path.basename(d); n += 1
    caught = []
    for p, c in m["checks_run"].items():
        if c["violation_reported"]:
            wb = c["line"].count("VIOLATION") == c["line"].count("no-failing-input-found")
            caught.append(p + (" (no-failing-input-found)" if wb else ""))
    out.append("| %s | %s | %s | %s |" % (name, (m["summary"] or "")[:160].replace("|", "/").replace("\n", " "), ", ".join(caught) or "MISSED", notes.get(name, "")))
p = os.path.join(ROOT, "DESIGN.md"); s = open(p).read()
a, b = s.index("<!-- SEEDTABLE -->"), s.index("<!-- /SEEDTABLE -->")
s = s[:a] + "<!-- SEEDTABLE -->\n" + "\n".join(out) + "\n" + s[b:]
open(p, "w").write(s); print(n, "seeded changes")
