#!/usr/bin/env python3
"""Apply a seeded change to /repo, run the quick checks of the given properties, undo the change.
usage: seedtest.py <patch.diff> <Cxx> [<Cyy> ...]   — prints which checks raised a VIOLATION."""
import subprocess, sys, os
ROOT = os.path.dirname(os.path.dirname(os.path.abspath(__file__)))
REPO = os.environ.get("VERIF_REPO", "/repo")   # a scratch worktree can stand in for /repo (the checks honour VERIF_REPO too)
patch = os.path.abspath(sys.argv[1]); props = sys.argv[2:]
assert subprocess.run(["git", "-C", REPO, "status", "--porcelain"], capture_output=True, text=True).stdout.strip() == "", REPO + " not clean"
r = subprocess.run(["git", "-C", REPO, "apply", patch])
if r.returncode: sys.exit("patch does not apply")
res = {}
try:
    for p in props:
        r = subprocess.run([os.path.join(ROOT, "bin/check"), p, "--tier", "quick"], capture_output=True, text=True, cwd=ROOT, timeout=3600)
        v = [l for l in r.stdout.splitlines() if l.startswith("VIOLATION")]
        res[p] = (r.returncode, v)
        print(p, "exit", r.returncode, "|", "; ".join(v[:2]) if v else "no violation")
finally:
    subprocess.run(["git", "-C", REPO, "checkout", "--", "."])
    # restore generated Lean files and evidence to the clean-tree state
    subprocess.run(["git", "-C", ROOT, "checkout", "--", "lean/ZixModel/Generated", "evidence"])
