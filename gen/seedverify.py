#!/usr/bin/env python3
"""Verify a seeded change delivered by a sub-agent and run the checks against it.
usage: seedverify.py <PID> <A|B> <Cxx> [<Cyy> ...]
 1. in the agent's scratch worktree /tmp/seed-<PID>: apply the diff, rebuild, run the pinned tests, run the
    demonstration (must fail); undo, run the demonstration (must pass);
 2. apply the diff to /repo, run the quick checks of the given properties, undo (gen/seedtest.py);
 3. store everything under /verif/seeded/<PID>-<X>/ with meta.json."""
import json, os, shutil, subprocess, sys
ROOT = os.path.dirname(os.path.dirname(os.path.abspath(__file__)))
pid, x, props = sys.argv[1], sys.argv[2], sys.argv[3:]
wt, out = "/tmp/seed-%s" % pid, "/tmp/seed-%s-out" % pid
diff = os.path.join(out, x + ".diff")
def sh(cmd, **kw): return subprocess.run(cmd, capture_output=True, text=True, **kw)
meta_in = json.load(open(os.path.join(out, "meta.json")))
info = meta_in.get("changes", {}).get(x, {})
assert sh(["git", "-C", wt, "status", "--porcelain", "--untracked-files=no"]).stdout.strip() == "", "worktree not clean"
r = sh(["git", "-C", wt, "apply", diff]); assert r.returncode == 0, "diff does not apply: " + r.stderr
try:
    b = sh(["ninja", "-C", os.path.join(wt, "_build")])
    t = sh(["meson", "test", "-C", os.path.join(wt, "_build")])
    tests = [l.strip() for l in t.stdout.splitlines() if l.startswith(("Ok:", "Fail:", "Expected Fail:", "Timeout:"))]
    tests_ok = b.returncode == 0 and any(l.startswith("Fail:") and l.split()[-1] == "0" for l in tests) and any(l.startswith("Ok:") and l.split()[-1] == "21" for l in tests)
    d1 = subprocess.run(["timeout", "120", "bash", os.path.join(out, "build_and_run.sh"), x], capture_output=True, text=True, errors="replace", cwd=out)
finally:
    sh(["git", "-C", wt, "checkout", "--", "."])
d0 = subprocess.run(["timeout", "120", "bash", os.path.join(out, "build_and_run.sh"), x], capture_output=True, text=True, errors="replace", cwd=out)
print("tests with change:", tests, "ok" if tests_ok else "NOT OK")
print("demo with change: exit", d1.returncode, "| without: exit", d0.returncode)
valid = tests_ok and d1.returncode != 0 and d0.returncode == 0
st = sh([sys.executable, os.path.join(ROOT, "gen/seedtest.py"), diff] + props, cwd=ROOT)
print(st.stdout.strip()); 
if st.returncode: print(st.stderr[-2000:])
caught = {}
for l in st.stdout.splitlines():
    w = l.split()
    if len(w) >= 3 and w[1] == "exit": caught[w[0]] = (w[2] != "0", l.split("|", 1)[1].strip() if "|" in l else "")
name = os.environ.get("SEED_NAME", x)   # round 3 stores A/B as C/D
dst = os.path.join(ROOT, "seeded", "%s-%s" % (pid, name)); os.makedirs(dst, exist_ok=True)
shutil.copy(diff, os.path.join(dst, "patch.diff"))
for f in os.listdir(out):
    if f.startswith("demo_" + x) or f == "build_and_run.sh": shutil.copy(os.path.join(out, f), os.path.join(dst, f))
json.dump({"breaks_property": pid, "summary": info.get("summary"), "files": info.get("files"), "needs_to_manifest": info.get("needs_to_manifest"),
           "author": "independent sub-agent given only the property text and a scratch worktree",
           "confirmed_by_me": {"pinned_tests_with_change": tests, "pinned_tests_pass": tests_ok, "demo_exit_with_change": d1.returncode,
                               "demo_exit_without_change": d0.returncode, "valid": valid,
                               "how": "gen/seedverify.py: applied in the scratch worktree, ninja + meson test, build_and_run.sh with and without the change"},
           "checks_run": {p: {"violation_reported": c[0], "line": c[1]} for p, c in caught.items()},
           "agent_observed": {"without": info.get("observed_without_change"), "with": info.get("observed_with_change")}},
          open(os.path.join(dst, "meta.json"), "w"), indent=1)
print("VALID" if valid else "INVALID", "| caught by:", [p for p, c in caught.items() if c[0]])
