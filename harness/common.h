// Shared helpers for the correspondence harnesses: line protocol, hex, tracking allocator.
#ifndef VERIF_COMMON_H
#define VERIF_COMMON_H

#include <zix/allocator.h>

#include <stdbool.h>
#include <stdint.h>
#include <stdio.h>
#include <stdlib.h>
#include <string.h>

#define V_MAX_TOK 64
#define V_LINE_MAX (1 << 26)

static char v_line[V_LINE_MAX];

// Watchdog for harnesses whose operations are short: every line read re-arms a wall-clock alarm, so an operation that
// never returns (a loop that a change made endless) stops the run with a message instead of hanging the check.
#include <errno.h>
#include <signal.h>
#include <unistd.h>
static unsigned v_watchdog_secs = 0;

static void
v_watchdog_fired(int sig)
{
  (void)sig;
  static const char msg[] = "\nWATCHDOG: the operation did not return within the time limit (endless loop?)\n";
  if (write(2, msg, sizeof(msg) - 1)) {}
  _exit(4);
}

static void
v_watchdog(unsigned secs)
{
  v_watchdog_secs = secs;
  signal(SIGALRM, v_watchdog_fired);
}

// A line that starts with the word "fd0" is run with descriptor 0 closed, so that the first descriptor the library opens
// is number 0 (a valid descriptor that "fd > 0" / "if (fd)" tests mistake for none).  Descriptor 0 is put back before the
// next line is read.  The model ignores the prefix: its behaviour does not depend on descriptor numbers.
static int v_fd0_saved = -1;

// The value of errno when a library function is entered is whatever an earlier, unrelated call left there: every
// operation starts with a stale EINTR in it (a function that reads errno before a failing call of its own has set it —
// a retry loop testing `errno == EINTR` without looking at the result, a status taken from errno on a success path — is
// noticed this way).
#define V_ENTRY_ERRNO EINTR

static void
v_fd0_restore(void)
{
  if (v_fd0_saved >= 0) {
    dup2(v_fd0_saved, 0);
    close(v_fd0_saved);
    v_fd0_saved = -1;
  }
}

// Read the next non-empty, non-comment line and split it at blanks.  Returns argc, -1 at EOF.
static int
v_next(FILE* in, char** argv)
{
  v_fd0_restore();
  if (v_watchdog_secs) alarm(v_watchdog_secs);
  while (fgets(v_line, sizeof(v_line), in)) {
    int   argc = 0;
    char* p    = v_line;
    while (*p) {
      while (*p == ' ' || *p == '\n' || *p == '\r' || *p == '\t') {
        ++p;
      }
      if (!*p) {
        break;
      }
      if (argc < V_MAX_TOK) {
        argv[argc++] = p;
      }
      while (*p && *p != ' ' && *p != '\n' && *p != '\r' && *p != '\t') {
        ++p;
      }
      if (*p) {
        *p++ = '\0';
      }
    }
    if (argc == 0 || argv[0][0] == '#') {
      continue;
    }
    if (argc > 1 && !strcmp(argv[0], "fd0")) {
      for (int i = 1; i < argc; ++i) argv[i - 1] = argv[i];
      --argc;
      v_fd0_saved = dup(0);
      if (v_fd0_saved >= 0) close(0);
    }
    errno = V_ENTRY_ERRNO;
    return argc;
  }
  return -1;
}

// stdout: fully buffered normally (fast), line-buffered when replaying a single history so that a
// sanitizer abort does not lose output.
static void
v_setup_io(void)
{
  static char buf[1 << 16];
  if (getenv("VERIF_LINEBUF")) {
    setvbuf(stdout, NULL, _IOLBF, 0);
  } else {
    setvbuf(stdout, buf, _IOFBF, sizeof(buf));
  }
}

// History marker "== k": echoed and flushed by every harness
static bool
v_marker(int argc, char** argv)
{
  if (argc >= 1 && !strcmp(argv[0], "==")) {
    printf("== %s\n", argc > 1 ? argv[1] : "");
    fflush(stdout);
    return true;
  }
  return false;
}

static int
v_hexval(int c)
{
  if (c >= '0' && c <= '9') return c - '0';
  if (c >= 'a' && c <= 'f') return c - 'a' + 10;
  if (c >= 'A' && c <= 'F') return c - 'A' + 10;
  return -1;
}

// Decode a hex token ("-" = empty) into an exactly sized heap block (so that ASan guards
// both ends).  *len receives the byte count.  If nul is true one NUL byte is appended.
static unsigned char*
v_unhex(const char* s, size_t* len, bool nul)
{
  size_t n = (s[0] == '-' && !s[1]) ? 0 : strlen(s) / 2;
  unsigned char* b = (unsigned char*)malloc(n + (nul ? 1 : 0) + ((n + (nul ? 1 : 0)) ? 0 : 1));
  for (size_t i = 0; i < n; ++i) {
    b[i] = (unsigned char)(v_hexval(s[2 * i]) * 16 + v_hexval(s[2 * i + 1]));
  }
  if (nul) {
    b[n] = 0;
  }
  *len = n;
  return b;
}

static void
v_puthex(FILE* out, const void* data, size_t n)
{
  static const char d[] = "0123456789abcdef";
  const unsigned char* p = (const unsigned char*)data;
  if (!n) {
    fputc('-', out);
    return;
  }
  for (size_t i = 0; i < n; ++i) {
    fputc(d[p[i] >> 4], out);
    fputc(d[p[i] & 15], out);
  }
}

/* ------------------------------------------------------------------------------------------
   Tracking allocator: a ZixAllocator that numbers requests, can refuse chosen ones, gives
   every granted block a serial id, logs every entry point, and detects release through the
   wrong entry, double release and release of foreign pointers.
   ------------------------------------------------------------------------------------------ */

typedef struct {
  void*  ptr;
  size_t size;
  int    id;
  bool   aligned;
  bool   live;
} VBlock;

typedef struct {
  ZixAllocator base;
  VBlock*      blocks;
  size_t       n_blocks, cap_blocks;
  int          next_id;
  long         n_requests;   // requests so far (malloc/calloc/realloc/aligned_alloc)
  long         fail_at;      // refuse exactly this request index (0-based), -1 = none
  long         fail_from;    // refuse every request with index >= this, -1 = none
  size_t       first_size;   // bytes asked for by the first request since the last v_alloc_mark (0 = none yet)
  bool         marked;
  unsigned long long fail_bits;   // bit k set: refuse request k (k < 64), for arbitrary refusal patterns
  long         n_refused;
  long         n_errors;     // discipline errors
  char*        log;          // event log since last v_alloc_take_log
  size_t       log_len, log_cap;
  bool         logging;
  bool         compact;      // log only kind and block id: A3 F3 M4 f4 R4>5 (0 = refused)
} VAlloc;

static void
v_alloc_logf(VAlloc* a, const char* fmt, ...) __attribute__((format(printf, 2, 3)));

#include <stdarg.h>
static void
v_alloc_logf(VAlloc* a, const char* fmt, ...)
{
  if (!a->logging) {
    return;
  }
  if (a->compact && fmt[0] != '#') {
    return;
  }
  if (fmt[0] == '#') {
    ++fmt;
  }
  char    tmp[128];
  va_list ap;
  va_start(ap, fmt);
  int n = vsnprintf(tmp, sizeof(tmp), fmt, ap);
  va_end(ap);
  if (a->log_len + (size_t)n + 2 > a->log_cap) {
    a->log_cap = (a->log_cap + (size_t)n + 2) * 2;
    a->log     = (char*)realloc(a->log, a->log_cap);
  }
  if (a->log_len) {
    a->log[a->log_len++] = ' ';
  }
  memcpy(a->log + a->log_len, tmp, (size_t)n + 1);
  a->log_len += (size_t)n;
}

#define V_ALLOC_LIMIT ((size_t)1 << 28)

static void
v_alloc_note(VAlloc* a, size_t size)
{
  if (a->marked) { a->first_size = size; a->marked = false; }
}

// Start watching: the size of the next request is kept in first_size.
static void
v_alloc_mark(VAlloc* a)
{
  a->first_size = 0;
  a->marked     = true;
}

static bool
v_alloc_refuse(VAlloc* a)
{
  const long k = a->n_requests++;
  if (k == a->fail_at || (a->fail_from >= 0 && k >= a->fail_from) || (k < 64 && (a->fail_bits >> k & 1ULL))) {
    ++a->n_refused;
    errno = ENOMEM;   // as malloc, calloc, realloc and posix_memalign do when they fail
    return true;
  }
  return false;
}

static VBlock*
v_alloc_find(VAlloc* a, void* p)
{
  for (size_t i = a->n_blocks; i-- > 0;) {
    if (a->blocks[i].ptr == p && a->blocks[i].live) {
      return &a->blocks[i];
    }
  }
  return NULL;
}

static int
v_alloc_register(VAlloc* a, void* p, size_t size, bool aligned)
{
  if (a->n_blocks == a->cap_blocks) {
    a->cap_blocks = a->cap_blocks ? a->cap_blocks * 2 : 64;
    a->blocks     = (VBlock*)realloc(a->blocks, a->cap_blocks * sizeof(VBlock));
  }
  VBlock b = {p, size, a->next_id++, aligned, true};
  a->blocks[a->n_blocks++] = b;
  return b.id;
}

// Drop dead records from time to time so lookups stay short
static void
v_alloc_compact(VAlloc* a)
{
  size_t j = 0;
  for (size_t i = 0; i < a->n_blocks; ++i) {
    if (a->blocks[i].live) {
      a->blocks[j++] = a->blocks[i];
    }
  }
  a->n_blocks = j;
}

static void*
v_malloc(ZixAllocator* al, size_t size)
{
  VAlloc* a = (VAlloc*)al;
  v_alloc_note(a, size);
  if (v_alloc_refuse(a)) {
    v_alloc_logf(a, "m%zu=0", size);
    if (a->compact) v_alloc_logf(a, "#M0");
    return NULL;
  }
  void* p = malloc(size ? size : 1);
  memset(p, 0xA5, size);
  const int mid = v_alloc_register(a, p, size, false);
  v_alloc_logf(a, "m%zu=%d", size, mid);
  if (a->compact) v_alloc_logf(a, "#M%d", mid);
  return p;
}

static void*
v_calloc(ZixAllocator* al, size_t n, size_t size)
{
  VAlloc* a = (VAlloc*)al;
  v_alloc_note(a, n * size);
  if (v_alloc_refuse(a)) {
    v_alloc_logf(a, "c%zux%zu=0", n, size);
    if (a->compact) v_alloc_logf(a, "#C0");
    return NULL;
  }
  void* p = calloc(n * size ? n * size : 1, 1);
  const int cid = v_alloc_register(a, p, n * size, false);
  v_alloc_logf(a, "c%zux%zu=%d", n, size, cid);
  if (a->compact) v_alloc_logf(a, "#C%d", cid);
  return p;
}

static void*
v_realloc(ZixAllocator* al, void* ptr, size_t size)
{
  VAlloc* a  = (VAlloc*)al;
  v_alloc_note(a, size);
  VBlock* b  = ptr ? v_alloc_find(a, ptr) : NULL;
  int     id = b ? b->id : (ptr ? -1 : 0);
  if (ptr && !b) {
    ++a->n_errors;
    v_alloc_logf(a, "#ERR-realloc-foreign");
    return NULL;
  }
  if (b && b->aligned) {
    ++a->n_errors;
    v_alloc_logf(a, "#ERR-realloc-of-aligned-b%d", id);
  }
  if (v_alloc_refuse(a) || size > V_ALLOC_LIMIT) {
    v_alloc_logf(a, "r%d:%zu=0", id, size);
    if (a->compact) v_alloc_logf(a, "#R%d>0", id);
    return NULL;
  }
  // Always move, so that stale pointers into the old block are caught by ASan
  void* p = malloc(size ? size : 1);
  memset(p, 0xA5, size);
  if (b) {
    memcpy(p, ptr, b->size < size ? b->size : size);
    b->live = false;
    free(ptr);
  }
  const int rid = v_alloc_register(a, p, size, false);
  v_alloc_logf(a, "r%d:%zu=%d", id, size, rid);
  if (a->compact) v_alloc_logf(a, "#R%d>%d", id, rid);
  return p;
}

// A release may leave errno changed (POSIX allowed free() to do so until 2024, and a caller's allocator may do anything):
// every release through the tracking allocator does, so a function that reads errno after releasing a block is noticed.
#define V_ERRNO_AFTER_FREE EBUSY

static void v_free_common_(VAlloc* a, void* ptr, bool aligned_entry);

static void
v_free_common(VAlloc* a, void* ptr, bool aligned_entry)
{
  v_free_common_(a, ptr, aligned_entry);
  errno = V_ERRNO_AFTER_FREE;
}

static void
v_free_common_(VAlloc* a, void* ptr, bool aligned_entry)
{
  if (!ptr) {
    v_alloc_logf(a, aligned_entry ? "F0" : "f0");
    return;
  }
  VBlock* b = v_alloc_find(a, ptr);
  if (!b) {
    ++a->n_errors;
    v_alloc_logf(a, "#ERR-free-foreign-or-double");
    return;
  }
  if (b->aligned != aligned_entry) {
    ++a->n_errors;
    v_alloc_logf(a, "#ERR-free-wrong-entry-b%d", b->id);
  }
  v_alloc_logf(a, "%c%d", aligned_entry ? 'F' : 'f', b->id);
  if (a->compact) v_alloc_logf(a, "#%c%d", aligned_entry ? 'F' : 'f', b->id);
  b->live = false;
  free(ptr);
  if (a->n_blocks > 4096 && (a->next_id & 1023) == 0) {
    v_alloc_compact(a);
  }
}

static void
v_free(ZixAllocator* al, void* ptr)
{
  v_free_common((VAlloc*)al, ptr, false);
}

static void*
v_aligned_alloc(ZixAllocator* al, size_t alignment, size_t size)
{
  VAlloc* a = (VAlloc*)al;
  v_alloc_note(a, size);
  if (v_alloc_refuse(a)) {
    v_alloc_logf(a, "A%zu:%zu=0", alignment, size);
    if (a->compact) v_alloc_logf(a, "#A0");
    return NULL;
  }
  void* p = NULL;
  if (posix_memalign(&p, alignment < sizeof(void*) ? sizeof(void*) : alignment, size ? size : 1)) {
    fprintf(stderr, "harness: posix_memalign(%zu, %zu) refused\n", alignment, size);
    abort();
  }
  memset(p, 0xA5, size);
  const int aid = v_alloc_register(a, p, size, true);
  v_alloc_logf(a, "A%zu:%zu=%d", alignment, size, aid);
  if (a->compact) v_alloc_logf(a, "#A%d", aid);
  return p;
}

static void
v_aligned_free(ZixAllocator* al, void* ptr)
{
  v_free_common((VAlloc*)al, ptr, true);
}

#ifdef V_GUARD_DEFAULT
/* C08 guard: the harness always supplies its own allocator, so any use of the default allocator by
   a zix function (zix_malloc(NULL, ...), zix_aligned_free(NULL, ...)) is a discipline violation.
   src/allocator.c is compiled with -Dzix_default_allocator=real_zix_default_allocator. */
ZixAllocator* real_zix_default_allocator(void);
static long v_default_allocator_uses;
static int  v_guard_armed;

ZixAllocator*
zix_default_allocator(void)
{
  if (v_guard_armed) {
    ++v_default_allocator_uses;
    fflush(stdout);
    fprintf(stderr, "C08: the default allocator was used although the caller supplied an allocator\n");
    abort();
  }
  return real_zix_default_allocator();
}

// Direct libc allocation from a zix source file (compiled with -Dmalloc=v_forbidden_malloc ...)
void* v_forbidden_malloc(size_t n);
void* v_forbidden_calloc(size_t n, size_t m);
void* v_forbidden_realloc(void* p, size_t n);
void  v_forbidden_free(void* p);
int   v_forbidden_posix_memalign(void** p, size_t a, size_t n);
void* v_forbidden_malloc(size_t n) { (void)n; fprintf(stderr, "C08: malloc() called directly by a zix source\n"); abort(); }
void* v_forbidden_calloc(size_t n, size_t m) { (void)n; (void)m; fprintf(stderr, "C08: calloc() called directly by a zix source\n"); abort(); }
void* v_forbidden_realloc(void* p, size_t n) { (void)p; (void)n; fprintf(stderr, "C08: realloc() called directly by a zix source\n"); abort(); }
void  v_forbidden_free(void* p) { (void)p; fprintf(stderr, "C08: free() called directly by a zix source\n"); abort(); }
int   v_forbidden_posix_memalign(void** p, size_t a, size_t n) { (void)p; (void)a; (void)n; fprintf(stderr, "C08: posix_memalign() called directly by a zix source\n"); abort(); }
#endif

static void
v_alloc_init(VAlloc* a)
{
#ifdef V_GUARD_DEFAULT
  v_guard_armed = 1;
#endif
  memset(a, 0, sizeof(*a));
  a->base.malloc        = v_malloc;
  a->base.calloc        = v_calloc;
  a->base.realloc       = v_realloc;
  a->base.free          = v_free;
  a->base.aligned_alloc = v_aligned_alloc;
  a->base.aligned_free  = v_aligned_free;
  a->next_id            = 1;
  a->fail_at            = -1;
  a->fail_from          = -1;
  a->logging            = true;
}

static long
v_alloc_outstanding(const VAlloc* a)
{
  long n = 0;
  for (size_t i = 0; i < a->n_blocks; ++i) {
    n += a->blocks[i].live ? 1 : 0;
  }
  return n;
}

// Id of the live block starting at p, 0 if none
static int
v_alloc_id(VAlloc* a, const void* p)
{
  VBlock* b = v_alloc_find(a, (void*)p);
  return b ? b->id : 0;
}

// Print and clear the event log: "ev[...]"
static void
v_alloc_put_log(VAlloc* a, FILE* out)
{
  fputs(" ev[", out);
  if (a->log_len) {
    fwrite(a->log, 1, a->log_len, out);
  }
  fputc(']', out);
  a->log_len = 0;
}

static void
v_alloc_reset(VAlloc* a)
{
  for (size_t i = 0; i < a->n_blocks; ++i) {
    if (a->blocks[i].live) {
      free(a->blocks[i].ptr);
    }
  }
  a->n_blocks   = 0;
  a->next_id    = 1;
  a->n_requests = 0;
  a->fail_at    = -1;
  a->fail_from  = -1;
  a->fail_bits  = 0;
  a->n_refused  = 0;
  a->n_errors   = 0;
  a->log_len    = 0;
}

#endif
