// C01/C02 harness: ZixBTree white-box (pages by id, values, children), iterator index paths,
// comparator counts and argument roles, allocation events, fault injection.
#include "common.h"

#include "btree.c"  // found through -I <repo>/src

static VAlloc    va;
static ZixBTree* tree;
static int       cmp_calls, bad_cb;
static int       cmp_tag, destroy_tag, key_tag;
static uintptr_t search_key;     // key of the running lower_bound (for argument-role checks)
static int       search_active;
static char      dbuf[1 << 20];
static size_t    dlen;
static long      destroyed[1 << 20];
static long      destroy_order[1 << 20];
static int       n_destroyed;

#define VAL(p) ((uintptr_t)(p) - 1U)
#define PTR(v) ((void*)((uintptr_t)(v) + 1U))

static int
cmp(const void* a, const void* b, const void* user_data)
{
  ++cmp_calls;
  if (user_data != &cmp_tag) ++bad_cb;
  const uintptr_t x = VAL(a), y = VAL(b);
  return x < y ? -1 : x > y ? 1 : 0;
}

// search comparators: first argument must be a stored element, second the key
static int
cmp_exact(const void* a, const void* b, const void* user_data)
{
  ++cmp_calls;
  if (user_data != &key_tag) ++bad_cb;
  if (search_active && VAL(b) != search_key) ++bad_cb;   // key must come second
  const uintptr_t x = VAL(a), y = VAL(b);
  return x < y ? -1 : x > y ? 1 : 0;
}

static int
cmp_wild(const void* a, const void* b, const void* user_data)
{
  ++cmp_calls;
  if (user_data != &key_tag) ++bad_cb;
  if (search_active && VAL(b) != search_key) ++bad_cb;
  const uintptr_t x = VAL(a) / 16U, y = VAL(b);
  return x < y ? -1 : x > y ? 1 : 0;
}

static void
destroy(void* ptr, const void* user_data)
{
  if (user_data != &destroy_tag) ++bad_cb;
  if (n_destroyed < (1 << 20)) destroyed[n_destroyed++] = (long)VAL(ptr);
}

static void
dput(const char* fmt, ...)
{
  va_list ap;
  va_start(ap, fmt);
  if (dlen < sizeof(dbuf) - 64) dlen += (size_t)vsnprintf(dbuf + dlen, 64, fmt, ap);
  va_end(ap);
}

static void
dump_node(const ZixBTreeNode* n)
{
  dput("%c%d(", n->is_leaf ? 'L' : 'I', v_alloc_id(&va, n));
  void* const* vals = n->is_leaf ? n->data.leaf.vals : n->data.inode.vals;
  for (unsigned i = 0; i < n->n_vals; ++i) dput("%s%lu", i ? " " : "", (unsigned long)VAL(vals[i]));
  dput(")");
  if (!n->is_leaf) {
    dput("[");
    for (unsigned i = 0; i <= n->n_vals; ++i) {
      if (i) dput(" ");
      dump_node(n->data.inode.children[i]);
    }
    dput("]");
  }
}

static unsigned
tree_height(void)
{
  unsigned h = 1;
  for (const ZixBTreeNode* n = tree->root; !n->is_leaf; n = n->data.inode.children[0]) ++h;
  return h;
}

static void
wb(void)
{
  if (bad_cb) printf(" SPEC-FAIL:callback-arguments-or-user-data");
  if (tree_height() > ZIX_BTREE_MAX_HEIGHT) printf(" SPEC-FAIL:height-%u-exceeds-ZIX_BTREE_MAX_HEIGHT", tree_height());
  bad_cb = 0;
#ifdef NDEBUG
  printf(" | cmp=%d", cmp_calls);
#else
  printf(" | cmp=-");   // assertions call the comparator too: counts are compared in the NDEBUG build only
#endif
  v_alloc_put_log(&va, stdout);
  dlen = 0;
  dump_node(tree->root);
  printf(" h=%u %.*s", tree_height(), (int)dlen, dbuf);
}

static void
put_path(const ZixBTreeIter* it)
{
  if (zix_btree_iter_is_end(*it)) {
    printf("end");
    return;
  }
  for (unsigned l = 0; l <= it->level; ++l) printf("%s%u", l ? "." : "", (unsigned)it->indexes[l]);
}

static void
put_deref(const ZixBTreeIter* it)
{
  if (zix_btree_iter_is_end(*it)) printf("END"); else printf("%lu", (unsigned long)VAL(zix_btree_get(*it)));
}

// "two iterators compare equal exactly when they are at the same position": compare an iterator the library returned
// with one that reaches the same element by walking from begin, and with its neighbours
static void
judge_position(const ZixBTreeIter* it)
{
  if (zix_btree_size(tree) > 3000) return;
  if (zix_btree_iter_is_end(*it)) {
    if (!zix_btree_iter_equals(*it, zix_btree_end(tree)) || !zix_btree_iter_equals(zix_btree_end(tree), *it)) printf(" SPEC-FAIL:end-iterator-compares-unequal-to-end");
    return;
  }
  const uintptr_t want = VAL(zix_btree_get(*it));
  ZixBTreeIter prev = zix_btree_end_iter;
  bool have_prev = false;
  size_t steps = 0;
  for (ZixBTreeIter i = zix_btree_begin(tree); !zix_btree_iter_is_end(i) && steps <= zix_btree_size(tree) + 2; zix_btree_iter_increment(&i), ++steps) {
    if (VAL(zix_btree_get(i)) == want) {
      if (!zix_btree_iter_equals(i, *it) || !zix_btree_iter_equals(*it, i)) printf(" SPEC-FAIL:iterators-at-the-same-element-compare-unequal");
      if (have_prev && (zix_btree_iter_equals(prev, *it) || zix_btree_iter_equals(*it, prev))) printf(" SPEC-FAIL:iterators-at-different-elements-compare-equal");
      ZixBTreeIter nx = i;
      zix_btree_iter_increment(&nx);
      if (zix_btree_iter_equals(nx, *it) || zix_btree_iter_equals(*it, nx)) printf(" SPEC-FAIL:iterators-at-different-elements-compare-equal");
      return;
    }
    prev = i;
    have_prev = true;
  }
  printf(" SPEC-FAIL:returned-iterator-is-at-no-element-of-the-tree");
}

static const char*
stname(ZixStatus st)
{
  return st == ZIX_STATUS_SUCCESS ? "SUCCESS" : st == ZIX_STATUS_EXISTS ? "EXISTS" : st == ZIX_STATUS_NOT_FOUND ? "NOT_FOUND"
         : st == ZIX_STATUS_NO_MEM ? "NO_MEM" : "OTHER";
}

static int
cmp_long(const void* a, const void* b)
{
  const long x = *(const long*)a, y = *(const long*)b;
  return x < y ? -1 : x > y;
}

int
main(int argc, char** argv)
{
  if (argc > 1 && !strcmp(argv[1], "--cfg")) {
    printf("%u %u %u\n", (unsigned)ZIX_BTREE_LEAF_VALS, (unsigned)ZIX_BTREE_INODE_VALS, (unsigned)ZIX_BTREE_MAX_HEIGHT);
    return 0;
  }
  if (argc > 4 && !strcmp(argv[1], "--selftest")) {
    // --selftest <seed> <nops> <keyspace>: random insert / remove / find / iteration against a sorted-array oracle kept
    // here; used for page geometries the Lean model's theorems exclude (they must be rejected by the sources; if they are
    // accepted this finds the failing history).  On the first mismatch the history so far is printed as protocol lines.
    unsigned seed = (unsigned)atoi(argv[2]);
    const int nops = atoi(argv[3]), keyspace = atoi(argv[4]);
    static long present[1 << 16];
    static char hist[1 << 22];
    size_t hl = 0;
    int np = 0;
    v_alloc_init(&va);
    va.logging = false;
    alarm(60);
    tree = zix_btree_new(&va.base, cmp, &cmp_tag);
    hl += (size_t)snprintf(hist + hl, sizeof(hist) - hl, "new %u %u %u\n", (unsigned)ZIX_BTREE_LEAF_VALS, (unsigned)ZIX_BTREE_INODE_VALS, (unsigned)ZIX_BTREE_MAX_HEIGHT);
    for (int i = 0; i < nops; ++i) {
      const int r = rand_r(&seed) % 100;
      const long k = 1 + rand_r(&seed) % keyspace;
      int pos = -1;
      for (int j = 0; j < np; ++j) if (present[j] == k) pos = j;
      const char* bad = NULL;
      if (r < 50) {
        hl += (size_t)snprintf(hist + hl, sizeof(hist) - hl, "ins %ld\n", k);
        const ZixStatus st = zix_btree_insert(tree, PTR((uintptr_t)k));
        if (st != (pos >= 0 ? ZIX_STATUS_EXISTS : ZIX_STATUS_SUCCESS)) bad = "insert status";
        if (pos < 0 && np < (1 << 16)) present[np++] = k;
      } else if (r < 85) {
        hl += (size_t)snprintf(hist + hl, sizeof(hist) - hl, "rm %ld\n", k);
        void* out = NULL;
        ZixBTreeIter next = zix_btree_end_iter;
        const ZixStatus st = zix_btree_remove(tree, PTR((uintptr_t)k), &out, &next);
        if (st != (pos >= 0 ? ZIX_STATUS_SUCCESS : ZIX_STATUS_NOT_FOUND)) bad = "remove status";
        else if (pos >= 0 && VAL(out) != (uintptr_t)k) bad = "removed element";
        if (pos >= 0) present[pos] = present[--np];
      } else {
        hl += (size_t)snprintf(hist + hl, sizeof(hist) - hl, "find %ld\n", k);
        ZixBTreeIter it = zix_btree_end_iter;
        const ZixStatus st = zix_btree_find(tree, PTR((uintptr_t)k), &it);
        if (st != (pos >= 0 ? ZIX_STATUS_SUCCESS : ZIX_STATUS_NOT_FOUND)) bad = "find status";
        else if (pos >= 0 && VAL(zix_btree_get(it)) != (uintptr_t)k) bad = "found element";
      }
      if (!bad && zix_btree_size(tree) != (size_t)np) bad = "size";
      if (!bad && (i % 7 == 0 || i == nops - 1)) {
        // iteration: exactly the oracle's elements, strictly ascending
        qsort(present, (size_t)np, sizeof(long), cmp_long);
        int j = 0;
        for (ZixBTreeIter it = zix_btree_begin(tree); !zix_btree_iter_is_end(it) && !bad; zix_btree_iter_increment(&it), ++j) {
          if (j >= np || VAL(zix_btree_get(it)) != (uintptr_t)present[j]) bad = "iteration";
        }
        if (!bad && j != np) bad = "iteration length";
      }
      if (bad || hl > sizeof(hist) - 64) {
        if (bad) { printf("SELFTEST-FAIL %s after %d operations\n%swalk\n", bad, i + 1, hist); return 1; }
        break;
      }
    }
    puts("SELFTEST-OK");
    return 0;
  }
  if (argc > 2 && !strcmp(argv[1], "--bigleaf")) {
    // --bigleaf <n>: n ascending inserts (they all land in one leaf when a leaf holds that many), then every element must be
    // found at an iterator that dereferences to it (positions beyond 65535 need more than the iterator's 16-bit indexes)
    const long n = atol(argv[2]);
    v_alloc_init(&va);
    va.logging = false;
    alarm(120);
    tree = zix_btree_new(&va.base, cmp, &cmp_tag);
    for (long k = 1; k <= n; ++k) zix_btree_insert(tree, PTR((uintptr_t)k));
    for (long k = n; k >= 1; k -= 97) {
      ZixBTreeIter it = zix_btree_end_iter;
      if (zix_btree_find(tree, PTR((uintptr_t)k), &it) || VAL(zix_btree_get(it)) != (uintptr_t)k) {
        printf("BIGLEAF-FAIL find %ld after %ld ascending inserts yields an iterator at %lu\n", k, n, (unsigned long)VAL(zix_btree_get(it)));
        return 1;
      }
    }
    puts("BIGLEAF-OK");
    return 0;
  }
  FILE* in = argc > 1 ? fopen(argv[1], "r") : stdin;
  char* tok[V_MAX_TOK];
  int   n = 0;
  v_alloc_init(&va);
  va.compact = true;
  v_setup_io();
  v_watchdog(20);
  while ((n = v_next(in, tok)) >= 0) {
    if (v_marker(n, tok)) {
      continue;
    }
    cmp_calls = 0;
    if (!strcmp(tok[0], "new") && n == 4) {
      if ((unsigned)atoi(tok[1]) != ZIX_BTREE_LEAF_VALS || (unsigned)atoi(tok[2]) != ZIX_BTREE_INODE_VALS ||
          (unsigned)atoi(tok[3]) != ZIX_BTREE_MAX_HEIGHT) {
        puts("bad-op (configuration mismatch)");
        continue;
      }
      if (tree) {
        zix_btree_free(tree, NULL, NULL);
        tree = NULL;
        if (v_alloc_outstanding(&va) || va.n_errors) printf("ALLOC-DISCIPLINE-ERROR ");
      }
      // a new tree starts a new allocator epoch: ids from 1, but a pending fault schedule stays
      const long fa = va.fail_at >= va.n_requests ? va.fail_at - va.n_requests : -1;
      const long ff = va.fail_from >= 0 ? (va.fail_from > va.n_requests ? va.fail_from - va.n_requests : 0) : -1;
      v_alloc_reset(&va);
      va.fail_at = fa; va.fail_from = ff;
      tree = zix_btree_new(&va.base, cmp, &cmp_tag);
      if (tree) {
        printf("new st=ok");
        wb();
        fputc('\n', stdout);
      } else {
        printf("new st=NULL |");
        v_alloc_put_log(&va, stdout);
        fputc('\n', stdout);
      }
      continue;
    }
    if (!strcmp(tok[0], "failat") && n == 2) { va.fail_at = va.n_requests + atol(tok[1]); puts("fail"); continue; }
    if (!strcmp(tok[0], "failfrom") && n == 2) { va.fail_from = va.n_requests + atol(tok[1]); puts("fail"); continue; }
    if (!strcmp(tok[0], "failclear")) { va.fail_at = va.fail_from = -1; puts("fail"); continue; }
    if (!tree) { puts("bad-op"); continue; }
    if (!strcmp(tok[0], "ins") && n == 2) {
      const uintptr_t e = strtoul(tok[1], NULL, 10);
      const ZixStatus st = zix_btree_insert(tree, PTR(e));
      printf("st=%s size=%zu", stname(st), zix_btree_size(tree));
      wb();
    } else if (!strcmp(tok[0], "rm") && n == 2) {
      const uintptr_t e = strtoul(tok[1], NULL, 10);
      void* out = NULL;
      ZixBTreeIter next = zix_btree_end_iter;
      const ZixStatus st = zix_btree_remove(tree, PTR(e), &out, &next);
      printf("st=%s out=", stname(st));
      if (out) printf("%lu", (unsigned long)VAL(out)); else printf("NULL");
      printf(" next=");
      put_deref(&next);
      printf(" size=%zu", zix_btree_size(tree));
      if (st == ZIX_STATUS_SUCCESS) judge_position(&next);
      wb();
      printf(" nextpath=");
      put_path(&next);
    } else if (!strcmp(tok[0], "find") && n == 2) {
      const uintptr_t e = strtoul(tok[1], NULL, 10);
      ZixBTreeIter it = zix_btree_end_iter;
      const ZixStatus st = zix_btree_find(tree, PTR(e), &it);
      printf("st=%s it=", stname(st));
      put_deref(&it);
      if (st == ZIX_STATUS_SUCCESS) judge_position(&it);
      wb();
      printf(" path=");
      put_path(&it);
    } else if (!strcmp(tok[0], "lb") && n == 3) {
      const uintptr_t k = strtoul(tok[2], NULL, 10);
      ZixBTreeIter it = zix_btree_end_iter;
      search_key = k; search_active = 1;
      zix_btree_lower_bound(tree, tok[1][0] == 'w' ? cmp_wild : cmp_exact, &key_tag, PTR(k), &it);
      search_active = 0;
      printf("lb=");
      put_deref(&it);
      judge_position(&it);
      wb();
      printf(" path=");
      put_path(&it);
    } else if (!strcmp(tok[0], "ieq") && n == 3) {
      ZixBTreeIter a = zix_btree_end_iter, b = zix_btree_end_iter;
      zix_btree_lower_bound(tree, cmp_exact, &key_tag, PTR(strtoul(tok[1], NULL, 10)), &a);
      zix_btree_lower_bound(tree, cmp_exact, &key_tag, PTR(strtoul(tok[2], NULL, 10)), &b);
      printf("eq=%d", zix_btree_iter_equals(a, b) ? 1 : 0);
      va.log_len = 0;
    } else if (!strcmp(tok[0], "walk")) {
      printf("walk=[");
      bool first = true;
      size_t steps = 0;
      for (ZixBTreeIter i = zix_btree_begin(tree); !zix_btree_iter_is_end(i) && steps <= zix_btree_size(tree) + 2; zix_btree_iter_increment(&i), ++steps) {
        printf("%s%lu", first ? "" : " ", (unsigned long)VAL(zix_btree_get(i)));
        first = false;
      }
      printf("] size=%zu", zix_btree_size(tree));
      if (!zix_btree_iter_equals(zix_btree_end(tree), zix_btree_end_iter)) printf(" SPEC-FAIL:end-iterators-differ");
      // zix_btree_iter_next (the copying form of increment) walks the same positions
      {
        ZixBTreeIter a = zix_btree_begin(tree), b = zix_btree_begin(tree);
        for (size_t k = 0; !zix_btree_iter_is_end(a) && k <= zix_btree_size(tree) + 2; ++k) {
          zix_btree_iter_increment(&a);
          b = zix_btree_iter_next(b);
          if (!zix_btree_iter_equals(a, b)) { printf(" SPEC-FAIL:iter_next-differs-from-increment"); break; }
        }
        if (!zix_btree_iter_is_end(b)) printf(" SPEC-FAIL:iter_next-does-not-reach-end");
      }
      va.log_len = 0;
    } else if (!strcmp(tok[0], "clear")) {
      n_destroyed = 0;
      zix_btree_clear(tree, destroy, &destroy_tag);
      long* const order = destroy_order;
      const int   nd    = n_destroyed;
      memcpy(order, destroyed, (size_t)nd * sizeof(long));
      qsort(destroyed, (size_t)n_destroyed, sizeof(long), cmp_long);
      printf("destroyed=[");
      for (int i = 0; i < n_destroyed; ++i) printf("%s%ld", i ? " " : "", destroyed[i]);
      printf("] size=%zu", zix_btree_size(tree));
      wb();
      printf(" order=[");
      for (int i = 0; i < nd; ++i) printf("%s%ld", i ? " " : "", order[i]);
      printf("]");
    } else {
      printf("bad-op");
    }
    fputc('\n', stdout);
  }
  if (tree) {
    zix_btree_free(tree, NULL, NULL);
    if (v_alloc_outstanding(&va) || va.n_errors) puts("ALLOC-DISCIPLINE-ERROR");
  }
  return 0;
}
