// C03 harness: ZixHash white-box (slot array, callback arguments), arbitrary hash codes per key
#include "common.h"

#include "hash.c"  // found through -I <repo>/src

#include <signal.h>
#include <unistd.h>

#define MAX_REC 4096

static VAlloc   va;
static ZixHash* hash;
static size_t   key_off;                 // offset of the key inside a record
static char*    recs[MAX_REC];           // record id -> block (NULL if unused)
static uint64_t rec_key[MAX_REC];
static uint64_t key_code[1 << 16];       // key id -> hash code (set by the script)
static const uint64_t* probe_key;        // key passed to the current call
static char     cb[1 << 16];
static size_t   cb_len;

static void
cb_log(const char* fmt, ...)
{
  va_list ap;
  va_start(ap, fmt);
  if (cb_len && cb_len < sizeof(cb) - 64) cb[cb_len++] = ' ';
  if (cb_len < sizeof(cb) - 64) cb_len += (size_t)vsnprintf(cb + cb_len, 64, fmt, ap);
  va_end(ap);
}

static int
rec_id_of(const void* p)
{
  for (int i = 0; i < MAX_REC; ++i) {
    if (recs[i] && recs[i] == p) return i;
  }
  return -1;
}

// Identify a key pointer: the key field of a stored record, or the current call's key
static long
key_id_of(const void* p)
{
  if (p == probe_key) return (long)*probe_key;
  for (int i = 0; i < MAX_REC; ++i) {
    if (recs[i] && recs[i] + key_off == p) return (long)rec_key[i];
  }
  return -1;
}

static const void*
key_func(const void* rec)
{
  const int id = rec_id_of(rec);
  if (id < 0) { cb_log("K?"); return rec; }
  cb_log("K%d", id);
  return (const char*)rec + key_off;
}

static size_t
hash_func(const void* key)
{
  const long k = key_id_of(key);
  if (k < 0) { cb_log("H?"); return 0; }
  cb_log("H%ld", k);
  return (size_t)key_code[k & 0xFFFF];
}

static bool
equal_func(const void* a, const void* b)
{
  const long ka = key_id_of(a), kb = key_id_of(b);
  if (ka < 0 || kb < 0) {
    cb_log("E%s,%s", ka < 0 ? "?" : "ok", kb < 0 ? "?" : "ok");
    return false;
  }
  cb_log("E%ld,%ld", ka, kb);
  return ka == kb;
}

static void
on_alarm(int sig)
{
  (void)sig;
  static const char msg[] = "DIVERGES (CPU watchdog: call did not return)\n";
  fflush(stdout);
  if (write(1, msg, sizeof(msg) - 1)) {}
  _exit(3);
}

// API-visible verdict on the callback log: an argument that is neither a stored record, a key of
// one, nor the current call's key
static void
cb_verdict(void)
{
  cb[cb_len] = 0;
  if (strchr(cb, '?')) {
    printf(" SPEC-FAIL:callback-got-a-foreign-pointer");
  }
}

static void
wb(void)
{
  cb_verdict();
  printf(" | n=%zu count=%zu [", hash->n_entries, hash->count);
  for (size_t i = 0; i < hash->n_entries; ++i) {
    const ZixHashEntry* e = &hash->entries[i];
    if (i) fputc(' ', stdout);
    if (e->value) {
      printf("%zu:%d", (size_t)e->hash, rec_id_of(e->value));
    } else {
      fputs(e->hash ? "t" : "e", stdout);
    }
  }
  printf("] cb[%.*s]", (int)cb_len, cb);
  v_alloc_put_log(&va, stdout);   // compact allocator events of this call
  cb_len = 0;
  cb[0]  = 0;
}

static const char*
stname(ZixStatus st)
{
  return st == ZIX_STATUS_SUCCESS ? "SUCCESS" : st == ZIX_STATUS_EXISTS ? "EXISTS" : st == ZIX_STATUS_NOT_FOUND ? "NOT_FOUND"
         : st == ZIX_STATUS_NO_MEM ? "NO_MEM" : st == ZIX_STATUS_BAD_ARG ? "BAD_ARG" : "OTHER";
}

static uint64_t*
mk_probe(uint64_t k)
{
  uint64_t* p = (uint64_t*)malloc(sizeof(uint64_t));
  *p = k;
  probe_key = p;
  return p;
}

int
main(int argc, char** argv)
{
  FILE* in = argc > 1 ? fopen(argv[1], "r") : stdin;
  char* tok[V_MAX_TOK];
  int   n = 0;
  v_alloc_init(&va);
  va.logging = true;   // compact allocator events (M/C<id> obtained, f<id> released, 0 = refused) are part of the white-box output
  va.compact = true;
  v_setup_io();
  signal(SIGALRM, on_alarm);
  key_off = 0;
  while ((n = v_next(in, tok)) >= 0) {
    if (v_marker(n, tok)) {
      continue;
    }
    if (!strcmp(tok[0], "layout") && n == 2) {   // key offset for subsequent tables (harness-only line)
      key_off = strtoul(tok[1], NULL, 10);
      puts("bad-op");   // the model ignores it the same way
      continue;
    }
    if (!strcmp(tok[0], "new")) {
      if (hash) zix_hash_free(hash);
      for (int i = 0; i < MAX_REC; ++i) { free(recs[i]); recs[i] = NULL; }
      v_alloc_reset(&va);   // a new table starts a new allocator epoch: block 1 is the header, block 2 the first entry array
      hash = zix_hash_new(&va.base, key_func, hash_func, equal_func);
      cb_len = 0;
      printf("new");
      wb();
      fputc('\n', stdout);
      continue;
    }
    if (!hash) { puts("bad-op"); continue; }
    if (!strcmp(tok[0], "newfail") && n == 2) {
      // zix_hash_new while the allocator refuses its k-th request (0 = the header, 1 = the entry array): NULL, nothing kept
      const int k = atoi(tok[1]);
      if (k < 0 || k > 1) { puts("bad-op"); continue; }
      const size_t before = v_alloc_outstanding(&va);
      va.fail_at = va.n_requests + k;
      ZixHash* const h = zix_hash_new(&va.base, key_func, hash_func, equal_func);
      va.fail_at = -1;
      printf("newfail=%s", h ? "NON-NULL" : "NULL");
      if (v_alloc_outstanding(&va) != before) printf(" SPEC-FAIL:failed-zix_hash_new-keeps-%zu-block(s)", v_alloc_outstanding(&va) - before);
      if (h) zix_hash_free(h);
      wb();
      fputc('\n', stdout);
      continue;
    }
    if (!strcmp(tok[0], "failnext")) {
      va.fail_at = va.n_requests;
      puts("failnext");
      continue;
    }
    alarm(10);
    if ((!strcmp(tok[0], "ins") || !strcmp(tok[0], "pins") || !strcmp(tok[0], "pinsp")) && n == 4) {
      const int      r = atoi(tok[1]);
      const uint64_t k = strtoull(tok[2], NULL, 10);
      key_code[k & 0xFFFF] = strtoull(tok[3], NULL, 10);
      // every insertion attempt uses a fresh record id (generator's contract)
      if (r < 0 || r >= MAX_REC || recs[r]) { alarm(0); puts("bad-op"); continue; }
      char* blk = (char*)malloc(key_off + sizeof(uint64_t));
      memcpy(blk + key_off, &k, sizeof(k));
      recs[r] = blk; rec_key[r] = k;
      cb_len = 0;
      probe_key = NULL;
      ZixStatus st;
      const char* extra = "";
      if (tok[0][0] == 'i') {
        st = zix_hash_insert(hash, blk);
      } else {
        const void* key = key_func(blk);
        probe_key = (const uint64_t*)key;
        ZixHashInsertPlan plan;
        if (tok[0][4] == 'p') {
          plan = zix_hash_plan_insert_prehashed(hash, hash_func(key), equal_func, key);
        } else {
          plan = zix_hash_plan_insert(hash, key);
        }
        const ZixHashRecord* at = zix_hash_record_at(hash, plan);
        st = zix_hash_insert_at(hash, plan, blk);
        if ((at != NULL) != (st == ZIX_STATUS_EXISTS)) extra = " SPEC-FAIL:record_at-disagrees-with-insert_at";
        if (at && key_id_of((const char*)at + key_off) != (long)k) extra = " SPEC-FAIL:record_at-has-another-key";
      }
      if (st != ZIX_STATUS_SUCCESS) {
        free(blk); recs[r] = NULL;
      }
      probe_key = NULL;
      printf("st=%s size=%zu%s", stname(st), zix_hash_size(hash), extra);
      wb();
    } else if ((!strcmp(tok[0], "find") || !strcmp(tok[0], "findr")) && n == 3) {
      const uint64_t k = strtoull(tok[1], NULL, 10);
      key_code[k & 0xFFFF] = strtoull(tok[2], NULL, 10);
      uint64_t* p = mk_probe(k);
      if (tok[0][4] == 'r') {
        const ZixHashRecord* r = zix_hash_find_record(hash, p);
        if (r) printf("rec=%d", rec_id_of(r)); else printf("rec=NULL");
        wb();
      } else {
        const ZixHashIter it = zix_hash_find(hash, p);
        if (it == zix_hash_end(hash)) {
          printf("rec=END");
          wb();
        } else {
          printf("rec=%d", rec_id_of(zix_hash_get(hash, it)));
          wb();
          printf(" it=%zu", (size_t)it);
        }
      }
      free(p);
      probe_key = NULL;
    } else if ((!strcmp(tok[0], "rm") || !strcmp(tok[0], "erase")) && n == 3) {
      const uint64_t k = strtoull(tok[1], NULL, 10);
      key_code[k & 0xFFFF] = strtoull(tok[2], NULL, 10);
      uint64_t* p = mk_probe(k);
      ZixHashRecord* removed = NULL;
      ZixStatus st;
      if (tok[0][0] == 'r') {
        st = zix_hash_remove(hash, p, &removed);
      } else {
        const ZixHashIter it = zix_hash_find(hash, p);
        st = it == zix_hash_end(hash) ? ZIX_STATUS_NOT_FOUND : zix_hash_erase(hash, it, &removed);
      }
      printf("st=%s removed=", stname(st));
      if (removed) printf("%d", rec_id_of(removed)); else printf("NULL");
      printf(" size=%zu", zix_hash_size(hash));
      wb();
      if (removed) {
        const int id = rec_id_of(removed);
        if (id >= 0) { free(recs[id]); recs[id] = NULL; }
      }
      free(p);
      probe_key = NULL;
    } else if (!strcmp(tok[0], "eraseat") && n == 2) {
      // zix_hash_erase with an arbitrary iterator value: only the position of a record may be erased
      const ZixHashIter it = !strcmp(tok[1], "end") ? zix_hash_end(hash) : (ZixHashIter)strtoull(tok[1], NULL, 10);
      ZixHashRecord* removed = (ZixHashRecord*)&removed;   // must be overwritten (NULL when nothing was removed)
      const ZixStatus st = zix_hash_erase(hash, it, &removed);
      printf("st=%s removed=", stname(st));
      if (removed == (ZixHashRecord*)&removed) printf("UNSET"); else if (removed) printf("%d", rec_id_of(removed)); else printf("NULL");
      printf(" size=%zu", zix_hash_size(hash));
      wb();
      if (removed && removed != (ZixHashRecord*)&removed) {
        const int id = rec_id_of(removed);
        if (id >= 0) { free(recs[id]); recs[id] = NULL; }
      }
    } else if (!strcmp(tok[0], "iter")) {
      printf("iter=");
      bool first = true;
      for (ZixHashIter i = zix_hash_begin(hash); i != zix_hash_end(hash); i = zix_hash_next(hash, i)) {
        printf("%s%d", first ? "" : " ", rec_id_of(zix_hash_get(hash, i)));
        first = false;
      }
      printf(" size=%zu", zix_hash_size(hash));
      wb();
    } else {
      printf("bad-op");
    }
    alarm(0);
    va.fail_at = -1;   // "failnext" applies to the one operation that follows it
    fputc('\n', stdout);
  }
  if (hash) zix_hash_free(hash);
  if (v_alloc_outstanding(&va) || va.n_errors) {
    puts("ALLOC-DISCIPLINE-ERROR");
  }
  return 0;
}
