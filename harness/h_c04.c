// C04 harness: ring.c compiled by clang with -fsanitize=thread; this file supplies the __tsan_*
// call-outs and logs every shared-memory access of each public function with its memory order.
#include "common.h"

#include <zix/ring.h>

#include <pthread.h>
#include <stdatomic.h>

static ZixRing* ring;
static char*    ring_buf;
static uint32_t ring_n;
static char     logb[1 << 16];
static size_t   logl;
static int      logging, side;   // side: 0 = writer-side function, 1 = reader-side function

static void
lg(const char* fmt, ...)
{
  if (!logging) return;
  va_list ap;
  va_start(ap, fmt);
  if (logl < sizeof(logb) - 64) logl += (size_t)vsnprintf(logb + logl, 64, fmt, ap);
  va_end(ap);
}

static const char*
mo_name(int mo)
{
  return mo == __ATOMIC_RELAXED ? "relaxed" : mo == __ATOMIC_CONSUME ? "consume" : mo == __ATOMIC_ACQUIRE ? "acquire" : mo == __ATOMIC_RELEASE ? "release"
         : mo == __ATOMIC_ACQ_REL ? "acq_rel" : "seq_cst";
}

// which part of the ring does this address belong to?
static const char*
field_of(const void* a, size_t* idx)
{
  const char* p = (const char*)a;
  if (ring && p >= (char*)ring && p < (char*)ring + RING_SIZEOF) {
    const size_t off = (size_t)(p - (char*)ring);
    if (off == OFF_WRITE_HEAD) return "write_head";
    if (off == OFF_READ_HEAD) return "read_head";
    if (off == OFF_SIZE || off == OFF_MASK || off == OFF_BUF || off == 0) return "const";
    return "ring?";
  }
  if (ring_buf && p >= ring_buf && p < ring_buf + ring_n) {
    *idx = (size_t)(p - ring_buf);
    return "buf";
  }
  return NULL;   // caller's memory (transaction record, source/destination buffers)
}

static void
plain(const void* a, int is_write, size_t n)
{
  size_t      idx = 0;
  const char* f   = field_of(a, &idx);
  if (!f || !strcmp(f, "const")) return;   // never-rewritten fields and private memory are not shared-mutable
  if (!strcmp(f, "buf")) {
    for (size_t i = 0; i < n; ++i) lg(" buf%s[%zu]", is_write ? "wr" : "rd", idx + i);
    return;
  }
  // a head accessed non-atomically: fine for a thread's own head when reading it, an event otherwise
  const int own = (side == 0) == !strcmp(f, "write_head");
  if (own && !is_write) return;
  lg(" PLAIN-%s:%s", is_write ? "write" : "read", f);
}

void __tsan_init(void) {}
void __tsan_func_entry(void* pc) { (void)pc; }
void __tsan_func_exit(void) {}
void __tsan_read1(void* a) { plain(a, 0, 1); }
void __tsan_read2(void* a) { plain(a, 0, 2); }
void __tsan_read4(void* a) { plain(a, 0, 4); }
void __tsan_read8(void* a) { plain(a, 0, 8); }
void __tsan_write1(void* a) { plain(a, 1, 1); }
void __tsan_write2(void* a) { plain(a, 1, 2); }
void __tsan_write4(void* a) { plain(a, 1, 4); }
void __tsan_write8(void* a) { plain(a, 1, 8); }
void __tsan_unaligned_read4(void* a) { plain(a, 0, 4); }
void __tsan_unaligned_write4(void* a) { plain(a, 1, 4); }
void __tsan_read_range(void* a, long n) { plain(a, 0, (size_t)n); }
void __tsan_write_range(void* a, long n) { plain(a, 1, (size_t)n); }

uint32_t
__tsan_atomic32_load(const volatile uint32_t* a, int mo)
{
  size_t      idx = 0;
  const char* f   = field_of((const void*)a, &idx);
  lg(" aload:%s:%s", f ? f : "?", mo_name(mo));
  return __atomic_load_n(a, __ATOMIC_SEQ_CST);
}

void
__tsan_atomic32_store(volatile uint32_t* a, uint32_t v, int mo)
{
  size_t      idx = 0;
  const char* f   = field_of((const void*)a, &idx);
  lg(" astore:%s=%u:%s", f ? f : "?", v, mo_name(mo));
  __atomic_store_n(a, v, __ATOMIC_SEQ_CST);
}

uint32_t __tsan_atomic32_exchange(volatile uint32_t* a, uint32_t v, int mo) { lg(" ATOMIC-RMW:%s", mo_name(mo)); return __atomic_exchange_n(a, v, __ATOMIC_SEQ_CST); }
uint32_t __tsan_atomic32_fetch_add(volatile uint32_t* a, uint32_t v, int mo) { lg(" ATOMIC-RMW:%s", mo_name(mo)); return __atomic_fetch_add(a, v, __ATOMIC_SEQ_CST); }
int __tsan_atomic32_compare_exchange_strong(volatile uint32_t* a, uint32_t* c, uint32_t v, int mo, int fmo) { (void)fmo; lg(" ATOMIC-RMW:%s", mo_name(mo)); return __atomic_compare_exchange_n(a, c, v, 0, __ATOMIC_SEQ_CST, __ATOMIC_SEQ_CST); }
void __tsan_atomic_thread_fence(int mo) { lg(" FENCE:%s", mo_name(mo)); }
void __tsan_atomic_signal_fence(int mo) { (void)mo; }

void*
verif_memcpy(void* dst, const void* src, size_t n)
{
  plain(src, 0, n);
  plain(dst, 1, n);
  return memmove(dst, src, n);
}

static void
set_heads(uint32_t r, uint32_t w)
{
  *(uint32_t*)((char*)ring + OFF_READ_HEAD)  = r;
  *(uint32_t*)((char*)ring + OFF_WRITE_HEAD) = w;
}

static uint32_t get_r(void) { return *(uint32_t*)((char*)ring + OFF_READ_HEAD); }
static uint32_t get_w(void) { return *(uint32_t*)((char*)ring + OFF_WRITE_HEAD); }

// ---- a real two-thread run (support only: what this hardware does)
typedef struct { uint32_t total; unsigned seed; long errors; uint32_t maxk; } Soak;

static void*
soak_writer(void* arg)
{
  Soak* s = (Soak*)arg;
  unsigned char buf[64];
  uint32_t sent = 0;
  while (sent < s->total) {
    uint32_t k = 1 + (rand_r(&s->seed) % s->maxk);
    if (k > s->total - sent) k = s->total - sent;
    for (uint32_t i = 0; i < k; ++i) buf[i] = (unsigned char)((sent + i) * 31u + 7u);
    if (rand_r(&s->seed) & 1) {
      if (zix_ring_write(ring, buf, k) == k) sent += k;
    } else {
      ZixRingTransaction tx = zix_ring_begin_write(ring);
      const uint32_t h = k / 2;
      if (!zix_ring_amend_write(ring, &tx, buf, h) && !zix_ring_amend_write(ring, &tx, buf + h, k - h)) {
        zix_ring_commit_write(ring, &tx);
        sent += k;
      }
    }
  }
  return NULL;
}

static void*
soak_reader(void* arg)
{
  Soak* s = (Soak*)arg;
  unsigned char buf[64];
  uint32_t got = 0;
  while (got < s->total) {
    uint32_t k = 1 + (rand_r(&s->seed) % s->maxk);
    if (k > s->total - got) k = s->total - got;
    if (zix_ring_read(ring, buf, k) == k) {
      for (uint32_t i = 0; i < k; ++i) if (buf[i] != (unsigned char)((got + i) * 31u + 7u)) ++s->errors;
      got += k;
    }
  }
  return NULL;
}

int
main(int argc, char** argv)
{
  FILE* in = argc > 1 ? fopen(argv[1], "r") : stdin;
  char* tok[V_MAX_TOK];
  int   n = 0;
  v_setup_io();
  while ((n = v_next(in, tok)) >= 0) {
    if (v_marker(n, tok)) continue;
    if (!strcmp(tok[0], "acc") && n == 6) {
      // acc <fn> <N> <r> <w> <size>: the access log of one call from the given heads
      const uint32_t N = (uint32_t)strtoul(tok[2], NULL, 10), r = (uint32_t)strtoul(tok[3], NULL, 10), w = (uint32_t)strtoul(tok[4], NULL, 10);
      const uint32_t size = (uint32_t)strtoul(tok[5], NULL, 10);
      if (ring) zix_ring_free(ring);
      ring = NULL; ring_buf = NULL;
      ZixRing* g = zix_ring_new(NULL, N);
      ring     = g;
      ring_buf = *(char**)((char*)ring + OFF_BUF);
      ring_n   = *(uint32_t*)((char*)ring + OFF_SIZE);
      memset(ring_buf, 0, ring_n);
      set_heads(r, w);
      unsigned char* data = (unsigned char*)malloc(size + 1);
      memset(data, 0x5A, size + 1);
      const char* fn = tok[1];
      logl = 0; logb[0] = 0;
      uint32_t ret = 0;
      if (!strcmp(fn, "write")) { side = 0; logging = 1; ret = zix_ring_write(ring, data, size); }
      else if (!strcmp(fn, "wspace")) { side = 0; logging = 1; ret = zix_ring_write_space(ring); }
      else if (!strcmp(fn, "tx")) {
        side = 0; logging = 1;
        ZixRingTransaction tx = zix_ring_begin_write(ring);
        lg(" |");
        const uint32_t h = size / 2;
        ret = zix_ring_amend_write(ring, &tx, data, h) ? 1 : 0;
        lg(" |");
        ret = ret * 2 + (zix_ring_amend_write(ring, &tx, data + h, size - h) ? 1 : 0);
        lg(" |");
        zix_ring_commit_write(ring, &tx);
      }
      else if (!strcmp(fn, "read")) { side = 1; logging = 1; ret = zix_ring_read(ring, data, size); }
      else if (!strcmp(fn, "peek")) { side = 1; logging = 1; ret = zix_ring_peek(ring, data, size); }
      else if (!strcmp(fn, "skip")) { side = 1; logging = 1; ret = zix_ring_skip(ring, size); }
      else if (!strcmp(fn, "rspace")) { side = 1; logging = 1; ret = zix_ring_read_space(ring); }
      logging = 0;
      printf("ret=%u r=%u w=%u |%s\n", ret, get_r(), get_w(), logb);
      free(data);
    } else if (!strcmp(tok[0], "soak") && n == 4) {
      const uint32_t N = (uint32_t)strtoul(tok[1], NULL, 10);
      if (ring) zix_ring_free(ring);
      ring = zix_ring_new(NULL, N);
      ring_buf = NULL;
      const uint32_t cap = zix_ring_capacity(ring);
      if (!cap) { puts("soak errors=0 left=0"); continue; }   // a ring of size 1 holds nothing
      Soak sw = {(uint32_t)strtoul(tok[2], NULL, 10), (unsigned)atoi(tok[3]), 0, cap < 40 ? cap : 40}, sr = sw;
      sr.seed += 77;
      pthread_t a, b;
      pthread_create(&a, NULL, soak_writer, &sw);
      pthread_create(&b, NULL, soak_reader, &sr);
      pthread_join(a, NULL);
      pthread_join(b, NULL);
      printf("soak errors=%ld left=%u\n", sr.errors, zix_ring_read_space(ring));
    } else {
      puts("bad-op");
    }
  }
  return 0;
}
