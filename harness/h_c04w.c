// C04 client-view harness: what a caller compiled with optimisation sees through the PUBLIC header only.
// A thread that waits for the other side in a loop that writes no memory (`while (zix_ring_read_space(r) < n) {}`)
// relies on the call being made again each time round; a `pure`/`const` attribute on the declaration lets the
// caller's compiler hoist it.  This file includes only <zix/ring.h>; ring.c is compiled separately.
#include <zix/ring.h>

#include <pthread.h>
#include <stdint.h>
#include <stdio.h>
#include <stdlib.h>
#include <string.h>
#include <time.h>
#include <unistd.h>

static ZixRing*     ring;
static uint32_t     want;
static volatile int done;

static void*
wait_for_data(void* arg)
{
  (void)arg;
  while (zix_ring_read_space(ring) < want) {
  }
  done = 1;
  return NULL;
}

static void*
wait_for_room(void* arg)
{
  (void)arg;
  while (zix_ring_write_space(ring) < want) {
  }
  done = 1;
  return NULL;
}

static int
wait_done(void)
{
  for (int i = 0; i < 5000 && !done; ++i) usleep(1000);
  return done;
}

int
main(int argc, char** argv)
{
  FILE* in = argc > 1 ? fopen(argv[1], "r") : stdin;
  char  line[256];
  static char data[4096];
  while (fgets(line, sizeof(line), in)) {
    char     op[64] = "";
    unsigned n      = 0;
    if (line[0] == '#' || sscanf(line, "%63s %u", op, &n) < 1) continue;
    if (!strcmp(op, "==")) { char m[64] = ""; sscanf(line, "%*s %63s", m); printf("== %s\n", m); fflush(stdout); continue; }
    if ((strcmp(op, "spinread") && strcmp(op, "spinwrite")) || n < 1 || n > 2000) { puts("bad-op"); continue; }
    ring = zix_ring_new(NULL, 4096);
    want = n;
    done = 0;
    pthread_t t;
    if (!strcmp(op, "spinread")) {
      pthread_create(&t, NULL, wait_for_data, NULL);
      usleep(30000);
      zix_ring_write(ring, data, n);
    } else {
      zix_ring_write(ring, data, zix_ring_capacity(ring));   // full: no room
      pthread_create(&t, NULL, wait_for_room, NULL);
      usleep(30000);
      zix_ring_skip(ring, n);
    }
    if (!wait_done()) {
      printf("SPEC-FAIL:a-thread-polling-%s-never-saw-the-other-side's-progress\n", !strcmp(op, "spinread") ? "zix_ring_read_space" : "zix_ring_write_space");
      fflush(stdout);
      _exit(0);   // the waiting thread can not be joined
    }
    pthread_join(t, NULL);
    zix_ring_free(ring);
    puts("spin ok");
    fflush(stdout);
  }
  return 0;
}
