// C05 harness: single-threaded value semantics of the ring, white-box (both heads, buffer)
#include "common.h"

#include "ring.c"  // found through -I <repo>/src

static VAlloc va;

static void
wb(const ZixRing* ring, const ZixRingTransaction* tx)
{
  printf(" | r=%u w=%u size=%u", ring->read_head, ring->write_head, ring->size);
  if (tx) {
    printf(" tx=%u,%u", tx->read_head, tx->write_head);
  }
  fputc('\n', stdout);
}

int
main(int argc, char** argv)
{
  FILE* in = argc > 1 ? fopen(argv[1], "r") : stdin;
  char* tok[V_MAX_TOK];
  int   n = 0;
  ZixRing* ring = NULL;
  ZixRingTransaction tx;
  bool in_tx = false;
  v_alloc_init(&va);
  va.logging = false;
  v_setup_io();
  v_watchdog(20);
  while ((n = v_next(in, tok)) >= 0) {
    if (v_marker(n, tok)) {
      continue;
    }
    if (!strcmp(tok[0], "new") && n == 2) {
      const unsigned long s = strtoul(tok[1], NULL, 10);
      if (s < 1 || s > 2147483648UL) {
        puts("bad-op");
        continue;
      }
      zix_ring_free(ring);
      ring  = zix_ring_new(&va.base, (uint32_t)s);
      in_tx = false;
      printf("new cap=%u", zix_ring_capacity(ring));
      wb(ring, NULL);
      continue;
    }
    if (!strcmp(tok[0], "newbad") && n == 2) {
      // a size the ring cannot represent (0, or above 2^31): must be refused; the current ring is not touched
      const unsigned long s = strtoul(tok[1], NULL, 10);
      if (s > 4294967295UL) { puts("bad-op"); continue; }
      ZixRing* const r = zix_ring_new(&va.base, (uint32_t)s);
      if (r) { printf("new=RING cap=%u\n", zix_ring_capacity(r)); zix_ring_free(r); }
      else puts("new=NULL");
      continue;
    }
    if (!strcmp(tok[0], "newa") && n == 3) {
      // newa <refused request indexes or -> <size>: a second ring is created and released under that refusal pattern;
      // result and the allocator's event log (the header request is printed as mH: its size is the platform's)
      const unsigned long s = strtoul(tok[2], NULL, 10);
      if (s > 65536UL) { puts("bad-op"); continue; }   // small sizes only: the buffer is really allocated
      static VAlloc vb;
      v_alloc_init(&vb);
      if (strcmp(tok[1], "-")) {
        for (const char* p = tok[1]; *p;) {
          const unsigned long k = strtoul(p, (char**)&p, 10);
          if (k < 64) vb.fail_bits |= 1ULL << k;
          if (*p == ',') ++p;
        }
      }
      ZixRing* const r = zix_ring_new(&vb.base, (uint32_t)s);
      const long after_new = v_alloc_outstanding(&vb);
      zix_ring_free(r);
      printf("new=%s", r ? "RING" : "NULL");
      if (after_new != (r ? 2 : 0) || v_alloc_outstanding(&vb) || vb.n_errors) printf(" SPEC-FAIL:ring-lifecycle-%ld-%ld-%ld", after_new, v_alloc_outstanding(&vb), vb.n_errors);
      // the log, with the header's size written as H
      char hdr[32];
      snprintf(hdr, sizeof(hdr), "m%zu=", sizeof(ZixRing));
      printf(" | ev[");
      for (const char* p = vb.log ? vb.log : ""; *p;) {
        if ((p == vb.log || p[-1] == ' ') && !strncmp(p, hdr, strlen(hdr))) { fputs("mH=", stdout); p += strlen(hdr); }
        else fputc(*p++, stdout);
      }
      puts("]");
      vb.log_len = 0; if (vb.log) vb.log[0] = 0;
      continue;
    }
    if (!ring) {
      puts("bad-op");
      continue;
    }
    if (!strcmp(tok[0], "write") && n == 2) {
      size_t len = 0;
      unsigned char* d = v_unhex(tok[1], &len, false);
      printf("ret=%u", zix_ring_write(ring, d, (uint32_t)len));
      free(d);
      wb(ring, in_tx ? &tx : NULL);
    } else if ((!strcmp(tok[0], "read") || !strcmp(tok[0], "peek")) && n == 2) {
      const uint32_t k = (uint32_t)strtoul(tok[1], NULL, 10);
      unsigned char* dst = (unsigned char*)malloc(k ? k : 1);
      memset(dst, 0xEE, k);
      const uint32_t r = tok[0][0] == 'r' ? zix_ring_read(ring, dst, k) : zix_ring_peek(ring, dst, k);
      printf("ret=%u data=", r);
      v_puthex(stdout, dst, r);
      if (!r) {
        for (uint32_t i = 0; i < k; ++i) {
          if (dst[i] != 0xEE) {
            printf(" SPEC-FAIL:destination-touched-by-failed-%s", tok[0]);
            break;
          }
        }
      }
      free(dst);
      wb(ring, in_tx ? &tx : NULL);
    } else if (!strcmp(tok[0], "skip") && n == 2) {
      printf("ret=%u", zix_ring_skip(ring, (uint32_t)strtoul(tok[1], NULL, 10)));
      wb(ring, in_tx ? &tx : NULL);
    } else if (!strcmp(tok[0], "reset")) {
      zix_ring_reset(ring);
      in_tx = false;
      printf("reset");
      wb(ring, NULL);
    } else if (!strcmp(tok[0], "rspace")) {
      printf("ret=%u", zix_ring_read_space(ring));
      wb(ring, in_tx ? &tx : NULL);
    } else if (!strcmp(tok[0], "wspace")) {
      printf("ret=%u", zix_ring_write_space(ring));
      wb(ring, in_tx ? &tx : NULL);
    } else if (!strcmp(tok[0], "cap")) {
      printf("ret=%u", zix_ring_capacity(ring));
      wb(ring, in_tx ? &tx : NULL);
    } else if (!strcmp(tok[0], "begin")) {
      tx    = zix_ring_begin_write(ring);
      in_tx = true;
      printf("begin");
      wb(ring, &tx);
    } else if (!strcmp(tok[0], "amend") && n == 2 && in_tx) {
      size_t len = 0;
      unsigned char* d = v_unhex(tok[1], &len, false);
      const ZixStatus st = zix_ring_amend_write(ring, &tx, d, (uint32_t)len);
      free(d);
      printf("st=%s", st == ZIX_STATUS_SUCCESS ? "SUCCESS" : st == ZIX_STATUS_NO_MEM ? "NO_MEM" : "OTHER");
      wb(ring, &tx);
    } else if (!strcmp(tok[0], "commit") && in_tx) {
      const ZixStatus st = zix_ring_commit_write(ring, &tx);
      in_tx = false;
      printf("st=%s", st == ZIX_STATUS_SUCCESS ? "SUCCESS" : "OTHER");
      wb(ring, NULL);
    } else if (!strcmp(tok[0], "abandon") && in_tx) {
      in_tx = false;
      printf("abandon");
      wb(ring, NULL);
    } else {
      puts("bad-op");
    }
  }
  zix_ring_free(ring);
  if (v_alloc_outstanding(&va) || va.n_errors) {
    puts("ALLOC-DISCIPLINE-ERROR");
  }
  return 0;
}
