// C06 harness: ZixTree white-box (shape with node identity, balance, parent), both walks,
// iterator stability, destroy/compare user data.
#include "common.h"

#include "tree.c"  // found through -I <repo>/src

#define MAXN 8192

static VAlloc   va;
static ZixTree* tree;
static ZixTreeNode* node_of[MAXN];  // id -> node (NULL once removed)
static long         key_of[MAXN];
static int          next_id = 1;
static int          cmp_calls;
static int          bad_user_data;
static int          destroyed[MAXN];
static int          destroy_order[MAXN];
static int          n_destroyed;
static int          cmp_tag, destroy_tag;   // addresses serve as user data

static int
id_of(const ZixTreeNode* n)
{
  if (!n) return 0;
  for (int i = 1; i < next_id; ++i) {
    if (node_of[i] == n) return i;
  }
  return -1;
}

static int
cmp(const void* a, const void* b, const void* user_data)
{
  ++cmp_calls;
  if (user_data != &cmp_tag) ++bad_user_data;
  const long x = *(const long*)a, y = *(const long*)b;
  return x < y ? -1 : x > y ? 1 : 0;
}

static void
destroy(void* ptr, const void* user_data)
{
  if (user_data != &destroy_tag) ++bad_user_data;
  // the element is one of key_of[]: find which id currently holds this data pointer
  for (int i = 1; i < next_id; ++i) {
    if (&key_of[i] == (long*)ptr) {
      ++destroyed[i];
      destroy_order[n_destroyed++] = i;
      return;
    }
  }
  ++bad_user_data;
}

static void
dump_rec(const ZixTreeNode* n, bool* first)
{
  if (!n) return;
  printf("%s%d:%ld:%d:%d", *first ? "" : " ", id_of(n), *(long*)n->data, n->balance, id_of(n->parent));
  *first = false;
  dump_rec(n->left, first);
  dump_rec(n->right, first);
}

// Spec checks done on the implementation alone
static void
judge(void)
{
  if (bad_user_data) printf(" SPEC-FAIL:callback-user-data");
  for (int i = 1; i < next_id; ++i) {
    if (node_of[i]) {
      if (zix_tree_get(node_of[i]) != &key_of[i]) {
        printf(" SPEC-FAIL:iterator-%d-no-longer-at-its-element", i);
        break;
      }
    }
  }
}

static bool find_bound_broken;

static void
wb(void)
{
  judge();
  printf(" | size=%zu cmp=%d", zix_tree_size(tree), cmp_calls);
  v_alloc_put_log(&va, stdout);
  printf(" [");
  bool first = true;
  dump_rec(tree->root, &first);
  printf("]");
}

static void
reset_ids(void)
{
  memset(node_of, 0, sizeof(node_of));
  memset(destroyed, 0, sizeof(destroyed));
  next_id = 1;
  n_destroyed = 0;
  bad_user_data = 0;
}

int
main(int argc, char** argv)
{
  FILE* in = argc > 1 ? fopen(argv[1], "r") : stdin;
  char* tok[V_MAX_TOK];
  int   n = 0;
  v_alloc_init(&va);
  va.logging = true;   // compact allocator events (C<id> = calloc, M<id> = malloc, f<id> = free, 0 = refused) are part of the white-box output
  va.compact = true;
  v_setup_io();
  v_watchdog(20);
  while ((n = v_next(in, tok)) >= 0) {
    if (v_marker(n, tok)) {
      continue;
    }
    cmp_calls = 0;
    if (!strcmp(tok[0], "new") && n == 2) {
      if (tree) zix_tree_free(tree);
      reset_ids();
      v_alloc_reset(&va);   // a new tree starts a new allocator epoch: block 1 is the tree, block k + 1 the k-th node
      tree = zix_tree_new(&va.base, tok[1][0] == '1', cmp, &cmp_tag, destroy, &destroy_tag);
      printf("new");
      wb();
      fputc('\n', stdout);
      continue;
    }
    if (!tree) { puts("bad-op"); continue; }
    if (!strcmp(tok[0], "newfail")) {
      // zix_tree_new while the allocator refuses the header: NULL, nothing kept
      const size_t before = v_alloc_outstanding(&va);
      va.fail_at = va.n_requests;
      ZixTree* const t2 = zix_tree_new(&va.base, false, cmp, &cmp_tag, destroy, &destroy_tag);
      va.fail_at = -1;
      printf("newfail=%s", t2 ? "NON-NULL" : "NULL");
      if (v_alloc_outstanding(&va) != before) printf(" SPEC-FAIL:failed-zix_tree_new-keeps-a-block");
      if (t2) zix_tree_free(t2);
      // a tree without a destroy callback (the library's no-op stands in): elements are not touched, nothing leaks
      {
        static VAlloc va2;
        static long   ks[3] = {20, 10, 30};
        const int     cmp_calls_before = cmp_calls;
        v_alloc_init(&va2);
        va2.logging = false;
        ZixTree* const t3 = zix_tree_new(&va2.base, true, cmp, &cmp_tag, NULL, NULL);
        ZixTreeIter*   it = NULL;
        if (!t3) printf(" SPEC-FAIL:zix_tree_new-without-destroy-callback-failed");
        else {
          for (int i = 0; i < 3; ++i) if (zix_tree_insert(t3, &ks[i], &it)) printf(" SPEC-FAIL:insert-without-destroy-callback");
          if (zix_tree_remove(t3, it)) printf(" SPEC-FAIL:remove-without-destroy-callback");
          zix_tree_free(t3);
          if (ks[0] != 20 || ks[1] != 10 || ks[2] != 30 || v_alloc_outstanding(&va2) || va2.n_errors) printf(" SPEC-FAIL:tree-without-destroy-callback-touched-elements-or-leaked");
        }
        cmp_calls = cmp_calls_before;
      }
      wb();
      fputc('\n', stdout);
      continue;
    }
    if (!strcmp(tok[0], "insfail") && n == 2) {
      // insertion while the allocator refuses the node
      static long tmpkey;
      tmpkey = strtol(tok[1], NULL, 10);
      ZixTreeIter* it = NULL;
      va.fail_at = va.n_requests;
      const ZixStatus st = zix_tree_insert(tree, &tmpkey, &it);
      va.fail_at = -1;
      printf("st=%s it=%d size=%zu", st == ZIX_STATUS_EXISTS ? "EXISTS" : st == ZIX_STATUS_NO_MEM ? "NO_MEM" : "OTHER", st == ZIX_STATUS_EXISTS ? id_of(it) : 0, zix_tree_size(tree));
      wb();
    } else if (!strcmp(tok[0], "ins") && n == 2) {
      if (next_id >= MAXN - 1) { puts("bad-op"); continue; }
      const int id = next_id;
      key_of[id] = strtol(tok[1], NULL, 10);
      ZixTreeIter* it = NULL;
      const ZixStatus st = zix_tree_insert(tree, &key_of[id], &it);
      if (st == ZIX_STATUS_SUCCESS) {
        node_of[id] = it;
        ++next_id;
        printf("st=SUCCESS it=%d size=%zu", id, zix_tree_size(tree));
        if (zix_tree_get(it) != &key_of[id]) printf(" SPEC-FAIL:returned-iterator-not-at-new-element");
      } else {
        printf("st=%s it=%d size=%zu", st == ZIX_STATUS_EXISTS ? "EXISTS" : "OTHER", id_of(it), zix_tree_size(tree));
      }
      wb();
    } else if (!strcmp(tok[0], "find") && n == 2) {
      const long k = strtol(tok[1], NULL, 10);
      ZixTreeIter* it = (ZixTreeIter*)&va;  // must be overwritten
      const ZixStatus st = zix_tree_find(tree, &k, &it);
      // theorem reachable_find_bound: c comparisons in a tree of n elements satisfy fib(c + 2) <= n + 1
      {
        unsigned long long fa = 0, fb = 1;   // fib(0), fib(1)
        for (int i = 0; i < cmp_calls + 1 && fb <= (1ULL << 60); ++i) { const unsigned long long t = fa + fb; fa = fb; fb = t; }
        find_bound_broken = fb > (unsigned long long)zix_tree_size(tree) + 1;   // fb == fib(cmp_calls + 2)
      }
      if (st == ZIX_STATUS_SUCCESS) {
        printf("st=SUCCESS key=%ld", *(long*)zix_tree_get(it));
        if (find_bound_broken) printf(" SPEC-FAIL:find-needed-%d-comparisons-for-%zu-elements-(exceeds-the-AVL-bound)", cmp_calls, zix_tree_size(tree));
        wb();
        printf(" it=%d", id_of(it));
      } else {
        printf("st=%s key=%s", st == ZIX_STATUS_NOT_FOUND ? "NOT_FOUND" : "OTHER", it ? "NON-NULL-ITER" : "NULL");
        if (find_bound_broken) printf(" SPEC-FAIL:find-needed-%d-comparisons-for-%zu-elements-(exceeds-the-AVL-bound)", cmp_calls, zix_tree_size(tree));
        wb();
      }
    } else if (!strcmp(tok[0], "rm") && n == 2) {
      int id = 0;
      if (tok[1][0] == '~') {
        const size_t sz = zix_tree_size(tree);
        if (!sz) { puts("bad-op"); continue; }
        size_t k = strtoul(tok[1] + 1, NULL, 10) % sz;
        ZixTreeIter* it = zix_tree_begin(tree);
        while (k--) it = zix_tree_iter_next(it);
        id = id_of(it);
      } else {
        id = atoi(tok[1]);
      }
      if (id <= 0 || id >= next_id || !node_of[id]) { puts("bad-op"); continue; }
      const int before = destroyed[id];
      const ZixStatus st = zix_tree_remove(tree, node_of[id]);
      node_of[id] = NULL;
      printf("st=%s removed=%d size=%zu", st == ZIX_STATUS_SUCCESS ? "SUCCESS" : "OTHER", id, zix_tree_size(tree));
      if (destroyed[id] != before + 1) printf(" SPEC-FAIL:destroy-ran-%d-times-for-removed-element", destroyed[id] - before);
      wb();
    } else if (!strcmp(tok[0], "walk")) {
      printf("fwd=[");
      bool first = true;
      for (ZixTreeIter* i = zix_tree_begin(tree); !zix_tree_iter_is_end(i); i = zix_tree_iter_next(i)) {
        printf("%s%d", first ? "" : " ", id_of(i));
        first = false;
      }
      printf("] bwd=[");
      first = true;
      for (ZixTreeIter* i = zix_tree_rbegin(tree); !zix_tree_iter_is_rend(i); i = zix_tree_iter_prev(i)) {
        printf("%s%d", first ? "" : " ", id_of(i));
        first = false;
      }
      printf("] keys=[");
      first = true;
      for (ZixTreeIter* i = zix_tree_begin(tree); !zix_tree_iter_is_end(i); i = zix_tree_iter_next(i)) {
        printf("%s%ld", first ? "" : " ", *(long*)zix_tree_get(i));
        first = false;
      }
      printf("]");
      // the end / rend iterators: what a walk runs into, and recognised as such
      {
        ZixTreeIter* e = zix_tree_begin(tree);
        while (!zix_tree_iter_is_end(e)) e = zix_tree_iter_next(e);
        ZixTreeIter* r = zix_tree_rbegin(tree);
        while (!zix_tree_iter_is_rend(r)) r = zix_tree_iter_prev(r);
        if (e != zix_tree_end(tree) || r != zix_tree_rend(tree) || !zix_tree_iter_is_end(zix_tree_end(tree)) || !zix_tree_iter_is_rend(zix_tree_rend(tree)))
          printf(" SPEC-FAIL:end-or-rend-iterator-is-not-where-the-walk-stops");
      }
      wb();
    } else if (!strcmp(tok[0], "free")) {
      const int before = n_destroyed;
      const bool dups  = tree->allow_duplicates;
      zix_tree_free(tree);
      printf("destroyed=%d order=[", n_destroyed - before);
      for (int i = before; i < n_destroyed; ++i) printf("%s%d", i == before ? "" : " ", destroy_order[i]);
      printf("]");
      for (int i = 1; i < next_id; ++i) {
        if (destroyed[i] != 1) { printf(" SPEC-FAIL:element-%d-destroyed-%d-times", i, destroyed[i]); break; }
      }
      if (bad_user_data) printf(" SPEC-FAIL:callback-user-data");
      if (v_alloc_outstanding(&va) || va.n_errors) printf(" SPEC-FAIL:allocator-discipline");
      printf(" |");
      v_alloc_put_log(&va, stdout);
      reset_ids();
      v_alloc_reset(&va);
      tree = zix_tree_new(&va.base, dups, cmp, &cmp_tag, destroy, &destroy_tag);
      va.log_len = 0;
    } else {
      printf("bad-op");
    }
    fputc('\n', stdout);
  }
  if (tree) zix_tree_free(tree);
  return 0;
}
