// C07 harness (string builders, environment expansion, allocating filesystem functions, ring
// construction): every call under "request k is refused" / "all requests from k on are refused".
// Oracle on the implementation alone: the result is NULL (the documented failure) or equals the
// fault-free result; nothing leaks; nothing crashes (ASan/UBSan).
#include "common.h"

#include <zix/environment.h>
#include <zix/filesystem.h>
#include <zix/path.h>
#include <zix/ring.h>
#include <zix/string_view.h>

#include <unistd.h>

static VAlloc va;
extern char** environ;

typedef char* (*StrFn)(const char* a, const char* b);

static char* f_join(const char* a, const char* b) { return zix_path_join(&va.base, a, b); }
static char* f_norm(const char* a, const char* b) { (void)b; return zix_path_lexically_normal(&va.base, a); }
static char* f_rel(const char* a, const char* b) { return zix_path_lexically_relative(&va.base, a, b); }
static char* f_pref(const char* a, const char* b) { (void)b; return zix_path_preferred(&va.base, a); }
static char* f_copy(const char* a, const char* b) { (void)b; return zix_string_view_copy(&va.base, zix_string(a)); }
static char* f_expand(const char* a, const char* b) { (void)b; return zix_expand_environment_strings(&va.base, a); }
static char* f_canon(const char* a, const char* b) { (void)b; return zix_canonical_path(&va.base, a); }
static char* f_cur(const char* a, const char* b) { (void)a; (void)b; return zix_current_path(&va.base); }
static char* f_tmp(const char* a, const char* b) { (void)a; (void)b; return zix_temp_directory_path(&va.base); }
static char* f_mktemp(const char* a, const char* b) { (void)b; char* r = zix_create_temporary_directory(&va.base, a); if (r) rmdir(r); return r; }

static void
run_str(const char* name, StrFn fn, const char* a, const char* b, bool may_be_null_without_fault)
{
  // fault-free reference
  v_alloc_reset(&va);
  char* ref = fn(a, b);
  const long reqs = va.n_requests;
  char* refcopy = ref ? strdup(ref) : NULL;
  zix_free(&va.base, ref);
  int bad = (v_alloc_outstanding(&va) || va.n_errors) ? 1 : 0;
  int n_null = 0, n_same = 0;
  for (int persistent = 0; persistent < 2; ++persistent) {
    for (long k = 0; k < reqs; ++k) {
      v_alloc_reset(&va);
      if (persistent) va.fail_from = k; else va.fail_at = k;
      char* r = fn(a, b);
      if (!r) ++n_null;
      else if (refcopy && !strcmp(r, refcopy)) ++n_same;
      else bad |= 2;                                   // neither the documented failure nor the right answer
      if (!r && !va.n_refused) bad |= 4;               // failure without any refused request
      zix_free(&va.base, r);
      if (v_alloc_outstanding(&va)) bad |= 8;          // leak
      if (va.n_errors) bad |= 16;                      // allocator discipline
    }
  }
  if (!refcopy && !may_be_null_without_fault) bad |= 32;
  printf("%s requests=%ld", name, reqs);
  if (bad) printf(" SPEC-FAIL:fault-handling-%d", bad);
  printf(" | null=%d same=%d\n", n_null, n_same);
  free(refcopy);
}

int
main(int argc, char** argv)
{
  if (argc < 3) return 2;
  FILE* in = fopen(argv[1], "r");
  if (chdir(argv[2])) return 2;
  char* tok[V_MAX_TOK];
  int   n = 0;
  v_alloc_init(&va);
  va.logging = false;
  v_setup_io();
  v_watchdog(60);
  static char* envp[] = {(char*)"A=value", (char*)"HOME=/home/u", (char*)"EMPTY=", NULL};
  while ((n = v_next(in, tok)) >= 0) {
    if (v_marker(n, tok)) continue;
    size_t la = 0, lb = 0;
    char* a = n > 1 ? (char*)v_unhex(tok[1], &la, true) : NULL;
    char* b = n > 2 ? (char*)v_unhex(tok[2], &lb, true) : NULL;
    if (!strcmp(tok[0], "join") && n == 3) run_str("join", f_join, a, b, false);
    else if (!strcmp(tok[0], "norm") && n == 2) run_str("norm", f_norm, a, NULL, false);
    else if (!strcmp(tok[0], "rel") && n == 3) run_str("rel", f_rel, a, b, true);
    else if (!strcmp(tok[0], "pref") && n == 2) run_str("pref", f_pref, a, NULL, false);
    else if (!strcmp(tok[0], "svcopy") && n == 2) run_str("svcopy", f_copy, a, NULL, false);
    else if (!strcmp(tok[0], "expand") && n == 2) { char** saved = environ; environ = envp; run_str("expand", f_expand, a, NULL, false); environ = saved; }
    else if (!strcmp(tok[0], "canon") && n == 2) run_str("canon", f_canon, a, NULL, true);
    else if (!strcmp(tok[0], "curpath")) run_str("curpath", f_cur, NULL, NULL, false);
    else if (!strcmp(tok[0], "tmppath")) run_str("tmppath", f_tmp, NULL, NULL, false);
    else if (!strcmp(tok[0], "mktemp") && n == 2) run_str("mktemp", f_mktemp, a, NULL, !strstr(a, "XXXXXX") || strchr(a, '/'));   // a pattern mkdtemp rejects: NULL without a fault
    else if (!strcmp(tok[0], "mkdirs") && n == 2) {
      // create_directories: NO_MEM and nothing created, or the fault-free outcome
      int bad = 0, nomem = 0, done = 0;
      v_alloc_reset(&va);
      const ZixStatus ref = zix_create_directories(&va.base, a);
      const long reqs = va.n_requests;
      for (long k = 0; k < reqs; ++k) {
        v_alloc_reset(&va);
        va.fail_from = k;
        const ZixStatus st = zix_create_directories(&va.base, a);
        if (st == ZIX_STATUS_NO_MEM) ++nomem; else if (st == ref || st == ZIX_STATUS_SUCCESS) ++done; else bad |= 2;
        if (v_alloc_outstanding(&va)) bad |= 8;
        if (va.n_errors) bad |= 16;
      }
      printf("mkdirs requests=%ld", reqs);
      if (bad) printf(" SPEC-FAIL:fault-handling-%d", bad);
      printf(" | nomem=%d done=%d\n", nomem, done);
    } else if (!strcmp(tok[0], "ring") && n == 2) {
      int bad = 0, nulls = 0;
      const uint32_t size = (uint32_t)strtoul(tok[1], NULL, 16);
      for (int persistent = 0; persistent < 2; ++persistent) {
        for (long k = 0; k < 2; ++k) {
          v_alloc_reset(&va);
          if (persistent) va.fail_from = k; else va.fail_at = k;
          ZixRing* r = zix_ring_new(&va.base, size);
          if (r) bad |= 2; else ++nulls;
          zix_ring_free(r);
          if (v_alloc_outstanding(&va)) bad |= 8;
          if (va.n_errors) bad |= 16;
        }
      }
      v_alloc_reset(&va);
      ZixRing* r = zix_ring_new(&va.base, size);
      if (!r || va.n_requests != 2) bad |= 32;
      zix_ring_free(r);
      if (v_alloc_outstanding(&va) || va.n_errors) bad |= 8;
      printf("ring requests=2");
      if (bad) printf(" SPEC-FAIL:fault-handling-%d", bad);
      printf(" | null=%d\n", nulls);
    } else if (!strcmp(tok[0], "ringbad") && n == 2) {
      // a size zix_ring_new must refuse (0, above 2^31): NULL, and nothing may stay allocated whatever it tried first
      const uint32_t size = (uint32_t)strtoul(tok[1], NULL, 16);
      int bad = 0;
      v_alloc_reset(&va);
      ZixRing* r = zix_ring_new(&va.base, size);
      if (r) { bad |= 2; zix_ring_free(r); }
      if (v_alloc_outstanding(&va)) bad |= 8;
      if (va.n_errors) bad |= 16;
      printf("ringbad");
      if (bad) printf(" SPEC-FAIL:refused-size-handling-%d", bad);
      printf(" | requests=%ld\n", va.n_requests);
    } else puts("bad-op");
    free(a); free(b);
  }
  return 0;
}
