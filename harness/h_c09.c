// C09 harness: the bump allocator on buffers of every alignment offset
#include "common.h"

#include <zix/bump_allocator.h>

#include <inttypes.h>

typedef struct {
  char*  ptr;
  size_t size;
  int    id;
  bool   live;
} Blk;

static Blk    blks[4096];
static int    n_blks;
static char*  arena;
static char*  buffer;
static size_t cap;
static ZixBumpAllocator ba;

static Blk*
find_blk(int id)
{
  for (int i = 0; i < n_blks; ++i) {
    if (blks[i].id == id && blks[i].live) {
      return &blks[i];
    }
  }
  return NULL;
}

// Block reference: "^" = the live block granted last, "~k" = the (k mod n_live)-th live block
// in order of granting, a number = that id.  NULL if there is no such block.
static Blk*
ref_blk(const char* tok)
{
  int live[4096];
  int nl = 0;
  for (int i = 0; i < n_blks; ++i) {
    if (blks[i].live) {
      live[nl++] = i;
    }
  }
  if (tok[0] == '^') {
    return nl ? &blks[live[nl - 1]] : NULL;
  }
  if (tok[0] == '~') {
    return nl ? &blks[live[strtoul(tok + 1, NULL, 10) % (unsigned)nl]] : NULL;
  }
  return find_blk(atoi(tok));
}

static int
n_live(void)
{
  int n = 0;
  for (int i = 0; i < n_blks; ++i) {
    n += blks[i].live;
  }
  return n;
}

// Spec oracle on the implementation's own answer (independent of the Lean model)
static void
judge(char* p, size_t size, size_t alignment, const Blk* self)
{
  typedef unsigned __int128 u128;
  if ((uintptr_t)p % sizeof(uintmax_t)) {
    printf(" SPEC-FAIL:misaligned-%u", (unsigned)((uintptr_t)p % sizeof(uintmax_t)));
  }
  if (alignment && (uintptr_t)p % alignment) {
    printf(" SPEC-FAIL:not-aligned-to-%zu", alignment);
  }
  if (p < buffer || (u128)(uintptr_t)p + size > (u128)(uintptr_t)buffer + cap) {
    printf(" SPEC-FAIL:out-of-bounds");
  }
  for (int i = 0; i < n_blks; ++i) {
    const Blk* b = &blks[i];
    if (b->live && b != self) {
      const u128 a0 = (uintptr_t)p, a1 = a0 + size, b0 = (uintptr_t)b->ptr, b1 = b0 + b->size;
      if (a0 < b1 && b0 < a1) {
        printf(" SPEC-FAIL:overlaps-live-block-%d", b->id);
      }
    }
  }
}

static void
state(void)
{
  printf(" | last=%zu top=%zu live=%d\n", ba.last, ba.top, n_live());
}

int
main(int argc, char** argv)
{
  FILE* in = argc > 1 ? fopen(argv[1], "r") : stdin;
  char* tok[V_MAX_TOK];
  int   n       = 0;
  int   next_id = 1;
  v_setup_io();
  v_watchdog(20);
  while ((n = v_next(in, tok)) >= 0) {
    if (v_marker(n, tok)) {
      continue;
    }
    if (!strcmp(tok[0], "new") && n == 3) {
      const size_t off = strtoull(tok[1], NULL, 10);
      cap              = strtoull(tok[2], NULL, 10);
      free(arena);
      arena = NULL;
      if (posix_memalign((void**)&arena, 65536, off + cap + (off + cap ? 0 : 1))) {
        abort();
      }
      memset(arena, 0xCC, off + cap);
      buffer  = arena + off;
      ba      = zix_bump_allocator(cap, buffer);
      n_blks  = 0;
      next_id = 1;
      printf("new");
      state();
      continue;
    }
    const size_t old_last = ba.last, old_top = ba.top;
    if (!strcmp(tok[0], "malloc") && n == 2) {
      const size_t size = strtoull(tok[1], NULL, 10);
      char*        p    = (char*)zix_malloc(&ba.base, size);
      if (p) {
        printf("off=%td", p - buffer);
        judge(p, size, 0, NULL);
        Blk b = {p, size, next_id++, true};
        blks[n_blks++] = b;
      } else {
        printf("off=NULL");
        if (ba.last != old_last || ba.top != old_top) printf(" SPEC-FAIL:changed-on-failure");
      }
      state();
    } else if (!strcmp(tok[0], "calloc") && n == 3) {
      const size_t nm = strtoull(tok[1], NULL, 10), sz = strtoull(tok[2], NULL, 10);
      const unsigned __int128 total = (unsigned __int128)nm * sz;
      char* p = (char*)zix_calloc(&ba.base, nm, sz);
      if (p) {
        printf("off=%td", p - buffer);
        bool zero = true;
        if (total <= cap && p >= buffer && (size_t)(p - buffer) + (size_t)total <= cap) {
          for (size_t i = 0; i < (size_t)total; ++i) zero = zero && !p[i];
        }
        printf(" zero=%d", zero);
        if (total > cap) {
          printf(" SPEC-FAIL:granted-%s-bytes-of-%zu", "more-than-capacity", cap);
        } else {
          judge(p, (size_t)total, 0, NULL);
        }
        Blk b = {p, (size_t)total, next_id++, true};
        blks[n_blks++] = b;
      } else {
        printf("off=NULL");
        if (ba.last != old_last || ba.top != old_top) printf(" SPEC-FAIL:changed-on-failure");
      }
      state();
    } else if (!strcmp(tok[0], "realloc") && n == 3) {
      Blk* b = ref_blk(tok[1]);
      const size_t size = strtoull(tok[2], NULL, 10);
      if (!b) {
        puts("bad-op");
        continue;
      }
      char* p = (char*)zix_realloc(&ba.base, b->ptr, size);
      if (p) {
        printf("off=%td", p - buffer);
        if (p != b->ptr) printf(" SPEC-FAIL:moved");
        b->size = size;
        judge(p, size, 0, b);
      } else {
        printf("off=NULL");
        if (ba.last != old_last || ba.top != old_top) printf(" SPEC-FAIL:changed-on-failure");
      }
      state();
    } else if (!strcmp(tok[0], "reallocdead") && n == 2) {
      // realloc of the address at offset `last` while no live block is there (the last block was freed, or nothing has been
      // allocated yet): there is no block to resize, so it must be refused and change nothing
      bool live_there = false;
      for (int i = 0; i < n_blks; ++i) if (blks[i].live && blks[i].ptr == buffer + ba.last) live_there = true;
      if (live_there) { puts("bad-op"); continue; }
      const size_t size = strtoull(tok[1], NULL, 10);
      char* p = (char*)zix_realloc(&ba.base, buffer + ba.last, size);
      if (p) {
        printf("off=%td SPEC-FAIL:realloc-of-a-freed-block-succeeded", p - buffer);
      } else {
        printf("off=NULL");
        if (ba.last != old_last || ba.top != old_top) printf(" SPEC-FAIL:changed-on-failure");
      }
      state();
    } else if (!strcmp(tok[0], "free") && n == 2) {
      if (!strcmp(tok[1], "0")) {
        zix_free(&ba.base, NULL);
      } else {
        Blk* b = ref_blk(tok[1]);
        if (!b) {
          puts("bad-op");
          continue;
        }
        if ((b->id & 1)) {
          zix_free(&ba.base, b->ptr);
        } else {
          zix_aligned_free(&ba.base, b->ptr);
        }
        b->live = false;
      }
      printf("free");
      state();
    } else if (!strcmp(tok[0], "aalloc") && n == 3) {
      const size_t al = strtoull(tok[1], NULL, 10), size = strtoull(tok[2], NULL, 10);
      char*        p  = (char*)zix_aligned_alloc(&ba.base, al, size);
      if (p) {
        printf("off=%td", p - buffer);
        judge(p, size, al, NULL);
        Blk b = {p, size, next_id++, true};
        blks[n_blks++] = b;
      } else {
        printf("off=NULL");
        if (ba.last != old_last || ba.top != old_top) printf(" SPEC-FAIL:changed-on-failure");
      }
      state();
    } else {
      puts("bad-op");
    }
  }
  return 0;
}
