// C13 harness: digests at every alignment, buffer flush against poisoned memory on both sides,
// cross-checked with reference copies of fasthash64 and MurmurHash3_x86_32.
#include "common.h"

#include <zix/digest.h>

#include <inttypes.h>
#include <sanitizer/asan_interface.h>

// ---- reference: fasthash64 (Zilong Tan, MIT), transcribed
static uint64_t
ref_mix(uint64_t h)
{
  h ^= h >> 23;
  h *= 0x2127599bf4325c37ULL;
  h ^= h >> 47;
  return h;
}

static uint64_t
ref_fasthash64(const void* buf, size_t len, uint64_t seed)
{
  const uint64_t       m   = 0x880355f21e6d1965ULL;
  const unsigned char* p   = (const unsigned char*)buf;
  const unsigned char* end = p + (len / 8) * 8;
  uint64_t             h   = seed ^ (len * m);
  uint64_t             v;
  while (p != end) {
    memcpy(&v, p, 8);
    p += 8;
    h ^= ref_mix(v);
    h *= m;
  }
  v = 0;
  switch (len & 7) {
  case 7: v ^= (uint64_t)p[6] << 48; /* fallthrough */
  case 6: v ^= (uint64_t)p[5] << 40; /* fallthrough */
  case 5: v ^= (uint64_t)p[4] << 32; /* fallthrough */
  case 4: v ^= (uint64_t)p[3] << 24; /* fallthrough */
  case 3: v ^= (uint64_t)p[2] << 16; /* fallthrough */
  case 2: v ^= (uint64_t)p[1] << 8; /* fallthrough */
  case 1: v ^= (uint64_t)p[0]; h ^= ref_mix(v); h *= m;
  }
  return ref_mix(h);
}

// ---- reference: MurmurHash3_x86_32 (Austin Appleby, public domain), transcribed
static uint32_t
ref_rotl32(uint32_t x, int8_t r)
{
  return (x << r) | (x >> (32 - r));
}

static uint32_t
ref_murmur3_32(const void* key, size_t len, uint32_t seed)
{
  const uint8_t* data    = (const uint8_t*)key;
  const size_t   nblocks = len / 4;
  uint32_t       h1      = seed;
  const uint32_t c1 = 0xcc9e2d51, c2 = 0x1b873593;
  for (size_t i = 0; i < nblocks; ++i) {
    uint32_t k1;
    memcpy(&k1, data + 4 * i, 4);
    k1 *= c1; k1 = ref_rotl32(k1, 15); k1 *= c2;
    h1 ^= k1; h1 = ref_rotl32(h1, 13); h1 = h1 * 5 + 0xe6546b64;
  }
  const uint8_t* tail = data + nblocks * 4;
  uint32_t       k1   = 0;
  switch (len & 3) {
  case 3: k1 ^= (uint32_t)tail[2] << 16; /* fallthrough */
  case 2: k1 ^= (uint32_t)tail[1] << 8; /* fallthrough */
  case 1: k1 ^= tail[0]; k1 *= c1; k1 = ref_rotl32(k1, 15); k1 *= c2; h1 ^= k1;
  }
  h1 ^= (uint32_t)len;
  h1 ^= h1 >> 16; h1 *= 0x85ebca6b; h1 ^= h1 >> 13; h1 *= 0xc2b2ae35; h1 ^= h1 >> 16;
  return h1;
}

#define ARENA 4096
static unsigned char* arena;

// Place `len` bytes at an address with the given alignment offset (mod 8 granule of ASan is 8:
// poisoning is exact at the right edge and to the granule at the left edge), everything else poisoned.
static unsigned char*
place(const unsigned char* data, size_t len, size_t align)
{
  ASAN_UNPOISON_MEMORY_REGION(arena, ARENA);
  memset(arena, 0x5A, ARENA);
  unsigned char* p = arena + 1024 + align;
  memcpy(p, data, len);
  ASAN_POISON_MEMORY_REGION(arena, 1024 + (align & ~(size_t)7));
  ASAN_POISON_MEMORY_REGION(p + len, ARENA - (size_t)(p + len - arena));
  return p;
}

int
main(int argc, char** argv)
{
  FILE* in = argc > 1 ? fopen(argv[1], "r") : stdin;
  char* tok[V_MAX_TOK];
  int   n = 0;
  v_setup_io();
  v_watchdog(20);
  if (posix_memalign((void**)&arena, 64, ARENA)) {
    return 2;
  }
  while ((n = v_next(in, tok)) >= 0) {
    if (v_marker(n, tok)) {
      continue;
    }
    if ((!strcmp(tok[0], "d64") || !strcmp(tok[0], "d32")) && n == 4) {
      const bool     w64   = tok[0][1] == '6';
      const uint64_t seed  = strtoull(tok[1], NULL, 10);
      const size_t   align = strtoul(tok[2], NULL, 10);
      size_t         len   = 0;
      unsigned char* d     = v_unhex(tok[3], &len, false);
      if (len > 2000 || align > 63) {
        puts("bad-op");
        free(d);
        continue;
      }
      unsigned char* p = place(d, len, align);
      if (w64) {
        const uint64_t v  = zix_digest64(seed, p, len);
        // same value at another address and on a second call (pure, alignment-independent)
        unsigned char* q  = place(d, len, (align + 3) % 8 + 8);
        const uint64_t v2 = zix_digest64(seed, q, len);
        const uint64_t v3 = zix_digest64(seed, q, len);
        printf("d=%" PRIu64, v);
        if (v != v2 || v2 != v3) printf(" SPEC-FAIL:depends-on-address-or-call");
        if (v != ref_fasthash64(d, len, seed)) printf(" SPEC-FAIL:differs-from-fasthash64");
        if (align % 8 == 0 && len % 8 == 0) {
          p = place(d, len, align);
          printf(" a=%" PRIu64, zix_digest64_aligned(seed, p, len));
        }
        p = place(d, len, align);
        printf(" n=%zu", zix_digest((size_t)seed, p, len));
        if (align % 8 == 0 && len % 8 == 0) {
          if (zix_digest_aligned((size_t)seed, p, len) != zix_digest64_aligned(seed, p, len)) {
            printf(" SPEC-FAIL:zix_digest_aligned-is-not-the-native-variant");
          }
        }
        fputc('\n', stdout);
      } else {
        const uint32_t v  = zix_digest32((uint32_t)seed, p, len);
        unsigned char* q  = place(d, len, (align + 3) % 8 + 8);
        const uint32_t v2 = zix_digest32((uint32_t)seed, q, len);
        printf("d=%" PRIu32, v);
        if (v != v2) printf(" SPEC-FAIL:depends-on-address-or-call");
        if (v != ref_murmur3_32(d, len, (uint32_t)seed)) printf(" SPEC-FAIL:differs-from-murmur3");
        if (align % 4 == 0 && len % 4 == 0) {
          p = place(d, len, align);
          printf(" a=%" PRIu32, zix_digest32_aligned((uint32_t)seed, p, len));
        }
        fputc('\n', stdout);
      }
      free(d);
    } else {
      puts("bad-op");
    }
  }
  return 0;
}
