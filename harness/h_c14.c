// C14 harness: zix_copy_file with every system call made by the zix objects interposed
// (linker --wrap), driven by a fault script; real files in a scratch directory.
#include "common.h"

#include <zix/filesystem.h>

#include <dirent.h>
#include <errno.h>
#include <fcntl.h>
#include <sys/stat.h>
#include <sys/types.h>
#include <unistd.h>

typedef enum { C_OPEN_SRC, C_FSTAT_SRC, C_OPEN_DST, C_FSTAT_DST, C_FTRUNCATE, C_CFR, C_ALLOC, C_READ, C_WRITE, C_FREE, C_FDATASYNC, C_CLOSE_DST, C_CLOSE_SRC, C_N } Call;
static const char* call_names[C_N] = {"open-src", "fstat-src", "open-dst", "fstat-dst", "ftruncate", "cfr", "alloc", "read", "write", "free", "fdatasync", "close-dst", "close-src"};

typedef struct { int call; long nth; int is_short; long val; } FaultSpec;

static FaultSpec faults[32];
static int       n_faults;
static long      counts[C_N];
static int       scripting;
static char      trace[1 << 14];
static size_t    trace_len;
static int       n_opens, n_fstats, dst_fd_seen = -1;
static int       src_reports_no_size;   // kind regz: fstat of the source says st_size == 0 (as procfs text files do)
static long      fired;

static int
errno_of(const char* s)
{
  static const struct { const char* n; int v; } t[] = {
    {"EPERM", EPERM}, {"ENOENT", ENOENT}, {"EINTR", EINTR}, {"EIO", EIO}, {"EBADF", EBADF}, {"EAGAIN", EAGAIN}, {"ENOMEM", ENOMEM},
    {"EACCES", EACCES}, {"EEXIST", EEXIST}, {"EXDEV", EXDEV}, {"EISDIR", EISDIR}, {"EINVAL", EINVAL}, {"ENFILE", ENFILE}, {"EMFILE", EMFILE},
    {"EFBIG", EFBIG}, {"ENOSPC", ENOSPC}, {"EROFS", EROFS}, {"ENOSYS", ENOSYS}, {"EDQUOT", EDQUOT}, {"EOVERFLOW", EOVERFLOW}, {"ENOTSUP", ENOTSUP}};
  for (size_t i = 0; i < sizeof(t) / sizeof(t[0]); ++i) if (!strcmp(t[i].n, s)) return t[i].v;
  return atoi(s);
}

// Look up the fault for this call, count and log it.  Returns NULL if the call proceeds normally.
static const FaultSpec*
issue(Call c)
{
  const long nth = counts[c]++;
  const FaultSpec* f = NULL;
  for (int i = 0; i < n_faults; ++i) {
    if (!f && faults[i].call == (int)c && faults[i].nth == nth) f = &faults[i];
  }
  if (trace_len < sizeof(trace) - 64) {
    if (!f) trace_len += (size_t)snprintf(trace + trace_len, 64, "%s%s:ok", trace_len ? " " : "", call_names[c]);
    else if (f->is_short) trace_len += (size_t)snprintf(trace + trace_len, 64, "%s%s:short%ld", trace_len ? " " : "", call_names[c], f->val);
    else trace_len += (size_t)snprintf(trace + trace_len, 64, "%s%s:E%ld", trace_len ? " " : "", call_names[c], f->val);
  }
  if (f) ++fired;
  return f;
}

int     __real_open(const char* path, int flags, ...);
int     __real_open64(const char* path, int flags, ...);
ssize_t __real_read(int fd, void* buf, size_t n);
ssize_t __real_write(int fd, const void* buf, size_t n);
ssize_t __real_copy_file_range(int fi, off_t* oi, int fo, off_t* oo, size_t n, unsigned fl);
int     __real_fdatasync(int fd);
int     __real_close(int fd);
int     __real_fstat(int fd, struct stat* sb);
int     __real_fstat64(int fd, struct stat* sb);

static int
wrap_open_common(const char* path, int flags, mode_t mode)
{
  if (!scripting) return __real_open(path, flags, mode);
  const Call c = (n_opens++ == 0) ? C_OPEN_SRC : C_OPEN_DST;
  const FaultSpec* f = issue(c);
  if (f && !f->is_short) { errno = (int)f->val; return -1; }
  const int fd = __real_open(path, flags, mode);
  if (c == C_OPEN_DST) dst_fd_seen = fd;
  return fd;
}

int __wrap_open(const char* path, int flags, ...);
int __wrap_open64(const char* path, int flags, ...);

int
__wrap_open(const char* path, int flags, ...)
{
  va_list ap;
  va_start(ap, flags);
  const mode_t mode = (flags & O_CREAT) ? (mode_t)va_arg(ap, int) : 0;
  va_end(ap);
  return wrap_open_common(path, flags, mode);
}

int
__wrap_open64(const char* path, int flags, ...)
{
  va_list ap;
  va_start(ap, flags);
  const mode_t mode = (flags & O_CREAT) ? (mode_t)va_arg(ap, int) : 0;
  va_end(ap);
  return wrap_open_common(path, flags, mode);
}

static int
wrap_fstat_common(int fd, struct stat* sb)
{
  if (!scripting) return __real_fstat(fd, sb);
  const Call c = (n_fstats++ == 0) ? C_FSTAT_SRC : C_FSTAT_DST;
  const FaultSpec* f = issue(c);
  if (f && !f->is_short) { errno = (int)f->val; return -1; }
  const int r = __real_fstat(fd, sb);
  if (!r && c == C_FSTAT_SRC && src_reports_no_size) sb->st_size = 0;
  return r;
}

int __wrap_fstat(int fd, struct stat* sb);
int __wrap_fstat64(int fd, struct stat* sb);
int __wrap_fstat(int fd, struct stat* sb) { return wrap_fstat_common(fd, sb); }
int __wrap_fstat64(int fd, struct stat* sb) { return wrap_fstat_common(fd, sb); }

int __real_ftruncate(int fd, off_t len);
int __wrap_ftruncate(int fd, off_t len);
int __wrap_ftruncate64(int fd, off_t len);

static int
wrap_ftruncate_common(int fd, off_t len)
{
  if (!scripting) return __real_ftruncate(fd, len);
  const FaultSpec* f = issue(C_FTRUNCATE);
  if (f && !f->is_short) { errno = (int)f->val; return -1; }
  return __real_ftruncate(fd, len);
}

int __wrap_ftruncate(int fd, off_t len) { return wrap_ftruncate_common(fd, len); }
int __wrap_ftruncate64(int fd, off_t len) { return wrap_ftruncate_common(fd, len); }

ssize_t __wrap_read(int fd, void* buf, size_t n);
ssize_t
__wrap_read(int fd, void* buf, size_t n)
{
  if (!scripting) return __real_read(fd, buf, n);
  const FaultSpec* f = issue(C_READ);
  if (f && !f->is_short) { errno = (int)f->val; return -1; }
  if (f) { const size_t k = f->val < 1 ? 1 : (size_t)f->val; return __real_read(fd, buf, k < n ? k : n); }
  return __real_read(fd, buf, n);
}

ssize_t __wrap_write(int fd, const void* buf, size_t n);
ssize_t
__wrap_write(int fd, const void* buf, size_t n)
{
  if (!scripting) return __real_write(fd, buf, n);
  const FaultSpec* f = issue(C_WRITE);
  if (f && !f->is_short) { errno = (int)f->val; return -1; }
  if (f) { const size_t k = (size_t)f->val; return k == 0 ? 0 : __real_write(fd, buf, k < n ? k : n); }
  return __real_write(fd, buf, n);
}

ssize_t __wrap_copy_file_range(int fi, off_t* oi, int fo, off_t* oo, size_t n, unsigned fl);
ssize_t
__wrap_copy_file_range(int fi, off_t* oi, int fo, off_t* oo, size_t n, unsigned fl)
{
  if (!scripting) return __real_copy_file_range(fi, oi, fo, oo, n, fl);
  const FaultSpec* f = issue(C_CFR);
  if (f && !f->is_short) { errno = (int)f->val; return -1; }
  size_t k = n;
  if (f) { k = f->val < 1 ? 1 : (size_t)f->val; if (k > n) k = n; }
  // emulate the kernel copy with read/write on the descriptors' offsets (works on every filesystem)
  char    buf[8192];
  ssize_t total = 0;
  while ((size_t)total < k) {
    const size_t  want = k - (size_t)total < sizeof(buf) ? k - (size_t)total : sizeof(buf);
    const ssize_t r    = __real_read(fi, buf, want);
    if (r <= 0) break;
    if (__real_write(fo, buf, (size_t)r) != r) { errno = EIO; return -1; }
    total += r;
  }
  return total;
}

int __wrap_fdatasync(int fd);
int
__wrap_fdatasync(int fd)
{
  if (!scripting) return __real_fdatasync(fd);
  const FaultSpec* f = issue(C_FDATASYNC);
  if (f && !f->is_short) { errno = (int)f->val; return -1; }
  return __real_fdatasync(fd);
}

int __wrap_close(int fd);
int
__wrap_close(int fd)
{
  if (!scripting) return __real_close(fd);
  const FaultSpec* f = issue(fd == dst_fd_seen ? C_CLOSE_DST : C_CLOSE_SRC);
  const int r = __real_close(fd);   // the descriptor is released even when close reports an error
  if (f && !f->is_short) { errno = (int)f->val; return -1; }
  return r;
}

int __wrap_posix_fadvise(int fd, off_t o, off_t l, int a);
int __wrap_posix_fadvise(int fd, off_t o, off_t l, int a) { (void)fd; (void)o; (void)l; (void)a; return 0; }

// ---- allocator for the copy block: may refuse (setting errno like malloc does), checks the release
static ZixAllocator  cb_alloc;
static void*         cb_block;
static int           cb_released_here, cb_foreign_release;

static void*
cb_aligned_alloc(ZixAllocator* a, size_t al, size_t size)
{
  (void)a;
  const FaultSpec* f = issue(C_ALLOC);
  if (f) { errno = ENOMEM; return NULL; }
  if (posix_memalign(&cb_block, al, size)) return NULL;
  return cb_block;
}

static void
cb_aligned_free(ZixAllocator* a, void* p)
{
  (void)a;
  const FaultSpec* f = scripting ? issue(C_FREE) : NULL;
  if (p && p == cb_block) { ++cb_released_here; free(p); cb_block = NULL; }
  else if (p) ++cb_foreign_release;
  if (f && !f->is_short) errno = (int)f->val;   // a release may leave errno set (free() did before glibc 2.33)
}

static void* cb_malloc(ZixAllocator* a, size_t n) { (void)a; return malloc(n); }
static void* cb_calloc(ZixAllocator* a, size_t n, size_t m) { (void)a; return calloc(n, m); }
static void* cb_realloc(ZixAllocator* a, void* p, size_t n) { (void)a; return realloc(p, n); }
static void  cb_free(ZixAllocator* a, void* p) { (void)a; free(p); }

static int
count_fds(void)
{
  int  n = 0;
  DIR* d = opendir("/proc/self/fd");
  if (!d) return -1;
  while (readdir(d)) ++n;
  closedir(d);
  return n;
}

static unsigned char* pattern(size_t n, int a, int b, int m)
{
  unsigned char* p = (unsigned char*)malloc(n ? n : 1);
  for (size_t i = 0; i < n; ++i) p[i] = (unsigned char)((i * (size_t)a + (size_t)b) % (size_t)m);
  return p;
}

static void
write_file(const char* path, const unsigned char* data, size_t n)
{
  FILE* f = fopen(path, "wb");
  if (n) fwrite(data, 1, n, f);
  fclose(f);
}

static long
read_file(const char* path, unsigned char** out)
{
  FILE* f = fopen(path, "rb");
  if (!f) return -1;
  fseek(f, 0, SEEK_END);
  const long n = ftell(f);
  fseek(f, 0, SEEK_SET);
  *out = (unsigned char*)malloc(n > 0 ? (size_t)n : 1);
  if (n > 0 && fread(*out, 1, (size_t)n, f) != (size_t)n) { fclose(f); return -2; }
  fclose(f);
  return n;
}

int
main(int argc, char** argv)
{
  if (argc < 3) return 2;
  const char* scratch = argv[2];
  if (!strcmp(argv[1], "--blk")) {
    char p[4096];
    snprintf(p, sizeof(p), "%s/blk.probe", scratch);
    write_file(p, (const unsigned char*)"x", 1);
    struct stat sb;
    stat(p, &sb);
    printf("%ld\n", (long)sb.st_blksize);
    remove(p);
    return 0;
  }
  FILE* in = fopen(argv[1], "r");
  char* tok[V_MAX_TOK];
  int   n = 0;
  v_setup_io();
  v_watchdog(60);
#ifdef V_GUARD_DEFAULT
  v_guard_armed = 1;
#endif
  cb_alloc.malloc = cb_malloc; cb_alloc.calloc = cb_calloc; cb_alloc.realloc = cb_realloc; cb_alloc.free = cb_free;
  cb_alloc.aligned_alloc = cb_aligned_alloc; cb_alloc.aligned_free = cb_aligned_free;
  char src[4096], dst[4096], other[4096];
  snprintf(src, sizeof(src), "%s/src", scratch);
  snprintf(dst, sizeof(dst), "%s/dst", scratch);
  snprintf(other, sizeof(other), "%s/other", scratch);
  while ((n = v_next(in, tok)) >= 0) {
    if (v_marker(n, tok)) continue;
    if (strcmp(tok[0], "copy") || n < 6) { puts("bad-op"); continue; }
    // ---- set the scene
    remove(dst); rmdir(dst); remove(src); rmdir(src); remove(other);
    const size_t size = strtoul(tok[2], NULL, 10);
    unsigned char* sdata = pattern(size, 7, 3, 251);
    const char* from = src;
    src_reports_no_size = !strcmp(tok[1], "regz");
    const bool regular = !strcmp(tok[1], "reg") || src_reports_no_size;
    if (regular) write_file(src, sdata, size);
    else if (!strcmp(tok[1], "dir")) mkdir(src, 0755);
    else if (!strncmp(tok[1], "fifo", 4)) { mkfifo(src, 0644); }   // fifo: kept open from the side; fifo0: nobody has it open
    const char* to = dst;
    if (!strncmp(tok[3], "file:", 5)) {
      const size_t dn = strtoul(tok[3] + 5, NULL, 10);
      unsigned char* dd = pattern(dn, 5, 1, 241);
      write_file(dst, dd, dn);
      free(dd);
    } else if (!strcmp(tok[3], "same")) to = src;
    else if (!strcmp(tok[3], "hardlink")) { if (link(src, dst)) perror("link"); }
    else if (!strcmp(tok[3], "symlink")) { if (symlink("src", dst)) perror("symlink"); }
    else if (!strcmp(tok[3], "dir")) mkdir(dst, 0755);
    const bool overwrite = tok[4][0] == '1';
    n_faults = 0;
    for (int i = 6; i < n && n_faults < 32; ++i) {
      char* eq = strchr(tok[i], '='); char* hash = strchr(tok[i], '#');
      if (!eq || !hash) continue;
      *eq = 0; *hash = 0;
      FaultSpec f = {-1, atol(hash + 1), 0, 0};
      for (int c = 0; c < C_N; ++c) if (!strcmp(call_names[c], tok[i])) f.call = c;
      if (!strncmp(eq + 1, "short", 5)) { f.is_short = 1; f.val = atol(eq + 6); }
      else if (!strcmp(eq + 1, "fail")) f.val = ENOMEM;
      else f.val = errno_of(eq + 1);
      faults[n_faults++] = f;
    }
    memset(counts, 0, sizeof(counts));
    trace_len = 0; trace[0] = 0; n_opens = n_fstats = 0; dst_fd_seen = -1;
    cb_released_here = cb_foreign_release = 0; cb_block = NULL;
    const int fds_before = count_fds();
    // a fifo source would block in open(): open it non-blocking from the side first
    int fifo_keep = -1;
    if (!strcmp(tok[1], "fifo")) fifo_keep = __real_open(src, O_RDWR | O_NONBLOCK);
    const int fds_mid = count_fds();
    errno = V_ENTRY_ERRNO;
    if (!strcmp(tok[1], "fifo0")) alarm(10);   // an open() that waits for a writer never returns: stopped by the watchdog
    scripting = 1;
    const ZixStatus st = zix_copy_file(&cb_alloc, from, to, overwrite ? ZIX_COPY_OPTION_OVERWRITE_EXISTING : ZIX_COPY_OPTION_NONE);
    scripting = 0;
    const int fds_after = count_fds();
    if (fifo_keep >= 0) __real_close(fifo_keep);
    (void)fds_before;
    // ---- look at the result
    printf("st=%d", (int)st);
    if (regular) {
      unsigned char* now = NULL;
      const long     sn  = read_file(src, &now);
      printf(" src=%s", (sn == (long)size && !memcmp(now, sdata, size)) ? "ok" : "CHANGED");
      free(now);
    } else {
      printf(" src=ok");
    }
    struct stat sb;
    if (!strcmp(tok[3], "dir")) {
      printf(" dst=dir");
    } else if (to == src || stat(dst, &sb)) {
      if (to == src) {
        unsigned char* now = NULL;
        const long     dn  = read_file(src, &now);
        printf(" dst=len:%ld:eq%d", dn, (dn == (long)size && !memcmp(now, sdata, size)) ? 1 : 0);
        free(now);
      } else {
        printf(" dst=none");
      }
    } else {
      unsigned char* now = NULL;
      const long     dn  = read_file(dst, &now);
      printf(" dst=len:%ld:eq%d", dn, (dn == (long)size && !memcmp(now, sdata, size)) ? 1 : 0);
      free(now);
    }
    printf(" fds=%d", fds_after == fds_mid ? 1 : 0);
    if (cb_foreign_release || cb_block) printf(" SPEC-FAIL:copy-block-not-released-through-the-caller's-allocator");
    printf(" | %s\n", trace);
    free(sdata);
  }
  remove(dst); rmdir(dst); remove(src); rmdir(src);
  return 0;
}
