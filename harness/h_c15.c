// C15 harness: filesystem creation and queries against a real scratch tree and direct system calls
#include "common.h"

#include <zix/filesystem.h>

#include <dirent.h>
#include <errno.h>
#include <fcntl.h>
#include <ftw.h>
#include <limits.h>
#include <sys/socket.h>
#include <sys/stat.h>
#include <sys/un.h>
#include <unistd.h>

static VAlloc va;

// fstat as seen by zix_file_equals can be given faked device / inode numbers ("feqino"): linker --wrap=fstat
static int   fake_stat;            // 0 = off; otherwise the n-th fstat call (1, 2) gets fake_dev[n-1] / fake_ino[n-1]
static long  fake_dev[2], fake_ino[2];
static int   fake_size;            // 0 = off; otherwise the n-th fstat call (1, 2) reports st_size 0 when fake_zero[n-1] is set
static int   fake_zero[2];
int __real_fstat(int fd, struct stat* sb);
int __wrap_fstat(int fd, struct stat* sb);
int __wrap_fstat64(int fd, struct stat* sb);
static int
wrap_fstat_common(int fd, struct stat* sb)
{
  const int rc = __real_fstat(fd, sb);
  if (!rc && fake_stat >= 1 && fake_stat <= 2) {
    if (fake_dev[fake_stat - 1] >= 0) sb->st_dev = (dev_t)fake_dev[fake_stat - 1];
    sb->st_ino = (ino_t)fake_ino[fake_stat - 1];
    ++fake_stat;
  }
  if (!rc && fake_size >= 1 && fake_size <= 2) {
    if (fake_zero[fake_size - 1]) sb->st_size = 0;   // as procfs text files, FIFOs and devices do
    ++fake_size;
  }
  return rc;
}
int __wrap_fstat(int fd, struct stat* sb) { return wrap_fstat_common(fd, sb); }
int __wrap_fstat64(int fd, struct stat* sb) { return wrap_fstat_common(fd, sb); }
// mkdir as called by zix_create_directories can be preceded by a racing creator ("mkdirsrace"): linker --wrap=mkdir
static int      racing;               // 1 while the library runs under a racer
static unsigned race_dirs, race_files;   // bit k: before the k-th mkdir call another process creates the same path as a directory / a file
static int      n_mkdir;
int __real_mkdir(const char* path, mode_t mode);
int __wrap_mkdir(const char* path, mode_t mode);
int
__wrap_mkdir(const char* path, mode_t mode)
{
  if (racing) {
    const int k = n_mkdir++;
    const int saved = errno;
    if (k < 32 && (race_dirs >> k & 1u)) { if (__real_mkdir(path, 0777)) {} }
    else if (k < 32 && (race_files >> k & 1u)) { const int fd = open(path, O_WRONLY | O_CREAT | O_EXCL, 0644); if (fd >= 0) close(fd); }
    errno = saved;
  }
  return __real_mkdir(path, mode);
}

static unsigned
bits_of(const char* list)
{
  unsigned b = 0;
  if (!strcmp(list, "-")) return 0;
  for (const char* p = list; *p;) {
    const unsigned k = (unsigned)strtoul(p, (char**)&p, 10);
    if (k < 32) b |= 1u << k;
    if (*p == ',') ++p;
  }
  return b;
}

static char   scratch[PATH_MAX];   // .../S
static char   work[PATH_MAX];      // .../S/w  (the working directory)

static int
rm_cb(const char* p, const struct stat* sb, int flag, struct FTW* f)
{
  (void)sb; (void)flag; (void)f;
  return remove(p);
}

static void
reset_tree(void)
{
  // (the tree walk of the C library does not cope with descriptor 0 being free: put it back while cleaning up)
  const bool fd0_free = v_fd0_saved >= 0;
  if (fd0_free) dup2(v_fd0_saved, 0);
  if (chdir("/")) {}
  nftw(scratch, rm_cb, 32, FTW_DEPTH | FTW_PHYS);
  mkdir(scratch, 0755);
  mkdir(work, 0755);
  if (chdir(work)) { perror("chdir"); exit(2); }
  if (fd0_free) close(0);
}

static int
count_fds(void)
{
  int  n = 0;
  DIR* d = opendir("/proc/self/fd");
  while (readdir(d)) ++n;
  closedir(d);
  return n;
}

static char   listing[1 << 16];
static size_t listing_len;
static char*  names[4096];
static int    n_names;

static int
list_cb(const char* p, const struct stat* sb, int flag, struct FTW* f)
{
  (void)flag; (void)f;
  if (strlen(p) <= strlen(scratch)) return 0;
  char buf[PATH_MAX + 8];
  snprintf(buf, sizeof(buf), "%c:%s", S_ISDIR(sb->st_mode) ? 'd' : S_ISLNK(sb->st_mode) ? 'l' : 'f', p + strlen(scratch) + 1);
  if (n_names < 4096) names[n_names++] = strdup(buf);
  return 0;
}

static int
cmp_str(const void* a, const void* b)
{
  return strcmp(*(char* const*)a, *(char* const*)b);
}

static void
put_tree(void)
{
  n_names = 0;
  nftw(scratch, list_cb, 32, FTW_PHYS);
  qsort(names, (size_t)n_names, sizeof(char*), cmp_str);
  printf("tree=[");
  for (int i = 0; i < n_names; ++i) { printf("%s%s", i ? " " : "", names[i]); free(names[i]); }
  printf("]");
}

// "@..." = absolute path of the working directory followed by the rest
static char*
expand(const char* hex)
{
  size_t len = 0;
  char*  raw = (char*)v_unhex(hex, &len, true);
  if (raw[0] != '@') return raw;
  char* out = (char*)malloc(strlen(work) + len + 1);
  sprintf(out, "%s%s", work, raw + 1);
  free(raw);
  return out;
}

static void
setup(int n, char** tok, int from, int* bar)
{
  *bar = n;
  for (int i = from; i < n; ++i) {
    if (!strcmp(tok[i], "|")) { *bar = i; return; }
    if (tok[i][0] == 'd') mkdir(tok[i] + 2, 0755);
    else if (tok[i][0] == 'f') { FILE* f = fopen(tok[i] + 2, "w"); if (f) { fputs("x", f); fclose(f); } }
    else if (tok[i][0] == 'l') {
      // l:name>target ; a target starting with '@' is absolute: the working directory followed by the rest
      char* gt = strchr(tok[i], '>');
      if (gt) {
        char target[PATH_MAX];
        if (gt[1] == '@') snprintf(target, sizeof(target), "%s%s", work, gt + 2); else snprintf(target, sizeof(target), "%s", gt + 1);
        *gt = 0;
        if (symlink(target, tok[i] + 2)) {}
        *gt = '>';
      }
    }
  }
}

static unsigned char*
pattern(size_t n)
{
  unsigned char* p = (unsigned char*)malloc(n ? n : 1);
  for (size_t i = 0; i < n; ++i) p[i] = (unsigned char)((i * 13 + 5) % 253);
  return p;
}

static void
write_file(const char* path, const unsigned char* d, size_t n)
{
  FILE* f = fopen(path, "wb");
  if (n) fwrite(d, 1, n, f);
  fclose(f);
}

static char*  seen[256];
static int    n_seen;
static const char* expect_dir;
static int    foreach_bad;

static void
visit(const char* path, const char* name, void* data)
{
  if (data != &n_seen || strcmp(path, expect_dir)) ++foreach_bad;
  if (n_seen < 256) seen[n_seen++] = strdup(name);
}

int
main(int argc, char** argv)
{
  if (argc < 3) return 2;
  FILE* in = fopen(argv[1], "r");
  if (!realpath(argv[2], scratch)) return 2;
  strcat(scratch, "/S");
  snprintf(work, sizeof(work), "%s/w", scratch);
  char* tok[V_MAX_TOK];
  int   n = 0;
  v_alloc_init(&va);
  va.logging = false;
  v_setup_io();
  v_watchdog(60);
  const long page = sysconf(_SC_PAGE_SIZE);
  while ((n = v_next(in, tok)) >= 0) {
    if (v_marker(n, tok)) continue;
    reset_tree();
    const int fds0 = count_fds();
    if (!strcmp(tok[0], "page")) {
      printf("page=%ld\n", page);
    } else if (!strcmp(tok[0], "mkdirs")) {
      int bar = 0;
      setup(n, tok, 1, &bar);
      if (bar + 1 >= n) { puts("bad-op"); continue; }
      char* path = expand(tok[bar + 1]);
      if (path[0] == '/' && strncmp(path, scratch, strlen(scratch))) {   // never touch anything outside the scratch tree
        puts("bad-op");
        free(path);
        continue;
      }
      const ZixStatus st = zix_create_directories(&va.base, path);
      struct stat sb;
      const int isdir = path[0] && !stat(path, &sb) && S_ISDIR(sb.st_mode);
      const ZixStatus again = zix_create_directories(&va.base, path);
      printf("st=%d isdir=%d again=%d", (int)st, isdir, (int)again);
      if ((st == ZIX_STATUS_SUCCESS) != (isdir != 0)) printf(" SPEC-FAIL:success-iff-directory");
      if (st == ZIX_STATUS_SUCCESS && again != ZIX_STATUS_SUCCESS) printf(" SPEC-FAIL:not-idempotent");
      printf(" fds=%d | ", count_fds() == fds0);
      put_tree();
      putchar('\n');
      free(path);
    } else if (!strcmp(tok[0], "mkdirsrace") && n >= 5) {
      // mkdirsrace <dirs> <files> <setup...> | <path>: before the listed mkdir calls (0-based, "-" = none) another process
      // creates the same path as a directory / as a file
      int bar = 0;
      setup(n, tok, 3, &bar);
      if (bar + 1 >= n) { puts("bad-op"); continue; }
      char* path = expand(tok[bar + 1]);
      if (path[0] == '/' && strncmp(path, scratch, strlen(scratch))) { puts("bad-op"); free(path); continue; }
      race_dirs = bits_of(tok[1]); race_files = bits_of(tok[2]); n_mkdir = 0; racing = 1;
      const ZixStatus st = zix_create_directories(&va.base, path);
      racing = 0;
      struct stat sb;
      const int isdir = path[0] && !stat(path, &sb) && S_ISDIR(sb.st_mode);
      printf("st=%d isdir=%d", (int)st, isdir);
      if ((st == ZIX_STATUS_SUCCESS) != (isdir != 0)) printf(" SPEC-FAIL:success-iff-directory");
      printf(" fds=%d | ", count_fds() == fds0);
      put_tree();
      putchar('\n');
      free(path);
    } else if (!strcmp(tok[0], "feq") && n == 6) {
      const size_t la = strtoul(tok[1], NULL, 10), lb = strtoul(tok[2], NULL, 10);
      const long   diff = atol(tok[3]);
      const int    link_same = atoi(tok[4]);
      unsigned char* a = pattern(la);
      unsigned char* b = pattern(lb);
      if (diff >= 0 && (size_t)diff < lb) b[diff] ^= 1;
      write_file("A", a, la);
      if (link_same) { if (link("A", "B")) {} } else write_file("B", b, lb);
      // fail = every page request refused; fail0 / fail1 = only the first / second one
      #define ARM_FAULT() do { if (!strcmp(tok[5], "fail")) va.fail_from = va.n_requests; else if (!strcmp(tok[5], "fail0")) va.fail_at = va.n_requests; \
                               else if (!strcmp(tok[5], "fail1")) va.fail_at = va.n_requests + 1; } while (0)
      ARM_FAULT();
      const bool r1 = zix_file_equals(&va.base, "A", "B");
      va.fail_from = -1; va.fail_at = -1;
      ARM_FAULT();
      const bool r2 = zix_file_equals(&va.base, "B", "A");
      va.fail_from = -1; va.fail_at = -1;
      const bool same = link_same || (la == lb && !memcmp(a, b, la));
      printf("eq=%d sym=%d", r1, r2);
      if (r1 != same || r2 != same) printf(" SPEC-FAIL:equals-iff-identical-bytes");
      printf(" fds=%d\n", count_fds() == fds0);
      free(a); free(b);
    } else if (!strcmp(tok[0], "feqz") && n == 7) {
      // feqz <lenA> <lenB> <diff-pos|-1> <zeroA> <zeroB> <alloc>: fstat reports st_size 0 for A and/or B although it has content
      const size_t la = strtoul(tok[1], NULL, 10), lb = strtoul(tok[2], NULL, 10);
      const long   diff = atol(tok[3]);
      unsigned char* a = pattern(la);
      unsigned char* b = pattern(lb);
      if (diff >= 0 && (size_t)diff < lb) b[diff] ^= 1;
      write_file("A", a, la);
      write_file("B", b, lb);
      #define ARM_FAULT6() do { if (!strcmp(tok[6], "fail")) va.fail_from = va.n_requests; else if (!strcmp(tok[6], "fail0")) va.fail_at = va.n_requests; \
                                else if (!strcmp(tok[6], "fail1")) va.fail_at = va.n_requests + 1; } while (0)
      fake_zero[0] = atoi(tok[4]); fake_zero[1] = atoi(tok[5]); fake_size = 1;
      ARM_FAULT6();
      const bool r1 = zix_file_equals(&va.base, "A", "B");
      va.fail_from = -1; va.fail_at = -1;
      fake_zero[0] = atoi(tok[5]); fake_zero[1] = atoi(tok[4]); fake_size = 1;
      ARM_FAULT6();
      const bool r2 = zix_file_equals(&va.base, "B", "A");
      va.fail_from = -1; va.fail_at = -1;
      fake_size = 0;
      const bool same = la == lb && !memcmp(a, b, la);
      printf("eq=%d sym=%d", r1, r2);
      if (r1 != same || r2 != same) printf(" SPEC-FAIL:equals-iff-identical-bytes");
      printf(" fds=%d\n", count_fds() == fds0);
      free(a); free(b);
    } else if (!strcmp(tok[0], "feqproc")) {
      // a real file that reports no size: /proc/version against a copy of it and against an empty file, both ways
      FILE* pv = fopen("/proc/version", "rb");
      static unsigned char buf[65536];
      const size_t got = pv ? fread(buf, 1, sizeof(buf), pv) : 0;
      if (pv) fclose(pv);
      if (!got) { printf("eq=1100 fds=1\n"); continue; }   // no procfs here: nothing to observe
      write_file("A", buf, got);
      write_file("B", buf, 0);
      const bool r1 = zix_file_equals(&va.base, "/proc/version", "A"), r2 = zix_file_equals(&va.base, "A", "/proc/version"),
                 r3 = zix_file_equals(&va.base, "B", "/proc/version"), r4 = zix_file_equals(&va.base, "/proc/version", "B");
      printf("eq=%d%d%d%d fds=%d\n", r1, r2, r3, r4, count_fds() == fds0);
    } else if (!strcmp(tok[0], "fsops")) {
      // the small creation / removal functions: each must report, and produce, what lstat / readlink then show
      char res[64]; int k = 0;
      struct stat sb, sb2;
      #define ST(x) do { const int st_ = (int)(x); res[k++] = (char)('0' + (st_ > 9 ? 9 : st_)); } while (0)
      ST(zix_create_directory("d"));   res[k++] = (!lstat("d", &sb) && S_ISDIR(sb.st_mode)) ? 'd' : '?';
      ST(zix_create_directory("d"));                                    // EXISTS
      ST(zix_create_directory(""));                                     // BAD_ARG
      ST(zix_create_directory("nope/x"));                               // NOT_FOUND
      chmod("d", 0750);
      const mode_t old_umask = umask(022);
      ST(zix_create_directory_like("e", "d")); res[k++] = (!lstat("e", &sb2) && S_ISDIR(sb2.st_mode) && (sb2.st_mode & 0777) == 0750) ? 'd' : '?';
      umask(old_umask);
      ST(zix_create_directory_like("g", "missing"));                    // NOT_FOUND, nothing created
      res[k++] = lstat("g", &sb) ? '-' : '!';
      ST(zix_create_directory_like("", "d"));                           // BAD_ARG
      write_file("f", (const unsigned char*)"xyz", 3);
      ST(zix_create_symlink("f", "l"));
      char target[64]; const ssize_t tl = readlink("l", target, sizeof(target));
      res[k++] = (tl == 1 && target[0] == 'f' && !lstat("l", &sb) && S_ISLNK(sb.st_mode)) ? 'l' : '?';
      ST(zix_create_symlink("f", "l"));                                 // EXISTS
      ST(zix_create_directory_symlink("d", "dl")); res[k++] = (!lstat("dl", &sb) && S_ISLNK(sb.st_mode) && !stat("dl", &sb2) && S_ISDIR(sb2.st_mode)) ? 'l' : '?';
      ST(zix_create_hard_link("f", "h")); res[k++] = (!stat("f", &sb) && !stat("h", &sb2) && sb.st_ino == sb2.st_ino && sb.st_nlink == 2) ? 'h' : '?';
      ST(zix_create_hard_link("missing", "h2"));                        // NOT_FOUND
      ST(zix_remove("h")); res[k++] = lstat("h", &sb) ? '-' : '!';
      ST(zix_remove("h"));                                              // NOT_FOUND
      ST(zix_remove("e")); res[k++] = lstat("e", &sb) ? '-' : '!';       // an empty directory can be removed
      mkdir("d/sub", 0755);
      ST(zix_remove("d")); res[k++] = lstat("d", &sb) ? '!' : 'd';       // a directory that is not empty can not
      ST(zix_remove("l")); res[k++] = (lstat("l", &sb) && !lstat("f", &sb2)) ? '-' : '!';   // removes the link, not its target
      res[k] = 0;
      printf("fsops=%s fds=%d\n", res, count_fds() == fds0);
    } else if (!strcmp(tok[0], "feqsys")) {
      // a real file that reports a size LARGER than its content: a sysfs attribute (st_size 4096, a few bytes) against a copy
      FILE* pv = fopen("/sys/devices/system/cpu/online", "rb");
      static unsigned char sbuf[8192];
      const size_t got = pv ? fread(sbuf, 1, sizeof(sbuf), pv) : 0;
      if (pv) fclose(pv);
      struct stat ss;
      if (!got || stat("/sys/devices/system/cpu/online", &ss) || (size_t)ss.st_size == got) { printf("eq=11 fds=1 (no over-reporting sysfs file here)\n"); continue; }
      write_file("A", sbuf, got);
      const bool r1 = zix_file_equals(&va.base, "/sys/devices/system/cpu/online", "A"), r2 = zix_file_equals(&va.base, "A", "/sys/devices/system/cpu/online");
      printf("eq=%d%d fds=%d\n", r1, r2, count_fds() == fds0);
    } else if (!strcmp(tok[0], "feqino") && n == 6) {
      // feqino <devA> <inoA> <devB> <inoB> <same-content 0|1>: two different files whose fstat results carry the given
      // device (-1 = the real one) and inode numbers
      const int same_content = atoi(tok[5]);
      write_file("A", (const unsigned char*)"aaaa", 4);
      write_file("B", (const unsigned char*)(same_content ? "aaaa" : "aaab"), 4);
      fake_dev[0] = atol(tok[1]); fake_ino[0] = atol(tok[2]); fake_dev[1] = atol(tok[3]); fake_ino[1] = atol(tok[4]);
      fake_stat = 1;
      const bool r = zix_file_equals(&va.base, "A", "B");
      fake_stat = 0;
      printf("eq=%d fds=%d\n", r, count_fds() == fds0);
    } else if (!strcmp(tok[0], "feqmissing")) {
      write_file("A", (const unsigned char*)"abc", 3);
      const bool r1 = zix_file_equals(&va.base, "A", "nope"), r2 = zix_file_equals(&va.base, "nope", "A"),
                 r3 = zix_file_equals(&va.base, "nope", "nada");
      printf("eq=%d%d%d fds=%d\n", r1, r2, r3, count_fds() == fds0);
    } else if (!strcmp(tok[0], "ftype") && n == 2) {
      const char* k = tok[1];
      const char* p = "obj";
      if (!strcmp(k, "reg")) write_file("obj", (const unsigned char*)"x", 1);
      else if (!strcmp(k, "dir")) mkdir("obj", 0755);
      else if (!strcmp(k, "fifo")) mkfifo("obj", 0644);
      else if (!strcmp(k, "lnkreg")) { write_file("t", (const unsigned char*)"x", 1); if (symlink("t", "obj")) {} }
      else if (!strcmp(k, "lnkdir")) { mkdir("t", 0755); if (symlink("t", "obj")) {} }
      else if (!strcmp(k, "dangling")) { if (symlink("nowhere", "obj")) {} }
      else if (!strcmp(k, "chr")) p = "/dev/null";
      else if (!strcmp(k, "sock")) {
        const int s = socket(AF_UNIX, SOCK_STREAM, 0);
        struct sockaddr_un ad; memset(&ad, 0, sizeof(ad)); ad.sun_family = AF_UNIX; strcpy(ad.sun_path, "obj");
        if (bind(s, (struct sockaddr*)&ad, sizeof(ad))) {}
        close(s);
      }
      const int fdsk = count_fds();
      const ZixFileType ft = zix_file_type(p), lt = zix_symlink_type(p);
      printf("ft=%d lt=%d", (int)ft, (int)lt);
      struct stat sb, lb;
      const int rs = stat(p, &sb), rl = lstat(p, &lb);
      printf(" | stat=%d:%o lstat=%d:%o fds=%d\n", rs, rs ? 0 : (unsigned)(sb.st_mode & S_IFMT), rl, rl ? 0 : (unsigned)(lb.st_mode & S_IFMT), count_fds() == fdsk);
    } else if (!strcmp(tok[0], "fsize") && n == 2) {
      if (strcmp(tok[1], "missing")) {
        const size_t k = strtoul(tok[1], NULL, 10);
        unsigned char* d = pattern(k);
        write_file("obj", d, k);
        free(d);
      }
      printf("size=%lld fds=%d\n", (long long)zix_file_size("obj"), count_fds() == fds0);
    } else if (!strcmp(tok[0], "canon")) {
      int bar = 0;
      setup(n, tok, 1, &bar);
      if (bar + 1 >= n) { puts("bad-op"); continue; }
      char* path = expand(tok[bar + 1]);
      char* mine = zix_canonical_path(&va.base, path);
      char  want[PATH_MAX];
      char* w = realpath(path, want);
      if ((mine == NULL) != (w == NULL) || (mine && strcmp(mine, w))) printf("canon=DIFFERS SPEC-FAIL:canonical-path-differs-from-realpath");
      else printf("canon=ok");
      // the result with the scratch directory written as /S (the model's name for it)
      {
        char sreal[PATH_MAX];
        const char* sr = realpath(scratch, sreal) ? sreal : scratch;
        const size_t sl = strlen(sr);
        if (!mine) printf(" path=NULL");
        else if (!strncmp(mine, sr, sl) && (mine[sl] == '/' || !mine[sl])) printf(" path=/S%s", mine + sl);
        else printf(" path=%s", mine);
      }
      printf(" fds=%d\n", count_fds() == fds0);
      zix_free(&va.base, mine);
      free(path);
    } else if (!strcmp(tok[0], "foreach")) {
      mkdir("D", 0755);
      for (int i = 1; i < n; ++i) {
        char p[256];
        snprintf(p, sizeof(p), "D/%s", tok[i] + 2);
        if (tok[i][0] == 'd') mkdir(p, 0755); else write_file(p, (const unsigned char*)"x", 1);
      }
      n_seen = 0; foreach_bad = 0; expect_dir = "D";
      zix_dir_for_each("D", &n_seen, visit);
      zix_dir_for_each("D/none", &n_seen, visit);   // a missing directory visits nothing
      qsort(seen, (size_t)n_seen, sizeof(char*), cmp_str);
      printf("names=[");
      for (int i = 0; i < n_seen; ++i) { printf("%s%s", i ? " " : "", seen[i]); free(seen[i]); }
      printf("]");
      if (foreach_bad) printf(" SPEC-FAIL:callback-arguments");
      printf(" fds=%d\n", count_fds() == fds0);
    } else {
      puts("bad-op");
    }
    if (v_alloc_outstanding(&va) || va.n_errors) { puts("ALLOC-DISCIPLINE-ERROR"); v_alloc_reset(&va); }
  }
  if (chdir("/")) {}
  nftw(scratch, rm_cb, 32, FTW_DEPTH | FTW_PHYS);
  return 0;
}
