// C16 harness: zix_expand_environment_strings under a scripted environment
#include "common.h"

#include <zix/environment.h>

#include <signal.h>
#include <unistd.h>

extern char** environ;

static char*  env_store[64];
static char** saved_environ;

static void
on_alarm(int sig)
{
  (void)sig;
  static const char msg[] = "out=DIVERGES (CPU watchdog: call did not return)\n";
  fflush(stdout);
  if (write(1, msg, sizeof(msg) - 1)) {}
  _exit(3);
}

int
main(int argc, char** argv)
{
  FILE* in = argc > 1 ? fopen(argv[1], "r") : stdin;
  char* tok[V_MAX_TOK];
  int   n = 0;
  VAlloc va;
  v_alloc_init(&va);
  va.logging = false;
  v_setup_io();
  saved_environ = environ;
  signal(SIGALRM, on_alarm);
  while ((n = v_next(in, tok)) >= 0) {
    if (v_marker(n, tok)) {
      continue;
    }
    if (!strcmp(tok[0], "env")) {
      for (int i = 0; env_store[i]; ++i) {
        free(env_store[i]);
        env_store[i] = NULL;
      }
      for (int i = 1; i < n && i < 63; ++i) {
        size_t len = 0;
        env_store[i - 1] = (char*)v_unhex(tok[i], &len, true);
      }
      environ = env_store;
      puts("env");
    } else if (!strcmp(tok[0], "envnull")) {
      environ = NULL;
      puts("env");
    } else if (!strcmp(tok[0], "expand") && n == 2) {
      size_t len = 0;
      char*  s   = (char*)v_unhex(tok[1], &len, true);
      alarm(10);
      char* r = zix_expand_environment_strings(&va.base, s);
      alarm(0);
      if (r) {
        fputs("out=", stdout);
        v_puthex(stdout, r, strlen(r));
        fputc('\n', stdout);
        zix_free(&va.base, r);
      } else {
        puts("out=NULL");
      }
      if (v_alloc_outstanding(&va) || va.n_errors) {
        puts("ALLOC-DISCIPLINE-ERROR");
        v_alloc_reset(&va);
      }
      free(s);
    } else if (!strcmp(tok[0], "expanda") && n == 3) {
      // expanda <refused request indexes, comma separated, or -> <string>: result and the allocator's event log
      size_t len = 0;
      char*  s   = (char*)v_unhex(tok[2], &len, true);
      v_alloc_reset(&va);
      va.logging = true;
      if (strcmp(tok[1], "-")) {
        for (const char* p = tok[1]; *p;) {
          const unsigned long k = strtoul(p, (char**)&p, 10);
          if (k < 64) va.fail_bits |= 1ULL << k;
          if (*p == ',') ++p;
        }
      }
      alarm(10);
      char* r = zix_expand_environment_strings(&va.base, s);
      alarm(0);
      fputs("out=", stdout);
      if (r) v_puthex(stdout, r, strlen(r)); else fputs("NULL", stdout);
      const long outstanding = v_alloc_outstanding(&va);
      if (outstanding != (r ? 1 : 0) || va.n_errors) printf(" SPEC-FAIL:%ld-blocks-outstanding-%ld-discipline-errors", outstanding, va.n_errors);
      fputs(" |", stdout);
      v_alloc_put_log(&va, stdout);
      fputc('\n', stdout);
      va.logging = false;
      va.fail_bits = 0;
      if (r) zix_free(&va.base, r);
      v_alloc_reset(&va);
      free(s);
    } else {
      puts("bad-op");
    }
  }
  environ = saved_environ;
  return 0;
}
