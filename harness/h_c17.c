// C17 harness: zix_sem_* over scripted kernel results (linker --wrap of sem_wait, sem_trywait,
// sem_timedwait, clock_gettime as called from sem_posix.c)
#include "common.h"

#include <zix/sem.h>

#include <errno.h>
#include <time.h>

typedef struct {
  int ok;
  int err;
} Outcome;

static Outcome         script[64];
static int             n_script, pos, calls;
static Outcome         clock_outcome;
static struct timespec now_ts;
static struct timespec seen_abstime;
static int             saw_abstime;
static int             blocking_calls, nonblocking_calls, clock_id_seen = -1;

static int
name_errno(const char* s)
{
  if (!strcmp(s, "EINTR")) return EINTR;
  if (!strcmp(s, "EAGAIN")) return EAGAIN;
  if (!strcmp(s, "ETIMEDOUT")) return ETIMEDOUT;
  if (!strcmp(s, "EINVAL")) return EINVAL;
  if (!strcmp(s, "ENOMEM")) return ENOMEM;
  if (!strcmp(s, "EPERM")) return EPERM;
  if (!strcmp(s, "EOVERFLOW")) return EOVERFLOW;
  if (!strcmp(s, "EDEADLK")) return EDEADLK;
  return atoi(s);
}

static int
next_outcome(void)
{
  ++calls;
  if (pos >= n_script) {
    return 0;
  }
  const Outcome o = script[pos++];
  if (o.ok) {
    return 0;
  }
  errno = o.err;
  return -1;
}

int __wrap_sem_post(sem_t* s);
int __wrap_sem_init(sem_t* s, int pshared, unsigned value);
int __wrap_sem_destroy(sem_t* s);
static int      seen_pshared = -1;
static unsigned seen_value;
int __wrap_sem_post(sem_t* s) { (void)s; return next_outcome(); }
int __wrap_sem_init(sem_t* s, int pshared, unsigned value) { (void)s; seen_pshared = pshared; seen_value = value; return next_outcome(); }
int __wrap_sem_destroy(sem_t* s) { (void)s; return next_outcome(); }
int __wrap_sem_wait(sem_t* s);
int __wrap_sem_trywait(sem_t* s);
int __wrap_sem_timedwait(sem_t* s, const struct timespec* t);
int __wrap_clock_gettime(clockid_t id, struct timespec* ts);

int
__wrap_sem_wait(sem_t* s)
{
  (void)s;
  ++blocking_calls;
  return next_outcome();
}

int
__wrap_sem_trywait(sem_t* s)
{
  (void)s;
  ++nonblocking_calls;
  return next_outcome();
}

int
__wrap_sem_timedwait(sem_t* s, const struct timespec* t)
{
  (void)s;
  ++blocking_calls;
  seen_abstime = *t;
  saw_abstime  = 1;
  return next_outcome();
}

int
__wrap_clock_gettime(clockid_t id, struct timespec* ts)
{
  clock_id_seen = (int)id;
  if (!clock_outcome.ok) {
    errno = clock_outcome.err;
    return -1;
  }
  *ts = now_ts;
  return 0;
}

static void
load(int n, char** tok, int from)
{
  n_script = 0;
  pos = calls = blocking_calls = nonblocking_calls = 0;
  saw_abstime = 0;
  for (int i = from; i < n && n_script < 64; ++i) {
    Outcome o = {!strcmp(tok[i], "ok"), 0};
    if (!o.ok) {
      o.err = name_errno(tok[i]);
    }
    script[n_script++] = o;
  }
}

int
main(int argc, char** argv)
{
  FILE* in = argc > 1 ? fopen(argv[1], "r") : stdin;
  char* tok[V_MAX_TOK];
  int   n = 0;
  ZixSem sem;
  zix_sem_init(&sem, 0);
  v_setup_io();
  v_watchdog(20);
  while ((n = v_next(in, tok)) >= 0) {
    if (v_marker(n, tok)) {
      continue;
    }
    if (!strcmp(tok[0], "wait")) {
      load(n, tok, 1);
      errno = V_ENTRY_ERRNO;
      const ZixStatus st = zix_sem_wait(&sem);
      printf("st=%d calls=%d%s\n", (int)st, calls, nonblocking_calls ? " SPEC-FAIL:wait-used-nonblocking-call" : "");
    } else if (!strcmp(tok[0], "post") && n == 2) {
      load(n, tok, 1);
      const ZixStatus st = zix_sem_post(&sem);
      printf("st=%d calls=%d\n", (int)st, calls);
    } else if (!strcmp(tok[0], "destroy") && n == 2) {
      load(n, tok, 1);
      const ZixStatus st = zix_sem_destroy(&sem);
      printf("st=%d calls=%d\n", (int)st, calls);
    } else if (!strcmp(tok[0], "init") && n == 3) {
      load(n, tok, 2);
      ZixSem other;
      seen_pshared = -1;
      const ZixStatus st = zix_sem_init(&other, (unsigned)strtoul(tok[1], NULL, 10));
      printf("st=%d calls=%d pshared=%d value=%u\n", (int)st, calls, seen_pshared, seen_value);
    } else if (!strcmp(tok[0], "try")) {
      load(n, tok, 1);
      errno = V_ENTRY_ERRNO;
      const ZixStatus st = zix_sem_try_wait(&sem);
      printf("st=%d calls=%d%s\n", (int)st, calls, blocking_calls ? " SPEC-FAIL:try_wait-used-a-blocking-call" : "");
    } else if (!strcmp(tok[0], "timed") && n >= 6) {
      now_ts.tv_sec  = (time_t)strtoll(tok[1], NULL, 10);
      now_ts.tv_nsec = strtol(tok[2], NULL, 10);
      const uint32_t sec = (uint32_t)strtoul(tok[3], NULL, 10), nsec = (uint32_t)strtoul(tok[4], NULL, 10);
      clock_outcome.ok  = !strcmp(tok[5], "ok");
      clock_outcome.err = clock_outcome.ok ? 0 : name_errno(tok[5]);
      load(n, tok, 6);
      errno = V_ENTRY_ERRNO;
      const ZixStatus st = zix_sem_timed_wait(&sem, sec, nsec);
      printf("st=%d calls=%d", (int)st, calls);
      if (saw_abstime) {
        printf(" abstime=%lld,%ld", (long long)seen_abstime.tv_sec, seen_abstime.tv_nsec);
      } else {
        printf(" abstime=none");
      }
      if (clock_outcome.ok && clock_id_seen != CLOCK_REALTIME) {
        printf(" SPEC-FAIL:deadline-not-on-CLOCK_REALTIME");
      }
      fputc('\n', stdout);
    } else {
      puts("bad-op");
    }
  }
  return 0;
}
