// C17 stress harness (support for the scripted correspondence, not a proof): the real kernel semaphore under
// real threads and real signals.  Each line runs one experiment and prints counters that must all be zero.
//   stress <init> <posters> <waiters> <units-per-thread> <signals 0|1> <seed>
//   trycount <count>            sequential: try_wait succeeds exactly <count> times, then UNAVAILABLE, never blocks
//   timeout <sec> <nsec> <signals 0|1>   a timed wait on an empty semaphore returns TIMEOUT, never early
#include "common.h"

#include <zix/sem.h>

#include <errno.h>
#include <pthread.h>
#include <signal.h>
#include <stdatomic.h>
#include <time.h>
#include <unistd.h>

static ZixSem       sem;
static atomic_long  posts_begun, waits_done, errors, overdraw;
static long         init_value;
static atomic_int   running;
static int          units, post_units, wait_units;
static unsigned     seed0;

static void
on_signal(int s)
{
  (void)s;
}

// Watchdog: a lost wake-up shows as waiters that make no progress.  Slowness under load is not an error: the alarm
// re-arms itself as long as the number of completed waits keeps growing.
static long watchdog_last = -1;

static void
on_alarm(int s)
{
  (void)s;
  const long now = atomic_load(&waits_done);
  if (now != watchdog_last) {
    watchdog_last = now;
    alarm(60);
    return;
  }
  static const char msg[] = "stress STUCK: no wait completed for 60 s (lost wake-up?)\n";
  if (write(1, msg, sizeof(msg) - 1)) {}
  _exit(3);
}

static void*
poster(void* arg)
{
  unsigned rs = seed0 + (unsigned)(size_t)arg * 7919U;
  for (int i = 0; i < post_units; ++i) {
    atomic_fetch_add(&posts_begun, 1);
    if (zix_sem_post(&sem) != ZIX_STATUS_SUCCESS) atomic_fetch_add(&errors, 1);
    if (rand_r(&rs) % 8 == 0) sched_yield();
  }
  return NULL;
}

static void*
waiter(void* arg)
{
  const unsigned kind = (unsigned)(size_t)arg % 3U;
  for (int i = 0; i < wait_units; ++i) {
    ZixStatus st = ZIX_STATUS_ERROR;
    if (kind == 0) {
      st = zix_sem_wait(&sem);   // must resume after a signal, never fail
      if (st != ZIX_STATUS_SUCCESS) atomic_fetch_add(&errors, 1);
    } else if (kind == 1) {
      while ((st = zix_sem_try_wait(&sem)) != ZIX_STATUS_SUCCESS) {
        if (st != ZIX_STATUS_UNAVAILABLE) { atomic_fetch_add(&errors, 1); break; }
        sched_yield();
      }
    } else {
      while ((st = zix_sem_timed_wait(&sem, 0, 20000000U)) != ZIX_STATUS_SUCCESS) {
        if (st != ZIX_STATUS_TIMEOUT) { atomic_fetch_add(&errors, 1); break; }
      }
    }
    if (st == ZIX_STATUS_SUCCESS) {
      const long done = atomic_fetch_add(&waits_done, 1) + 1;
      // posts_begun is read after the wait succeeded, so it is at least the number begun when it succeeded
      if (done > init_value + atomic_load(&posts_begun)) atomic_fetch_add(&overdraw, 1);
    }
  }
  return NULL;
}

typedef struct {
  pthread_t* threads;
  int        n;
} Targets;

static void*
signaller(void* arg)
{
  Targets* t = (Targets*)arg;
  unsigned rs = seed0 ^ 0x5bd1e995U;
  while (atomic_load(&running)) {
    pthread_kill(t->threads[rand_r(&rs) % (unsigned)t->n], SIGUSR1);
    usleep(200);
  }
  return NULL;
}

static double
now_of(clockid_t id)
{
  struct timespec ts;
  clock_gettime(id, &ts);
  return (double)ts.tv_sec + (double)ts.tv_nsec / 1e9;
}

static pthread_t main_thread;

static void*
poker(void* arg)
{
  (void)arg;
  while (atomic_load(&running)) {
    pthread_kill(main_thread, SIGUSR1);
    usleep(3000);
  }
  return NULL;
}

int
main(int argc, char** argv)
{
  FILE* in = argc > 1 ? fopen(argv[1], "r") : stdin;
  char* tok[V_MAX_TOK];
  int   n = 0;
  v_setup_io();
  struct sigaction sa;
  memset(&sa, 0, sizeof(sa));
  sa.sa_handler = on_signal;   // no SA_RESTART: the system call returns EINTR
  sigaction(SIGUSR1, &sa, NULL);
  struct sigaction wd;
  memset(&wd, 0, sizeof(wd));
  wd.sa_handler = on_alarm;
  wd.sa_flags = SA_RESTART;
  sigaction(SIGALRM, &wd, NULL);
  main_thread = pthread_self();
  while ((n = v_next(in, tok)) >= 0) {
    if (v_marker(n, tok)) continue;
    if (!strcmp(tok[0], "stress") && n == 7) {
      init_value = atol(tok[1]);
      const int np = atoi(tok[2]), nw = atoi(tok[3]);
      units = atoi(tok[4]);
      const int sig = atoi(tok[5]);
      seed0 = (unsigned)atol(tok[6]);
      // total waits = init + total posts, so every waiter must finish: a lost wake-up shows as a hang (watchdog)
      if (np < 1 || nw < 1 || np > 64 || nw > 64 || (init_value + (long)np * units) % nw) { puts("bad-op"); continue; }
      const long per_waiter = (init_value + (long)np * units) / nw;
      atomic_store(&posts_begun, 0); atomic_store(&waits_done, 0); atomic_store(&errors, 0); atomic_store(&overdraw, 0);
      if (zix_sem_init(&sem, (unsigned)init_value) != ZIX_STATUS_SUCCESS) { puts("stress init-failed"); continue; }
      pthread_t th[64], ps[64], sg;
      post_units = units;
      wait_units = (int)per_waiter;
      watchdog_last = -1;
      alarm(60);
      atomic_store(&running, 1);
      for (int i = 0; i < nw; ++i) pthread_create(&th[i], NULL, waiter, (void*)(size_t)i);
      Targets t = {th, nw};
      if (sig) pthread_create(&sg, NULL, signaller, &t);
      usleep(2000);   // let the waiters block first
      for (int i = 0; i < np; ++i) pthread_create(&ps[i], NULL, poster, (void*)(size_t)(1000 + i));
      for (int i = 0; i < np; ++i) pthread_join(ps[i], NULL);
      // stop the signaller before any waiter is joined: pthread_kill on a joined thread is undefined
      atomic_store(&running, 0);
      if (sig) pthread_join(sg, NULL);
      for (int i = 0; i < nw; ++i) pthread_join(th[i], NULL);
      alarm(0);
      const ZixStatus extra = zix_sem_try_wait(&sem);   // everything posted was consumed
      printf("stress errors=%ld overdraw=%ld waits=%ld expected=%ld leftover=%d\n", atomic_load(&errors), atomic_load(&overdraw),
             atomic_load(&waits_done), init_value + atomic_load(&posts_begun), extra == ZIX_STATUS_UNAVAILABLE ? 0 : 1);
      zix_sem_destroy(&sem);
    } else if (!strcmp(tok[0], "trycount") && n == 2) {
      const long c = atol(tok[1]);
      zix_sem_init(&sem, (unsigned)c);
      long ok = 0;
      ZixStatus st;
      alarm(30);
      while ((st = zix_sem_try_wait(&sem)) == ZIX_STATUS_SUCCESS && ok <= c) ++ok;
      alarm(0);
      printf("trycount ok=%ld then=%s\n", ok, st == ZIX_STATUS_UNAVAILABLE ? "UNAVAILABLE" : "OTHER");
      zix_sem_destroy(&sem);
    } else if (!strcmp(tok[0], "timeout") && n == 4) {
      const uint32_t s = (uint32_t)strtoul(tok[1], NULL, 10), ns = (uint32_t)strtoul(tok[2], NULL, 10);
      const int      sig = atoi(tok[3]);
      zix_sem_init(&sem, 0);
      pthread_t pk;
      atomic_store(&running, 1);
      if (sig) pthread_create(&pk, NULL, poker, NULL);
      alarm(60);
      const double    r0 = now_of(CLOCK_REALTIME), m0 = now_of(CLOCK_MONOTONIC);
      const ZixStatus st = zix_sem_timed_wait(&sem, s, ns);
      const double    r1 = now_of(CLOCK_REALTIME), m1 = now_of(CLOCK_MONOTONIC);
      alarm(0);
      atomic_store(&running, 0);
      if (sig) pthread_join(pk, NULL);
      const double want = (double)s + (double)ns / 1e9;
      // never early: allow 1 ms for the clock read that precedes the call inside zix_sem_timed_wait
      const int early = (r1 - r0) < want - 0.001 && (m1 - m0) < want - 0.001;
      printf("timeout st=%s early=%d\n", st == ZIX_STATUS_TIMEOUT ? "TIMEOUT" : st == ZIX_STATUS_SUCCESS ? "SUCCESS" : "OTHER", early);
      zix_sem_destroy(&sem);
    } else {
      puts("bad-op");
    }
  }
  return 0;
}
