// C18 harness: zix_thread_create / zix_thread_join — pthread calls interposed (linker --wrap) to see
// the attribute that reaches pthread_create, plus real threads that measure their own stack.
#define _GNU_SOURCE
#include "common.h"

#include <zix/thread.h>

#include <errno.h>
#include <limits.h>
#include <pthread.h>

static char   calls[1024];
static size_t calls_len;
static int    forced_ret;   // 0 = really create

static void
logc(const char* fmt, ...)
{
  va_list ap;
  va_start(ap, fmt);
  calls_len += (size_t)vsnprintf(calls + calls_len, sizeof(calls) - calls_len, fmt, ap);
  va_end(ap);
}

int __real_pthread_create(pthread_t* t, const pthread_attr_t* a, void* (*f)(void*), void* arg);
int __real_pthread_attr_init(pthread_attr_t* a);
int __real_pthread_attr_setstacksize(pthread_attr_t* a, size_t n);
int __real_pthread_attr_destroy(pthread_attr_t* a);
int __wrap_pthread_create(pthread_t* t, const pthread_attr_t* a, void* (*f)(void*), void* arg);
int __wrap_pthread_attr_init(pthread_attr_t* a);
int __wrap_pthread_attr_setstacksize(pthread_attr_t* a, size_t n);
int __wrap_pthread_attr_destroy(pthread_attr_t* a);

int
__wrap_pthread_attr_init(pthread_attr_t* a)
{
  logc("%sattr_init", calls_len ? " " : "");
  return __real_pthread_attr_init(a);
}

int
__wrap_pthread_attr_setstacksize(pthread_attr_t* a, size_t n)
{
  logc("%ssetstacksize:%zu", calls_len ? " " : "", n);
  return __real_pthread_attr_setstacksize(a, n);
}

int
__wrap_pthread_attr_destroy(pthread_attr_t* a)
{
  logc("%sattr_destroy", calls_len ? " " : "");
  return __real_pthread_attr_destroy(a);
}

int
__wrap_pthread_create(pthread_t* t, const pthread_attr_t* a, void* (*f)(void*), void* arg)
{
  if (a) {
    size_t n = 0;
    pthread_attr_getstacksize(a, &n);
    logc("%screate:attr=%zu", calls_len ? " " : "", n);
  } else {
    logc("%screate:attr=NULL", calls_len ? " " : "");
  }
  if (forced_ret) return forced_ret;
  return __real_pthread_create(t, a, f, arg);
}

typedef struct {
  int    id;
  size_t want;
  int    ran;
  size_t stack_seen;
  int    deep_ok;
  long   written;
  int    returned;
} Job;

static void*
body(void* arg)
{
  Job* j = (Job*)arg;
  __atomic_add_fetch(&j->ran, 1, __ATOMIC_SEQ_CST);
  pthread_attr_t at;
  if (!pthread_getattr_np(pthread_self(), &at)) {
    void*  addr = NULL;
    size_t sz   = 0;
    pthread_attr_getstack(&at, &addr, &sz);
    j->stack_seen = sz;
    pthread_attr_destroy(&at);
  }
  // touch the requested depth (minus a margin for guard pages and what is already used)
  // (only if the stack really is that large: otherwise report stack-ok=0 instead of crashing)
  const size_t depth = (j->stack_seen >= j->want && j->want > 65536) ? j->want - 65536 : 0;
  volatile char* p = (volatile char*)alloca(depth + 1);
  for (size_t i = 0; i < depth; i += 4096) p[i] = 1;
  j->deep_ok = 1;
  j->written = 1000 + j->id;     // plain write: must be visible to the joiner
  j->returned = 1;
  return NULL;
}

static void* noop(void* a) { return a; }

int
main(int argc, char** argv)
{
  FILE* in = argc > 1 ? fopen(argv[1], "r") : stdin;
  char* tok[V_MAX_TOK];
  int   n = 0;
  v_setup_io();
  while ((n = v_next(in, tok)) >= 0) {
    if (v_marker(n, tok)) continue;
    calls_len = 0; calls[0] = 0;
    if (!strcmp(tok[0], "create") && n == 3) {
      const size_t size = strtoul(tok[1], NULL, 10);
      forced_ret = !strcmp(tok[2], "ok") ? 0 : !strcmp(tok[2], "EAGAIN") ? EAGAIN : !strcmp(tok[2], "EINVAL") ? EINVAL : !strcmp(tok[2], "EPERM") ? EPERM : !strcmp(tok[2], "ENOMEM") ? ENOMEM : atoi(tok[2]);
      ZixThread t;
      const ZixStatus st = zix_thread_create(&t, size, noop, NULL);
      if (!forced_ret && st == ZIX_STATUS_SUCCESS) zix_thread_join(t);
      forced_ret = 0;
      printf("st=%d | calls=[%s]\n", (int)st, calls);
    } else if (!strcmp(tok[0], "run") && n == 3) {
      const size_t size = strtoul(tok[1], NULL, 10);
      const int    k    = atoi(tok[2]);
      Job*       jobs = (Job*)calloc((size_t)k, sizeof(Job));
      ZixThread* ts   = (ZixThread*)calloc((size_t)k, sizeof(ZixThread));
      int st_all = 0, once = 1, argok = 1, stackok = 1, joined = 1, visible = 1;
      for (int i = 0; i < k; ++i) {
        jobs[i].id = i; jobs[i].want = size;
        const ZixStatus st = zix_thread_create(&ts[i], size, body, &jobs[i]);
        if (st) st_all = (int)st;
      }
      for (int i = 0; i < k; ++i) {
        if (zix_thread_join(ts[i])) st_all = 99;
        if (!jobs[i].returned) joined = 0;          // join returned before the function did
        if (jobs[i].written != 1000 + i) visible = 0;
      }
      int ran = 0;
      for (int i = 0; i < k; ++i) {
        ran += jobs[i].ran ? 1 : 0;
        if (jobs[i].ran != 1) once = 0;
        if (!jobs[i].deep_ok) argok = 0;
        if (jobs[i].stack_seen < size) stackok = 0;
      }
      printf("st=%d ran=%d each-once=%d arg-ok=%d stack-ok=%d joined-after-return=%d writes-visible=%d\n", st_all, ran, once, argok, stackok, joined, visible);
      free(jobs); free(ts);
    } else {
      puts("bad-op");
    }
  }
  return 0;
}
