// C19 harness: zix_file_lock / zix_file_unlock — flock interposed (linker --wrap) to see the flags
// and inject results; independent handles on one file; forked processes contending on a counter.
#define _GNU_SOURCE
#include "common.h"

#include <zix/filesystem.h>

#include <signal.h>
#include <sys/resource.h>

#include <errno.h>
#include <sys/file.h>
#include <sys/mman.h>
#include <sys/wait.h>
#include <time.h>
#include <unistd.h>

static int scripted, forced_errno, forced_times, seen_flags = -1, n_calls;

int __real_flock(int fd, int op);
int __wrap_flock(int fd, int op);

int
__wrap_flock(int fd, int op)
{
  seen_flags = op;
  ++n_calls;
  if (scripted) {
    // the scripted error is returned by the first `forced_times` calls (a signal interrupts a call, not all later ones)
    if (forced_errno && n_calls <= forced_times) { errno = forced_errno; return -1; }
    return 0;
  }
  return __real_flock(fd, op);
}

static int
errno_of(const char* s)
{
  return !strcmp(s, "EAGAIN") || !strcmp(s, "EWOULDBLOCK") ? EWOULDBLOCK : !strcmp(s, "EINTR") ? EINTR : !strcmp(s, "EBADF") ? EBADF
         : !strcmp(s, "ENOLCK") ? ENOLCK : !strcmp(s, "EINVAL") ? EINVAL : atoi(s);
}

static void noop_handler(int sig) { (void)sig; }

static double
now(void)
{
  struct timespec ts;
  clock_gettime(CLOCK_MONOTONIC, &ts);
  return (double)ts.tv_sec + (double)ts.tv_nsec * 1e-9;
}

#define MAXH 8
static FILE* handles[MAXH];
static int   holds[MAXH];

static void
put_holders(void)
{
  printf(" | holders=[");
  bool first = true;
  for (int i = 0; i < MAXH; ++i) if (holds[i]) { printf("%s%d", first ? "" : ", ", i); first = false; }
  printf("]\n");
}

int
main(int argc, char** argv)
{
  if (argc < 3) return 2;
  FILE* in = fopen(argv[1], "r");
  char  path[4096];
  snprintf(path, sizeof(path), "%s/lockfile", argv[2]);
  FILE* mk = fopen(path, "w");
  fclose(mk);
  char* tok[V_MAX_TOK];
  int   n = 0;
  v_setup_io();
  v_watchdog(90);   // a lock call that never returns (a BLOCK request nobody will satisfy) is reported, not waited for
  while ((n = v_next(in, tok)) >= 0) {
    if (v_marker(n, tok)) continue;
    if (!strcmp(tok[0], "flags") && (n == 4 || n == 5)) {
      FILE* f = fopen(path, "r+");
      const ZixFileLockMode m = !strcmp(tok[2], "block") ? ZIX_FILE_LOCK_BLOCK : ZIX_FILE_LOCK_TRY;
      scripted = 1; forced_errno = strcmp(tok[3], "ok") ? errno_of(tok[3]) : 0; seen_flags = -1;
      forced_times = n == 5 ? atoi(tok[4]) : 1; n_calls = 0;
      alarm(10);   // a retry loop that never ends is stopped here
      const ZixStatus st = !strcmp(tok[1], "lock") ? zix_file_lock(f, m) : zix_file_unlock(f, m);
      scripted = 0;
      alarm(0);
      printf("st=%d calls=%d | flock-flags=%d\n", (int)st, n_calls, seen_flags);
      fclose(f);
    } else if (!strcmp(tok[0], "reset")) {
      for (int i = 0; i < MAXH; ++i) { if (handles[i]) fclose(handles[i]); handles[i] = NULL; holds[i] = 0; }
      puts("reset");
    } else if ((!strcmp(tok[0], "lock") || !strcmp(tok[0], "unlock")) && n == 3) {
      const int h = atoi(tok[1]) % MAXH;
      if (!handles[h]) handles[h] = fopen(path, "r+");
      const bool block = !strcmp(tok[2], "block");
      if (tok[0][0] == 'l') {
        // a BLOCK request that would wait is not issued in this single-threaded replay (the model says BLOCKED)
        bool other = false;
        for (int i = 0; i < MAXH; ++i) if (i != h && holds[i]) other = true;
        if (block && other) {
          printf("st=BLOCKED");
        } else {
          const double t0 = now();
          const ZixStatus st = zix_file_lock(handles[h], block ? ZIX_FILE_LOCK_BLOCK : ZIX_FILE_LOCK_TRY);
          if (st == ZIX_STATUS_SUCCESS) holds[h] = 1;
          printf("st=%d", (int)st);
          if (now() - t0 > 5.0) printf(" SPEC-FAIL:call-took-more-than-5s");
          if (!block && !(seen_flags & LOCK_NB)) printf(" SPEC-FAIL:TRY-without-LOCK_NB");
        }
      } else {
        const ZixStatus st = zix_file_unlock(handles[h], block ? ZIX_FILE_LOCK_BLOCK : ZIX_FILE_LOCK_TRY);
        holds[h] = 0;
        printf("st=%d", (int)st);
      }
      put_holders();
    } else if (!strcmp(tok[0], "dirtyunlock") && n == 2) {
      // The holder has written data that cannot be flushed (file size limit 0) when it unlocks: whatever the library does
      // with the stream, the lock must be released, so that a later locker on another handle succeeds.
      const ZixFileLockMode m = !strcmp(tok[1], "block") ? ZIX_FILE_LOCK_BLOCK : ZIX_FILE_LOCK_TRY;
      char dpath[4200];
      snprintf(dpath, sizeof(dpath), "%s.dirty", path);
      int pfd[2];
      if (pipe(pfd)) { puts("bad-op"); continue; }
      fflush(stdout);
      const pid_t child = fork();
      if (!child) {
        close(pfd[0]);
        FILE* f = fopen(dpath, "w+");
        int res[2] = {-1, -1};
        if (f && zix_file_lock(f, ZIX_FILE_LOCK_TRY) == ZIX_STATUS_SUCCESS) {
          fputs("data the holder wrote under the lock", f);   // stays in the stdio buffer
          struct rlimit rl = {0, 0};
          signal(SIGXFSZ, SIG_IGN);
          setrlimit(RLIMIT_FSIZE, &rl);
          res[0] = (int)zix_file_unlock(f, m);
          FILE* g = fopen(dpath, "r");
          res[1] = g ? (zix_file_lock(g, ZIX_FILE_LOCK_TRY) == ZIX_STATUS_SUCCESS) : -1;
        }
        if (write(pfd[1], res, sizeof(res)) != (ssize_t)sizeof(res)) {}
        _exit(0);   // no stdio flushing in the child
      }
      close(pfd[1]);
      int res[2] = {-2, -2};
      if (read(pfd[0], res, sizeof(res)) != (ssize_t)sizeof(res)) {}
      close(pfd[0]);
      waitpid(child, NULL, 0);
      printf("unlock-st=%d released=%d\n", res[0], res[1]);
    } else if (!strcmp(tok[0], "sigwait") && n == 2) {
      // <signals>: the parent holds the lock; a child asks in BLOCK mode and is hit by that many signals (handler
      // installed without SA_RESTART) while it waits.  It must come back only after the release, with SUCCESS.
      for (int i = 0; i < MAXH; ++i) { if (handles[i]) fclose(handles[i]); handles[i] = NULL; holds[i] = 0; }
      const int nsig = atoi(tok[1]);
      volatile long* sh = (volatile long*)mmap(NULL, 4096, PROT_READ | PROT_WRITE, MAP_SHARED | MAP_ANONYMOUS, -1, 0);
      sh[0] = 0; sh[1] = -99; sh[2] = 0; sh[3] = 0;   // released flag, waiter's status, release seen by waiter, waiter ready
      FILE* pf = fopen(path, "r+");
      zix_file_lock(pf, ZIX_FILE_LOCK_BLOCK);
      fflush(stdout);
      const pid_t waiter = fork();
      if (!waiter) {
        struct sigaction sa;
        memset(&sa, 0, sizeof(sa));
        sa.sa_handler = noop_handler;   // no SA_RESTART: flock() fails with EINTR
        sigaction(SIGUSR1, &sa, NULL);
        FILE* f = fopen(path, "r+");
        sh[3] = 1;
        alarm(20);
        const ZixStatus st = zix_file_lock(f, ZIX_FILE_LOCK_BLOCK);
        sh[2] = sh[0];
        sh[1] = (long)st;
        if (!st) zix_file_unlock(f, ZIX_FILE_LOCK_BLOCK);
        _exit(0);
      }
      while (!sh[3]) usleep(1000);
      usleep(50000);
      for (int i = 0; i < nsig; ++i) { kill(waiter, SIGUSR1); usleep(20000); }
      sh[0] = 1;
      zix_file_unlock(pf, ZIX_FILE_LOCK_BLOCK);
      waitpid(waiter, NULL, 0);
      fclose(pf);
      printf("st=%ld after-release=%ld\n", sh[1], sh[2]);
      munmap((void*)sh, 4096);
    } else if (!strcmp(tok[0], "close") && n == 2) {
      const int h = atoi(tok[1]) % MAXH;
      if (handles[h]) fclose(handles[h]);
      handles[h] = NULL; holds[h] = 0;
      printf("closed");
      put_holders();
    } else if (!strcmp(tok[0], "contend") && n == 4) {
      // <nproc> <iterations> <mode>: processes loop lock / occupancy check / unlock on one file
      for (int i = 0; i < MAXH; ++i) { if (handles[i]) fclose(handles[i]); handles[i] = NULL; holds[i] = 0; }
      const int np = atoi(tok[1]), iters = atoi(tok[2]);
      const bool block = !strcmp(tok[3], "block");
      volatile long* sh = (volatile long*)mmap(NULL, 4096, PROT_READ | PROT_WRITE, MAP_SHARED | MAP_ANONYMOUS, -1, 0);
      sh[0] = 0; sh[1] = 0; sh[2] = 0;   // occupancy, violations, acquisitions
      // blocked-until-release: the parent holds the lock while a child asks in BLOCK mode
      FILE* pf = fopen(path, "r+");
      zix_file_lock(pf, ZIX_FILE_LOCK_BLOCK);
      const pid_t waiter = fork();
      if (!waiter) {
        FILE* f = fopen(path, "r+");
        zix_file_lock(f, ZIX_FILE_LOCK_BLOCK);
        sh[4] = sh[3] ? 1 : -1;   // acquired: was the release already flagged?
        zix_file_unlock(f, ZIX_FILE_LOCK_BLOCK);
        _exit(0);
      }
      usleep(100000);
      sh[3] = 1;   // about to release
      zix_file_unlock(pf, ZIX_FILE_LOCK_BLOCK);
      waitpid(waiter, NULL, 0);
      fclose(pf);
      fflush(stdout);
      for (int p = 0; p < np; ++p) {
        if (!fork()) {
          FILE* f = fopen(path, "r+");
          for (int i = 0; i < iters; ++i) {
            ZixStatus st = zix_file_lock(f, block ? ZIX_FILE_LOCK_BLOCK : ZIX_FILE_LOCK_TRY);
            while (!block && st == ZIX_STATUS_UNAVAILABLE) { usleep(50); st = zix_file_lock(f, ZIX_FILE_LOCK_TRY); }
            if (st) { __atomic_add_fetch(&sh[1], 1000, __ATOMIC_SEQ_CST); continue; }
            if (__atomic_add_fetch(&sh[0], 1, __ATOMIC_SEQ_CST) != 1) __atomic_add_fetch(&sh[1], 1, __ATOMIC_SEQ_CST);
            __atomic_add_fetch(&sh[2], 1, __ATOMIC_SEQ_CST);
            __atomic_sub_fetch(&sh[0], 1, __ATOMIC_SEQ_CST);
            zix_file_unlock(f, block ? ZIX_FILE_LOCK_BLOCK : ZIX_FILE_LOCK_TRY);
          }
          _exit(0);
        }
      }
      while (wait(NULL) > 0) {}
      printf("violations=%ld acquired=%s blocked-until-release=%d\n", sh[1], sh[2] == (long)np * iters ? "all" : "SOME-MISSING", sh[4] == 1 ? 1 : 0);
      munmap((void*)sh, 4096);
    } else {
      puts("bad-op");
    }
  }
  return 0;
}
