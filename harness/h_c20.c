// C20 harness: zix_strerror, zix_string_view_equals, zix_string_view_copy
#include "common.h"

#include <zix/status.h>
#include <zix/string_view.h>

int
main(int argc, char** argv)
{
  FILE* in = argc > 1 ? fopen(argv[1], "r") : stdin;
  char* tok[V_MAX_TOK];
  int   n = 0;
  VAlloc va;
  v_alloc_init(&va);
  va.logging = false;
  v_setup_io();
  v_watchdog(20);
  while ((n = v_next(in, tok)) >= 0) {
    if (v_marker(n, tok)) {
      continue;
    }
    if (!strcmp(tok[0], "strerror") && n == 2) {
      const char* m = zix_strerror((ZixStatus)atoi(tok[1]));
      fputs("msg ", stdout);
      v_puthex(stdout, m, strlen(m));
      fputc('\n', stdout);
    } else if (!strcmp(tok[0], "veq") && n == 6) {
      size_t         len = 0;
      unsigned char* mem = v_unhex(tok[1], &len, false);
      const size_t   ao = strtoul(tok[2], NULL, 10), al = strtoul(tok[3], NULL, 10);
      const size_t   bo = strtoul(tok[4], NULL, 10), bl = strtoul(tok[5], NULL, 10);
      if (ao + al > len || bo + bl > len) {
        puts("bad-op");
      } else {
        const ZixStringView a = zix_substring((const char*)mem + ao, al);
        const ZixStringView b = zix_substring((const char*)mem + bo, bl);
        const bool r1 = zix_string_view_equals(a, b);
        printf("eq %d", r1 ? 1 : 0);
        // the empty view constant and the view of a C string
        const ZixStringView e = zix_empty_string();
        if (e.length || !e.data || e.data[0] || zix_string_view_equals(e, a) != (al == 0) || !zix_string_view_equals(e, zix_string("")) || zix_string(NULL).length)
          printf(" SPEC-FAIL:empty-string-view");
        // The answer is about the bytes the views designate NOW: change one byte of `a` and ask again with the very same
        // view values, then restore it and ask a third time.  (A declaration that lets the compiler reuse the first answer
        // - e.g. a "const" function attribute in the header - shows here.)
        if (al > 0) {
          mem[ao] ^= 0x01;
          const bool want2 = al == bl && !memcmp(mem + ao, mem + bo, al);
          const bool r2    = zix_string_view_equals(a, b);
          mem[ao] ^= 0x01;
          const bool r3 = zix_string_view_equals(a, b);
          if (r2 != want2) printf(" SPEC-FAIL:stale-answer-after-the-viewed-bytes-changed");
          if (r3 != r1) printf(" SPEC-FAIL:answer-changed-after-the-bytes-were-restored");
        }
        fputc('\n', stdout);
      }
      free(mem);
    } else if (!strcmp(tok[0], "vcopy") && n == 4) {
      size_t         len = 0;
      unsigned char* mem = v_unhex(tok[1], &len, false);
      const size_t   o = strtoul(tok[2], NULL, 10), l = strtoul(tok[3], NULL, 10);
      if (o + l > len) {
        puts("bad-op");
      } else {
        char* c = zix_string_view_copy(&va.base, zix_substring((const char*)mem + o, l));
        // independence: mutating the source must not change the copy
        unsigned char* snap = (unsigned char*)malloc(l + 1);
        memcpy(snap, c, l + 1);
        for (size_t i = 0; i < len; ++i) {
          mem[i] ^= 0xFF;
        }
        if (memcmp(snap, c, l + 1)) {
          fputs("copy ALIASED ", stdout);
        } else {
          fputs("copy ", stdout);
        }
        v_puthex(stdout, c, l + 1);
        fputc('\n', stdout);
        free(snap);
        zix_free(&va.base, c);
        if (v_alloc_outstanding(&va) || va.n_errors) {
          puts("ALLOC-DISCIPLINE-ERROR");
        }
      }
      free(mem);
    } else {
      puts("bad-op");
    }
  }
  return 0;
}
