// C20 harness: zix_strerror, zix_string_view_equals, zix_string_view_copy
#include "common.h"

#include <zix/status.h>
#include <zix/string_view.h>

int
main(int argc, char** argv)
{
  FILE* in = argc > 1 ? fopen(argv[1], "r") : stdin;
  char* tok[V_MAX_TOK];
  int   n = 0;
  VAlloc va;
  v_alloc_init(&va);
  va.logging = false;
  v_setup_io();
  v_watchdog(20);
  while ((n = v_next(in, tok)) >= 0) {
    if (v_marker(n, tok)) {
      continue;
    }
    if (!strcmp(tok[0], "strerror") && n == 2) {
      const char* m = zix_strerror((ZixStatus)atoi(tok[1]));
      fputs("msg ", stdout);
      v_puthex(stdout, m, strlen(m));
      fputc('\n', stdout);
    } else if (!strcmp(tok[0], "veq") && n == 6) {
      size_t         len = 0;
      unsigned char* mem = v_unhex(tok[1], &len, false);
      const size_t   ao = strtoul(tok[2], NULL, 10), al = strtoul(tok[3], NULL, 10);
      const size_t   bo = strtoul(tok[4], NULL, 10), bl = strtoul(tok[5], NULL, 10);
      if (ao + al > len || bo + bl > len) {
        puts("bad-op");
      } else {
        const ZixStringView a = zix_substring((const char*)mem + ao, al);
        const ZixStringView b = zix_substring((const char*)mem + bo, bl);
        printf("eq %d\n", zix_string_view_equals(a, b) ? 1 : 0);
      }
      free(mem);
    } else if (!strcmp(tok[0], "vcopy") && n == 4) {
      size_t         len = 0;
      unsigned char* mem = v_unhex(tok[1], &len, false);
      const size_t   o = strtoul(tok[2], NULL, 10), l = strtoul(tok[3], NULL, 10);
      if (o + l > len) {
        puts("bad-op");
      } else {
        char* c = zix_string_view_copy(&va.base, zix_substring((const char*)mem + o, l));
        // independence: mutating the source must not change the copy
        unsigned char* snap = (unsigned char*)malloc(l + 1);
        memcpy(snap, c, l + 1);
        for (size_t i = 0; i < len; ++i) {
          mem[i] ^= 0xFF;
        }
        if (memcmp(snap, c, l + 1)) {
          fputs("copy ALIASED ", stdout);
        } else {
          fputs("copy ", stdout);
        }
        v_puthex(stdout, c, l + 1);
        fputc('\n', stdout);
        free(snap);
        zix_free(&va.base, c);
        if (v_alloc_outstanding(&va) || va.n_errors) {
          puts("ALLOC-DISCIPLINE-ERROR");
        }
      }
      free(mem);
    } else {
      puts("bad-op");
    }
  }
  return 0;
}
