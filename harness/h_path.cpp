// C10/C11/C12 harness: zix_path_* against libstdc++'s std::filesystem::path (the executable stand-in
// for the C++17 model), every argument in an exact-size heap block under ASan.
extern "C" {
#include "common.h"
#include <zix/path.h>
#include <zix/string_view.h>
#include "path_iter.h"
}

#include <filesystem>
#include <string>
#include <vector>

namespace fs = std::filesystem;

static VAlloc va;

static std::string
hexs(const std::string& s)
{
  static const char d[] = "0123456789abcdef";
  if (s.empty()) return "-";
  std::string o;
  for (unsigned char c : s) { o += d[c >> 4]; o += d[c & 15]; }
  return o;
}

static std::string
view_str(ZixStringView v)
{
  return std::string(v.data, v.length);
}

// canonical element list of a path: root directory as "/", then the filenames (trailing empty element kept)
static std::string
elems(const fs::path& p)
{
  std::string o;
  for (const auto& e : p) {
    std::string s = e.string();
    if (!s.empty() && s[0] == '/') s = "/";
    o += "<" + hexs(s) + ">";
  }
  return o;
}

static void
range(const char* name, const char* base, ZixStringView v)
{
  // a view must be a slice of the input (or empty)
  if (v.length == 0) {
    printf(" %s=-", name);
  } else {
    printf(" %s=%td,%zu", name, v.data - base, v.length);
  }
}

static bool
is_normal(const std::string& s)
{
  // no '.' element unless the whole result is '.', no repeated separators, no 'name/..', no '..' directly
  // under the root, no separator after a trailing '..'
  if (s == ".") return true;
  fs::path p(s);
  std::vector<std::string> es;
  for (const auto& e : p) es.push_back(e.string());
  if (s.find("//") != std::string::npos) return false;
  for (size_t i = 0; i < es.size(); ++i) {
    if (es[i] == ".") return false;
    if (es[i] == ".." && i > 0 && es[i - 1] != ".." && es[i - 1] != "/" ) return false;   // name/..
    if (es[i] == ".." && i > 0 && es[i - 1] == "/") return false;                          // /..
  }
  if (es.size() >= 2 && es.back().empty() && es[es.size() - 2] == "..") return false;      // ../ at the end
  return true;
}

int
main(int argc, char** argv)
{
  FILE* in = argc > 1 ? fopen(argv[1], "r") : stdin;
  char* tok[V_MAX_TOK];
  int   n = 0;
  v_alloc_init(&va);
  va.logging = false;
  v_setup_io();
  v_watchdog(20);
  while ((n = v_next(in, tok)) >= 0) {
    if (v_marker(n, tok)) continue;
    if (!strcmp(tok[0], "dec") && n == 2) {
      size_t len = 0;
      char*  s   = (char*)v_unhex(tok[1], &len, true);
      const std::string str(s, len);
      const fs::path    p(str);
      ZixStringView rn = zix_path_root_name(s), rd = zix_path_root_directory(s), rp = zix_path_root_path(s),
                    rel = zix_path_relative_path(s), par = zix_path_parent_path(s), fn = zix_path_filename(s),
                    st = zix_path_stem(s), ext = zix_path_extension(s);
      printf("dec");
      range("rn", s, rn); range("rd", s, rd); range("rp", s, rp); range("rel", s, rel); range("par", s, par);
      range("fn", s, fn); range("st", s, st); range("ext", s, ext);
      const bool has[9] = {zix_path_has_root_path(s), zix_path_has_root_name(s), zix_path_has_root_directory(s), zix_path_has_relative_path(s),
                           zix_path_has_parent_path(s), zix_path_has_filename(s), zix_path_has_stem(s), zix_path_has_extension(s), zix_path_is_absolute(s)};
      printf(" has=");
      for (bool b : has) putchar(b ? '1' : '0');
      printf(" isrel=%d", zix_path_is_relative(s) ? 1 : 0);
      // --- judged against libstdc++ (the property's reference model)
      if (view_str(rn) != p.root_name().string()) printf(" SPEC-FAIL:root_name");
      if (fs::path(view_str(rd)) != p.root_directory()) printf(" SPEC-FAIL:root_directory");
      if (fs::path(view_str(rp)) != p.root_path()) printf(" SPEC-FAIL:root_path");
      if (view_str(rel) != p.relative_path().string()) printf(" SPEC-FAIL:relative_path");
      if (fs::path(view_str(par)) != p.parent_path()) printf(" SPEC-FAIL:parent_path");
      if (view_str(fn) != p.filename().string()) printf(" SPEC-FAIL:filename");
      if (view_str(st) != p.stem().string()) printf(" SPEC-FAIL:stem");
      if (view_str(ext) != p.extension().string()) printf(" SPEC-FAIL:extension");
      if (view_str(fn) != view_str(st) + view_str(ext)) printf(" SPEC-FAIL:filename-is-not-stem+extension");
      const bool stdhas[9] = {p.has_root_path(), p.has_root_name(), p.has_root_directory(), p.has_relative_path(), p.has_parent_path(),
                              p.has_filename(), p.has_stem(), p.has_extension(), p.is_absolute()};
      for (int i = 0; i < 9; ++i) if (has[i] != stdhas[i]) printf(" SPEC-FAIL:query-%d", i);
      if (zix_path_is_relative(s) != p.is_relative()) printf(" SPEC-FAIL:is_relative");
      // the same buffer edited in place and asked again: an answer may not be reused from before the edit (a declaration
      // that promises more than `pure` lets the compiler do exactly that)
      if (len) {
        const char saved = s[0], saved_last = s[len - 1];
        for (const char c : {'/', '.', 'a'}) {
          s[0] = c;
          const fs::path q(std::string(s, len));
          if (zix_path_is_absolute(s) != q.is_absolute() || zix_path_is_relative(s) != q.is_relative() ||
              zix_path_has_root_directory(s) != q.has_root_directory() || zix_path_has_root_path(s) != q.has_root_path() ||
              zix_path_has_relative_path(s) != q.has_relative_path() || zix_path_has_parent_path(s) != q.has_parent_path())
            printf(" SPEC-FAIL:stale-answer-after-editing-the-first-byte-to-%c", c);
        }
        s[0] = saved;
        for (const char c : {'/', '.', 'a'}) {
          s[len - 1] = c;
          const fs::path q(std::string(s, len));
          if (zix_path_has_filename(s) != q.has_filename() || zix_path_has_stem(s) != q.has_stem() || zix_path_has_extension(s) != q.has_extension() ||
              view_str(zix_path_filename(s)) != q.filename().string() || view_str(zix_path_extension(s)) != q.extension().string())
            printf(" SPEC-FAIL:stale-answer-after-editing-the-last-byte-to-%c", c);
        }
        s[len - 1] = saved_last;
      }
      const ZixStringView vs[8] = {rn, rd, rp, rel, par, fn, st, ext};
      for (const ZixStringView& v : vs) {
        // every view, the empty ones too, is a slice of the argument: [data, data+length) lies within [s, s+len]
        if (!v.data || v.data < s || v.data + v.length > s + len) printf(" SPEC-FAIL:view-not-a-slice");
      }
      // --- what libstdc++ says, for the cross-check of the Lean transcription of the standard
      printf("\nstd rd=%s rel=%s par=%s fn=%s st=%s ext=%s it=%s\n", hexs(p.root_directory().string() .empty() ? "" : "/").c_str(),
             hexs(p.relative_path().string()).c_str(), elems(p.parent_path()).c_str(), hexs(p.filename().string()).c_str(),
             hexs(p.stem().string()).c_str(), hexs(p.extension().string()).c_str(), elems(p).c_str());
      free(s);
    } else if (!strcmp(tok[0], "iter") && n == 2) {
      size_t len = 0;
      char*  s   = (char*)v_unhex(tok[1], &len, true);
      printf("iter");
      std::string mine;
      int guard = 0;
      for (ZixPathIter i = zix_path_begin(s); i.state != ZIX_PATH_END && guard < 1000; i = zix_path_next(s, i), ++guard) {
        printf(" %d:%zu,%zu", (int)i.state, i.range.begin, i.range.end);
        std::string e(s + i.range.begin, i.range.end - i.range.begin);
        mine += "<" + hexs(e) + ">";
      }
      if (mine != elems(fs::path(std::string(s, len)))) printf(" SPEC-FAIL:iteration-differs-from-c++17");
      putchar('\n');
      free(s);
    } else if (!strcmp(tok[0], "norm") && n == 2) {
      size_t len = 0;
      char*  s   = (char*)v_unhex(tok[1], &len, true);
      v_alloc_mark(&va);
      char*  r   = zix_path_lexically_normal(&va.base, s);
      const size_t asked = va.first_size;
      const std::string rs = r ? r : "";
      printf("norm out=%s", r ? hexs(rs).c_str() : "NULL");
      const fs::path want = fs::path(std::string(s, len)).lexically_normal();
      if (r) {
        if (fs::path(rs) != want) printf(" SPEC-FAIL:not-the-same-path-as-c++17-normal-form");
        if (!is_normal(rs)) printf(" SPEC-FAIL:result-not-in-normal-form");
        char* r2 = zix_path_lexically_normal(&va.base, r);
        if (!r2 || rs != r2) printf(" SPEC-FAIL:not-idempotent");
        zix_free(&va.base, r2);
      }
      printf(" | alloc=%zu\nstd norm=%s\n", asked, elems(want).c_str());
      zix_free(&va.base, r);
      free(s);
    } else if (!strcmp(tok[0], "join") && n == 3) {
      size_t la = 0, lb = 0;
      char* a = strcmp(tok[1], "NULL") ? (char*)v_unhex(tok[1], &la, true) : NULL;
      char* b = strcmp(tok[2], "NULL") ? (char*)v_unhex(tok[2], &lb, true) : NULL;
      v_alloc_mark(&va);
      char* r = zix_path_join(&va.base, a, b);
      const size_t asked = va.first_size;
      printf("join out=%s", r ? hexs(r).c_str() : "NULL");
      const fs::path want = fs::path(std::string(a ? a : "", la)) / fs::path(std::string(b ? b : "", lb));
      if (!r || want.string() != r) printf(" SPEC-FAIL:text-differs-from-c++17-operator/");
      printf(" | alloc=%zu\n", asked);
      zix_free(&va.base, r);
      free(a); free(b);
    } else if (!strcmp(tok[0], "rel") && n == 3) {
      size_t lp = 0, lb = 0;
      char* p = (char*)v_unhex(tok[1], &lp, true);
      char* b = (char*)v_unhex(tok[2], &lb, true);
      v_alloc_mark(&va);
      char* r = zix_path_lexically_relative(&va.base, p, b);
      const size_t asked = va.first_size;
      printf("rel out=%s", r ? hexs(r).c_str() : "NULL");
      const fs::path want = fs::path(std::string(p, lp)).lexically_relative(fs::path(std::string(b, lb)));
      if ((r == NULL) != want.empty()) printf(" SPEC-FAIL:null-iff-c++17-empty");
      else if (r && fs::path(r) != want) printf(" SPEC-FAIL:not-the-same-relative-path-as-c++17");
      printf(" | alloc=%zu\nstd rel=%s\n", asked, want.empty() ? "NULL" : elems(want).c_str());
      zix_free(&va.base, r);
      free(p); free(b);
    } else if (!strcmp(tok[0], "pref") && n == 2) {
      size_t len = 0;
      char*  s   = (char*)v_unhex(tok[1], &len, true);
      v_alloc_mark(&va);
      char*  r   = zix_path_preferred(&va.base, s);
      const size_t asked = va.first_size;
      printf("pref out=%s", r ? hexs(r).c_str() : "NULL");
      if (!r || std::string(s, len) != r) printf(" SPEC-FAIL:preferred-changes-the-path-on-posix");
      printf(" | alloc=%zu\n", asked);
      zix_free(&va.base, r);
      free(s);
    } else if (!strcmp(tok[0], "nullq")) {
      printf("nullq has=%d%d%d%d%d%d%d%d abs=%d isrel=%d\n", zix_path_has_root_path(NULL), zix_path_has_root_name(NULL), zix_path_has_root_directory(NULL),
             zix_path_has_relative_path(NULL), zix_path_has_parent_path(NULL), zix_path_has_filename(NULL), zix_path_has_stem(NULL),
             zix_path_has_extension(NULL), zix_path_is_absolute(NULL), zix_path_is_relative(NULL));
    } else {
      puts("bad-op");
    }
    if (v_alloc_outstanding(&va) || va.n_errors) {
      puts("ALLOC-DISCIPLINE-ERROR");
      v_alloc_reset(&va);
    }
  }
  return 0;
}
