import Driver.Util
import ZixModel.Model.BTree
namespace Driver.C01
open Zix.BTree

structure St where
  countCmp : Bool
  cfg    : Cfg
  tree   : Option Tree
  a      : AllocSt
  failAt : Option Nat
  failFrom : Option Nat

def St.fails (s : St) : Nat → Bool := fun k =>
  (match s.failAt with | some x => k == x | none => false) ||
  (match s.failFrom with | some x => k ≥ x | none => false)

partial def dumpNode : Node → String
  | .leaf id vals => s!"L{id}({" ".intercalate (vals.map toString)})"
  | .inode id vals cs => s!"I{id}({" ".intercalate (vals.map toString)})[{" ".intercalate (cs.map dumpNode)}]"

def fmtEv : Ev → String
  | .alloc i => s!"A{i}" | .allocFail => "A0" | .free i => s!"F{i}"

def fmtSt : Status → String
  | .success => "SUCCESS" | .exists_ => "EXISTS" | .notFound => "NOT_FOUND" | .noMem => "NO_MEM"

def fmtPath (it : Iter) : String :=
  match it with | none => "end" | some p => ".".intercalate (p.map toString)

def fmtDeref (t : Tree) (it : Iter) : String :=
  match it with
  | none => "END"
  | some _ => match deref t.root it with | some v => toString v | none => "INVALID"

def wb (t : Tree) (cmps : Nat) (evs : List Ev) (cc : Bool := true) : String :=
  s!" | cmp={if cc then toString cmps else "-"} ev[{" ".intercalate (evs.map fmtEv)}] h={height t.root} {dumpNode t.root}"

/-- the search comparators of the harness: exact, or wildcard on v / 16 -/
def cmpKey (mode : String) (k : Nat) (v : Nat) : Int :=
  let x := if mode == "w" then v / 16 else v
  if x < k then -1 else if x = k then 0 else 1

partial def walkAll (t : Tree) (it : Iter) (acc : List Nat) : List Nat :=
  match it with
  | none => acc.reverse
  | some p =>
    match deref t.root it with
    | none => acc.reverse
    | some v => walkAll t (increment t.root p) (v :: acc)

def step (s : St) (ws : List String) : St × String :=
  match ws with
  | ["new", l, i, h] =>
    match l.toNat?, i.toNat?, h.toNat? with
    | some l, some i, some h =>
      -- a new tree starts a new allocator epoch (ids from 1); a pending fault schedule is kept
      let fa := s.failAt.bind (fun x => if x ≥ s.a.reqs then some (x - s.a.reqs) else none)
      let ff := s.failFrom.map (fun x => x - s.a.reqs)
      let s0 : St := { s with cfg := ⟨l, i, h⟩, a := ⟨1, 0⟩, failAt := fa, failFrom := ff }
      let (a', t, evs) := Tree.new s0.fails s0.a
      let s' := { s0 with a := a', tree := t }
      match t with
      | some t => (s', "new st=ok" ++ wb t 0 evs s.countCmp)
      | none => (s', s!"new st=NULL | ev[{" ".intercalate (evs.map fmtEv)}]")
    | _, _, _ => (s, "bad-op")
  | ["failat", k] =>
    match k.toNat? with
    | some k => ({ s with failAt := some (s.a.reqs + k) }, "fail")
    | none => (s, "bad-op")
  | ["failfrom", k] =>
    match k.toNat? with
    | some k => ({ s with failFrom := some (s.a.reqs + k) }, "fail")
    | none => (s, "bad-op")
  | ["failclear"] => ({ s with failAt := none, failFrom := none }, "fail")
  | _ =>
    match s.tree with
    | none => (s, "bad-op")
    | some t =>
      match ws with
      | ["ins", e] =>
        match e.toNat? with
        | some e =>
          let (a', t', st, evs, k) := t.insert s.cfg s.fails s.a e
          ({ s with a := a', tree := some t' }, s!"st={fmtSt st} size={t'.size}" ++ wb t' k evs s.countCmp)
        | none => (s, "bad-op")
      | ["rm", e] =>
        match e.toNat? with
        | some e =>
          let (t', st, out, next, evs, k) := t.remove s.cfg e
          let o := match out with | some v => toString v | none => "NULL"
          ({ s with tree := some t' }, s!"st={fmtSt st} out={o} next={fmtDeref t' next} size={t'.size}" ++ wb t' k evs s.countCmp ++ s!" nextpath={fmtPath next}")
        | none => (s, "bad-op")
      | ["find", e] =>
        match e.toNat? with
        | some e =>
          let (it, k) := t.find e
          (s, s!"st={if it.isSome then "SUCCESS" else "NOT_FOUND"} it={fmtDeref t it}" ++ wb t k [] s.countCmp ++ s!" path={fmtPath it}")
        | none => (s, "bad-op")
      | ["lb", mode, k] =>
        match k.toNat? with
        | some k =>
          let (it, c) := t.lowerBound (cmpKey mode k)
          (s, s!"lb={fmtDeref t it}" ++ wb t c [] s.countCmp ++ s!" path={fmtPath it}")
        | none => (s, "bad-op")
      | ["ieq", a, b] =>
        match a.toNat?, b.toNat? with
        | some a, some b =>
          let (ia, _) := t.lowerBound (cmpKey "x" a)
          let (ib, _) := t.lowerBound (cmpKey "x" b)
          (s, s!"eq={if iterEquals ia ib then 1 else 0}")
        | _, _ => (s, "bad-op")
      | ["walk"] =>
        let vs := walkAll t t.begin []
        (s, s!"walk=[{" ".intercalate (vs.map toString)}] size={t.size}")
      | ["clear"] =>
        let (t', d, evs) := t.clear
        ({ s with tree := some t' }, s!"destroyed=[{" ".intercalate ((d.mergeSort (· ≤ ·)).map toString)}] size=0" ++ wb t' 0 evs s.countCmp ++ s!" order=[{" ".intercalate (d.map toString)}]")
      | _ => (s, "bad-op")

end Driver.C01
