import Driver.Util
import ZixModel.Model.Hash
import ZixModel.Properties.C08Hash
namespace Driver.C03
open Zix.Hash

structure St where
  t : Table
  keys : List (Nat × Nat)     -- record id → key id
  failNext : Bool             -- the next allocation request is refused
  blocks : Zix.C08Hash.Blocks := Zix.C08Hash.Blocks.start   -- ghost allocator state

def St.keyOf (s : St) (r : Nat) : Nat := (s.keys.lookup r).getD 0

def fmtSlot : Slot → String
  | .empty => "e"
  | .tomb => "t"
  | .live c r => s!"{c}:{r}"

def fmtEv : Ev → String
  | .hash k => s!"H{k}"
  | .key r => s!"K{r}"
  | .eq a b => s!"E{a},{b}"

def fmtStatus : Status → String
  | .success => "SUCCESS" | .exists_ => "EXISTS" | .notFound => "NOT_FOUND" | .noMem => "NO_MEM" | .badArg => "BAD_ARG"

def wb (t : Table) (evs : List Ev) : String :=
  s!" | n={t.n} count={t.count} [{" ".intercalate (t.slots.map fmtSlot)}] cb[{" ".intercalate (evs.map fmtEv)}]"

/-- allocator events as the tracking allocator logs them: the header comes from malloc, entry arrays from calloc -/
def fmtA : Zix.C08Hash.AEv → String
  | .alloc b => if b = 1 then "M1" else s!"C{b}"
  | .refused => "C0"
  | .free b => s!"f{b}"

def fmtAs (es : List Zix.C08Hash.AEv) : String := " ev[" ++ " ".intercalate (es.map fmtA) ++ "]"

def optS (o : Option Nat) : String := match o with | some r => toString r | none => "NULL"

def step (s : St) (ws : List String) : St × String :=
  let allocOk := !s.failNext
  match ws with
  | ["new"] => let s' : St := { t := new, keys := [], failNext := false }; (s', "new" ++ wb s'.t [] ++ fmtAs Zix.C08Hash.newEvents)
  | ["failnext"] => ({ s with failNext := true }, "failnext")
  | ["newfail", k] =>
    -- a second table whose creation fails at its k-th allocation request: nothing is kept; a header that was obtained
    -- (k = 1) takes the next block id and is released again
    if k == "0" then (s, "newfail=NULL" ++ wb s.t [] ++ " ev[M0]")
    else if k == "1" then
      let n := s.blocks.next
      ({ s with blocks := { s.blocks with next := n + 1 } }, "newfail=NULL" ++ wb s.t [] ++ s!" ev[M{n} C0 f{n}]")
    else (s, "bad-op")
  | ["ins", r, k, c] | ["pins", r, k, c] | ["pinsp", r, k, c] =>
    match r.toNat?, k.toNat?, c.toNat? with
    | some r, some k, some c =>
      let s1 := { s with keys := (r, k) :: s.keys.filter (·.1 ≠ r) }
      let (t', st, evs) := insert s1.keyOf s1.t r c allocOk
      -- the two-step variants call key_func/hash_func themselves (harness), same events
      let e := Zix.C08Hash.callEvents s.blocks (st == .noMem) (decide (t'.n ≠ s.t.n))
      let s2 := { s1 with t := t', failNext := false, blocks := e.1 }
      (s2, s!"st={fmtStatus st} size={t'.count}" ++ wb t' evs ++ fmtAs e.2)
    | _, _, _ => (s, "bad-op")
  | ["find", k, c] =>
    match k.toNat?, c.toNat? with
    | some k, some c =>
      let (r, evs) := find s.keyOf s.t k c
      let it := match r with | some i => s!"rec={optS (recordAt s.t i)}" | none => "rec=END"
      (s, it ++ wb s.t evs ++ fmtAs [] ++ (match r with | some i => s!" it={i}" | none => ""))
    | _, _ => (s, "bad-op")
  | ["findr", k, c] =>
    match k.toNat?, c.toNat? with
    | some k, some c =>
      let (r, evs) := find s.keyOf s.t k c
      let found := match r with | some i => recordAt s.t i | none => none
      (s, s!"rec={optS found}" ++ wb s.t evs ++ fmtAs [])
    | _, _ => (s, "bad-op")
  | ["rm", k, c] | ["erase", k, c] =>
    match k.toNat?, c.toNat? with
    | some k, some c =>
      let (t', st, r, evs) := remove s.keyOf s.t k c allocOk
      let e := Zix.C08Hash.callEvents s.blocks (st == .noMem) (decide (t'.n ≠ s.t.n))
      let s' := { s with t := t', failNext := false, blocks := e.1 }
      (s', s!"st={fmtStatus st} removed={optS r} size={t'.count}" ++ wb t' evs ++ fmtAs e.2)
    | _, _ => (s, "bad-op")
  | ["eraseat", i] =>
    -- zix_hash_erase at an arbitrary iterator value ("end" = the end iterator)
    match (if i == "end" then some s.t.n else i.toNat?) with
    | some i =>
      let (t', st, r, evs) := eraseAt s.keyOf s.t i allocOk
      let e := Zix.C08Hash.callEvents s.blocks (st == .noMem) (decide (t'.n ≠ s.t.n))
      let s' := { s with t := t', failNext := false, blocks := e.1 }
      (s', s!"st={fmtStatus st} removed={optS r} size={t'.count}" ++ wb t' evs ++ fmtAs e.2)
    | none => (s, "bad-op")
  | ["iter"] => (s, s!"iter={(iterate s.t).map toString |> " ".intercalate} size={s.t.count}" ++ wb s.t [] ++ fmtAs [])
  | _ => (s, "bad-op")

end Driver.C03
