import Driver.Util
import ZixModel.Model.RingRA
import ZixModel.Model.Ring
import ZixModel.Model.RingRAX
namespace Driver.C04
open Zix.RingRA

def fmtAct (n : Nat) (writer : Bool) : Act → String
  | .loadAcq => if writer then " aload:read_head:acquire" else " aload:write_head:acquire"
  | .bufWrite p _ => s!" bufwr[{p % n}]"
  | .bufRead p => s!" bufrd[{p % n}]"
  | .storeRel c => if writer then s!" astore:write_head={c % n}:release" else s!" astore:read_head={c % n}:release"
  | .deliver => ""
  | .discard => ""

def fmtActs (n : Nat) (writer : Bool) (as : List Act) : String := String.join (as.map (fmtAct n writer))

def step (_ : Unit) (ws : List String) : Unit × String :=
  match ws with
  | ["acc", fn, nn, r, w, size] =>
    match nn.toNat?, r.toNat?, w.toNat?, size.toNat? with
    | some nn, some r, some w, some size =>
      let n := Zix.Ring.nextPow2 nn
      if n = 0 ∨ r ≥ n ∨ w ≥ n then ((), "bad-op") else
      let d := r                                  -- consumed count
      let c := if w ≥ r then w else w + n         -- committed count
      let data := List.replicate size 90
      let w0 : Writer := ⟨c, d, 0, none, [], [], none⟩
      let r0 : Reader := ⟨d, c, 0, [], [], none, []⟩
      match fn with
      | "write" =>
        let w1 := wExpand n { w0 with pendingCall := some (.write data) }
        let ok := !w1.acts.isEmpty
        let c' := if ok then c + size else c
        ((), s!"ret={if ok then size else 0} r={r} w={c' % n} |{fmtActs n true (.loadAcq :: w1.acts)}")
      | "wspace" => ((), s!"ret={wSpace n d c} r={r} w={w} |{fmtActs n true [.loadAcq]}")
      | "tx" =>
        let wb := wExpand n { w0 with pendingCall := some .begin_ }
        let h := size / 2
        let d1 := List.replicate h 90
        let d2 := List.replicate (size - h) 90
        let wa := wExpand n { wb with pendingCall := some (.amend d1) }
        let f1 := match wb.tx, wa.tx with | some (_, p), some (_, q) => decide (q = p + h) | _, _ => false
        let wa2 := wExpand n { wa with pendingCall := some (.amend d2) }
        let f2 := match wa.tx, wa2.tx with | some (_, p), some (_, q) => decide (q = p + (size - h)) | _, _ => false
        let pos := match wa2.tx with | some (_, p) => p | none => c
        let ret := (if f1 then 0 else 1) * 2 + (if f2 then 0 else 1)
        ((), s!"ret={ret} r={r} w={pos % n} |{fmtActs n true [.loadAcq]} |{fmtActs n true wa.acts} |{fmtActs n true wa2.acts} |{fmtActs n true [.storeRel pos]}")
      | "read" =>
        let r1 := rExpand { r0 with pendingCall := some (.read size) }
        let ok := !r1.acts.isEmpty
        ((), s!"ret={if ok then size else 0} r={(if ok then d + size else d) % n} w={w} |{fmtActs n false (.loadAcq :: r1.acts)}")
      | "peek" =>
        let r1 := rExpand { r0 with pendingCall := some (.peek size) }
        let ok := !r1.acts.isEmpty
        ((), s!"ret={if ok then size else 0} r={r} w={w} |{fmtActs n false (.loadAcq :: r1.acts)}")
      | "skip" =>
        let r1 := rExpand { r0 with pendingCall := some (.skip size) }
        let ok := !r1.acts.isEmpty
        ((), s!"ret={if ok then size else 0} r={(if ok then d + size else d) % n} w={w} |{fmtActs n false (.loadAcq :: r1.acts)}")
      | "rspace" => ((), s!"ret={c - d} r={r} w={w} |{fmtActs n false [.loadAcq]}")
      | _ => ((), "bad-op")
    | _, _, _, _ => ((), "bad-op")
  | ["explore", bits, len, tries] =>
    -- search the happens-before machine with the given orders (9 characters, 1 = acquire/release, 0 = relaxed; "observed" = as generated)
    let o : Option Zix.RingRAX.Orders :=
      if bits == "observed" then some Zix.RingRAX.Orders.observed
      else match bits.toList.map (· == '1') with
        | [a, b, c, d, e, f, g, h, i] => some ⟨a, b, c, d, e, f, g, h, i⟩
        | _ => none
    match o, len.toNat?, tries.toNat? with
    | some o, some len, some tries =>
      match Zix.RingRAX.explore o len tries with
      | none => ((), "explore none")
      | some (name, n, seed, k, v) =>
        let sched := (Zix.RingRAX.schedule seed len).take k
        let txt := " ".intercalate (sched.map (fun c => (if c.tid == .writer then "W" else "R") ++ toString c.fresh))
        ((), s!"explore found scenario={name} ring-size={n} seed={seed} steps={k} verdict=[{v}] schedule=[{txt}]")
    | _, _, _ => ((), "bad-op")
  | ["soak", _, _, _] => ((), "soak errors=0 left=0")
  -- a polling caller sees the other side's committed progress (spsc_quiescent_contents: once the other side is idle the ring
  -- holds exactly the committed bytes, and every call of read_space / write_space performs its acquire load again)
  | ["spinread", _] => ((), "spin ok")
  | ["spinwrite", _] => ((), "spin ok")
  | _ => ((), "bad-op")

end Driver.C04
