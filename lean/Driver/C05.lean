import Driver.Util
import ZixModel.Model.Ring
import ZixModel.Model.RingAlloc
namespace Driver.C05
open Zix.Ring

structure St where
  g : Ring
  tx : Option Tx

def wb (s : St) : String :=
  let t := match s.tx with | some t => s!" tx={t.r},{t.w}" | none => ""
  s!" | r={s.g.r} w={s.g.w} size={s.g.size}{t}"

def step (s : St) (ws : List String) : St × String :=
  match ws with
  | ["new", n] =>
    match n.toNat? with
    | some n =>
      if 1 ≤ n ∧ n ≤ 2 ^ 31 then
        let s' : St := ⟨new n, none⟩
        (s', s!"new cap={capacity s'.g}" ++ wb s')
      else (s, "bad-op")
    | none => (s, "bad-op")
  | ["newbad", n] =>
    match n.toNat? with
    | some n =>
      if n < 2 ^ 32 then
        match new? n with
        | none => (s, "new=NULL")
        | some g => (s, s!"new=RING cap={capacity g}")
      else (s, "bad-op")
    | none => (s, "bad-op")
  | ["newa", mask, n] =>
    let idx := if mask == "-" then some [] else (mask.splitOn ",").mapM (·.toNat?)
    match idx, n.toNat? with
    | some ks, some n =>
      if n ≤ 65536 then
        let (evs, r) := Zix.RingAlloc.newA (fun k => ks.contains k) n
        let o := fun (x : Option Nat) => toString (x.getD 0)
        let fmtEv : Zix.RingAlloc.Ev → String
          | .malloc (some sz) res => s!"m{sz}={o res}"
          | .malloc none res => s!"mH={o res}"
          | .free b => s!"f{b}"
        let all := evs ++ Zix.RingAlloc.freeA r
        (s, s!"new={if r.isSome then "RING" else "NULL"} | ev[{" ".intercalate (all.map fmtEv)}]")
      else (s, "bad-op")
    | _, _ => (s, "bad-op")
  | ["write", h] =>
    match bytesOfHex h with
    | some d => let (g', k) := write s.g d; let s' := { s with g := g' }; (s', s!"ret={k}" ++ wb s')
    | none => (s, "bad-op")
  | ["read", n] =>
    match n.toNat? with
    | some n =>
      let (g', r) := read s.g n
      let s' := { s with g := g' }
      match r with
      | some d => (s', s!"ret={n} data={hexOfBytes d}" ++ wb s')
      | none => (s', "ret=0 data=-" ++ wb s')
    | none => (s, "bad-op")
  | ["peek", n] =>
    match n.toNat? with
    | some n =>
      match peek s.g n with
      | some d => (s, s!"ret={n} data={hexOfBytes d}" ++ wb s)
      | none => (s, "ret=0 data=-" ++ wb s)
    | none => (s, "bad-op")
  | ["skip", n] =>
    match n.toNat? with
    | some n =>
      let (g', ok) := skip s.g n
      let s' := { s with g := g' }
      (s', s!"ret={if ok then n else 0}" ++ wb s')
    | none => (s, "bad-op")
  | ["reset"] => let s' : St := ⟨reset s.g, none⟩; (s', "reset" ++ wb s')
  | ["rspace"] => (s, s!"ret={readSpace s.g}" ++ wb s)
  | ["wspace"] => (s, s!"ret={writeSpace s.g}" ++ wb s)
  | ["cap"] => (s, s!"ret={capacity s.g}" ++ wb s)
  | ["begin"] => let s' := { s with tx := some (beginWrite s.g) }; (s', "begin" ++ wb s')
  | ["amend", h] =>
    match bytesOfHex h, s.tx with
    | some d, some tx =>
      match amend s.g tx d with
      | some (g', tx') => let s' : St := ⟨g', some tx'⟩; (s', "st=SUCCESS" ++ wb s')
      | none => (s, "st=NO_MEM" ++ wb s)
    | _, _ => (s, "bad-op")
  | ["commit"] =>
    match s.tx with
    | some tx => let s' : St := ⟨commit s.g tx, none⟩; (s', "st=SUCCESS" ++ wb s')
    | none => (s, "bad-op")
  | ["abandon"] =>
    match s.tx with
    | some _ => let s' := { s with tx := none }; (s', "abandon" ++ wb s')
    | none => (s, "bad-op")
  | _ => (s, "bad-op")

end Driver.C05
