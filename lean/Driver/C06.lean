import Driver.Util
import ZixModel.Model.Avl
import ZixModel.Properties.C08Avl
namespace Driver.C06
open Zix.Avl

def dump : T → Nat → List String
  | .nil, _ => []
  | .node l i k b r, p => s!"{i}:{k}:{b}:{p}" :: (dump l i ++ dump r i)

/-- allocator events as the tracking allocator logs them: the header comes from malloc, nodes from calloc -/
def fmtEv : Zix.C08Avl.AEv → String
  | .alloc b => if b = 1 then "M1" else s!"C{b}"
  | .refused => "C0"
  | .free b => s!"f{b}"

def fmtEvs (es : List Zix.C08Avl.AEv) : String := "ev[" ++ " ".intercalate (es.map fmtEv) ++ "]"

def wbE (t : Tree) (cmps : Nat) (es : List Zix.C08Avl.AEv) : String :=
  s!" | size={t.size} cmp={cmps} {fmtEvs es} [{" ".intercalate (dump t.root 0)}]"

def wb (t : Tree) (cmps : Nat) : String := wbE t cmps []

def depthOf (id : Nat) : T → Nat → Option Nat
  | .nil, _ => none
  | .node l i _ _ r, d => if i = id then some d else (depthOf id l (d + 1)).orElse (fun _ => depthOf id r (d + 1))

/-- comparator calls made by `zix_tree_insert` on the way down -/
def insertCmps (dups : Bool) (e : Int) : T → Nat → Nat
  | .nil, n => n
  | .node l _ k _ r, n =>
    if e < k then insertCmps dups e l (n + 1)
    else if e > k ∨ dups then insertCmps dups e r (n + 1)
    else n + 1

def keyOfId (id : Nat) : List (Nat × Int) → Option Int
  | [] => none
  | (i, k) :: rest => if i = id then some k else keyOfId id rest

def ids (l : List (Nat × Int)) : String := " ".intercalate (l.map (fun p => toString p.1))

/-- `~k` = the (k mod size)-th node in order, or a literal id -/
def refId (t : Tree) (tok : String) : Option Nat :=
  if tok.startsWith "~" then
    match (tok.drop 1).toString.toNat? with
    | some k => let io := t.root.inorder; if io.isEmpty then none else (io[k % io.length]?).map (·.1)
    | none => none
  else tok.toNat?

def step (t : Tree) (ws : List String) : Tree × String :=
  match ws with
  | ["new", d] => let t' := Tree.new (d == "1"); (t', "new" ++ wbE t' 0 Zix.C08Avl.newEvents)
  | ["ins", k] =>
    match k.toInt? with
    | some e =>
      let (t', st, id) := t.insert e
      let cmps' := insertCmps t.dups e t.root 0
      let o := (Zix.C06.treeStep t (.ins e)).2
      (t', s!"st={if st == .success then "SUCCESS" else "EXISTS"} it={id} size={t'.size}" ++ wbE t' cmps' (Zix.C08Avl.evOf (.ins e) o))
    | none => (t, "bad-op")
  | ["newfail"] => (t, "newfail=NULL" ++ (wbE t 0 []).replace "ev[]" "ev[M0]")
  | ["insfail", k] =>
    match k.toInt? with
    | some e =>
      match t.insertMayFail e false with
      | (t', some (_, id)) => (t', s!"st=EXISTS it={id} size={t'.size}" ++ wb t' (insertCmps t.dups e t.root 0))
      | (t', none) => (t', s!"st=NO_MEM it=0 size={t'.size}" ++ wbE t' (insertCmps t.dups e t.root 0) (Zix.C08Avl.evOf (.insFail e) (Zix.C06.treeStep t (.insFail e)).2))
    | none => (t, "bad-op")
  | ["find", k] =>
    match k.toInt? with
    | some e =>
      let (r, n) := find e t.root 0
      -- with duplicates any equal element may be returned: only the key is API-visible
      let keyOf := match r with | some i => keyOfId i t.root.inorder | none => none
      (t, (match keyOf with | some k => s!"st=SUCCESS key={k}" | none => "st=NOT_FOUND key=NULL") ++ wb t n
          ++ (match r with | some i => s!" it={i}" | none => ""))
    | none => (t, "bad-op")
  | ["rm", r] =>
    match refId t r with
    | some id =>
      match t.remove id with
      | some t' => (t', s!"st=SUCCESS removed={id} size={t'.size}" ++ wbE t' 0 (Zix.C08Avl.evOf (.rm id) (Zix.C06.treeStep t (.rm id)).2))
      | none => (t, "bad-op")
    | none => (t, "bad-op")
  | ["walk"] =>
    let io := t.root.inorder
    (t, s!"fwd=[{ids io}] bwd=[{ids io.reverse}] keys=[{" ".intercalate (io.map (fun p => toString p.2))}]" ++ wb t 0)
  | ["free"] =>
    let po := t.root.postorder
    let t' := Tree.new t.dups
    (t', s!"destroyed={po.length} order=[{ids po}] | {fmtEvs (Zix.C08Avl.freeEvents t)}")
  | _ => (t, "bad-op")

end Driver.C06
