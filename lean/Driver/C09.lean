import Driver.Util
import ZixModel.Model.Bump
namespace Driver.C09
open Zix.Bump

def fmt (r : Option Nat) (s : State) (extra : String := "") : String :=
  let p := match r with | some o => s!"off={o}" | none => "off=NULL"
  s!"{p}{extra} | last={s.last} top={s.top} live={s.live.length}"

/-- Block reference: "^" latest live, "~k" the (k mod n)-th live block in granting order, or an id. -/
def refBlock (s : State) (tok : String) : Option Block :=
  let live := s.live.reverse   -- oldest first
  if tok == "^" then live.getLast?
  else if tok.startsWith "~" then
    match (tok.drop 1).toString.toNat? with
    | some k => if live.isEmpty then none else live[k % live.length]?
    | none => none
  else match tok.toNat? with
    | some id => s.live.find? (·.id = id)
    | none => none

def step (s : State) (ws : List String) : State × String :=
  match ws with
  | ["new", b, c] =>
    match b.toNat?, c.toNat? with
    | some b, some c => let s' := init b c; (s', s!"new | last={s'.last} top={s'.top} live=0")
    | _, _ => (s, "bad-op")
  | ["malloc", n] =>
    match n.toNat? with
    | some n => if n < W then let (s', r) := malloc s n; (s', fmt r s') else (s, "bad-op")
    | none => (s, "bad-op")
  | ["calloc", n, m] =>
    match n.toNat?, m.toNat? with
    | some n, some m =>
      if n < W ∧ m < W then let (s', r) := calloc s n m; (s', fmt r s' (if r.isSome then " zero=1" else ""))
      else (s, "bad-op")
    | _, _ => (s, "bad-op")
  | ["realloc", r, n] =>
    match refBlock s r, n.toNat? with
    | some b, some n => if n < W then let (s', r) := realloc s b.off n; (s', fmt r s') else (s, "bad-op")
    | _, _ => (s, "bad-op")
  | ["reallocdead", n] =>
    -- realloc of the address at offset `last` while no live block is there
    match n.toNat? with
    | some n =>
      if n < W ∧ s.live.all (·.off ≠ s.last) then let (s', r) := realloc s s.last n; (s', fmt r s') else (s, "bad-op")
    | none => (s, "bad-op")
  | ["free", "0"] => (s, s!"free | last={s.last} top={s.top} live={s.live.length}")
  | ["free", r] =>
    match refBlock s r with
    | some b => let s' := free s b.id; (s', s!"free | last={s'.last} top={s'.top} live={s'.live.length}")
    | none => (s, "bad-op")
  | ["aalloc", a, n] =>
    match a.toNat?, n.toNat? with
    | some a, some n =>
      if a ≥ 8 ∧ n < W ∧ n % a = 0 then let (s', r) := alignedAlloc s a n; (s', fmt r s') else (s, "bad-op")
    | _, _ => (s, "bad-op")
  | _ => (s, "bad-op")

end Driver.C09
