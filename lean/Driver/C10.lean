import Driver.Util
import ZixModel.Model.Path
import ZixModel.Model.PathBuf
import ZixModel.Spec.Cpp17Path
namespace Driver.C10
open Zix.Path

def rng (name : String) (r : Range) : String :=
  if r.2 - r.1 = 0 then s!" {name}=-" else s!" {name}={r.1},{r.2 - r.1}"

def elemsStr (es : List (List Nat)) : String := String.join (es.map (fun e => "<" ++ hexOfBytes e ++ ">"))

def stateNum : IterState → Nat
  | .rootName => 0 | .rootDir => 1 | .fileName => 2 | .end_ => 3

def optHex (o : Option (List Nat)) : String := match o with | some b => hexOfBytes b | none => "NULL"

def parseArg (w : String) : Option (Option (List Nat)) :=
  if w == "NULL" then some none else (bytesOfHex w).map some

def step (_ : Unit) (ws : List String) : Unit × String :=
  match ws with
  | ["dec", h] =>
    match bytesOfHex h with
    | some s =>
      if s.contains 0 then ((), "bad-op") else
      let q := queries s
      let has := String.ofList (q.map (fun b => if b then '1' else '0'))
      let l1 := "dec" ++ rng "rn" (0, 0) ++ rng "rd" (rootDirRange s) ++ rng "rp" (rootPathRange s) ++ rng "rel" (relativeRange s)
        ++ rng "par" (parentRange s) ++ rng "fn" (filenameRange s) ++ rng "st" (stemRange s) ++ rng "ext" (extensionRange s)
        ++ s!" has={has} isrel={if isAbsolute s then 0 else 1}"
      let sp := Zix.PathSpec.parse s
      let l2 := s!"std rd={hexOfBytes (Zix.PathSpec.rootDirText s)} rel={hexOfBytes (Zix.PathSpec.relativeText s)} par={elemsStr (Zix.PathSpec.parent s).elems}"
        ++ s!" fn={hexOfBytes (Zix.PathSpec.filename s)} st={hexOfBytes (Zix.PathSpec.stem s)} ext={hexOfBytes (Zix.PathSpec.extension s)} it={elemsStr sp.elems}"
      ((), l1 ++ "\n" ++ l2)
    | none => ((), "bad-op")
  | ["iter", h] =>
    match bytesOfHex h with
    | some s =>
      let fr := allFrames s
      ((), "iter" ++ String.join (fr.map (fun f => s!" {stateNum f.state}:{f.range.1},{f.range.2}")))
    | none => ((), "bad-op")
  | ["norm", h] =>
    match bytesOfHex h with
    | some s => ((), s!"norm out={hexOfBytes (normalize s)} | alloc={Zix.PathBuf.normalAlloc s}\nstd norm={elemsStr (Zix.PathSpec.normal s).elems}")
    | none => ((), "bad-op")
  | ["join", a, b] =>
    match parseArg a, parseArg b with
    | some a, some b => ((), s!"join out={hexOfBytes (join a b)} | alloc={Zix.PathBuf.joinAlloc a b}")
    | _, _ => ((), "bad-op")
  | ["rel", p, b] =>
    match bytesOfHex p, bytesOfHex b with
    | some p, some b =>
      let sr := match Zix.PathSpec.relative p b with | some es => elemsStr es | none => "NULL"
      ((), s!"rel out={optHex (relative p b)} | alloc={(Zix.PathBuf.relativeAlloc p b).getD 0}\nstd rel={sr}")
    | _, _ => ((), "bad-op")
  | ["pref", h] =>
    match bytesOfHex h with
    | some s => ((), s!"pref out={hexOfBytes (preferred s)} | alloc={Zix.PathBuf.preferredAlloc s}")
    | none => ((), "bad-op")
  | ["nullq"] => ((), "nullq has=00000000 abs=0 isrel=1")
  | _ => ((), "bad-op")

end Driver.C10
