import Driver.Util
import ZixModel.Model.Digest
namespace Driver.C13
open Zix.Digest

def words64 : List Nat → List (BitVec 64)
  | b0 :: b1 :: b2 :: b3 :: b4 :: b5 :: b6 :: b7 :: rest => leWord64 [b0, b1, b2, b3, b4, b5, b6, b7] :: words64 rest
  | _ => []
def words32 : List Nat → List (BitVec 32)
  | b0 :: b1 :: b2 :: b3 :: rest => leWord32 [b0, b1, b2, b3] :: words32 rest
  | _ => []

def step (_ : Unit) (ws : List String) : Unit × String :=
  match ws with
  | ["d64", seed, align, h] =>
    match seed.toNat?, align.toNat?, bytesOfHex h with
    | some s, some a, some d =>
      let v := digest64 (.ofNat 64 s) d
      let al := if a % 8 = 0 ∧ d.length % 8 = 0 then s!" a={(digest64Aligned (.ofNat 64 s) (words64 d)).toNat}" else ""
      ((), s!"d={v.toNat}{al} n={(digestNative (.ofNat 64 s) d).toNat}")
    | _, _, _ => ((), "bad-op")
  | ["d32", seed, align, h] =>
    match seed.toNat?, align.toNat?, bytesOfHex h with
    | some s, some a, some d =>
      let v := digest32 (.ofNat 32 s) d
      let al := if a % 4 = 0 ∧ d.length % 4 = 0 then s!" a={(digest32Aligned (.ofNat 32 s) (words32 d)).toNat}" else ""
      ((), s!"d={v.toNat}{al}")
    | _, _, _ => ((), "bad-op")
  | _ => ((), "bad-op")

end Driver.C13
