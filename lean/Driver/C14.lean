import Driver.Util
import ZixModel.Model.CopyFile
namespace Driver.C14
open Zix.CopyFile Zix.Errno

def srcBytes (n : Nat) : List Nat := (List.range n).map (fun i => (i * 7 + 3) % 251)
def dstBytes (n : Nat) : List Nat := (List.range n).map (fun i => (i * 5 + 1) % 241)

def parseCall (w : String) : Option Call :=
  match w with
  | "open-src" => some .openSrc | "fstat-src" => some .fstatSrc | "ftruncate" => some .ftruncate | "open-dst" => some .openDst
  | "fstat-dst" => some .fstatDst | "cfr" => some .cfr | "alloc" => some .alloc | "read" => some .read | "write" => some .write | "free" => some .free
  | "fdatasync" => some .fdatasync | "close-dst" => some .closeDst | "close-src" => some .closeSrc | _ => none

/-- `call#n=Ename` / `call#n=shortK` / `alloc#n=fail` -/
def parseFault (w : String) : Option (Call × Nat × Fault) :=
  match w.splitOn "=" with
  | [lhs, rhs] =>
    match lhs.splitOn "#" with
    | [c, n] =>
      match parseCall c, n.toNat? with
      | some c, some n =>
        if rhs.startsWith "short" then (rhs.drop 5).toString.toNat?.map (fun k => (c, n, Fault.short k))
        else if rhs == "fail" then some (c, n, .err 12)
        else (errnoOf rhs).map (fun e => (c, n, Fault.err e))
      | _, _ => none
    | _ => none
  | _ => none

def step (_ : Unit) (ws : List String) : Unit × String :=
  match ws with
  | "copy" :: kind :: size :: dst :: ow :: blk :: faults =>
    let kind? : Option SrcKind := match kind with
      | "reg" => some .regular | "regz" => some .regular | "dir" => some .directory | "fifo" => some .fifo | "fifo0" => some .fifo
      | "missing" => some .missing | _ => none
    let dst? : Option Dst :=
      if dst == "absent" then some .absent
      else if dst == "same" ∨ dst == "hardlink" ∨ dst == "symlink" then some .sameAsSrc
      else if dst == "dir" then some .directory
      else if dst.startsWith "file:" then (dst.drop 5).toString.toNat?.map (fun n => Dst.file (dstBytes n))
      else none
    let fs := faults.map parseFault
    match kind?, size.toNat?, dst?, blk.toNat? with
    | some k, some n, some d, some b =>
      if fs.any (·.isNone) then ((), "bad-op") else
      let fl := fs.filterMap id
      let fault : Call → Nat → Option Fault := fun c i => (fl.find? (fun x => x.1 == c && x.2.1 == i)).map (·.2.2)
      let w : World := { srcKind := k, src := srcBytes n, dst := d, blk := b, sizeKnown := kind != "regz" }
      let r := copyFile w (ow == "1") fault
      let srcOk := r.st.src == srcBytes n
      let dstS := match d, r.st.dst with
        | .directory, _ => "dir"
        | _, none => "none"
        | _, some c => s!"len:{c.length}:eq{if c == srcBytes n then 1 else 0}"
      ((), s!"st={r.status} src={if srcOk then "ok" else "CHANGED"} dst={dstS} fds={if r.st.opened == r.st.closed then 1 else 0} | {" ".intercalate r.st.trace}")
    | _, _, _, _ => ((), "bad-op")
  | _ => ((), "bad-op")

end Driver.C14
