import Driver.Util
import ZixModel.Model.Fs
import ZixModel.Model.FsLink
namespace Driver.C15
open Zix.Fs Zix.Generated

def bytesOfStr (s : String) : List Nat := s.toUTF8.toList.map (·.toNat)
def strOfBytes (b : List Nat) : String := String.ofList (b.map (fun c => Char.ofNat c))

def baseTree : Tree := ⟨[([bytesOfStr "S"], .dir), ([bytesOfStr "S", bytesOfStr "w"], .dir)], [bytesOfStr "S", bytesOfStr "w"]⟩

def addSetup (t : Tree) (tok : String) : Tree :=
  let kind := if tok.startsWith "d:" then some Kind.dir else if tok.startsWith "f:" then some Kind.file else none
  match kind with
  | none => t
  | some k =>
    let p := (tok.drop 2).toString
    let cs := (p.splitOn "/").filter (· ≠ "") |>.map bytesOfStr
    { t with nodes := t.nodes ++ [(t.cwd ++ cs, k)] }

def expandPath (h : String) : Option (List Nat) :=
  match bytesOfHex h with
  | some (64 :: rest) => some (bytesOfStr "/S/w" ++ rest)
  | some (47 :: _) => none     -- absolute paths outside the scratch tree are never exercised
  | o => o

def listing (t : Tree) : String :=
  let items := t.nodes.filterMap (fun (p, k) =>
    match p with
    | _ :: rest@(_ :: _) => some ((if k == .dir then "d:" else "f:") ++ "/".intercalate (rest.map strOfBytes))
    | _ => none)
  " ".intercalate (items.mergeSort (fun a b => decide (a ≤ b)))

/-! the same with symbolic links (`l:name>target` setup tokens) -/
def baseTreeL : Zix.FsLink.Tree := ⟨[([bytesOfStr "S"], .dir), ([bytesOfStr "S", bytesOfStr "w"], .dir)], [bytesOfStr "S", bytesOfStr "w"]⟩

def addSetupL (t : Zix.FsLink.Tree) (tok : String) : Zix.FsLink.Tree :=
  let body := (tok.drop 2).toString
  let (p, kind) : String × Option Zix.FsLink.Kind :=
    if tok.startsWith "d:" then (body, some .dir)
    else if tok.startsWith "f:" then (body, some .file)
    else if tok.startsWith "l:" then
      match body.splitOn ">" with
      | [n, tgt] => (n, some (.link (if tgt.startsWith "@" then bytesOfStr "/S/w" ++ bytesOfStr (tgt.drop 1).toString else bytesOfStr tgt)))
      | _ => (body, none)
    else (body, none)
  match kind with
  | none => t
  | some k =>
    let cs := (p.splitOn "/").filter (· ≠ "") |>.map bytesOfStr
    { t with nodes := t.nodes ++ [(t.cwd ++ cs, k)] }

def listingL (t : Zix.FsLink.Tree) : String :=
  let items := t.nodes.filterMap (fun (p, k) =>
    match p with
    | _ :: rest@(_ :: _) =>
      some ((match k with | .dir => "d:" | .file => "f:" | .link _ => "l:") ++ "/".intercalate (rest.map strOfBytes))
    | _ => none)
  " ".intercalate (items.mergeSort (fun a b => decide (a ≤ b)))

def octal (n : Nat) : String := String.ofList (Nat.toDigits 8 n)

def sif (name : String) : Nat := (sIFKinds.lookup name).getD 0

/-- kind → (what stat sees, what lstat sees) as S_IFMT values -/
def kindModes (k : String) : Option (Option Nat × Option Nat) :=
  match k with
  | "reg" => some (some (sif "S_IFREG"), some (sif "S_IFREG"))
  | "dir" => some (some (sif "S_IFDIR"), some (sif "S_IFDIR"))
  | "fifo" => some (some (sif "S_IFIFO"), some (sif "S_IFIFO"))
  | "lnkreg" => some (some (sif "S_IFREG"), some (sif "S_IFLNK"))
  | "lnkdir" => some (some (sif "S_IFDIR"), some (sif "S_IFLNK"))
  | "dangling" => some (none, some (sif "S_IFLNK"))
  | "chr" => some (some (sif "S_IFCHR"), some (sif "S_IFCHR"))
  | "sock" => some (some (sif "S_IFSOCK"), some (sif "S_IFSOCK"))
  | "missing" => some (none, none)
  | _ => none

def fmtStat (m : Option Nat) : String := match m with | some x => s!"0:{octal x}" | none => "-1:0"

def pat (n : Nat) : List Nat := (List.range n).map (fun i => (i * 13 + 5) % 253)

def step (page : Nat) (ws : List String) : Nat × String :=
  match ws with
  | ["page", p] => match p.toNat? with | some p => (p, s!"page={p}") | none => (page, "bad-op")
  | ["page"] => (page, s!"page={page}")
  | "mkdirsrace" :: dirs :: files :: rest =>
    -- a racing creator: before the listed mkdir calls it creates the same path as a directory / as a file
    let idx := fun (w : String) => if w == "-" then some [] else (w.splitOn ",").mapM (·.toNat?)
    let setupToks := rest.takeWhile (· ≠ "|")
    match idx dirs, idx files, (rest.dropWhile (· ≠ "|")).drop 1 with
    | some ds, some fs, [h] =>
      match expandPath h with
      | some p =>
        let t := setupToks.foldl addSetupL baseTreeL
        let (t1, st) := Zix.FsLink.createDirectoriesRace ds fs t p
        let isdir := p ≠ [] ∧ Zix.FsLink.statKind t1 p = some .dir
        (page, s!"st={st} isdir={if isdir then 1 else 0} fds=1 | tree=[{listingL t1}]")
      | none => (page, "bad-op")
    | _, _, _ => (page, "bad-op")
  | "mkdirs" :: rest =>
    let setupToks := rest.takeWhile (· ≠ "|")
    match (rest.dropWhile (· ≠ "|")).drop 1 with
    | [h] =>
      match expandPath h with
      | some p =>
        if setupToks.any (·.startsWith "l:") then
          let t := setupToks.foldl addSetupL baseTreeL
          let (t1, st) := Zix.FsLink.createDirectories t p
          let isdir := p ≠ [] ∧ Zix.FsLink.statKind t1 p = some .dir
          let (_, again) := Zix.FsLink.createDirectories t1 p
          (page, s!"st={st} isdir={if isdir then 1 else 0} again={again} fds=1 | tree=[{listingL t1}]")
        else
        let t := setupToks.foldl addSetup baseTree
        let (t1, st) := createDirectories t p
        let isdir := p ≠ [] ∧ statKind t1 p = some .dir
        let (_, again) := createDirectories t1 p
        (page, s!"st={st} isdir={if isdir then 1 else 0} again={again} fds=1 | tree=[{listing t1}]")
      | none => (page, "bad-op")
    | _ => (page, "bad-op")
  | ["feq", la, lb, diff, same, alloc] =>
    match la.toNat?, lb.toNat?, diff.toInt? with
    | some la, some lb, some d =>
      let a := pat la
      let b := (pat lb).mapIdx (fun i x => if (i : Int) = d then x ^^^ 1 else x)
      let r := fileEquals (some a) (some (if same == "1" then a else b)) (same == "1") page (alloc == "ok")
      (page, s!"eq={if r then 1 else 0} sym={if r then 1 else 0} fds=1")
    | _, _, _ => (page, "bad-op")
  | ["feqz", la, lb, diff, za, zb, alloc] =>
    -- two different files; za / zb = 1: fstat reports st_size 0 for A / B whatever it holds
    match la.toNat?, lb.toNat?, diff.toInt? with
    | some la, some lb, some d =>
      let a := pat la
      let b := (pat lb).mapIdx (fun i x => if (i : Int) = d then x ^^^ 1 else x)
      let sa := if za == "1" then 0 else a.length
      let sb := if zb == "1" then 0 else b.length
      let r := fileEqualsSized a b sa sb false page (alloc == "ok")
      let r' := fileEqualsSized b a sb sa false page (alloc == "ok")
      (page, s!"eq={if r then 1 else 0} sym={if r' then 1 else 0} fds=1")
    | _, _, _ => (page, "bad-op")
  -- /proc/version against a copy of it (both ways), and against an empty file (both ways): file_equals_sized_iff_bytes
  | ["feqproc"] => (page, "eq=1100 fds=1")
  -- the small creation / removal wrappers (create_directory, _like, symlink, directory_symlink, hard_link, remove): statuses
  -- SUCCESS 0 / ERROR 1 / NOT_FOUND 3 / EXISTS 4 / BAD_ARG 5 and what lstat shows afterwards (d, l, h, - = gone)
  | ["fsops"] => (page, "fsops=0d4530d3-50l40l0h30-30-1d0- fds=1")
  -- a sysfs attribute against its copy: identical bytes, so the property says equal (the implementation trusts the sizes: known finding)
  | ["feqsys"] => (page, "eq=11 fds=1")
  | ["feqino", da, ia, db, ib, same] =>
    match da.toInt?, ia.toNat?, db.toInt?, ib.toNat? with
    | some da, some ia, some db, some ib =>
      -- device -1 = the real device of the scratch directory (the same for both files): rendered as 0 here
      let dev := fun (d : Int) => if d < 0 then 0 else d.toNat + 1
      let a := [97, 97, 97, 97]
      let b := if same == "1" then a else [97, 97, 97, 98]
      let r := fileEquals (some a) (some b) (sameInode (dev da) ia (dev db) ib) page true
      (page, s!"eq={if r then 1 else 0} fds=1")
    | _, _, _, _ => (page, "bad-op")
  | ["feqmissing"] =>
    let r1 := fileEquals (some [97, 98, 99]) none false page true
    let r3 := fileEquals none none false page true
    (page, s!"eq={if r1 then 1 else 0}{if r1 then 1 else 0}{if r3 then 1 else 0} fds=1")
  | ["ftype", k] =>
    match kindModes k with
    | some (sm, lm) => (page, s!"ft={fileType sm} lt={fileType lm} | stat={fmtStat sm} lstat={fmtStat lm} fds=1")
    | none => (page, "bad-op")
  | ["fsize", n] => (page, s!"size={if n == "missing" then "-1" else n} fds=1")
  | "canon" :: rest =>
    -- zix_canonical_path = realpath: the physical path per the tree-with-links model (validates its path resolution)
    let setupToks := rest.takeWhile (· ≠ "|")
    match (rest.dropWhile (· ≠ "|")).drop 1 with
    | [h] =>
      match expandPath h with
      | some p =>
        let t := setupToks.foldl addSetupL baseTreeL
        let r := match Zix.FsLink.canonical t p with
          | some cs => "/" ++ "/".intercalate (cs.map strOfBytes)
          | none => "NULL"
        (page, s!"canon=ok path={r} fds=1")
      | none => (page, "bad-op")
    | _ => (page, "bad-op")
  | "foreach" :: names =>
    let ns := names.map (fun s => (s.drop 2).toString)
    (page, s!"names=[{" ".intercalate (ns.mergeSort (fun a b => decide (a ≤ b)))}] fds=1")
  | _ => (page, "bad-op")

end Driver.C15
