import Driver.Util
import ZixModel.Model.Env
import ZixModel.Model.EnvAlloc
namespace Driver.C16
open Zix.Env

def parseAll (ws : List String) : Option (List (List Nat)) :=
  ws.foldr (fun w acc => match bytesOfHex w, acc with
    | some b, some l => some (b :: l)
    | _, _ => none) (some [])

/-- state: the environment; `none` = `environ == NULL` (behaves as empty) -/
def step (env : List (List Nat)) (ws : List String) : List (List Nat) × String :=
  match ws with
  | "env" :: rest =>
    match parseAll rest with
    | some e => if e.all (fun x => !x.contains 0) then (e, "env") else (env, "bad-op")
    | none => (env, "bad-op")
  | ["envnull"] => ([], "env")
  | ["expand", h] =>
    match bytesOfHex h with
    | some s =>
      if s.contains 0 then (env, "bad-op") else
      match expand env s with
      | some o => (env, "out=" ++ hexOfBytes o)
      | none => (env, "out=DIVERGES")
    | none => (env, "bad-op")
  | ["expanda", mask, h] =>
    -- the call under an allocation oracle: requests with the listed indexes are refused
    let idx := if mask == "-" then some [] else (mask.splitOn ",").mapM (·.toNat?)
    match idx, bytesOfHex h with
    | some ks, some s =>
      if s.contains 0 then (env, "bad-op") else
      let o := fun (x : Option Nat) => toString (x.getD 0)
      let fmtEv : Zix.EnvAlloc.Ev → String
        | .realloc old size res => s!"r{o old}:{size}={o res}"
        | .free b => s!"f{o b}"
      match Zix.EnvAlloc.expandA (fun k => ks.contains k) env s with
      | some r =>
        let out := match r.ret with | some (_, bytes) => hexOfBytes bytes | none => "NULL"
        (env, s!"out={out} | ev[{" ".intercalate (r.evs.map fmtEv)}]")
      | none => (env, "out=DIVERGES")
    | _, _ => (env, "bad-op")
  | _ => (env, "bad-op")

end Driver.C16
