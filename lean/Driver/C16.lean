import Driver.Util
import ZixModel.Model.Env
namespace Driver.C16
open Zix.Env

def parseAll (ws : List String) : Option (List (List Nat)) :=
  ws.foldr (fun w acc => match bytesOfHex w, acc with
    | some b, some l => some (b :: l)
    | _, _ => none) (some [])

/-- state: the environment; `none` = `environ == NULL` (behaves as empty) -/
def step (env : List (List Nat)) (ws : List String) : List (List Nat) × String :=
  match ws with
  | "env" :: rest =>
    match parseAll rest with
    | some e => if e.all (fun x => !x.contains 0) then (e, "env") else (env, "bad-op")
    | none => (env, "bad-op")
  | ["envnull"] => ([], "env")
  | ["expand", h] =>
    match bytesOfHex h with
    | some s =>
      if s.contains 0 then (env, "bad-op") else
      match expand env s with
      | some o => (env, "out=" ++ hexOfBytes o)
      | none => (env, "out=DIVERGES")
    | none => (env, "bad-op")
  | _ => (env, "bad-op")

end Driver.C16
