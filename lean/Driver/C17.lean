import Driver.Util
import ZixModel.Model.Sem
namespace Driver.C17
open Zix.Sem Zix.Errno

def parseOutcome (w : String) : Option SysRes :=
  if w == "ok" then some .ok
  else match errnoOf w with
    | some e => some (.err e)
    | none => (w.toInt?).map .err

def parseOutcomes (ws : List String) : Option (List SysRes) :=
  ws.foldr (fun w acc => match parseOutcome w, acc with
    | some o, some l => some (o :: l)
    | _, _ => none) (some [])

def step (_ : Unit) (ws : List String) : Unit × String :=
  match ws with
  | "wait" :: rest | "try" :: rest =>
    match parseOutcomes rest with
    | some o =>
      -- when the script runs out the harness's kernel stub succeeds
      match retry (o ++ [.ok]) 0 with
      | some (st, n) => ((), s!"st={st} calls={n}")
      | none => ((), "bad-op")
    | none => ((), "bad-op")
  | ["post", r] | ["destroy", r] =>
    match parseOutcome r with
    | some o => ((), s!"st={once o} calls=1")
    | none => ((), "bad-op")
  | ["init", v, r] =>
    match v.toNat?, parseOutcome r with
    | some v, some o => if v < 2 ^ 32 then ((), s!"st={once o} calls=1 pshared={(semInitArgs v).1} value={(semInitArgs v).2}") else ((), "bad-op")
    | _, _ => ((), "bad-op")
  | "timed" :: ns :: nn :: s :: n :: clk :: rest =>
    match ns.toInt?, nn.toInt?, s.toNat?, n.toNat?, parseOutcome clk, parseOutcomes rest with
    | some ns, some nn, some s, some n, some clk, some o =>
      if s < 2 ^ 32 ∧ n < 2 ^ 32 ∧ 0 ≤ nn ∧ nn < NS then
        match semTimedWait clk ⟨ns, nn⟩ s n (o ++ [.ok]) with
        | some (st, k, some d) => ((), s!"st={st} calls={k} abstime={d.sec},{d.nsec}")
        | some (st, k, none) => ((), s!"st={st} calls={k} abstime=none")
        | none => ((), "bad-op")
      else ((), "bad-op")
    | _, _, _, _, _, _ => ((), "bad-op")
  -- real-thread experiments (support): what the abstract counter (`sem_conservation`, `sem_no_lost_wakeup`) and the
  -- timeout clause predict for the counters the stress harness prints
  | ["stress", ini, np, nw, units, _, _] =>
    match ini.toNat?, np.toNat?, nw.toNat?, units.toNat? with
    | some ini, some np, some nw, some units =>
      if np < 1 ∨ nw < 1 ∨ np > 64 ∨ nw > 64 ∨ (ini + np * units) % nw ≠ 0 then ((), "bad-op")
      else ((), s!"stress errors=0 overdraw=0 waits={ini + np * units} expected={ini + np * units} leftover=0")
    | _, _, _, _ => ((), "bad-op")
  | ["trycount", c] =>
    match c.toNat? with
    | some c => ((), s!"trycount ok={c} then=UNAVAILABLE")
    | none => ((), "bad-op")
  | ["timeout", _, _, _] => ((), "timeout st=TIMEOUT early=0")
  | _ => ((), "bad-op")

end Driver.C17
