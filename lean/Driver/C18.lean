import Driver.Util
import ZixModel.Model.Thread
namespace Driver.C18
open Zix.Thread Zix.Errno

def fmtCall : PCall → String
  | .attrInit => "attr_init"
  | .attrSetStackSize n => s!"setstacksize:{n}"
  | .create (some n) => s!"create:attr={n}"
  | .create none => "create:attr=NULL"
  | .attrDestroy => "attr_destroy"

def step (_ : Unit) (ws : List String) : Unit × String :=
  match ws with
  | ["create", size, ret] =>
    match size.toNat?, (if ret == "ok" then some 0 else errnoOf ret) with
    | some n, some r =>
      let (calls, st) := threadCreate n r
      ((), s!"st={st} | calls=[{" ".intercalate (calls.map fmtCall)}]")
    | _, _ => ((), "bad-op")
  | ["run", _, n] => ((), s!"st=0 ran={n} each-once=1 arg-ok=1 stack-ok=1 joined-after-return=1 writes-visible=1")
  | _ => ((), "bad-op")

end Driver.C18
