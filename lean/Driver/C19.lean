import Driver.Util
import ZixModel.Model.Lock
namespace Driver.C19
open Zix.Lock Zix.Errno

def parseMode (w : String) : Option Mode := if w == "block" then some .block else if w == "try" then some .try_ else none

def optSt (o : Option Int) : String := match o with | some s => toString s | none => "BLOCKED"

/-- state: the flock table for the scripted (interposed) run -/
def step (t : Table) (ws : List String) : Table × String :=
  match ws with
  | "flags" :: op :: mode :: ret :: rest =>
    -- the flock() call zix makes (fd is the handle's), and the status for a scripted kernel result: the first
    -- `times` calls (default 1) fail with the given errno, later ones succeed
    match parseMode mode, (if ret == "ok" then some (0 : Int) else errnoOf ret), (match rest with | [] => some 1 | [k] => k.toNat? | _ => none) with
    | some m, some e, some times =>
      let fl := if op == "lock" then lockFlags m else unlockFlags m
      if op == "lock" ∧ e = 4 then
        -- interrupted `times` times, then granted (scripted: the table is free)
        let r := fileLockSig ⟨[]⟩ 0 m times
        (t, s!"st={optSt r.2.1} calls={r.2.2} | flock-flags={fl}")
      else
        (t, s!"st={if e = 0 ∨ times = 0 then 0 else errnoStatus e} calls=1 | flock-flags={fl}")
    | _, _, _ => (t, "bad-op")
  | ["reset"] => (⟨[]⟩, "reset")
  | ["lock", h, mode] =>
    match h.toNat?, parseMode mode with
    | some h, some m => let (t', st) := fileLock t h m; (t', s!"st={optSt st} | holders={t'.holders}")
    | _, _ => (t, "bad-op")
  | ["unlock", h, mode] =>
    match h.toNat?, parseMode mode with
    | some h, some m => let (t', st) := fileUnlock t h m; (t', s!"st={optSt st} | holders={t'.holders}")
    | _, _ => (t, "bad-op")
  | ["close", h] =>
    match h.toNat? with
    | some h => let t' := closeOfd t h; (t', s!"closed | holders={t'.holders}")
    | none => (t, "bad-op")
  -- unlocking releases the lock whatever state the stream is in (theorem unlock_releases: flock(LOCK_UN) is the only effect)
  | ["dirtyunlock", _] => (t, "unlock-st=0 released=1")
  -- theorem block_interrupted_returns_only_when_acquired
  | ["sigwait", _] => (t, "st=0 after-release=1")
  | ["contend", _, _, _] => (t, "violations=0 acquired=all blocked-until-release=1")
  | _ => (t, "bad-op")

end Driver.C19
