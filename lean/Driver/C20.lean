import Driver.Util
import ZixModel.Model.Status
import ZixModel.Model.StrView
namespace Driver.C20
open Zix

def step (_ : Unit) (ws : List String) : Unit × String :=
  match ws with
  | ["strerror", n] =>
    match n.toInt? with
    | some v => ((), "msg " ++ hexOfBytes (Status.strerror v))
    | none => ((), "bad-op")
  | ["veq", mem, ao, al, bo, bl] =>
    match bytesOfHex mem, ao.toNat?, al.toNat?, bo.toNat?, bl.toNat? with
    | some m, some ao, some al, some bo, some bl =>
      if ao + al ≤ m.length ∧ bo + bl ≤ m.length then
        ((), "eq " ++ (if StrView.viewEquals m ⟨ao, al⟩ ⟨bo, bl⟩ then "1" else "0"))
      else ((), "bad-op")
    | _, _, _, _, _ => ((), "bad-op")
  | ["vcopy", mem, o, l] =>
    match bytesOfHex mem, o.toNat?, l.toNat? with
    | some m, some o, some l =>
      if o + l ≤ m.length then ((), "copy " ++ hexOfBytes (StrView.viewCopy m ⟨o, l⟩))
      else ((), "bad-op")
    | _, _, _ => ((), "bad-op")
  | ["selfcheck"] =>
    -- one line per enumerator: value, header text, strerror text, well-formedness
    let rows := Generated.statusEnum.map fun p =>
      s!"row {p.1} hdr={hexOfBytes p.2} msg={hexOfBytes (Status.strerror p.1)} wf={if Status.wellFormed (Status.strerror p.1) then 1 else 0}"
    ((), "\n".intercalate (rows ++ [s!"default msg={hexOfBytes Generated.strerrorDefault} wf={if Status.wellFormed Generated.strerrorDefault then 1 else 0}"]))
  | _ => ((), "bad-op")

end Driver.C20
