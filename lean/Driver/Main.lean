import Driver.Util
import Driver.C20
import Driver.C09
import Driver.C05
import Driver.C16
import Driver.C17
import Driver.C13
import Driver.C03
import Driver.C06
import Driver.C01
import Driver.C10
import Driver.C14
import Driver.C15
import Driver.C18
import Driver.C19
import Driver.C04

def main (args : List String) : IO UInt32 := do
  let stdin ← IO.getStdin
  let stdout ← IO.getStdout
  match args with
  | ["c20"] => Driver.lineLoop stdin stdout () Driver.C20.step; return 0
  | ["c09"] => Driver.lineLoop stdin stdout (Zix.Bump.init 0 0) Driver.C09.step; return 0
  | ["c05"] => Driver.lineLoop stdin stdout (⟨Zix.Ring.new 1, none⟩ : Driver.C05.St) Driver.C05.step; return 0
  | ["c16"] => Driver.lineLoop stdin stdout ([] : List (List Nat)) Driver.C16.step; return 0
  | ["c17"] => Driver.lineLoop stdin stdout () Driver.C17.step; return 0
  | ["c13"] => Driver.lineLoop stdin stdout () Driver.C13.step; return 0
  | ["c03"] => Driver.lineLoop stdin stdout ({ t := Zix.Hash.new, keys := [], failNext := false } : Driver.C03.St) Driver.C03.step; return 0
  | ["c06"] => Driver.lineLoop stdin stdout (Zix.Avl.Tree.new false) Driver.C06.step; return 0
  | ["c01"] => Driver.lineLoop stdin stdout (⟨true, ⟨6, 3, 6⟩, none, ⟨1, 0⟩, none, none⟩ : Driver.C01.St) Driver.C01.step; return 0
  | ["c01", "nocmp"] => Driver.lineLoop stdin stdout (⟨false, ⟨6, 3, 6⟩, none, ⟨1, 0⟩, none, none⟩ : Driver.C01.St) Driver.C01.step; return 0
  | ["c10"] => Driver.lineLoop stdin stdout () Driver.C10.step; return 0
  | ["c14"] => Driver.lineLoop stdin stdout () Driver.C14.step; return 0
  | ["c15", page] => Driver.lineLoop stdin stdout (page.toNat?.getD 4096) Driver.C15.step; return 0
  | ["c18"] => Driver.lineLoop stdin stdout () Driver.C18.step; return 0
  | ["c19"] => Driver.lineLoop stdin stdout (⟨[]⟩ : Zix.Lock.Table) Driver.C19.step; return 0
  | ["c04"] => Driver.lineLoop stdin stdout () Driver.C04.step; return 0
  | _ => IO.eprintln "usage: zixdriver <component> < script"; return 2
