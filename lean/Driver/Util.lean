/-! Line-protocol helpers shared by the model drivers. -/
namespace Driver

def words (line : String) : List String :=
  (line.trimAscii.toString.splitOn " ").filter (· ≠ "")

def hexDigit (n : Nat) : Char :=
  if n < 10 then Char.ofNat (48 + n) else Char.ofNat (87 + n)

def hexOfBytes (bs : List Nat) : String :=
  if bs.isEmpty then "-" else
  String.ofList (bs.foldr (fun b acc => hexDigit (b / 16 % 16) :: hexDigit (b % 16) :: acc) [])

def hexVal (c : Char) : Option Nat :=
  if '0' ≤ c ∧ c ≤ '9' then some (c.toNat - 48)
  else if 'a' ≤ c ∧ c ≤ 'f' then some (c.toNat - 87)
  else if 'A' ≤ c ∧ c ≤ 'F' then some (c.toNat - 55)
  else none

def bytesOfHexAux : List Char → List Nat → Option (List Nat)
  | [], acc => some acc.reverse
  | [_], _ => none
  | a :: b :: rest, acc =>
    match hexVal a, hexVal b with
    | some x, some y => bytesOfHexAux rest ((x * 16 + y) :: acc)
    | _, _ => none

/-- "-" is the empty byte string. -/
def bytesOfHex (s : String) : Option (List Nat) :=
  if s == "-" then some [] else bytesOfHexAux s.toList []

def intOfString (s : String) : Option Int := s.toInt?

partial def lineLoop {σ : Type} (h : IO.FS.Stream) (out : IO.FS.Stream) (st : σ)
    (step : σ → List String → σ × String) : IO Unit := do
  let line ← h.getLine
  if line.isEmpty then
    out.flush
    return ()
  let ws := words line
  match ws with
  | [] => lineLoop h out st step
  | "#" :: _ => lineLoop h out st step
  | "==" :: rest =>
    out.putStrLn (" ".intercalate ("==" :: rest))
    lineLoop h out st step
  | _ =>
    -- "fd0 <op …>": the harness runs the operation with descriptor 0 free; the model does not depend on descriptor numbers
    let ws := match ws with | "fd0" :: rest => if rest.isEmpty then ws else rest | _ => ws
    let (st', o) := step st ws
    out.putStrLn o
    lineLoop h out st' step

end Driver
