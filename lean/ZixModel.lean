import ZixModel.Properties.C20
import ZixModel.Properties.C09
import ZixModel.Properties.C05
import ZixModel.Properties.C16
import ZixModel.Properties.C17
import ZixModel.Properties.C13
import ZixModel.Properties.C03
import ZixModel.Properties.C06
