import ZixModel.Properties.C20
