import ZixModel.Properties.C20
open Zix.C20
#print axioms strerror_matches_header
#print axioms enum_values_nodup
#print axioms strerror_distinct
#print axioms strerror_wellformed_enum
#print axioms cases_subset_enum
#print axioms strerror_default_text
#print axioms strerror_out_of_range
#print axioms strerror_total_wellformed
#print axioms strerror_success
#print axioms strerror_no_mem
#print axioms view_equals_iff
#print axioms view_copy_exact
