def hello := "world"
