import ZixModel.Model.Avl
/-! Helper lemmas for C06 (AVL tree model).  `Bal` and `lins` are copies of `Balanced` and
`listInsert` of `Properties/C06.lean` (which imports this file); the property file shows them equal. -/
namespace Zix.Avl
open T

/-- Same as `Zix.C06.Balanced`. -/
def Bal : T → Prop
  | .nil => True
  | .node l _ _ b r =>
    Bal l ∧ Bal r ∧ b = (r.height : Int) - (l.height : Int) ∧ -1 ≤ b ∧ b ≤ 1

/-- Same as `Zix.C06.listInsert`. -/
def lins (e : Int) (id : Nat) : List (Nat × Int) → List (Nat × Int)
  | [] => [(id, e)]
  | (i, k) :: rest => if e < k then (id, e) :: (i, k) :: rest else (i, k) :: lins e id rest

def fibo : Nat → Nat
  | 0 => 0
  | 1 => 1
  | n + 2 => fibo n + fibo (n + 1)

/-! ## basic facts -/

theorem height_eq_zero {t : T} : t.height = 0 ↔ t = .nil := by
  cases t <;> simp [T.height]

theorem size_eq_length (t : T) : t.size = t.inorder.length := by
  induction t with
  | nil => rfl
  | node l i k b r ihl ihr => simp [T.size, T.inorder, ihl, ihr]; omega

theorem postorder_perm (t : T) : t.postorder.Perm t.inorder := by
  induction t with
  | nil => exact List.Perm.refl _
  | node l i k b r ihl ihr =>
    simp only [T.postorder, T.inorder]
    have h1 : (l.postorder ++ r.postorder ++ [(i, k)]).Perm (l.postorder ++ ((i, k) :: r.postorder)) := by
      rw [List.append_assoc]
      exact List.Perm.append_left _ (List.perm_append_singleton _ _)
    exact h1.trans (List.Perm.append ihl (List.Perm.cons _ ihr))

/-! ## rotations -/

/-- Left-heavy node (stored balance −2 = true height difference): `rebalance` restores balance,
keeps the in-order list, and loses one level exactly when the left child was not even. -/
theorem rebalance_left (l : T) (i : Nat) (k : Int) (r : T) (hl : Bal l) (hr : Bal r)
    (hd : (r.height : Int) - (l.height : Int) = -2) :
    Bal (rebalance (node l i k (-2) r)) ∧
    (rebalance (node l i k (-2) r)).inorder = l.inorder ++ (i, k) :: r.inorder ∧
    ((l.bal ≠ 0 ∧ (rebalance (node l i k (-2) r)).bal = 0 ∧
        (rebalance (node l i k (-2) r)).height = l.height) ∨
     (l.bal = 0 ∧ (rebalance (node l i k (-2) r)).bal ≠ 0 ∧
        (rebalance (node l i k (-2) r)).height = l.height + 1)) := by
  cases l with
  | nil => simp [T.height] at hd <;> omega
  | node a qi qk qb c =>
    simp only [Bal] at hl
    obtain ⟨ha, hc, hqb, hq1, hq2⟩ := hl
    by_cases h1 : qb = 1
    · -- left-right
      subst h1
      cases c with
      | nil => simp [T.height] at hqb; omega
      | node c1 ri rk rb c2 =>
        simp only [Bal] at hc
        obtain ⟨hc1, hc2, hrb, hr1, hr2⟩ := hc
        simp only [T.height] at hd hqb
        simp only [rebalance, T.bal, ↓reduceIte, rotateLeftRight, Bal, T.inorder, T.height]
        refine ⟨⟨⟨ha, hc1, ?_, ?_, ?_⟩, ⟨hc2, hr, ?_, ?_, ?_⟩, ?_, ?_, ?_⟩, ?_, ?_⟩
        all_goals first | omega | (simp [List.append_assoc] <;> omega)
    · simp only [T.height] at hd
      simp only [rebalance, T.bal, h1, ↓reduceIte, rotateRight, Bal, T.inorder, T.height]
      refine ⟨⟨ha, ⟨hc, hr, ?_, ?_, ?_⟩, ?_, ?_, ?_⟩, ?_, ?_⟩
      all_goals first | omega | (simp [List.append_assoc] <;> omega)

/-- Right-heavy node: mirror image of `rebalance_left`. -/
theorem rebalance_right (l : T) (i : Nat) (k : Int) (r : T) (hl : Bal l) (hr : Bal r)
    (hd : (r.height : Int) - (l.height : Int) = 2) :
    Bal (rebalance (node l i k 2 r)) ∧
    (rebalance (node l i k 2 r)).inorder = l.inorder ++ (i, k) :: r.inorder ∧
    ((r.bal ≠ 0 ∧ (rebalance (node l i k 2 r)).bal = 0 ∧
        (rebalance (node l i k 2 r)).height = r.height) ∨
     (r.bal = 0 ∧ (rebalance (node l i k 2 r)).bal ≠ 0 ∧
        (rebalance (node l i k 2 r)).height = r.height + 1)) := by
  have h22 : ¬ ((2 : Int) = -2) := by decide
  cases r with
  | nil => simp [T.height] at hd <;> omega
  | node a qi qk qb c =>
    simp only [Bal] at hr
    obtain ⟨ha, hc, hqb, hq1, hq2⟩ := hr
    by_cases h1 : qb = -1
    · -- right-left
      subst h1
      cases a with
      | nil => simp [T.height] at hqb <;> omega
      | node a1 ri rk rb a2 =>
        simp only [Bal] at ha
        obtain ⟨ha1, ha2, hrb, hr1, hr2⟩ := ha
        simp only [T.height] at hd hqb
        simp only [rebalance, T.bal, h22, ↓reduceIte, rotateRightLeft, Bal, T.inorder, T.height]
        refine ⟨⟨⟨hl, ha1, ?_, ?_, ?_⟩, ⟨ha2, hc, ?_, ?_, ?_⟩, ?_, ?_, ?_⟩, ?_, ?_⟩
        all_goals first | omega | (simp [List.append_assoc] <;> omega)
    · simp only [T.height] at hd
      simp only [rebalance, T.bal, h22, h1, ↓reduceIte, rotateLeft, Bal, T.inorder, T.height]
      refine ⟨⟨⟨hl, ha, ?_, ?_, ?_⟩, hc, ?_, ?_, ?_⟩, ?_, ?_⟩
      all_goals first | omega | (simp [List.append_assoc] <;> omega)

/-! ## list insertion -/

theorem lins_append_lt (e : Int) (id : Nat) (l : List (Nat × Int)) (i : Nat) (k : Int)
    (r : List (Nat × Int)) (h : e < k) :
    lins e id (l ++ (i, k) :: r) = lins e id l ++ (i, k) :: r := by
  induction l with
  | nil => simp [lins, h]
  | cons p l ih =>
    obtain ⟨j, m⟩ := p
    simp only [List.cons_append, lins]
    split <;> simp [ih]

theorem lins_append_ge (e : Int) (id : Nat) (l : List (Nat × Int)) (i : Nat) (k : Int)
    (r : List (Nat × Int)) (h1 : ∀ p ∈ l, p.2 ≤ e) (h2 : k ≤ e) :
    lins e id (l ++ (i, k) :: r) = l ++ (i, k) :: lins e id r := by
  induction l with
  | nil =>
    have : ¬ e < k := by omega
    simp [lins, this]
  | cons p l ih =>
    obtain ⟨j, m⟩ := p
    have hm : ¬ e < m := by
      have := h1 (j, m) (by simp)
      simp at this; omega
    simp only [List.cons_append, lins, hm, ↓reduceIte]
    rw [ih (fun p hp => h1 p (by simp [hp]))]

theorem lins_perm (e : Int) (id : Nat) (l : List (Nat × Int)) :
    (lins e id l).Perm ((id, e) :: l) := by
  induction l with
  | nil => exact List.Perm.refl _
  | cons p l ih =>
    obtain ⟨j, m⟩ := p
    simp only [lins]
    split
    · exact List.Perm.refl _
    · exact (List.Perm.cons _ ih).trans (List.Perm.swap _ _ _)

theorem mem_lins {e : Int} {id : Nat} {l : List (Nat × Int)} {p : Nat × Int} :
    p ∈ lins e id l ↔ p = (id, e) ∨ p ∈ l := by
  rw [(lins_perm e id l).mem_iff]; simp

theorem lins_sorted (e : Int) (id : Nat) (l : List (Nat × Int))
    (hs : (l.map (·.2)).Pairwise (· ≤ ·)) : ((lins e id l).map (·.2)).Pairwise (· ≤ ·) := by
  induction l with
  | nil => simp [lins]
  | cons p l ih =>
    obtain ⟨j, m⟩ := p
    simp only [List.map_cons, List.pairwise_cons] at hs
    obtain ⟨h1, h2⟩ := hs
    simp only [lins]
    split
    · rename_i hlt
      simp only [List.map_cons, List.pairwise_cons]
      refine ⟨?_, h1, h2⟩
      intro a ha
      simp only [List.mem_cons] at ha
      rcases ha with rfl | ha
      · omega
      · have := h1 a ha; omega
    · rename_i hge
      simp only [List.map_cons, List.pairwise_cons]
      refine ⟨?_, ih h2⟩
      intro a ha
      simp only [List.mem_map] at ha
      obtain ⟨q, hq, rfl⟩ := ha
      rcases mem_lins.1 hq with rfl | hq
      · simp; omega
      · exact h1 _ (List.mem_map_of_mem hq)

theorem lins_strict (e : Int) (id : Nat) (l : List (Nat × Int))
    (hs : (l.map (·.2)).Pairwise (· < ·)) (hne : e ∉ l.map (·.2)) :
    ((lins e id l).map (·.2)).Pairwise (· < ·) := by
  induction l with
  | nil => simp [lins]
  | cons p l ih =>
    obtain ⟨j, m⟩ := p
    simp only [List.map_cons, List.pairwise_cons] at hs
    obtain ⟨h1, h2⟩ := hs
    simp only [List.map_cons, List.mem_cons, not_or] at hne
    obtain ⟨hne1, hne2⟩ := hne
    simp only [lins]
    split
    · rename_i hlt
      simp only [List.map_cons, List.pairwise_cons]
      refine ⟨?_, h1, h2⟩
      intro a ha
      simp only [List.mem_cons] at ha
      rcases ha with rfl | ha
      · omega
      · have := h1 a ha; omega
    · rename_i hge
      simp only [List.map_cons, List.pairwise_cons]
      refine ⟨?_, ih h2 hne2⟩
      intro a ha
      simp only [List.mem_map] at ha
      obtain ⟨q, hq, rfl⟩ := ha
      rcases mem_lins.1 hq with rfl | hq
      · simp; omega
      · exact h1 _ (List.mem_map_of_mem hq)

theorem strict_imp_sorted (l : List Int) (h : l.Pairwise (· < ·)) : l.Pairwise (· ≤ ·) :=
  h.imp (fun hab => Int.le_of_lt hab)

theorem sorted_node {l : T} {i : Nat} {k b : Int} {r : T}
    (hs : ((node l i k b r).inorder.map (·.2)).Pairwise (· ≤ ·)) :
    (l.inorder.map (·.2)).Pairwise (· ≤ ·) ∧ (r.inorder.map (·.2)).Pairwise (· ≤ ·) ∧
    (∀ p ∈ l.inorder, p.2 ≤ k) ∧ (∀ p ∈ r.inorder, k ≤ p.2) := by
  simp only [T.inorder, List.map_append, List.map_cons, List.pairwise_append, List.pairwise_cons,
    List.mem_cons, List.mem_map] at hs
  obtain ⟨h1, ⟨h2, h3⟩, h4⟩ := hs
  refine ⟨h1, h3, ?_, ?_⟩
  · intro p hp
    exact h4 p.2 ⟨p, hp, rfl⟩ k (Or.inl rfl)
  · intro p hp
    exact h2 p.2 ⟨p, hp, rfl⟩

/-! ## insertion -/

/-- What a successful insertion returns. -/
def InsOk (e : Int) (id : Nat) (t t' : T) (grew : Bool) : Prop :=
  Bal t' ∧ t'.inorder = lins e id t.inorder ∧
  t'.height = t.height + (if grew then 1 else 0) ∧
  (grew = true → t'.bal ≠ 0 ∨ t'.height = 1)

theorem insertAux_spec (dups : Bool) (e : Int) (id : Nat) (t : T) (hb : Bal t)
    (hs : (t.inorder.map (·.2)).Pairwise (· ≤ ·)) :
    (dups = false ∧ ∃ i, insertAux dups e id t = .exists_ i ∧ (i, e) ∈ t.inorder) ∨
    ((dups = false → e ∉ t.inorder.map (·.2)) ∧
      ∃ t' grew, insertAux dups e id t = .done t' grew ∧ InsOk e id t t' grew) := by
  induction t with
  | nil =>
    right
    refine ⟨by simp [T.inorder], _, _, rfl, ?_⟩
    simp [InsOk, Bal, T.height, T.inorder, lins]
  | node l i k b r ihl ihr =>
    obtain ⟨hsl, hsr, hlk, hkr⟩ := sorted_node hs
    simp only [Bal] at hb
    obtain ⟨hbl, hbr, hbe, hb1, hb2⟩ := hb
    by_cases hlt : e < k
    · -- descend left
      rcases ihl hbl hsl with ⟨hd, x, hx, hmem⟩ | ⟨hnot, l', grew, hres, hbl', hino, hh, hg⟩
      · left
        refine ⟨hd, x, ?_, ?_⟩
        · simp only [insertAux, hlt, ↓reduceIte, hx]
        · simp [T.inorder, hmem]
      · right
        refine ⟨?_, ?_⟩
        · intro hd
          have := hnot hd
          simp only [T.inorder, List.map_append, List.map_cons, List.mem_append, List.mem_cons,
            not_or]
          refine ⟨this, by omega, ?_⟩
          intro hm
          simp only [List.mem_map] at hm
          obtain ⟨q, hq, rfl⟩ := hm
          have := hkr q hq
          omega
        · have hino' : ∀ b', (node l' i k b' r).inorder = lins e id (node l i k b r).inorder := by
            intro b'
            simp only [T.inorder, hino]
            rw [lins_append_lt _ _ _ _ _ _ hlt]
          cases grew with
          | false =>
            refine ⟨node l' i k b r, false, ?_, ?_⟩
            · simp only [insertAux, hlt, ↓reduceIte, hres]
              simp
            · simp only [Bool.false_eq_true, ↓reduceIte, Nat.add_zero] at hh
              refine ⟨?_, hino' b, ?_, by simp⟩
              · simp only [Bal]; exact ⟨hbl', hbr, by omega, hb1, hb2⟩
              · simp only [T.height, hh]; simp
          | true =>
            simp only [↓reduceIte] at hh
            have hg := hg rfl
            by_cases h2 : b - 1 = -2
            · have hd : (r.height : Int) - (l'.height : Int) = -2 := by omega
              obtain ⟨hB, hI, hH⟩ := rebalance_left l' i k r hbl' hbr hd
              have hl'0 : l'.bal ≠ 0 := by
                rcases hg with h | h
                · exact h
                · omega
              refine ⟨rebalance (node l' i k (-2) r), false, ?_, ?_⟩
              · simp only [insertAux, hlt, ↓reduceIte, hres, h2]
              · refine ⟨hB, ?_, ?_, by simp⟩
                · rw [hI]; have := hino' 0; simpa [T.inorder] using this
                · rcases hH with ⟨_, _, h⟩ | ⟨h, _⟩
                  · simp only [h, T.height]; simp; omega
                  · exact absurd h hl'0
            · refine ⟨node l' i k (b - 1) r, decide (b - 1 ≠ 0), ?_, ?_⟩
              · simp only [insertAux, hlt, ↓reduceIte, hres, h2]
              · refine ⟨?_, hino' _, ?_, ?_⟩
                · simp only [Bal]; exact ⟨hbl', hbr, by omega, by omega, by omega⟩
                · simp only [T.height, hh]
                  by_cases h0 : b - 1 = 0
                  · simp [h0]; omega
                  · simp [h0]; omega
                · intro hdec
                  left
                  simpa [T.bal] using hdec
    · -- not less
      by_cases hgo : e > k ∨ dups = true
      · rcases ihr hbr hsr with ⟨hd, x, hx, hmem⟩ | ⟨hnot, r', grew, hres, hbr', hino, hh, hg⟩
        · left
          refine ⟨hd, x, ?_, ?_⟩
          · simp only [insertAux, hlt, ↓reduceIte, hgo, hx]
          · simp [T.inorder, hmem]
        · right
          refine ⟨?_, ?_⟩
          · intro hd
            have := hnot hd
            have hgt : e > k := by
              rcases hgo with h | h
              · exact h
              · simp [hd] at h
            simp only [T.inorder, List.map_append, List.map_cons, List.mem_append, List.mem_cons,
              not_or]
            refine ⟨?_, by omega, this⟩
            intro hm
            simp only [List.mem_map] at hm
            obtain ⟨q, hq, rfl⟩ := hm
            have := hlk q hq
            omega
          · have hino' : ∀ b', (node l i k b' r').inorder = lins e id (node l i k b r).inorder := by
              intro b'
              simp only [T.inorder, hino]
              rw [lins_append_ge _ _ _ _ _ _ (fun p hp => by have := hlk p hp; omega) (by omega)]
            cases grew with
            | false =>
              refine ⟨node l i k b r', false, ?_, ?_⟩
              · simp only [insertAux, hlt, ↓reduceIte, hgo, hres]
                simp
              · simp only [Bool.false_eq_true, ↓reduceIte, Nat.add_zero] at hh
                refine ⟨?_, hino' b, ?_, by simp⟩
                · simp only [Bal]; exact ⟨hbl, hbr', by omega, hb1, hb2⟩
                · simp only [T.height, hh]; simp
            | true =>
              simp only [↓reduceIte] at hh
              have hg := hg rfl
              by_cases h2 : b + 1 = 2
              · have hd : (r'.height : Int) - (l.height : Int) = 2 := by omega
                obtain ⟨hB, hI, hH⟩ := rebalance_right l i k r' hbl hbr' hd
                have hr'0 : r'.bal ≠ 0 := by
                  rcases hg with h | h
                  · exact h
                  · omega
                refine ⟨rebalance (node l i k 2 r'), false, ?_, ?_⟩
                · simp only [insertAux, hlt, ↓reduceIte, hgo, hres, h2]
                · refine ⟨hB, ?_, ?_, by simp⟩
                  · rw [hI]; have := hino' 0; simpa [T.inorder] using this
                  · rcases hH with ⟨_, _, h⟩ | ⟨h, _⟩
                    · simp only [h, T.height]; simp; omega
                    · exact absurd h hr'0
              · refine ⟨node l i k (b + 1) r', decide (b + 1 ≠ 0), ?_, ?_⟩
                · simp only [insertAux, hlt, ↓reduceIte, hgo, hres, h2]
                · refine ⟨?_, hino' _, ?_, ?_⟩
                  · simp only [Bal]; exact ⟨hbl, hbr', by omega, by omega, by omega⟩
                  · simp only [T.height, hh]
                    by_cases h0 : b + 1 = 0
                    · simp [h0]; omega
                    · simp [h0]; omega
                  · intro hdec
                    left
                    simpa [T.bal] using hdec
      · left
        have hd : dups = false := by
          cases dups <;> simp at hgo ⊢
        have hek : e = k := by
          have : ¬ e > k := fun h => hgo (Or.inl h)
          omega
        refine ⟨hd, i, ?_, ?_⟩
        · simp only [insertAux, hlt, ↓reduceIte, hgo]
        · simp [T.inorder, hek]

/-! ## removal -/

/-- `node l i k b r` where `b` is the correct balance for a left subtree one level higher than `l`
(the left subtree just shrank). -/
theorem fixLeftShrunk_spec (l : T) (i : Nat) (k b : Int) (r : T) (hl : Bal l) (hr : Bal r)
    (hbe : b = (r.height : Int) - ((l.height : Int) + 1)) (hb1 : -1 ≤ b) (hb2 : b ≤ 1) :
    Bal (fixLeftShrunk (node l i k b r)).1 ∧
    (fixLeftShrunk (node l i k b r)).1.inorder = l.inorder ++ (i, k) :: r.inorder ∧
    max (l.height + 1) r.height + 1 =
      (fixLeftShrunk (node l i k b r)).1.height +
        (if (fixLeftShrunk (node l i k b r)).2 then 1 else 0) := by
  by_cases h1 : b + 1 = 1
  · have he : fixLeftShrunk (node l i k b r) = (node l i k (1) r, false) := by
      simp [fixLeftShrunk, h1]
    rw [he]
    simp only [Bal, T.inorder, T.height]
    refine ⟨⟨hl, hr, by omega, by omega, by omega⟩, trivial, ?_⟩
    simp; omega
  · by_cases h0 : b + 1 = 0
    · have he : fixLeftShrunk (node l i k b r) = (node l i k 0 r, true) := by
        simp [fixLeftShrunk, h0]
      rw [he]
      simp only [Bal, T.inorder, T.height]
      refine ⟨⟨hl, hr, by omega, by omega, by omega⟩, trivial, ?_⟩
      simp; omega
    · have h2 : b + 1 = 2 := by omega
      have hd : (r.height : Int) - (l.height : Int) = 2 := by omega
      obtain ⟨hB, hI, hH⟩ := rebalance_right l i k r hl hr hd
      simp only [fixLeftShrunk, h2]
      simp only [show ¬ ((2 : Int) = 1) by decide, show ¬ ((2 : Int) = 0) by decide, ↓reduceIte]
      refine ⟨hB, hI, ?_⟩
      rcases hH with ⟨_, hz, hh⟩ | ⟨_, hz, hh⟩
      · simp [hz, hh]; omega
      · simp [hz, hh]; omega

theorem fixRightShrunk_spec (l : T) (i : Nat) (k b : Int) (r : T) (hl : Bal l) (hr : Bal r)
    (hbe : b = ((r.height : Int) + 1) - (l.height : Int)) (hb1 : -1 ≤ b) (hb2 : b ≤ 1) :
    Bal (fixRightShrunk (node l i k b r)).1 ∧
    (fixRightShrunk (node l i k b r)).1.inorder = l.inorder ++ (i, k) :: r.inorder ∧
    max l.height (r.height + 1) + 1 =
      (fixRightShrunk (node l i k b r)).1.height +
        (if (fixRightShrunk (node l i k b r)).2 then 1 else 0) := by
  by_cases h1 : b - 1 = -1
  · have he : fixRightShrunk (node l i k b r) = (node l i k (-1) r, false) := by
      simp [fixRightShrunk, h1]
    rw [he]
    simp only [Bal, T.inorder, T.height]
    refine ⟨⟨hl, hr, by omega, by omega, by omega⟩, trivial, ?_⟩
    simp; omega
  · by_cases h0 : b - 1 = 0
    · have he : fixRightShrunk (node l i k b r) = (node l i k 0 r, true) := by
        simp [fixRightShrunk, h0]
      rw [he]
      simp only [Bal, T.inorder, T.height]
      refine ⟨⟨hl, hr, by omega, by omega, by omega⟩, trivial, ?_⟩
      simp; omega
    · have h2 : b - 1 = -2 := by omega
      have hd : (r.height : Int) - (l.height : Int) = -2 := by omega
      obtain ⟨hB, hI, hH⟩ := rebalance_left l i k r hl hr hd
      simp only [fixRightShrunk, h2]
      simp only [show ¬ ((-2 : Int) = -1) by decide, show ¬ ((-2 : Int) = 0) by decide, ↓reduceIte]
      refine ⟨hB, hI, ?_⟩
      rcases hH with ⟨_, hz, hh⟩ | ⟨_, hz, hh⟩
      · simp [hz, hh]; omega
      · simp [hz, hh]; omega

theorem removeMin_spec (t : T) (hne : t ≠ .nil) (hb : Bal t) :
    t.inorder = ((removeMin t).1, (removeMin t).2.1) :: (removeMin t).2.2.1.inorder ∧
    Bal (removeMin t).2.2.1 ∧
    t.height = (removeMin t).2.2.1.height + (if (removeMin t).2.2.2 then 1 else 0) := by
  induction t with
  | nil => exact absurd rfl hne
  | node l i k b r ihl _ =>
    simp only [Bal] at hb
    obtain ⟨hbl, hbr, hbe, hb1, hb2⟩ := hb
    cases hl : l with
    | nil =>
      subst hl
      simp only [T.height] at hbe
      simp only [removeMin, T.inorder, T.height]
      refine ⟨by simp, hbr, ?_⟩
      simp
    | node a j m c d =>
      rw [← hl]
      have hlne : l ≠ .nil := by rw [hl]; simp
      obtain ⟨hI, hB, hH⟩ := ihl hlne hbl
      have hunf : removeMin (node l i k b r) =
          (if (removeMin l).2.2.2 then
            ((removeMin l).1, (removeMin l).2.1,
              (fixLeftShrunk (node (removeMin l).2.2.1 i k b r)).1,
              (fixLeftShrunk (node (removeMin l).2.2.1 i k b r)).2)
           else ((removeMin l).1, (removeMin l).2.1, node (removeMin l).2.2.1 i k b r, false)) := by
        rw [hl]
        simp only [removeMin]
      rw [hunf]
      rcases hres : removeMin l with ⟨mi, mk, l', s⟩
      rw [hres] at hI hB hH
      simp only at hI hB hH ⊢
      cases s with
      | true =>
        simp only [↓reduceIte] at hH ⊢
        obtain ⟨fB, fI, fH⟩ := fixLeftShrunk_spec l' i k b r hB hbr (by omega) hb1 hb2
        refine ⟨?_, fB, ?_⟩
        · rw [fI]; simp [T.inorder, hI]
        · simp only [T.height, hH]; exact fH
      | false =>
        simp only [Bool.false_eq_true, ↓reduceIte, Nat.add_zero] at hH ⊢
        refine ⟨?_, ?_, ?_⟩
        · simp [T.inorder, hI]
        · simp only [Bal]; exact ⟨hB, hbr, by omega, hb1, hb2⟩
        · simp only [T.height, hH]

theorem removeRoot_spec (l : T) (i : Nat) (k b : Int) (r : T) (hb : Bal (node l i k b r)) :
    Bal (removeRoot (node l i k b r)).1 ∧
    (removeRoot (node l i k b r)).1.inorder = l.inorder ++ r.inorder ∧
    (node l i k b r).height =
      (removeRoot (node l i k b r)).1.height + (if (removeRoot (node l i k b r)).2 then 1 else 0) := by
  simp only [Bal] at hb
  obtain ⟨hbl, hbr, hbe, hb1, hb2⟩ := hb
  cases hl : l with
  | nil =>
    subst hl
    cases hr : r with
    | nil => simp [removeRoot, Bal, T.inorder, T.height]
    | node a j m c d =>
      rw [← hr]
      have : removeRoot (node nil i k b r) = (r, true) := by rw [hr]; simp [removeRoot]
      rw [this]
      simp only [T.height, T.inorder]
      refine ⟨hbr, by simp, ?_⟩
      simp
  | node a j m c d =>
    rw [← hl]
    have hlne : l ≠ .nil := by rw [hl]; simp
    cases hr : r with
    | nil =>
      have : removeRoot (node l i k b nil) = (l, true) := by rw [hl]; simp [removeRoot]
      rw [this]
      simp only [T.height, T.inorder]
      refine ⟨hbl, by simp, ?_⟩
      simp
    | node a' j' m' c' d' =>
      rw [← hr]
      have hrne : r ≠ .nil := by rw [hr]; simp
      have hunf : removeRoot (node l i k b r) =
          (if (removeMin r).2.2.2 then
              fixRightShrunk (node l (removeMin r).1 (removeMin r).2.1 b (removeMin r).2.2.1)
           else (node l (removeMin r).1 (removeMin r).2.1 b (removeMin r).2.2.1, false)) := by
        rw [hl, hr]
        simp only [removeRoot]
      rw [hunf]
      obtain ⟨hI, hB, hH⟩ := removeMin_spec r hrne hbr
      rcases hres : removeMin r with ⟨mi, mk, r', s⟩
      rw [hres] at hI hB hH
      simp only at hI hB hH ⊢
      cases s with
      | true =>
        simp only [↓reduceIte] at hH ⊢
        obtain ⟨fB, fI, fH⟩ := fixRightShrunk_spec l mi mk b r' hbl hB (by omega) hb1 hb2
        refine ⟨fB, ?_, ?_⟩
        · rw [fI, hI]
        · simp only [T.height, hH]; exact fH
      | false =>
        simp only [Bool.false_eq_true, ↓reduceIte, Nat.add_zero] at hH ⊢
        refine ⟨?_, ?_, ?_⟩
        · simp only [Bal]; exact ⟨hbl, hB, by omega, hb1, hb2⟩
        · simp [T.inorder, hI]
        · simp only [T.height, hH]

theorem removeId_none (id : Nat) (t : T) (hin : id ∉ t.inorder.map (·.1)) :
    removeId id t = none := by
  induction t with
  | nil => rfl
  | node l i k b r ihl ihr =>
    simp only [T.inorder, List.map_append, List.map_cons, List.mem_append, List.mem_cons,
      not_or] at hin
    obtain ⟨h1, h2, h3⟩ := hin
    have hne : ¬ i = id := fun h => h2 h.symm
    simp only [removeId, hne, ↓reduceIte, ihl h1, ihr h3]

theorem filter_ne_self (id : Nat) (l : List (Nat × Int)) (h : id ∉ l.map (·.1)) :
    l.filter (fun p => p.1 ≠ id) = l := by
  rw [List.filter_eq_self]
  intro a ha
  have : a.1 ≠ id := by
    intro he
    exact h (List.mem_map.2 ⟨a, ha, he⟩)
  simpa using this

theorem removeId_spec (id : Nat) (t : T) (hb : Bal t)
    (hnd : (t.inorder.map (·.1)).Nodup) (hin : id ∈ t.inorder.map (·.1)) :
    ∃ t' s, removeId id t = some (t', s) ∧ Bal t' ∧
      t'.inorder = t.inorder.filter (fun p => p.1 ≠ id) ∧
      t.height = t'.height + (if s then 1 else 0) := by
  induction t with
  | nil => simp [T.inorder] at hin
  | node l i k b r ihl ihr =>
    have hb' := hb
    simp only [Bal] at hb'
    obtain ⟨hbl, hbr, hbe, hb1, hb2⟩ := hb'
    simp only [T.inorder, List.map_append, List.map_cons, List.nodup_append, List.nodup_cons,
      List.mem_cons] at hnd
    obtain ⟨hndl, ⟨hir, hndr⟩, hdisj⟩ := hnd
    have hil : i ∉ l.inorder.map (·.1) := fun h => hdisj i h i (Or.inl rfl) rfl
    by_cases hi : i = id
    · subst hi
      obtain ⟨rB, rI, rH⟩ := removeRoot_spec l i k b r hb
      refine ⟨_, _, ?_, rB, ?_, rH⟩
      · simp only [removeId, ↓reduceIte]
      · rw [rI]
        simp only [T.inorder, List.filter_append, List.filter_cons]
        rw [filter_ne_self i _ hil, filter_ne_self i _ hir]
        simp
    · have hkeep : (decide ((i, k).1 ≠ id)) = true := by simpa using hi
      by_cases hinl : id ∈ l.inorder.map (·.1)
      · obtain ⟨l', s, hres, hB, hI, hH⟩ := ihl hbl hndl hinl
        have hnr : id ∉ r.inorder.map (·.1) := fun h => hdisj id hinl id (Or.inr h) rfl
        have hfil : (node l i k b r).inorder.filter (fun p => p.1 ≠ id) =
            l'.inorder ++ (i, k) :: r.inorder := by
          simp only [T.inorder, List.filter_append, List.filter_cons, hkeep, ↓reduceIte]
          rw [filter_ne_self id _ hnr, hI]
        cases s with
        | true =>
          simp only [↓reduceIte] at hH
          obtain ⟨fB, fI, fH⟩ := fixLeftShrunk_spec l' i k b r hB hbr (by omega) hb1 hb2
          refine ⟨(fixLeftShrunk (node l' i k b r)).1, (fixLeftShrunk (node l' i k b r)).2,
            ?_, fB, ?_, ?_⟩
          · simp only [removeId, hi, ↓reduceIte, hres]
          · rw [fI, hfil]
          · simp only [T.height, hH]; exact fH
        | false =>
          simp only [Bool.false_eq_true, ↓reduceIte, Nat.add_zero] at hH
          refine ⟨node l' i k b r, false, ?_, ?_, ?_, ?_⟩
          · simp only [removeId, hi, ↓reduceIte, hres]
            rfl
          · simp only [Bal]; exact ⟨hB, hbr, by omega, hb1, hb2⟩
          · rw [hfil]; rfl
          · simp only [T.height, hH]; simp
      · have hinr : id ∈ r.inorder.map (·.1) := by
          simp only [T.inorder, List.map_append, List.map_cons, List.mem_append,
            List.mem_cons] at hin
          rcases hin with h | h | h
          · exact absurd h hinl
          · exact absurd h.symm hi
          · exact h
        obtain ⟨r', s, hres, hB, hI, hH⟩ := ihr hbr hndr hinr
        have hnone := removeId_none id l hinl
        have hfil : (node l i k b r).inorder.filter (fun p => p.1 ≠ id) =
            l.inorder ++ (i, k) :: r'.inorder := by
          simp only [T.inorder, List.filter_append, List.filter_cons, hkeep, ↓reduceIte]
          rw [filter_ne_self id _ hinl, hI]
        cases s with
        | true =>
          simp only [↓reduceIte] at hH
          obtain ⟨fB, fI, fH⟩ := fixRightShrunk_spec l i k b r' hbl hB (by omega) hb1 hb2
          refine ⟨(fixRightShrunk (node l i k b r')).1, (fixRightShrunk (node l i k b r')).2,
            ?_, fB, ?_, ?_⟩
          · simp only [removeId, hi, ↓reduceIte, hnone, hres]
          · rw [fI, hfil]
          · simp only [T.height, hH]; exact fH
        | false =>
          simp only [Bool.false_eq_true, ↓reduceIte, Nat.add_zero] at hH
          refine ⟨node l i k b r', false, ?_, ?_, ?_, ?_⟩
          · simp only [removeId, hi, ↓reduceIte, hnone, hres]
            rfl
          · simp only [Bal]; exact ⟨hbl, hB, by omega, hb1, hb2⟩
          · rw [hfil]; rfl
          · simp only [T.height, hH]; simp

/-! ## find -/

theorem find_spec_aux (e : Int) (t : T) (hs : (t.inorder.map (·.2)).Pairwise (· ≤ ·)) (n : Nat) :
    (find e t n).2 ≤ n + t.height ∧
    (∀ i, (find e t n).1 = some i → (i, e) ∈ t.inorder) ∧
    ((find e t n).1 = none ↔ e ∉ t.inorder.map (·.2)) := by
  induction t generalizing n with
  | nil => simp [find, T.inorder, T.height]
  | node l i k b r ihl ihr =>
    obtain ⟨hsl, hsr, hlk, hkr⟩ := sorted_node hs
    by_cases hek : e = k
    · subst hek
      simp only [find, ↓reduceIte, T.height, T.inorder]
      refine ⟨by omega, ?_, ?_⟩
      · intro j hj
        simp only [Option.some.injEq] at hj
        subst hj
        simp
      · simp
    · by_cases hlt : e < k
      · obtain ⟨h1, h2, h3⟩ := ihl hsl (n + 1)
        simp only [find, hek, hlt, ↓reduceIte, T.height, T.inorder]
        refine ⟨by omega, ?_, ?_⟩
        · intro j hj
          have := h2 j hj
          simp [this]
        · rw [h3]
          simp only [List.map_append, List.map_cons, List.mem_append, List.mem_cons, not_or]
          constructor
          · intro h
            refine ⟨h, hek, ?_⟩
            intro hm
            simp only [List.mem_map] at hm
            obtain ⟨q, hq, rfl⟩ := hm
            have := hkr q hq
            omega
          · intro h; exact h.1
      · obtain ⟨h1, h2, h3⟩ := ihr hsr (n + 1)
        simp only [find, hek, hlt, ↓reduceIte, T.height, T.inorder]
        refine ⟨by omega, ?_, ?_⟩
        · intro j hj
          have := h2 j hj
          simp [this]
        · rw [h3]
          simp only [List.map_append, List.map_cons, List.mem_append, List.mem_cons, not_or]
          constructor
          · intro h
            refine ⟨?_, hek, h⟩
            intro hm
            simp only [List.mem_map] at hm
            obtain ⟨q, hq, rfl⟩ := hm
            have := hlk q hq
            omega
          · intro h; exact h.2.2

/-! ## Fibonacci bound -/

theorem fibo_le_succ (n : Nat) : fibo n ≤ fibo (n + 1) := by
  cases n with
  | zero => simp [fibo]
  | succ m => simp only [fibo]; omega

theorem fibo_mono {m n : Nat} (h : m ≤ n) : fibo m ≤ fibo n := by
  induction n with
  | zero =>
    have : m = 0 := by omega
    subst this; exact Nat.le_refl _
  | succ n ih =>
    by_cases hm : m = n + 1
    · subst hm; exact Nat.le_refl _
    · exact Nat.le_trans (ih (by omega)) (fibo_le_succ n)

theorem fibo_height_bound (t : T) (hb : Bal t) : fibo (t.height + 2) ≤ t.size + 1 := by
  induction t with
  | nil => simp [T.height, T.size, fibo]
  | node l i k b r ihl ihr =>
    simp only [Bal] at hb
    obtain ⟨hbl, hbr, hbe, hb1, hb2⟩ := hb
    have h1 := ihl hbl
    have h2 := ihr hbr
    simp only [T.height, T.size]
    by_cases hle : r.height ≤ l.height
    · have hmax : max l.height r.height = l.height := by omega
      rw [hmax]
      have hf : fibo (l.height + 1 + 2) = fibo (l.height + 1) + fibo (l.height + 2) :=
        fibo.eq_3 (l.height + 1)
      rw [hf]
      have h3 : fibo (l.height + 1) ≤ fibo (r.height + 2) := fibo_mono (by omega)
      omega
    · have hmax : max l.height r.height = r.height := by omega
      rw [hmax]
      have hf : fibo (r.height + 1 + 2) = fibo (r.height + 1) + fibo (r.height + 2) :=
        fibo.eq_3 (r.height + 1)
      rw [hf]
      have h3 : fibo (r.height + 1) ≤ fibo (l.height + 2) := fibo_mono (by omega)
      omega

/-! ## list facts used for the `Tree` invariant -/

theorem length_filter_ne (id : Nat) (l : List (Nat × Int)) (hnd : (l.map (·.1)).Nodup)
    (hin : id ∈ l.map (·.1)) : (l.filter (fun p => p.1 ≠ id)).length + 1 = l.length := by
  induction l with
  | nil => simp at hin
  | cons p l ih =>
    simp only [List.map_cons, List.nodup_cons] at hnd
    obtain ⟨hp, hnd'⟩ := hnd
    by_cases hpi : p.1 = id
    · have hnot : id ∉ l.map (·.1) := by rw [← hpi]; exact hp
      simp only [List.filter_cons, hpi, ne_eq, not_true_eq_false, decide_false,
        Bool.false_eq_true, ↓reduceIte, List.length_cons]
      rw [filter_ne_self id l hnot]
    · have hin' : id ∈ l.map (·.1) := by
        simp only [List.map_cons, List.mem_cons] at hin
        rcases hin with h | h
        · exact absurd h.symm hpi
        · exact h
      have := ih hnd' hin'
      have hd : decide (p.1 ≠ id) = true := by simpa using hpi
      simp only [List.filter_cons, hd, ↓reduceIte, List.length_cons]
      omega

end Zix.Avl
