import ZixModel.Model.BTree
/-! Definitions shared by the B-tree theorems (C01, C02): the abstraction function to a sorted
list, the shape invariant, and configuration validity. Definitions only. -/
namespace Zix.BTree

mutual
/-- The elements of a subtree in order: children interleaved with the node's own values. -/
def Node.elems : Node → List Nat
  | .leaf _ vs => vs
  | .inode _ vs cs => interleave cs vs
/-- `c0 ++ v0 :: c1 ++ v1 :: … ++ cn` -/
def interleave : List Node → List Nat → List Nat
  | [], _ => []
  | c :: cs, vs =>
    c.elems ++ (match vs with
      | v :: vs' => v :: interleave cs vs'
      | [] => interleave cs [])
end

/-- What the geometry macros of btree.c produce for every page size the sources accept:
`INODE_VALS = LEAF_VALS / 2`, at least 3 values per internal node. -/
structure Cfg.Valid (c : Cfg) : Prop where
  inode3 : 3 ≤ c.inodeMax
  leaf   : c.leafMax = 2 * c.inodeMax ∨ c.leafMax = 2 * c.inodeMax + 1
  height : 1 ≤ c.maxHeight

def Cfg.leafMin (c : Cfg) : Nat := (c.leafMax + 1) / 2 - 1
def Cfg.inodeMin (c : Cfg) : Nat := (c.inodeMax + 1) / 2 - 1

mutual
/-- Shape invariant of a subtree of height `h`: occupancy between minimum and maximum for every
non-root node, a root that is an internal node has at least one value, one more child than values,
all leaves at the same depth. -/
def Shape (c : Cfg) : (root : Bool) → (h : Nat) → Node → Prop
  | root, h, .leaf _ vs => h = 1 ∧ vs.length ≤ c.leafMax ∧ (root = true ∨ c.leafMin ≤ vs.length)
  | root, h, .inode _ vs cs =>
    ∃ h', h = h' + 1 ∧ 1 ≤ vs.length ∧ vs.length ≤ c.inodeMax ∧ (root = true ∨ c.inodeMin ≤ vs.length) ∧
      cs.length = vs.length + 1 ∧ ShapeAll c h' cs
def ShapeAll (c : Cfg) : Nat → List Node → Prop
  | _, [] => True
  | h, x :: xs => Shape c false h x ∧ ShapeAll c h xs
end

/-- Representation invariant of a whole tree: shape, strict global order, size. -/
structure WF (c : Cfg) (t : Tree) : Prop where
  shape  : Shape c true (height t.root) t.root
  sorted : t.root.elems.Pairwise (· < ·)
  size   : t.size = t.root.elems.length

/-- Sorted-set insertion on a strictly ascending list. -/
def setInsert (e : Nat) : List Nat → List Nat
  | [] => [e]
  | x :: xs => if e < x then e :: x :: xs else if e = x then x :: xs else x :: setInsert e xs

/-- Minimum number of elements of a tree of height `h ≥ 2` whose non-root nodes are at least
minimally filled: `2 · (inodeMin+1)^(h-2) · (leafMin+1) − 1`. -/
def Cfg.minElems (c : Cfg) (h : Nat) : Nat := 2 * (c.inodeMin + 1) ^ (h - 2) * (c.leafMin + 1) - 1

end Zix.BTree
