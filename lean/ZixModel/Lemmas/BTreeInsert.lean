import ZixModel.Lemmas.BTreeDefs
/-! Helper lemmas for the B-tree theorems of `Properties/C01.lean`: sorted-set insertion on lists,
the binary search inside a node, `interleave` decompositions, shape facts, the split, the walk
down of `insertNode`, `findNode`, `destroyOrder`, and the minimum-size count. -/
namespace Zix.BTree.Ins
open Zix.BTree

/-! ### `setInsert` on lists -/

theorem mem_setInsert (e x : Nat) (l : List Nat) : x ∈ setInsert e l ↔ x = e ∨ x ∈ l := by
  induction l with
  | nil => simp [setInsert]
  | cons y ys ih =>
    simp only [setInsert]
    split
    · simp
    · split
      · subst_vars; simp
      · simp only [List.mem_cons, ih]
        constructor
        · rintro (h | h | h) <;> simp [h]
        · rintro (h | h | h) <;> simp [h]

theorem setInsert_append_left (e : Nat) (A B : List Nat) (h : ∀ a ∈ A, a < e) :
    setInsert e (A ++ B) = A ++ setInsert e B := by
  induction A with
  | nil => rfl
  | cons a A ih =>
    have ha : a < e := h a (by simp)
    have h' : ∀ x ∈ A, x < e := fun x hx => h x (by simp [hx])
    simp only [List.cons_append, setInsert]
    rw [if_neg (by omega), if_neg (by omega), ih h']

theorem setInsert_append_right (e b : Nat) (A B : List Nat) (h : e < b) :
    setInsert e (A ++ b :: B) = setInsert e A ++ b :: B := by
  induction A with
  | nil => simp [setInsert, h]
  | cons a A ih =>
    simp only [List.cons_append, setInsert]
    split
    · rfl
    · split
      · rfl
      · simp [ih]

theorem setInsert_sorted (e : Nat) (l : List Nat) (h : l.Pairwise (· < ·)) :
    (setInsert e l).Pairwise (· < ·) := by
  induction l with
  | nil => simp [setInsert]
  | cons y ys ih =>
    have hy := List.pairwise_cons.mp h
    simp only [setInsert]
    split
    · refine List.pairwise_cons.mpr ⟨?_, h⟩
      intro a ha
      rcases List.mem_cons.mp ha with rfl | ha
      · assumption
      · have := hy.1 a ha; omega
    · split
      · exact h
      · refine List.pairwise_cons.mpr ⟨?_, ih hy.2⟩
        intro a ha
        rcases (mem_setInsert e a ys).mp ha with rfl | ha
        · omega
        · exact hy.1 a ha

theorem setInsert_length (e : Nat) (l : List Nat) (h : e ∉ l) :
    (setInsert e l).length = l.length + 1 := by
  induction l with
  | nil => simp [setInsert]
  | cons y ys ih =>
    have h1 : e ≠ y := fun he => h (by simp [he])
    have h2 : e ∉ ys := fun he => h (by simp [he])
    simp only [setInsert]
    split
    · simp
    · simp [ih h2]

/-- The list-level heart of the descent: `e` lies strictly between everything before and
everything after the segment `C`. -/
theorem sandwich (e : Nat) (P C S : List Nat) (hP : ∀ x ∈ P, x < e) (hS : ∀ x ∈ S, e < x) :
    (e ∈ P ++ C ++ S ↔ e ∈ C) ∧ setInsert e (P ++ C ++ S) = P ++ setInsert e C ++ S := by
  constructor
  · constructor
    · intro h
      simp only [List.mem_append] at h
      rcases h with (h | h) | h
      · have := hP e h; omega
      · exact h
      · have := hS e h; omega
    · intro h; simp [h]
  · rw [List.append_assoc, setInsert_append_left e P _ hP, List.append_assoc]
    congr 1
    cases S with
    | nil => simp
    | cons s S => exact setInsert_append_right e s C S (hS s (by simp))

/-! ### binary search inside a node -/

theorem sorted_getD_lt (l : List Nat) (h : l.Pairwise (· < ·)) (i j : Nat) (hij : i < j)
    (hj : j < l.length) : l.getD i 0 < l.getD j 0 := by
  have hi : i < l.length := by omega
  have := List.pairwise_iff_getElem.mp h i j hi hj hij
  simpa [List.getD_eq_getElem?_getD, List.getElem?_eq_getElem hi, List.getElem?_eq_getElem hj] using this

theorem mem_iff_getD (l : List Nat) (e : Nat) : e ∈ l ↔ ∃ j, j < l.length ∧ l.getD j 0 = e := by
  constructor
  · intro h
    obtain ⟨j, hj, rfl⟩ := List.getElem_of_mem h
    exact ⟨j, hj, by simp [List.getD_eq_getElem?_getD, List.getElem?_eq_getElem hj]⟩
  · rintro ⟨j, hj, rfl⟩
    simp [List.getD_eq_getElem?_getD, List.getElem?_eq_getElem hj]

/-- Specification of `findValue` on a strictly ascending list. -/
theorem findValue_spec (vals : List Nat) (e : Nat) (hs : vals.Pairwise (· < ·)) :
    ∀ (fuel first count cmps : Nat), first + count ≤ vals.length → count ≤ fuel →
      (∀ j, j < first → vals.getD j 0 < e) →
      (∀ j, first + count ≤ j → j < vals.length → e < vals.getD j 0) →
      (findValue vals e first count cmps fuel).1 ≤ vals.length ∧
      ((findValue vals e first count cmps fuel).2.1 = true →
        (findValue vals e first count cmps fuel).1 < vals.length ∧
        vals.getD (findValue vals e first count cmps fuel).1 0 = e) ∧
      ((findValue vals e first count cmps fuel).2.1 = false →
        (∀ j, j < (findValue vals e first count cmps fuel).1 → vals.getD j 0 < e) ∧
        (∀ j, (findValue vals e first count cmps fuel).1 ≤ j → j < vals.length → e < vals.getD j 0)) := by
  intro fuel
  induction fuel with
  | zero =>
    intro first count cmps hb hc hlo hhi
    have : count = 0 := by omega
    subst this
    simp only [findValue]
    exact ⟨by omega, by simp, fun _ => ⟨hlo, by simpa using hhi⟩⟩
  | succ fuel ih =>
    intro first count cmps hb hc hlo hhi
    simp only [findValue]
    split
    · next h0 =>
      subst h0
      exact ⟨by omega, by simp, fun _ => ⟨hlo, by simpa using hhi⟩⟩
    · next h0 =>
      have hhalf : count / 2 < count := by omega
      split
      · next hv =>
        exact ⟨by omega, fun _ => ⟨by omega, hv⟩, by simp⟩
      · next hv =>
        split
        · next hlt =>
          apply ih
          · omega
          · omega
          · intro j hj
            by_cases hj' : j < first + count / 2
            · have := sorted_getD_lt vals hs j (first + count / 2) hj' (by omega); omega
            · have : j = first + count / 2 := by omega
              subst this; exact hlt
          · intro j hj hjl
            apply hhi j _ hjl
            omega
        · next hlt =>
          apply ih
          · omega
          · omega
          · exact hlo
          · intro j hj hjl
            by_cases hj' : j = first + count / 2
            · subst hj'; omega
            · have := sorted_getD_lt vals hs (first + count / 2) j (by omega) hjl; omega

/-- Comparison count of `findValue`: a halving argument. -/
theorem findValue_cmps (vals : List Nat) (e : Nat) :
    ∀ (fuel first count cmps : Nat),
      (findValue vals e first count cmps fuel).2.2 ≤
        cmps + (if count = 0 then 0 else Nat.log2 count + 1) := by
  intro fuel
  induction fuel with
  | zero => intro first count cmps; simp [findValue]
  | succ fuel ih =>
    intro first count cmps
    simp only [findValue]
    split
    · next h0 => simp
    · next h0 =>
      have hlog : count = 1 ∨ (2 ≤ count ∧ Nat.log2 count = Nat.log2 (count / 2) + 1) := by
        by_cases h2 : 2 ≤ count
        · right; refine ⟨h2, ?_⟩; rw [Nat.log2_def count, if_pos h2]
        · left; omega
      split
      · show cmps + 1 ≤ _; omega
      · split
        · refine Nat.le_trans (ih _ _ _) ?_
          rcases hlog with h1 | ⟨h2, hl⟩
          · subst h1; simp
          · split
            · omega
            · next hne =>
              have hmono : Nat.log2 (count - (count / 2 + 1)) ≤ Nat.log2 (count / 2) := by
                have hle : count - (count / 2 + 1) ≤ count / 2 := by omega
                have hpos : count / 2 ≠ 0 := by omega
                have := (Nat.log2_lt hne (k := Nat.log2 (count / 2) + 1)).mpr
                  (Nat.lt_of_le_of_lt hle ((Nat.log2_lt hpos).mp (Nat.lt_succ_self _)))
                omega
              omega
        · refine Nat.le_trans (ih _ _ _) ?_
          rcases hlog with h1 | ⟨h2, hl⟩
          · subst h1; simp
          · rw [if_neg (by omega)]; omega

theorem log2_mono {a b : Nat} (h : a ≤ b) : Nat.log2 a ≤ Nat.log2 b := by
  by_cases ha : a = 0
  · subst ha; simp [Nat.log2_def 0]
  · have hb : b ≠ 0 := by omega
    have := (Nat.log2_lt ha (k := Nat.log2 b + 1)).mpr
      (Nat.lt_of_le_of_lt h ((Nat.log2_lt hb).mp (Nat.lt_succ_self _)))
    omega


/-! ### `interleave` -/

@[simp] theorem interleave_nil (vs : List Nat) : interleave [] vs = [] := by simp [interleave]

theorem interleave_cons_cons (c : Node) (cs : List Node) (v : Nat) (vs : List Nat) :
    interleave (c :: cs) (v :: vs) = c.elems ++ v :: interleave cs vs := by simp [interleave]

theorem interleave_cons_nil (c : Node) (cs : List Node) :
    interleave (c :: cs) [] = c.elems ++ interleave cs [] := by simp [interleave]

@[simp] theorem elems_leaf (id : Nat) (vs : List Nat) : (Node.leaf id vs).elems = vs := by
  simp [Node.elems]

@[simp] theorem elems_inode (id : Nat) (vs : List Nat) (cs : List Node) :
    (Node.inode id vs cs).elems = interleave cs vs := by simp [Node.elems]

/-- Everything before child `i`: children `0..i-1`, each followed by its separator. -/
def pre : List Node → List Nat → Nat → List Nat
  | c :: cs, v :: vs, i + 1 => c.elems ++ v :: pre cs vs i
  | _, _, _ => []

/-- Everything after child `i`. -/
def suf : List Node → List Nat → Nat → List Nat
  | _ :: cs, v :: vs, 0 => v :: interleave cs vs
  | _ :: cs, _ :: vs, i + 1 => suf cs vs i
  | _, _, _ => []

theorem interleave_set (cs : List Node) : ∀ (vs : List Nat) (i : Nat) (x : Node),
    i < cs.length → cs.length = vs.length + 1 →
    interleave (cs.set i x) vs = pre cs vs i ++ x.elems ++ suf cs vs i := by
  induction cs with
  | nil => intro vs i x hi; simp at hi
  | cons c cs ih =>
    intro vs i x hi hl
    cases i with
    | zero =>
      cases vs with
      | nil =>
        have : cs = [] := by simpa using hl
        subst this
        simp [interleave_cons_nil, pre, suf]
      | cons v vs => simp [interleave_cons_cons, pre, suf]
    | succ i =>
      cases vs with
      | nil =>
        have : cs = [] := by simpa using hl
        subst this; simp at hi
      | cons v vs =>
        simp only [List.set_cons_succ, interleave_cons_cons, pre, suf]
        rw [ih vs i x (by simpa using hi) (by simpa using hl)]
        simp

theorem interleave_getD (cs : List Node) (vs : List Nat) (i : Nat) (d : Node)
    (hi : i < cs.length) (hl : cs.length = vs.length + 1) :
    interleave cs vs = pre cs vs i ++ (cs.getD i d).elems ++ suf cs vs i := by
  have := interleave_set cs vs i (cs.getD i d) hi hl
  rw [← this]
  congr 1
  simp [List.getD_eq_getElem?_getD, List.getElem?_eq_getElem hi]

theorem interleave_split (cs : List Node) : ∀ (vs : List Nat) (i : Nat) (l r : Node) (m : Nat),
    i < cs.length → cs.length = vs.length + 1 →
    interleave (cinsert (cs.set i l) (i + 1) r) (ainsert vs i m) =
      pre cs vs i ++ l.elems ++ m :: r.elems ++ suf cs vs i := by
  induction cs with
  | nil => intro vs i l r m hi; simp at hi
  | cons c cs ih =>
    intro vs i l r m hi hl
    cases i with
    | zero =>
      cases vs with
      | nil =>
        have : cs = [] := by simpa using hl
        subst this
        simp [cinsert, ainsert, interleave_cons_cons, interleave_cons_nil, pre, suf]
      | cons v vs =>
        simp [cinsert, ainsert, interleave_cons_cons, pre, suf]
    | succ i =>
      cases vs with
      | nil =>
        have : cs = [] := by simpa using hl
        subst this; simp at hi
      | cons v vs =>
        have := ih vs i l r m (by simpa using hi) (by simpa using hl)
        simp only [cinsert, ainsert] at this
        simp only [cinsert, ainsert, List.set_cons_succ, List.take_succ_cons, List.drop_succ_cons,
          List.cons_append, interleave_cons_cons, pre, suf, this]
        simp

theorem pre_lt (e : Nat) (cs : List Node) : ∀ (vs : List Nat) (i : Nat) (R : List Nat),
    (∀ j, j < i → vs.getD j 0 < e) → (pre cs vs i ++ R).Pairwise (· < ·) →
    ∀ x ∈ pre cs vs i, x < e := by
  induction cs with
  | nil => intro vs i R _ _ x hx; simp [pre] at hx
  | cons c cs ih =>
    intro vs i R hlo hp x hx
    cases i with
    | zero => simp [pre] at hx
    | succ i =>
      cases vs with
      | nil => simp [pre] at hx
      | cons v vs =>
        simp only [pre] at hx hp
        have hv : v < e := by simpa using hlo 0 (by omega)
        rw [List.append_assoc] at hp
        have hp' := List.pairwise_append.mp hp
        rcases List.mem_append.mp hx with hx | hx
        · have := hp'.2.2 x hx v (by simp); omega
        · rcases List.mem_cons.mp hx with rfl | hx
          · exact hv
          · have h2 := hp'.2.1
            rw [List.cons_append] at h2
            exact ih vs i R (fun j hj => by simpa using hlo (j + 1) (by omega))
              (List.pairwise_cons.mp h2).2 x hx

theorem suf_gt (e : Nat) (cs : List Node) : ∀ (vs : List Nat) (i : Nat),
    (i < vs.length → e < vs.getD i 0) → (suf cs vs i).Pairwise (· < ·) →
    ∀ x ∈ suf cs vs i, e < x := by
  induction cs with
  | nil => intro vs i _ _ x hx; simp [suf] at hx
  | cons c cs ih =>
    intro vs i hhi hp x hx
    cases vs with
    | nil => cases i <;> simp [suf] at hx
    | cons v vs =>
      cases i with
      | zero =>
        simp only [suf] at hx hp
        have hv : e < v := by simpa using hhi (by simp)
        rcases List.mem_cons.mp hx with rfl | hx
        · exact hv
        · have := (List.pairwise_cons.mp hp).1 x hx; omega
      | succ i =>
        simp only [suf] at hx hp
        exact ih vs i (fun h => by simpa using hhi (by simpa using h)) hp x hx

theorem vals_sublist (cs : List Node) : ∀ (vs : List Nat), cs.length = vs.length + 1 →
    vs.Sublist (interleave cs vs) := by
  induction cs with
  | nil => intro vs h; simp at h
  | cons c cs ih =>
    intro vs h
    cases vs with
    | nil => simp
    | cons v vs =>
      rw [interleave_cons_cons]
      exact (List.Sublist.cons_cons v (ih vs (by simpa using h))).trans (List.sublist_append_right _ _)

theorem child_sublist (cs : List Node) (vs : List Nat) (i : Nat) (d : Node)
    (hi : i < cs.length) (hl : cs.length = vs.length + 1) :
    (cs.getD i d).elems.Sublist (interleave cs vs) := by
  rw [interleave_getD cs vs i d hi hl]
  exact (List.sublist_append_right _ _).trans (List.sublist_append_left _ _)

theorem interleave_take_drop : ∀ (k : Nat) (cs : List Node) (vs : List Nat),
    k < vs.length → cs.length = vs.length + 1 →
    interleave cs vs = interleave (cs.take (k + 1)) (vs.take k) ++
      vs.getD k 0 :: interleave (cs.drop (k + 1)) (vs.drop (k + 1)) := by
  intro k
  induction k with
  | zero =>
    intro cs vs hk hl
    cases vs with
    | nil => simp at hk
    | cons v vs =>
      cases cs with
      | nil => simp at hl
      | cons c cs => simp [interleave_cons_cons, interleave_cons_nil]
  | succ k ih =>
    intro cs vs hk hl
    cases vs with
    | nil => simp at hk
    | cons v vs =>
      cases cs with
      | nil => simp at hl
      | cons c cs =>
        have := ih cs vs (by simpa using hk) (by simpa using hl)
        simp only [List.take_succ_cons, List.drop_succ_cons, interleave_cons_cons, List.getD_cons_succ,
          List.append_assoc, List.cons_append]
        rw [← this]

theorem interleave_length (cs : List Node) : ∀ (vs : List Nat), cs.length = vs.length + 1 →
    (interleave cs vs).length + 1 = (cs.map (fun c => c.elems.length + 1)).sum := by
  induction cs with
  | nil => intro vs h; simp at h
  | cons c cs ih =>
    intro vs h
    cases vs with
    | nil =>
      have : cs = [] := by simpa using h
      subst this
      simp [interleave_cons_nil]
    | cons v vs =>
      have := ih vs (by simpa using h)
      simp only [interleave_cons_cons, List.length_append, List.length_cons, List.map_cons, List.sum_cons]
      omega

theorem interleave_perm (cs : List Node) : ∀ (vs : List Nat), cs.length = vs.length + 1 →
    (interleave cs vs).Perm (cs.flatMap Node.elems ++ vs) := by
  induction cs with
  | nil => intro vs h; simp at h
  | cons c cs ih =>
    intro vs h
    cases vs with
    | nil =>
      have : cs = [] := by simpa using h
      subst this
      simp [interleave_cons_nil]
    | cons v vs =>
      have := ih vs (by simpa using h)
      simp only [interleave_cons_cons, List.flatMap_cons, List.append_assoc]
      refine List.Perm.append_left _ ?_
      refine (List.Perm.cons v this).trans ?_
      exact (List.perm_middle (a := v) (l₁ := cs.flatMap Node.elems) (l₂ := vs)).symm


/-! ### shape -/

theorem shapeAll_iff (c : Cfg) (h : Nat) (cs : List Node) :
    ShapeAll c h cs ↔ ∀ x ∈ cs, Shape c false h x := by
  induction cs with
  | nil => simp [ShapeAll]
  | cons x xs ih => simp [ShapeAll, ih]

theorem shape_leaf {c : Cfg} {r : Bool} {h id : Nat} {vs : List Nat} :
    Shape c r h (.leaf id vs) ↔
      h = 1 ∧ vs.length ≤ c.leafMax ∧ (r = true ∨ c.leafMin ≤ vs.length) := by
  simp [Shape]

theorem shape_inode {c : Cfg} {r : Bool} {h id : Nat} {vs : List Nat} {cs : List Node} :
    Shape c r h (.inode id vs cs) ↔
      ∃ h', h = h' + 1 ∧ 1 ≤ vs.length ∧ vs.length ≤ c.inodeMax ∧
        (r = true ∨ c.inodeMin ≤ vs.length) ∧ cs.length = vs.length + 1 ∧
        ∀ x ∈ cs, Shape c false h' x := by
  simp [Shape, shapeAll_iff]

theorem shape_pos {c : Cfg} {r : Bool} {h : Nat} {n : Node} (hs : Shape c r h n) : 1 ≤ h := by
  cases n with
  | leaf id vs => have := shape_leaf.mp hs; omega
  | inode id vs cs => obtain ⟨h', rfl, _⟩ := shape_inode.mp hs; omega

theorem shape_le_max {c : Cfg} {r : Bool} {h : Nat} {n : Node} (hs : Shape c r h n) :
    n.nVals ≤ c.maxVals n := by
  cases n with
  | leaf id vs =>
    have := shape_leaf.mp hs
    simp [Node.nVals, Node.vals, Cfg.maxVals, Node.isLeaf]; omega
  | inode id vs cs =>
    obtain ⟨h', _, _, h2, _⟩ := shape_inode.mp hs
    simpa [Node.nVals, Node.vals, Cfg.maxVals, Node.isLeaf] using h2

theorem height_eq (c : Cfg) : ∀ (h : Nat) (r : Bool) (n : Node), Shape c r h n → height n = h := by
  intro h
  induction h with
  | zero => intro r n hs; have := shape_pos hs; omega
  | succ h ih =>
    intro r n hs
    cases n with
    | leaf id vs => have := shape_leaf.mp hs; simp [height]; omega
    | inode id vs cs =>
      obtain ⟨h', he, _, _, _, hl, hall⟩ := shape_inode.mp hs
      have : h' = h := by omega
      subst this
      cases cs with
      | nil => simp at hl
      | cons c0 cs =>
        have := ih false c0 (hall c0 (by simp))
        simp [height, this]; omega

/-! ### the split -/

def splitM (c : Cfg) (n : Node) : Nat := n.vals.getD (c.maxVals n / 2) 0

def splitL (c : Cfg) : Node → Node
  | .leaf id lv => .leaf id (lv.take (c.leafMax / 2))
  | .inode id lv lc => .inode id (lv.take (c.inodeMax / 2)) (lc.take (c.inodeMax / 2 + 1))

def splitR (c : Cfg) (rid : Nat) : Node → Node
  | .leaf _ lv => .leaf rid (lv.drop (c.leafMax / 2 + 1))
  | .inode _ lv lc => .inode rid (lv.drop (c.inodeMax / 2 + 1)) (lc.drop (c.inodeMax / 2 + 1))

theorem splitChild_eq (c : Cfg) (vals : List Nat) (cs : List Node) (i rid : Nat) :
    splitChild c vals cs i rid =
      (ainsert vals i (splitM c (cs.getD i (.leaf 0 []))),
       cinsert (cs.set i (splitL c (cs.getD i (.leaf 0 [])))) (i + 1)
         (splitR c rid (cs.getD i (.leaf 0 [])))) := by
  unfold splitChild
  cases cs.getD i (.leaf 0 []) <;>
    simp [splitM, splitL, splitR, Cfg.maxVals, Node.isLeaf, Node.vals]

theorem list_split_at (l : List Nat) (k : Nat) (hk : k < l.length) :
    l = l.take k ++ l.getD k 0 :: l.drop (k + 1) := by
  have h1 : l.getD k 0 = l[k] := by
    simp [List.getD_eq_getElem?_getD, List.getElem?_eq_getElem hk]
  rw [h1, ← List.drop_eq_getElem_cons hk, List.take_append_drop]

theorem split_spec (c : Cfg) (hc : c.Valid) (rid : Nat) {r : Bool} {h : Nat} {n : Node}
    (hs : Shape c r h n) (hfull : c.isFull n = true) :
    Shape c false h (splitL c n) ∧ Shape c false h (splitR c rid n) ∧
    (splitL c n).nVals < c.maxVals (splitL c n) ∧
    (splitR c rid n).nVals < c.maxVals (splitR c rid n) ∧
    n.elems = (splitL c n).elems ++ splitM c n :: (splitR c rid n).elems := by
  have h3 := hc.inode3
  have hleaf := hc.leaf
  cases n with
  | leaf id vs =>
    obtain ⟨rfl, hmax, _⟩ := shape_leaf.mp hs
    have hlen : vs.length = c.leafMax := by
      simpa [Cfg.isFull, Node.nVals, Node.vals, Cfg.maxVals, Node.isLeaf] using hfull
    refine ⟨?_, ?_, ?_, ?_, ?_⟩
    · refine shape_leaf.mpr ⟨rfl, ?_, Or.inr ?_⟩ <;>
        simp only [List.length_take, Cfg.leafMin] <;> omega
    · refine shape_leaf.mpr ⟨rfl, ?_, Or.inr ?_⟩ <;>
        simp only [List.length_drop, Cfg.leafMin] <;> omega
    · simp only [splitL, Node.nVals, Node.vals, Cfg.maxVals, Node.isLeaf, List.length_take]
      simp; omega
    · simp only [splitR, Node.nVals, Node.vals, Cfg.maxVals, Node.isLeaf, List.length_drop]
      simp; omega
    · simp only [splitL, splitR, splitM, elems_leaf, Node.vals, Cfg.maxVals, Node.isLeaf]
      simpa using list_split_at vs (c.leafMax / 2) (by omega)
  | inode id vs cs =>
    obtain ⟨h', rfl, hv1, hvmax, _, hl, hall⟩ := shape_inode.mp hs
    have hlen : vs.length = c.inodeMax := by
      simpa [Cfg.isFull, Node.nVals, Node.vals, Cfg.maxVals, Node.isLeaf] using hfull
    refine ⟨?_, ?_, ?_, ?_, ?_⟩
    · refine shape_inode.mpr ⟨h', rfl, ?_, ?_, Or.inr ?_, ?_, ?_⟩
      · simp only [List.length_take]; omega
      · simp only [List.length_take]; omega
      · simp only [List.length_take, Cfg.inodeMin]; omega
      · simp only [List.length_take]; omega
      · intro x hx; exact hall x (List.mem_of_mem_take hx)
    · refine shape_inode.mpr ⟨h', rfl, ?_, ?_, Or.inr ?_, ?_, ?_⟩
      · simp only [List.length_drop]; omega
      · simp only [List.length_drop]; omega
      · simp only [List.length_drop, Cfg.inodeMin]; omega
      · simp only [List.length_drop]; omega
      · intro x hx; exact hall x (List.mem_of_mem_drop hx)
    · simp only [splitL, Node.nVals, Node.vals, Cfg.maxVals, Node.isLeaf, List.length_take]
      simp; omega
    · simp only [splitR, Node.nVals, Node.vals, Cfg.maxVals, Node.isLeaf, List.length_drop]
      simp; omega
    · simp only [splitL, splitR, splitM, elems_inode, Node.vals, Cfg.maxVals, Node.isLeaf]
      simpa using interleave_take_drop (c.inodeMax / 2) cs vs (by omega) hl


/-! ### `ainsert` / `cinsert` -/

theorem cinsert_cons_succ (x : Node) (l : List Node) (k : Nat) (y : Node) :
    cinsert (x :: l) (k + 1) y = x :: cinsert l k y := by simp [cinsert]

theorem ainsert_cons_succ (x : Nat) (l : List Nat) (k : Nat) (y : Nat) :
    ainsert (x :: l) (k + 1) y = x :: ainsert l k y := by simp [ainsert]

theorem ainsert_length (l : List Nat) (i x : Nat) (hi : i ≤ l.length) :
    (ainsert l i x).length = l.length + 1 := by
  simp [ainsert, List.length_take]; omega

theorem cinsert_length (l : List Node) (i : Nat) (x : Node) (hi : i ≤ l.length) :
    (cinsert l i x).length = l.length + 1 := by
  simp [cinsert, List.length_take]; omega

theorem ainsert_getD (l : List Nat) : ∀ (i x : Nat), i ≤ l.length → (ainsert l i x).getD i 0 = x := by
  induction l with
  | nil => intro i x hi; have : i = 0 := by simpa using hi
           subst this; simp [ainsert]
  | cons a l ih =>
    intro i x hi
    cases i with
    | zero => simp [ainsert]
    | succ i => rw [ainsert_cons_succ]; simpa using ih i x (by simpa using hi)

theorem mem_cinsert_set (cs : List Node) (i : Nat) (l r x : Node)
    (hx : x ∈ cinsert (cs.set i l) (i + 1) r) : x ∈ cs ∨ x = l ∨ x = r := by
  simp only [cinsert, List.mem_append, List.mem_cons] at hx
  rcases hx with hx | rfl | hx
  · rcases List.mem_or_eq_of_mem_set (List.mem_of_mem_take hx) with h | h
    · exact Or.inl h
    · exact Or.inr (Or.inl h)
  · exact Or.inr (Or.inr rfl)
  · rcases List.mem_or_eq_of_mem_set (List.mem_of_mem_drop hx) with h | h
    · exact Or.inl h
    · exact Or.inr (Or.inl h)

theorem cinsert_getD_left (cs : List Node) : ∀ (i : Nat) (l r d : Node), i < cs.length →
    (cinsert (cs.set i l) (i + 1) r).getD i d = l := by
  induction cs with
  | nil => intro i l r d hi; simp at hi
  | cons c cs ih =>
    intro i l r d hi
    cases i with
    | zero => simp [cinsert]
    | succ i =>
      rw [List.set_cons_succ, cinsert_cons_succ]
      simpa using ih i l r d (by simpa using hi)

theorem cinsert_getD_right (cs : List Node) : ∀ (i : Nat) (l r d : Node), i < cs.length →
    (cinsert (cs.set i l) (i + 1) r).getD (i + 1) d = r := by
  induction cs with
  | nil => intro i l r d hi; simp at hi
  | cons c cs ih =>
    intro i l r d hi
    cases i with
    | zero => simp [cinsert]
    | succ i =>
      rw [List.set_cons_succ, cinsert_cons_succ]
      simpa using ih i l r d (by simpa using hi)

theorem cinsert_set_left (cs : List Node) : ∀ (i : Nat) (l r x : Node), i < cs.length →
    (cinsert (cs.set i l) (i + 1) r).set i x = cinsert (cs.set i x) (i + 1) r := by
  induction cs with
  | nil => intro i l r x hi; simp at hi
  | cons c cs ih =>
    intro i l r x hi
    cases i with
    | zero => simp [cinsert]
    | succ i =>
      rw [List.set_cons_succ, cinsert_cons_succ, List.set_cons_succ, List.set_cons_succ,
        cinsert_cons_succ, ih i l r x (by simpa using hi)]

theorem cinsert_set_right (cs : List Node) : ∀ (i : Nat) (l r x : Node), i < cs.length →
    (cinsert (cs.set i l) (i + 1) r).set (i + 1) x = cinsert (cs.set i l) (i + 1) x := by
  induction cs with
  | nil => intro i l r x hi; simp at hi
  | cons c cs ih =>
    intro i l r x hi
    cases i with
    | zero => simp [cinsert]
    | succ i =>
      rw [List.set_cons_succ, cinsert_cons_succ, List.set_cons_succ,
        cinsert_cons_succ, ih i l r x (by simpa using hi)]

theorem take_lt (e : Nat) (l : List Nat) : ∀ (i : Nat), (∀ j, j < i → l.getD j 0 < e) →
    i ≤ l.length → ∀ x ∈ l.take i, x < e := by
  induction l with
  | nil => intro i _ _ x hx; simp at hx
  | cons a l ih =>
    intro i hlo hi x hx
    cases i with
    | zero => simp at hx
    | succ i =>
      rw [List.take_succ_cons] at hx
      rcases List.mem_cons.mp hx with rfl | hx
      · simpa using hlo 0 (by omega)
      · exact ih i (fun j hj => by simpa using hlo (j + 1) (by omega)) (by simpa using hi) x hx

theorem drop_gt (e : Nat) (l : List Nat) : ∀ (i : Nat),
    (∀ j, i ≤ j → j < l.length → e < l.getD j 0) → ∀ x ∈ l.drop i, e < x := by
  induction l with
  | nil => intro i _ x hx; simp at hx
  | cons a l ih =>
    intro i hhi x hx
    cases i with
    | zero =>
      rw [List.drop_zero] at hx
      obtain ⟨j, hj, rfl⟩ := (mem_iff_getD (a :: l) x).mp hx
      exact hhi j (by omega) hj
    | succ i =>
      rw [List.drop_succ_cons] at hx
      exact ih i (fun j h1 h2 => by simpa using hhi (j + 1) (by omega) (by simpa using h2)) x hx

/-- Insertion at the position found by the search is sorted-set insertion. -/
theorem ainsert_eq_setInsert (l : List Nat) (i e : Nat) (hi : i ≤ l.length)
    (hlo : ∀ j, j < i → l.getD j 0 < e) (hhi : ∀ j, i ≤ j → j < l.length → e < l.getD j 0) :
    e ∉ l ∧ ainsert l i e = setInsert e l := by
  have hP := take_lt e l i hlo hi
  have hS := drop_gt e l i hhi
  have := sandwich e (l.take i) [] (l.drop i) hP hS
  simp only [List.append_nil, List.take_append_drop] at this
  refine ⟨fun h => by simpa using this.1.mp h, ?_⟩
  rw [this.2]; simp [ainsert, setInsert]

/-! ### search in a node -/

theorem nodeFind_spec (n : Node) (e : Nat) (hs : n.vals.Pairwise (· < ·)) :
    (nodeFind n e).1 ≤ n.vals.length ∧
    ((nodeFind n e).2.1 = true →
      (nodeFind n e).1 < n.vals.length ∧ n.vals.getD (nodeFind n e).1 0 = e) ∧
    ((nodeFind n e).2.1 = false →
      (∀ j, j < (nodeFind n e).1 → n.vals.getD j 0 < e) ∧
      (∀ j, (nodeFind n e).1 ≤ j → j < n.vals.length → e < n.vals.getD j 0)) := by
  unfold nodeFind Node.nVals
  apply findValue_spec n.vals e hs
  · omega
  · omega
  · intro j hj; omega
  · intro j hj hj'; omega

theorem nodeFind_cmps (n : Node) (e : Nat) : (nodeFind n e).2.2 ≤ Nat.log2 n.nVals + 1 := by
  unfold nodeFind
  have := findValue_cmps n.vals e (n.nVals + 1) 0 n.nVals 0
  split at this <;> omega


/-! ### the walk down of `insertNode` -/

/-- What one (sub)walk delivers: `old` are the elements of the node it started from, `a`/`a'` the
allocator state before/after, `n'` the new node, `st` the status. -/
def InsSpec (c : Cfg) (fails : Nat → Bool) (e : Nat) (r : Bool) (h : Nat) (a : AllocSt)
    (old : List Nat) (a' : AllocSt) (n' : Node) (st : Status) : Prop :=
  Shape c r h n' ∧ a.reqs ≤ a'.reqs ∧
  (st = .success → e ∉ old ∧ n'.elems = setInsert e old) ∧
  (st = .exists_ → e ∈ old ∧ n'.elems = old) ∧
  (st = .noMem → n'.elems = old ∧ ∃ k, a.reqs ≤ k ∧ k < a'.reqs ∧ fails k = true) ∧
  st ≠ .notFound

/-- Lift the result of a walk into a child (segment `C`) to the parent. -/
theorem InsSpec.lift {c : Cfg} {fails : Nat → Bool} {e : Nat} {r : Bool} {h h' : Nat}
    {a a1 a' : AllocSt} {old P C S : List Nat} {x n' : Node} {st : Status}
    (hx : InsSpec c fails e false h' a1 C a' x st) (ha : a.reqs ≤ a1.reqs)
    (hold : old = P ++ C ++ S) (hnew : n'.elems = P ++ x.elems ++ S)
    (hP : ∀ y ∈ P, y < e) (hS : ∀ y ∈ S, e < y) (hshape : Shape c r h n') :
    InsSpec c fails e r h a old a' n' st := by
  obtain ⟨_, hreq, hsucc, hex, hnm, hnf⟩ := hx
  have hsw := sandwich e P C S hP hS
  subst hold
  refine ⟨hshape, by omega, ?_, ?_, ?_, hnf⟩
  · intro hst
    obtain ⟨h1, h2⟩ := hsucc hst
    exact ⟨fun hm => h1 (hsw.1.mp hm), by rw [hnew, h2, hsw.2]⟩
  · intro hst
    obtain ⟨h1, h2⟩ := hex hst
    exact ⟨hsw.1.mpr h1, by rw [hnew, h2]⟩
  · intro hst
    obtain ⟨h1, k, hk1, hk2, hk3⟩ := hnm hst
    exact ⟨by rw [hnew, h1], k, by omega, hk2, hk3⟩

theorem getD_mem (cs : List Node) (i : Nat) (d : Node) (hi : i < cs.length) : cs.getD i d ∈ cs := by
  simp [List.getD_eq_getElem?_getD, List.getElem?_eq_getElem hi]

theorem insertNode_spec (c : Cfg) (hc : c.Valid) (fails : Nat → Bool) :
    ∀ (fuel : Nat) (a : AllocSt) (n : Node) (e : Nat) (r : Bool) (h : Nat),
      Shape c r h n → n.nVals < c.maxVals n → h ≤ fuel → n.elems.Pairwise (· < ·) →
      InsSpec c fails e r h a n.elems (insertNode c fails fuel a n e).a
        (insertNode c fails fuel a n e).node (insertNode c fails fuel a n e).st := by
  intro fuel
  induction fuel with
  | zero => intro a n e r h hs _ hf _; have := shape_pos hs; omega
  | succ fuel ih =>
    intro a n e r h hs hnotfull hfuel hsorted
    cases n with
    | leaf id vals =>
      obtain ⟨rfl, hmax, hmin⟩ := shape_leaf.mp hs
      have hlt : vals.length < c.leafMax := by
        simpa [Node.nVals, Node.vals, Cfg.maxVals, Node.isLeaf] using hnotfull
      rw [elems_leaf] at hsorted ⊢
      have spec := nodeFind_spec (.leaf id vals) e hsorted
      rcases hnf : nodeFind (.leaf id vals) e with ⟨i, eq, k⟩
      rw [hnf] at spec
      simp only [Node.vals] at spec
      simp only [insertNode, hnf]
      cases eq with
      | true =>
        obtain ⟨hi, hv⟩ := spec.2.1 rfl
        refine ⟨hs, Nat.le_refl _, by simp, ?_, by simp, by simp⟩
        intro _
        exact ⟨(mem_iff_getD vals e).mpr ⟨i, hi, hv⟩, by simp⟩
      | false =>
        obtain ⟨hlo, hhi⟩ := spec.2.2 rfl
        have hins := ainsert_eq_setInsert vals i e spec.1 hlo hhi
        have hlen := ainsert_length vals i e spec.1
        refine ⟨?_, Nat.le_refl _, ?_, by simp, by simp, by simp⟩
        · refine shape_leaf.mpr ⟨rfl, by omega, ?_⟩
          rcases hmin with h | h
          · exact Or.inl h
          · right; omega
        · intro _; simpa using hins
    | inode id vals cs =>
      obtain ⟨h', rfl, hv1, hvmax, hmin, hlen, hall⟩ := shape_inode.mp hs
      have hlt : vals.length < c.inodeMax := by
        simpa [Node.nVals, Node.vals, Cfg.maxVals, Node.isLeaf] using hnotfull
      rw [elems_inode] at hsorted ⊢
      have hsv : vals.Pairwise (· < ·) := hsorted.sublist (vals_sublist cs vals hlen)
      have spec := nodeFind_spec (.inode id vals cs) e hsv
      rcases hnf : nodeFind (.inode id vals cs) e with ⟨i, eq, k⟩
      rw [hnf] at spec
      simp only [Node.vals] at spec
      simp only [insertNode, hnf]
      cases eq with
      | true =>
        obtain ⟨hi, hv⟩ := spec.2.1 rfl
        refine ⟨hs, Nat.le_refl _, by simp, ?_, by simp, by simp⟩
        intro _
        refine ⟨(vals_sublist cs vals hlen).subset ((mem_iff_getD vals e).mpr ⟨i, hi, hv⟩), by simp⟩
      | false =>
        obtain ⟨hlo, hhi⟩ := spec.2.2 rfl
        have hile := spec.1
        have hi : i < cs.length := by omega
        simp only [Bool.false_eq_true, if_false]
        generalize hch : cs.getD i (.leaf 0 []) = child
        have hchild_mem : child ∈ cs := hch ▸ getD_mem cs i _ hi
        have hchs : Shape c false h' child := hall _ hchild_mem
        have hdec : interleave cs vals = pre cs vals i ++ child.elems ++ suf cs vals i :=
          hch ▸ interleave_getD cs vals i (.leaf 0 []) hi hlen
        have hsorted' : (pre cs vals i ++ child.elems ++ suf cs vals i).Pairwise (· < ·) :=
          hdec ▸ hsorted
        have hpa := List.pairwise_append.mp hsorted'
        have hpa1 := List.pairwise_append.mp hpa.1
        have hP : ∀ x ∈ pre cs vals i, x < e :=
          pre_lt e cs vals i (child.elems ++ suf cs vals i) hlo
            (by simpa [List.append_assoc] using hsorted')
        have hS : ∀ x ∈ suf cs vals i, e < x :=
          suf_gt e cs vals i (fun hl => hhi i (Nat.le_refl _) hl) hpa.2.1
        have hcsorted : child.elems.Pairwise (· < ·) := hpa1.2.1
        by_cases hfull : c.isFull child = true
        · -- the child is full: split it first
          simp only [hfull, if_true]
          by_cases hf : fails a.reqs = true
          · simp only [allocPage, hf, if_true]
            refine ⟨hs, by simp, by simp, by simp, ?_, by simp⟩
            intro _
            exact ⟨by simp, a.reqs, Nat.le_refl _, by simp, hf⟩
          · simp only [allocPage, hf, Bool.false_eq_true, if_false, splitChild_eq, hch]
            obtain ⟨hL, hR, hLnf, hRnf, hsplit⟩ := split_spec c hc a.next hchs hfull
            generalize hLd : splitL c child = L at *
            generalize hRd : splitR c a.next child = R at *
            generalize hmd : splitM c child = m at *
            have hsv' : (ainsert vals i m).getD i 0 = m := ainsert_getD vals i m hile
            rw [hsv', cinsert_getD_left cs i L R _ hi, cinsert_getD_right cs i L R _ hi,
              cinsert_set_left cs i L R _ hi, cinsert_set_right cs i L R _ hi]
            have hshape : ∀ l r', Shape c false h' l → Shape c false h' r' →
                Shape c r (h' + 1) (.inode id (ainsert vals i m) (cinsert (cs.set i l) (i + 1) r')) := by
              intro l r' hl hr
              refine shape_inode.mpr ⟨h', rfl, ?_, ?_, ?_, ?_, ?_⟩
              · rw [ainsert_length vals i m hile]; omega
              · rw [ainsert_length vals i m hile]; omega
              · rw [ainsert_length vals i m hile]
                rcases hmin with h | h
                · exact Or.inl h
                · right; omega
              · rw [ainsert_length vals i m hile, cinsert_length _ _ _ (by simp; omega)]; simp [hlen]
              · intro x hx
                rcases mem_cinsert_set cs i l r' x hx with h | rfl | rfl
                · exact hall x h
                · exact hl
                · exact hr
            rw [hsplit] at hcsorted hdec hsorted'
            have hq := List.pairwise_append.mp hcsorted
            have hq2 := List.pairwise_cons.mp hq.2.1
            have hLm : ∀ x ∈ L.elems, x < m := fun x hx => hq.2.2 x hx m (by simp)
            have hmR : ∀ x ∈ R.elems, m < x := hq2.1
            by_cases hlt1 : m < e
            · simp only [hlt1, if_true]
              have IH := ih { next := a.next + 1, reqs := a.reqs + 1 } R e false h' hR hRnf
                (by omega) hq2.2
              refine InsSpec.lift (P := pre cs vals i ++ L.elems ++ [m]) (S := suf cs vals i) IH
                (by simp) (by rw [hdec]; simp) ?_ ?_ hS (hshape _ _ hL IH.1)
              · rw [elems_inode, interleave_split cs vals i _ _ m hi hlen]; simp
              · intro y hy
                simp only [List.mem_append, List.mem_singleton] at hy
                rcases hy with (hy | hy) | hy
                · exact hP y hy
                · have := hLm y hy; omega
                · omega
            · simp only [hlt1, if_false]
              by_cases heq1 : m = e
              · simp only [heq1, if_true]
                refine ⟨heq1 ▸ hshape _ _ hL hR, by simp, by simp, ?_, by simp, by simp⟩
                intro _
                constructor
                · rw [hdec]; simp [heq1]
                · rw [elems_inode, ← heq1, interleave_split cs vals i _ _ m hi hlen, hdec]; simp
              · simp only [heq1, if_false]
                have IH := ih { next := a.next + 1, reqs := a.reqs + 1 } L e false h' hL hLnf
                  (by omega) hq.1
                refine InsSpec.lift (P := pre cs vals i) (S := m :: R.elems ++ suf cs vals i) IH
                  (by simp) (by rw [hdec]; simp) ?_ hP ?_ (hshape _ _ IH.1 hR)
                · rw [elems_inode, interleave_split cs vals i _ _ m hi hlen]; simp
                · intro y hy
                  simp only [List.cons_append, List.mem_cons, List.mem_append] at hy
                  rcases hy with hy | hy | hy
                  · omega
                  · have := hmR y hy; omega
                  · exact hS y hy
        · -- descend directly
          simp only [hfull, Bool.false_eq_true, if_false]
          have hcnf : child.nVals < c.maxVals child := by
            have h1 := shape_le_max hchs
            have h2 : child.nVals ≠ c.maxVals child := by
              simpa [Cfg.isFull] using hfull
            omega
          have IH := ih a child e false h' hchs hcnf (by omega) hcsorted
          refine InsSpec.lift (P := pre cs vals i) (S := suf cs vals i) IH (Nat.le_refl _) hdec
            ?_ hP hS ?_
          · rw [elems_inode, interleave_set cs vals i _ hi hlen]
          · refine shape_inode.mpr ⟨h', rfl, hv1, hvmax, hmin, by simp [hlen], ?_⟩
            intro x hx
            rcases List.mem_or_eq_of_mem_set hx with h | rfl
            · exact hall x h
            · exact IH.1


theorem InsSpec.mono_alloc {c : Cfg} {fails : Nat → Bool} {e : Nat} {r : Bool} {h : Nat}
    {a a1 a' : AllocSt} {old : List Nat} {n' : Node} {st : Status}
    (hx : InsSpec c fails e r h a1 old a' n' st) (ha : a.reqs ≤ a1.reqs) :
    InsSpec c fails e r h a old a' n' st := by
  obtain ⟨h1, h2, h3, h4, h5, h6⟩ := hx
  refine ⟨h1, by omega, h3, h4, ?_, h6⟩
  intro hst
  obtain ⟨q, k, hk1, hk2, hk3⟩ := h5 hst
  exact ⟨q, k, by omega, hk2, hk3⟩

/-- `Tree.insert`: `grow_up` when the root is full, then the walk down. -/
theorem tree_insert_spec (c : Cfg) (hc : c.Valid) (fails : Nat → Bool) (a : AllocSt) (t : Tree)
    (e : Nat) (hw : WF c t) :
    ∃ H, InsSpec c fails e true H a t.root.elems (t.insert c fails a e).1
        (t.insert c fails a e).2.1.root (t.insert c fails a e).2.2.1 ∧
      (t.insert c fails a e).2.1.size =
        if (t.insert c fails a e).2.2.1 = .success then t.size + 1 else t.size := by
  have hsh := hw.shape
  have hso := hw.sorted
  unfold Tree.insert
  by_cases hfull : c.isFull t.root = true
  · simp only [hfull, if_true]
    by_cases hf1 : fails a.reqs = true
    · simp only [allocPage, hf1, if_true]
      refine ⟨_, ⟨hsh, by simp, by simp, by simp, ?_, by simp⟩, by simp⟩
      intro _
      exact ⟨rfl, a.reqs, Nat.le_refl _, by simp, hf1⟩
    · by_cases hf2 : fails (a.reqs + 1) = true
      · simp only [allocPage, hf1, hf2, Bool.false_eq_true, if_false, if_true]
        refine ⟨_, ⟨hsh, by dsimp only; omega, by simp, by simp, ?_, by simp⟩, by simp⟩
        intro _
        exact ⟨rfl, a.reqs + 1, by omega, by simp, hf2⟩
      · simp only [allocPage, hf1, hf2, Bool.false_eq_true, if_false, splitChild_eq]
        obtain ⟨hL, hR, hLnf, hRnf, hsplit⟩ := split_spec c hc (a.next + 1) hsh hfull
        have h3 := hc.inode3
        simp only [List.getD_cons_zero, List.set_cons_zero, cinsert, ainsert,
          List.nil_append, List.take_succ_cons, List.drop_succ_cons, List.take_nil,
          List.drop_nil, List.cons_append]
        generalize hLd : splitL c t.root = L at *
        generalize hRd : splitR c (a.next + 1) t.root = R at *
        generalize hmd : splitM c t.root = m at *
        have hnew : Shape c true (height t.root + 1) (.inode a.next [m] [L, R]) := by
          refine shape_inode.mpr ⟨_, rfl, by simp, by simp; omega, Or.inl rfl, by simp, ?_⟩
          intro x hx
          simp only [List.mem_cons, List.not_mem_nil, or_false] at hx
          rcases hx with rfl | rfl
          · exact hL
          · exact hR
        have hel : (Node.inode a.next [m] [L, R]).elems = t.root.elems := by
          rw [hsplit]; simp [interleave_cons_cons, interleave_cons_nil]
        have IH := insertNode_spec c hc fails (height t.root + 2)
          { next := a.next + 1 + 1, reqs := a.reqs + 1 + 1 } (.inode a.next [m] [L, R]) e true
          (height t.root + 1) hnew
          (by simp [Node.nVals, Node.vals, Cfg.maxVals, Node.isLeaf]; omega) (by omega)
          (by rw [hel]; exact hso)
        rw [hel] at IH
        exact ⟨_, IH.mono_alloc (by dsimp only; omega), trivial⟩
  · simp only [hfull, Bool.false_eq_true, if_false]
    have hnf : t.root.nVals < c.maxVals t.root := by
      have h1 := shape_le_max hsh
      have h2 : t.root.nVals ≠ c.maxVals t.root := by simpa [Cfg.isFull] using hfull
      omega
    exact ⟨_, insertNode_spec c hc fails (height t.root + 1) a t.root e true (height t.root) hsh hnf
      (by omega) hso, trivial⟩


/-! ### `findNode` -/

theorem vals_sorted {c : Cfg} {r : Bool} {h : Nat} {n : Node} (hs : Shape c r h n)
    (hso : n.elems.Pairwise (· < ·)) : n.vals.Pairwise (· < ·) := by
  cases n with
  | leaf id vs => simpa [Node.vals] using hso
  | inode id vs cs =>
    obtain ⟨h', _, _, _, _, hl, _⟩ := shape_inode.mp hs
    rw [elems_inode] at hso
    exact hso.sublist (vals_sublist cs vs hl)

theorem vals_subset {c : Cfg} {r : Bool} {h : Nat} {n : Node} (hs : Shape c r h n) {x : Nat}
    (hx : x ∈ n.vals) : x ∈ n.elems := by
  cases n with
  | leaf id vs => simpa [Node.vals] using hx
  | inode id vs cs =>
    obtain ⟨h', _, _, _, _, hl, _⟩ := shape_inode.mp hs
    rw [elems_inode]
    exact (vals_sublist cs vs hl).subset hx

theorem nodeAt_cons (n : Node) (i : Nat) (p : List Nat) (hp : p ≠ []) :
    nodeAt n (i :: p) = if n.isLeaf then none else nodeAt (n.child i) p := by
  cases p with
  | nil => exact absurd rfl hp
  | cons j p => simp [nodeAt]

theorem findNode_spec (c : Cfg) : ∀ (fuel : Nat) (n : Node) (e : Nat) (r : Bool) (h : Nat),
    Shape c r h n → h ≤ fuel → n.elems.Pairwise (· < ·) →
    (((findNode fuel n e).1.isSome ↔ e ∈ n.elems) ∧
     ∀ p, (findNode fuel n e).1 = some p →
       ∃ m i, nodeAt n p = some (m, i) ∧ m.vals[i]? = some e) := by
  intro fuel
  induction fuel with
  | zero => intro n e r h hs hf _; have := shape_pos hs; omega
  | succ fuel ih =>
    intro n e r h hs hfuel hso
    have hsv := vals_sorted hs hso
    have spec := nodeFind_spec n e hsv
    rcases hnf : nodeFind n e with ⟨i, eq, k⟩
    rw [hnf] at spec
    simp only [findNode, hnf]
    cases eq with
    | true =>
      obtain ⟨hi, hv⟩ := spec.2.1 rfl
      have hmem : e ∈ n.vals := (mem_iff_getD n.vals e).mpr ⟨i, hi, hv⟩
      simp only [if_true, Option.isSome_some, true_iff]
      refine ⟨vals_subset hs hmem, ?_⟩
      intro p hp
      have : p = [i] := by simpa using hp.symm
      subst this
      refine ⟨n, i, by simp [nodeAt], ?_⟩
      rw [List.getElem?_eq_getElem hi]
      simpa [List.getD_eq_getElem?_getD, List.getElem?_eq_getElem hi] using hv
    | false =>
      obtain ⟨hlo, hhi⟩ := spec.2.2 rfl
      have hile := spec.1
      simp only [Bool.false_eq_true, if_false]
      cases n with
      | leaf id vs =>
        simp only [Node.vals] at hlo hhi hile
        have := (ainsert_eq_setInsert vs i e hile hlo hhi).1
        simp [Node.isLeaf, this]
      | inode id vs cs =>
        obtain ⟨h', rfl, hv1, hvmax, hmin, hlen, hall⟩ := shape_inode.mp hs
        simp only [Node.vals] at hlo hhi hile
        rw [elems_inode] at hso ⊢
        have hi : i < cs.length := by omega
        simp only [Node.isLeaf, Bool.false_eq_true, if_false, Node.child, Node.children]
        generalize hch : cs.getD i (.leaf 0 []) = child
        have hchild_mem : child ∈ cs := hch ▸ getD_mem cs i _ hi
        have hchs : Shape c false h' child := hall _ hchild_mem
        have hdec : interleave cs vs = pre cs vs i ++ child.elems ++ suf cs vs i :=
          hch ▸ interleave_getD cs vs i (.leaf 0 []) hi hlen
        have hsorted' : (pre cs vs i ++ child.elems ++ suf cs vs i).Pairwise (· < ·) :=
          hdec ▸ hso
        have hpa := List.pairwise_append.mp hsorted'
        have hpa1 := List.pairwise_append.mp hpa.1
        have hP : ∀ x ∈ pre cs vs i, x < e :=
          pre_lt e cs vs i (child.elems ++ suf cs vs i) hlo
            (by simpa [List.append_assoc] using hsorted')
        have hS : ∀ x ∈ suf cs vs i, e < x :=
          suf_gt e cs vs i (fun hl => hhi i (Nat.le_refl _) hl) hpa.2.1
        have hsw := (sandwich e _ child.elems _ hP hS).1
        have IH := ih child e false h' hchs (by omega) hpa1.2.1
        rcases hrec : findNode fuel child e with ⟨res, k'⟩
        rw [hrec] at IH
        simp only [Option.isSome_map] at IH ⊢
        refine ⟨by rw [hdec, hsw]; exact IH.1, ?_⟩
        intro p hp
        cases res with
        | none => simp at hp
        | some p' =>
          have : p = i :: p' := by simpa using hp.symm
          subst this
          obtain ⟨m, j, hm, hj⟩ := IH.2 p' rfl
          refine ⟨m, j, ?_, hj⟩
          have hne : p' ≠ [] := by
            intro h0; subst h0; simp [nodeAt] at hm
          rw [nodeAt_cons _ _ _ hne]
          simp only [Node.isLeaf, Bool.false_eq_true, if_false, Node.child, Node.children, hch]
          exact hm

theorem findValue_idx (vals : List Nat) (e : Nat) : ∀ (fuel first count cmps : Nat),
    (findValue vals e first count cmps fuel).1 ≤ first + count := by
  intro fuel
  induction fuel with
  | zero => intro first count cmps; simp [findValue]
  | succ fuel ih =>
    intro first count cmps
    simp only [findValue]
    split
    · simp
    · split
      · show first + count / 2 ≤ _; omega
      · split
        · refine Nat.le_trans (ih _ _ _) ?_; omega
        · refine Nat.le_trans (ih _ _ _) ?_; omega

theorem findNode_cmps (c : Cfg) (hc : c.Valid) : ∀ (fuel : Nat) (n : Node) (e : Nat) (r : Bool) (h : Nat),
    Shape c r h n → (findNode fuel n e).2 ≤ h * (Nat.log2 c.leafMax + 1) := by
  intro fuel
  induction fuel with
  | zero => intro n e r h hs; simp [findNode]
  | succ fuel ih =>
    intro n e r h hs
    have hk := nodeFind_cmps n e
    have hidx : (nodeFind n e).1 ≤ n.nVals := by
      have := findValue_idx n.vals e (n.nVals + 1) 0 n.nVals 0
      simpa [nodeFind] using this
    have hmaxle : c.maxVals n ≤ c.leafMax := by
      have := hc.leaf
      unfold Cfg.maxVals; split <;> omega
    have hlog : Nat.log2 n.nVals ≤ Nat.log2 c.leafMax :=
      log2_mono (Nat.le_trans (shape_le_max hs) hmaxle)
    have hpos := shape_pos hs
    rcases hnf : nodeFind n e with ⟨i, eq, k⟩
    rw [hnf] at hk hidx
    simp only [findNode, hnf]
    have hone : k ≤ h * (Nat.log2 c.leafMax + 1) := by
      have : 1 * (Nat.log2 c.leafMax + 1) ≤ h * (Nat.log2 c.leafMax + 1) :=
        Nat.mul_le_mul_right _ hpos
      simp only at hk
      omega
    cases eq with
    | true => simpa using hone
    | false =>
      simp only [Bool.false_eq_true, if_false]
      cases n with
      | leaf id vs => simpa [Node.isLeaf] using hone
      | inode id vs cs =>
        obtain ⟨h', rfl, hv1, hvmax, hmin, hlen, hall⟩ := shape_inode.mp hs
        simp only [Node.isLeaf, Bool.false_eq_true, if_false, Node.child, Node.children]
        simp only [Node.nVals, Node.vals] at hidx
        have hi : i < cs.length := by omega
        have hchs := hall _ (getD_mem cs i (.leaf 0 []) hi)
        have IH := ih (cs.getD i (.leaf 0 [])) e false h' hchs
        rcases hrec : findNode fuel (cs.getD i (.leaf 0 [])) e with ⟨res, k'⟩
        rw [hrec] at IH
        simp only at IH hk ⊢
        rw [Nat.add_mul]
        omega

/-! ### `destroyOrder` -/

theorem flatMap_perm (cs : List Node) (f g : Node → List Nat)
    (h : ∀ x ∈ cs, (f x).Perm (g x)) : (cs.flatMap f).Perm (cs.flatMap g) := by
  induction cs with
  | nil => simp
  | cons x xs ih =>
    simp only [List.flatMap_cons]
    exact List.Perm.append (h x (by simp)) (ih (fun y hy => h y (by simp [hy])))

theorem destroyOrder_perm (c : Cfg) : ∀ (fuel : Nat) (n : Node) (r : Bool) (h : Nat),
    Shape c r h n → h ≤ fuel → (destroyOrder fuel n).1.Perm n.elems := by
  intro fuel
  induction fuel with
  | zero => intro n r h hs hf; have := shape_pos hs; omega
  | succ fuel ih =>
    intro n r h hs hf
    cases n with
    | leaf id vs => simp [destroyOrder]
    | inode id vs cs =>
      obtain ⟨h', rfl, hv1, hvmax, hmin, hlen, hall⟩ := shape_inode.mp hs
      simp only [destroyOrder, elems_inode, List.flatMap_map]
      refine List.Perm.trans ?_ (interleave_perm cs vs hlen).symm
      refine List.Perm.append_right _ ?_
      exact flatMap_perm cs _ _ (fun x hx => ih x false h' (hall x hx) (by omega))

/-! ### minimum number of elements -/

theorem sum_ge (cs : List Node) (f : Node → Nat) (P : Nat) (h : ∀ x ∈ cs, P ≤ f x) :
    cs.length * P ≤ (cs.map f).sum := by
  induction cs with
  | nil => simp
  | cons x xs ih =>
    have h1 := h x (by simp)
    have h2 := ih (fun y hy => h y (by simp [hy]))
    simp only [List.length_cons, List.map_cons, List.sum_cons, Nat.add_mul, Nat.one_mul]
    omega

theorem min_elems_nonroot (c : Cfg) : ∀ (h : Nat) (n : Node), Shape c false (h + 1) n →
    (c.inodeMin + 1) ^ h * (c.leafMin + 1) ≤ n.elems.length + 1 := by
  intro h
  induction h with
  | zero =>
    intro n hs
    cases n with
    | leaf id vs =>
      obtain ⟨_, _, hmin⟩ := shape_leaf.mp hs
      simp at hmin ⊢; omega
    | inode id vs cs =>
      obtain ⟨h', he, _, _, _, hl, hall⟩ := shape_inode.mp hs
      have : h' = 0 := by omega
      subst this
      cases cs with
      | nil => simp at hl
      | cons c0 cs => have := shape_pos (hall c0 (by simp)); omega
  | succ h ih =>
    intro n hs
    cases n with
    | leaf id vs => obtain ⟨he, _⟩ := shape_leaf.mp hs; omega
    | inode id vs cs =>
      obtain ⟨h', he, _, _, hmin, hl, hall⟩ := shape_inode.mp hs
      have : h' = h + 1 := by omega
      subst this
      have hmin' : c.inodeMin ≤ vs.length := by simpa using hmin
      rw [elems_inode, interleave_length cs vs hl]
      have hsum := sum_ge cs (fun x => x.elems.length + 1) _ (fun x hx => ih x (hall x hx))
      refine Nat.le_trans ?_ hsum
      rw [Nat.pow_succ, Nat.mul_assoc, Nat.mul_comm ((c.inodeMin + 1) ^ h) _, Nat.mul_assoc,
        Nat.mul_comm (c.leafMin + 1) _]
      exact Nat.mul_le_mul_right _ (by omega)

theorem min_elems_root (c : Cfg) (h : Nat) (n : Node) (hs : Shape c true h n) (h2 : 2 ≤ h) :
    c.minElems h ≤ n.elems.length := by
  cases n with
  | leaf id vs => obtain ⟨he, _⟩ := shape_leaf.mp hs; omega
  | inode id vs cs =>
    obtain ⟨h', rfl, hv1, _, _, hl, hall⟩ := shape_inode.mp hs
    obtain ⟨g, rfl⟩ : ∃ g, h' = g + 1 := ⟨h' - 1, by omega⟩
    have hsum := sum_ge cs (fun x => x.elems.length + 1) _
      (fun x hx => min_elems_nonroot c g x (hall x hx))
    have hlen := interleave_length cs vs hl
    have h2' : 2 * ((c.inodeMin + 1) ^ g * (c.leafMin + 1)) ≤
        cs.length * ((c.inodeMin + 1) ^ g * (c.leafMin + 1)) :=
      Nat.mul_le_mul_right _ (by omega)
    rw [elems_inode]
    unfold Cfg.minElems
    have : g + 1 + 1 - 2 = g := by omega
    rw [this, Nat.mul_assoc]
    omega

theorem minElems_mono (c : Cfg) {a b : Nat} (hab : a ≤ b) : c.minElems a ≤ c.minElems b := by
  unfold Cfg.minElems
  have h1 : (c.inodeMin + 1) ^ (a - 2) ≤ (c.inodeMin + 1) ^ (b - 2) :=
    Nat.pow_le_pow_right (by omega) (by omega)
  have h2 := Nat.mul_le_mul_right (c.leafMin + 1) (Nat.mul_le_mul_left 2 h1)
  omega

end Zix.BTree.Ins
