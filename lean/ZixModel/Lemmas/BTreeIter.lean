import ZixModel.Lemmas.BTreeDefs
/-! Helper lemmas for the iterator theorems of Properties/C02. -/
namespace Zix.BTree.It
open Zix.BTree

/-! ### lists -/

theorem head?_append_ne {α} (a b : List α) (h : a ≠ []) : (a ++ b).head? = a.head? := by
  cases a with
  | nil => exact absurd rfl h
  | cons x xs => simp

/-! ### equation lemmas -/

theorem interleave_nil (vs : List Nat) : interleave [] vs = [] := by simp [interleave]
theorem interleave_cons_cons (c : Node) (cs v vs) :
    interleave (c :: cs) (v :: vs) = c.elems ++ v :: interleave cs vs := by simp [interleave]
theorem interleave_cons_nil (c : Node) (cs) : interleave (c :: cs) [] = c.elems ++ interleave cs [] := by
  simp [interleave]
theorem elems_leaf (i vs) : (Node.leaf i vs).elems = vs := by simp [Node.elems]
theorem elems_inode (i vs cs) : (Node.inode i vs cs).elems = interleave cs vs := by simp [Node.elems]
theorem shape_leaf (c r h i vs) : Shape c r h (.leaf i vs) ↔
    (h = 1 ∧ vs.length ≤ c.leafMax ∧ (r = true ∨ c.leafMin ≤ vs.length)) := by simp [Shape]
theorem shape_inode (c r h i vs cs) : Shape c r h (.inode i vs cs) ↔
    ∃ h', h = h' + 1 ∧ 1 ≤ vs.length ∧ vs.length ≤ c.inodeMax ∧ (r = true ∨ c.inodeMin ≤ vs.length) ∧
      cs.length = vs.length + 1 ∧ ShapeAll c h' cs := by simp [Shape]
theorem shapeAll_cons (c h x xs) : ShapeAll c h (x :: xs) ↔ Shape c false h x ∧ ShapeAll c h xs := by
  simp [ShapeAll]

/-- the default child the model's `getD` falls back to -/
abbrev dflt : Node := Node.leaf 0 []

theorem child_inode (id vs cs i) : (Node.inode id vs cs).child i = cs.getD i dflt := rfl

/-! ### interleave -/

/-- the part of an internal node's element list after child `i` -/
def tailAt (cs : List Node) (vs : List Nat) (i : Nat) : List Nat :=
  match vs[i]? with
  | some v => v :: interleave (cs.drop (i + 1)) (vs.drop (i + 1))
  | none => []

theorem tailAt_lt (cs : List Node) (vs : List Nat) (i : Nat) (h : i < vs.length) :
    tailAt cs vs i = vs[i] :: interleave (cs.drop (i + 1)) (vs.drop (i + 1)) := by
  simp [tailAt, h]

theorem tailAt_ge (cs : List Node) (vs : List Nat) (i : Nat) (h : vs.length ≤ i) : tailAt cs vs i = [] := by
  simp [tailAt, h]

theorem tailAt_head (cs : List Node) (vs : List Nat) (i : Nat) : (tailAt cs vs i).head? = vs[i]? := by
  unfold tailAt; cases vs[i]? <;> simp

theorem interleave_split : ∀ (i : Nat) (cs : List Node) (vs : List Nat), cs.length = vs.length + 1 → i ≤ vs.length →
    interleave cs vs = interleave (cs.take i) (vs.take i) ++ ((cs.getD i dflt).elems ++ tailAt cs vs i) := by
  intro i
  induction i with
  | zero =>
    intro cs vs hl _
    cases cs with
    | nil => simp at hl
    | cons c cs' =>
      cases vs with
      | nil =>
        have : cs' = [] := by cases cs' <;> simp_all
        subst this
        simp [interleave_cons_nil, interleave_nil, tailAt]
      | cons v vs' => simp [interleave_cons_cons, interleave_nil, tailAt]
  | succ i ih =>
    intro cs vs hl hi
    cases vs with
    | nil => simp at hi
    | cons v vs' =>
      cases cs with
      | nil => simp at hl
      | cons c cs' =>
        have hl' : cs'.length = vs'.length + 1 := by simpa using hl
        have hi' : i ≤ vs'.length := by simpa using hi
        have := ih cs' vs' hl' hi'
        simp only [List.take_succ_cons, interleave_cons_cons, List.append_assoc, List.cons_append]
        rw [this]
        simp [tailAt]

theorem mem_interleave_child : ∀ (cs : List Node) (vs : List Nat) (c : Node) (a : Nat),
    c ∈ cs → a ∈ c.elems → a ∈ interleave cs vs := by
  intro cs
  induction cs with
  | nil => intro vs c a h; simp at h
  | cons x xs ih =>
    intro vs c a hc ha
    cases vs with
    | nil =>
      rw [interleave_cons_nil]
      rcases List.mem_cons.1 hc with rfl | hc
      · exact List.mem_append_left _ ha
      · exact List.mem_append_right _ (ih [] c a hc ha)
    | cons v vs' =>
      rw [interleave_cons_cons]
      rcases List.mem_cons.1 hc with rfl | hc
      · exact List.mem_append_left _ ha
      · exact List.mem_append_right _ (List.mem_cons_of_mem _ (ih vs' c a hc ha))

theorem vals_sublist : ∀ (cs : List Node) (vs : List Nat), vs.length ≤ cs.length → vs.Sublist (interleave cs vs) := by
  intro cs
  induction cs with
  | nil => intro vs h; cases vs <;> simp_all
  | cons x xs ih =>
    intro vs h
    cases vs with
    | nil => simp
    | cons v vs' =>
      rw [interleave_cons_cons]
      have := ih vs' (by simpa using h)
      exact (List.Sublist.cons_cons v this).trans (List.sublist_append_right _ _)

/-- In an interleaving that ends with a value, every element is a value or is related to a later value. -/
theorem before_rel {R : Nat → Nat → Prop} : ∀ (cs : List Node) (vs : List Nat), cs.length = vs.length →
    (interleave cs vs).Pairwise R → ∀ a ∈ interleave cs vs, a ∈ vs ∨ ∃ b ∈ vs, R a b := by
  intro cs
  induction cs with
  | nil => intro vs _ _ a ha; simp [interleave_nil] at ha
  | cons x xs ih =>
    intro vs hl hp a ha
    cases vs with
    | nil => simp at hl
    | cons v vs' =>
      rw [interleave_cons_cons] at hp ha
      rw [List.pairwise_append] at hp
      obtain ⟨_, hp2, hp3⟩ := hp
      rcases List.mem_append.1 ha with ha | ha
      · exact Or.inr ⟨v, by simp, hp3 a ha v (by simp)⟩
      · rcases List.mem_cons.1 ha with rfl | ha
        · exact Or.inl (by simp)
        · rcases ih vs' (by simpa using hl) (List.Pairwise.of_cons hp2) a ha with h | ⟨b, hb, hr⟩
          · exact Or.inl (List.mem_cons_of_mem _ h)
          · exact Or.inr ⟨b, List.mem_cons_of_mem _ hb, hr⟩

/-! ### shape -/

theorem shapeAll_getD (c : Cfg) (h : Nat) : ∀ (cs : List Node) (i : Nat), ShapeAll c h cs → i < cs.length →
    Shape c false h (cs.getD i dflt) := by
  intro cs
  induction cs with
  | nil => intro i _ hi; simp at hi
  | cons x xs ih =>
    intro i hs hi
    rw [shapeAll_cons] at hs
    cases i with
    | zero => simpa using hs.1
    | succ i => simpa using ih i hs.2 (by simpa using hi)

theorem shape_inode_children {c : Cfg} {r : Bool} {h id vs cs} (hs : Shape c r h (.inode id vs cs)) :
    ∃ h', h = h' + 1 ∧ 1 ≤ vs.length ∧ cs.length = vs.length + 1 ∧
      ∀ i, i < cs.length → Shape c false h' (cs.getD i dflt) := by
  rw [shape_inode] at hs
  obtain ⟨h', h1, h2, _, _, h5, h6⟩ := hs
  exact ⟨h', h1, h2, h5, fun i hi => shapeAll_getD c h' cs i h6 hi⟩

theorem height_eq (c : Cfg) : ∀ (h : Nat) (r : Bool) (n : Node), Shape c r h n → height n = h := by
  intro h
  induction h with
  | zero =>
    intro r n hs
    cases n with
    | leaf id vs => rw [shape_leaf] at hs; omega
    | inode id vs cs => obtain ⟨h', h1, _⟩ := shape_inode_children hs; omega
  | succ k ih =>
    intro r n hs
    cases n with
    | leaf id vs => rw [shape_leaf] at hs; simp [height]; omega
    | inode id vs cs =>
      obtain ⟨h', h1, _, h3, h4⟩ := shape_inode_children hs
      cases cs with
      | nil => simp at h3
      | cons c0 cs' =>
        have := ih false c0 (by have := h4 0 (by simp); simpa [show h' = k by omega] using this)
        simp [height, this]; omega

theorem elems_ne_nil {c : Cfg} {h : Nat} {n : Node} (hs : Shape c false h n) (hm : 1 ≤ c.leafMin) : n.elems ≠ [] := by
  cases n with
  | leaf id vs =>
    rw [shape_leaf] at hs
    rw [elems_leaf]
    intro h0; subst h0; simp at hs; omega
  | inode id vs cs =>
    obtain ⟨h', _, h2, h3, _⟩ := shape_inode_children hs
    rw [elems_inode]
    cases cs with
    | nil => simp at h3
    | cons c0 cs' =>
      cases vs with
      | nil => simp at h2
      | cons v vs' => rw [interleave_cons_cons]; simp

/-! ### paths -/

/-- a path that points at an existing value (same body as `Zix.C02.ValidIter`) -/
def VI (root : Node) (p : List Nat) : Prop := ∃ n i, nodeAt root p = some (n, i) ∧ i < n.nVals

theorem nodeAt_nil (n : Node) : nodeAt n [] = none := by simp [nodeAt]
theorem nodeAt_single (n : Node) (i : Nat) : nodeAt n [i] = some (n, i) := by simp [nodeAt]
theorem nodeAt_cons_cons (n : Node) (i j : Nat) (r : List Nat) :
    nodeAt n (i :: j :: r) = if n.isLeaf then none else nodeAt (n.child i) (j :: r) := by simp [nodeAt]
theorem nodeAt_cons (n : Node) (i : Nat) (r : List Nat) (hr : r ≠ []) (hn : n.isLeaf = false) :
    nodeAt n (i :: r) = nodeAt (n.child i) r := by
  cases r with
  | nil => exact absurd rfl hr
  | cons j r => simp [nodeAt_cons_cons, hn]

theorem vi_nil (n : Node) : ¬ VI n [] := by simp [VI, nodeAt_nil]
theorem vi_single (n : Node) (i : Nat) : VI n [i] ↔ i < n.nVals := by
  simp only [VI, nodeAt_single]
  constructor
  · rintro ⟨m, j, h1, h2⟩
    cases h1; exact h2
  · intro h; exact ⟨n, i, rfl, h⟩
theorem vi_dflt (p : List Nat) : ¬ VI dflt p := by
  cases p with
  | nil => exact vi_nil _
  | cons i r =>
    cases r with
    | nil => simp [vi_single, Node.nVals, Node.vals]
    | cons j r => simp [VI, nodeAt_cons_cons, Node.isLeaf]
theorem vi_cons (n : Node) (i : Nat) (r : List Nat) (hr : r ≠ []) :
    VI n (i :: r) ↔ n.isLeaf = false ∧ VI (n.child i) r := by
  cases r with
  | nil => exact absurd rfl hr
  | cons j r =>
    unfold VI
    rw [nodeAt_cons_cons]
    cases hl : n.isLeaf <;> simp

theorem deref_single (n : Node) (i : Nat) : deref n (some [i]) = n.vals[i]? := by
  simp [deref, nodeAt_single]
theorem deref_cons (n : Node) (i : Nat) (r : List Nat) (hr : r ≠ []) (hn : n.isLeaf = false) :
    deref n (some (i :: r)) = deref (n.child i) (some r) := by
  simp [deref, nodeAt_cons n i r hr hn]

/-- one step down along a valid path -/
theorem vi_step {c : Cfg} {rt : Bool} {h : Nat} {n : Node} {i : Nat} {r : List Nat} (hs : Shape c rt h n)
    (hr : r ≠ []) (hv : VI n (i :: r)) :
    ∃ id vs cs h', n = .inode id vs cs ∧ h = h' + 1 ∧ 1 ≤ vs.length ∧ cs.length = vs.length + 1 ∧ i < cs.length ∧
      VI (cs.getD i dflt) r ∧ (∀ k, k < cs.length → Shape c false h' (cs.getD k dflt)) := by
  rw [vi_cons n i r hr] at hv
  cases n with
  | leaf id vs => simp [Node.isLeaf] at hv
  | inode id vs cs =>
    obtain ⟨h', h1, h2, h3, h4⟩ := shape_inode_children hs
    rw [child_inode] at hv
    refine ⟨id, vs, cs, h', rfl, h1, h2, h3, ?_, hv.2, h4⟩
    by_cases hi : i < cs.length
    · exact hi
    · exfalso
      have : cs.getD i dflt = dflt := by simp [List.getD, List.getElem?_eq_none (Nat.le_of_not_lt hi)]
      rw [this] at hv
      exact vi_dflt r hv.2

/-! ### leftmost / begin -/

theorem leftmost_ne_nil (f : Nat) (n : Node) : leftmost f n ≠ [] := by
  cases f with
  | zero => simp [leftmost]
  | succ f => simp only [leftmost]; split <;> simp

theorem leftmost_spec (c : Cfg) (hm : 1 ≤ c.leafMin) : ∀ (h : Nat) (r : Bool) (n : Node) (fuel : Nat),
    Shape c r h n → n.elems ≠ [] → h ≤ fuel →
    VI n (leftmost fuel n) ∧ deref n (some (leftmost fuel n)) = n.elems.head? := by
  intro h
  induction h with
  | zero =>
    intro r n fuel hs
    cases n with
    | leaf id vs => rw [shape_leaf] at hs; omega
    | inode id vs cs => obtain ⟨h', h1, _⟩ := shape_inode_children hs; omega
  | succ k ih =>
    intro r n fuel hs hne hf
    obtain ⟨f, rfl⟩ : ∃ f, fuel = f + 1 := ⟨fuel - 1, by omega⟩
    cases n with
    | leaf id vs =>
      rw [elems_leaf] at hne ⊢
      simp only [leftmost, Node.isLeaf, if_true]
      refine ⟨(vi_single _ _).2 ?_, ?_⟩
      · cases vs with
        | nil => exact absurd rfl hne
        | cons v vs => simp [Node.nVals, Node.vals]
      · rw [deref_single]; cases vs <;> simp [Node.vals]
    | inode id vs cs =>
      obtain ⟨h', h1, h2, h3, h4⟩ := shape_inode_children hs
      have hk : h' = k := by omega
      subst hk
      have hc0 := h4 0 (by omega)
      have hne0 := elems_ne_nil hc0 hm
      obtain ⟨iv, id'⟩ := ih false _ f hc0 hne0 (by omega)
      have hl : leftmost (f + 1) (Node.inode id vs cs) = 0 :: leftmost f (cs.getD 0 dflt) := by
        simp [leftmost, Node.isLeaf, child_inode]
      rw [hl]
      refine ⟨(vi_cons _ _ _ (leftmost_ne_nil _ _)).2 ⟨rfl, by rw [child_inode]; exact iv⟩, ?_⟩
      rw [deref_cons _ _ _ (leftmost_ne_nil _ _) rfl, child_inode, id', elems_inode]
      cases cs with
      | nil => simp at h3
      | cons c0 cs' =>
        cases vs with
        | nil => simp at h2
        | cons v vs' =>
          rw [interleave_cons_cons]
          simp only [List.getD_cons_zero] at hne0 ⊢
          rw [head?_append_ne _ _ hne0]

/-! ### consequences of a pairwise relation on the element list of an internal node -/

theorem getD_mem (cs : List Node) (i : Nat) (h : i < cs.length) : cs.getD i dflt ∈ cs := by
  simp [List.getD, List.getElem?_eq_getElem h]

theorem split_pairwise {R : Nat → Nat → Prop} (cs : List Node) (vs : List Nat) (i : Nat)
    (hl : cs.length = vs.length + 1) (hi : i ≤ vs.length) (hp : (interleave cs vs).Pairwise R) :
    (interleave (cs.take i) (vs.take i)).Pairwise R ∧ (cs.getD i dflt).elems.Pairwise R ∧
    (tailAt cs vs i).Pairwise R ∧
    (∀ a ∈ interleave (cs.take i) (vs.take i), ∀ b ∈ (cs.getD i dflt).elems ++ tailAt cs vs i, R a b) ∧
    (∀ a ∈ (cs.getD i dflt).elems, ∀ b ∈ tailAt cs vs i, R a b) := by
  rw [interleave_split i cs vs hl hi, List.pairwise_append, List.pairwise_append] at hp
  obtain ⟨h1, ⟨h2, h3, h4⟩, h5⟩ := hp
  exact ⟨h1, h2, h3, h5, h4⟩

theorem val_mem_rest (cs : List Node) (vs : List Nat) (i j : Nat) (hl : cs.length = vs.length + 1)
    (hij : i < j) (hj : j < vs.length) : vs[j] ∈ interleave (cs.drop (i + 1)) (vs.drop (i + 1)) := by
  refine (vals_sublist _ _ (by simp; omega)).subset ?_
  rw [List.mem_drop_iff_getElem]
  exact ⟨j - (i + 1), by omega, by congr 1; omega⟩

theorem child_mem_rest (cs : List Node) (vs : List Nat) (i j : Nat) (a : Nat)
    (hij : i < j) (hj : j < cs.length) (ha : a ∈ (cs.getD j dflt).elems) :
    a ∈ interleave (cs.drop (i + 1)) (vs.drop (i + 1)) := by
  refine mem_interleave_child _ _ (cs.getD j dflt) a ?_ ha
  rw [List.mem_drop_iff_getElem]
  refine ⟨j - (i + 1), by omega, ?_⟩
  simp only [List.getD, List.getElem?_eq_getElem hj, Option.getD_some]
  congr 1; omega

theorem val_mem_interleave (cs : List Node) (vs : List Nat) (i : Nat) (hl : cs.length = vs.length + 1)
    (hi : i < vs.length) : vs[i] ∈ interleave cs vs :=
  (vals_sublist cs vs (by omega)).subset (List.getElem_mem hi)

theorem child_mem_interleave (cs : List Node) (vs : List Nat) (i : Nat) (a : Nat) (hi : i < cs.length)
    (ha : a ∈ (cs.getD i dflt).elems) : a ∈ interleave cs vs :=
  mem_interleave_child cs vs _ a (getD_mem cs i hi) ha

/-! ### a valid path points at an element; distinct valid paths point at distinct elements -/

theorem frame_cases {c : Cfg} {rt : Bool} {h : Nat} {id vs cs} {i : Nat} {rp : List Nat} {v : Nat}
    (hs : Shape c rt h (.inode id vs cs)) (hv : VI (.inode id vs cs) (i :: rp))
    (hd : deref (.inode id vs cs) (some (i :: rp)) = some v) :
    (rp = [] ∧ ∃ hi : i < vs.length, v = vs[i]) ∨
    (rp ≠ [] ∧ i < cs.length ∧ VI (cs.getD i dflt) rp ∧ deref (cs.getD i dflt) (some rp) = some v) := by
  by_cases hr : rp = []
  · subst hr
    rw [vi_single] at hv
    rw [deref_single] at hd
    have hv' : i < vs.length := hv
    simp only [Node.vals, List.getElem?_eq_getElem hv', Option.some.injEq] at hd
    exact Or.inl ⟨rfl, hv', hd.symm⟩
  · obtain ⟨id', vs', cs', h', he, _, _, _, h5, h6, _⟩ := vi_step hs hr hv
    cases he
    rw [deref_cons _ _ _ hr rfl, child_inode] at hd
    exact Or.inr ⟨hr, h5, h6, hd⟩

theorem vi_deref_mem (c : Cfg) : ∀ (h : Nat) (rt : Bool) (n : Node) (p : List Nat), Shape c rt h n → VI n p →
    ∃ v, deref n (some p) = some v ∧ v ∈ n.elems := by
  intro h
  induction h with
  | zero =>
    intro rt n p hs
    cases n with
    | leaf id vs => rw [shape_leaf] at hs; omega
    | inode id vs cs => obtain ⟨h', h1, _⟩ := shape_inode_children hs; omega
  | succ k ih =>
    intro rt n p hs hv
    cases p with
    | nil => exact absurd hv (vi_nil _)
    | cons i rp =>
      by_cases hr : rp = []
      · subst hr
        rw [vi_single] at hv
        rw [deref_single]
        cases n with
        | leaf id vs =>
          have hv' : i < vs.length := hv
          exact ⟨vs[i], by simp [Node.vals, hv'], by rw [elems_leaf]; exact List.getElem_mem hv'⟩
        | inode id vs cs =>
          have hv' : i < vs.length := hv
          obtain ⟨h', h1, h2, h3, h4⟩ := shape_inode_children hs
          exact ⟨vs[i], by simp [Node.vals, hv'], by rw [elems_inode]; exact val_mem_interleave cs vs i h3 hv'⟩
      · obtain ⟨id, vs, cs, h', he, h1, _, h3, h5, h6, h7⟩ := vi_step hs hr hv
        subst he
        have hk : h' = k := by omega
        subst hk
        obtain ⟨v, hd, hm⟩ := ih false _ rp (h7 i h5) h6
        refine ⟨v, ?_, ?_⟩
        · rw [deref_cons _ _ _ hr rfl, child_inode]; exact hd
        · rw [elems_inode]; exact child_mem_interleave cs vs i v h5 hm

/-- paths through an earlier child/value point at smaller elements -/
theorem frame_lt {c : Cfg} {rt : Bool} {h : Nat} {id vs cs} {i j : Nat} {rp rq : List Nat} {vp vq : Nat}
    (hs : Shape c rt h (.inode id vs cs)) (hsort : (interleave cs vs).Pairwise (· < ·))
    (hp : VI (.inode id vs cs) (i :: rp)) (hq : VI (.inode id vs cs) (j :: rq))
    (hdp : deref (.inode id vs cs) (some (i :: rp)) = some vp)
    (hdq : deref (.inode id vs cs) (some (j :: rq)) = some vq) (hij : i < j) : vp < vq := by
  obtain ⟨h', h1, h2, h3, h4⟩ := shape_inode_children hs
  have hjle : j ≤ vs.length := by
    rcases frame_cases hs hq hdq with ⟨_, hj, _⟩ | ⟨_, hj, _⟩ <;> omega
  have hi : i < vs.length := by omega
  obtain ⟨_, _, s3, _, s5⟩ := split_pairwise cs vs i h3 (by omega) hsort
  rw [tailAt_lt cs vs i hi] at s3
  obtain ⟨s3a, s3b⟩ := List.pairwise_cons.1 s3
  have hle : vp ≤ vs[i] := by
    rcases frame_cases hs hp hdp with ⟨_, _, hv⟩ | ⟨_, hic, hvi, hd⟩
    · omega
    · obtain ⟨v', hd', hm⟩ := vi_deref_mem c h' false _ rp (h4 i hic) hvi
      rw [hd] at hd'; cases hd'
      have := s5 vp hm vs[i] (by rw [tailAt_lt cs vs i hi]; simp)
      omega
  have hlt : vs[i] < vq := by
    apply s3a
    rcases frame_cases hs hq hdq with ⟨_, hj, hv⟩ | ⟨_, hjc, hvj, hd⟩
    · rw [hv]; exact val_mem_rest cs vs i j h3 hij hj
    · obtain ⟨v', hd', hm⟩ := vi_deref_mem c h' false _ rq (h4 j hjc) hvj
      rw [hd] at hd'; cases hd'
      exact child_mem_rest cs vs i j vq hij hjc hm
  omega

theorem path_inj (c : Cfg) : ∀ (h : Nat) (rt : Bool) (n : Node) (p q : List Nat) (v : Nat), Shape c rt h n →
    n.elems.Pairwise (· < ·) → VI n p → VI n q → deref n (some p) = some v → deref n (some q) = some v →
    p = q := by
  intro h
  induction h with
  | zero =>
    intro rt n p q v hs
    cases n with
    | leaf id vs => rw [shape_leaf] at hs; omega
    | inode id vs cs => obtain ⟨h', h1, _⟩ := shape_inode_children hs; omega
  | succ k ih =>
    intro rt n p q v hs hsort hp hq hdp hdq
    cases p with
    | nil => exact absurd hp (vi_nil _)
    | cons i rp =>
    cases q with
    | nil => exact absurd hq (vi_nil _)
    | cons j rq =>
    cases n with
    | leaf id vs =>
      have hrp : rp = [] := by
        by_cases hr : rp = []
        · exact hr
        · have := ((vi_cons _ _ _ hr).1 hp).1; simp [Node.isLeaf] at this
      have hrq : rq = [] := by
        by_cases hr : rq = []
        · exact hr
        · have := ((vi_cons _ _ _ hr).1 hq).1; simp [Node.isLeaf] at this
      subst hrp; subst hrq
      rw [vi_single] at hp hq
      have hp' : i < vs.length := hp
      have hq' : j < vs.length := hq
      rw [deref_single] at hdp hdq
      simp only [Node.vals, List.getElem?_eq_getElem hp', List.getElem?_eq_getElem hq', Option.some.injEq] at hdp hdq
      rw [elems_leaf] at hsort
      have hpw := List.pairwise_iff_getElem.1 hsort
      rcases Nat.lt_trichotomy i j with hij | hij | hij
      · have := hpw i j hp' hq' hij; omega
      · rw [hij]
      · have := hpw j i hq' hp' hij; omega
    | inode id vs cs =>
      rw [elems_inode] at hsort
      rcases Nat.lt_trichotomy i j with hij | hij | hij
      · have := frame_lt hs hsort hp hq hdp hdq hij; omega
      · subst hij
        obtain ⟨h', h1, h2, h3, h4⟩ := shape_inode_children hs
        have hk : h' = k := by omega
        subst hk
        have mixed : ∀ (ra : List Nat), ra ≠ [] → VI (Node.inode id vs cs) (i :: ra) →
            deref (Node.inode id vs cs) (some (i :: ra)) = some v → ∀ hi : i < vs.length, v = vs[i] → False := by
          intro ra hra hva hda hi hv
          rcases frame_cases hs hva hda with ⟨hnil, _⟩ | ⟨_, hic, hvi, hd⟩
          · exact hra hnil
          · obtain ⟨v', hd', hm⟩ := vi_deref_mem c h' false _ ra (h4 i hic) hvi
            rw [hd] at hd'; cases hd'
            obtain ⟨_, _, _, _, s5⟩ := split_pairwise cs vs i h3 (by omega) hsort
            have := s5 v hm vs[i] (by rw [tailAt_lt cs vs i hi]; simp)
            omega
        rcases frame_cases hs hp hdp with ⟨hnp, hi, hv⟩ | ⟨hnp, hic, hvi, hd⟩
        · rcases frame_cases hs hq hdq with ⟨hnq, _, _⟩ | ⟨hnq, _, _, _⟩
          · rw [hnp, hnq]
          · exact (mixed rq hnq hq hdq hi hv).elim
        · rcases frame_cases hs hq hdq with ⟨hnq, hi, hv⟩ | ⟨hnq, _, hvi', hd'⟩
          · exact (mixed rp hnp hp hdp hi hv).elim
          · obtain ⟨_, s2, _⟩ := split_pairwise cs vs i h3 (by omega) hsort
            rw [ih false _ rp rq v (h4 i hic) s2 hvi hvi' hd hd']
      · have := frame_lt hs hsort hq hp hdq hdp hij; omega

theorem valid_leafMin {c : Cfg} (hc : c.Valid) : 1 ≤ c.leafMin := by
  have h1 := hc.inode3
  have h2 := hc.leaf
  unfold Cfg.leafMin
  omega

/-! ### why `begin_spec` and `increment_walks_inorder` need `c.Valid`

`WF` alone does not exclude a degenerate geometry with `leafMin = 0` (`leafMax ≤ 2`, which the page-size
macros of btree.c never produce): then a non-root leaf may be empty, `begin` / `increment` descend into it
and point at no element. -/

def badCfg : Cfg := ⟨2, 2, 8⟩
def badTree : Tree := ⟨.inode 1 [5, 7] [.leaf 2 [], .leaf 3 [], .leaf 4 []], 2, 0⟩

theorem badTree_wf : WF badCfg badTree := by
  refine ⟨?_, ?_, ?_⟩
  · simp [badTree, badCfg, height, shape_inode, shape_leaf, ShapeAll, Cfg.leafMin]
  · simp [badTree, elems_inode, elems_leaf, interleave_cons_cons, interleave_cons_nil, interleave_nil]
  · simp [badTree, elems_inode, elems_leaf, interleave_cons_cons, interleave_cons_nil, interleave_nil]

theorem badTree_elems : badTree.root.elems = [5, 7] := by
  simp [badTree, elems_inode, elems_leaf, interleave_cons_cons, interleave_cons_nil, interleave_nil]

/-- counterexample to `begin_spec` without `c.Valid` -/
theorem begin_needs_valid : deref badTree.root badTree.begin = none ∧ badTree.root.elems.head? = some 5 := by
  rw [badTree_elems]; exact ⟨by decide, rfl⟩

/-- counterexample to `increment_walks_inorder` without `c.Valid`: the iterator at `5` (path `[0]`) is valid,
`elems = [] ++ 5 :: [7]`, but its increment `[1, 0]` points into an empty leaf. -/
theorem increment_needs_valid :
    VI badTree.root [0] ∧ deref badTree.root (some [0]) = some 5 ∧ badTree.root.elems = [] ++ 5 :: [7] ∧
    increment badTree.root [0] = some [1, 0] ∧ deref badTree.root (increment badTree.root [0]) = none ∧
    ¬ VI badTree.root [1, 0] := by
  refine ⟨(vi_single _ _).2 (by decide), by decide, by rw [badTree_elems]; rfl, by decide, by decide, ?_⟩
  rintro ⟨n, i, h1, h2⟩
  have : nodeAt badTree.root [1, 0] = some (.leaf 3 [], 0) := rfl
  rw [this] at h1; cases h1
  simp [Node.nVals, Node.vals] at h2

/-! ### popEnds as a structural recursion from the root -/

/-- result at a node from the result in child `i`: the child's, else the separator `i` if there is one -/
def lift (n : Node) (i : Nat) (r : Iter) : Iter :=
  match r with
  | some q => some (i :: q)
  | none => if i < n.nVals then some [i] else none

/-- longest prefix of the path whose last index is not at the end of its node -/
def popSpec : Node → List Nat → Iter
  | _, [] => none
  | n, i :: rest =>
    match rest with
    | [] => if i < n.nVals then some [i] else none
    | _ :: _ => lift n i (popSpec (n.child i) rest)

theorem popSpec_single (n : Node) (i : Nat) : popSpec n [i] = if i < n.nVals then some [i] else none := by
  simp [popSpec]
theorem popSpec_cons (n : Node) (i : Nat) (r : List Nat) (hr : r ≠ []) :
    popSpec n (i :: r) = lift n i (popSpec (n.child i) r) := by
  cases r with
  | nil => exact absurd rfl hr
  | cons j r => simp [popSpec]

theorem nodeAt_cons_some {n : Node} {i : Nat} {r : List Nat} {x : Node × Nat} (hr : r ≠ [])
    (h : nodeAt n (i :: r) = some x) : n.isLeaf = false ∧ nodeAt (n.child i) r = some x := by
  cases r with
  | nil => exact absurd rfl hr
  | cons j r =>
    rw [nodeAt_cons_cons] at h
    cases hl : n.isLeaf <;> simp_all

theorem popSpec_snoc : ∀ (a : List Nat) (root : Node) (i : Nat) (n : Node) (x : Nat),
    nodeAt root (a ++ [i]) = some (n, x) →
    popSpec root (a ++ [i]) =
      if n.nVals ≤ i then (if a = [] then none else popSpec root a) else some (a ++ [i]) := by
  intro a
  induction a with
  | nil =>
    intro root i n x h
    simp only [List.nil_append, nodeAt_single, Option.some.injEq, Prod.mk.injEq] at h
    obtain ⟨rfl, _⟩ := h
    simp only [List.nil_append, popSpec_single, if_true]
    by_cases hi : i < root.nVals
    · simp [hi, Nat.not_le.2 hi]
    · simp [hi, Nat.not_lt.1 hi]
  | cons j a ih =>
    intro root i n x h
    have hne : a ++ [i] ≠ [] := by simp
    rw [List.cons_append] at h ⊢
    obtain ⟨hl, h'⟩ := nodeAt_cons_some hne h
    rw [popSpec_cons _ _ _ hne, ih _ i n x h']
    by_cases hi : n.nVals ≤ i
    · simp only [hi, if_true, List.cons_ne_nil, if_false]
      by_cases ha : a = []
      · subst ha; simp [lift, popSpec_single]
      · simp only [ha, if_false]; rw [popSpec_cons _ _ _ ha]
    · simp [hi, lift]

theorem nodeAt_snoc_isSome : ∀ (a : List Nat) (root : Node) (i : Nat), a ≠ [] →
    (nodeAt root (a ++ [i])).isSome → (nodeAt root a).isSome := by
  intro a
  induction a with
  | nil => intro _ _ h; exact absurd rfl h
  | cons j a ih =>
    intro root i _ h
    by_cases ha : a = []
    · subst ha; simp [nodeAt_single]
    · obtain ⟨x, hx⟩ := Option.isSome_iff_exists.1 h
      rw [List.cons_append] at hx
      obtain ⟨hl, h'⟩ := nodeAt_cons_some (by simp) hx
      rw [nodeAt_cons _ _ _ ha hl]
      exact ih _ i ha (by rw [h']; rfl)

theorem popEnds_cons (root : Node) (f i : Nat) (up : List Nat) :
    popEnds root (f + 1) (i :: up) =
      match nodeAt root (up.reverse ++ [i]) with
      | none => none
      | some (n, _) =>
        if n.nVals ≤ i then (if up = [] then none else popEnds root f up) else some (up.reverse ++ [i]) := by
  cases up <;> simp [popEnds] <;> rfl

theorem popEnds_eq (root : Node) : ∀ (fuel : Nat) (a : List Nat), a.length < fuel → (nodeAt root a).isSome →
    popEnds root fuel a.reverse = popSpec root a := by
  intro fuel
  induction fuel with
  | zero => intro a h; omega
  | succ f ih =>
    intro a hlen hsome
    rcases List.eq_nil_or_concat a with rfl | ⟨a', i, rfl⟩
    · simp [nodeAt_nil] at hsome
    · obtain ⟨⟨n, x⟩, hx⟩ := Option.isSome_iff_exists.1 hsome
      rw [List.concat_eq_append] at hx hlen hsome ⊢
      rw [List.reverse_append, List.reverse_singleton, List.singleton_append, popEnds_cons,
        List.reverse_reverse, hx, popSpec_snoc a' root i n x hx]
      simp only [List.reverse_eq_nil_iff]
      by_cases hi : n.nVals ≤ i
      · simp only [hi, if_true]
        by_cases ha : a' = []
        · simp [ha]
        · simp only [ha, if_false]
          exact ih a' (by simp at hlen; omega) (nodeAt_snoc_isSome a' root i ha hsome)
      · simp [hi]

theorem lift_deref_none (n : Node) (i : Nat) : deref n (lift n i none) = n.vals[i]? := by
  unfold lift
  by_cases hi : i < n.nVals
  · simp [hi, deref_single]
  · simp only [hi, if_false, deref]
    exact (List.getElem?_eq_none (Nat.not_lt.1 hi)).symm

theorem lift_deref_some (n : Node) (i : Nat) (q : List Nat) (hq : q ≠ []) (hn : n.isLeaf = false) :
    deref n (lift n i (some q)) = deref (n.child i) (some q) := by
  simp only [lift]; exact deref_cons n i q hq hn

theorem lift_vi (n : Node) (i : Nat) (r : Iter) (hn : n.isLeaf = false)
    (hr : ∀ q, r = some q → VI (n.child i) q) : ∀ q, lift n i r = some q → VI n q := by
  intro q hq
  cases r with
  | none =>
    simp only [lift] at hq
    by_cases hi : i < n.nVals
    · simp only [hi, if_true, Option.some.injEq] at hq
      subst hq; exact (vi_single _ _).2 hi
    · simp [hi] at hq
  | some q' =>
    simp only [lift, Option.some.injEq] at hq
    subst hq
    have hv := hr q' rfl
    have hne : q' ≠ [] := by intro h0; subst h0; exact vi_nil _ hv
    exact (vi_cons _ _ _ hne).2 ⟨hn, hv⟩

/-! ### increment -/

theorem increment_single (n : Node) (i : Nat) :
    increment n [i] =
      if n.isLeaf then (if i + 1 < n.nVals then some [i + 1] else none)
      else some ((i + 1) :: leftmost (height n) (n.child (i + 1))) := by
  unfold increment
  rw [nodeAt_single]
  cases hl : n.isLeaf
  · simp [hl]
  · simp only [hl, if_true, List.dropLast_singleton, List.nil_append, List.reverse_singleton, List.length_singleton]
    rw [popEnds_cons]
    simp only [List.reverse_nil, List.nil_append, nodeAt_single, if_true]
    by_cases hi : i + 1 < n.nVals
    · simp [hi, Nat.not_le.2 hi]
    · simp [hi, Nat.not_lt.1 hi]

theorem nodeAt_dropLast_snoc : ∀ (r : List Nat) (n m : Node) (j k : Nat), nodeAt n r = some (m, j) →
    nodeAt n (r.dropLast ++ [k]) = some (m, k) := by
  intro r
  induction r with
  | nil => intro n m j k h; simp [nodeAt_nil] at h
  | cons i r ih =>
    intro n m j k h
    by_cases hr : r = []
    · subst hr
      simp only [nodeAt_single, Option.some.injEq, Prod.mk.injEq] at h
      simp [nodeAt_single, h.1]
    · obtain ⟨hl, h'⟩ := nodeAt_cons_some hr h
      rw [List.dropLast_cons_of_ne_nil hr, List.cons_append, nodeAt_cons _ _ _ (by simp) hl]
      exact ih _ m j k h'

theorem increment_cons (n : Node) (i : Nat) (r : List Nat) (hn : n.isLeaf = false) (hr : r ≠ [])
    (hsome : (nodeAt (n.child i) r).isSome) : increment n (i :: r) = lift n i (increment (n.child i) r) := by
  obtain ⟨⟨m, j⟩, hx⟩ := Option.isSome_iff_exists.1 hsome
  unfold increment
  rw [nodeAt_cons n i r hr hn, hx]
  simp only
  have hne : r.dropLast ++ [j + 1] ≠ [] := by simp
  have hpos : 0 < r.length := List.length_pos_iff.2 hr
  cases hm : m.isLeaf
  · simp only [Bool.false_eq_true, if_false, lift, List.dropLast_cons_of_ne_nil hr, List.cons_append]
  · simp only [if_true]
    rw [List.dropLast_cons_of_ne_nil hr, List.cons_append]
    have h1 : nodeAt (n.child i) (r.dropLast ++ [j + 1]) = some (m, j + 1) := nodeAt_dropLast_snoc r _ m j (j + 1) hx
    rw [popEnds_eq n _ (i :: (r.dropLast ++ [j + 1])) (by simp; omega) (by rw [nodeAt_cons _ _ _ hne hn, h1]; rfl),
      popEnds_eq (n.child i) _ (r.dropLast ++ [j + 1]) (by simp; omega) (by rw [h1]; rfl),
      popSpec_cons _ _ _ hne]

theorem interleave_drop_head (cs : List Node) (vs' : List Nat) (k : Nat) (hk : k < cs.length) :
    ∃ rest, interleave (cs.drop k) vs' = (cs.getD k dflt).elems ++ rest := by
  rw [List.drop_eq_getElem_cons hk]
  have : cs.getD k dflt = cs[k] := by simp [List.getD, List.getElem?_eq_getElem hk]
  rw [this]
  cases vs' with
  | nil => exact ⟨_, interleave_cons_nil _ _⟩
  | cons v vs'' => exact ⟨_, interleave_cons_cons _ _ _ _⟩

/-- the element after a valid iterator, relative to the subtree -/
theorem inc_spec (c : Cfg) (hm : 1 ≤ c.leafMin) : ∀ (h : Nat) (rt : Bool) (n : Node) (p : List Nat) (v : Nat),
    Shape c rt h n → VI n p → deref n (some p) = some v →
    ∃ bf af, n.elems = bf ++ v :: af ∧ deref n (increment n p) = af.head? ∧
      (increment n p = none → af = []) ∧ (∀ q, increment n p = some q → VI n q) := by
  intro h
  induction h with
  | zero =>
    intro rt n p v hs
    cases n with
    | leaf id vs => rw [shape_leaf] at hs; omega
    | inode id vs cs => obtain ⟨h', h1, _⟩ := shape_inode_children hs; omega
  | succ k ih =>
    intro rt n p v hs hv hd
    cases p with
    | nil => exact absurd hv (vi_nil _)
    | cons i rp =>
    by_cases hr : rp = []
    · subst hr
      rw [vi_single] at hv
      rw [deref_single] at hd
      cases n with
      | leaf id vs =>
        have hv' : i < vs.length := hv
        simp only [Node.vals, List.getElem?_eq_getElem hv', Option.some.injEq] at hd
        subst hd
        refine ⟨vs.take i, vs.drop (i + 1), ?_, ?_, ?_, ?_⟩
        · rw [elems_leaf, ← List.drop_eq_getElem_cons hv', List.take_append_drop]
        · rw [increment_single]
          simp only [Node.isLeaf, if_true, Node.nVals, Node.vals, List.head?_drop]
          by_cases h1 : i + 1 < vs.length
          · simp [h1, deref_single, Node.vals]
          · simp [h1, deref]
        · rw [increment_single]
          simp only [Node.isLeaf, if_true, Node.nVals, Node.vals]
          intro h0
          by_cases h1 : i + 1 < vs.length
          · simp [h1] at h0
          · exact List.drop_eq_nil_of_le (Nat.not_lt.1 h1)
        · rw [increment_single]
          simp only [Node.isLeaf, if_true]
          intro q hq
          by_cases h1 : i + 1 < (Node.leaf id vs).nVals
          · simp only [h1, if_true, Option.some.injEq] at hq
            subst hq; exact (vi_single _ _).2 h1
          · simp [h1] at hq
      | inode id vs cs =>
        have hv' : i < vs.length := hv
        simp only [Node.vals, List.getElem?_eq_getElem hv', Option.some.injEq] at hd
        subst hd
        obtain ⟨h', h1, h2, h3, h4⟩ := shape_inode_children hs
        have hk : h' = k := by omega
        subst hk
        have hc1 := h4 (i + 1) (by omega)
        have hne1 := elems_ne_nil hc1 hm
        have hht := height_eq c _ rt _ hs
        obtain ⟨lv, ld⟩ := leftmost_spec c hm _ false _ (height (Node.inode id vs cs)) hc1 hne1 (by omega)
        have hinc : increment (Node.inode id vs cs) [i] =
            some ((i + 1) :: leftmost (height (Node.inode id vs cs)) (cs.getD (i + 1) dflt)) := by
          rw [increment_single]; simp [Node.isLeaf, child_inode]
        obtain ⟨rest, hrest⟩ := interleave_drop_head cs (vs.drop (i + 1)) (i + 1) (by omega)
        refine ⟨interleave (cs.take i) (vs.take i) ++ (cs.getD i dflt).elems,
          interleave (cs.drop (i + 1)) (vs.drop (i + 1)), ?_, ?_, ?_, ?_⟩
        · rw [elems_inode, interleave_split i cs vs h3 (by omega), tailAt_lt cs vs i hv', List.append_assoc]
        · rw [hinc, deref_cons _ _ _ (leftmost_ne_nil _ _) rfl, child_inode, ld, hrest,
            head?_append_ne _ _ hne1]
        · rw [hinc]; intro h0; cases h0
        · rw [hinc]; intro q hq
          simp only [Option.some.injEq] at hq
          subst hq
          exact (vi_cons _ _ _ (leftmost_ne_nil _ _)).2 ⟨rfl, by rw [child_inode]; exact lv⟩
    · obtain ⟨id, vs, cs, h', he, h1, _, h3, h5, h6, h7⟩ := vi_step hs hr hv
      subst he
      have hk : h' = k := by omega
      subst hk
      have hd' : deref (cs.getD i dflt) (some rp) = some v := by
        rw [deref_cons _ _ _ hr rfl, child_inode] at hd; exact hd
      obtain ⟨bf', af', e1, e2, e3, e4⟩ := ih false _ rp v (h7 i h5) h6 hd'
      have hsome : (nodeAt ((Node.inode id vs cs).child i) rp).isSome := by
        obtain ⟨m, j, hm', _⟩ := h6
        rw [child_inode, hm']; rfl
      have hinc := increment_cons (Node.inode id vs cs) i rp rfl hr hsome
      rw [child_inode] at hinc
      refine ⟨interleave (cs.take i) (vs.take i) ++ bf', af' ++ tailAt cs vs i, ?_, ?_, ?_, ?_⟩
      · rw [elems_inode, interleave_split i cs vs h3 (by omega), e1]; simp
      · rw [hinc]
        cases hc : increment (cs.getD i dflt) rp with
        | none =>
          rw [lift_deref_none, e3 hc, List.nil_append, tailAt_head]; rfl
        | some q =>
          have hvq := e4 q hc
          have hqne : q ≠ [] := by intro h0; subst h0; exact vi_nil _ hvq
          rw [lift_deref_some _ _ _ hqne rfl, child_inode]
          rw [hc] at e2
          obtain ⟨w, hw, _⟩ := vi_deref_mem c _ false _ q (h7 i h5) hvq
          have : af' ≠ [] := by
            intro h0; rw [h0, hw] at e2; simp at e2
          rw [head?_append_ne _ _ this]; exact e2
      · rw [hinc]
        intro h0
        cases hc : increment (cs.getD i dflt) rp with
        | none =>
          rw [hc] at h0
          simp only [lift] at h0
          by_cases hi : i < (Node.inode id vs cs).nVals
          · simp [hi] at h0
          · rw [e3 hc, List.nil_append]
            exact tailAt_ge cs vs i (Nat.not_lt.1 hi)
        | some q => rw [hc] at h0; simp [lift] at h0
      · rw [hinc]
        exact lift_vi _ i _ rfl (by rw [child_inode]; exact e4)

theorem split_unique {α} : ∀ (a a' b b' : List α) (v : α), (a ++ v :: b).Nodup → a ++ v :: b = a' ++ v :: b' →
    a = a' ∧ b = b' := by
  intro a
  induction a with
  | nil =>
    intro a' b b' v hn he
    cases a' with
    | nil => simp at he; exact ⟨rfl, he⟩
    | cons x a'' =>
      simp only [List.nil_append, List.cons_append, List.cons.injEq] at he
      obtain ⟨rfl, he⟩ := he
      rw [List.nil_append, he] at hn
      simp at hn
  | cons x a1 ih =>
    intro a' b b' v hn he
    cases a' with
    | nil =>
      simp only [List.nil_append, List.cons_append, List.cons.injEq] at he
      obtain ⟨rfl, he⟩ := he
      simp at hn
    | cons y a'' =>
      simp only [List.cons_append, List.cons.injEq] at he
      obtain ⟨rfl, he⟩ := he
      obtain ⟨h1, h2⟩ := ih a'' b b' v (by simpa using (List.nodup_cons.1 hn).2) he
      exact ⟨by rw [h1], h2⟩

/-! ### findPattern -/

/-- sign-monotone along the list: negatives, then zeros, then positives -/
def Mono (cmp : Nat → Int) (l : List Nat) : Prop :=
  l.Pairwise (fun a b => (0 < cmp a → 0 < cmp b) ∧ (0 ≤ cmp a → 0 ≤ cmp b))

theorem fp_spec (vals : List Nat) (cmp : Nat → Int)
    (hm : ∀ j k, j < k → k < vals.length →
      (0 < cmp (vals.getD j 0) → 0 < cmp (vals.getD k 0)) ∧ (0 ≤ cmp (vals.getD j 0) → 0 ≤ cmp (vals.getD k 0))) :
    ∀ (fuel first count cmps : Nat) (eq : Bool), count < fuel → first + count ≤ vals.length →
      (∀ j, j < first → cmp (vals.getD j 0) < 0) →
      (∀ j, first + count ≤ j → j < vals.length → 0 ≤ cmp (vals.getD j 0)) →
      (eq = true ↔ (first + count < vals.length ∧ cmp (vals.getD (first + count) 0) = 0)) →
      (findPattern vals cmp first count cmps eq fuel).1 ≤ vals.length ∧
      (∀ j, j < (findPattern vals cmp first count cmps eq fuel).1 → cmp (vals.getD j 0) < 0) ∧
      (∀ j, (findPattern vals cmp first count cmps eq fuel).1 ≤ j → j < vals.length → 0 ≤ cmp (vals.getD j 0)) ∧
      ((findPattern vals cmp first count cmps eq fuel).2.1 = true ↔
        ((findPattern vals cmp first count cmps eq fuel).1 < vals.length ∧
          cmp (vals.getD (findPattern vals cmp first count cmps eq fuel).1 0) = 0)) := by
  intro fuel
  induction fuel with
  | zero => intro first count cmps eq h; omega
  | succ f ih =>
    intro first count cmps eq hf hle hneg hnn heq
    simp only [findPattern]
    by_cases hc0 : count = 0
    · subst hc0
      simp only [if_true]
      exact ⟨by omega, hneg, by simpa using hnn, by simpa using heq⟩
    · simp only [hc0, if_false]
      have hhalf : count / 2 < count := Nat.div_lt_self (by omega) (by omega)
      have hi : first + count / 2 < vals.length := by omega
      by_cases hz : cmp (vals.getD (first + count / 2) 0) = 0
      · simp only [hz, if_true]
        apply ih first (count / 2) (cmps + 1) true (by omega) (by omega) hneg
        · intro j hj hjl
          rcases Nat.eq_or_lt_of_le hj with he | hlt
          · rw [← he, hz]; exact Int.le_refl 0
          · have := (hm _ j hlt hjl).2; rw [hz] at this; exact this (Int.le_refl 0)
        · exact ⟨fun _ => ⟨hi, hz⟩, fun _ => rfl⟩
      · simp only [hz, if_false]
        by_cases hn : cmp (vals.getD (first + count / 2) 0) < 0
        · simp only [hn, if_true]
          apply ih (first + count / 2 + 1) (count - (count / 2 + 1)) (cmps + 1) eq (by omega) (by omega)
          · intro j hj
            by_cases hj1 : j < first
            · exact hneg j hj1
            · rcases Nat.eq_or_lt_of_le (Nat.le_of_lt_succ hj) with he | hlt
              · rw [he]; exact hn
              · have := (hm j _ hlt hi).2
                omega
          · intro j hj hjl; exact hnn j (by omega) hjl
          · have : first + count / 2 + 1 + (count - (count / 2 + 1)) = first + count := by omega
            rw [this]; exact heq
        · simp only [hn, if_false]
          have hpos : 0 < cmp (vals.getD (first + count / 2) 0) := by omega
          apply ih first (count / 2) (cmps + 1) eq (by omega) (by omega) hneg
          · intro j hj hjl
            rcases Nat.eq_or_lt_of_le hj with he | hlt
            · rw [← he]; omega
            · have := (hm _ j hlt hjl).1 hpos; omega
          · constructor
            · intro he
              obtain ⟨h1, h2⟩ := heq.1 he
              have := (hm _ _ (by omega : first + count / 2 < first + count) h1).1 hpos
              omega
            · intro ⟨_, h2⟩; omega

/-- `findPattern` never moves past the window -/
theorem fp_le (vals : List Nat) (cmp : Nat → Int) : ∀ (fuel first count cmps : Nat) (eq : Bool),
    (findPattern vals cmp first count cmps eq fuel).1 ≤ first + count := by
  intro fuel
  induction fuel with
  | zero => intro first count cmps eq; simp [findPattern]
  | succ f ih =>
    intro first count cmps eq
    simp only [findPattern]
    by_cases hc0 : count = 0
    · simp [hc0]
    · simp only [hc0, if_false]
      have hhalf : count / 2 < count := Nat.div_lt_self (by omega) (by omega)
      split
      · have := ih first (count / 2) (cmps + 1) true; omega
      · split
        · have := ih (first + count / 2 + 1) (count - (count / 2 + 1)) (cmps + 1) eq; omega
        · have := ih first (count / 2) (cmps + 1) eq; omega

/-- comparisons: one per halving -/
theorem fp_cmps (vals : List Nat) (cmp : Nat → Int) : ∀ (fuel first count cmps : Nat) (eq : Bool) (k : Nat),
    count < 2 ^ k → (findPattern vals cmp first count cmps eq fuel).2.2 ≤ cmps + k := by
  intro fuel
  induction fuel with
  | zero => intro first count cmps eq k _; simp [findPattern]
  | succ f ih =>
    intro first count cmps eq k hk
    simp only [findPattern]
    by_cases hc0 : count = 0
    · simp [hc0]
    · simp only [hc0, if_false]
      obtain ⟨k', rfl⟩ : ∃ k', k = k' + 1 := by
        cases k with
        | zero => simp at hk; omega
        | succ k' => exact ⟨k', rfl⟩
      rw [Nat.pow_succ] at hk
      have h1 : count / 2 < 2 ^ k' := by omega
      have h2 : count - (count / 2 + 1) < 2 ^ k' := by omega
      split
      · have := ih first (count / 2) (cmps + 1) true k' h1; omega
      · split
        · have := ih (first + count / 2 + 1) (count - (count / 2 + 1)) (cmps + 1) eq k' h2; omega
        · have := ih first (count / 2) (cmps + 1) eq k' h1; omega

/-! ### lowerBoundNode / lowerBound: equations -/

/-- found-level bookkeeping of `lowerBoundNode` -/
def flUp (fl : Option Nat) (eq : Bool) : Option Nat :=
  match fl with
  | some d => some (d + 1)
  | none => if eq then some 0 else none

theorem lbn_zero (cmp : Nat → Int) (n : Node) : lowerBoundNode cmp 0 n = ([0], false, none, 0) := rfl

theorem lbn_leaf (cmp : Nat → Int) (f : Nat) (n : Node) (hn : n.isLeaf = true) :
    lowerBoundNode cmp (f + 1) n =
      ([(nodeFindPattern n cmp).1], (nodeFindPattern n cmp).2.1, none, (nodeFindPattern n cmp).2.2) := by
  simp only [lowerBoundNode, hn, if_true]

theorem lbn_inode (cmp : Nat → Int) (f : Nat) (n : Node) (hn : n.isLeaf = false) :
    lowerBoundNode cmp (f + 1) n =
      ((nodeFindPattern n cmp).1 :: (lowerBoundNode cmp f (n.child (nodeFindPattern n cmp).1)).1,
       (lowerBoundNode cmp f (n.child (nodeFindPattern n cmp).1)).2.1,
       flUp (lowerBoundNode cmp f (n.child (nodeFindPattern n cmp).1)).2.2.1 (nodeFindPattern n cmp).2.1,
       (nodeFindPattern n cmp).2.2 + (lowerBoundNode cmp f (n.child (nodeFindPattern n cmp).1)).2.2.2) := by
  simp only [lowerBoundNode, hn, flUp]
  rfl

/-- the post-processing of `Tree.lowerBound` -/
def lbFinish (root : Node) (p : List Nat) (leq : Bool) (fl : Option Nat) : Iter :=
  if leq then some p
  else
    match nodeAt root p with
    | none => none
    | some (n, i) =>
      if i = n.nVals then
        match fl with
        | some d => some (p.take (d + 1))
        | none => popEnds root (p.length + 1) p.reverse
      else some p

theorem lowerBound_fst (t : Tree) (cmp : Nat → Int) :
    (t.lowerBound cmp).1 =
      lbFinish t.root (lowerBoundNode cmp (height t.root) t.root).1 (lowerBoundNode cmp (height t.root) t.root).2.1
        (lowerBoundNode cmp (height t.root) t.root).2.2.1 := by
  unfold Tree.lowerBound lbFinish
  generalize lowerBoundNode cmp (height t.root) t.root = r
  obtain ⟨p, leq, fl, k⟩ := r
  simp only
  cases leq
  · simp only [Bool.false_eq_true, if_false]
    cases hn : nodeAt t.root p with
    | none => rfl
    | some x =>
      obtain ⟨n, i⟩ := x
      simp only
      by_cases hi : i = n.nVals
      · simp only [hi, if_true]; cases fl <;> rfl
      · simp only [hi, if_false]
  · rfl

theorem lowerBound_snd (t : Tree) (cmp : Nat → Int) :
    (t.lowerBound cmp).2 = (lowerBoundNode cmp (height t.root) t.root).2.2.2 := by
  unfold Tree.lowerBound
  generalize lowerBoundNode cmp (height t.root) t.root = r
  obtain ⟨p, leq, fl, k⟩ := r
  simp only
  cases leq
  · simp only [Bool.false_eq_true, if_false]
    cases hn : nodeAt t.root p with
    | none => rfl
    | some x =>
      obtain ⟨n, i⟩ := x
      simp only
      by_cases hi : i = n.nVals
      · simp only [hi, if_true]; cases fl <;> rfl
      · simp only [hi, if_false]
  · rfl

/-! ### comparisons -/

theorem nfp_cmps (c : Cfg) (cmp : Nat → Int) (n : Node) (hn : n.nVals ≤ c.leafMax) :
    (nodeFindPattern n cmp).2.2 ≤ Nat.log2 c.leafMax + 1 := by
  unfold nodeFindPattern
  have := fp_cmps n.vals cmp (n.nVals + 1) 0 n.nVals 0 false (Nat.log2 c.leafMax + 1)
    (Nat.lt_of_le_of_lt hn Nat.lt_log2_self)
  omega

theorem lbn_cmps (c : Cfg) (hc : c.Valid) (cmp : Nat → Int) : ∀ (h : Nat) (rt : Bool) (n : Node), Shape c rt h n →
    (lowerBoundNode cmp h n).2.2.2 ≤ h * (Nat.log2 c.leafMax + 1) := by
  intro h
  induction h with
  | zero => intro rt n _; simp [lbn_zero]
  | succ k ih =>
    intro rt n hs
    have h1 := hc.inode3
    have h2 := hc.leaf
    cases n with
    | leaf id vs =>
      rw [lbn_leaf _ _ _ rfl]
      rw [shape_leaf] at hs
      have := nfp_cmps c cmp (Node.leaf id vs) hs.2.1
      simp only
      rw [Nat.succ_mul]; omega
    | inode id vs cs =>
      rw [lbn_inode _ _ _ rfl]
      have hs' := hs
      rw [shape_inode] at hs'
      obtain ⟨h', e1, _, e3, _, e5, e6⟩ := hs'
      have h4 := fun i hi => shapeAll_getD c h' cs i e6 hi
      have hk : h' = k := by omega
      subst hk
      have hfp := nfp_cmps c cmp (Node.inode id vs cs) (show vs.length ≤ c.leafMax by omega)
      simp only
      generalize hi : (nodeFindPattern (Node.inode id vs cs) cmp).1 = i at *
      rw [child_inode]
      by_cases hic : i < cs.length
      · have := ih false _ (h4 i hic)
        rw [Nat.succ_mul]; omega
      · have hd : cs.getD i dflt = dflt := by simp [List.getD, List.getElem?_eq_none (Nat.le_of_not_lt hic)]
        rw [hd]
        have : (lowerBoundNode cmp h' dflt).2.2.2 = 0 := by
          cases h' with
          | zero => rfl
          | succ h'' => rw [lbn_leaf _ _ _ rfl]; rfl
        rw [Nat.succ_mul]; omega

/-! ### nodeFindPattern on a sign-monotone node -/

theorem nfp_le (n : Node) (cmp : Nat → Int) : (nodeFindPattern n cmp).1 ≤ n.nVals := by
  have := fp_le n.vals cmp (n.nVals + 1) 0 n.nVals 0 false
  unfold nodeFindPattern; omega

theorem nfp_spec (n : Node) (cmp : Nat → Int) (hm : Mono cmp n.vals) :
    (∀ j (hj : j < n.vals.length), j < (nodeFindPattern n cmp).1 → cmp n.vals[j] < 0) ∧
    (∀ j (hj : j < n.vals.length), (nodeFindPattern n cmp).1 ≤ j → 0 ≤ cmp n.vals[j]) ∧
    ((nodeFindPattern n cmp).2.1 = true ↔
      ∃ hi : (nodeFindPattern n cmp).1 < n.vals.length, cmp n.vals[(nodeFindPattern n cmp).1] = 0) := by
  have hgd : ∀ j (hj : j < n.vals.length), n.vals.getD j 0 = n.vals[j] := by
    intro j hj; simp [List.getD, List.getElem?_eq_getElem hj]
  have hm' : ∀ j k, j < k → k < n.vals.length →
      (0 < cmp (n.vals.getD j 0) → 0 < cmp (n.vals.getD k 0)) ∧
      (0 ≤ cmp (n.vals.getD j 0) → 0 ≤ cmp (n.vals.getD k 0)) := by
    intro j k hjk hk
    rw [hgd j (by omega), hgd k hk]
    exact List.pairwise_iff_getElem.1 hm j k (by omega) hk hjk
  obtain ⟨h1, h2, h3, h4⟩ := fp_spec n.vals cmp hm' (n.nVals + 1) 0 n.nVals 0 false (by omega)
    (by simp [Node.nVals]) (by intro j hj; omega) (by intro j hj hjl; simp [Node.nVals] at hj; omega)
    (by simp [Node.nVals])
  unfold nodeFindPattern
  refine ⟨?_, ?_, ?_⟩
  · intro j hj hlt; rw [← hgd j hj]; exact h2 j hlt
  · intro j hj hle; rw [← hgd j hj]; exact h3 j hle hj
  · rw [h4]
    constructor
    · rintro ⟨a, b⟩; exact ⟨a, by rw [← hgd _ a]; exact b⟩
    · rintro ⟨a, b⟩; exact ⟨a, by rw [hgd _ a]; exact b⟩

theorem find_at (l : List Nat) (p : Nat → Bool) (i : Nat)
    (hneg : ∀ j (hj : j < l.length), j < i → p l[j] = false) (hpos : ∀ hi : i < l.length, p l[i] = true) :
    l.find? p = l[i]? := by
  conv => lhs; rw [← List.take_append_drop i l]
  rw [List.find?_append]
  have h1 : (l.take i).find? p = none := by
    rw [List.find?_eq_none]
    intro x hx
    rw [List.mem_take_iff_getElem] at hx
    obtain ⟨j, hj, rfl⟩ := hx
    have := hneg j (by omega) (by omega)
    simp [this]
  rw [h1, Option.none_or]
  by_cases hi : i < l.length
  · rw [List.drop_eq_getElem_cons hi, List.find?_cons, hpos hi, List.getElem?_eq_getElem hi]
  · rw [List.drop_eq_nil_of_le (Nat.not_lt.1 hi), List.getElem?_eq_none (Nat.not_lt.1 hi)]; rfl

/-- facts about the frame `i` chosen by `nodeFindPattern` in an internal node -/
theorem frame_facts {c : Cfg} {rt : Bool} {h : Nat} {id vs cs} {cmp : Nat → Int}
    (hs : Shape c rt h (.inode id vs cs)) (hm : Mono cmp (interleave cs vs)) :
    Mono cmp vs ∧
    (∀ a ∈ interleave (cs.take (nodeFindPattern (.inode id vs cs) cmp).1)
        (vs.take (nodeFindPattern (.inode id vs cs) cmp).1), cmp a < 0) ∧
    Mono cmp (cs.getD (nodeFindPattern (.inode id vs cs) cmp).1 dflt).elems ∧
    ((nodeFindPattern (.inode id vs cs) cmp).2.1 = true →
      ∀ a ∈ (cs.getD (nodeFindPattern (.inode id vs cs) cmp).1 dflt).elems, cmp a ≤ 0) := by
  obtain ⟨h', h1, h2, h3, h4⟩ := shape_inode_children hs
  have hmv : Mono cmp vs := List.Pairwise.sublist (vals_sublist cs vs (by omega)) hm
  obtain ⟨n1, n2, n3⟩ := nfp_spec (.inode id vs cs) cmp hmv
  have hle := nfp_le (.inode id vs cs) cmp
  generalize (nodeFindPattern (.inode id vs cs) cmp).1 = i at *
  generalize (nodeFindPattern (.inode id vs cs) cmp).2.1 = eq at *
  have hle' : i ≤ vs.length := hle
  have n1 : ∀ j (hj : j < vs.length), j < i → cmp vs[j] < 0 := n1
  have n3 : eq = true ↔ ∃ hi : i < vs.length, cmp vs[i] = 0 := n3
  obtain ⟨s1, s2, s3, s4, s5⟩ := split_pairwise cs vs i h3 hle' hm
  refine ⟨hmv, ?_, s2, ?_⟩
  · intro a ha
    have hneg : ∀ b ∈ vs.take i, cmp b < 0 := by
      intro b hb
      rw [List.mem_take_iff_getElem] at hb
      obtain ⟨j, hj, rfl⟩ := hb
      exact n1 j (by omega) (by omega)
    rcases before_rel (cs.take i) (vs.take i) (by simp; omega) s1 a ha with hin | ⟨b, hb, hr⟩
    · exact hneg a hin
    · have := hneg b hb
      have := hr.2
      omega
  · intro he a ha
    obtain ⟨hi, hz⟩ := n3.1 he
    have := (s5 a ha vs[i] (by rw [tailAt_lt cs vs i hi]; simp)).1
    omega

/-! ### lower bound: structural specification -/

/-- the lower bound computed by plain recursion: the child's answer, else the separator -/
def lbSpec (cmp : Nat → Int) : Nat → Node → Iter
  | 0, _ => none
  | f + 1, n =>
    lift n (nodeFindPattern n cmp).1
      (if n.isLeaf then none else lbSpec cmp f (n.child (nodeFindPattern n cmp).1))

theorem lbSpec_leaf (cmp : Nat → Int) (f : Nat) (n : Node) (hn : n.isLeaf = true) :
    lbSpec cmp (f + 1) n = lift n (nodeFindPattern n cmp).1 none := by
  simp [lbSpec, hn]

theorem lbSpec_inode (cmp : Nat → Int) (f : Nat) (n : Node) (hn : n.isLeaf = false) :
    lbSpec cmp (f + 1) n =
      lift n (nodeFindPattern n cmp).1 (lbSpec cmp f (n.child (nodeFindPattern n cmp).1)) := by
  simp [lbSpec, hn]

theorem lift_vi_none (n : Node) (i : Nat) : ∀ q, lift n i none = some q → VI n q := by
  intro q hq
  simp only [lift] at hq
  by_cases hi : i < n.nVals
  · simp only [hi, if_true, Option.some.injEq] at hq
    subst hq; exact (vi_single _ _).2 hi
  · simp [hi] at hq

theorem tailAt_find (cs : List Node) (vs : List Nat) (i : Nat) (p : Nat → Bool)
    (hpos : ∀ hi : i < vs.length, p vs[i] = true) : (tailAt cs vs i).find? p = vs[i]? := by
  by_cases hi : i < vs.length
  · rw [tailAt_lt cs vs i hi, List.find?_cons, hpos hi, List.getElem?_eq_getElem hi]
  · rw [tailAt_ge cs vs i (Nat.not_lt.1 hi), List.getElem?_eq_none (Nat.not_lt.1 hi)]; rfl

theorem lbSpec_correct (c : Cfg) (cmp : Nat → Int) : ∀ (h : Nat) (rt : Bool) (n : Node), Shape c rt h n →
    Mono cmp n.elems →
    deref n (lbSpec cmp h n) = n.elems.find? (fun v => decide (0 ≤ cmp v)) ∧
    (∀ p, lbSpec cmp h n = some p → VI n p) := by
  intro h
  induction h with
  | zero =>
    intro rt n hs
    cases n with
    | leaf id vs => rw [shape_leaf] at hs; omega
    | inode id vs cs => obtain ⟨h', h1, _⟩ := shape_inode_children hs; omega
  | succ k ih =>
    intro rt n hs hm
    cases n with
    | leaf id vs =>
      rw [lbSpec_leaf _ _ _ rfl]
      rw [elems_leaf] at hm ⊢
      obtain ⟨n1, n2, _⟩ := nfp_spec (.leaf id vs) cmp hm
      refine ⟨?_, lift_vi_none _ _⟩
      rw [lift_deref_none]
      symm
      apply find_at vs _ (nodeFindPattern (.leaf id vs) cmp).1
      · intro j hj hlt
        have : cmp vs[j] < 0 := n1 j hj hlt
        simp only [decide_eq_false_iff_not]; omega
      · intro hi
        have : 0 ≤ cmp vs[(nodeFindPattern (.leaf id vs) cmp).1] := n2 _ hi (Nat.le_refl _)
        simpa using this
    | inode id vs cs =>
      rw [lbSpec_inode _ _ _ rfl, child_inode]
      rw [elems_inode] at hm ⊢
      obtain ⟨h', h1, h2, h3, h4⟩ := shape_inode_children hs
      have hk : h' = k := by omega
      subst hk
      obtain ⟨f1, f2, f3, _⟩ := frame_facts hs hm
      obtain ⟨_, n2, _⟩ := nfp_spec (.inode id vs cs) cmp f1
      have hle := nfp_le (.inode id vs cs) cmp
      generalize (nodeFindPattern (.inode id vs cs) cmp).1 = i at *
      have hle' : i ≤ vs.length := hle
      have n2 : ∀ j (hj : j < vs.length), i ≤ j → 0 ≤ cmp vs[j] := n2
      have hic : i < cs.length := by omega
      obtain ⟨i1, i2⟩ := ih false _ (h4 i hic) f3
      have hA : (interleave (cs.take i) (vs.take i)).find? (fun v => decide (0 ≤ cmp v)) = none := by
        rw [List.find?_eq_none]
        intro a ha
        have := f2 a ha
        simp only [decide_eq_true_eq]; omega
      have hT : (tailAt cs vs i).find? (fun v => decide (0 ≤ cmp v)) = vs[i]? :=
        tailAt_find cs vs i _ (fun hi => by simpa using n2 i hi (Nat.le_refl _))
      rw [interleave_split i cs vs h3 hle', List.find?_append, List.find?_append, hA, Option.none_or, hT, ← i1]
      constructor
      · cases hq : lbSpec cmp h' (cs.getD i dflt) with
        | none => rw [lift_deref_none]; simp [deref, Node.vals]
        | some q =>
          have hvq := i2 q hq
          have hqne : q ≠ [] := by intro h0; subst h0; exact vi_nil _ hvq
          obtain ⟨w, hw, _⟩ := vi_deref_mem c _ false _ q (h4 i hic) hvq
          rw [lift_deref_some _ _ _ hqne rfl, child_inode, hw]; rfl
      · exact lift_vi _ i _ rfl (by rw [child_inode]; exact i2)

/-! ### lower bound: the frame-stack algorithm agrees with the structural specification -/

theorem lbn_nodeAt (cmp : Nat → Int) : ∀ (f : Nat) (n : Node), (nodeAt n (lowerBoundNode cmp f n).1).isSome := by
  intro f
  induction f with
  | zero => intro n; rw [lbn_zero]; simp [nodeAt_single]
  | succ f ih =>
    intro n
    cases hn : n.isLeaf
    · rw [lbn_inode _ _ _ hn]
      simp only
      have := ih (n.child (nodeFindPattern n cmp).1)
      have hne : (lowerBoundNode cmp f (n.child (nodeFindPattern n cmp).1)).1 ≠ [] := by
        intro h0; rw [h0, nodeAt_nil] at this; simp at this
      rw [nodeAt_cons _ _ _ hne hn]; exact this
    · rw [lbn_leaf _ _ _ hn]; simp [nodeAt_single]

/-- no match seen on the way down and every element `≤` key: the subtree has no lower bound -/
theorem lb_none (c : Cfg) (cmp : Nat → Int) : ∀ (h : Nat) (rt : Bool) (n : Node), Shape c rt h n →
    Mono cmp n.elems → (∀ a ∈ n.elems, cmp a ≤ 0) →
    (lowerBoundNode cmp h n).2.1 = false → (lowerBoundNode cmp h n).2.2.1 = none → lbSpec cmp h n = none := by
  intro h
  induction h with
  | zero => intro rt n _ _ _ _ _; rfl
  | succ k ih =>
    intro rt n hs hm hall hleq hfl
    cases n with
    | leaf id vs =>
      rw [lbn_leaf _ _ _ rfl] at hleq
      rw [lbSpec_leaf _ _ _ rfl]
      rw [elems_leaf] at hm hall
      obtain ⟨_, n2, n3⟩ := nfp_spec (.leaf id vs) cmp hm
      simp only at hleq
      simp only [lift]
      by_cases hi : (nodeFindPattern (.leaf id vs) cmp).1 < (Node.leaf id vs).nVals
      · exfalso
        have hi' : (nodeFindPattern (.leaf id vs) cmp).1 < vs.length := hi
        have a1 : 0 ≤ cmp vs[(nodeFindPattern (.leaf id vs) cmp).1] := n2 _ hi' (Nat.le_refl _)
        have a2 := hall _ (List.getElem_mem hi')
        have : (nodeFindPattern (.leaf id vs) cmp).2.1 = true := n3.2 ⟨hi', by change cmp vs[_] = 0; omega⟩
        rw [hleq] at this; cases this
      · simp [hi]
    | inode id vs cs =>
      rw [lbn_inode _ _ _ rfl] at hleq hfl
      rw [lbSpec_inode _ _ _ rfl]
      rw [child_inode] at *
      rw [elems_inode] at hm hall
      obtain ⟨h', h1, h2, h3, h4⟩ := shape_inode_children hs
      have hk : h' = k := by omega
      subst hk
      obtain ⟨f1, _, f3, _⟩ := frame_facts hs hm
      obtain ⟨_, n2, n3⟩ := nfp_spec (.inode id vs cs) cmp f1
      have hle := nfp_le (.inode id vs cs) cmp
      simp only at hleq hfl
      generalize (nodeFindPattern (.inode id vs cs) cmp).1 = i at *
      generalize (nodeFindPattern (.inode id vs cs) cmp).2.1 = eq at *
      have hle' : i ≤ vs.length := hle
      have n2 : ∀ j (hj : j < vs.length), i ≤ j → 0 ≤ cmp vs[j] := n2
      have n3 : eq = true ↔ ∃ hi : i < vs.length, cmp vs[i] = 0 := n3
      have hic : i < cs.length := by omega
      have hflc : (lowerBoundNode cmp h' (cs.getD i dflt)).2.2.1 = none ∧ eq = false := by
        revert hfl
        cases (lowerBoundNode cmp h' (cs.getD i dflt)).2.2.1 <;> cases eq <;> simp [flUp]
      have hchild := ih false _ (h4 i hic) f3
        (fun a ha => hall a (child_mem_interleave cs vs i a hic ha)) hleq hflc.1
      rw [hchild]
      simp only [lift]
      by_cases hi : i < (Node.inode id vs cs).nVals
      · exfalso
        have hi' : i < vs.length := hi
        have a1 := n2 i hi' (Nat.le_refl _)
        have a2 := hall _ (val_mem_interleave cs vs i h3 hi')
        have : eq = true := n3.2 ⟨hi', by omega⟩
        rw [hflc.2] at this; cases this
      · simp [hi]

theorem lbFinish_true (n : Node) (p : List Nat) (fl : Option Nat) : lbFinish n p true fl = some p := by
  simp [lbFinish]

theorem lbFinish_false (n : Node) (p : List Nat) (fl : Option Nat) (m : Node) (j : Nat)
    (hp : nodeAt n p = some (m, j)) :
    lbFinish n p false fl =
      if j = m.nVals then
        (match fl with
         | some d => some (p.take (d + 1))
         | none => popSpec n p)
      else some p := by
  simp only [lbFinish, Bool.false_eq_true, if_false, hp]
  by_cases hj : j = m.nVals
  · simp only [hj, if_true]
    cases fl with
    | some d => rfl
    | none => exact popEnds_eq n _ p (by omega) (by rw [hp]; rfl)
  · simp only [hj, if_false]

theorem lbFinish_eq (c : Cfg) (cmp : Nat → Int) : ∀ (h : Nat) (rt : Bool) (n : Node), Shape c rt h n →
    Mono cmp n.elems →
    lbFinish n (lowerBoundNode cmp h n).1 (lowerBoundNode cmp h n).2.1 (lowerBoundNode cmp h n).2.2.1 =
      lbSpec cmp h n := by
  intro h
  induction h with
  | zero =>
    intro rt n hs
    cases n with
    | leaf id vs => rw [shape_leaf] at hs; omega
    | inode id vs cs => obtain ⟨h', h1, _⟩ := shape_inode_children hs; omega
  | succ k ih =>
    intro rt n hs hm
    cases n with
    | leaf id vs =>
      rw [lbn_leaf _ _ _ rfl, lbSpec_leaf _ _ _ rfl]
      rw [elems_leaf] at hm
      obtain ⟨_, _, n3⟩ := nfp_spec (.leaf id vs) cmp hm
      have hle := nfp_le (.leaf id vs) cmp
      simp only
      generalize (nodeFindPattern (.leaf id vs) cmp).1 = i at *
      generalize (nodeFindPattern (.leaf id vs) cmp).2.1 = eq at *
      cases eq with
      | true =>
        obtain ⟨hi, _⟩ := n3.1 rfl
        have hi' : i < (Node.leaf id vs).nVals := hi
        rw [lbFinish_true]; simp [lift, hi']
      | false =>
        rw [lbFinish_false _ _ _ _ _ (nodeAt_single _ i)]
        by_cases hi : i = (Node.leaf id vs).nVals
        · simp [hi, popSpec_single, lift]
        · have : i < (Node.leaf id vs).nVals := by omega
          simp [hi, lift, this]
    | inode id vs cs =>
      rw [lbn_inode _ _ _ rfl, lbSpec_inode _ _ _ rfl]
      rw [elems_inode] at hm
      obtain ⟨h', h1, h2, h3, h4⟩ := shape_inode_children hs
      have hk : h' = k := by omega
      subst hk
      obtain ⟨f1, _, f3, f4⟩ := frame_facts hs hm
      obtain ⟨_, _, n3⟩ := nfp_spec (.inode id vs cs) cmp f1
      have hle := nfp_le (.inode id vs cs) cmp
      simp only
      generalize (nodeFindPattern (.inode id vs cs) cmp).1 = i at *
      generalize (nodeFindPattern (.inode id vs cs) cmp).2.1 = eq at *
      have hle' : i ≤ vs.length := hle
      have hic : i < cs.length := by omega
      have n3 : eq = true ↔ ∃ hi : i < vs.length, cmp vs[i] = 0 := n3
      rw [child_inode]
      have hIH := ih false _ (h4 i hic) f3
      have hsome := lbn_nodeAt cmp h' (cs.getD i dflt)
      have hnone := lb_none c cmp h' false _ (h4 i hic) f3
      generalize lowerBoundNode cmp h' (cs.getD i dflt) = R at *
      obtain ⟨p', leq, fl, kk⟩ := R
      simp only at hIH hsome hnone ⊢
      have hne : p' ≠ [] := by
        intro h0; rw [h0, nodeAt_nil] at hsome; simp at hsome
      obtain ⟨⟨m, j⟩, hx⟩ := Option.isSome_iff_exists.1 hsome
      have hx' : nodeAt (Node.inode id vs cs) (i :: p') = some (m, j) := by
        rw [nodeAt_cons _ _ _ hne rfl, child_inode]; exact hx
      cases leq with
      | true =>
        rw [lbFinish_true] at hIH ⊢
        rw [← hIH]; rfl
      | false =>
        rw [lbFinish_false _ _ _ _ _ hx] at hIH
        rw [lbFinish_false _ _ _ _ _ hx']
        by_cases hj : j = m.nVals
        · simp only [hj, if_true] at hIH ⊢
          cases fl with
          | some d =>
            simp only [flUp] at hIH ⊢
            rw [← hIH]; rfl
          | none =>
            simp only at hIH
            cases eq with
            | false =>
              simp only [flUp, Bool.false_eq_true, if_false]
              rw [popSpec_cons _ _ _ hne, child_inode, hIH]
            | true =>
              simp only [flUp, if_true]
              obtain ⟨hi, _⟩ := n3.1 rfl
              have hi' : i < (Node.inode id vs cs).nVals := hi
              rw [hnone (f4 rfl) rfl rfl]
              simp [lift, hi']
        · simp only [hj, if_false] at hIH ⊢
          rw [← hIH]; rfl

end Zix.BTree.It
