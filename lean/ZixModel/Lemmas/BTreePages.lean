import ZixModel.Lemmas.BTreeDefs
import ZixModel.Lemmas.BTreeInsert
import ZixModel.Lemmas.BTreeRemove
/-! Helper lemmas for C08 (page accounting of the B-tree model): how every restructuring primitive
changes the multiset of page ids of a subtree, and what replaying the emitted allocator events does
to a set of live blocks.  `pages`, `pagesL`, `replay` are copies of the definitions `pagesOf`,
`pagesOfList`, `applyEvs` of `Properties/C08.lean` (which imports this file and proves them equal). -/
namespace Zix.BTree.Pg
open Zix.BTree Zix.BTree.Rem

mutual
/-- Block ids of all pages of a subtree. -/
def pages : Node → List Nat
  | .leaf id _ => [id]
  | .inode id _ cs => id :: pagesL cs
def pagesL : List Node → List Nat
  | [] => []
  | c :: cs => pages c ++ pagesL cs
end

@[simp] theorem pages_leaf (id vs) : pages (.leaf id vs) = [id] := by simp [pages]
@[simp] theorem pages_inode (id vs cs) : pages (.inode id vs cs) = id :: pagesL cs := by simp [pages]
@[simp] theorem pagesL_nil : pagesL [] = [] := by simp [pagesL]
@[simp] theorem pagesL_cons (c cs) : pagesL (c :: cs) = pages c ++ pagesL cs := by simp [pagesL]
@[simp] theorem pagesL_append (a b : List Node) : pagesL (a ++ b) = pagesL a ++ pagesL b := by
  induction a with
  | nil => simp
  | cons x a ih => simp [ih]

/-- Replay allocator events against the live blocks (copy of `Zix.C08.applyEvs`). -/
def replay : List Nat → List Ev → Option (List Nat)
  | live, [] => some live
  | live, .alloc id :: rest => if id ∈ live then none else replay (id :: live) rest
  | live, .allocFail :: rest => replay live rest
  | live, .free id :: rest => if id ∈ live then replay (live.erase id) rest else none

/-- ids granted by an event list -/
def allocs : List Ev → List Nat
  | [] => []
  | .alloc id :: r => id :: allocs r
  | .allocFail :: r => allocs r
  | .free _ :: r => allocs r

/-- ids released by an event list -/
def frees : List Ev → List Nat
  | [] => []
  | .alloc _ :: r => frees r
  | .allocFail :: r => frees r
  | .free id :: r => id :: frees r

/-- an event list without `free` -/
def NoFree (evs : List Ev) : Prop := ∀ ev ∈ evs, ∀ id, ev ≠ Ev.free id

@[simp] theorem allocs_nil : allocs [] = [] := rfl
@[simp] theorem allocs_alloc (id r) : allocs (.alloc id :: r) = id :: allocs r := rfl
@[simp] theorem allocs_fail (r) : allocs (.allocFail :: r) = allocs r := rfl
@[simp] theorem allocs_free (id r) : allocs (.free id :: r) = allocs r := rfl
@[simp] theorem frees_nil : frees [] = [] := rfl
@[simp] theorem frees_alloc (id r) : frees (.alloc id :: r) = frees r := rfl
@[simp] theorem frees_fail (r) : frees (.allocFail :: r) = frees r := rfl
@[simp] theorem frees_free (id r) : frees (.free id :: r) = id :: frees r := rfl

@[simp] theorem allocs_append (a b : List Ev) : allocs (a ++ b) = allocs a ++ allocs b := by
  induction a with
  | nil => simp
  | cons x a ih => cases x <;> simp [ih]

@[simp] theorem frees_append (a b : List Ev) : frees (a ++ b) = frees a ++ frees b := by
  induction a with
  | nil => simp
  | cons x a ih => cases x <;> simp [ih]

theorem noFree_nil : NoFree [] := by intro ev h; cases h
theorem noFree_append {a b : List Ev} (ha : NoFree a) (hb : NoFree b) : NoFree (a ++ b) := by
  intro ev hm
  rcases List.mem_append.1 hm with h | h
  · exact ha ev h
  · exact hb ev h
theorem noFree_alloc (id : Nat) : NoFree [.alloc id] := by
  intro ev hm id' h; simp at hm; subst hm; cases h
theorem noFree_fail : NoFree [.allocFail] := by
  intro ev hm id' h; simp at hm; subst hm; cases h
theorem noFree_tail {x : Ev} {evs : List Ev} (h : NoFree (x :: evs)) : NoFree evs :=
  fun ev hm => h ev (List.mem_cons_of_mem _ hm)

/-! ### counting -/

/-- `1` if the two ids are the same: an atom for `omega` -/
def one (a b : Nat) : Nat := if b = a then 1 else 0

theorem count_cons_one (a b : Nat) (l : List Nat) : List.count a (b :: l) = one a b + List.count a l := by
  rw [List.count_cons]; unfold one
  by_cases h : b = a <;> simp [h]; omega

/-! ### replay -/

theorem replay_append (live : List Nat) (e1 e2 : List Ev) :
    replay live (e1 ++ e2) = (replay live e1).bind (fun l => replay l e2) := by
  induction e1 generalizing live with
  | nil => simp [replay]
  | cons x e1 ih =>
    cases x with
    | alloc id =>
      simp only [List.cons_append, replay]
      split
      · simp
      · exact ih _
    | allocFail => simp only [List.cons_append, replay]; exact ih _
    | free id =>
      simp only [List.cons_append, replay]
      split
      · exact ih _
      · simp

/-- replaying respects permutations of the live set -/
theorem replay_perm {l1 l2 : List Nat} (evs : List Ev) (hp : l1.Perm l2) :
    ∀ r1, replay l1 evs = some r1 → ∃ r2, replay l2 evs = some r2 ∧ r1.Perm r2 := by
  induction evs generalizing l1 l2 with
  | nil => intro r1 h; simp [replay] at h ⊢; subst h; exact hp
  | cons x evs ih =>
    intro r1 h
    cases x with
    | alloc id =>
      simp only [replay] at h ⊢
      by_cases hm : id ∈ l1
      · simp [hm] at h
      · rw [if_neg hm] at h
        rw [if_neg (fun h2 => hm (hp.mem_iff.2 h2))]
        exact ih (List.Perm.cons id hp) r1 h
    | allocFail => simp only [replay] at h ⊢; exact ih hp r1 h
    | free id =>
      simp only [replay] at h ⊢
      by_cases hm : id ∈ l1
      · rw [if_pos hm] at h
        rw [if_pos (hp.mem_iff.1 hm)]
        exact ih (hp.erase id) r1 h
      · simp [hm] at h

theorem replay_append_some {live l1 : List Nat} {e1 : List Ev} (e2 : List Ev) (h : replay live e1 = some l1) :
    replay live (e1 ++ e2) = replay l1 e2 := by
  rw [replay_append, h]; rfl

/-- start the replay from a permutation of the live set -/
theorem replay_of_perm {live P Q : List Nat} {evs : List Ev} (hp : live.Perm P)
    (h : ∃ l, replay P evs = some l ∧ l.Perm Q) : ∃ l, replay live evs = some l ∧ l.Perm Q := by
  obtain ⟨l, h1, h2⟩ := h
  obtain ⟨l', h3, h4⟩ := replay_perm evs hp.symm l h1
  exact ⟨l', h3, h4.symm.trans h2⟩

/-- events that are all `free`s of blocks that make up part of the live set remove exactly those -/
theorem replay_frees (evs : List Ev) (hf : AllFree evs) :
    ∀ (live rest : List Nat), live.Perm (frees evs ++ rest) →
      ∃ live', replay live evs = some live' ∧ live'.Perm rest := by
  induction evs with
  | nil => intro live rest hp; exact ⟨live, rfl, by simpa using hp⟩
  | cons x evs ih =>
    intro live rest hp
    obtain ⟨id, rfl⟩ := hf x (by simp)
    have hf' : AllFree evs := fun ev hm => hf ev (List.mem_cons_of_mem _ hm)
    simp only [frees_free, List.cons_append] at hp
    have hm : id ∈ live := hp.mem_iff.2 (by simp)
    simp only [replay, if_pos hm]
    apply ih hf'
    have := hp.erase id
    simpa using this

/-- events that are grants of the consecutive fresh ids `k, k+1, …` (and refusals) add exactly those -/
theorem replay_allocs (evs : List Ev) (hn : NoFree evs) :
    ∀ (live : List Nat) (k m : Nat), (∀ x ∈ live, x < k) → allocs evs = List.range' k m →
      ∃ live', replay live evs = some live' ∧ live'.Perm (live ++ allocs evs) := by
  induction evs with
  | nil => intro live k m _ _; exact ⟨live, rfl, by simp⟩
  | cons x evs ih =>
    intro live k m hlt ha
    have hn' := noFree_tail hn
    cases x with
    | alloc id =>
      simp only [allocs_alloc] at ha ⊢
      cases m with
      | zero => simp at ha
      | succ m =>
        rw [List.range'_succ] at ha
        simp only [List.cons.injEq] at ha
        obtain ⟨rfl, ha⟩ := ha
        have hm : id ∉ live := fun h => Nat.lt_irrefl _ (hlt id h)
        simp only [replay, if_neg hm]
        obtain ⟨live', h1, h2⟩ := ih hn' (id :: live) (id + 1) m
          (by intro x hx; rcases List.mem_cons.1 hx with rfl | hx
              · omega
              · have := hlt x hx; omega) ha
        refine ⟨live', h1, h2.trans ?_⟩
        exact (List.perm_middle (a := id) (l₁ := live) (l₂ := allocs evs)).symm
    | allocFail =>
      simp only [allocs_fail, replay] at ha ⊢
      exact ih hn' live k m hlt ha
    | free id => exact (hn (.free id) (by simp) id rfl).elim


/-! ### whole-tree bookkeeping -/

/-- All blocks a tree owns (copy of `Zix.C08.Tree.pages`). -/
def treePages (t : Tree) : List Nat := t.treeId :: pages t.root

/-- copy of `Zix.C08.PagesOK` -/
def OK (a : AllocSt) (t : Tree) : Prop := (treePages t).Nodup ∧ ∀ id ∈ treePages t, id < a.next

theorem step_frees {evs : List Ev} {live rest : List Nat} {k : Nat} (hf : AllFree evs)
    (hp : live.Perm (frees evs ++ rest)) (hnd : live.Nodup) (hlt : ∀ id ∈ live, id < k) :
    ∃ live', replay live evs = some live' ∧ live'.Perm rest ∧ rest.Nodup ∧ ∀ id ∈ rest, id < k := by
  obtain ⟨live', h1, h2⟩ := replay_frees evs hf live rest hp
  refine ⟨live', h1, h2, ?_, ?_⟩
  · exact (List.nodup_append.1 (hp.nodup_iff.1 hnd)).2.1
  · intro id hid
    exact hlt id (hp.mem_iff.2 (List.mem_append_right _ hid))

theorem step_allocs {evs : List Ev} {live new : List Nat} {k m : Nat} (hn : NoFree evs)
    (ha : allocs evs = List.range' k m) (hp : new.Perm (live ++ allocs evs))
    (hnd : live.Nodup) (hlt : ∀ id ∈ live, id < k) :
    ∃ live', replay live evs = some live' ∧ live'.Perm new ∧ new.Nodup ∧ ∀ id ∈ new, id < k + m := by
  obtain ⟨live', h1, h2⟩ := replay_allocs evs hn live k m hlt ha
  refine ⟨live', h1, h2.trans hp.symm, ?_, ?_⟩
  · rw [hp.nodup_iff, ha, List.nodup_append]
    refine ⟨hnd, List.nodup_range' 1, ?_⟩
    intro x hx y hy
    have := hlt x hx
    have := List.mem_range'_1.1 hy
    omega
  · intro id hid
    rcases List.mem_append.1 (hp.mem_iff.1 hid) with h | h
    · have := hlt id h; omega
    · rw [ha] at h; exact (List.mem_range'_1.1 h).2

/-! ### clear -/

theorem flatMap_frees (cs : List Node) (f : Node → List Ev)
    (h : ∀ x ∈ cs, AllFree (f x) ∧ (pages x).Perm (frees (f x))) :
    AllFree (cs.flatMap f) ∧ (pagesL cs).Perm (frees (cs.flatMap f)) := by
  induction cs with
  | nil => exact ⟨allFree_nil, by simp⟩
  | cons x xs ih =>
    obtain ⟨a1, a2⟩ := h x (by simp)
    obtain ⟨b1, b2⟩ := ih (fun y hy => h y (by simp [hy]))
    simp only [List.flatMap_cons, pagesL_cons, frees_append]
    exact ⟨allFree_append a1 b1, List.Perm.append a2 b2⟩

theorem destroy_pages (c : Cfg) : ∀ (fuel : Nat) (n : Node) (r : Bool) (h : Nat),
    Shape c r h n → h ≤ fuel →
    AllFree (destroyOrder fuel n).2 ∧ (pages n).Perm (frees (destroyOrder fuel n).2 ++ [n.id]) := by
  intro fuel
  induction fuel with
  | zero => intro n r h hs hf; have := shape_pos hs; omega
  | succ fuel ih =>
    intro n r h hs hf
    cases n with
    | leaf id vs => simp [destroyOrder, allFree_nil, Node.id]
    | inode id vs cs =>
      obtain ⟨h', rfl, hv1, hvmax, hmin, hlen, hall⟩ := Ins.shape_inode.mp hs
      simp only [destroyOrder, List.flatMap_map, pages_inode, Node.id]
      have := flatMap_frees cs (fun ch => (destroyOrder fuel ch).2 ++ [Ev.free ch.id]) (by
        intro x hx
        obtain ⟨a1, a2⟩ := ih x false h' (hall x hx) (by omega)
        refine ⟨allFree_append a1 (allFree_cons allFree_nil), ?_⟩
        simpa using a2)
      refine ⟨this.1, ?_⟩
      exact (List.Perm.cons id this.2).trans (List.perm_append_comm (l₁ := [id]))

theorem clear_pages (c : Cfg) (a : AllocSt) (t : Tree) (h : WF c t) (hp : OK a t) :
    ∃ live, replay (treePages t) (t.clear).2.2 = some live ∧ live.Perm (treePages (t.clear).1) ∧
      OK a (t.clear).1 := by
  obtain ⟨d1, d2⟩ := destroy_pages c (height t.root + 1) t.root true (height t.root) h.shape (Nat.le_succ _)
  have hperm : (treePages t).Perm (frees (t.clear).2.2 ++ treePages (t.clear).1) := by
    show (t.treeId :: pages t.root).Perm (frees (destroyOrder (height t.root + 1) t.root).2 ++ [t.treeId, t.root.id])
    refine (List.Perm.cons _ d2).trans ?_
    exact (List.perm_middle (a := t.treeId) (l₁ := frees (destroyOrder (height t.root + 1) t.root).2) (l₂ := [t.root.id])).symm
  obtain ⟨live, h1, h2, h3, h4⟩ := step_frees (k := a.next) d1 hperm hp.1 hp.2
  exact ⟨live, h1, h2, h3, h4⟩


/-! ### page multisets of list surgery -/

/-- prove a `List.Perm` goal about page lists by counting, from `Perm`/equation facts in context
already turned into count equations -/
macro "count_norm" : tactic =>
  `(tactic| simp only [List.count_append, count_cons_one, List.count_nil, pages_leaf, pages_inode,
      pagesL_cons, pagesL_append, pagesL_nil] at *)

theorem pagesL_take_drop (cs : List Node) (k : Nat) : pagesL cs = pagesL (cs.take k) ++ pagesL (cs.drop k) := by
  rw [← pagesL_append, List.take_append_drop]

theorem pagesL_set {cs : List Node} {i : Nat} (x d : Node) (hi : i < cs.length) :
    (pagesL (cs.set i x) ++ pages (cs.getD i d)).Perm (pagesL cs ++ pages x) := by
  obtain ⟨pre, y, post, rfl, hpre, -, -⟩ := split1 cs i hi
  rw [set_app _ _ _ _ hpre, getD_app _ _ _ _ hpre]
  rw [List.perm_iff_count]; intro z
  count_norm
  omega

theorem pagesL_set_of_perm {cs : List Node} {i : Nat} {x d : Node} {added : List Nat} (hi : i < cs.length)
    (h : (pages x).Perm (pages (cs.getD i d) ++ added)) :
    (pagesL (cs.set i x)).Perm (pagesL cs ++ added) := by
  have h1 := pagesL_set x d hi
  rw [List.perm_iff_count] at *; intro z
  have := h z; have := h1 z
  count_norm
  omega

theorem pagesL_set_of_perm' {cs : List Node} {i : Nat} {x d : Node} {removed : List Nat} (hi : i < cs.length)
    (h : (pages (cs.getD i d)).Perm (removed ++ pages x)) :
    (pagesL cs).Perm (removed ++ pagesL (cs.set i x)) := by
  have h1 := pagesL_set x d hi
  rw [List.perm_iff_count] at *; intro z
  have := h z; have := h1 z
  count_norm
  omega

/-! ### insertion -/

theorem cinsert_app1 (pre : List Node) (x r : Node) (post : List Node) :
    cinsert (pre ++ x :: post) (pre.length + 1) r = pre ++ x :: r :: post := by
  induction pre with
  | nil => simp [cinsert]
  | cons a pre ih =>
    simp only [List.cons_append, List.length_cons]
    rw [Ins.cinsert_cons_succ, ih]

theorem split_pages (c : Cfg) (vals : List Nat) {cs : List Node} {i : Nat} (rid : Nat) (hi : i < cs.length) :
    (splitChild c vals cs i rid).2.length = cs.length + 1 ∧
    (pagesL (splitChild c vals cs i rid).2).Perm (pagesL cs ++ [rid]) := by
  rw [Ins.splitChild_eq]
  obtain ⟨pre, y, post, rfl, hpre, -, -⟩ := split1 cs i hi
  rw [set_app _ _ _ _ hpre, getD_app _ _ _ _ hpre]
  subst hpre
  have e : cinsert (pre ++ Ins.splitL c y :: post) (pre.length + 1) (Ins.splitR c rid y) =
      pre ++ Ins.splitL c y :: Ins.splitR c rid y :: post := cinsert_app1 _ _ _ _
  simp only [e]
  refine ⟨by simp; omega, ?_⟩
  cases y with
  | leaf id lv =>
    simp only [Ins.splitL, Ins.splitR]
    rw [List.perm_iff_count]; intro z
    count_norm
    omega
  | inode id lv lc =>
    simp only [Ins.splitL, Ins.splitR]
    have := pagesL_take_drop lc (c.inodeMax / 2 + 1)
    rw [List.perm_iff_count]; intro z
    have := congrArg (List.count z) this
    count_norm
    omega

/-- What a walk does to the pages `P` it started from: only grants and refusals, the granted ids are
the consecutive fresh ones, and they are exactly the pages that appeared. -/
def InsPg (a : AllocSt) (P : List Nat) (a' : AllocSt) (P' : List Nat) (evs : List Ev) : Prop :=
  NoFree evs ∧ ∃ m, a'.next = a.next + m ∧ allocs evs = List.range' a.next m ∧ P'.Perm (P ++ allocs evs)

theorem InsPg.refl (a : AllocSt) (P : List Nat) : InsPg a P a P [] :=
  ⟨noFree_nil, 0, rfl, rfl, by simp⟩

theorem InsPg.of_perm {a P a' P'} (h : P'.Perm P) (ha : a'.next = a.next) : InsPg a P a' P' [] :=
  ⟨noFree_nil, 0, ha, rfl, by simpa using h⟩

theorem InsPg.fail {a P a'} (ha : a'.next = a.next) : InsPg a P a' P [.allocFail] :=
  ⟨noFree_fail, 0, ha, rfl, by simp⟩

theorem InsPg.trans {a a1 a' P Q R e1 e2} (h1 : InsPg a P a1 Q e1) (h2 : InsPg a1 Q a' R e2) :
    InsPg a P a' R (e1 ++ e2) := by
  obtain ⟨n1, m1, x1, y1, z1⟩ := h1
  obtain ⟨n2, m2, x2, y2, z2⟩ := h2
  refine ⟨noFree_append n1 n2, m1 + m2, by omega, ?_, ?_⟩
  · rw [allocs_append, y1, y2, x1, List.range'_append_1]
  · rw [allocs_append]
    rw [List.perm_iff_count] at *; intro z
    have := z1 z; have := z2 z
    count_norm
    omega

theorem InsPg.cons {a a' P Q e} (id : Nat) (h : InsPg a P a' Q e) : InsPg a (id :: P) a' (id :: Q) e := by
  obtain ⟨n1, m1, x1, y1, z1⟩ := h
  exact ⟨n1, m1, x1, y1, by simpa using List.Perm.cons id z1⟩

theorem InsPg.set {a a' e} {cs : List Node} {i : Nat} {x d : Node} (hi : i < cs.length)
    (h : InsPg a (pages (cs.getD i d)) a' (pages x) e) : InsPg a (pagesL cs) a' (pagesL (cs.set i x)) e := by
  obtain ⟨n1, m1, x1, y1, z1⟩ := h
  exact ⟨n1, m1, x1, y1, pagesL_set_of_perm hi z1⟩

theorem insertNode_leaf (c : Cfg) (fails : Nat → Bool) (fuel : Nat) (a : AllocSt) (id : Nat) (vs : List Nat) (e : Nat) :
    (insertNode c fails fuel a (.leaf id vs) e).evs = [] ∧ (insertNode c fails fuel a (.leaf id vs) e).a = a ∧
    pages (insertNode c fails fuel a (.leaf id vs) e).node = [id] := by
  cases fuel with
  | zero => simp [insertNode]
  | succ fuel =>
    simp only [insertNode]
    split <;> simp

theorem insertNode_pages (c : Cfg) (hl : 0 < c.leafMax) (fails : Nat → Bool) :
    ∀ (fuel : Nat) (a : AllocSt) (n : Node) (e : Nat),
      InsPg a (pages n) (insertNode c fails fuel a n e).a (pages (insertNode c fails fuel a n e).node)
        (insertNode c fails fuel a n e).evs := by
  intro fuel
  induction fuel with
  | zero => intro a n e; simp only [insertNode]; exact InsPg.refl _ _
  | succ fuel ih =>
    intro a n e
    cases n with
    | leaf id vals =>
      obtain ⟨h1, h2, h3⟩ := insertNode_leaf c fails (fuel + 1) a id vals e
      rw [h1, h2, h3]; exact InsPg.refl _ _
    | inode id vals cs =>
      rcases hnf : nodeFind (.inode id vals cs) e with ⟨i, eq, k⟩
      simp only [insertNode, hnf]
      cases eq with
      | true => simp only [if_true]; exact InsPg.refl _ _
      | false =>
        simp only [Bool.false_eq_true, if_false]
        by_cases hfull : c.isFull (cs.getD i (.leaf 0 [])) = true
        · simp only [hfull, if_true]
          have hi : i < cs.length := by
            apply Classical.byContradiction
            intro hi
            have : cs.getD i (.leaf 0 []) = .leaf 0 [] := by
              simp [List.getD_eq_getElem?_getD, List.getElem?_eq_none (Nat.le_of_not_lt hi)]
            rw [this] at hfull
            simp [Cfg.isFull, Node.nVals, Node.vals, Cfg.maxVals, Node.isLeaf] at hfull
            omega
          by_cases hf : fails a.reqs = true
          · simp only [allocPage, hf, if_true]
            exact InsPg.fail rfl
          · simp only [allocPage, hf, Bool.false_eq_true, if_false]
            obtain ⟨slen, sperm⟩ := split_pages c vals a.next hi
            rcases hsp : splitChild c vals cs i a.next with ⟨vals', cs'⟩
            rw [hsp] at slen sperm
            simp only [] at slen sperm ⊢
            have hstep : InsPg a (id :: pagesL cs) { next := a.next + 1, reqs := a.reqs + 1 } (id :: pagesL cs') [.alloc a.next] :=
              ⟨noFree_alloc _, 1, rfl, by simp [List.range'_succ], by simpa using List.Perm.cons id sperm⟩
            split
            · have IH := ih { next := a.next + 1, reqs := a.reqs + 1 } (cs'.getD (i + 1) (.leaf 0 [])) e
              exact hstep.trans (InsPg.cons id (InsPg.set (by omega) IH))
            · split
              · simpa using hstep
              · have IH := ih { next := a.next + 1, reqs := a.reqs + 1 } (cs'.getD i (.leaf 0 [])) e
                exact hstep.trans (InsPg.cons id (InsPg.set (by omega) IH))
        · simp only [hfull, Bool.false_eq_true, if_false]
          have IH := ih a (cs.getD i (.leaf 0 [])) e
          by_cases hi : i < cs.length
          · exact InsPg.cons id (InsPg.set hi IH)
          · have hd : cs.getD i (.leaf 0 []) = .leaf 0 [] := by
              simp [List.getD_eq_getElem?_getD, List.getElem?_eq_none (Nat.le_of_not_lt hi)]
            rw [hd]
            obtain ⟨h1, h2, h3⟩ := insertNode_leaf c fails fuel a 0 [] e
            rw [h1, h2, List.set_eq_of_length_le (Nat.le_of_not_lt hi)]
            exact InsPg.refl _ _


theorem InsPg.finish {a a' : AllocSt} {t : Tree} {root' : Node} {evs : List Ev}
    (h : InsPg a (pages t.root) a' (pages root') evs) (hp : OK a t) :
    ∃ live, replay (treePages t) evs = some live ∧ live.Perm (t.treeId :: pages root') ∧
      (t.treeId :: pages root').Nodup ∧ ∀ id ∈ t.treeId :: pages root', id < a'.next := by
  obtain ⟨n1, m1, x1, y1, z1⟩ := (InsPg.cons t.treeId h)
  rw [x1]
  exact step_allocs n1 y1 z1 hp.1 hp.2

theorem insert_pages (c : Cfg) (hc : c.Valid) (fails : Nat → Bool) (a : AllocSt) (t : Tree) (e : Nat)
    (hp : OK a t) :
    ∃ live, replay (treePages t) (t.insert c fails a e).2.2.2.1 = some live ∧
      live.Perm (treePages (t.insert c fails a e).2.1) ∧ OK (t.insert c fails a e).1 (t.insert c fails a e).2.1 := by
  have hl : 0 < c.leafMax := by have := hc.inode3; have := hc.leaf; omega
  unfold Tree.insert
  by_cases hfull : c.isFull t.root = true
  · simp only [hfull, if_true]
    by_cases hf1 : fails a.reqs = true
    · simp only [allocPage, hf1, if_true]
      exact ⟨treePages t, rfl, List.Perm.refl _, hp⟩
    · by_cases hf2 : fails (a.reqs + 1) = true
      · simp only [allocPage, hf1, hf2, Bool.false_eq_true, if_false, if_true]
        have hm : a.next ∉ treePages t := fun h => Nat.lt_irrefl _ (hp.2 _ h)
        refine ⟨treePages t, ?_, List.Perm.refl _, hp.1, ?_⟩
        · simp [replay, hm]
        · intro id hid; have := hp.2 id hid; show id < a.next + 1; omega
      · simp only [allocPage, hf1, hf2, Bool.false_eq_true, if_false]
        obtain ⟨slen, sperm⟩ := split_pages c [] (cs := [t.root]) (i := 0) (a.next + 1) (by simp)
        rcases hsp : splitChild c [] [t.root] 0 (a.next + 1) with ⟨v, cs⟩
        rw [hsp] at slen sperm
        simp only [] at slen sperm ⊢
        have hstep : InsPg a (pages t.root) { next := a.next + 1 + 1, reqs := a.reqs + 1 + 1 }
            (pages (.inode a.next v cs)) ([.alloc a.next] ++ [.alloc (a.next + 1)]) := by
          refine ⟨noFree_append (noFree_alloc _) (noFree_alloc _), 2, rfl, by simp [List.range'_succ], ?_⟩
          rw [List.perm_iff_count] at *; intro z
          have := sperm z
          simp only [allocs_append, allocs_alloc, allocs_nil] at *
          count_norm
          omega
        have IH := insertNode_pages c hl fails (height t.root + 2)
          { next := a.next + 1 + 1, reqs := a.reqs + 1 + 1 } (.inode a.next v cs) e
        obtain ⟨live, h1, h2, h3, h4⟩ := (hstep.trans IH).finish hp
        exact ⟨live, h1, h2, h3, h4⟩
  · simp only [hfull, Bool.false_eq_true, if_false]
    have IH := insertNode_pages c hl fails (height t.root + 1) a t.root e
    obtain ⟨live, h1, h2, h3, h4⟩ := IH.finish hp
    exact ⟨live, h1, h2, h3, h4⟩


/-! ### removal: rotations and merge -/

theorem rotateLeft_pages {c : Cfg} {h' : Nat} {vals : List Nat} {children : List Node} {i : Nat}
    (hlen : children.length = vals.length + 1) (hi : i < vals.length) (hs : ShapeAll c h' children) :
    (pagesL (rotateLeft vals children i).2).Perm (pagesL children) := by
  obtain ⟨pre, l, r, post, rfl, hpre⟩ := split2 children i (by omega)
  subst hpre
  simp only [shapeAll_append, shapeAll_cons] at hs
  obtain ⟨hs1, hl, hr, hs2⟩ := hs
  cases l with
  | leaf li lv =>
    cases r with
    | inode ri rv rc => exact (kind_contra hl hr).elim
    | leaf ri rv =>
      have e : (rotateLeft vals (pre ++ Node.leaf li lv :: Node.leaf ri rv :: post) pre.length).2
          = pre ++ Node.leaf li (lv ++ [vals.getD pre.length 0]) :: Node.leaf ri rv.tail :: post := by
        simp [rotateLeft]
      rw [e]
      simp
  | inode li lv lc =>
    cases r with
    | leaf ri rv => exact (kind_contra hr hl).elim
    | inode ri rv rc =>
      rw [shape_inode] at hr
      obtain ⟨hr', hh, hr1, hr2, hr3, hr4, hr5⟩ := hr
      cases rc with
      | nil => simp at hr4
      | cons y rc =>
        have e : (rotateLeft vals (pre ++ Node.inode li lv lc :: Node.inode ri rv (y :: rc) :: post) pre.length).2
            = pre ++ Node.inode li (lv ++ [vals.getD pre.length 0]) (lc ++ [y]) :: Node.inode ri rv.tail rc :: post := by
          simp [rotateLeft]
        rw [e]
        rw [List.perm_iff_count]; intro z
        count_norm
        omega

theorem rotateRight_pages {c : Cfg} {h' : Nat} {vals : List Nat} {children : List Node} {j : Nat}
    (hlen : children.length = vals.length + 1) (hi : j < vals.length) (hs : ShapeAll c h' children) :
    (pagesL (rotateRight vals children (j + 1)).2).Perm (pagesL children) := by
  obtain ⟨pre, l, r, post, rfl, hpre⟩ := split2 children j (by omega)
  subst hpre
  simp only [shapeAll_append, shapeAll_cons] at hs
  obtain ⟨hs1, hl, hr, hs2⟩ := hs
  cases l with
  | leaf li lv =>
    cases r with
    | inode ri rv rc => exact (kind_contra hl hr).elim
    | leaf ri rv =>
      have e : (rotateRight vals (pre ++ Node.leaf li lv :: Node.leaf ri rv :: post) (pre.length + 1)).2
          = pre ++ Node.leaf li lv.dropLast :: Node.leaf ri (vals.getD pre.length 0 :: rv) :: post := by
        simp [rotateRight]
      rw [e]
      simp
  | inode li lv lc =>
    cases r with
    | leaf ri rv => exact (kind_contra hr hl).elim
    | inode ri rv rc =>
      rw [shape_inode] at hl
      obtain ⟨hl', hh, hl1, hl2, hl3, hl4, hl5⟩ := hl
      obtain ⟨lc, y, rfl⟩ := snoc_of_pos lc (by omega)
      have e : (rotateRight vals (pre ++ Node.inode li lv (lc ++ [y]) :: Node.inode ri rv rc :: post) (pre.length + 1)).2
          = pre ++ Node.inode li lv.dropLast lc :: Node.inode ri (vals.getD pre.length 0 :: rv) (y :: rc) :: post := by
        simp [rotateRight]
      rw [e]
      rw [List.perm_iff_count]; intro z
      count_norm
      omega

theorem mergeAt_pages {c : Cfg} {h' : Nat} {vals : List Nat} {children : List Node} {i : Nat}
    (hlen : children.length = vals.length + 1) (hi : i < vals.length) (hs : ShapeAll c h' children) :
    (pagesL children).Perm ((mergeAt vals children i).2.2 :: pagesL (mergeAt vals children i).2.1) := by
  obtain ⟨pre, l, r, post, rfl, hpre⟩ := split2 children i (by omega)
  subst hpre
  simp only [shapeAll_append, shapeAll_cons] at hs
  obtain ⟨hs1, hl, hr, hs2⟩ := hs
  cases l with
  | leaf li lv =>
    cases r with
    | inode ri rv rc => exact (kind_contra hl hr).elim
    | leaf ri rv =>
      have e : (mergeAt vals (pre ++ Node.leaf li lv :: Node.leaf ri rv :: post) pre.length).2
          = (pre ++ Node.leaf li (lv ++ vals.getD pre.length 0 :: rv) :: post, ri) := by
        simp [mergeAt, set_app _ _ _ _ rfl, eraseIdx_app1 _ _ _ _ rfl, Node.id]
      rw [e]
      rw [List.perm_iff_count]; intro z
      count_norm
      omega
  | inode li lv lc =>
    cases r with
    | leaf ri rv => exact (kind_contra hr hl).elim
    | inode ri rv rc =>
      have e : (mergeAt vals (pre ++ Node.inode li lv lc :: Node.inode ri rv rc :: post) pre.length).2
          = (pre ++ Node.inode li (lv ++ vals.getD pre.length 0 :: rv) (lc ++ rc) :: post, ri) := by
        simp [mergeAt, set_app _ _ _ _ rfl, eraseIdx_app1 _ _ _ _ rfl, Node.id]
      rw [e]
      rw [List.perm_iff_count]; intro z
      count_norm
      omega

theorem fattenChild_pages {c : Cfg} {h' : Nat} {vals : List Nat} {children : List Node} {i : Nat}
    (hlen : children.length = vals.length + 1) (hi : i ≤ vals.length) (hv : 1 ≤ vals.length)
    (hs : ShapeAll c h' children) :
    (pagesL children).Perm (frees (fattenChild c vals children i).2.2.2 ++ pagesL (fattenChild c vals children i).2.1) := by
  unfold fattenChild
  split
  · rename_i h1
    obtain ⟨j, rfl⟩ : ∃ j, i = j + 1 := ⟨i - 1, by omega⟩
    simpa using (rotateRight_pages hlen (by omega) hs).symm
  · split
    · rename_i h1 h2
      simpa using (rotateLeft_pages hlen h2.1 hs).symm
    · split
      · simpa using mergeAt_pages (i := i - 1) hlen (by omega) hs
      · rename_i h3
        simpa using mergeAt_pages (i := i) hlen (by omega) hs


/-! ### removal: walks -/

/-- lift what a walk into child `i` freed to the parent, after a restructuring that freed `evs` -/
theorem lift_frees {children children' : List Node} {i : Nat} {x : Node} {evs evs' : List Ev} (id : Nat)
    (hi : i < children'.length)
    (h1 : (pagesL children).Perm (frees evs ++ pagesL children'))
    (h2 : (pages (children'.getD i (.leaf 0 []))).Perm (frees evs' ++ pages x)) :
    (id :: pagesL children).Perm (frees (evs ++ evs') ++ (id :: pagesL (children'.set i x))) := by
  have h3 := pagesL_set_of_perm' hi h2
  rw [List.perm_iff_count] at *; intro z
  have := h1 z; have := h3 z
  rw [frees_append]
  count_norm
  omega

theorem removeMin_pages {c : Cfg} (hc : c.Valid) : ∀ fuel h n, Shape c false h n → h ≤ fuel →
    c.canRemoveFrom n = true →
    (pages n).Perm (frees (removeMin c fuel n).2.2 ++ pages (removeMin c fuel n).1) := by
  intro fuel
  induction fuel with
  | zero => intro h n H hf; have := shape_pos H; omega
  | succ fuel ih =>
    intro h n H hf hcan
    cases n with
    | leaf id vs => simp [removeMin]
    | inode id vals children =>
      rw [shape_inode] at H
      obtain ⟨h', rfl, h1, h2, h3, h4, h5⟩ := H
      simp at hcan h3
      have hif := inode_fit hc
      have key : ∀ vals' children' evs, children'.length = vals'.length + 1 → ShapeAll c h' children' →
          c.canRemoveFrom (children'.getD 0 (.leaf 0 [])) = true →
          (pagesL children).Perm (frees evs ++ pagesL children') →
          (pages (.inode id vals children)).Perm
            (frees (minStep c fuel id vals' children' evs).2.2 ++ pages (minStep c fuel id vals' children' evs).1) := by
        intro vals' children' evs k1 k2 k3 k4
        have := ih h' _ (shapeAll_getD k2 (by omega)) (by omega) k3
        simp only [minStep, pages_inode]
        exact lift_frees id (by omega) k4 this
      rw [removeMin_inode]
      split
      · rename_i g1
        exact key vals children [] h4 h5 g1 (by simp)
      · rename_i g1
        split
        · rename_i g2
          have R := rotateLeft_spec hc h4 (by omega) h5 g2 (bool_false_of_not g1)
          exact key _ _ [] R.1.len R.1.shape R.1.can (by simpa using (rotateLeft_pages h4 (by omega) h5).symm)
        · rename_i g2
          have R := mergeAt_spec hc h4 (by omega) h5 (bool_false_of_not g1) (bool_false_of_not g2)
          have R1 := R.1 _ (Or.inl rfl)
          exact key _ _ [.free (mergeAt vals children 0).2.2] R1.len R1.shape R1.can
            (by simpa using mergeAt_pages h4 (by omega) h5)

theorem removeMax_pages {c : Cfg} (hc : c.Valid) : ∀ fuel h n, Shape c false h n → h ≤ fuel →
    c.canRemoveFrom n = true →
    (pages n).Perm (frees (removeMax c fuel n).2.2 ++ pages (removeMax c fuel n).1) := by
  intro fuel
  induction fuel with
  | zero => intro h n H hf; have := shape_pos H; omega
  | succ fuel ih =>
    intro h n H hf hcan
    cases n with
    | leaf id vs => simp [removeMax]
    | inode id vals children =>
      rw [shape_inode] at H
      obtain ⟨h', rfl, h1, h2, h3, h4, h5⟩ := H
      simp at hcan h3
      have hif := inode_fit hc
      have key : ∀ vals' children' z evs, children'.length = vals'.length + 1 → ShapeAll c h' children' →
          z = vals'.length →
          c.canRemoveFrom (children'.getD z (.leaf 0 [])) = true →
          (pagesL children).Perm (frees evs ++ pagesL children') →
          (pages (.inode id vals children)).Perm
            (frees (maxStep c fuel id vals' children' z evs).2.2 ++ pages (maxStep c fuel id vals' children' z evs).1) := by
        intro vals' children' z evs k1 k2 kz k3 k4
        subst kz
        have := ih h' _ (shapeAll_getD k2 (by omega)) (by omega) k3
        simp only [maxStep, pages_inode]
        exact lift_frees id (by omega) k4 this
      rw [removeMax_inode]
      split
      · rename_i g1
        exact key vals children _ [] h4 h5 rfl g1 (by simp)
      · rename_i g1
        obtain ⟨j, hj⟩ : ∃ j, vals.length = j + 1 := ⟨vals.length - 1, by omega⟩
        rw [hj] at g1 ⊢
        simp only [Nat.add_sub_cancel] at g1 ⊢
        split
        · rename_i g2
          have R := rotateRight_spec hc h4 (by omega) h5 g2 (bool_false_of_not g1)
          exact key _ _ (j + 1) [] R.1.len R.1.shape (by rw [R.2]; omega) R.1.can
            (by simpa using (rotateRight_pages h4 (by omega) h5).symm)
        · rename_i g2
          have R := mergeAt_spec hc h4 (by omega) h5 (bool_false_of_not g2) (bool_false_of_not g1)
          have R1 := R.1 _ (Or.inl rfl)
          exact key _ _ j [.free (mergeAt vals children j).2.2] R1.len R1.shape (by omega) R1.can
            (by simpa using mergeAt_pages h4 (by omega) h5)

theorem replace_pages {c : Cfg} (hc : c.Valid) {root h' fuel id vals children i}
    (H : Shape c root (h' + 1) (.inode id vals children)) (hf : h' ≤ fuel)
    (hi : i < vals.length)
    (hnb : ¬ ((!c.canRemoveFrom (children.getD i (.leaf 0 [])) && !c.canRemoveFrom (children.getD (i + 1) (.leaf 0 []))) = true)) :
    ∀ p, replaceValue c fuel id vals children i = some p →
      (pages (.inode id vals children)).Perm (frees p.2.2.2 ++ pages p.1) := by
  intro p hpv
  rw [shape_inode] at H
  obtain ⟨h'', hh, h1, h2, h3, h4, h5⟩ := H
  have : h'' = h' := by omega
  subst this
  rw [replaceValue_eq, if_neg hnb] at hpv
  have hl := shapeAll_getD (i := i) h5 (by omega)
  have hr := shapeAll_getD (i := i + 1) h5 (by omega)
  have FL := fromLeft_can (i := i) hl hr hnb
  split at hpv
  · rename_i g
    have M := removeMax_pages hc fuel h'' _ hl hf (FL.1 g)
    cases hpv
    simpa using lift_frees (evs := []) id (i := i) (by omega) (by simp) M
  · rename_i g
    have M := removeMin_pages hc fuel h'' _ hr hf (FL.2 g)
    cases hpv
    simpa using lift_frees (evs := []) id (i := i + 1) (by omega) (by simp) M

theorem desc_pages {c : Cfg} {fuel h' e}
    (ih : ∀ n, Shape c false h' n → n.elems.Pairwise (· < ·) → c.canRemoveFrom n = true →
      (pages n).Perm (frees (removeNode c fuel n e).evs ++ pages (removeNode c fuel n e).node))
    {id} {children : List Node} {vals' children' i' evs k}
    (len : children'.length = vals'.length + 1) (idx : i' ≤ vals'.length) (shape : ShapeAll c h' children')
    (can : c.canRemoveFrom (children'.getD i' (.leaf 0 [])) = true)
    (hp : (interleave children' vals').Pairwise (· < ·))
    (hpg : (pagesL children).Perm (frees evs ++ pagesL children')) :
    (id :: pagesL children).Perm (frees (descStep c fuel id vals' children' i' evs k e).evs ++
      pages (descStep c fuel id vals' children' i' evs k e).node) := by
  have hsub := child_sublist idx len
  have := ih _ (shapeAll_getD shape (by omega)) (List.Pairwise.sublist hsub hp) can
  simp only [descStep, pages_inode]
  exact lift_frees id (by omega) hpg this

theorem removeNode_pages {c : Cfg} (hc : c.Valid) : ∀ fuel h root n e, Shape c root h n → h ≤ fuel →
    n.elems.Pairwise (· < ·) → ((root = true ∧ RootOK c n) ∨ c.canRemoveFrom n = true) →
    (pages n).Perm (frees (removeNode c fuel n e).evs ++ pages (removeNode c fuel n e).node) := by
  intro fuel
  induction fuel with
  | zero => intro h root n e H hf; have := shape_pos H; omega
  | succ fuel ih =>
    intro h root n e H hf hp hpre
    cases n with
    | leaf id vals =>
      rw [removeNode_leaf]
      split
      · simp
      · split <;> simp
    | inode id vals children =>
      have H' := H
      rw [shape_inode] at H'
      obtain ⟨h', rfl, h1, h2, h3, h4, h5⟩ := H'
      have hif := inode_fit hc
      simp only [elems_inode] at hp
      have ih' : ∀ n, Shape c false h' n → n.elems.Pairwise (· < ·) → c.canRemoveFrom n = true →
          (pages n).Perm (frees (removeNode c fuel n e).evs ++ pages (removeNode c fuel n e).node) :=
        fun n a b d => ih h' false n e a (by omega) b (Or.inr d)
      have hne : 2 ≤ vals.length ∨ c.canRemoveFrom (children.getD 0 (.leaf 0 [])) = true ∨
          c.canRemoveFrom (children.getD 1 (.leaf 0 [])) = true := by
        rcases hpre with h6 | h6
        · exact h6.2
        · simp at h6; exact Or.inl (by omega)
      have F := nodeFind_spec (.inode id vals children) e (List.Pairwise.sublist (vals_sublist children vals (by omega)) hp)
      simp only [Node.vals] at F
      rw [removeNode_inode]
      generalize (nodeFind (.inode id vals children) e).2.2 = k at *
      generalize hi : (nodeFind (.inode id vals children) e).1 = i at *
      simp only [pages_inode]
      split
      · rename_i g1
        obtain ⟨f1, f2⟩ := F.1 g1
        by_cases hnb : (!c.canRemoveFrom (children.getD i (.leaf 0 [])) && !c.canRemoveFrom (children.getD (i + 1) (.leaf 0 []))) = true
        · have hnone : replaceValue c fuel id vals children i = none := by
            rw [replaceValue_eq, if_pos hnb]
          rw [hnone]
          simp only []
          simp only [Bool.and_eq_true, Bool.not_eq_true'] at hnb
          have R := mergeAt_spec hc h4 f1 h5 hnb.1 hnb.2
          have R1 := R.1 _ (Or.inl rfl)
          exact desc_pages (id := id) (evs := [.free (mergeAt vals children i).2.2]) (k := k) ih' R1.len R1.idx R1.shape R1.can
            (by rw [R1.elems]; exact hp) (by simpa using mergeAt_pages h4 f1 h5)
        · have RS := replace_pages (h' := h') (fuel := fuel) hc H (by omega) f1 hnb
          cases hpv : replaceValue c fuel id vals children i with
          | none => rw [replaceValue_eq, if_neg hnb] at hpv; split at hpv <;> cases hpv
          | some p =>
            have a := RS p hpv
            obtain ⟨n', out, fl, ev⟩ := p
            simpa using a
      · rename_i g1
        obtain ⟨f1, f2, f3⟩ := F.2 (bool_false_of_not g1)
        split
        · rename_i g2
          exact desc_pages (evs := []) ih' h4 f1 h5 g2 hp (by simp)
        · rename_i g2
          have R := fattenChild_spec hc h4 f1 h1 h5 (bool_false_of_not g2) hne
          exact desc_pages (id := id) (evs := (fattenChild c vals children i).2.2.2) (k := k) ih' R.1.len R.1.idx R.1.shape R.1.can
            (by rw [R.1.elems]; exact hp) (fattenChild_pages h4 f1 h1 h5)

theorem preRoot_pages {c : Cfg} {h n} (H : Shape c true h n) :
    (pages n).Perm (frees (preRoot c n).2 ++ pages (preRoot c n).1) := by
  rcases n with _ | ⟨id, _ | ⟨v, _ | ⟨w, vs⟩⟩, cs⟩
  · simp [preRoot]
  · simp [preRoot]
  · rcases cs with _ | ⟨l, _ | ⟨r, _ | ⟨x, cs⟩⟩⟩
    · simp [preRoot]
    · simp [preRoot]
    · simp only [preRoot]
      split
      · rw [shape_inode] at H
        obtain ⟨h', rfl, h1, h2, h3, h4, h5⟩ := H
        have M := mergeAt_pages (i := 0) h4 (by simp) h5
        have hlen : (mergeAt [v] [l, r] 0).2.1.length = 1 := by simp [mergeAt]
        generalize (mergeAt [v] [l, r] 0).2.1 = cs' at *
        rcases cs' with _ | ⟨m, _ | _⟩
        · simp at hlen
        · simp only [List.getD_cons_zero, frees_free, frees_nil, pages_inode]
          rw [List.perm_iff_count] at *; intro z
          have := M z
          count_norm
          omega
        · simp at hlen
      · simp
    · simp [preRoot]
  · simp [preRoot]

theorem remove_pages (c : Cfg) (hc : c.Valid) (a : AllocSt) (t : Tree) (e : Nat) (h : WF c t) (hp : OK a t) :
    ∃ live, replay (treePages t) (t.remove c e).2.2.2.2.1 = some live ∧
      live.Perm (treePages (t.remove c e).1) ∧ OK a (t.remove c e).1 := by
  obtain ⟨h2, s1, s2, s3⟩ := preRoot_spec hc h.shape
  have P0 := preRoot_pages h.shape
  have P1 := removeNode_pages hc (height (preRoot c t.root).1 + 1) h2 true (preRoot c t.root).1 e s1
    (by rw [shape_height s1]; omega) (by rw [s2]; exact h.sorted) (Or.inl ⟨rfl, s3⟩)
  have hf := remove_evs c t e
  rw [remove_eq] at hf ⊢
  generalize removeNode c (height (preRoot c t.root).1 + 1) (preRoot c t.root).1 e = r at *
  have hev : (finish t (preRoot c t.root).2 r).2.2.2.2.1 = (preRoot c t.root).2 ++ r.evs := by
    unfold finish; split <;> rfl
  have hroot : treePages (finish t (preRoot c t.root).2 r).1 = t.treeId :: pages r.node := by
    unfold finish; split <;> rfl
  rw [hev] at hf ⊢
  have hperm : (treePages t).Perm (frees ((preRoot c t.root).2 ++ r.evs) ++ (t.treeId :: pages r.node)) := by
    unfold treePages
    rw [frees_append]
    rw [List.perm_iff_count] at *; intro z
    have := P0 z; have := P1 z
    count_norm
    omega
  obtain ⟨live, q1, q2, q3, q4⟩ := step_frees (k := a.next) hf hperm hp.1 hp.2
  refine ⟨live, q1, by rw [hroot]; exact q2, ?_, ?_⟩
  · show (treePages _).Nodup
    rw [hroot]; exact q3
  · show ∀ id ∈ treePages _, id < a.next
    rw [hroot]; exact q4

end Zix.BTree.Pg
