import ZixModel.Lemmas.BTreeDefs
/-! Helper lemmas for the removal part of the B-tree model (C01Remove). -/
namespace Zix.BTree.Rem
open Zix.BTree

/-! ### unfolding helpers -/

def fromLeft (l r : Node) (i : Nat) : Bool :=
  if l.nVals > r.nVals then true else if r.nVals > l.nVals then false else i % 2 = 1

theorem replaceValue_eq (c : Cfg) (fuel id vals children i) :
    replaceValue c fuel id vals children i =
      if (!c.canRemoveFrom (children.getD i (.leaf 0 [])) && !c.canRemoveFrom (children.getD (i + 1) (.leaf 0 []))) = true then none
      else if fromLeft (children.getD i (.leaf 0 [])) (children.getD (i + 1) (.leaf 0 [])) i = true then
        some (.inode id (vals.set i (removeMax c fuel (children.getD i (.leaf 0 []))).2.1)
          (children.set i (removeMax c fuel (children.getD i (.leaf 0 []))).1), vals.getD i 0, true,
          (removeMax c fuel (children.getD i (.leaf 0 []))).2.2)
      else
        some (.inode id (vals.set i (removeMin c fuel (children.getD (i + 1) (.leaf 0 []))).2.1)
          (children.set (i + 1) (removeMin c fuel (children.getD (i + 1) (.leaf 0 []))).1), vals.getD i 0, false,
          (removeMin c fuel (children.getD (i + 1) (.leaf 0 []))).2.2) := by
  unfold replaceValue fromLeft
  rfl

def preRoot (c : Cfg) (n : Node) : Node × List Ev :=
  match n with
  | .inode id [v] [l, r] =>
    if !c.canRemoveFrom l && !c.canRemoveFrom r then
      ((mergeAt [v] [l, r] 0).2.1.getD 0 (.leaf 0 []), [.free id, .free (mergeAt [v] [l, r] 0).2.2])
    else (n, [])
  | n => (n, [])

def finish (t : Tree) (ev0 : List Ev) (r : RemOut) : Tree × Status × Option Nat × Iter × List Ev × Nat :=
  match r.out with
  | none => ({ t with root := r.node }, .notFound, none, none, ev0 ++ r.evs, r.cmps)
  | some out =>
    (({ t with root := r.node, size := t.size - 1 } : Tree), .success, some out,
      (if t.size - 1 = 0 then none else if r.incr then increment r.node r.path else some r.path),
      ev0 ++ r.evs, r.cmps)

theorem remove_eq (c : Cfg) (t : Tree) (e : Nat) :
    t.remove c e = finish t (preRoot c t.root).2 (removeNode c (height (preRoot c t.root).1 + 1) (preRoot c t.root).1 e) := by
  rcases t with ⟨root, size, tid⟩
  rcases root with _ | ⟨id, _ | ⟨v, _ | _⟩, _ | ⟨l, _ | ⟨r, _ | _⟩⟩⟩ <;> rfl


/-! ### events -/

def AllFree (evs : List Ev) : Prop := ∀ ev ∈ evs, ∃ id, ev = Ev.free id

theorem allFree_nil : AllFree [] := by intro ev h; cases h
theorem allFree_cons {id : Nat} {evs} (h : AllFree evs) : AllFree (Ev.free id :: evs) := by
  intro ev hm
  rcases List.mem_cons.1 hm with rfl | hm
  · exact ⟨id, rfl⟩
  · exact h ev hm
theorem allFree_append {a b} (ha : AllFree a) (hb : AllFree b) : AllFree (a ++ b) := by
  intro ev hm
  rcases List.mem_append.1 hm with hm | hm
  · exact ha ev hm
  · exact hb ev hm

theorem removeMin_evs (c : Cfg) : ∀ fuel n, AllFree (removeMin c fuel n).2.2 := by
  intro fuel
  induction fuel with
  | zero => intro n; simp [removeMin, allFree_nil]
  | succ fuel ih =>
    intro n
    cases n with
    | leaf id vals => simp [removeMin, allFree_nil]
    | inode id vals children =>
      simp only [removeMin]
      split
      · exact ih _
      · split
        · exact ih _
        · exact allFree_cons (ih _)

theorem removeMax_evs (c : Cfg) : ∀ fuel n, AllFree (removeMax c fuel n).2.2 := by
  intro fuel
  induction fuel with
  | zero => intro n; simp [removeMax, allFree_nil]
  | succ fuel ih =>
    intro n
    cases n with
    | leaf id vals => simp [removeMax, allFree_nil]
    | inode id vals children =>
      simp only [removeMax]
      split
      · exact ih _
      · split
        · exact ih _
        · exact allFree_cons (ih _)

theorem fattenChild_evs (c : Cfg) (vals children i) : AllFree (fattenChild c vals children i).2.2.2 := by
  unfold fattenChild
  split
  · exact allFree_nil
  · split
    · exact allFree_nil
    · split
      · exact allFree_cons allFree_nil
      · exact allFree_cons allFree_nil


theorem replaceValue_evs (c : Cfg) (fuel id vals children i) :
    ∀ r, replaceValue c fuel id vals children i = some r → AllFree r.2.2.2 := by
  intro r h
  rw [replaceValue_eq] at h
  split at h
  · cases h
  · split at h
    · cases h; exact removeMax_evs c _ _
    · cases h; exact removeMin_evs c _ _

theorem removeNode_evs (c : Cfg) : ∀ fuel n e, AllFree (removeNode c fuel n e).evs := by
  intro fuel
  induction fuel with
  | zero => intro n e; simp [removeNode, allFree_nil]
  | succ fuel ih =>
    intro n e
    cases n with
    | leaf id vals =>
      simp only [removeNode]
      split
      · exact allFree_nil
      · split <;> exact allFree_nil
    | inode id vals children =>
      simp only [removeNode]
      split
      · split
        · rename_i h; exact replaceValue_evs c _ _ _ _ _ _ h
        · exact allFree_cons (ih _ _)
      · split
        · exact ih _ _
        · exact allFree_append (fattenChild_evs c _ _ _) (ih _ _)

theorem preRoot_evs (c : Cfg) (n : Node) : AllFree (preRoot c n).2 := by
  unfold preRoot
  split
  · split
    · exact allFree_cons (allFree_cons allFree_nil)
    · exact allFree_nil
  · exact allFree_nil

theorem remove_evs (c : Cfg) (t : Tree) (e : Nat) : AllFree (t.remove c e).2.2.2.2.1 := by
  rw [remove_eq]
  unfold finish
  split
  · exact allFree_append (preRoot_evs c _) (removeNode_evs c _ _ _)
  · exact allFree_append (preRoot_evs c _) (removeNode_evs c _ _ _)

/-! ### list decomposition -/
section ListFacts
variable {α : Type}

theorem getD_app (pre : List α) (x : α) (post : List α) (d : α) {i : Nat} (h : pre.length = i) :
    (pre ++ x :: post).getD i d = x := by
  subst h; simp

theorem getD_app1 (pre : List α) (x y : α) (post : List α) (d : α) {i : Nat} (h : pre.length = i) :
    (pre ++ x :: y :: post).getD (i + 1) d = y := by
  subst h; simp

theorem set_app (pre : List α) (x y : α) (post : List α) {i : Nat} (h : pre.length = i) :
    (pre ++ x :: post).set i y = pre ++ y :: post := by
  subst h; simp

theorem set_app1 (pre : List α) (x z y : α) (post : List α) {i : Nat} (h : pre.length = i) :
    (pre ++ x :: z :: post).set (i + 1) y = pre ++ x :: y :: post := by
  subst h; simp

theorem eraseIdx_app (pre : List α) (x : α) (post : List α) {i : Nat} (h : pre.length = i) :
    (pre ++ x :: post).eraseIdx i = pre ++ post := by
  subst h; induction pre with
  | nil => rfl
  | cons a pre ih => simp [List.eraseIdx_cons_succ, ih]

theorem eraseIdx_app1 (pre : List α) (x y : α) (post : List α) {i : Nat} (h : pre.length = i) :
    (pre ++ x :: y :: post).eraseIdx (i + 1) = pre ++ x :: post := by
  subst h; induction pre with
  | nil => rfl
  | cons a pre ih => simp [List.eraseIdx_cons_succ, ih]

theorem split1 (l : List α) (i : Nat) (h : i < l.length) :
    ∃ pre x post, l = pre ++ x :: post ∧ pre.length = i ∧ pre = l.take i ∧ post = l.drop (i + 1) := by
  refine ⟨l.take i, l[i], l.drop (i + 1), ?_, ?_, rfl, rfl⟩
  · simp
  · simp; omega

theorem split2 (l : List α) (i : Nat) (h : i + 1 < l.length) :
    ∃ pre x y post, l = pre ++ x :: y :: post ∧ pre.length = i := by
  refine ⟨l.take i, l[i], l[i+1], l.drop (i + 2), ?_, ?_⟩
  · simp
  · simp; omega
end ListFacts

/-! ### elems / interleave -/
@[simp] theorem elems_leaf (id vs) : (Node.leaf id vs).elems = vs := by simp [Node.elems]
@[simp] theorem elems_inode (id vs cs) : (Node.inode id vs cs).elems = interleave cs vs := by simp [Node.elems]
@[simp] theorem interleave_nil (vs) : interleave [] vs = [] := by simp [interleave]
@[simp] theorem interleave_cons_cons (c cs v vs) : interleave (c :: cs) (v :: vs) = c.elems ++ v :: interleave cs vs := by
  simp [interleave]
@[simp] theorem interleave_cons_nil (c cs) : interleave (c :: cs) [] = c.elems ++ interleave cs [] := by
  simp [interleave]

/-- `c0 ++ v0 :: c1 ++ v1 :: …` for as long as both lists last. -/
def pref : List Node → List Nat → List Nat
  | c :: cs, v :: vs => c.elems ++ v :: pref cs vs
  | _, _ => []

/-- what follows the elements of a child `ch` in `interleave (ch :: post) vpost` -/
def suff (post : List Node) (vpost : List Nat) : List Nat :=
  match vpost with
  | v :: vs => v :: interleave post vs
  | [] => interleave post []

theorem interleave_cons (ch post vpost) : interleave (ch :: post) vpost = ch.elems ++ suff post vpost := by
  cases vpost <;> simp [suff]

theorem interleave_append (pre : List Node) (vpre : List Nat) (cs vs) (h : pre.length = vpre.length) :
    interleave (pre ++ cs) (vpre ++ vs) = pref pre vpre ++ interleave cs vs := by
  induction pre generalizing vpre with
  | nil => cases vpre <;> simp_all [pref]
  | cons a pre ih =>
    cases vpre with
    | nil => simp at h
    | cons v vpre => simp at h; simp [pref, ih vpre h]

theorem interleave_merge (lc : List Node) (lv : List Nat) (v rc rv) (h : lc.length = lv.length + 1) :
    interleave (lc ++ rc) (lv ++ v :: rv) = interleave lc lv ++ v :: interleave rc rv := by
  induction lc generalizing lv with
  | nil => simp at h
  | cons a lc ih =>
    cases lv with
    | nil =>
      cases lc with
      | nil => simp
      | cons _ _ => simp at h
    | cons w lv => simp at h; simp [ih lv h]

theorem interleave_snoc (cs : List Node) (vs : List Nat) (v y) (h : cs.length = vs.length + 1) :
    interleave (cs ++ [y]) (vs ++ [v]) = interleave cs vs ++ v :: y.elems := by
  rw [interleave_merge _ _ _ _ _ h]; simp


/-! ### shape -/
theorem shape_leaf (c : Cfg) (r h id vs) :
    Shape c r h (.leaf id vs) ↔ (h = 1 ∧ vs.length ≤ c.leafMax ∧ (r = true ∨ c.leafMin ≤ vs.length)) := by
  rw [Shape.eq_1]
theorem shape_inode (c : Cfg) (r h id vs cs) :
    Shape c r h (.inode id vs cs) ↔ ∃ h', h = h' + 1 ∧ 1 ≤ vs.length ∧ vs.length ≤ c.inodeMax ∧
      (r = true ∨ c.inodeMin ≤ vs.length) ∧ cs.length = vs.length + 1 ∧ ShapeAll c h' cs := by
  rw [Shape.eq_2]

theorem shapeAll_iff (c : Cfg) (h : Nat) (cs : List Node) :
    ShapeAll c h cs ↔ ∀ x ∈ cs, Shape c false h x := by
  induction cs with
  | nil => simp [ShapeAll]
  | cons a cs ih => simp [ShapeAll, ih]

theorem shapeAll_append (c : Cfg) (h : Nat) (a b : List Node) :
    ShapeAll c h (a ++ b) ↔ ShapeAll c h a ∧ ShapeAll c h b := by
  simp only [shapeAll_iff, List.mem_append]
  constructor
  · intro H; exact ⟨fun x hx => H x (Or.inl hx), fun x hx => H x (Or.inr hx)⟩
  · rintro ⟨H1, H2⟩ x (hx | hx); exact H1 x hx; exact H2 x hx

theorem shapeAll_cons (c : Cfg) (h : Nat) (a : Node) (b : List Node) :
    ShapeAll c h (a :: b) ↔ Shape c false h a ∧ ShapeAll c h b := by
  rw [ShapeAll.eq_2]

theorem shapeAll_nil (c : Cfg) (h : Nat) : ShapeAll c h [] := by simp [ShapeAll]

theorem shape_pos {c : Cfg} {r h n} (H : Shape c r h n) : 1 ≤ h := by
  cases n with
  | leaf id vs => rw [shape_leaf] at H; omega
  | inode id vs cs => rw [shape_inode] at H; obtain ⟨h', rfl, _⟩ := H; omega

theorem shape_height {c : Cfg} : ∀ {h r n}, Shape c r h n → height n = h := by
  intro h
  induction h with
  | zero => intro r n H; have := shape_pos H; omega
  | succ h ih =>
    intro r n H
    cases n with
    | leaf id vs => rw [shape_leaf] at H; simp [height]; omega
    | inode id vs cs =>
      rw [shape_inode] at H
      obtain ⟨h', hh, _, _, _, hl, hs⟩ := H
      have : h' = h := by omega
      subst this
      cases cs with
      | nil => simp at hl
      | cons x xs =>
        rw [shapeAll_cons] at hs
        simp [height, ih hs.1]; omega

/-- weaken: a non-root-shaped node is root-shaped -/
theorem shape_root_of {c : Cfg} {r h n} (H : Shape c false h n) : Shape c r h n := by
  cases n with
  | leaf id vs => rw [shape_leaf] at *; simp_all
  | inode id vs cs => rw [shape_inode] at *; obtain ⟨h', a, b, d, e, f⟩ := H; exact ⟨h', a, b, d, by simp_all, f⟩

@[simp] theorem can_leaf (c : Cfg) (id vs) : c.canRemoveFrom (.leaf id vs) = true ↔ c.leafMin < vs.length := by
  simp [Cfg.canRemoveFrom, Cfg.minVals, Cfg.maxVals, Node.isLeaf, Node.nVals, Node.vals, Cfg.leafMin]
@[simp] theorem can_inode (c : Cfg) (id vs cs) : c.canRemoveFrom (.inode id vs cs) = true ↔ c.inodeMin < vs.length := by
  simp [Cfg.canRemoveFrom, Cfg.minVals, Cfg.maxVals, Node.isLeaf, Node.nVals, Node.vals, Cfg.inodeMin]

theorem leaf_fit {c : Cfg} (hc : c.Valid) : 2 * c.leafMin + 1 ≤ c.leafMax ∧ c.leafMin + 1 ≤ c.leafMax := by
  have := hc.inode3; have := hc.leaf; unfold Cfg.leafMin; omega
theorem inode_fit {c : Cfg} (hc : c.Valid) : 2 * c.inodeMin + 1 ≤ c.inodeMax ∧ 1 ≤ c.inodeMin ∧ c.inodeMin + 1 ≤ c.inodeMax := by
  have := hc.inode3; unfold Cfg.inodeMin; omega

/-- all children of one node are of the same kind -/
theorem shape_kind {c : Cfg} {r h n} (H : Shape c r h n) : n.isLeaf = true ↔ h = 1 := by
  cases n with
  | leaf id vs => rw [shape_leaf] at H; simp [Node.isLeaf, H.1]
  | inode id vs cs =>
    rw [shape_inode] at H
    obtain ⟨h', rfl, _, _, _, hl, hs⟩ := H
    cases cs with
    | nil => simp at hl
    | cons x xs =>
      rw [shapeAll_cons] at hs
      have := shape_pos hs.1
      simp [Node.isLeaf]; omega

/-! ### rotations and merge -/

theorem getElem?_app {α} (pre : List α) (x : α) (post : List α) {i : Nat} (h : pre.length = i) :
    (pre ++ x :: post)[i]? = some x := by
  subst h; simp
theorem getElem?_app1 {α} (pre : List α) (x y : α) (post : List α) {i : Nat} (h : pre.length = i) :
    (pre ++ x :: y :: post)[i + 1]? = some y := by
  subst h; simp

@[simp] theorem can_leaf_false (c : Cfg) (id vs) : c.canRemoveFrom (.leaf id vs) = false ↔ vs.length ≤ c.leafMin := by
  rw [← Bool.not_eq_true, can_leaf]; omega
@[simp] theorem can_inode_false (c : Cfg) (id vs cs) : c.canRemoveFrom (.inode id vs cs) = false ↔ vs.length ≤ c.inodeMin := by
  rw [← Bool.not_eq_true, can_inode]; omega

@[simp] theorem suff_cons (post v vs) : suff post (v :: vs) = v :: interleave post vs := rfl
@[simp] theorem suff_nil (post) : suff post [] = interleave post [] := rfl

structure Restr (c : Cfg) (h' : Nat) (vals : List Nat) (children : List Node) (src : Node)
    (vals' : List Nat) (children' : List Node) (i' : Nat) : Prop where
  len : children'.length = vals'.length + 1
  idx : i' ≤ vals'.length
  shape : ShapeAll c h' children'
  elems : interleave children' vals' = interleave children vals
  can : c.canRemoveFrom (children'.getD i' (.leaf 0 [])) = true
  sub : ∀ x ∈ src.elems, x ∈ (children'.getD i' (.leaf 0 [])).elems
  vle : vals'.length ≤ vals.length
  vge : vals.length ≤ vals'.length + 1

theorem kind_contra {c : Cfg} {h id vs id' vs' cs} (H1 : Shape c false h (.leaf id vs))
    (H2 : Shape c false h (.inode id' vs' cs)) : False := by
  have a := (shape_kind H1).1 rfl
  have b := (shape_kind H2).2 a
  simp [Node.isLeaf] at b

theorem rotateLeft_spec {c : Cfg} (hc : c.Valid) {h' vals children i}
    (hlen : children.length = vals.length + 1) (hi : i < vals.length)
    (hs : ShapeAll c h' children)
    (hdon : c.canRemoveFrom (children.getD (i + 1) (.leaf 0 [])) = true)
    (hrec : c.canRemoveFrom (children.getD i (.leaf 0 [])) = false) :
    Restr c h' vals children (children.getD i (.leaf 0 [])) (rotateLeft vals children i).1 (rotateLeft vals children i).2 i
    ∧ (rotateLeft vals children i).1.length = vals.length := by
  obtain ⟨pre, l, r, post, rfl, hpre⟩ := split2 children i (by omega)
  obtain ⟨vpre, v, vpost, rfl, hvpre, -, -⟩ := split1 vals i hi
  subst hpre
  rw [getD_app1 _ _ _ _ _ rfl] at hdon
  rw [getD_app _ _ _ _ rfl] at hrec ⊢
  simp only [shapeAll_append, shapeAll_cons] at hs
  obtain ⟨hs1, hl, hr, hs2⟩ := hs
  have hlf := leaf_fit hc
  have hif := inode_fit hc
  simp at hlen
  cases l with
  | leaf li lv =>
    cases r with
    | inode ri rv rc => exact (kind_contra hl hr).elim
    | leaf ri rv =>
      simp at hdon hrec
      rw [shape_leaf] at hl hr
      cases rv with
      | nil => simp at hdon
      | cons x rv =>
        have e : rotateLeft (vpre ++ v :: vpost) (pre ++ Node.leaf li lv :: Node.leaf ri (x :: rv) :: post) pre.length
            = (vpre ++ x :: vpost, pre ++ Node.leaf li (lv ++ [v]) :: Node.leaf ri rv :: post) := by
          simp [rotateLeft, getElem?_app _ _ _ hvpre, set_app _ _ _ _ hvpre]
        rw [e]
        refine ⟨⟨by simp; omega, by simp; omega, ?_, ?_, ?_, ?_, by simp, by simp⟩, by simp⟩
        · simp only [shapeAll_append, shapeAll_cons, shape_leaf]
          simp at hl hr hdon ⊢
          refine ⟨hs1, ?_, ?_, hs2⟩ <;> omega
        · rw [interleave_append _ _ _ _ hvpre.symm, interleave_append _ _ _ _ hvpre.symm]; simp [interleave_cons]
        · rw [getD_app _ _ _ _ rfl]; simp at hl hr hdon ⊢; omega
        · rw [getD_app _ _ _ _ rfl]; simp; intro x hx; exact Or.inl hx
  | inode li lv lc =>
    cases r with
    | leaf ri rv => exact (kind_contra hr hl).elim
    | inode ri rv rc =>
      simp at hdon hrec
      rw [shape_inode] at hl hr
      obtain ⟨hl', rfl, hl1, hl2, hl3, hl4, hl5⟩ := hl
      obtain ⟨hr', hh, hr1, hr2, hr3, hr4, hr5⟩ := hr
      have : hr' = hl' := by omega
      subst this
      cases rv with
      | nil => simp at hdon
      | cons x rv =>
        cases rc with
        | nil => simp at hr4
        | cons y rc =>
        have e : rotateLeft (vpre ++ v :: vpost) (pre ++ Node.inode li lv lc :: Node.inode ri (x :: rv) (y :: rc) :: post) pre.length
            = (vpre ++ x :: vpost, pre ++ Node.inode li (lv ++ [v]) (lc ++ [y]) :: Node.inode ri rv rc :: post) := by
          simp [rotateLeft, getElem?_app _ _ _ hvpre, set_app _ _ _ _ hvpre]
        rw [e]
        rw [shapeAll_cons] at hr5
        refine ⟨⟨by simp; omega, by simp; omega, ?_, ?_, ?_, ?_, by simp, by simp⟩, by simp⟩
        · simp only [shapeAll_append, shapeAll_cons, shape_inode]
          simp at hl3 hr3 hr4 hr2 hdon ⊢
          exact ⟨hs1, ⟨by omega, by omega, by omega, hl5, hr5.1, shapeAll_nil _ _⟩, ⟨by omega, by omega, by omega, by omega, hr5.2⟩, hs2⟩
        · rw [interleave_append _ _ _ _ hvpre.symm, interleave_append _ _ _ _ hvpre.symm]
          simp [interleave_cons, interleave_snoc _ _ _ _ hl4]
        · rw [getD_app _ _ _ _ rfl]; simp at hl3 hdon ⊢; omega
        · rw [getD_app _ _ _ _ rfl]; simp [interleave_snoc _ _ _ _ hl4]; intro x hx; exact Or.inl hx

theorem snoc_of_pos {α} (l : List α) (h : 0 < l.length) : ∃ l' x, l = l' ++ [x] := by
  rcases List.eq_nil_or_concat l with rfl | ⟨l', b, rfl⟩
  · simp at h
  · exact ⟨l', b, by simp⟩

theorem rotateRight_spec {c : Cfg} (hc : c.Valid) {h' vals children j}
    (hlen : children.length = vals.length + 1) (hi : j < vals.length)
    (hs : ShapeAll c h' children)
    (hdon : c.canRemoveFrom (children.getD j (.leaf 0 [])) = true)
    (hrec : c.canRemoveFrom (children.getD (j + 1) (.leaf 0 [])) = false) :
    Restr c h' vals children (children.getD (j + 1) (.leaf 0 [])) (rotateRight vals children (j + 1)).1
      (rotateRight vals children (j + 1)).2 (j + 1)
    ∧ (rotateRight vals children (j + 1)).1.length = vals.length := by
  obtain ⟨pre, l, r, post, rfl, hpre⟩ := split2 children j (by omega)
  obtain ⟨vpre, v, vpost, rfl, hvpre, -, -⟩ := split1 vals j hi
  subst hpre
  rw [getD_app1 _ _ _ _ _ rfl] at hrec ⊢
  rw [getD_app _ _ _ _ rfl] at hdon
  simp only [shapeAll_append, shapeAll_cons] at hs
  obtain ⟨hs1, hl, hr, hs2⟩ := hs
  have hlf := leaf_fit hc
  have hif := inode_fit hc
  simp at hlen
  cases l with
  | leaf li lv =>
    cases r with
    | inode ri rv rc => exact (kind_contra hl hr).elim
    | leaf ri rv =>
      simp at hdon hrec
      rw [shape_leaf] at hl hr
      obtain ⟨lv, x, rfl⟩ := snoc_of_pos lv (by omega)
      have e : rotateRight (vpre ++ v :: vpost) (pre ++ Node.leaf li (lv ++ [x]) :: Node.leaf ri rv :: post) (pre.length + 1)
          = (vpre ++ x :: vpost, pre ++ Node.leaf li lv :: Node.leaf ri (v :: rv) :: post) := by
        simp [rotateRight, getElem?_app _ _ _ hvpre, set_app _ _ _ _ hvpre]
      rw [e]
      refine ⟨⟨by simp; omega, by simp; omega, ?_, ?_, ?_, ?_, by simp, by simp⟩, by simp⟩
      · simp only [shapeAll_append, shapeAll_cons, shape_leaf]
        simp at hl hr hdon ⊢
        refine ⟨hs1, ?_, ?_, hs2⟩ <;> omega
      · rw [interleave_append _ _ _ _ hvpre.symm, interleave_append _ _ _ _ hvpre.symm]; simp [interleave_cons]
      · rw [getD_app1 _ _ _ _ _ rfl]; simp at hl hr hdon ⊢; omega
      · rw [getD_app1 _ _ _ _ _ rfl]; simp; intro x hx; exact Or.inr hx
  | inode li lv lc =>
    cases r with
    | leaf ri rv => exact (kind_contra hr hl).elim
    | inode ri rv rc =>
      simp at hdon hrec
      rw [shape_inode] at hl hr
      obtain ⟨hl', rfl, hl1, hl2, hl3, hl4, hl5⟩ := hl
      obtain ⟨hr', hh, hr1, hr2, hr3, hr4, hr5⟩ := hr
      have : hr' = hl' := by omega
      subst this
      obtain ⟨lv, x, rfl⟩ := snoc_of_pos lv (by omega)
      obtain ⟨lc, y, rfl⟩ := snoc_of_pos lc (by omega)
      have e : rotateRight (vpre ++ v :: vpost) (pre ++ Node.inode li (lv ++ [x]) (lc ++ [y]) :: Node.inode ri rv rc :: post) (pre.length + 1)
          = (vpre ++ x :: vpost, pre ++ Node.inode li lv lc :: Node.inode ri (v :: rv) (y :: rc) :: post) := by
        simp [rotateRight, getElem?_app _ _ _ hvpre, set_app _ _ _ _ hvpre]
      rw [e]
      simp only [shapeAll_append, shapeAll_cons] at hl5
      simp at hl4
      refine ⟨⟨by simp; omega, by simp; omega, ?_, ?_, ?_, ?_, by simp, by simp⟩, by simp⟩
      · simp only [shapeAll_append, shapeAll_cons, shape_inode]
        simp at hl3 hl1 hl2 hr3 hr4 hr2 hdon ⊢
        exact ⟨hs1, ⟨by omega, by omega, by omega, by omega, hl5.1⟩, ⟨by omega, by omega, by omega, hl5.2.1, hr5⟩, hs2⟩
      · rw [interleave_append _ _ _ _ hvpre.symm, interleave_append _ _ _ _ hvpre.symm]
        simp [interleave_cons, interleave_snoc _ _ _ _ hl4]
      · rw [getD_app1 _ _ _ _ _ rfl]; simp at hr3 hdon ⊢; omega
      · rw [getD_app1 _ _ _ _ _ rfl]; simp; intro x hx; exact Or.inr (Or.inr hx)

theorem mergeAt_spec {c : Cfg} (hc : c.Valid) {h' vals children i}
    (hlen : children.length = vals.length + 1) (hi : i < vals.length)
    (hs : ShapeAll c h' children)
    (hl0 : c.canRemoveFrom (children.getD i (.leaf 0 [])) = false)
    (hr0 : c.canRemoveFrom (children.getD (i + 1) (.leaf 0 [])) = false) :
    (∀ src, (src = children.getD i (.leaf 0 []) ∨ src = children.getD (i + 1) (.leaf 0 [])) →
      Restr c h' vals children src (mergeAt vals children i).1 (mergeAt vals children i).2.1 i)
    ∧ (mergeAt vals children i).1.length + 1 = vals.length
    ∧ (∀ x, x = vals.getD i 0 → x ∈ ((mergeAt vals children i).2.1.getD i (.leaf 0 [])).elems) := by
  obtain ⟨pre, l, r, post, rfl, hpre⟩ := split2 children i (by omega)
  obtain ⟨vpre, v, vpost, rfl, hvpre, -, -⟩ := split1 vals i hi
  subst hpre
  rw [getD_app1 _ _ _ _ _ rfl] at hr0 ⊢
  rw [getD_app _ _ _ _ rfl] at hl0 ⊢
  simp only [shapeAll_append, shapeAll_cons] at hs
  obtain ⟨hs1, hl, hr, hs2⟩ := hs
  have hlf := leaf_fit hc
  have hif := inode_fit hc
  simp at hlen
  cases l with
  | leaf li lv =>
    cases r with
    | inode ri rv rc => exact (kind_contra hl hr).elim
    | leaf ri rv =>
      simp at hl0 hr0
      rw [shape_leaf] at hl hr
      have e : mergeAt (vpre ++ v :: vpost) (pre ++ Node.leaf li lv :: Node.leaf ri rv :: post) pre.length
          = (vpre ++ vpost, pre ++ Node.leaf li (lv ++ v :: rv) :: post, ri) := by
        simp [mergeAt, getElem?_app _ _ _ hvpre, set_app _ _ _ _ rfl, eraseIdx_app _ _ _ hvpre, eraseIdx_app1 _ _ _ _ rfl, Node.id]
      rw [e]
      refine ⟨fun src hsrc => ⟨by simp; omega, by simp; omega, ?_, ?_, ?_, ?_, by simp, by simp; omega⟩, by simp; omega, ?_⟩
      · simp only [shapeAll_append, shapeAll_cons, shape_leaf]
        simp at hl hr ⊢
        refine ⟨hs1, ?_, hs2⟩; omega
      · rw [interleave_append _ _ _ _ hvpre.symm, interleave_append _ _ _ _ hvpre.symm]; simp [interleave_cons]
      · rw [getD_app _ _ _ _ rfl]; simp at hl hr ⊢; omega
      · rw [getD_app _ _ _ _ rfl]; rcases hsrc with rfl | rfl <;> simp <;> intro x hx
        · exact Or.inl hx
        · exact Or.inr (Or.inr hx)
      · rw [getD_app _ _ _ _ rfl]; simp [getElem?_app _ _ _ hvpre]
  | inode li lv lc =>
    cases r with
    | leaf ri rv => exact (kind_contra hr hl).elim
    | inode ri rv rc =>
      simp at hl0 hr0
      rw [shape_inode] at hl hr
      obtain ⟨hl', rfl, hl1, hl2, hl3, hl4, hl5⟩ := hl
      obtain ⟨hr', hh, hr1, hr2, hr3, hr4, hr5⟩ := hr
      have : hr' = hl' := by omega
      subst this
      have e : mergeAt (vpre ++ v :: vpost) (pre ++ Node.inode li lv lc :: Node.inode ri rv rc :: post) pre.length
          = (vpre ++ vpost, pre ++ Node.inode li (lv ++ v :: rv) (lc ++ rc) :: post, ri) := by
        simp [mergeAt, getElem?_app _ _ _ hvpre, set_app _ _ _ _ rfl, eraseIdx_app _ _ _ hvpre, eraseIdx_app1 _ _ _ _ rfl, Node.id]
      rw [e]
      refine ⟨fun src hsrc => ⟨by simp; omega, by simp; omega, ?_, ?_, ?_, ?_, by simp, by simp; omega⟩, by simp; omega, ?_⟩
      · simp only [shapeAll_append, shapeAll_cons, shape_inode]
        simp at hl3 hr3 ⊢
        exact ⟨hs1, ⟨by omega, by omega, by omega, by omega, hl5, hr5⟩, hs2⟩
      · rw [interleave_append _ _ _ _ hvpre.symm, interleave_append _ _ _ _ hvpre.symm]
        simp [interleave_cons, interleave_merge _ _ _ _ _ hl4]
      · rw [getD_app _ _ _ _ rfl]; simp at hl3 hr3 ⊢; omega
      · rw [getD_app _ _ _ _ rfl]; rcases hsrc with rfl | rfl <;> simp [interleave_merge _ _ _ _ _ hl4] <;> intro x hx
        · exact Or.inl hx
        · exact Or.inr (Or.inr hx)
      · rw [getD_app _ _ _ _ rfl]; simp [getElem?_app _ _ _ hvpre, interleave_merge _ _ _ _ _ hl4]


/-! ### descent, fatten, removeMin / removeMax -/

theorem interleave_set {cs : List Node} {vs : List Nat} {i : Nat} (x : Node)
    (hi : i ≤ vs.length) (hlen : cs.length = vs.length + 1) :
    interleave (cs.set i x) vs = pref (cs.take i) (vs.take i) ++ x.elems ++ suff (cs.drop (i + 1)) (vs.drop i) := by
  obtain ⟨pre, y, post, e, hpre, rfl, rfl⟩ := split1 cs i (by omega)
  conv => lhs; rw [e, set_app _ _ _ _ hpre, ← List.take_append_drop i vs]
  rw [interleave_append _ _ _ _ (by simp; omega), interleave_cons]
  simp

theorem interleave_at {cs : List Node} {vs : List Nat} {i : Nat}
    (hi : i ≤ vs.length) (hlen : cs.length = vs.length + 1) :
    interleave cs vs = pref (cs.take i) (vs.take i) ++ (cs.getD i (.leaf 0 [])).elems ++ suff (cs.drop (i + 1)) (vs.drop i) := by
  rw [← interleave_set _ hi hlen]
  congr 1
  simp [List.getD_eq_getElem?_getD, List.getElem?_eq_getElem (show i < cs.length by omega)]

theorem shapeAll_set {c : Cfg} {h cs i x} (hs : ShapeAll c h cs) (hx : Shape c false h x) :
    ShapeAll c h (cs.set i x) := by
  rw [shapeAll_iff] at *
  intro y hy
  rcases List.mem_or_eq_of_mem_set hy with h1 | rfl
  · exact hs y h1
  · exact hx

theorem shapeAll_getD {c : Cfg} {h cs i} (hs : ShapeAll c h cs) (hi : i < cs.length) :
    Shape c false h (cs.getD i (.leaf 0 [])) := by
  rw [shapeAll_iff] at hs
  apply hs
  simp [List.getD_eq_getElem?_getD, List.getElem?_eq_getElem hi]

theorem fattenChild_spec {c : Cfg} (hc : c.Valid) {h' vals children i}
    (hlen : children.length = vals.length + 1) (hi : i ≤ vals.length) (hv : 1 ≤ vals.length)
    (hs : ShapeAll c h' children)
    (hrec : c.canRemoveFrom (children.getD i (.leaf 0 [])) = false)
    (hne : 2 ≤ vals.length ∨ c.canRemoveFrom (children.getD 0 (.leaf 0 [])) = true ∨
      c.canRemoveFrom (children.getD 1 (.leaf 0 [])) = true) :
    Restr c h' vals children (children.getD i (.leaf 0 [])) (fattenChild c vals children i).1
      (fattenChild c vals children i).2.1 (fattenChild c vals children i).2.2.1
    ∧ 1 ≤ (fattenChild c vals children i).1.length := by
  unfold fattenChild
  split
  · rename_i h1
    obtain ⟨j, rfl⟩ : ∃ j, i = j + 1 := ⟨i - 1, by omega⟩
    simp only [Nat.add_sub_cancel] at h1
    have := rotateRight_spec hc hlen (by omega) hs h1.2 hrec
    exact ⟨this.1, by rw [this.2]; exact hv⟩
  · rename_i h1
    split
    · rename_i h2
      have := rotateLeft_spec hc hlen h2.1 hs h2.2 hrec
      exact ⟨this.1, by rw [this.2]; exact hv⟩
    · rename_i h2
      split
      · rename_i h3
        obtain ⟨j, rfl⟩ : ∃ j, i = j + 1 := ⟨i - 1, by omega⟩
        simp only [Nat.add_sub_cancel] at h1 ⊢
        have hj : c.canRemoveFrom (children.getD j (.leaf 0 [])) = false := by
          cases hh : c.canRemoveFrom (children.getD j (.leaf 0 [])) with
          | false => rfl
          | true => exact (h1 ⟨by omega, hh⟩).elim
        have := mergeAt_spec hc hlen (by omega) hs hj hrec
        refine ⟨this.1 _ (Or.inr rfl), ?_⟩
        have h4 := this.2.1
        show 1 ≤ (mergeAt vals children j).1.length
        by_cases h6 : 2 ≤ vals.length
        · omega
        rcases hne with h5 | h5 | h5
        · omega
        · have : j = 0 := by omega
          subst this; rw [hj] at h5; cases h5
        · have : j = 0 := by omega
          subst this; rw [hrec] at h5; cases h5
      · rename_i h3
        have hj : c.canRemoveFrom (children.getD (i + 1) (.leaf 0 [])) = false := by
          cases hh : c.canRemoveFrom (children.getD (i + 1) (.leaf 0 [])) with
          | false => rfl
          | true => exact (h2 ⟨by omega, hh⟩).elim
        have := mergeAt_spec hc hlen (by omega) hs hrec hj
        refine ⟨this.1 _ (Or.inl rfl), ?_⟩
        have h4 := this.2.1
        show 1 ≤ (mergeAt vals children i).1.length
        by_cases h6 : 2 ≤ vals.length
        · omega
        rcases hne with h5 | h5 | h5
        · omega
        · have : i = 0 := by omega
          subst this; rw [hrec] at h5; cases h5
        · have : i = 0 := by omega
          subst this; rw [hj] at h5; cases h5


def minStep (c : Cfg) (fuel id : Nat) (vals' : List Nat) (children' : List Node) (evs : List Ev) : Node × Nat × List Ev :=
  (.inode id vals' (children'.set 0 (removeMin c fuel (children'.getD 0 (.leaf 0 []))).1),
    (removeMin c fuel (children'.getD 0 (.leaf 0 []))).2.1, evs ++ (removeMin c fuel (children'.getD 0 (.leaf 0 []))).2.2)

theorem removeMin_inode (c : Cfg) (fuel id vals children) :
    removeMin c (fuel + 1) (.inode id vals children) =
      if c.canRemoveFrom (children.getD 0 (.leaf 0 [])) = true then minStep c fuel id vals children []
      else if c.canRemoveFrom (children.getD 1 (.leaf 0 [])) = true then
        minStep c fuel id (rotateLeft vals children 0).1 (rotateLeft vals children 0).2 []
      else minStep c fuel id (mergeAt vals children 0).1 (mergeAt vals children 0).2.1 [.free (mergeAt vals children 0).2.2] := by
  rfl

def maxStep (c : Cfg) (fuel id : Nat) (vals' : List Nat) (children' : List Node) (z : Nat) (evs : List Ev) : Node × Nat × List Ev :=
  (.inode id vals' (children'.set z (removeMax c fuel (children'.getD z (.leaf 0 []))).1),
    (removeMax c fuel (children'.getD z (.leaf 0 []))).2.1, evs ++ (removeMax c fuel (children'.getD z (.leaf 0 []))).2.2)

theorem removeMax_inode (c : Cfg) (fuel id vals children) :
    removeMax c (fuel + 1) (.inode id vals children) =
      if c.canRemoveFrom (children.getD vals.length (.leaf 0 [])) = true then maxStep c fuel id vals children vals.length []
      else if c.canRemoveFrom (children.getD (vals.length - 1) (.leaf 0 [])) = true then
        maxStep c fuel id (rotateRight vals children vals.length).1 (rotateRight vals children vals.length).2 vals.length []
      else maxStep c fuel id (mergeAt vals children (vals.length - 1)).1 (mergeAt vals children (vals.length - 1)).2.1
        (vals.length - 1) [.free (mergeAt vals children (vals.length - 1)).2.2] := by
  rfl
theorem bool_false_of_not {b : Bool} (h : ¬ b = true) : b = false := by cases b <;> simp_all

theorem removeMin_spec {c : Cfg} (hc : c.Valid) : ∀ fuel h n, Shape c false h n → h ≤ fuel →
    c.canRemoveFrom n = true →
    Shape c false h (removeMin c fuel n).1 ∧ n.elems = (removeMin c fuel n).2.1 :: (removeMin c fuel n).1.elems := by
  intro fuel
  induction fuel with
  | zero => intro h n H hf; have := shape_pos H; omega
  | succ fuel ih =>
    intro h n H hf hcan
    cases n with
    | leaf id vs =>
      rw [shape_leaf] at H
      simp at hcan
      cases vs with
      | nil => simp at hcan
      | cons x vs =>
        simp [removeMin, shape_leaf] at H hcan ⊢
        omega
    | inode id vals children =>
      rw [shape_inode] at H
      obtain ⟨h', rfl, h1, h2, h3, h4, h5⟩ := H
      simp at hcan h3
      have hif := inode_fit hc
      have key : ∀ vals' children' evs, children'.length = vals'.length + 1 → ShapeAll c h' children' →
          c.canRemoveFrom (children'.getD 0 (.leaf 0 [])) = true → c.inodeMin ≤ vals'.length →
          vals'.length ≤ c.inodeMax →
          Shape c false (h' + 1) (minStep c fuel id vals' children' evs).1 ∧
          interleave children' vals' = (minStep c fuel id vals' children' evs).2.1 :: (minStep c fuel id vals' children' evs).1.elems := by
        intro vals' children' evs k1 k2 k3 k4 k5
        have := ih h' _ (shapeAll_getD k2 (by omega)) (by omega) k3
        refine ⟨?_, ?_⟩
        · simp only [minStep, shape_inode]
          exact ⟨h', rfl, by omega, k5, Or.inr k4, by simp [k1], shapeAll_set k2 this.1⟩
        · simp only [minStep, elems_inode]
          rw [interleave_at (i := 0) (by omega) k1, interleave_set (i := 0) _ (by omega) k1, this.2]
          simp [pref]
      rw [removeMin_inode]
      split
      · rename_i g1
        exact key vals children [] h4 h5 g1 (by omega) h2
      · rename_i g1
        split
        · rename_i g2
          have R := rotateLeft_spec hc h4 (by omega) h5 g2 (bool_false_of_not g1)
          have := key _ _ [] R.1.len R.1.shape R.1.can (by rw [R.2]; omega) (by rw [R.2]; omega)
          rw [R.1.elems] at this
          exact this
        · rename_i g2
          have R := mergeAt_spec hc h4 (by omega) h5 (bool_false_of_not g1) (bool_false_of_not g2)
          have R1 := R.1 _ (Or.inl rfl)
          have := key _ _ [.free (mergeAt vals children 0).2.2] R1.len R1.shape R1.can (by omega) (by omega)
          rw [R1.elems] at this
          exact this

theorem removeMax_spec {c : Cfg} (hc : c.Valid) : ∀ fuel h n, Shape c false h n → h ≤ fuel →
    c.canRemoveFrom n = true →
    Shape c false h (removeMax c fuel n).1 ∧ n.elems = (removeMax c fuel n).1.elems ++ [(removeMax c fuel n).2.1] := by
  intro fuel
  induction fuel with
  | zero => intro h n H hf; have := shape_pos H; omega
  | succ fuel ih =>
    intro h n H hf hcan
    cases n with
    | leaf id vs =>
      rw [shape_leaf] at H
      simp at hcan
      obtain ⟨vs, x, rfl⟩ := snoc_of_pos vs (by omega)
      simp [removeMax, shape_leaf] at H hcan ⊢
      omega
    | inode id vals children =>
      rw [shape_inode] at H
      obtain ⟨h', rfl, h1, h2, h3, h4, h5⟩ := H
      simp at hcan h3
      have hif := inode_fit hc
      have key : ∀ vals' children' z evs, children'.length = vals'.length + 1 → ShapeAll c h' children' →
          z = vals'.length →
          c.canRemoveFrom (children'.getD z (.leaf 0 [])) = true → c.inodeMin ≤ vals'.length →
          vals'.length ≤ c.inodeMax →
          Shape c false (h' + 1) (maxStep c fuel id vals' children' z evs).1 ∧
          interleave children' vals' = (maxStep c fuel id vals' children' z evs).1.elems ++ [(maxStep c fuel id vals' children' z evs).2.1] := by
        intro vals' children' z evs k1 k2 kz k3 k4 k5
        subst kz
        have := ih h' _ (shapeAll_getD k2 (by omega)) (by omega) k3
        refine ⟨?_, ?_⟩
        · simp only [maxStep, shape_inode]
          exact ⟨h', rfl, by omega, k5, Or.inr k4, by simp [k1], shapeAll_set k2 this.1⟩
        · simp only [maxStep, elems_inode]
          rw [interleave_at (i := vals'.length) (by omega) k1, interleave_set (i := vals'.length) _ (by omega) k1, this.2]
          simp [← k1]
      rw [removeMax_inode]
      split
      · rename_i g1
        exact key vals children _ [] h4 h5 rfl g1 (by omega) h2
      · rename_i g1
        obtain ⟨j, hj⟩ : ∃ j, vals.length = j + 1 := ⟨vals.length - 1, by omega⟩
        rw [hj] at g1 ⊢
        simp only [Nat.add_sub_cancel] at g1 ⊢
        split
        · rename_i g2
          have R := rotateRight_spec hc h4 (by omega) h5 g2 (bool_false_of_not g1)
          have := key _ _ (j + 1) [] R.1.len R.1.shape (by rw [R.2]; omega) R.1.can (by rw [R.2]; omega) (by rw [R.2]; omega)
          rw [R.1.elems] at this
          exact this
        · rename_i g2
          have R := mergeAt_spec hc h4 (by omega) h5 (bool_false_of_not g2) (bool_false_of_not g1)
          have R1 := R.1 _ (Or.inl rfl)
          have := key _ _ j [.free (mergeAt vals children j).2.2] R1.len R1.shape (by omega) R1.can (by omega) (by omega)
          rw [R1.elems] at this
          exact this


/-! ### local search -/

theorem findValue_spec (vals : List Nat) (e : Nat)
    (hs : ∀ a b, a < b → b < vals.length → vals.getD a 0 < vals.getD b 0) :
    ∀ fuel first count cmps, count < fuel → first + count ≤ vals.length →
      (∀ j, j < first → vals.getD j 0 < e) →
      (∀ j, first + count ≤ j → j < vals.length → e < vals.getD j 0) →
      ((findValue vals e first count cmps fuel).2.1 = true →
        (findValue vals e first count cmps fuel).1 < vals.length ∧
        vals.getD (findValue vals e first count cmps fuel).1 0 = e) ∧
      ((findValue vals e first count cmps fuel).2.1 = false →
        (findValue vals e first count cmps fuel).1 ≤ vals.length ∧
        (∀ j, j < (findValue vals e first count cmps fuel).1 → vals.getD j 0 < e) ∧
        (∀ j, (findValue vals e first count cmps fuel).1 ≤ j → j < vals.length → e < vals.getD j 0)) := by
  intro fuel
  induction fuel with
  | zero => intro first count cmps h; omega
  | succ fuel ih =>
    intro first count cmps hf hb hlo hhi
    unfold findValue
    split
    · rename_i h0
      subst h0
      simp
      exact ⟨by omega, hlo, fun j hj => hhi j (by omega)⟩
    · rename_i h0
      simp only []
      split
      · rename_i h1
        simp
        exact ⟨by omega, h1⟩
      · rename_i h1
        split
        · rename_i h2
          apply ih _ _ _ (by omega) (by omega)
          · intro j hj
            by_cases hji : j = first + count / 2
            · subst hji; exact h2
            · have := hs j (first + count / 2) (by omega) (by omega)
              omega
          · intro j hj; exact hhi j (by omega)
        · rename_i h2
          apply ih _ _ _ (by omega) (by omega) hlo
          intro j hj hjl
          by_cases hji : j = first + count / 2
          · subst hji; omega
          · have := hs (first + count / 2) j (by omega) hjl
            omega

theorem sorted_getD {vals : List Nat} (h : vals.Pairwise (· < ·)) :
    ∀ a b, a < b → b < vals.length → vals.getD a 0 < vals.getD b 0 := by
  intro a b hab hb
  rw [List.pairwise_iff_getElem] at h
  have := h a b (by omega) hb hab
  simpa [List.getD_eq_getElem?_getD, List.getElem?_eq_getElem hb, List.getElem?_eq_getElem (show a < vals.length by omega)] using this

/-- result of the local search in a node whose values are strictly sorted -/
theorem nodeFind_spec (n : Node) (e : Nat) (h : n.vals.Pairwise (· < ·)) :
    ((nodeFind n e).2.1 = true → (nodeFind n e).1 < n.vals.length ∧ n.vals.getD (nodeFind n e).1 0 = e) ∧
    ((nodeFind n e).2.1 = false → (nodeFind n e).1 ≤ n.vals.length ∧
      (∀ v ∈ n.vals.take (nodeFind n e).1, v < e) ∧ (∀ v ∈ n.vals.drop (nodeFind n e).1, e < v)) := by
  unfold nodeFind
  have := findValue_spec n.vals e (sorted_getD h) (n.nVals + 1) 0 n.nVals 0 (by omega) (by simp [Node.nVals])
    (by intro j hj; omega) (by intro j hj hj2; simp [Node.nVals] at hj; omega)
  refine ⟨this.1, fun hf => ?_⟩
  obtain ⟨a, b, d⟩ := this.2 hf
  refine ⟨a, ?_, ?_⟩
  · intro v hv
    obtain ⟨j, hj, rfl⟩ := List.mem_iff_getElem.1 hv
    have hj' := hj
    rw [List.length_take] at hj'
    have := b j (by omega)
    simpa [List.getD_eq_getElem?_getD, List.getElem?_eq_getElem (show j < n.vals.length by omega)] using this
  · intro v hv
    obtain ⟨j, hj, rfl⟩ := List.mem_iff_getElem.1 hv
    have hj' := hj
    rw [List.length_drop] at hj'
    generalize (findValue n.vals e 0 n.nVals 0 (n.nVals + 1)).1 = i at *
    have := d (i + j) (by omega) (by omega)
    simpa [List.getD_eq_getElem?_getD, List.getElem?_eq_getElem (show i + j < n.vals.length by omega)] using this


/-! ### removeNode -/

theorem vals_sublist : ∀ (cs : List Node) (vs : List Nat), vs.length ≤ cs.length → vs.Sublist (interleave cs vs) := by
  intro cs
  induction cs with
  | nil => intro vs h; cases vs <;> simp_all
  | cons c cs ih =>
    intro vs h
    cases vs with
    | nil => simp
    | cons v vs =>
      simp at h
      simp only [interleave_cons_cons]
      exact List.Sublist.trans (List.Sublist.cons_cons v (ih vs h)) (List.sublist_append_right _ _)

theorem pref_le : ∀ (cs : List Node) (vs : List Nat), (pref cs vs).Pairwise (· < ·) →
    ∀ x ∈ pref cs vs, ∃ v ∈ vs, x ≤ v := by
  intro cs
  induction cs with
  | nil => intro vs _ x hx; simp [pref] at hx
  | cons c cs ih =>
    intro vs hp x hx
    cases vs with
    | nil => simp [pref] at hx
    | cons v vs =>
      simp only [pref] at hp hx
      rw [List.pairwise_append] at hp
      rcases List.mem_append.1 hx with h1 | h1
      · exact ⟨v, by simp, Nat.le_of_lt (hp.2.2 x h1 v (by simp))⟩
      · rcases List.mem_cons.1 h1 with rfl | h2
        · exact ⟨x, by simp, Nat.le_refl _⟩
        · obtain ⟨w, hw, hxw⟩ := ih vs (List.pairwise_cons.1 hp.2.1).2 x h2
          exact ⟨w, by simp [hw], hxw⟩

theorem suff_ge : ∀ (cs : List Node) (vs : List Nat), cs.length = vs.length → (suff cs vs).Pairwise (· < ·) →
    ∀ x ∈ suff cs vs, ∃ v ∈ vs, v ≤ x := by
  intro cs
  induction cs with
  | nil => intro vs h; cases vs <;> simp_all
  | cons c cs ih =>
    intro vs h hp x hx
    cases vs with
    | nil => simp at h
    | cons v vs =>
      simp at h
      simp only [suff_cons, interleave_cons] at hp hx
      rw [List.pairwise_cons] at hp
      rcases List.mem_cons.1 hx with rfl | h1
      · exact ⟨x, by simp, Nat.le_refl _⟩
      · rcases List.mem_append.1 h1 with h2 | h2
        · exact ⟨v, by simp, Nat.le_of_lt (hp.1 x h1)⟩
        · obtain ⟨w, hw, hxw⟩ := ih vs h (List.pairwise_append.1 hp.2).2.1 x h2
          exact ⟨w, by simp [hw], hxw⟩

theorem nodup_of_sorted {l : List Nat} (h : l.Pairwise (· < ·)) : l.Nodup :=
  List.Pairwise.imp (fun hab => Nat.ne_of_lt hab) h

theorem erase_mid (A M B : List Nat) (e : Nat) (hnd : (A ++ M ++ B).Nodup) (h : e ∈ A ++ M ++ B → e ∈ M) :
    (A ++ M ++ B).erase e = A ++ M.erase e ++ B := by
  by_cases hm : e ∈ M
  · have hA : e ∉ A := by
      intro ha
      rw [List.append_assoc, List.nodup_append] at hnd
      exact hnd.2.2 e ha e (by simp [hm]) rfl
    rw [List.append_assoc, List.erase_append_right _ hA, List.erase_append_left _ hm, List.append_assoc]
  · have : e ∉ A ++ M ++ B := fun h' => hm (h h')
    rw [List.erase_of_not_mem this, List.erase_of_not_mem hm]

/-- an element absent from the node's own values can only be in child `i` -/
theorem only_child {cs : List Node} {vs : List Nat} {i e : Nat} (hlen : cs.length = vs.length + 1)
    (hi : i ≤ vs.length) (hp : (interleave cs vs).Pairwise (· < ·))
    (hlo : ∀ v ∈ vs.take i, v < e) (hhi : ∀ v ∈ vs.drop i, e < v) :
    e ∈ interleave cs vs → e ∈ (cs.getD i (.leaf 0 [])).elems := by
  rw [interleave_at hi hlen] at hp ⊢
  intro he
  rw [List.pairwise_append, List.pairwise_append] at hp
  rcases List.mem_append.1 he with h1 | h1
  · rcases List.mem_append.1 h1 with h2 | h2
    · obtain ⟨v, hv, hev⟩ := pref_le _ _ hp.1.1 e h2
      have := hlo v hv; omega
    · exact h2
  · obtain ⟨v, hv, hev⟩ := suff_ge _ _ (by simp; omega) hp.2.1 e h1
    have := hhi v hv; omega

def descStep (c : Cfg) (fuel id : Nat) (vals' : List Nat) (children' : List Node) (i' : Nat) (evs : List Ev)
    (k e : Nat) : RemOut :=
  ⟨.inode id vals' (children'.set i' (removeNode c fuel (children'.getD i' (.leaf 0 [])) e).node),
    (removeNode c fuel (children'.getD i' (.leaf 0 [])) e).out,
    i' :: (removeNode c fuel (children'.getD i' (.leaf 0 [])) e).path,
    (removeNode c fuel (children'.getD i' (.leaf 0 [])) e).incr,
    evs ++ (removeNode c fuel (children'.getD i' (.leaf 0 [])) e).evs,
    k + (removeNode c fuel (children'.getD i' (.leaf 0 [])) e).cmps⟩

theorem removeNode_inode (c : Cfg) (fuel id vals children e) :
    removeNode c (fuel + 1) (.inode id vals children) e =
      if (nodeFind (.inode id vals children) e).2.1 = true then
        match replaceValue c fuel id vals children (nodeFind (.inode id vals children) e).1 with
        | some (n', out, fl, ev) => ⟨n', some out, [(nodeFind (.inode id vals children) e).1], fl, ev,
            (nodeFind (.inode id vals children) e).2.2⟩
        | none => descStep c fuel id (mergeAt vals children (nodeFind (.inode id vals children) e).1).1
            (mergeAt vals children (nodeFind (.inode id vals children) e).1).2.1
            (nodeFind (.inode id vals children) e).1
            [.free (mergeAt vals children (nodeFind (.inode id vals children) e).1).2.2]
            (nodeFind (.inode id vals children) e).2.2 e
      else if c.canRemoveFrom (children.getD (nodeFind (.inode id vals children) e).1 (.leaf 0 [])) = true then
        descStep c fuel id vals children (nodeFind (.inode id vals children) e).1 []
          (nodeFind (.inode id vals children) e).2.2 e
      else
        descStep c fuel id (fattenChild c vals children (nodeFind (.inode id vals children) e).1).1
          (fattenChild c vals children (nodeFind (.inode id vals children) e).1).2.1
          (fattenChild c vals children (nodeFind (.inode id vals children) e).1).2.2.1
          (fattenChild c vals children (nodeFind (.inode id vals children) e).1).2.2.2
          (nodeFind (.inode id vals children) e).2.2 e := by
  simp only [removeNode, descStep]
  split <;> rfl

theorem removeNode_leaf (c : Cfg) (fuel id vals e) :
    removeNode c (fuel + 1) (.leaf id vals) e =
      if (!(nodeFind (.leaf id vals) e).2.1) = true then ⟨.leaf id vals, none, [], false, [], (nodeFind (.leaf id vals) e).2.2⟩
      else if (nodeFind (.leaf id vals) e).1 = (vals.eraseIdx (nodeFind (.leaf id vals) e).1).length ∧
          (vals.eraseIdx (nodeFind (.leaf id vals) e).1).length > 0 then
        ⟨.leaf id (vals.eraseIdx (nodeFind (.leaf id vals) e).1), some (vals.getD (nodeFind (.leaf id vals) e).1 0),
          [(nodeFind (.leaf id vals) e).1 - 1], true, [], (nodeFind (.leaf id vals) e).2.2⟩
      else
        ⟨.leaf id (vals.eraseIdx (nodeFind (.leaf id vals) e).1), some (vals.getD (nodeFind (.leaf id vals) e).1 0),
          [(nodeFind (.leaf id vals) e).1], false, [], (nodeFind (.leaf id vals) e).2.2⟩ := by
  rfl

/-- postcondition of `removeNode` shared by all cases -/
def Post (c : Cfg) (root : Bool) (h : Nat) (L : List Nat) (e : Nat) (r : RemOut) : Prop :=
  Shape c root h r.node ∧ r.node.elems = L.erase e ∧ r.out = if e ∈ L then some e else none

theorem erase_at (X Y : List Nat) (e : Nat) (hnd : (X ++ e :: Y).Nodup) : (X ++ e :: Y).erase e = X ++ Y := by
  have hX : e ∉ X := by
    intro ha
    rw [List.nodup_append] at hnd
    exact hnd.2.2 e ha e (by simp) rfl
  rw [List.erase_append_right _ hX, List.erase_cons_head]

theorem leaf_spec {c : Cfg} {root h fuel id vals e} (H : Shape c root h (.leaf id vals))
    (hp : vals.Pairwise (· < ·)) (hpre : root = true ∨ c.canRemoveFrom (.leaf id vals) = true) :
    Post c root h vals e (removeNode c (fuel + 1) (.leaf id vals) e) := by
  have F := nodeFind_spec (.leaf id vals) e hp
  simp only [Node.vals] at F
  rw [shape_leaf] at H
  rw [removeNode_leaf]
  split
  · rename_i h1
    simp at h1
    obtain ⟨a, b, d⟩ := F.2 h1
    have hne : e ∉ vals := by
      intro he
      rw [← List.take_append_drop (nodeFind (.leaf id vals) e).1 vals] at he
      rcases List.mem_append.1 he with h2 | h2
      · have := b e h2; omega
      · have := d e h2; omega
    refine ⟨by rw [shape_leaf]; exact H, ?_, ?_⟩
    · simp [List.erase_of_not_mem hne]
    · simp [hne]
  · rename_i h1
    simp at h1
    obtain ⟨a, b⟩ := F.1 h1
    generalize (nodeFind (.leaf id vals) e).1 = i at *
    generalize (nodeFind (.leaf id vals) e).2.2 = k at *
    obtain ⟨pre, x, post, rfl, hi, -, -⟩ := split1 vals i a
    rw [getD_app _ _ _ _ hi] at b
    subst b
    have key : Post c root h (pre ++ x :: post) x
        ⟨.leaf id ((pre ++ x :: post).eraseIdx i), some x, [i], false, [], k⟩ := by
      refine ⟨?_, ?_, ?_⟩
      · rw [shape_leaf]
        simp [eraseIdx_app _ _ _ hi] at H hpre ⊢
        refine ⟨H.1, by omega, ?_⟩
        rcases hpre with h2 | h2
        · exact Or.inl h2
        · exact Or.inr (by omega)
      · simp [eraseIdx_app _ _ _ hi, erase_at _ _ _ (nodup_of_sorted hp)]
      · simp
    rw [getD_app _ _ _ _ hi]
    split
    · exact key
    · exact key

theorem child_sublist {cs : List Node} {vs : List Nat} {i : Nat} (hi : i ≤ vs.length) (hlen : cs.length = vs.length + 1) :
    (cs.getD i (.leaf 0 [])).elems.Sublist (interleave cs vs) := by
  rw [interleave_at hi hlen]
  exact List.Sublist.trans (List.sublist_append_right _ _) (List.sublist_append_left _ _)

theorem desc_spec {c : Cfg} {fuel h' e}
    (ih : ∀ n, Shape c false h' n → n.elems.Pairwise (· < ·) → c.canRemoveFrom n = true →
      Post c false h' n.elems e (removeNode c fuel n e))
    {root id vals' children' i' evs k}
    (len : children'.length = vals'.length + 1) (idx : i' ≤ vals'.length) (shape : ShapeAll c h' children')
    (can : c.canRemoveFrom (children'.getD i' (.leaf 0 [])) = true)
    (k1 : 1 ≤ vals'.length) (k2 : vals'.length ≤ c.inodeMax) (k3 : root = true ∨ c.inodeMin ≤ vals'.length)
    (hp : (interleave children' vals').Pairwise (· < ·))
    (only : e ∈ interleave children' vals' → e ∈ (children'.getD i' (.leaf 0 [])).elems) :
    Post c root (h' + 1) (interleave children' vals') e (descStep c fuel id vals' children' i' evs k e) := by
  have hsub := child_sublist idx len
  obtain ⟨a, b, d⟩ := ih _ (shapeAll_getD shape (by omega)) (List.Pairwise.sublist hsub hp) can
  refine ⟨?_, ?_, ?_⟩
  · simp only [descStep, shape_inode]
    exact ⟨h', rfl, k1, k2, k3, by simp [len], shapeAll_set shape a⟩
  · simp only [descStep, elems_inode]
    rw [interleave_set _ idx len, b]
    have hnd := nodup_of_sorted hp
    rw [interleave_at idx len] at hnd only
    conv => rhs; rw [interleave_at idx len]
    exact (erase_mid _ _ _ e hnd only).symm
  · simp only [descStep]
    rw [d]
    by_cases hm : e ∈ interleave children' vals'
    · rw [if_pos hm, if_pos (only hm)]
    · have : e ∉ (children'.getD i' (.leaf 0 [])).elems := fun h => hm (hsub.subset h)
      rw [if_neg hm, if_neg this]

theorem fromLeft_can {c : Cfg} {h' l r i} (hl : Shape c false h' l) (hr : Shape c false h' r)
    (hnb : ¬ ((!c.canRemoveFrom l && !c.canRemoveFrom r) = true)) :
    (fromLeft l r i = true → c.canRemoveFrom l = true) ∧ (¬ fromLeft l r i = true → c.canRemoveFrom r = true) := by
  cases l with
  | leaf li lv =>
    cases r with
    | inode ri rv rc => exact (kind_contra hl hr).elim
    | leaf ri rv =>
      rw [shape_leaf] at hl hr
      simp [fromLeft, Node.nVals, Node.vals] at hnb hl hr ⊢
      constructor
      · intro h; rcases h with h | h <;> omega
      · intro h; omega
  | inode li lv lc =>
    cases r with
    | leaf ri rv => exact (kind_contra hr hl).elim
    | inode ri rv rc =>
      rw [shape_inode] at hl hr
      obtain ⟨_, _, _, _, hl3, _⟩ := hl
      obtain ⟨_, _, _, _, hr3, _⟩ := hr
      simp [fromLeft, Node.nVals, Node.vals] at hnb hl3 hr3 ⊢
      constructor
      · intro h; rcases h with h | h <;> omega
      · intro h; omega

theorem replace_spec {c : Cfg} (hc : c.Valid) {root h' fuel id vals children i e}
    (H : Shape c root (h' + 1) (.inode id vals children)) (hf : h' ≤ fuel)
    (hp : (interleave children vals).Pairwise (· < ·))
    (hi : i < vals.length) (hv : vals.getD i 0 = e)
    (hnb : ¬ ((!c.canRemoveFrom (children.getD i (.leaf 0 [])) && !c.canRemoveFrom (children.getD (i + 1) (.leaf 0 []))) = true)) :
    ∀ p, replaceValue c fuel id vals children i = some p →
      Shape c root (h' + 1) p.1 ∧ p.1.elems = (interleave children vals).erase e ∧ p.2.1 = e := by
  intro p hpv
  rw [shape_inode] at H
  obtain ⟨h'', hh, h1, h2, h3, h4, h5⟩ := H
  have : h'' = h' := by omega
  subst this
  rw [replaceValue_eq, if_neg hnb] at hpv
  have hnd := nodup_of_sorted hp
  obtain ⟨pre, l, r, post, rfl, hpre⟩ := split2 children i (by omega)
  obtain ⟨vpre, v, vpost, rfl, hvpre, -, -⟩ := split1 vals i hi
  subst hpre
  rw [getD_app _ _ _ _ hvpre] at hv
  subst hv
  rw [getD_app _ _ _ _ rfl, getD_app1 _ _ _ _ _ rfl] at hpv hnb
  have h5' := h5
  simp only [shapeAll_append, shapeAll_cons] at h5'
  obtain ⟨hs1, hl, hr, hs2⟩ := h5'
  have FL := fromLeft_can (i := pre.length) hl hr hnb
  rw [interleave_append _ _ _ _ hvpre.symm] at hnd ⊢
  simp only [interleave_cons, suff_cons] at hnd ⊢
  split at hpv
  · rename_i g
    have M := removeMax_spec hc fuel h'' l hl hf (FL.1 g)
    cases hpv
    refine ⟨?_, ?_, ?_⟩
    · rw [shape_inode]
      refine ⟨h'', rfl, by simpa using h1, by simpa using h2, by simpa using h3, by simpa using h4, ?_⟩
      exact shapeAll_set h5 M.1
    · simp only [elems_inode, set_app _ _ _ _ hvpre, set_app _ _ _ _ rfl]
      rw [interleave_append _ _ _ _ hvpre.symm]
      simp only [interleave_cons, suff_cons]
      rw [M.2] at hnd ⊢
      have := erase_at (pref pre vpre ++ ((removeMax c fuel l).1.elems ++ [(removeMax c fuel l).2.1])) (r.elems ++ suff post vpost) v
        (by simpa [List.append_assoc] using hnd)
      simp only [List.append_assoc, List.cons_append, List.nil_append] at this ⊢
      rw [this]
    · rw [getD_app _ _ _ _ hvpre]
  · rename_i g
    have M := removeMin_spec hc fuel h'' r hr hf (FL.2 g)
    cases hpv
    refine ⟨?_, ?_, ?_⟩
    · rw [shape_inode]
      refine ⟨h'', rfl, by simpa using h1, by simpa using h2, by simpa using h3, by simpa using h4, ?_⟩
      exact shapeAll_set h5 M.1
    · simp only [elems_inode, set_app _ _ _ _ hvpre, set_app1 _ _ _ _ _ rfl]
      rw [interleave_append _ _ _ _ hvpre.symm]
      simp only [interleave_cons, suff_cons]
      rw [M.2] at hnd ⊢
      have := erase_at (pref pre vpre ++ l.elems) ((removeMin c fuel r).2.1 :: (removeMin c fuel r).1.elems ++ suff post vpost) v
        (by simpa [List.append_assoc] using hnd)
      simp only [List.append_assoc, List.cons_append] at this ⊢
      rw [this]
    · rw [getD_app _ _ _ _ hvpre]

/-- a root that is an internal node with a single value has a child that can spare a value
(guaranteed by the pre-loop merge of `Tree.remove`) -/
def RootOK (c : Cfg) : Node → Prop
  | .leaf _ _ => True
  | .inode _ vals children => 2 ≤ vals.length ∨ c.canRemoveFrom (children.getD 0 (.leaf 0 [])) = true ∨
      c.canRemoveFrom (children.getD 1 (.leaf 0 [])) = true

theorem removeNode_spec {c : Cfg} (hc : c.Valid) : ∀ fuel h root n e, Shape c root h n → h ≤ fuel →
    n.elems.Pairwise (· < ·) → ((root = true ∧ RootOK c n) ∨ c.canRemoveFrom n = true) →
    Post c root h n.elems e (removeNode c fuel n e) := by
  intro fuel
  induction fuel with
  | zero => intro h root n e H hf; have := shape_pos H; omega
  | succ fuel ih =>
    intro h root n e H hf hp hpre
    cases n with
    | leaf id vals =>
      exact leaf_spec H hp (by rcases hpre with h1 | h1; exact Or.inl h1.1; exact Or.inr h1)
    | inode id vals children =>
      have H' := H
      rw [shape_inode] at H'
      obtain ⟨h', rfl, h1, h2, h3, h4, h5⟩ := H'
      have hif := inode_fit hc
      simp only [elems_inode] at hp ⊢
      have ih' : ∀ n, Shape c false h' n → n.elems.Pairwise (· < ·) → c.canRemoveFrom n = true →
          Post c false h' n.elems e (removeNode c fuel n e) :=
        fun n a b d => ih h' false n e a (by omega) b (Or.inr d)
      have hne : 2 ≤ vals.length ∨ c.canRemoveFrom (children.getD 0 (.leaf 0 [])) = true ∨
          c.canRemoveFrom (children.getD 1 (.leaf 0 [])) = true := by
        rcases hpre with h6 | h6
        · exact h6.2
        · simp at h6; exact Or.inl (by omega)
      have hlow : ∀ m, vals.length ≤ m + 1 → root = true ∨ c.inodeMin ≤ m := by
        intro m hm
        rcases hpre with h6 | h6
        · exact Or.inl h6.1
        · simp at h6; exact Or.inr (by omega)
      have F := nodeFind_spec (.inode id vals children) e (List.Pairwise.sublist (vals_sublist children vals (by omega)) hp)
      simp only [Node.vals] at F
      rw [removeNode_inode]
      generalize (nodeFind (.inode id vals children) e).2.2 = k at *
      generalize hi : (nodeFind (.inode id vals children) e).1 = i at *
      split
      · rename_i g1
        obtain ⟨f1, f2⟩ := F.1 g1
        by_cases hnb : (!c.canRemoveFrom (children.getD i (.leaf 0 [])) && !c.canRemoveFrom (children.getD (i + 1) (.leaf 0 []))) = true
        · have hnone : replaceValue c fuel id vals children i = none := by
            rw [replaceValue_eq, if_pos hnb]
          rw [hnone]
          simp only []
          simp only [Bool.and_eq_true, Bool.not_eq_true'] at hnb
          have R := mergeAt_spec hc h4 f1 h5 hnb.1 hnb.2
          have R1 := R.1 _ (Or.inl rfl)
          have hv1 : 1 ≤ (mergeAt vals children i).1.length := by
            by_cases h6 : 2 ≤ vals.length
            · omega
            · have : i = 0 := by omega
              subst this
              rcases hne with h7 | h7 | h7
              · omega
              · rw [hnb.1] at h7; cases h7
              · rw [hnb.2] at h7; cases h7
          have := desc_spec (root := root) (id := id) (evs := [.free (mergeAt vals children i).2.2]) (k := k) ih' R1.len R1.idx R1.shape R1.can hv1
            (by have := R1.vle; omega) (hlow _ R1.vge)
            (by rw [R1.elems]; exact hp) (fun _ => R.2.2 e f2.symm)
          rw [R1.elems] at this
          exact this
        · have RS := replace_spec (h' := h') (fuel := fuel) hc H (by omega) hp f1 f2 hnb
          cases hpv : replaceValue c fuel id vals children i with
          | none => rw [replaceValue_eq, if_neg hnb] at hpv; split at hpv <;> cases hpv
          | some p =>
            obtain ⟨a, b, d⟩ := RS p hpv
            obtain ⟨n', out, fl, ev⟩ := p
            simp only [] at a b d ⊢
            have hmem : e ∈ interleave children vals := by
              rw [← f2]
              apply (vals_sublist children vals (by omega)).subset
              simp [List.getD_eq_getElem?_getD, List.getElem?_eq_getElem f1]
            exact ⟨a, b, by simp [d, hmem]⟩
      · rename_i g1
        obtain ⟨f1, f2, f3⟩ := F.2 (bool_false_of_not g1)
        have only := only_child h4 f1 hp f2 f3
        split
        · rename_i g2
          exact desc_spec ih' h4 f1 h5 g2 h1 h2 h3 hp only
        · rename_i g2
          have R := fattenChild_spec hc h4 f1 h1 h5 (bool_false_of_not g2) hne
          have := desc_spec (root := root) (id := id) (evs := (fattenChild c vals children i).2.2.2) (k := k) ih' R.1.len R.1.idx R.1.shape R.1.can R.2 (by have := R.1.vle; omega) (hlow _ R.1.vge)
            (by rw [R.1.elems]; exact hp) (by rw [R.1.elems]; exact fun he => R.1.sub _ (only he))
          rw [R.1.elems] at this
          exact this


/-! ### Tree.remove -/

theorem rootOK_of_can {c : Cfg} (hc : c.Valid) {n} (h : c.canRemoveFrom n = true) : RootOK c n := by
  cases n with
  | leaf id vs => trivial
  | inode id vs cs =>
    have := inode_fit hc
    simp at h
    exact Or.inl (by omega)

theorem preRoot_spec {c : Cfg} (hc : c.Valid) {h n} (H : Shape c true h n) :
    ∃ h2, Shape c true h2 (preRoot c n).1 ∧ (preRoot c n).1.elems = n.elems ∧ RootOK c (preRoot c n).1 := by
  rcases n with _ | ⟨id, _ | ⟨v, _ | ⟨w, vs⟩⟩, cs⟩
  · exact ⟨h, H, rfl, trivial⟩
  · rw [shape_inode] at H; obtain ⟨_, _, h1, _⟩ := H; simp at h1
  · rcases cs with _ | ⟨l, _ | ⟨r, _ | ⟨x, cs⟩⟩⟩
    · rw [shape_inode] at H; obtain ⟨_, _, _, _, _, h1, _⟩ := H; simp at h1
    · rw [shape_inode] at H; obtain ⟨_, _, _, _, _, h1, _⟩ := H; simp at h1
    · simp only [preRoot]
      split
      · rename_i g
        rw [shape_inode] at H
        obtain ⟨h', rfl, h1, h2, h3, h4, h5⟩ := H
        simp only [Bool.and_eq_true, Bool.not_eq_true'] at g
        have R := mergeAt_spec (i := 0) hc h4 (by simp) h5 g.1 g.2
        have R1 := R.1 _ (Or.inl rfl)
        have hv : (mergeAt [v] [l, r] 0).1 = [] := by
          have := R.2.1; simp at this; exact this
        have hl := R1.len
        rw [hv] at hl
        have he := R1.elems
        rw [hv] at he
        have hcan := R1.can
        have hsh := R1.shape
        generalize (mergeAt [v] [l, r] 0).2.1 = cs' at *
        rcases cs' with _ | ⟨m, _ | _⟩
        · simp at hl
        · simp at he
          rw [shapeAll_cons] at hsh
          refine ⟨h', ?_, ?_, ?_⟩
          · show Shape c true h' m
            exact shape_root_of hsh.1
          · show m.elems = _
            simp [he]
          · show RootOK c m
            exact rootOK_of_can hc hcan
        · simp at hl
      · rename_i g
        refine ⟨h, H, rfl, ?_⟩
        simp only [RootOK]
        simp only [Bool.and_eq_true, Bool.not_eq_true', not_and, Bool.not_eq_false] at g
        by_cases h1 : c.canRemoveFrom l = true
        · exact Or.inr (Or.inl (by simpa using h1))
        · exact Or.inr (Or.inr (by simpa using g (bool_false_of_not h1)))
    · rw [shape_inode] at H; obtain ⟨_, _, _, _, _, h1, _⟩ := H; simp at h1
  · refine ⟨h, H, rfl, ?_⟩
    simp [preRoot, RootOK]

/-- everything `remove_refines` needs, in terms of the `removeNode` result -/
theorem remove_main {c : Cfg} (hc : c.Valid) (t : Tree) (e : Nat) (h : WF c t) :
    ∃ r : RemOut, t.remove c e = finish t (preRoot c t.root).2 r ∧
      Shape c true (height r.node) r.node ∧ r.node.elems = t.root.elems.erase e ∧
      r.out = if e ∈ t.root.elems then some e else none := by
  obtain ⟨h2, a, b, d⟩ := preRoot_spec hc h.shape
  refine ⟨_, remove_eq c t e, ?_⟩
  have P := removeNode_spec hc (height (preRoot c t.root).1 + 1) h2 true (preRoot c t.root).1 e a
    (by rw [shape_height a]; omega) (by rw [b]; exact h.sorted) (Or.inl ⟨rfl, d⟩)
  obtain ⟨p1, p2, p3⟩ := P
  rw [b] at p2 p3
  exact ⟨by rw [shape_height p1]; exact p1, p2, p3⟩



/-! ### iterator paths, compositionally -/

theorem nodeAt_single (n : Node) (i : Nat) : nodeAt n [i] = some (n, i) := by
  simp [nodeAt]

theorem nodeAt_cons_ne (n : Node) (i : Nat) {rest : List Nat} (h : rest ≠ []) :
    nodeAt n (i :: rest) = if n.isLeaf then none else nodeAt (n.child i) rest := by
  cases rest with
  | nil => exact (h rfl).elim
  | cons j rest => simp [nodeAt]

/-- all nodes on the path except possibly the last are internal -/
def PathOK : Node → List Nat → Prop
  | _, [] => False
  | n, i :: rest => rest = [] ∨ (n.isLeaf = false ∧ PathOK (n.child i) rest)

theorem pathOK_ne {n p} (h : PathOK n p) : p ≠ [] := by
  cases p <;> simp_all [PathOK]

theorem pathOK_single (n i) : PathOK n [i] := Or.inl rfl

theorem pathOK_cons {n i rest} (h : rest ≠ []) : PathOK n (i :: rest) ↔ n.isLeaf = false ∧ PathOK (n.child i) rest := by
  simp [PathOK, h]

theorem pathOK_nodeAt : ∀ {p n}, PathOK n p → ∃ m x, nodeAt n p = some (m, x) := by
  intro p
  induction p with
  | nil => intro n h; exact (pathOK_ne h rfl).elim
  | cons i rest ih =>
    intro n h
    by_cases hr : rest = []
    · subst hr; exact ⟨n, i, nodeAt_single n i⟩
    · rw [pathOK_cons hr] at h
      rw [nodeAt_cons_ne _ _ hr, h.1]
      exact ih h.2

/-- validity depends only on the frames above the last one -/
theorem pathOK_snoc : ∀ {p n} (x y : Nat), PathOK n (p ++ [x]) → PathOK n (p ++ [y]) := by
  intro p
  induction p with
  | nil => intro n x y _; exact pathOK_single _ _
  | cons i rest ih =>
    intro n x y h
    have hr : rest ++ [x] ≠ [] := by simp
    have hr' : rest ++ [y] ≠ [] := by simp
    rw [List.cons_append, pathOK_cons hr] at h
    rw [List.cons_append, pathOK_cons hr']
    exact ⟨h.1, ih x y h.2⟩

theorem pathOK_prefix : ∀ {p n} (x : Nat), p ≠ [] → PathOK n (p ++ [x]) → PathOK n p := by
  intro p
  induction p with
  | nil => intro n x h; exact (h rfl).elim
  | cons i rest ih =>
    intro n x _ h
    by_cases hr : rest = []
    · subst hr; exact pathOK_single _ _
    · have hr' : rest ++ [x] ≠ [] := by simp
      rw [List.cons_append, pathOK_cons hr'] at h
      rw [pathOK_cons hr]
      exact ⟨h.1, ih x hr h.2⟩

/-- the value a path points at -/
def derefP (n : Node) (p : List Nat) : Option Nat :=
  match nodeAt n p with
  | some (m, i) => m.vals[i]?
  | none => none

theorem deref_some (n : Node) (p : List Nat) : deref n (some p) = derefP n p := by
  simp only [deref, derefP]
  split <;> simp_all

theorem derefP_single (n : Node) (i : Nat) : derefP n [i] = n.vals[i]? := by
  simp [derefP, nodeAt_single]

theorem derefP_cons_ne (n : Node) (i : Nat) {rest : List Nat} (h : rest ≠ []) (hn : n.isLeaf = false) :
    derefP n (i :: rest) = derefP (n.child i) rest := by
  simp [derefP, nodeAt_cons_ne _ _ h, hn]

/-- lifting the result of an increment inside child `i` to the parent -/
def lift (n : Node) (i : Nat) : Option (List Nat) → Option (List Nat)
  | some q => some (i :: q)
  | none => if i < n.nVals then some [i] else none

theorem popEnds_lift (R : Node) (i : Nat) (hR : R.isLeaf = false) :
    ∀ (q : List Nat) (f : Nat), q ≠ [] → q.length ≤ f → PathOK (R.child i) q.reverse →
      popEnds R (f + 1) (q ++ [i]) = lift R i (popEnds (R.child i) f q) := by
  intro q
  induction q with
  | nil => intro f h; exact (h rfl).elim
  | cons x up ih =>
    intro f _ hf hok
    obtain ⟨f', rfl⟩ : ∃ f', f = f' + 1 := ⟨f - 1, by simp at hf; omega⟩
    have hne : up.reverse ++ [x] ≠ [] := by simp
    have e1 : nodeAt R ((up ++ [i]).reverse ++ [x]) = nodeAt (R.child i) (up.reverse ++ [x]) := by
      rw [List.reverse_append]
      simp only [List.reverse_cons, List.reverse_nil, List.nil_append, List.cons_append]
      rw [nodeAt_cons_ne _ _ hne, hR]; rfl
    rw [List.reverse_cons] at hok
    obtain ⟨m, y, hm⟩ := pathOK_nodeAt hok
    simp only [List.cons_append, popEnds]
    rw [e1, hm]
    simp only []
    split
    · -- pop
      cases up with
      | nil =>
        simp only [List.nil_append, popEnds, List.reverse_nil, nodeAt_single, lift]
        by_cases hi : i < R.nVals
        · simp [hi, Nat.not_le.2 hi]
        · simp [hi, Nat.not_lt.1 hi]
      | cons y' up' =>
        have := ih f' (by simp) (by simp at hf ⊢; omega) (pathOK_prefix x (by simp) hok)
        simp only [List.cons_append] at this ⊢
        exact this
    · simp [lift]

theorem increment_cons (R : Node) (i : Nat) {rest : List Nat} (hne : rest ≠ []) (hR : R.isLeaf = false)
    (hok : PathOK (R.child i) rest) :
    increment R (i :: rest) = lift R i (increment (R.child i) rest) := by
  obtain ⟨m, x, hm⟩ := pathOK_nodeAt hok
  obtain ⟨rest', y, rfl⟩ := snoc_of_pos rest (List.length_pos_iff.2 hne)
  have hm' : nodeAt R (i :: (rest' ++ [y])) = some (m, x) := by
    rw [nodeAt_cons_ne _ _ hne, hR]; exact hm
  unfold increment
  rw [hm', hm]
  simp only []
  split
  · have e1 : ((i :: (rest' ++ [y])).dropLast ++ [x + 1]).reverse = (rest' ++ [x + 1]).reverse ++ [i] := by
      rw [← List.cons_append, List.dropLast_concat]; simp
    have e2 : ((rest' ++ [y]).dropLast ++ [x + 1]) = rest' ++ [x + 1] := by
      rw [List.dropLast_concat]
    rw [e1, e2]
    have := popEnds_lift R i hR (rest' ++ [x + 1]).reverse ((rest' ++ [y]).length + 1) (by simp) (by simp)
      (by rw [List.reverse_reverse]; exact pathOK_snoc y (x + 1) hok)
    simpa using this
  · have e1 : (i :: (rest' ++ [y])).dropLast = i :: rest' := by
      rw [← List.cons_append, List.dropLast_concat]
    rw [e1, List.dropLast_concat]
    simp [lift]

/-- `NextSpec n p incr tgt`: in the subtree `n`, the iterator at path `p` (incremented when `incr`)
is at value `tgt`; `none` means it leaves the subtree at its right end. -/
inductive NextSpec : Node → List Nat → Bool → Option Nat → Prop
  | here (n : Node) (i : Nat) : NextSpec n [i] false n.vals[i]?
  | leafIncr (id : Nat) (vs : List Nat) (i : Nat) : NextSpec (.leaf id vs) [i] true vs[i + 1]?
  | inodeIncr (id : Nat) (vs : List Nat) (cs : List Node) (i v : Nat)
      (hv : derefP (cs.getD (i + 1) (.leaf 0 [])) (leftmost (height (.inode id vs cs)) (cs.getD (i + 1) (.leaf 0 []))) = some v) :
      NextSpec (.inode id vs cs) [i] true (some v)
  | down (id : Nat) (vs : List Nat) (cs : List Node) (i : Nat) (rest : List Nat) (incr : Bool) (sub : Option Nat)
      (hne : rest ≠ []) (hsub : NextSpec (cs.getD i (.leaf 0 [])) rest incr sub) (hsome : incr = false → sub.isSome = true) :
      NextSpec (.inode id vs cs) (i :: rest) incr (sub.or vs[i]?)

theorem nextSpec_pathOK {n p incr tgt} (h : NextSpec n p incr tgt) : PathOK n p := by
  induction h with
  | here n i => exact pathOK_single _ _
  | leafIncr id vs i => exact pathOK_single _ _
  | inodeIncr id vs cs i v hv => exact pathOK_single _ _
  | down id vs cs i rest incr sub hne hsub hsome ih =>
    rw [pathOK_cons hne]; exact ⟨rfl, ih⟩

def Sound (R : Node) (tgt : Option Nat) (incr : Bool) : Option (List Nat) → Prop
  | none => tgt = none
  | some q => q ≠ [] ∧ derefP R q = tgt ∧ (incr = true → tgt.isSome = true)

theorem leftmost_ne (fuel n) : leftmost fuel n ≠ [] := by
  cases fuel with
  | zero => simp [leftmost]
  | succ f => simp only [leftmost]; split <;> simp

theorem nextSpec_sound {R p incr tgt} (h : NextSpec R p incr tgt) :
    Sound R tgt incr (if incr = true then increment R p else some p) := by
  induction h with
  | here n i => simp [Sound, derefP_single]
  | leafIncr id vs i =>
    simp only [if_true, increment, nodeAt_single, Node.isLeaf]
    simp only [List.dropLast_singleton, List.nil_append, List.reverse_singleton, List.length_singleton, popEnds,
      List.reverse_nil, nodeAt_single, Node.nVals, Node.vals]
    by_cases hi : i + 1 < vs.length
    · simp [Nat.not_le.2 hi, Sound, derefP_single, Node.vals, hi]
    · simp [Nat.not_lt.1 hi, Sound]
  | inodeIncr id vs cs i v hv =>
    simp only [if_true, increment, nodeAt_single, Node.isLeaf]
    simp only [List.dropLast_singleton, List.nil_append, Sound]
    refine ⟨by simp, ?_, by simp⟩
    rw [List.singleton_append, derefP_cons_ne _ _ (leftmost_ne _ _) rfl]
    exact hv
  | down id vs cs i rest incr sub hne hsub hsome ih =>
    have hok := nextSpec_pathOK hsub
    cases incr with
    | false =>
      simp only [Bool.false_eq_true, if_false, Sound] at ih ⊢
      refine ⟨by simp, ?_, by simp⟩
      rw [derefP_cons_ne _ _ hne rfl]
      have hs := hsome rfl
      show derefP (cs.getD i (.leaf 0 [])) rest = _
      rw [ih.2.1]
      cases sub with
      | none => simp at hs
      | some v => rfl
    | true =>
      simp only [if_true] at ih ⊢
      rw [increment_cons (.inode id vs cs) i hne rfl hok]
      show Sound _ _ _ (lift _ _ (increment (cs.getD i (.leaf 0 [])) rest))
      cases hinc : increment (cs.getD i (.leaf 0 [])) rest with
      | none =>
        rw [hinc] at ih
        simp only [Sound] at ih
        subst ih
        simp only [lift, Node.nVals, Node.vals]
        by_cases hi : i < vs.length
        · simp [hi, Sound, derefP_single, Node.vals]
        · simp [hi, Sound]
      | some q =>
        rw [hinc] at ih
        simp only [Sound] at ih
        obtain ⟨q1, q2, q3⟩ := ih
        simp only [lift, Sound]
        have hs := q3 trivial
        refine ⟨by simp, ?_, ?_⟩
        · rw [derefP_cons_ne _ _ q1 rfl]
          show derefP (cs.getD i (.leaf 0 [])) q = _
          rw [q2]
          cases sub with
          | none => simp at hs
          | some v => rfl
        · intro _
          cases sub with
          | none => simp at hs
          | some v => rfl


/-! ### the `next` iterator of a removal -/

/-- the first element greater than `e` -/
def firstGt (e : Nat) (L : List Nat) : Option Nat := L.find? (fun v => decide (e < v))

theorem firstGt_eq (e : Nat) (L : List Nat) : firstGt e L = (L.filter (fun v => e < v)).head? := by
  simp [firstGt]

theorem firstGt_append (e : Nat) (A B : List Nat) : firstGt e (A ++ B) = (firstGt e A).or (firstGt e B) := by
  simp [firstGt, List.find?_append]

theorem firstGt_none {e : Nat} {A : List Nat} (h : ∀ x ∈ A, x ≤ e) : firstGt e A = none := by
  simp only [firstGt, List.find?_eq_none]
  intro x hx; have := h x hx; simp; omega

theorem firstGt_head {e : Nat} {B : List Nat} (h : ∀ x ∈ B, e < x) : firstGt e B = B.head? := by
  cases B with
  | nil => rfl
  | cons b B => simp [firstGt, h b (by simp)]

theorem firstGt_erase (e : Nat) (L : List Nat) : firstGt e (L.erase e) = firstGt e L := by
  induction L with
  | nil => rfl
  | cons a L ih =>
    by_cases h : a = e
    · subst h; simp [firstGt]
    · rw [List.erase_cons_tail (by simpa using h)]
      simp only [firstGt, List.find?_cons] at ih ⊢
      rw [ih]

theorem getD_set_self {α} (l : List α) (i : Nat) (x d : α) (h : i < l.length) : (l.set i x).getD i d = x := by
  simp [List.getD_eq_getElem?_getD, h]

/-- split of a strictly sorted list around a member -/
theorem sorted_around {A M B : List Nat} {e : Nat} (hp : (A ++ M ++ B).Pairwise (· < ·)) (he : e ∈ M) :
    (∀ x ∈ A, x ≤ e) ∧ (∀ x ∈ B, e < x) := by
  rw [List.pairwise_append] at hp
  obtain ⟨h1, _, h3⟩ := hp
  rw [List.pairwise_append] at h1
  exact ⟨fun x hx => Nat.le_of_lt (h1.2.2 x hx e he), fun x hx => h3 e (List.mem_append_right _ he) x hx⟩

theorem desc_next {c : Cfg} {fuel e id vals' children' i' evs k}
    (len : children'.length = vals'.length + 1) (idx : i' ≤ vals'.length)
    (hp : (interleave children' vals').Pairwise (· < ·))
    (hmem : e ∈ (children'.getD i' (.leaf 0 [])).elems)
    (hsub : NextSpec (removeNode c fuel (children'.getD i' (.leaf 0 [])) e).node
      (removeNode c fuel (children'.getD i' (.leaf 0 [])) e).path
      (removeNode c fuel (children'.getD i' (.leaf 0 [])) e).incr
      (firstGt e (removeNode c fuel (children'.getD i' (.leaf 0 [])) e).node.elems))
    (hsome : (removeNode c fuel (children'.getD i' (.leaf 0 [])) e).incr = false →
      (firstGt e (removeNode c fuel (children'.getD i' (.leaf 0 [])) e).node.elems).isSome = true) :
    NextSpec (descStep c fuel id vals' children' i' evs k e).node (descStep c fuel id vals' children' i' evs k e).path
      (descStep c fuel id vals' children' i' evs k e).incr (firstGt e (descStep c fuel id vals' children' i' evs k e).node.elems) ∧
    ((descStep c fuel id vals' children' i' evs k e).incr = false →
      (firstGt e (descStep c fuel id vals' children' i' evs k e).node.elems).isSome = true) := by
  simp only [descStep, elems_inode]
  generalize hr : removeNode c fuel (children'.getD i' (.leaf 0 [])) e = r at *
  rw [interleave_at idx len] at hp
  obtain ⟨hA, hB⟩ := sorted_around hp hmem
  have key : firstGt e (interleave (children'.set i' r.node) vals') = (firstGt e r.node.elems).or vals'[i']? := by
    rw [interleave_set _ idx len, firstGt_append, firstGt_append, firstGt_none hA, Option.none_or]
    congr 1
    by_cases hi : i' < vals'.length
    · rw [List.drop_eq_getElem_cons hi] at hB ⊢
      simp only [suff_cons] at hB ⊢
      have := hB vals'[i'] (by simp)
      simp [firstGt, this, List.getElem?_eq_getElem hi]
    · have h1 : i' = vals'.length := by omega
      have : children'.drop (i' + 1) = [] := by simp; omega
      rw [this, List.drop_eq_nil_of_le (by omega)]
      simp [firstGt, h1]
  rw [key]
  constructor
  · have := NextSpec.down id vals' (children'.set i' r.node) i' r.path r.incr (firstGt e r.node.elems)
      (pathOK_ne (nextSpec_pathOK hsub)) (by rw [getD_set_self _ _ _ _ (by omega)]; exact hsub) hsome
    exact this
  · intro h
    have := hsome h
    cases hh : firstGt e r.node.elems with
    | none => rw [hh] at this; simp at this
    | some v => simp

theorem leafMin_ge {c : Cfg} (hc : c.Valid) : 2 ≤ c.leafMin := by
  have := hc.inode3; have := hc.leaf; unfold Cfg.leafMin; omega

theorem elems_ne_nil {c : Cfg} (hc : c.Valid) {h n} (H : Shape c false h n) : n.elems ≠ [] := by
  cases n with
  | leaf id vs =>
    rw [shape_leaf] at H
    have := leafMin_ge hc
    intro h0; simp at h0; subst h0; simp at H; omega
  | inode id vs cs =>
    rw [shape_inode] at H
    obtain ⟨h', _, h1, _, _, h4, _⟩ := H
    cases vs with
    | nil => simp at h1
    | cons v vs =>
      cases cs with
      | nil => simp at h4
      | cons x cs => simp

theorem leftmost_deref {c : Cfg} (hc : c.Valid) : ∀ fuel h n, Shape c false h n → h ≤ fuel →
    derefP n (leftmost fuel n) = n.elems.head? := by
  intro fuel
  induction fuel with
  | zero => intro h n H hf; have := shape_pos H; omega
  | succ fuel ih =>
    intro h n H hf
    cases n with
    | leaf id vs => cases vs <;> simp [leftmost, Node.isLeaf, derefP_single, Node.vals]
    | inode id vs cs =>
      have H' := H
      rw [shape_inode] at H'
      obtain ⟨h', rfl, h1, _, _, h4, h5⟩ := H'
      cases cs with
      | nil => simp at h4
      | cons x cs =>
        rw [shapeAll_cons] at h5
        simp only [leftmost, Node.isLeaf, Bool.false_eq_true, if_false]
        rw [derefP_cons_ne _ _ (leftmost_ne _ _) rfl]
        show derefP x (leftmost fuel x) = _
        rw [ih h' x h5.1 (by omega)]
        have := elems_ne_nil hc h5.1
        simp only [elems_inode, interleave_cons]
        cases hx : x.elems with
        | nil => exact (this hx).elim
        | cons a l => simp

theorem leaf_next {c : Cfg} (hc : c.Valid) {root h fuel id vals e} (H : Shape c root h (.leaf id vals))
    (hp : vals.Pairwise (· < ·)) (hpre : root = true ∨ c.canRemoveFrom (.leaf id vals) = true) (he : e ∈ vals) :
    NextSpec (removeNode c (fuel + 1) (.leaf id vals) e).node (removeNode c (fuel + 1) (.leaf id vals) e).path
      (removeNode c (fuel + 1) (.leaf id vals) e).incr (firstGt e (removeNode c (fuel + 1) (.leaf id vals) e).node.elems) ∧
    (root = false → (removeNode c (fuel + 1) (.leaf id vals) e).incr = false →
      (firstGt e (removeNode c (fuel + 1) (.leaf id vals) e).node.elems).isSome = true) := by
  have F := nodeFind_spec (.leaf id vals) e hp
  simp only [Node.vals] at F
  rw [shape_leaf] at H
  have hlm := leafMin_ge hc
  rw [removeNode_leaf]
  split
  · rename_i h1
    simp at h1
    obtain ⟨a, b, d⟩ := F.2 h1
    exfalso
    rw [← List.take_append_drop (nodeFind (.leaf id vals) e).1 vals] at he
    rcases List.mem_append.1 he with h2 | h2
    · have := b e h2; omega
    · have := d e h2; omega
  · rename_i h1
    simp at h1
    obtain ⟨a, b⟩ := F.1 h1
    generalize (nodeFind (.leaf id vals) e).1 = i at *
    generalize (nodeFind (.leaf id vals) e).2.2 = k at *
    obtain ⟨pre, x, post, rfl, hi, -, -⟩ := split1 vals i a
    rw [getD_app _ _ _ _ hi] at b
    subst b
    rw [eraseIdx_app _ _ _ hi]
    have hs := sorted_around (A := pre) (M := [x]) (B := post) (e := x) (by simpa using hp) (by simp)
    have key : firstGt x (pre ++ post) = post.head? := by
      rw [firstGt_append, firstGt_none hs.1, Option.none_or, firstGt_head hs.2]
    have key2 : (pre ++ post)[i]? = post.head? := by
      subst hi; cases post <;> simp
    split
    · rename_i h2
      simp only [elems_leaf, key]
      constructor
      · have := NextSpec.leafIncr id (pre ++ post) (i - 1)
        rw [show i - 1 + 1 = i by omega, key2] at this
        exact this
      · intro _ h3; cases h3
    · rename_i h2
      simp only [elems_leaf, key]
      constructor
      · have := NextSpec.here (.leaf id (pre ++ post)) i
        simp only [Node.vals] at this
        rw [key2] at this
        exact this
      · intro hr _
        subst hr
        cases post with
        | cons y post => simp
        | nil =>
          exfalso
          apply h2
          simp at hpre ⊢
          omega

theorem replace_next {c : Cfg} (hc : c.Valid) {root h' fuel id vals children i e}
    (H : Shape c root (h' + 1) (.inode id vals children)) (hf : h' ≤ fuel)
    (hp : (interleave children vals).Pairwise (· < ·))
    (hi : i < vals.length) (hv : vals.getD i 0 = e)
    (hnb : ¬ ((!c.canRemoveFrom (children.getD i (.leaf 0 [])) && !c.canRemoveFrom (children.getD (i + 1) (.leaf 0 []))) = true)) :
    ∀ p, replaceValue c fuel id vals children i = some p →
      NextSpec p.1 [i] p.2.2.1 (firstGt e p.1.elems) ∧ (p.2.2.1 = false → (firstGt e p.1.elems).isSome = true) := by
  intro p hpv
  have RS := replace_spec hc H hf hp hi hv hnb p hpv
  have hheight := shape_height RS.1
  rw [shape_inode] at H
  obtain ⟨h'', hh, h1, h2, h3, h4, h5⟩ := H
  have : h'' = h' := by omega
  subst this
  rw [replaceValue_eq, if_neg hnb] at hpv
  obtain ⟨pre, l, r, post, rfl, hpre⟩ := split2 children i (by omega)
  obtain ⟨vpre, v, vpost, rfl, hvpre, -, -⟩ := split1 vals i hi
  subst hpre
  rw [getD_app _ _ _ _ hvpre] at hv
  subst hv
  rw [getD_app _ _ _ _ rfl, getD_app1 _ _ _ _ _ rfl] at hpv hnb
  have h5' := h5
  simp only [shapeAll_append, shapeAll_cons] at h5'
  obtain ⟨hs1, hl, hr, hs2⟩ := h5'
  have FL := fromLeft_can (i := pre.length) hl hr hnb
  rw [interleave_append _ _ _ _ hvpre.symm] at hp
  simp only [interleave_cons, suff_cons] at hp
  have hs := sorted_around (A := pref pre vpre ++ l.elems) (M := [v]) (B := r.elems ++ suff post vpost) (e := v)
    (by simpa [List.append_assoc] using hp) (by simp)
  have hrne := elems_ne_nil hc hr
  split at hpv
  · rename_i g
    have M := removeMax_spec hc fuel h'' l hl hf (FL.1 g)
    cases hpv
    simp only [] at hheight ⊢
    have key : firstGt v (Node.inode id ((vpre ++ v :: vpost).set pre.length (removeMax c fuel l).2.1)
        ((pre ++ l :: r :: post).set pre.length (removeMax c fuel l).1)).elems = r.elems.head? := by
      simp only [elems_inode, set_app _ _ _ _ hvpre, set_app _ _ _ _ rfl]
      rw [interleave_append _ _ _ _ hvpre.symm]
      simp only [interleave_cons, suff_cons]
      have hA : ∀ x ∈ pref pre vpre ++ ((removeMax c fuel l).1.elems ++ [(removeMax c fuel l).2.1]), x ≤ v := by
        rw [← M.2]; exact hs.1
      have : pref pre vpre ++ ((removeMax c fuel l).1.elems ++ (removeMax c fuel l).2.1 :: (r.elems ++ suff post vpost))
          = (pref pre vpre ++ ((removeMax c fuel l).1.elems ++ [(removeMax c fuel l).2.1])) ++ (r.elems ++ suff post vpost) := by
        simp
      rw [this, firstGt_append, firstGt_none hA, Option.none_or, firstGt_head hs.2]
      cases hx : r.elems with
      | nil => exact (hrne hx).elim
      | cons a l => simp
    rw [key]
    constructor
    · cases hx : r.elems.head? with
      | none => cases hy : r.elems with
        | nil => exact (hrne hy).elim
        | cons a l => rw [hy] at hx; simp at hx
      | some w =>
        apply NextSpec.inodeIncr
        rw [hheight, set_app _ _ _ _ rfl, getD_app1 _ _ _ _ _ rfl]
        rw [leftmost_deref hc _ _ _ hr (by omega), hx]
    · intro h0; cases h0
  · rename_i g
    have M := removeMin_spec hc fuel h'' r hr hf (FL.2 g)
    cases hpv
    simp only [] at hheight ⊢
    have hm : v < (removeMin c fuel r).2.1 := hs.2 _ (by rw [M.2]; simp)
    have key : firstGt v (Node.inode id ((vpre ++ v :: vpost).set pre.length (removeMin c fuel r).2.1)
        ((pre ++ l :: r :: post).set (pre.length + 1) (removeMin c fuel r).1)).elems = some (removeMin c fuel r).2.1 := by
      simp only [elems_inode, set_app _ _ _ _ hvpre, set_app1 _ _ _ _ _ rfl]
      rw [interleave_append _ _ _ _ hvpre.symm]
      simp only [interleave_cons, suff_cons]
      rw [← List.append_assoc, firstGt_append, firstGt_none hs.1, Option.none_or]
      simp [firstGt, hm]
    rw [key]
    constructor
    · have := NextSpec.here (Node.inode id ((vpre ++ v :: vpost).set pre.length (removeMin c fuel r).2.1)
        ((pre ++ l :: r :: post).set (pre.length + 1) (removeMin c fuel r).1)) pre.length
      simp only [Node.vals, set_app _ _ _ _ hvpre, getElem?_app _ _ _ hvpre] at this
      rw [set_app _ _ _ _ hvpre]
      exact this
    · intro _; rfl

theorem removeNode_next {c : Cfg} (hc : c.Valid) : ∀ fuel h root n e, Shape c root h n → h ≤ fuel →
    n.elems.Pairwise (· < ·) → ((root = true ∧ RootOK c n) ∨ c.canRemoveFrom n = true) → e ∈ n.elems →
    NextSpec (removeNode c fuel n e).node (removeNode c fuel n e).path (removeNode c fuel n e).incr
      (firstGt e (removeNode c fuel n e).node.elems) ∧
    (root = false → (removeNode c fuel n e).incr = false → (firstGt e (removeNode c fuel n e).node.elems).isSome = true) := by
  intro fuel
  induction fuel with
  | zero => intro h root n e H hf; have := shape_pos H; omega
  | succ fuel ih =>
    intro h root n e H hf hp hpre hmem
    cases n with
    | leaf id vals =>
      exact leaf_next hc H hp (by rcases hpre with h1 | h1; exact Or.inl h1.1; exact Or.inr h1) hmem
    | inode id vals children =>
      have H' := H
      rw [shape_inode] at H'
      obtain ⟨h', rfl, h1, h2, h3, h4, h5⟩ := H'
      have hif := inode_fit hc
      simp only [elems_inode] at hp hmem
      have hne : 2 ≤ vals.length ∨ c.canRemoveFrom (children.getD 0 (.leaf 0 [])) = true ∨
          c.canRemoveFrom (children.getD 1 (.leaf 0 [])) = true := by
        rcases hpre with h6 | h6
        · exact h6.2
        · simp at h6; exact Or.inl (by omega)
      have F := nodeFind_spec (.inode id vals children) e (List.Pairwise.sublist (vals_sublist children vals (by omega)) hp)
      simp only [Node.vals] at F
      -- one descent step, given the restructured parent
      have step : ∀ vals' children' i' evs k, children'.length = vals'.length + 1 → i' ≤ vals'.length →
          ShapeAll c h' children' → c.canRemoveFrom (children'.getD i' (.leaf 0 [])) = true →
          (interleave children' vals').Pairwise (· < ·) → e ∈ (children'.getD i' (.leaf 0 [])).elems →
          NextSpec (descStep c fuel id vals' children' i' evs k e).node (descStep c fuel id vals' children' i' evs k e).path
            (descStep c fuel id vals' children' i' evs k e).incr (firstGt e (descStep c fuel id vals' children' i' evs k e).node.elems) ∧
          ((descStep c fuel id vals' children' i' evs k e).incr = false →
            (firstGt e (descStep c fuel id vals' children' i' evs k e).node.elems).isSome = true) := by
        intro vals' children' i' evs k len idx shape can hp' hm'
        have I := ih h' false _ e (shapeAll_getD shape (by omega)) (by omega)
          (List.Pairwise.sublist (child_sublist idx len) hp') (Or.inr can) hm'
        exact desc_next len idx hp' hm' I.1 (I.2 rfl)
      rw [removeNode_inode]
      generalize (nodeFind (.inode id vals children) e).2.2 = k at *
      generalize hi : (nodeFind (.inode id vals children) e).1 = i at *
      split
      · rename_i g1
        obtain ⟨f1, f2⟩ := F.1 g1
        by_cases hnb : (!c.canRemoveFrom (children.getD i (.leaf 0 [])) && !c.canRemoveFrom (children.getD (i + 1) (.leaf 0 []))) = true
        · have hnone : replaceValue c fuel id vals children i = none := by
            rw [replaceValue_eq, if_pos hnb]
          rw [hnone]
          simp only []
          simp only [Bool.and_eq_true, Bool.not_eq_true'] at hnb
          have R := mergeAt_spec hc h4 f1 h5 hnb.1 hnb.2
          have R1 := R.1 _ (Or.inl rfl)
          have := step _ _ i [.free (mergeAt vals children i).2.2] k R1.len R1.idx R1.shape R1.can
            (by rw [R1.elems]; exact hp) (R.2.2 e f2.symm)
          exact ⟨this.1, fun _ => this.2⟩
        · have RS := replace_next (h' := h') (fuel := fuel) hc H (by omega) hp f1 f2 hnb
          cases hpv : replaceValue c fuel id vals children i with
          | none => rw [replaceValue_eq, if_neg hnb] at hpv; split at hpv <;> cases hpv
          | some p =>
            obtain ⟨a, b⟩ := RS p hpv
            obtain ⟨n', out, fl, ev⟩ := p
            exact ⟨a, fun _ => b⟩
      · rename_i g1
        obtain ⟨f1, f2, f3⟩ := F.2 (bool_false_of_not g1)
        have only := only_child h4 f1 hp f2 f3 hmem
        split
        · rename_i g2
          have := step vals children i [] k h4 f1 h5 g2 hp only
          exact ⟨this.1, fun _ => this.2⟩
        · rename_i g2
          have R := fattenChild_spec hc h4 f1 h1 h5 (bool_false_of_not g2) hne
          have := step _ _ _ (fattenChild c vals children i).2.2.2 k R.1.len R.1.idx R.1.shape R.1.can
            (by rw [R.1.elems]; exact hp) (R.1.sub _ only)
          exact ⟨this.1, fun _ => this.2⟩

/-- `remove_main` extended with the position of the `next` iterator -/
theorem remove_main_next {c : Cfg} (hc : c.Valid) (t : Tree) (e : Nat) (h : WF c t) (he : e ∈ t.root.elems) :
    ∃ r : RemOut, t.remove c e = finish t (preRoot c t.root).2 r ∧ r.out = some e ∧
      NextSpec r.node r.path r.incr (firstGt e t.root.elems) := by
  obtain ⟨h2, a, b, d⟩ := preRoot_spec hc h.shape
  refine ⟨_, remove_eq c t e, ?_⟩
  have P := removeNode_spec hc (height (preRoot c t.root).1 + 1) h2 true (preRoot c t.root).1 e a
    (by rw [shape_height a]; omega) (by rw [b]; exact h.sorted) (Or.inl ⟨rfl, d⟩)
  have N := removeNode_next hc (height (preRoot c t.root).1 + 1) h2 true (preRoot c t.root).1 e a
    (by rw [shape_height a]; omega) (by rw [b]; exact h.sorted) (Or.inl ⟨rfl, d⟩) (by rw [b]; exact he)
  obtain ⟨p1, p2, p3⟩ := P
  rw [b] at p2 p3
  rw [if_pos he] at p3
  refine ⟨p3, ?_⟩
  have := N.1
  rw [p2, firstGt_erase] at this
  exact this


end Zix.BTree.Rem
