import ZixModel.Model.Bump
/-! Invariant of the bump-allocator model and its preservation by every request. -/
namespace Zix.Bump

/-- Round up to a multiple of 8 in unbounded arithmetic. -/
def ru8 (n : Nat) : Nat := (n + 7) / 8 * 8

/-- Two blocks occupy different addresses and do not overlap. -/
def Apart (a b : Block) : Prop :=
  (a.off + a.size ≤ b.off ∧ a.off < b.off) ∨ (b.off + b.size ≤ a.off ∧ b.off < a.off)

theorem Apart.symm {a b : Block} (h : Apart a b) : Apart b a := by
  unfold Apart at *; omega

structure Inv (s : State) : Prop where
  capW   : s.base + s.cap < W
  topA   : (s.base + s.top) % 8 = 0
  lastA  : (s.base + s.last) % 8 = 0
  lastLe : s.last ≤ s.top
  topCap : s.top ≤ s.cap ∨ s.live = []
  blk    : ∀ b ∈ s.live, (s.base + b.off) % 8 = 0 ∧ b.off + b.size ≤ s.top ∧ b.off < s.top ∧
             (b.off = s.last ∨ (b.off + b.size ≤ s.last ∧ b.off < s.last)) ∧ b.id < s.next
  disj   : s.live.Pairwise Apart
  ids    : s.live.Pairwise (fun a b => a.id ≠ b.id)

theorem realSize_spec (size : Nat) (hs : size < W) :
    (realSize size < size ∧ W ≤ size + 7) ∨
    (size ≤ realSize size ∧ realSize size = ru8 (if size = 0 then 1 else size) ∧
     0 < realSize size ∧ realSize size % 8 = 0) := by
  unfold realSize roundUp ru8 minAlign W at *
  simp only
  split <;> omega

theorem inv_init (base cap : Nat) (h : base + cap < W) : Inv (init base cap) := by
  unfold init minAlign
  simp only
  constructor <;> simp <;> (try split) <;> omega

theorem mallocRaw_some {s : State} {size off : Nat} {s' : State}
    (h : mallocRaw s size = (s', some off)) :
    off = s.top ∧ s' = { s with last := s.top, top := s.top + realSize size } ∧
    size ≤ realSize size ∧ s.top ≤ s.cap ∧ realSize size ≤ s.cap - s.top := by
  unfold mallocRaw at h
  simp only at h
  split at h
  · simp at h
  · rename_i hc
    simp only [Prod.mk.injEq, Option.some.injEq] at h
    obtain ⟨h1, h2⟩ := h
    refine ⟨h2.symm, h1.symm, ?_, ?_, ?_⟩ <;> omega

theorem mallocRaw_none {s : State} {size : Nat} {s' : State}
    (h : mallocRaw s size = (s', none)) : s' = s := by
  unfold mallocRaw at h
  simp only at h
  split at h
  · simp at h; exact h.symm
  · simp at h

theorem malloc_inv {s : State} (hi : Inv s) (size : Nat) (hs : size < W) :
    Inv (malloc s size).1 := by
  unfold malloc
  cases hm : mallocRaw s size with
  | mk s1 r =>
    cases r with
    | none => simp only; rw [mallocRaw_none hm]; exact hi
    | some off =>
      simp only
      obtain ⟨hoff, hs1, hge, htc, hfit⟩ := mallocRaw_some hm
      subst hoff hs1
      have hrs := realSize_spec size hs
      have hrs' : 0 < realSize size ∧ realSize size % 8 = 0 := by omega
      unfold grant
      simp only
      have htA := hi.topA
      constructor
      · exact hi.capW
      · simp only; omega
      · simp only; exact htA
      · simp only; omega
      · left; simp only; omega
      · intro b hb
        simp only [List.mem_cons] at hb
        rcases hb with hb | hb
        · subst hb; simp only; exact ⟨htA, by omega, by omega, Or.inl trivial, by omega⟩
        · obtain ⟨h1, h2, h3, _, h5⟩ := hi.blk b hb
          simp only
          refine ⟨h1, by omega, by omega, Or.inr ⟨h2, h3⟩, by omega⟩
      · simp only [List.pairwise_cons]
        refine ⟨?_, hi.disj⟩
        intro b hb
        obtain ⟨_, h2, h3, _, _⟩ := hi.blk b hb
        unfold Apart; simp only; omega
      · simp only [List.pairwise_cons]
        refine ⟨?_, hi.ids⟩
        intro b hb
        obtain ⟨_, _, _, _, h5⟩ := hi.blk b hb
        show s.next ≠ b.id
        omega

theorem calloc_inv {s : State} (hi : Inv s) (n m : Nat) :
    Inv (calloc s n m).1 := by
  unfold calloc
  split
  · exact hi
  · rename_i h
    apply malloc_inv hi
    by_cases hm : m = 0
    · subst hm; show n * 0 < W; unfold W; omega
    · have : n ≤ (W - 1) / m := by omega
      have h2 : n * m ≤ (W - 1) / m * m := Nat.mul_le_mul_right m this
      have h3 : (W - 1) / m * m ≤ W - 1 := Nat.div_mul_le_self (W - 1) m
      have : 0 < W := by unfold W; omega
      omega

theorem pairwise_sym_forall {α} {R : α → α → Prop} (hsym : ∀ a b, R a b → R b a) {l : List α}
    (h : l.Pairwise R) {a b : α} (ha : a ∈ l) (hb : b ∈ l) (hne : a ≠ b) : R a b := by
  induction l with
  | nil => simp at ha
  | cons x xs ih =>
    rw [List.pairwise_cons] at h
    simp only [List.mem_cons] at ha hb
    rcases ha with ha | ha <;> rcases hb with hb | hb
    · exact absurd (ha.trans hb.symm) hne
    · subst ha; exact h.1 b hb
    · subst hb; exact hsym _ _ (h.1 a ha)
    · exact ih h.2 ha hb

theorem free_inv {s : State} (hi : Inv s) (id : Nat) : Inv (free s id) := by
  unfold free
  split
  · exact hi
  · rename_i b hb
    have hbm : b ∈ s.live := List.mem_of_find?_eq_some hb
    have hbid : b.id = id := by have := List.find?_some hb; simpa using this
    have hsub : ∀ x ∈ s.live.filter (fun x => x.id ≠ id), x ∈ s.live := fun x hx => (List.mem_filter.mp hx).1
    have hd := hi.disj.filter (fun x => decide (x.id ≠ id))
    have hids := hi.ids.filter (fun x => decide (x.id ≠ id))
    split
    · rename_i hlast
      constructor
      · exact hi.capW
      · exact hi.lastA
      · exact hi.lastA
      · exact Nat.le_refl _
      · simp only
        rcases hi.topCap with h | h
        · left; have := hi.lastLe; omega
        · rw [h] at hbm; simp at hbm
      · intro x hx
        have hxl := hsub x hx
        have hxid : x.id ≠ id := by simpa using (List.mem_filter.mp hx).2
        obtain ⟨h1, h2, h3, h4, h5⟩ := hi.blk x hxl
        simp only
        have hxb : x ≠ b := by intro h; rw [h] at hxid; exact hxid hbid
        have hap : Apart x b := pairwise_sym_forall (fun _ _ h => Apart.symm h) hi.disj hxl hbm hxb
        unfold Apart at hap
        refine ⟨h1, ?_, ?_, ?_, h5⟩ <;> omega
      · exact hd
      · exact hids
    · rename_i hlast
      constructor
      · exact hi.capW
      · exact hi.topA
      · exact hi.lastA
      · exact hi.lastLe
      · rcases hi.topCap with h | h
        · left; exact h
        · rw [h] at hbm; simp at hbm
      · intro x hx
        exact hi.blk x (hsub x hx)
      · exact hd
      · exact hids

theorem realloc_inv {s : State} (hi : Inv s) (off size : Nat) (hs : size < W) :
    Inv (realloc s off size).1 := by
  unfold realloc
  split
  · exact hi
  · rename_i hoff
    have hoff : off = s.last := by omega
    simp only
    split
    · exact hi
    · rename_i hg
      have hrs := realSize_spec size hs
      have hrs' : size ≤ realSize size ∧ 0 < realSize size ∧ realSize size % 8 = 0 := by omega
      have hlA := hi.lastA
      constructor
      · exact hi.capW
      · simp only; omega
      · exact hlA
      · simp only; omega
      · left; simp only; omega
      · intro x hx
        simp only [List.mem_map] at hx
        obtain ⟨b, hb, hxb⟩ := hx
        obtain ⟨h1, h2, h3, h4, h5⟩ := hi.blk b hb
        subst hxb
        simp only
        split
        · rename_i hbo
          simp only
          exact ⟨h1, by omega, by omega, Or.inl (by omega), h5⟩
        · rename_i hbo
          exact ⟨h1, by omega, by omega, Or.inr (by omega), h5⟩
      · simp only
        rw [List.pairwise_map]
        refine List.Pairwise.imp_of_mem ?_ hi.disj
        intro a b ha hb hab
        obtain ⟨_, _, _, ha4, _⟩ := hi.blk a ha
        obtain ⟨_, _, _, hb4, _⟩ := hi.blk b hb
        unfold Apart at *
        split <;> split <;> (try simp only) <;> omega
      · simp only
        rw [List.pairwise_map]
        refine List.Pairwise.imp ?_ hi.ids
        intro a b hab
        split <;> split <;> simpa using hab

theorem roundUp_spec (x a : Nat) (ha : 0 < a) (h8 : 8 ∣ a) (hx : x + a - 1 < W) :
    x ≤ roundUp x a ∧ roundUp x a < x + a ∧ roundUp x a % a = 0 ∧ roundUp x a % 8 = 0 := by
  unfold roundUp
  simp only
  rw [Nat.mod_eq_of_lt hx]
  have hm : (x + a - 1) % a < a := Nat.mod_lt _ ha
  have hd : ((x + a - 1) - (x + a - 1) % a) % a = 0 :=
    Nat.sub_mod_eq_zero_of_mod_eq (by rw [Nat.mod_mod])
  refine ⟨by omega, by omega, hd, ?_⟩
  have := Nat.mod_mod_of_dvd ((x + a - 1) - (x + a - 1) % a) h8
  rw [hd] at this
  simpa using this.symm

theorem alignedAlloc_inv {s : State} (hi : Inv s) (a size : Nat) (ha : 0 < a) (h8 : 8 ∣ a) (haW : a < W)
    (hs : size < W) : Inv (alignedAlloc s a size).1 := by
  unfold alignedAlloc
  simp only
  split
  · exact hi
  · rename_i hg
    have hcw := hi.capW
    have hta : (s.base + s.top) % W = s.base + s.top := Nat.mod_eq_of_lt (by omega)
    rw [hta] at hg ⊢
    by_cases hw : s.base + s.top + a - 1 < W
    · obtain ⟨r1, r2, r3, r4⟩ := roundUp_spec (s.base + s.top) a ha h8 hw
      have hoff : (roundUp (s.base + s.top) a + W - (s.base + s.top)) % W
          = roundUp (s.base + s.top) a - (s.base + s.top) := by
        have : roundUp (s.base + s.top) a + W - (s.base + s.top)
            = (roundUp (s.base + s.top) a - (s.base + s.top)) + W := by omega
        rw [this, Nat.add_mod_right]
        apply Nat.mod_eq_of_lt; unfold W at *; omega
      rw [hoff] at hg ⊢
      have hi2 : Inv { s with top := s.top + (roundUp (s.base + s.top) a - (s.base + s.top)) } := by
        constructor
        · exact hcw
        · simp only
          have : s.base + (s.top + (roundUp (s.base + s.top) a - (s.base + s.top))) = roundUp (s.base + s.top) a := by omega
          rw [this]; exact r4
        · exact hi.lastA
        · simp only; have := hi.lastLe; omega
        · left; simp only; omega
        · intro b hb
          obtain ⟨h1, h2, h3, h4, h5⟩ := hi.blk b hb
          exact ⟨h1, by simp only; omega, by simp only; omega, h4, h5⟩
        · exact hi.disj
        · exact hi.ids
      have hm := malloc_inv hi2 size hs
      cases hmm : malloc { s with top := s.top + (roundUp (s.base + s.top) a - (s.base + s.top)) } size with
      | mk s' r =>
        rw [hmm] at hm
        cases r with
        | none => exact hi
        | some o => exact hm
    · -- the rounding wrapped around: the offset is huge and the request was refused
      exfalso
      apply hg
      right
      have hx : (s.base + s.top + a - 1) % W = s.base + s.top + a - 1 - W := by
        have : s.base + s.top + a - 1 = (s.base + s.top + a - 1 - W) + W := by omega
        rw [this, Nat.add_mod_right, ← this]
        exact Nat.mod_eq_of_lt (by omega)
      have hr : roundUp (s.base + s.top) a ≤ s.base + s.top + a - 1 - W := by
        unfold roundUp; simp only; rw [hx]; exact Nat.sub_le _ _
      have hlt : roundUp (s.base + s.top) a + W - (s.base + s.top) < W := by omega
      rw [Nat.mod_eq_of_lt hlt]
      omega

theorem malloc_result (s : State) (n : Nat) :
    ((realSize n < n ∨ s.top > s.cap ∨ realSize n > s.cap - s.top) ∧ malloc s n = (s, none)) ∨
    (¬(realSize n < n ∨ s.top > s.cap ∨ realSize n > s.cap - s.top) ∧
      malloc s n = (grant { s with last := s.top, top := s.top + realSize n } s.top n, some s.top)) := by
  unfold malloc mallocRaw
  by_cases h : realSize n < n ∨ s.top > s.cap ∨ realSize n > s.cap - s.top
  · left; simp [h]
  · right; simp [h]

theorem realloc_result (s : State) (off n : Nat) :
    ((off ≠ s.last ∨ s.last ≥ s.top ∨ realSize n < n ∨ s.last > s.cap ∨ realSize n > s.cap - s.last) ∧
      realloc s off n = (s, none)) ∨
    (¬(off ≠ s.last ∨ s.last ≥ s.top ∨ realSize n < n ∨ s.last > s.cap ∨ realSize n > s.cap - s.last) ∧
      realloc s off n =
        ({ s with top := s.last + realSize n,
                  live := s.live.map (fun b => if b.off = off then { b with size := n } else b) },
         some off)) := by
  unfold realloc
  by_cases h1 : off ≠ s.last ∨ s.last ≥ s.top
  · left
    refine ⟨?_, by simp [h1]⟩
    rcases h1 with h | h
    · exact Or.inl h
    · exact Or.inr (Or.inl h)
  · by_cases h2 : realSize n < n ∨ s.last > s.cap ∨ realSize n > s.cap - s.last
    · left; exact ⟨Or.inr (Or.inr h2), by simp [h1, h2]⟩
    · right
      constructor
      · intro h; rcases h with h | h | h
        · exact h1 (Or.inl h)
        · exact h1 (Or.inr h)
        · exact h2 h
      · simp only [h1, if_false, h2]

theorem mul_lt_W_of_guard {n m : Nat} (h : ¬(m ≠ 0 ∧ n > (W - 1) / m)) : n * m < W := by
  by_cases hm0 : m = 0
  · subst hm0; show n * 0 < W; unfold W; omega
  · have : n ≤ (W - 1) / m := by omega
    have h2 : n * m ≤ (W - 1) / m * m := Nat.mul_le_mul_right m this
    have h3 : (W - 1) / m * m ≤ W - 1 := Nat.div_mul_le_self (W - 1) m
    have : 0 < W := by unfold W; omega
    omega

end Zix.Bump
