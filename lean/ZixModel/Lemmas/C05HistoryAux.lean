import ZixModel.Properties.C05
/-! Ring-level helper lemmas for `Properties/C05History.lean`: the one-call facts of `Properties/C05.lean`
without the `n < W32` side condition, plus the frame facts (`size`, heads, `tx.r`) that the one-call
theorems do not state. -/
namespace Zix.C05
open Zix.Ring

theorem WF.toR {g : Ring} (h : WF g) : RWF g := ⟨h.pow, h.rlt, h.wlt, h.blen⟩
theorem WF.ofR {g : Ring} (h : RWF g) : WF g := ⟨h.pow, h.rlt, h.wlt, h.blen⟩
theorem TxOk.toR {g : Ring} {tx : Tx} {p : List Nat} (h : TxOk g tx p) : RTx g tx p :=
  ⟨h.rlt, h.wlt, h.fits, h.pend, h.bytes⟩
theorem TxOk.ofR {g : Ring} {tx : Tx} {p : List Nat} (h : RTx g tx p) : TxOk g tx p :=
  ⟨h.rlt, h.wlt, h.fits, h.pend, h.bytes⟩

theorem capacity_size {g : Ring} (h : WF g) : capacity g = g.size - 1 := capacity_eq g h.pow

theorem write_space_eq {g : Ring} (h : WF g) : writeSpace g = g.size - 1 - (content g).length := by
  have h1 := ring_space_sum g h
  rw [capacity_size h, ← read_space_eq_length g] at h1
  omega

/-- consuming `n ≤ readSpace` bytes (the state change of a successful `read` / `skip`) -/
theorem consume_all {g : Ring} (h : WF g) {n : Nat} (hn : n ≤ readSpace g) :
    WF { g with r := (g.r + n) % g.size } ∧
    content { g with r := (g.r + n) % g.size } = (content g).drop n ∧
    ∀ tx p, TxOk g tx p → TxOk { g with r := (g.r + n) % g.size } tx p := by
  obtain ⟨hw, hc, ht⟩ := consume_ok h.toR hn
  exact ⟨WF.ofR hw, hc, fun tx p h' => TxOk.ofR (ht tx p h'.toR)⟩

theorem read_cases {g : Ring} (h : WF g) (n : Nat) :
    (n ≤ readSpace g ∧
      read g n = ({ g with r := (g.r + n) % g.size }, some ((content g).take n))) ∨
    (readSpace g < n ∧ read g n = (g, none)) := by
  have he := read_eq h.toR n
  by_cases hlt : readSpace g < n
  · rw [if_pos hlt] at he
    exact Or.inr ⟨hlt, he⟩
  · rw [if_neg hlt] at he
    exact Or.inl ⟨by omega, he⟩

theorem skip_cases {g : Ring} (h : WF g) (n : Nat) :
    (n ≤ readSpace g ∧ skip g n = ({ g with r := (g.r + n) % g.size }, true)) ∨
    (readSpace g < n ∧ skip g n = (g, false)) := by
  have he := skip_eq h.toR n
  by_cases hlt : readSpace g < n
  · rw [if_pos hlt] at he
    exact Or.inr ⟨hlt, he⟩
  · rw [if_neg hlt] at he
    exact Or.inl ⟨by omega, he⟩

/-- Skipping while a transaction is open keeps it consistent (the analogue of `tx_survives_read`). -/
theorem tx_survives_skip (g : Ring) (h : WF g) (tx : Tx) (p : List Nat) (ht : TxOk g tx p)
    (n : Nat) : TxOk (skip g n).1 tx p := by
  rcases skip_cases h n with ⟨hle, e⟩ | ⟨_, e⟩
  · rw [e]
    exact (consume_all h hle).2.2 tx p ht
  · rw [e]
    exact ht

/-- what `amend` leaves alone -/
theorem amend_frame {g g' : Ring} {tx tx' : Tx} {d : List Nat}
    (h : amend g tx d = some (g', tx')) :
    g'.size = g.size ∧ g'.r = g.r ∧ g'.w = g.w ∧ tx'.r = tx.r := by
  unfold amend at h
  simp only [] at h
  split at h
  · cases h
  · split at h
    · injection h with h
      injection h with h1 h2
      subst h1; subst h2
      exact ⟨rfl, rfl, rfl, rfl⟩
    · injection h with h
      injection h with h1 h2
      subst h1; subst h2
      exact ⟨rfl, rfl, rfl, rfl⟩

theorem write_size (g : Ring) (d : List Nat) : (write g d).1.size = g.size := by
  cases h : amend g (beginWrite g) d with
  | none => rw [write_of_none g d h]
  | some r =>
    obtain ⟨g', tx'⟩ := r
    rw [write_of_some g g' tx' d h]
    exact (amend_frame h).1

/-- `write` in the shape used by the history proof: an explicit result pair (so that no proof has to
look inside `(write g d).1`) -/
theorem write_cases {g : Ring} (h : WF g) (d : List Nat) :
    (d.length ≤ writeSpace g ∧ ∃ g', write g d = (g', d.length) ∧ WF g' ∧
      content g' = content g ++ d ∧ g'.size = g.size) ∨
    (writeSpace g < d.length ∧ write g d = (g, 0)) := by
  by_cases hd : d.length ≤ writeSpace g
  · obtain ⟨e1, e2, e3⟩ := (write_refines g h d).1 hd
    have e4 := write_size g d
    revert e1 e2 e3 e4
    generalize write g d = r
    obtain ⟨g', k⟩ := r
    intro e1 e2 e3 e4
    have e1' : k = d.length := e1
    subst e1'
    exact Or.inl ⟨hd, g', rfl, e2, e3, e4⟩
  · exact Or.inr ⟨by omega, (write_refines g h d).2 (by omega)⟩

/-- the free space a transaction sees plus what it has amended is unchanged by a successful amend -/
theorem amend_budget {g g' : Ring} {tx tx' : Tx} {p d : List Nat} (h : WF g) (h' : WF g')
    (ht : TxOk g tx p) (ht' : TxOk g' tx' (p ++ d)) (e : amend g tx d = some (g', tx')) :
    writeSpaceAt g' tx'.r tx'.w + (p ++ d).length = writeSpaceAt g tx.r tx.w + p.length := by
  obtain ⟨hs, hr, hw, htr⟩ := amend_frame e
  have h1 := tx_write_space g h tx p ht
  have h2 := tx_write_space g' h' tx' (p ++ d) ht'
  have e1 : readSpace g' = readSpace g := by
    show (g'.w + W32 - g'.r) % W32 % g'.size = (g.w + W32 - g.r) % W32 % g.size
    rw [hs, hr, hw]
  rw [e1, hs, hr, htr] at h2
  rw [htr]
  omega

end Zix.C05
