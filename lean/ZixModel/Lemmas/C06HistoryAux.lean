/-! List facts used by `ZixModel/Properties/C06History.lean` (core only). -/
namespace Zix.C06Aux

/-- In a list whose keys are strictly ascending, the first element with key `e` is THE element
with key `e`. -/
theorem find?_key_of_mem (l : List (Nat × Int)) (i : Nat) (e : Int)
    (hs : (l.map (·.2)).Pairwise (· < ·)) (hm : (i, e) ∈ l) :
    l.find? (fun p => p.2 == e) = some (i, e) := by
  induction l with
  | nil => cases hm
  | cons q l ih =>
    rw [List.map_cons, List.pairwise_cons] at hs
    obtain ⟨hq, hs⟩ := hs
    rw [List.find?_cons]
    rcases List.mem_cons.1 hm with hm | hm
    · subst hm
      have : ((i, e).2 == e) = true := by simp only [beq_self_eq_true]
      rw [this]
    · have hlt : q.2 < e := hq e (List.mem_map.2 ⟨(i, e), hm, rfl⟩)
      have : (q.2 == e) = false := by
        rw [beq_eq_false_iff_ne]; omega
      rw [this]
      exact ih hs hm

theorem find?_key_none (l : List (Nat × Int)) (e : Int) (h : e ∉ l.map (·.2)) :
    l.find? (fun p => p.2 == e) = none := by
  rw [List.find?_eq_none]
  intro x hx hxe
  apply h
  have : x.2 = e := by simpa using hxe
  exact List.mem_map.2 ⟨x, hx, this⟩

/-- With unique first components, `lookup` returns the second component of any member. -/
theorem lookup_of_mem (l : List (Nat × Int)) (i : Nat) (k : Int)
    (hn : (l.map (·.1)).Nodup) (hm : (i, k) ∈ l) : l.lookup i = some k := by
  induction l with
  | nil => cases hm
  | cons q l ih =>
    obtain ⟨qi, qk⟩ := q
    rw [List.map_cons, List.nodup_cons] at hn
    obtain ⟨hq, hn⟩ := hn
    rw [List.lookup_cons]
    rcases List.mem_cons.1 hm with hm' | hm'
    · have h1 : i = qi := congrArg Prod.fst hm'
      have h2 : k = qk := congrArg Prod.snd hm'
      subst h1; subst h2
      simp only [beq_self_eq_true]
    · have hne : i ≠ qi := by
        intro h; subst h
        exact hq (List.mem_map.2 ⟨(i, k), hm', rfl⟩)
      have : (i == qi) = false := by rw [beq_eq_false_iff_ne]; exact hne
      rw [this]
      exact ih hn hm'

end Zix.C06Aux
