import ZixModel.Properties.C06History
/-! Helper lemmas for `ZixModel/Properties/C08Avl.lean` (core only): the shape of one `treeStep`
in terms of the node blocks `id + 1` of the stored elements. -/
namespace Zix.C08AvlAux
open Zix.Avl Zix.C06

/-- The node blocks of the stored elements. -/
def live (t : Tree) : List Nat := t.root.inorder.map (fun (p : Nat × Int) => p.1 + 1)

/-- Filtering out the (unique) element with first component `id` removes exactly one image. -/
theorem map_filter_perm (f : Nat → Nat) (id : Nat) (l : List (Nat × Int))
    (hnd : (l.map (·.1)).Nodup) (hin : id ∈ l.map (·.1)) :
    (l.map (fun p => f p.1)).Perm
      (f id :: (l.filter (fun p => p.1 ≠ id)).map (fun p => f p.1)) := by
  induction l with
  | nil => cases hin
  | cons q l ih =>
    rw [List.map_cons, List.nodup_cons] at hnd
    obtain ⟨hq, hnd⟩ := hnd
    by_cases hqi : q.1 = id
    · -- `q` is the element; it does not occur in the tail, so the filter keeps the whole tail
      have hkeep : l.filter (fun p => p.1 ≠ id) = l := by
        rw [List.filter_eq_self]
        intro a ha
        have : a.1 ≠ id := by
          intro h
          apply hq
          rw [hqi, ← h]
          exact List.mem_map.2 ⟨a, ha, rfl⟩
        simp only [ne_eq, this, not_false_eq_true, decide_true]
      have hdrop : (q :: l).filter (fun p => p.1 ≠ id) = l := by
        rw [List.filter_cons]
        have : decide (q.1 ≠ id) = false := by
          simp only [ne_eq, hqi, not_true_eq_false, decide_false]
        rw [this]
        simp only [Bool.false_eq_true, if_false]
        exact hkeep
      rw [hdrop, List.map_cons, hqi]
    · have hin' : id ∈ l.map (·.1) := by
        rw [List.map_cons, List.mem_cons] at hin
        rcases hin with h | h
        · exact absurd h.symm hqi
        · exact h
      have hkeep : (q :: l).filter (fun p => p.1 ≠ id) = q :: l.filter (fun p => p.1 ≠ id) := by
        rw [List.filter_cons]
        have : decide (q.1 ≠ id) = true := by
          simp only [ne_eq, hqi, not_false_eq_true, decide_true]
        rw [this]
        simp only [if_true]
      rw [hkeep, List.map_cons, List.map_cons]
      exact ((ih hnd hin').cons (f q.1)).trans (List.Perm.swap _ _ _)

theorem ins_shape (t : Tree) (h : TreeInv t) (e : Int) :
    (∃ i, treeStep t (.ins e) = (t, .exists_ i)) ∨
    (∃ t', treeStep t (.ins e) = (t', .inserted t.next) ∧ t'.next = t.next + 1 ∧
      (live t').Perm ((t.next + 1) :: live t)) := by
  rcases insertAux_cases t h e with ⟨i, hx, _⟩ | ⟨r, g, hres, _, hI⟩
  · refine Or.inl ⟨i, ?_⟩
    simp only [treeStep, Tree.insert, hx]
  · refine Or.inr ⟨{ t with root := r, size := t.size + 1, next := t.next + 1 }, ?_, rfl, ?_⟩
    · simp only [treeStep, Tree.insert, hres]
    · show (r.inorder.map (fun (p : Nat × Int) => p.1 + 1)).Perm _
      rw [hI, listInsert_eq_lins]
      exact (lins_perm e t.next t.root.inorder).map _

theorem insFail_shape (t : Tree) (e : Int) :
    (∃ i, treeStep t (.insFail e) = (t, .exists_ i)) ∨ treeStep t (.insFail e) = (t, .noMem) := by
  cases hx : insertAux t.dups e t.next t.root with
  | exists_ i =>
    refine Or.inl ⟨i, ?_⟩
    simp only [treeStep, Tree.insertMayFail, hx]
  | done r g =>
    refine Or.inr ?_
    simp only [treeStep, Tree.insertMayFail, hx, Bool.false_eq_true, if_false]

theorem rm_shape (t : Tree) (h : TreeInv t) (id : Nat) :
    treeStep t (.rm id) = (t, .badIter) ∨
    (∃ t', treeStep t (.rm id) = (t', .removed) ∧ t'.next = t.next ∧
      (live t).Perm ((id + 1) :: live t')) := by
  by_cases hin : id ∈ t.root.inorder.map (·.1)
  · obtain ⟨r, s, hres, _, hI, _⟩ := remove_spec t.root h.bal id h.nodup hin
    have hR : t.remove id = some { t with root := r, size := t.size - 1 } := by
      simp only [Tree.remove, hres]
    refine Or.inr ⟨{ t with root := r, size := t.size - 1 }, ?_, rfl, ?_⟩
    · simp only [treeStep, hR]
    · show (t.root.inorder.map (fun (p : Nat × Int) => p.1 + 1)).Perm
        ((id + 1) :: r.inorder.map (fun (p : Nat × Int) => p.1 + 1))
      rw [hI]
      exact map_filter_perm (· + 1) id t.root.inorder h.nodup hin
  · have hR : t.remove id = none := by
      simp only [Tree.remove, remove_absent t.root id hin]
    refine Or.inl ?_
    simp only [treeStep, hR]

theorem find_shape (t : Tree) (e : Int) :
    treeStep t (.find e) = (t, .notFound) ∨ ∃ k, treeStep t (.find e) = (t, .found k) := by
  cases hf : (find e t.root 0).1 with
  | none =>
    refine Or.inl ?_
    simp only [treeStep, hf]
  | some i =>
    cases hl : t.root.inorder.lookup i with
    | none =>
      refine Or.inl ?_
      simp only [treeStep, hf, hl]
    | some k =>
      refine Or.inr ⟨k, ?_⟩
      simp only [treeStep, hf, hl]

end Zix.C08AvlAux
