import ZixModel.Model.FsLink
import ZixModel.Lemmas.Fs
/-! Helper lemmas for `Properties/C15Link.lean`: where the component iterator cuts a path, and the
walk of `createDirectoriesG` over an arbitrary list of frames. -/
namespace Zix.C15LinkAux
open Zix.Path Zix.Path.Rel Zix.FsLink

/-! ## where the iterator cuts -/

/-- `k` is a place where `zix_create_directories` chops the path: non-empty, inside the string, and
either the end or just before a separator. -/
def Cut (s : List Nat) (k : Nat) : Prop :=
  0 < k ∧ k ≤ s.length ∧ (k = s.length ∨ isSep (s.getD k 0) = true)

theorem framesG_facts (s : List Nat) (h0 : 0 ∉ s) : ∀ fuel e, s.length - e ≤ fuel →
    (∀ f ∈ frames s fuel (G s e), f.state = .fileName ∧ Cut s f.range.2) ∧
    (frames s fuel (G s e) = [] → s.drop e = []) ∧
    (∀ f, (frames s fuel (G s e)).getLast? = some f → f.range.2 = s.length) := by
  intro fuel
  induction fuel with
  | zero =>
    intro e h
    have : s.drop e = [] := by rw [List.drop_eq_nil_iff]; omega
    simp [frames, this]
  | succ fuel ih =>
    intro e h
    by_cases hs : s.drop e = []
    · rw [G_nil s h0 e hs, frames_end]
      simp [hs]
    · obtain ⟨hst, hlt, _, _, _⟩ := G_step s h0 e hs
      obtain ⟨_, hdrop⟩ := Zix.Fs.take_G s h0 e hs
      have hlen : e < s.length := by
        have : ¬ s.length ≤ e := fun hh => hs (List.drop_eq_nil_iff.2 hh)
        omega
      have hle : (G s e).range.2 ≤ s.length := by
        rw [G_cons s h0 e hs]
        show e + _ + _ ≤ _
        have a1 := length_takeWhile_add_dropWhile isSep (s.drop e)
        have a2 := length_takeWhile_add_dropWhile notSep ((s.drop e).dropWhile isSep)
        rw [List.length_drop] at a1
        omega
      have hcut : Cut s (G s e).range.2 := by
        refine ⟨by omega, hle, ?_⟩
        cases hd : s.drop (G s e).range.2 with
        | nil =>
          left
          have := List.drop_eq_nil_iff.1 hd
          omega
        | cons c r =>
          right
          have h1 : at' s (G s e).range.2 = c := by rw [at'_eq_headD, hd]; rfl
          have h2 := List.head_dropWhile_not notSep (l := (s.drop e).dropWhile isSep)
            (by rw [← hdrop, hd]; simp)
          have h3 : (((s.drop e).dropWhile isSep).dropWhile notSep).head (by rw [← hdrop, hd]; simp) = c := by
            have : ((s.drop e).dropWhile isSep).dropWhile notSep = c :: r := by rw [← hdrop, hd]
            simp [this]
          rw [h3] at h2
          show isSep (at' s (G s e).range.2) = true
          rw [h1]
          simpa [notSep] using h2
      obtain ⟨i1, i2, i3⟩ := ih (G s e).range.2 (by omega)
      have hfr : frames s (fuel + 1) (G s e) = G s e :: frames s fuel (G s (G s e).range.2) := by
        rw [frames, if_neg (by rw [hst]; simp), next_of_fileName s _ hst]
      rw [hfr]
      refine ⟨?_, by simp, ?_⟩
      · intro f hf
        rcases List.mem_cons.1 hf with hf | hf
        · subst hf; exact ⟨hst, hcut⟩
        · exact i1 f hf
      · intro f hf
        cases hr : frames s fuel (G s (G s e).range.2) with
        | nil =>
          rw [hr] at hf
          simp at hf
          subst hf
          have := List.drop_eq_nil_iff.1 (i2 hr)
          omega
        | cons g rest =>
          rw [hr, List.getLast?_cons_cons, ← hr] at hf
          exact i3 f hf

theorem dropWhile_nil_all {α} (p : α → Bool) : ∀ l : List α, l.dropWhile p = [] → ∀ c ∈ l, p c = true := by
  intro l
  induction l with
  | nil => intro _ c hc; simp at hc
  | cons a l ih =>
    intro h c hc
    by_cases ha : p a = true
    · rw [List.dropWhile_cons_of_pos ha] at h
      rcases List.mem_cons.1 hc with hc | hc
      · subst hc; exact ha
      · exact ih h c hc
    · rw [List.dropWhile_cons_of_neg ha] at h
      simp at h

/-- The prefixes `zix_create_directories` visits, for a non-empty NUL-free path: every one is a cut
position; the last one is the whole path; there is none exactly when the path is all separators. -/
theorem fileFrames_facts (s : List Nat) (h0 : 0 ∉ s) (hs : s ≠ []) :
    (∀ f ∈ (allFrames s).filter (fun f => f.state = .fileName), Cut s f.range.2) ∧
    ((allFrames s).filter (fun f => f.state = .fileName) = [] → ∀ c ∈ s, isSep c = true) ∧
    (∀ f, ((allFrames s).filter (fun f => f.state = .fileName)).getLast? = some f → f.range.2 = s.length) := by
  unfold allFrames
  cases hr : isSep (at' s 0) with
  | false =>
    rw [begin_noroot s hr]
    obtain ⟨i1, i2, i3⟩ := framesG_facts s h0 (s.length + 2) 0 (by omega)
    have hfil : (frames s (s.length + 2) (G s 0)).filter (fun f => f.state = .fileName) =
        frames s (s.length + 2) (G s 0) := by
      rw [List.filter_eq_self]
      intro f hf
      simp [(i1 f hf).1]
    rw [hfil]
    refine ⟨fun f hf => (i1 f hf).2, ?_, i3⟩
    intro h
    exact absurd (by simpa using i2 h) hs
  | true =>
    rw [begin_root s hr]
    have hfr : frames s (s.length + 2) ⟨(0, 1), .rootDir⟩ =
        ⟨(0, 1), .rootDir⟩ :: frames s (s.length + 1) (G s (skipSeps s (s.length + 1) 1)) := by
      rw [frames, if_neg (by simp), next_rootDir]
    rw [hfr, List.filter_cons_of_neg (by simp)]
    obtain ⟨i1, i2, i3⟩ := framesG_facts s h0 (s.length + 1) (skipSeps s (s.length + 1) 1) (by omega)
    have hfil : (frames s (s.length + 1) (G s (skipSeps s (s.length + 1) 1))).filter
        (fun f => f.state = .fileName) = frames s (s.length + 1) (G s (skipSeps s (s.length + 1) 1)) := by
      rw [List.filter_eq_self]
      intro f hf
      simp [(i1 f hf).1]
    rw [hfil]
    refine ⟨fun f hf => (i1 f hf).2, ?_, i3⟩
    intro h
    have := i2 h
    rw [drop_skipSeps_one s hr] at this
    exact dropWhile_nil_all isSep s this

/-! ## the walk over a list of frames -/

section go
variable {σ : Type} (isDir : σ → List Nat → Bool) (mkdir : σ → List Nat → σ × Option Int) (s : List Nat)

theorem go_nil (t : σ) : createDirectoriesG.go isDir mkdir s [] t = (t, 0) := by
  rw [createDirectoriesG.go]

theorem go_cons_dir (f : PathIter) (rest : List PathIter) (t : σ) (h : isDir t (s.take f.range.2) = true) :
    createDirectoriesG.go isDir mkdir s (f :: rest) t = createDirectoriesG.go isDir mkdir s rest t := by
  rw [createDirectoriesG.go]
  simp only [h, if_true]

theorem go_cons_ok (f : PathIter) (rest : List PathIter) (t t' : σ) (h : isDir t (s.take f.range.2) = false)
    (hm : mkdir t (s.take f.range.2) = (t', none)) :
    createDirectoriesG.go isDir mkdir s (f :: rest) t = createDirectoriesG.go isDir mkdir s rest t' := by
  rw [createDirectoriesG.go]
  simp only [h, hm, Bool.false_eq_true, if_false]

theorem go_cons_err (f : PathIter) (rest : List PathIter) (t t' : σ) (e : Int)
    (h : isDir t (s.take f.range.2) = false) (hm : mkdir t (s.take f.range.2) = (t', some e)) :
    createDirectoriesG.go isDir mkdir s (f :: rest) t = (t', Zix.Errno.errnoStatus e) := by
  rw [createDirectoriesG.go]
  simp only [h, hm, Bool.false_eq_true, if_false]

end go

end Zix.C15LinkAux
