import ZixModel.Model.FsLink
import ZixModel.Lemmas.Fs
/-! Helper lemmas for `Properties/C15LinkInst.lean`: path resolution with symbolic links (`walk`)
— one-step view, fuel monotonicity, splitting and joining walks, stability under adding nodes —
and the facts about `comps` of prefixes. -/
namespace Zix.FsLink
open Zix.Path

/-! ## one step of the walk -/

/-- One step of `walk`: the next physical directory and the components spliced in front of the rest. -/
def step (t : Tree) (cur : List (List Nat)) (c : List Nat) :
    Except Int (List (List Nat) × List (List Nat)) :=
  match t.lookup cur with
  | some .dir =>
    if c = [dot] then .ok (cur, [])
    else if c = [dot, dot] then .ok (cur.dropLast, [])
    else
      match t.lookup (cur ++ [c]) with
      | none => .error 2
      | some (.link tgt) => .ok (if isSep (tgt.headD 0) then [] else cur, comps tgt)
      | some _ => .ok (cur ++ [c], [])
  | some _ => .error 20
  | none => .error 2

theorem walk_zero (t : Tree) (cur : List (List Nat)) (cs : List (List Nat)) :
    walk t 0 cur cs = .error 40 := by
  unfold walk; rfl

theorem walk_nil (t : Tree) (f : Nat) (cur : List (List Nat)) : walk t (f + 1) cur [] = .ok cur := by
  unfold walk; rfl

theorem walk_cons (t : Tree) (f : Nat) (cur : List (List Nat)) (c : List Nat) (rest : List (List Nat)) :
    walk t (f + 1) cur (c :: rest) =
      match step t cur c with
      | .ok (cur', X) => walk t f cur' (X ++ rest)
      | .error e => .error e := by
  rw [walk.eq_3]
  unfold step
  cases h1 : t.lookup cur with
  | none => rfl
  | some k =>
    cases k with
    | file => rfl
    | link tgt => rfl
    | dir =>
      simp only
      by_cases hd : c = [dot]
      · simp only [hd, if_true, List.nil_append]
      · simp only [hd, if_false]
        by_cases hdd : c = [dot, dot]
        · simp only [hdd, if_true, List.nil_append]
        · simp only [hdd, if_false]
          cases h2 : t.lookup (cur ++ [c]) with
          | none => rfl
          | some k2 =>
            cases k2 with
            | dir => simp only [List.nil_append]
            | file => simp only [List.nil_append]
            | link tgt => rfl

theorem step_error (t : Tree) (cur : List (List Nat)) (c : List Nat) (e : Int)
    (h : step t cur c = .error e) : e ≠ 0 := by
  unfold step at h
  repeat' split at h
  all_goals first
    | (cases h; decide)
    | cases h

theorem walk_error (t : Tree) : ∀ f cur cs e, walk t f cur cs = .error e → e ≠ 0 := by
  intro f
  induction f with
  | zero => intro cur cs e h; rw [walk_zero] at h; cases h; decide
  | succ f ih =>
    intro cur cs e h
    cases cs with
    | nil => rw [walk_nil] at h; cases h
    | cons c rest =>
      rw [walk_cons] at h
      cases hs : step t cur c with
      | error e' => rw [hs] at h; cases h; exact step_error t cur c _ hs
      | ok r => rw [hs] at h; exact ih _ _ _ h

/-- More fuel never hurts. -/
theorem walk_succ (t : Tree) : ∀ f cur cs p, walk t f cur cs = .ok p → walk t (f + 1) cur cs = .ok p := by
  intro f
  induction f with
  | zero => intro cur cs p h; rw [walk_zero] at h; cases h
  | succ f ih =>
    intro cur cs p h
    cases cs with
    | nil => rw [walk_nil] at h ⊢; exact h
    | cons c rest =>
      rw [walk_cons] at h ⊢
      cases hs : step t cur c with
      | error e' => rw [hs] at h; cases h
      | ok r => rw [hs] at h; exact ih _ _ _ h

theorem walk_add (t : Tree) (f : Nat) (cur : List (List Nat)) (cs : List (List Nat)) (p : List (List Nat))
    (h : walk t f cur cs = .ok p) : ∀ g, walk t (f + g) cur cs = .ok p := by
  intro g
  induction g with
  | zero => exact h
  | succ g ih => exact walk_succ t _ _ _ _ ih

theorem walk_le_fuel (t : Tree) (f g : Nat) (hfg : f ≤ g) (cur : List (List Nat)) (cs : List (List Nat))
    (p : List (List Nat)) (h : walk t f cur cs = .ok p) : walk t g cur cs = .ok p := by
  have := walk_add t f cur cs p h (g - f)
  rwa [show f + (g - f) = g by omega] at this

/-- A successful walk over `cs1 ++ cs2` passes through the end of `cs1`. -/
theorem walk_split (t : Tree) : ∀ f cur cs1 cs2 p, walk t f cur (cs1 ++ cs2) = .ok p →
    ∃ q, walk t f cur cs1 = .ok q ∧ walk t f q cs2 = .ok p := by
  intro f
  induction f with
  | zero => intro cur cs1 cs2 p h; rw [walk_zero] at h; cases h
  | succ f ih =>
    intro cur cs1 cs2 p h
    cases cs1 with
    | nil => exact ⟨cur, walk_nil t f cur, h⟩
    | cons c rest =>
      rw [List.cons_append, walk_cons] at h
      rw [walk_cons]
      cases hs : step t cur c with
      | error e' => rw [hs] at h; cases h
      | ok r =>
        rw [hs] at h
        simp only at h ⊢
        rw [← List.append_assoc] at h
        obtain ⟨q, h1, h2⟩ := ih _ _ _ _ h
        exact ⟨q, h1, walk_succ t _ _ _ _ h2⟩

/-- Two walks joined: the step that ends the first walk is not needed. -/
theorem walk_join (t : Tree) (g : Nat) (q : List (List Nat)) (cs2 : List (List Nat)) (p : List (List Nat))
    (h2 : walk t g q cs2 = .ok p) : ∀ f cur cs1, walk t (f + 1) cur cs1 = .ok q →
    walk t (f + g) cur (cs1 ++ cs2) = .ok p := by
  intro f
  induction f with
  | zero =>
    intro cur cs1 h1
    cases cs1 with
    | nil =>
      rw [walk_nil] at h1; cases h1
      simpa using h2
    | cons c rest =>
      rw [walk_cons] at h1
      cases hs : step t cur c with
      | error e' => rw [hs] at h1; cases h1
      | ok r => rw [hs] at h1; simp only [walk_zero] at h1; cases h1
  | succ f ih =>
    intro cur cs1 h1
    cases cs1 with
    | nil =>
      rw [walk_nil] at h1; cases h1
      rw [List.nil_append, Nat.add_comm]
      exact walk_add t g _ _ _ h2 _
    | cons c rest =>
      rw [walk_cons] at h1
      rw [show f + 1 + g = (f + g) + 1 by omega, List.cons_append, walk_cons]
      cases hs : step t cur c with
      | error e' => rw [hs] at h1; cases h1
      | ok r =>
        rw [hs] at h1
        simp only at h1 ⊢
        rw [← List.append_assoc]
        exact ih _ _ h1

/-- The last directory of a walk that still has components to go is a directory. -/
theorem walk_cons_dir (t : Tree) (f : Nat) (q : List (List Nat)) (c : List Nat) (rest : List (List Nat))
    (p : List (List Nat)) (h : walk t f q (c :: rest) = .ok p) : t.lookup q = some .dir := by
  cases f with
  | zero => rw [walk_zero] at h; cases h
  | succ f =>
    rw [walk_cons] at h
    cases hl : t.lookup q with
    | none => simp only [step, hl] at h; cases h
    | some k =>
      cases k with
      | dir => rfl
      | file => simp only [step, hl] at h; cases h
      | link tgt => simp only [step, hl] at h; cases h

/-! ## growing the tree -/

/-- Everything that exists in `t` exists, with the same kind, in `t'`. -/
def Tree.le (t t' : Tree) : Prop := ∀ x k, t.lookup x = some k → t'.lookup x = some k

theorem step_le {t t' : Tree} (h : Tree.le t t') (cur : List (List Nat)) (c : List Nat)
    (r : List (List Nat) × List (List Nat)) (hs : step t cur c = .ok r) : step t' cur c = .ok r := by
  unfold step at hs ⊢
  cases hl : t.lookup cur with
  | none => rw [hl] at hs; cases hs
  | some k =>
    cases k with
    | file => rw [hl] at hs; cases hs
    | link tgt => rw [hl] at hs; cases hs
    | dir =>
      rw [hl] at hs
      rw [h _ _ hl]
      simp only at hs ⊢
      by_cases hd : c = [dot]
      · simpa only [hd, if_true] using hs
      · simp only [hd, if_false] at hs ⊢
        by_cases hdd : c = [dot, dot]
        · simpa only [hdd, if_true] using hs
        · simp only [hdd, if_false] at hs ⊢
          cases h2 : t.lookup (cur ++ [c]) with
          | none => rw [h2] at hs; cases hs
          | some k2 => rw [h2] at hs; rw [h _ _ h2]; exact hs

/-- A successful walk never looks at a missing entry, so it survives any growth of the tree. -/
theorem walk_le {t t' : Tree} (h : Tree.le t t') : ∀ f cur cs p, walk t f cur cs = .ok p →
    walk t' f cur cs = .ok p := by
  intro f
  induction f with
  | zero => intro cur cs p hw; rw [walk_zero] at hw; cases hw
  | succ f ih =>
    intro cur cs p hw
    cases cs with
    | nil => rw [walk_nil] at hw ⊢; exact hw
    | cons c rest =>
      rw [walk_cons] at hw ⊢
      cases hs : step t cur c with
      | error e' => rw [hs] at hw; cases hw
      | ok r => rw [hs] at hw; rw [step_le h _ _ _ hs]; exact ih _ _ _ hw

def addDir (t : Tree) (p : List (List Nat)) : Tree := { t with nodes := t.nodes ++ [(p, .dir)] }

theorem addDir_le (t : Tree) (q : List (List Nat)) : Tree.le t (addDir t q) := by
  intro p k h
  unfold Tree.lookup at h ⊢
  by_cases hp : p = []
  · simpa [hp] using h
  · rw [if_neg hp] at h ⊢
    simp only [addDir, List.find?_append]
    cases hf : t.nodes.find? (fun x => decide (x.1 = p)) with
    | none => rw [hf] at h; simp at h
    | some x => rw [hf] at h; simpa using h

theorem lookup_addDir_new (t : Tree) (q : List (List Nat)) (hq : q ≠ []) (h : t.lookup q = none) :
    (addDir t q).lookup q = some .dir := by
  unfold Tree.lookup at h ⊢
  rw [if_neg hq] at h ⊢
  simp only [addDir, List.find?_append]
  cases hf : t.nodes.find? (fun x => decide (x.1 = q)) with
  | none => simp
  | some x => rw [hf] at h; simp at h

theorem lookup_some_mem (t : Tree) (d : List (List Nat)) (k : Kind) (h : t.lookup d = some k) :
    (d = [] ∧ k = .dir) ∨ (d, k) ∈ t.nodes := by
  unfold Tree.lookup at h
  by_cases hd : d = []
  · left; rw [if_pos hd] at h; exact ⟨hd, by simpa using h.symm⟩
  · right
    rw [if_neg hd] at h
    cases hf : t.nodes.find? (fun x => decide (x.1 = d)) with
    | none => rw [hf] at h; simp at h
    | some x =>
      rw [hf] at h
      have h1 := List.find?_some hf
      have h2 := List.mem_of_find?_eq_some hf
      simp at h h1
      have : x = (d, k) := by rw [← h1, ← h]
      rw [← this]; exact h2

theorem lookup_none_not_mem (t : Tree) (q : List (List Nat)) (h : t.lookup q = none) :
    q ∉ t.nodes.map (·.1) := by
  unfold Tree.lookup at h
  by_cases hq : q = []
  · simp [hq] at h
  · rw [if_neg hq] at h
    simp only [Option.map_eq_none_iff, List.find?_eq_none] at h
    intro hm
    obtain ⟨x, hx, hxq⟩ := List.mem_map.1 hm
    exact h x hx (by simpa using hxq)

/-! ## one mkdir -/

theorem mkdir_err (t t' : Tree) (s : List Nat) (e : Int) (h : mkdir t s = (t', some e)) :
    t' = t ∧ e ≠ 0 := by
  unfold mkdir at h
  simp only at h
  split at h
  · simp only [Prod.mk.injEq, Option.some.injEq] at h; obtain ⟨h1, h2⟩ := h; subst h1 h2; exact ⟨rfl, by decide⟩
  · split at h
    · rename_i e' hw
      simp only [Prod.mk.injEq, Option.some.injEq] at h; obtain ⟨h1, h2⟩ := h; subst h1 h2
      exact ⟨rfl, walk_error _ _ _ _ _ hw⟩
    · split at h
      · simp only [Prod.mk.injEq, Option.some.injEq] at h; obtain ⟨h1, h2⟩ := h; subst h1 h2; exact ⟨rfl, by decide⟩
      · split at h
        · simp only [Prod.mk.injEq, Option.some.injEq] at h; obtain ⟨h1, h2⟩ := h; subst h1 h2; exact ⟨rfl, by decide⟩
        · split at h
          · simp only [Prod.mk.injEq, Option.some.injEq] at h; obtain ⟨h1, h2⟩ := h; subst h1 h2; exact ⟨rfl, by decide⟩
          · simp at h

theorem mkdir_ok (t t' : Tree) (s : List Nat) (h : mkdir t s = (t', none)) :
    ∃ par last, (comps s).getLast? = some last ∧
      walk t (walkFuel - 1) (t.start s) (comps s).dropLast = .ok par ∧
      t.lookup par = some .dir ∧ last ≠ [dot] ∧ last ≠ [dot, dot] ∧
      t.lookup (par ++ [last]) = none ∧ t' = addDir t (par ++ [last]) := by
  unfold mkdir at h
  simp only at h
  split at h
  · simp at h
  · rename_i last hlast
    split at h
    · simp at h
    · rename_i par hpar
      split at h
      · simp at h
      · rename_i hk
        split at h
        · simp at h
        · rename_i hl
          split at h
          · simp at h
          · rename_i hn
            simp only [Prod.mk.injEq, and_true] at h
            exact ⟨par, last, hlast, hpar, by simpa using hk, fun h => hl (Or.inl h),
              fun h => hl (Or.inr h), by simpa using hn, h.symm⟩

/-! ## `isDir` -/

theorem walk_nil_ok (t : Tree) (f : Nat) (q p : List (List Nat)) (h : walk t f q [] = .ok p) : q = p := by
  cases f with
  | zero => rw [walk_zero] at h; cases h
  | succ f => rw [walk_nil] at h; cases h; rfl

theorem isDir_iff (t : Tree) (s : List Nat) :
    isDir t s = true ↔ s ≠ [] ∧ ∃ p, walk t walkFuel (t.start s) (comps s) = .ok p ∧ t.lookup p = some .dir := by
  unfold isDir statKind
  by_cases hs : s = []
  · simp [hs]
  · rw [if_neg hs]
    cases hw : walk t walkFuel (t.start s) (comps s) with
    | error e => simp
    | ok p => simp [hs]

theorem isDir_le {t t' : Tree} (h : Tree.le t t') (hc : t'.cwd = t.cwd) (s : List Nat)
    (hd : isDir t s = true) : isDir t' s = true := by
  rw [isDir_iff] at hd ⊢
  obtain ⟨hs, p, hw, hp⟩ := hd
  have hst : t'.start s = t.start s := by unfold Tree.start; rw [hc]
  exact ⟨hs, p, by rw [hst]; exact walk_le h _ _ _ _ hw, h _ _ hp⟩

/-! ## components of prefixes -/

theorem comps_nil : comps [] = [] := by decide

theorem comps_take_prefix (s : List Nat) (k : Nat) (hk : k ≤ s.length)
    (hb : k = s.length ∨ isSep (s.getD k 0) = true ∨ isSep (s.getD (k - 1) 0) = true) (hk0 : 0 < k) :
    ∃ rest, comps s = comps (s.take k) ++ rest := by
  unfold comps
  rw [Zix.Fs.comps_eq_cmpA, Zix.Fs.comps_eq_cmpA]
  rcases hb with hb | hb | hb
  · refine ⟨[], ?_⟩
    rw [hb, List.take_length, List.append_nil]
  · have hlt : k < s.length := by
      apply Classical.byContradiction
      intro hn
      rw [List.getD_eq_getElem?_getD, List.getElem?_eq_none (by omega)] at hb
      simp [isSep, sep] at hb
    rw [List.getD_eq_getElem?_getD, List.getElem?_eq_getElem hlt] at hb
    simp only [Option.getD_some] at hb
    refine ⟨Zix.Fs.cmpA [] (s.drop (k + 1)), ?_⟩
    conv => lhs; rw [← List.take_append_drop k s]
    rw [Zix.Fs.cmpA_append, Zix.Fs.cmpA_eq (s.take k), List.drop_eq_getElem_cons hlt]
    simp only [Zix.Fs.cmpA, hb, if_true, List.append_assoc]
  · have hlt : k - 1 < s.length := by omega
    rw [List.getD_eq_getElem?_getD, List.getElem?_eq_getElem hlt] at hb
    simp only [Option.getD_some] at hb
    have hpre : s.take k = s.take (k - 1) ++ [s[k - 1]] := by
      have := List.take_succ_eq_append_getElem hlt
      rwa [show k - 1 + 1 = k by omega] at this
    have hcur : Zix.Fs.curAfter [] (s.take k) = [] := by
      rw [hpre, Zix.Fs.curAfter_append]
      simp only [Zix.Fs.curAfter, hb, if_true]
    refine ⟨Zix.Fs.cmpA [] (s.drop k), ?_⟩
    conv => lhs; rw [← List.take_append_drop k s]
    rw [Zix.Fs.cmpA_append, Zix.Fs.cmpA_eq (s.take k), hcur]
    simp [Zix.Fs.fl]

theorem comps_mem (s : List Nat) (c : List Nat) (hc : c ∈ comps s) :
    c ≠ [] ∧ ∀ x ∈ c, x ∈ s ∧ isSep x = false := by
  unfold comps at hc
  rw [Zix.Fs.comps_eq_elems, List.mem_filter] at hc
  obtain ⟨hc1, hc2⟩ := hc
  refine ⟨by simpa using hc2, ?_⟩
  intro x hx
  obtain ⟨h1, h2⟩ := Zix.Fs.elemsFrom_mem _ _ (Nat.le_refl _) c hc1 x hx
  exact ⟨(List.dropWhile_sublist isSep).subset h1, h2⟩

theorem comps_seps (s : List Nat) (h : ∀ c ∈ s, isSep c = true) : comps s = [] := by
  unfold comps
  rw [Zix.Fs.comps_eq_cmpA]
  induction s with
  | nil => rfl
  | cons c r ih =>
    have hc : isSep c = true := h c (by simp)
    simp only [Zix.Fs.cmpA, hc, if_true, Zix.Fs.fl, List.nil_append]
    exact ih (fun x hx => h x (by simp [hx]))

theorem start_take (t : Tree) (s : List Nat) (k : Nat) (hk : 0 < k) : t.start (s.take k) = t.start s := by
  unfold Tree.start
  rw [Zix.Fs.headD_take s k hk]

/-- If a path names a directory then so does every non-empty prefix cut next to a separator. -/
theorem isDir_prefix (t : Tree) (s : List Nat) (k : Nat) (h : isDir t s = true) (hk0 : 0 < k)
    (hk : k ≤ s.length)
    (hb : k = s.length ∨ isSep (s.getD k 0) = true ∨ isSep (s.getD (k - 1) 0) = true) :
    isDir t (s.take k) = true := by
  rw [isDir_iff] at h ⊢
  obtain ⟨hs, p, hw, hp⟩ := h
  obtain ⟨rest, hrest⟩ := comps_take_prefix s k hk hb hk0
  rw [hrest] at hw
  obtain ⟨q, h1, h2⟩ := walk_split t _ _ _ _ _ hw
  refine ⟨?_, q, ?_, ?_⟩
  · cases s with
    | nil => exact absurd rfl hs
    | cons a r =>
      cases k with
      | zero => omega
      | succ k => simp
  · rw [start_take t s k hk0]; exact h1
  · cases rest with
    | nil => rw [walk_nil_ok t _ _ _ h2]; exact hp
    | cons c rest => exact walk_cons_dir t _ _ _ _ _ h2

/-- A non-empty string of separators names the root directory. -/
theorem isDir_seps (t : Tree) (s : List Nat) (hs : s ≠ []) (h : ∀ c ∈ s, isSep c = true) :
    isDir t s = true := by
  rw [isDir_iff]
  refine ⟨hs, [], ?_, rfl⟩
  rw [comps_seps s h]
  have : t.start s = [] := by
    unfold Tree.start
    cases s with
    | nil => exact absurd rfl hs
    | cons a r => simp [h a (by simp)]
  rw [this, show walkFuel = 4095 + 1 from rfl, walk_nil]

theorem dropLast_append_of_getLast? {α} (l : List α) (a : α) (h : l.getLast? = some a) :
    l.dropLast ++ [a] = l := by
  have hne : l ≠ [] := by intro hn; rw [hn] at h; cases h
  rw [List.getLast?_eq_some_getLast hne] at h
  cases h
  exact List.dropLast_concat_getLast hne

/-- A successful mkdir makes the path a directory: the parent was resolved with one step to spare. -/
theorem mkdir_ok_isDir (t t' : Tree) (s : List Nat) (h : mkdir t s = (t', none)) : isDir t' s = true := by
  obtain ⟨par, last, hlast, hpar, hpk, hl1, hl2, hnone, ht'⟩ := mkdir_ok t t' s h
  have hle : Tree.le t t' := by rw [ht']; exact addDir_le t _
  have hcs : (comps s).dropLast ++ [last] = comps s := dropLast_append_of_getLast? _ last hlast
  rw [isDir_iff]
  refine ⟨?_, par ++ [last], ?_, ?_⟩
  · intro hs; rw [hs, comps_nil] at hlast; cases hlast
  · have hst : t'.start s = t.start s := by rw [ht']; rfl
    have h1 : walk t' (4094 + 1) (t.start s) (comps s).dropLast = .ok par :=
      walk_le hle _ _ _ _ hpar
    have hnew : t'.lookup (par ++ [last]) = some .dir := by
      rw [ht']; exact lookup_addDir_new t _ (by simp) hnone
    have h2 : walk t' 2 par [last] = .ok (par ++ [last]) := by
      rw [walk_cons]
      simp only [step, hle _ _ hpk, hl1, hl2, hnew, if_false, List.append_nil, walk_nil]
    have := walk_join t' 2 par [last] _ h2 4094 _ _ h1
    rw [hcs] at this
    rw [hst]
    exact this
  · rw [ht']; exact lookup_addDir_new t _ (by simp) hnone

end Zix.FsLink
