import ZixModel.Model.FsLink
import ZixModel.Lemmas.C15LinkAux
import ZixModel.Lemmas.C15LinkInstAux
/-! Helper lemmas for `Properties/C15Race.lean`: the defining equations of the walk of
`createDirectoriesE` (create_directories while other processes act on the file system), one per
outcome of a visited prefix; a sharper way to split a successful path resolution; and growing a
tree with symbolic links by a node of any kind. -/
namespace Zix.C15RaceAux
open Zix.Path Zix.FsLink

/-! ## the walk over a list of frames -/

section go
variable {σ : Type} (isDir : σ → List Nat → Bool) (mkdir : σ → List Nat → σ × Option Int)
  (env : Nat → List Nat → σ → σ) (s : List Nat)

theorem goE_nil (k : Nat) (t : σ) : createDirectoriesE.go isDir mkdir env s [] k t = (t, 0) := by
  rw [createDirectoriesE.go]

/-- the prefix names a directory: nothing to do -/
theorem goE_cons_dir (f : PathIter) (rest : List PathIter) (k : Nat) (t : σ)
    (h : isDir t (s.take f.range.2) = true) :
    createDirectoriesE.go isDir mkdir env s (f :: rest) k t =
      createDirectoriesE.go isDir mkdir env s rest k t := by
  rw [createDirectoriesE.go]
  simp only [h, if_true]

/-- mkdir succeeds (after the others made their move) -/
theorem goE_cons_ok (f : PathIter) (rest : List PathIter) (k : Nat) (t t' : σ)
    (h : isDir t (s.take f.range.2) = false)
    (hm : mkdir (env k (s.take f.range.2) t) (s.take f.range.2) = (t', none)) :
    createDirectoriesE.go isDir mkdir env s (f :: rest) k t =
      createDirectoriesE.go isDir mkdir env s rest (k + 1) t' := by
  rw [createDirectoriesE.go]
  simp only [h, hm, Bool.false_eq_true, if_false]

/-- mkdir fails with a status of EXISTS and the second test finds a directory: go on -/
theorem goE_cons_retry (f : PathIter) (rest : List PathIter) (k : Nat) (t t' : σ) (e : Int)
    (h : isDir t (s.take f.range.2) = false)
    (hm : mkdir (env k (s.take f.range.2) t) (s.take f.range.2) = (t', some e))
    (he : Zix.Errno.errnoStatus e = 4) (hd : isDir t' (s.take f.range.2) = true) :
    createDirectoriesE.go isDir mkdir env s (f :: rest) k t =
      createDirectoriesE.go isDir mkdir env s rest (k + 1) t' := by
  rw [createDirectoriesE.go]
  simp only [h, hm, he, hd, Bool.false_eq_true, if_false, and_self, if_true]

/-- mkdir fails otherwise: the walk stops with that status -/
theorem goE_cons_err (f : PathIter) (rest : List PathIter) (k : Nat) (t t' : σ) (e : Int)
    (h : isDir t (s.take f.range.2) = false)
    (hm : mkdir (env k (s.take f.range.2) t) (s.take f.range.2) = (t', some e))
    (hn : ¬ (Zix.Errno.errnoStatus e = 4 ∧ isDir t' (s.take f.range.2) = true)) :
    createDirectoriesE.go isDir mkdir env s (f :: rest) k t = (t', Zix.Errno.errnoStatus e) := by
  rw [createDirectoriesE.go]
  simp only [h, hm, Bool.false_eq_true, if_false]
  rw [if_neg hn]

end go

/-! ## path resolution -/

/-- A successful walk over `cs1 ++ c :: cs2` reaches the end of `cs1` with one step to spare. -/
theorem walk_split_cons (t : Tree) : ∀ f cur cs1 c cs2 p, walk t (f + 1) cur (cs1 ++ c :: cs2) = .ok p →
    ∃ q, walk t f cur cs1 = .ok q ∧ walk t (f + 1) q (c :: cs2) = .ok p := by
  intro f
  induction f with
  | zero =>
    intro cur cs1 c cs2 p h
    cases cs1 with
    | nil =>
      rw [List.nil_append, walk_cons] at h
      cases hs : step t cur c with
      | error e' => rw [hs] at h; cases h
      | ok r => rw [hs] at h; simp only [walk_zero] at h; cases h
    | cons c1 r1 =>
      rw [List.cons_append, walk_cons] at h
      cases hs : step t cur c1 with
      | error e' => rw [hs] at h; cases h
      | ok r => rw [hs] at h; simp only [walk_zero] at h; cases h
  | succ f ih =>
    intro cur cs1 c cs2 p h
    cases cs1 with
    | nil => exact ⟨cur, walk_nil t f cur, h⟩
    | cons c1 r1 =>
      rw [List.cons_append, walk_cons] at h
      rw [walk_cons]
      cases hs : step t cur c1 with
      | error e' => rw [hs] at h; cases h
      | ok r =>
        rw [hs] at h
        simp only at h ⊢
        rw [← List.append_assoc] at h
        obtain ⟨q, h1, h2⟩ := ih _ _ _ _ _ h
        exact ⟨q, h1, walk_succ t _ _ _ _ h2⟩

/-! ## growing the tree by a node of any kind -/

def addNode (t : Tree) (p : List (List Nat)) (k : Kind) : Tree := { t with nodes := t.nodes ++ [(p, k)] }

theorem addNode_le (t : Tree) (q : List (List Nat)) (k : Kind) : Tree.le t (addNode t q k) := by
  intro p k' h
  unfold Tree.lookup at h ⊢
  by_cases hp : p = []
  · simpa [hp] using h
  · rw [if_neg hp] at h ⊢
    simp only [addNode, List.find?_append]
    cases hf : t.nodes.find? (fun x => decide (x.1 = p)) with
    | none => rw [hf] at h; simp at h
    | some x => rw [hf] at h; simpa using h

end Zix.C15RaceAux
