import ZixModel.Model.CopyFile
/-! Helper lemmas for C14 (`copy_file`): frame lemmas for `issue`, `closeFds`, `finishCopy`,
loop invariants for `cfrLoop`, `writeAll`, `copyBlocks`. -/
namespace Zix.CopyFile
open Zix.Errno Zix.Generated

/-! ## errno table facts -/

theorem lookup_getD_cases (l : List (Int × Int)) (f e : Int) :
    (l.lookup e).getD f = f ∨ ∃ p ∈ l, p.1 = e ∧ (l.lookup e).getD f = (l.lookup p.1).getD f := by
  induction l with
  | nil => left; simp
  | cons p ps ih =>
    by_cases h : e = p.1
    · right; exact ⟨p, List.mem_cons_self, h.symm, by rw [h]⟩
    · rcases ih with h1 | ⟨q, hq, hq1, _⟩
      · have : (List.lookup e (p :: ps)) = List.lookup e ps := by
          obtain ⟨a, b⟩ := p
          simp only [List.lookup]
          have : (e == a) = false := by simpa using h
          rw [this]
        left; rw [this]; exact h1
      · right; exact ⟨q, List.mem_cons_of_mem _ hq, hq1, by rw [hq1]⟩

theorem errnoStatus_eq_zero_iff (e : Int) : errnoStatus e = 0 ↔ e = 0 := by
  constructor
  · intro h
    have key : ∀ p ∈ errnoMap, (errnoMap.lookup p.1).getD errnoFallback = 0 → p.1 = 0 := by decide
    unfold errnoStatus at h
    rcases lookup_getD_cases errnoMap errnoFallback e with h1 | ⟨p, hp, hpe, hpl⟩
    · rw [h1] at h; exact absurd h (by decide)
    · rw [hpl] at h; rw [← hpe]; exact key p hp h
  · intro h; subst h; decide

theorem errnoStatus_ne_zero {e : Int} (h : e ≠ 0) : errnoStatus e ≠ 0 :=
  fun h' => h ((errnoStatus_eq_zero_iff e).1 h')

@[simp] theorem errnoStatus_zero : errnoStatus 0 = 0 := by decide

/-! ## `issue` -/

/-- The state after issuing a call. -/
def issueSt (fault : Call → Nat → Option Fault) (s : St) (c : Call) : St := (issue fault s c).1

theorem issue_eq (fault : Call → Nat → Option Fault) (s : St) (c : Call) :
    issue fault s c = (issueSt fault s c, fault c (s.count c)) := rfl

section
variable (fault : Call → Nat → Option Fault) (s : St) (c : Call)
@[simp] theorem issueSt_src : (issueSt fault s c).src = s.src := rfl
@[simp] theorem issueSt_dst : (issueSt fault s c).dst = s.dst := rfl
@[simp] theorem issueSt_errno : (issueSt fault s c).errno = s.errno := rfl
@[simp] theorem issueSt_opened : (issueSt fault s c).opened = s.opened := rfl
@[simp] theorem issueSt_closed : (issueSt fault s c).closed = s.closed := rfl
@[simp] theorem issueSt_srcTouched : (issueSt fault s c).srcTouched = s.srcTouched := rfl
end

theorem lookup_filter_ne (l : List (Call × Nat)) (c c' : Call) (h : c' ≠ c) :
    (l.filter (·.1 ≠ c)).lookup c' = l.lookup c' := by
  induction l with
  | nil => rfl
  | cons p ps ih =>
    obtain ⟨a, b⟩ := p
    by_cases hac : a = c
    · subst hac
      have h1 : (c' == a) = false := by simpa using h
      simp only [decide_not] at ih
      simp [List.filter, List.lookup, h1, ih]
    · by_cases hca : c' = a
      · subst hca
        simp [List.filter, List.lookup, hac]
      · have h1 : (c' == a) = false := by simpa using hca
        simp only [decide_not] at ih
        simp [List.filter, List.lookup, hac, h1, ih]

theorem issueSt_count (fault : Call → Nat → Option Fault) (s : St) (c c' : Call) :
    (issueSt fault s c).count c' = if c' = c then s.count c + 1 else s.count c' := by
  show (List.lookup c' ((c, s.count c + 1) :: s.counts.filter (·.1 ≠ c))).getD 0 = _
  by_cases h : c' = c
  · subst h; simp [List.lookup]
  · have h1 : (c' == c) = false := by simpa using h
    simp only [List.lookup, h1, if_neg h]
    rw [lookup_filter_ne _ _ _ h]; rfl

/-! ## `closeFds`, `finishCopy` -/
section
variable (fault : Call → Nat → Option Fault)

/-- One `close` of `closeFds`. -/
def closeOne (c : Call) (s : St) (hv : Bool) : St × Bool :=
  if hv then
    match issue fault s c with
    | (s, some (.err e)) => ({ s with errno := e, closed := s.closed + 1 }, true)
    | (s, _) => ({ s with closed := s.closed + 1 }, false)
  else (s, false)

theorem closeFds_eq (s : St) (h1 h2 : Bool) : closeFds fault s h1 h2 =
    (let r1 := closeOne fault .closeDst s h1
     let r2 := closeOne fault .closeSrc r1.1 h2
     (r2.1, if errnoStatus s.errno ≠ 0 then errnoStatus s.errno
            else if (if r1.2 then errnoStatus r1.1.errno else 0) ≠ 0 then (if r1.2 then errnoStatus r1.1.errno else 0)
            else (if r2.2 then errnoStatus r2.1.errno else 0))) := rfl

theorem closeOne_frame (c : Call) (s : St) (hv : Bool) :
    (closeOne fault c s hv).1.src = s.src ∧ (closeOne fault c s hv).1.dst = s.dst ∧
    (closeOne fault c s hv).1.opened = s.opened ∧
    (closeOne fault c s hv).1.closed = s.closed + hv.toNat := by
  unfold closeOne
  cases hv
  · simp
  · simp only [issue_eq, if_true]
    rcases fault c (s.count c) with _ | ⟨e⟩ | ⟨n⟩ <;> simp

theorem closeOne_ok (c : Call) (s : St) (hv : Bool) (h : ∀ n e, fault c n ≠ some (.err e)) :
    (closeOne fault c s hv).2 = false ∧ (closeOne fault c s hv).1.errno = s.errno := by
  unfold closeOne
  cases hv
  · simp
  · simp only [issue_eq, if_true]
    rcases hf : fault c (s.count c) with _ | ⟨e⟩ | ⟨n⟩ <;> simp
    exact h _ _ hf

/-- The part of `finishCopy` before `closeFds`. -/
def syncOne (s : St) (hv : Bool) : St × Int :=
  if hv then
    match issue fault s .fdatasync with
    | (s, some (.err e)) => ({ s with errno := e }, errnoStatus e)
    | (s, _) => (s, 0)
  else (s, 0)

theorem finishCopy_eq (s : St) (hd hs : Bool) (status : Int) : finishCopy fault s hd hs status =
    (let r0 := syncOne fault s hd
     let r1 := closeFds fault r0.1 hd hs
     (r1.1, if status ≠ 0 then status else if r0.2 ≠ 0 then r0.2 else r1.2)) := rfl

theorem syncOne_frame (s : St) (hv : Bool) :
    (syncOne fault s hv).1.src = s.src ∧ (syncOne fault s hv).1.dst = s.dst ∧
    (syncOne fault s hv).1.opened = s.opened ∧
    (syncOne fault s hv).1.closed = s.closed := by
  unfold syncOne
  cases hv
  · simp
  · simp only [issue_eq, if_true]
    rcases fault .fdatasync (s.count .fdatasync) with _ | ⟨e⟩ | ⟨n⟩ <;> simp

theorem syncOne_ok (s : St) (hv : Bool) (h : ∀ n e, fault .fdatasync n ≠ some (.err e)) :
    (syncOne fault s hv).2 = 0 ∧ (syncOne fault s hv).1.errno = s.errno := by
  unfold syncOne
  cases hv
  · simp
  · simp only [issue_eq, if_true]
    rcases hf : fault .fdatasync (s.count .fdatasync) with _ | ⟨e⟩ | ⟨n⟩ <;> simp
    exact absurd hf (h _ _)

section
variable (s : St) (hd hs : Bool) (status : Int)

theorem closeFds_frame :
    (closeFds fault s hd hs).1.src = s.src ∧ (closeFds fault s hd hs).1.dst = s.dst ∧
    (closeFds fault s hd hs).1.opened = s.opened ∧
    (closeFds fault s hd hs).1.closed = s.closed + hd.toNat + hs.toNat := by
  rw [closeFds_eq]
  have h1 := closeOne_frame fault .closeDst s hd
  have h2 := closeOne_frame fault .closeSrc (closeOne fault .closeDst s hd).1 hs
  simp only []
  refine ⟨?_, ?_, ?_, ?_⟩
  · rw [h2.1, h1.1]
  · rw [h2.2.1, h1.2.1]
  · rw [h2.2.2.1, h1.2.2.1]
  · rw [h2.2.2.2, h1.2.2.2]

theorem closeFds_ok (h : ∀ n e, fault .closeDst n ≠ some (.err e)) (h' : ∀ n e, fault .closeSrc n ≠ some (.err e))
    (he : s.errno = 0) :
    (closeFds fault s hd hs).2 = 0 := by
  rw [closeFds_eq]
  have h1 := closeOne_ok fault .closeDst s hd h
  have h2 := closeOne_ok fault .closeSrc (closeOne fault .closeDst s hd).1 hs h'
  simp only []
  rw [h1.1, h2.1, he]
  simp

theorem finishCopy_frame :
    (finishCopy fault s hd hs status).1.src = s.src ∧ (finishCopy fault s hd hs status).1.dst = s.dst ∧
    (finishCopy fault s hd hs status).1.opened = s.opened ∧
    (finishCopy fault s hd hs status).1.closed = s.closed + hd.toNat + hs.toNat := by
  rw [finishCopy_eq]
  have h1 := syncOne_frame fault s hd
  have h2 := closeFds_frame fault (syncOne fault s hd).1 hd hs
  simp only []
  refine ⟨?_, ?_, ?_, ?_⟩
  · rw [h2.1, h1.1]
  · rw [h2.2.1, h1.2.1]
  · rw [h2.2.2.1, h1.2.2.1]
  · rw [h2.2.2.2, h1.2.2.2]

@[simp] theorem finishCopy_src : (finishCopy fault s hd hs status).1.src = s.src :=
  (finishCopy_frame fault s hd hs status).1
@[simp] theorem finishCopy_dst : (finishCopy fault s hd hs status).1.dst = s.dst :=
  (finishCopy_frame fault s hd hs status).2.1
@[simp] theorem finishCopy_opened : (finishCopy fault s hd hs status).1.opened = s.opened :=
  (finishCopy_frame fault s hd hs status).2.2.1
@[simp] theorem finishCopy_closed :
    (finishCopy fault s hd hs status).1.closed = s.closed + hd.toNat + hs.toNat :=
  (finishCopy_frame fault s hd hs status).2.2.2

theorem finishCopy_status_of_ne (h : status ≠ 0) : (finishCopy fault s hd hs status).2 = status := by
  rw [finishCopy_eq]; simp only [if_pos h]

theorem status_zero_of_finishCopy (h : (finishCopy fault s hd hs status).2 = 0) : status = 0 := by
  by_cases h0 : status = 0
  · exact h0
  · rw [finishCopy_status_of_ne fault s hd hs status h0] at h; exact h

theorem finishCopy_ok (hsync : ∀ n e, fault .fdatasync n ≠ some (.err e))
    (hclose : ∀ n e, fault .closeDst n ≠ some (.err e)) (hclose' : ∀ n e, fault .closeSrc n ≠ some (.err e))
    (he : s.errno = 0) (hst : status = 0) :
    (finishCopy fault s hd hs status).2 = 0 := by
  rw [finishCopy_eq]
  have h1 := syncOne_ok fault s hd hsync
  have h2 := closeFds_ok fault (syncOne fault s hd).1 hd hs hclose hclose' (by rw [h1.2, he])
  simp only []
  rw [h1.1, h2, hst]; simp
end
end

/-! ## the loops -/
section
variable (fault : Call → Nat → Option Fault)

theorem cfrLoop_frame (fuel : Nat) (s : St) (r : Nat) :
    (cfrLoop fault fuel s r).1.src = s.src ∧ (cfrLoop fault fuel s r).1.opened = s.opened ∧
    (cfrLoop fault fuel s r).1.closed = s.closed := by
  induction fuel generalizing s r with
  | zero => simp [cfrLoop]
  | succ fuel ih =>
    unfold cfrLoop
    split
    · simp
    · simp only [issue_eq]
      rcases fault .cfr (s.count .cfr) with _ | ⟨e⟩ | ⟨n⟩ <;> simp only []
      · refine (ih _ _).imp (·.trans ?_) (And.imp (·.trans ?_) (·.trans ?_)) <;> simp
      · (repeat' split) <;> simp
      · refine (ih _ _).imp (·.trans ?_) (And.imp (·.trans ?_) (·.trans ?_)) <;> simp

theorem take_step (l : List Nat) (r k : Nat) (hk : k ≤ r) (hr : r ≤ l.length) :
    l.take (l.length - r) ++ (l.drop (l.length - r)).take k = l.take (l.length - (r - k)) := by
  have : l.length - (r - k) = (l.length - r) + k := by omega
  rw [this, List.take_add]

theorem cfrLoop_spec (hl : ∀ n e, fault .cfr n = some (.err e) → e ≠ 0)
    (fuel : Nat) (s : St) (r : Nat) (hr : r ≤ s.src.length) (hf : r < fuel)
    (hd : s.dst = some (s.src.take (s.src.length - r))) :
    ∃ r', r' ≤ s.src.length ∧ (cfrLoop fault fuel s r).1.dst = some (s.src.take (s.src.length - r')) ∧
      ((cfrLoop fault fuel s r).2 = some 0 → r' = 0) := by
  induction fuel generalizing s r with
  | zero => omega
  | succ fuel ih =>
    have step : ∀ k, 1 ≤ k → k ≤ r → ∃ r', r' ≤ s.src.length ∧
        (cfrLoop fault fuel { issueSt fault s .cfr with
          dst := some ((s.dst.getD []) ++ (s.src.drop (s.src.length - r)).take k) } (r - k)).1.dst
          = some (s.src.take (s.src.length - r')) ∧
        ((cfrLoop fault fuel { issueSt fault s .cfr with
          dst := some ((s.dst.getD []) ++ (s.src.drop (s.src.length - r)).take k) } (r - k)).2 = some 0 → r' = 0) := by
      intro k hk1 hkr
      have := ih { issueSt fault s .cfr with
          dst := some ((s.dst.getD []) ++ (s.src.drop (s.src.length - r)).take k) } (r - k)
          (by simp; omega) (by omega) (by simp [hd, take_step _ _ _ hkr hr])
      simpa using this
    unfold cfrLoop
    split
    · rename_i h0
      exact ⟨r, hr, by simpa using hd, fun _ => h0⟩
    · rename_i h0
      simp only [issue_eq]
      rcases hq : fault .cfr (s.count .cfr) with _ | ⟨e⟩ | ⟨n⟩ <;> simp only []
      · exact step r (by omega) (Nat.le_refl _)
      · have he := hl _ _ hq
        have he' : (if e = EXDEV ∨ e = EINVAL then ENOSYS else e) ≠ 0 := by
          split
          · decide
          · exact he
        generalize (if e = EXDEV ∨ e = EINVAL then ENOSYS else e) = e' at he' ⊢
        refine ⟨r, hr, ?_, ?_⟩
        · split <;> simpa using hd
        · split
          · simp
          · simp only [Option.some.injEq]
            intro h; exact absurd h (errnoStatus_ne_zero he')
      · exact step (min (max n 1) r) (by omega) (by omega)

theorem cfrLoop_ok (hok : ∀ n e, fault .cfr n = some (.err e) → e = EXDEV ∨ e = EINVAL ∨ e = ENOSYS)
    (fuel : Nat) (s : St) (r : Nat) :
    ((cfrLoop fault fuel s r).2 = some 0 ∧ (cfrLoop fault fuel s r).1.errno = s.errno) ∨
      (cfrLoop fault fuel s r).2 = none := by
  induction fuel generalizing s r with
  | zero => simp [cfrLoop]
  | succ fuel ih =>
    unfold cfrLoop
    split
    · simp
    · simp only [issue_eq]
      rcases hq : fault .cfr (s.count .cfr) with _ | ⟨e⟩ | ⟨n⟩ <;> simp only []
      · exact (ih _ _).imp (And.imp_right (·.trans (by simp))) id
      · right
        have : errnoStatus (if e = EXDEV ∨ e = EINVAL then ENOSYS else e) = 10 := by
          rcases hok _ _ hq with h | h | h <;> subst h <;> decide
        rw [if_pos this]
      · exact (ih _ _).imp (And.imp_right (·.trans (by simp))) id

theorem writeAll_frame (fuel : Nat) (s : St) (chunk : List Nat) :
    (writeAll fault fuel s chunk).1.src = s.src ∧ (writeAll fault fuel s chunk).1.opened = s.opened ∧
    (writeAll fault fuel s chunk).1.closed = s.closed := by
  induction fuel generalizing s chunk with
  | zero => simp [writeAll]
  | succ fuel ih =>
    unfold writeAll
    split
    · simp
    · simp only [issue_eq]
      rcases fault .write (s.count .write) with _ | ⟨e⟩ | ⟨n⟩ <;> simp only []
      · split
        · simp
        · refine (ih _ _).imp (·.trans ?_) (And.imp (·.trans ?_) (·.trans ?_)) <;> simp
      · simp
      · split
        · simp
        · refine (ih _ _).imp (·.trans ?_) (And.imp (·.trans ?_) (·.trans ?_)) <;> simp

theorem writeAll_spec (hl : ∀ n e, fault .write n = some (.err e) → e ≠ 0)
    (fuel : Nat) (s : St) (chunk d : List Nat) (hd : s.dst = some d) :
    ((writeAll fault fuel s chunk).2 = none → (writeAll fault fuel s chunk).1.dst = some (d ++ chunk)) ∧
      (∀ st, (writeAll fault fuel s chunk).2 = some st → st ≠ 0) := by
  induction fuel generalizing s chunk d with
  | zero => simp [writeAll, stError]
  | succ fuel ih =>
    have step : ∀ k, ((writeAll fault fuel { issueSt fault s .write with
          dst := some ((s.dst.getD []) ++ chunk.take k) } (chunk.drop k)).2 = none →
        (writeAll fault fuel { issueSt fault s .write with
          dst := some ((s.dst.getD []) ++ chunk.take k) } (chunk.drop k)).1.dst = some (d ++ chunk)) ∧
        (∀ st, (writeAll fault fuel { issueSt fault s .write with
          dst := some ((s.dst.getD []) ++ chunk.take k) } (chunk.drop k)).2 = some st → st ≠ 0) := by
      intro k
      have := ih { issueSt fault s .write with
          dst := some ((s.dst.getD []) ++ chunk.take k) } (chunk.drop k) (d ++ chunk.take k) (by simp [hd])
      simpa [List.append_assoc] using this
    unfold writeAll
    split
    · rename_i h0; subst h0; simp [hd]
    · simp only [issue_eq]
      rcases hq : fault .write (s.count .write) with _ | ⟨e⟩ | ⟨n⟩ <;> simp only []
      · split
        · simp [stError]
        · exact step _
      · simp only [Option.some.injEq, reduceCtorEq, false_implies, true_and]
        intro st h; subst h; exact errnoStatus_ne_zero (hl _ _ hq)
      · split
        · simp [stError]
        · exact step _

theorem writeAll_ok (hok : ∀ n e, fault .write n ≠ some (.err e))
    (hshort : ∀ n k, fault .write n = some (.short k) → 0 < k)
    (fuel : Nat) (s : St) (chunk : List Nat) (hf : chunk.length < fuel) :
    (writeAll fault fuel s chunk).2 = none ∧ (writeAll fault fuel s chunk).1.errno = s.errno := by
  induction fuel generalizing s chunk with
  | zero => omega
  | succ fuel ih =>
    unfold writeAll
    split
    · simp
    · rename_i h0
      have hlen : 0 < chunk.length := List.length_pos_iff.2 h0
      simp only [issue_eq]
      rcases hq : fault .write (s.count .write) with _ | ⟨e⟩ | ⟨n⟩ <;> simp only []
      · rw [if_neg (by omega)]
        have := ih { issueSt fault s .write with
          dst := some ((s.dst.getD []) ++ chunk.take chunk.length) } (chunk.drop chunk.length) (by simp; omega)
        simpa using this
      · exact absurd hq (hok _ _)
      · have hn := hshort _ _ hq
        rw [if_neg (by omega)]
        have := ih { issueSt fault s .write with
          dst := some ((s.dst.getD []) ++ chunk.take (min n chunk.length)) } (chunk.drop (min n chunk.length)) (by simp; omega)
        simpa using this

/-- The body of `copyBlocks` after a successful read of `k` bytes. -/
def cbStep (bufSize fuel : Nat) (s : St) (off k : Nat) : St × Int :=
  if k = 0 then (s, 0)
  else
    match writeAll fault (k + 1) s ((s.src.drop off).take k) with
    | (s, some st) => (s, st)
    | (s, none) => copyBlocks fault bufSize fuel s (off + k)

theorem copyBlocks_succ (bufSize fuel : Nat) (s : St) (off : Nat) :
    copyBlocks fault bufSize (fuel + 1) s off =
      match fault .read (s.count .read) with
      | some (.err e) => ({ issueSt fault s .read with errno := e }, errnoStatus e)
      | some (.short n) => cbStep fault bufSize fuel (issueSt fault s .read) off
          (min (max n 1) (min bufSize (s.src.length - off)))
      | none => cbStep fault bufSize fuel (issueSt fault s .read) off (min bufSize (s.src.length - off)) := by
  rw [copyBlocks]; simp only [issue_eq]
  rcases fault .read (s.count .read) with _ | ⟨e⟩ | ⟨n⟩ <;> rfl

theorem cbStep_frame (bufSize fuel : Nat)
    (ih : ∀ s off, (copyBlocks fault bufSize fuel s off).1.src = s.src ∧
      (copyBlocks fault bufSize fuel s off).1.opened = s.opened ∧
      (copyBlocks fault bufSize fuel s off).1.closed = s.closed) (s : St) (off k : Nat) :
    (cbStep fault bufSize fuel s off k).1.src = s.src ∧
    (cbStep fault bufSize fuel s off k).1.opened = s.opened ∧
    (cbStep fault bufSize fuel s off k).1.closed = s.closed := by
  unfold cbStep
  by_cases hk : k = 0
  · simp [hk]
  · rw [if_neg hk]
    have hfr := writeAll_frame fault (k + 1) s ((s.src.drop off).take k)
    rcases hw : writeAll fault (k + 1) s ((s.src.drop off).take k) with ⟨s', _ | st⟩
    · rw [hw] at hfr; simp only [] at hfr ⊢
      have := ih s' (off + k)
      exact ⟨this.1.trans hfr.1, this.2.1.trans hfr.2.1, this.2.2.trans hfr.2.2⟩
    · rw [hw] at hfr; exact hfr

theorem copyBlocks_frame (bufSize fuel : Nat) (s : St) (off : Nat) :
    (copyBlocks fault bufSize fuel s off).1.src = s.src ∧
    (copyBlocks fault bufSize fuel s off).1.opened = s.opened ∧
    (copyBlocks fault bufSize fuel s off).1.closed = s.closed := by
  induction fuel generalizing s off with
  | zero => simp [copyBlocks]
  | succ fuel ih =>
    rw [copyBlocks_succ]
    rcases fault .read (s.count .read) with _ | ⟨e⟩ | ⟨n⟩ <;> simp only []
    · exact cbStep_frame fault bufSize fuel ih _ _ _
    · simp
    · exact cbStep_frame fault bufSize fuel ih _ _ _

theorem cbStep_spec (hlw : ∀ n e, fault .write n = some (.err e) → e ≠ 0) (bufSize fuel : Nat)
    (ih : ∀ (s : St) off, off ≤ s.src.length → s.src.length - off < fuel → s.dst = some (s.src.take off) →
      (copyBlocks fault bufSize fuel s off).2 = 0 → (copyBlocks fault bufSize fuel s off).1.dst = some s.src)
    (s : St) (off k : Nat) (hoff : off ≤ s.src.length) (hk : k ≤ s.src.length - off)
    (hk0 : k = 0 → off = s.src.length) (hf : s.src.length - off < fuel + 1)
    (hd : s.dst = some (s.src.take off)) :
    (cbStep fault bufSize fuel s off k).2 = 0 → (cbStep fault bufSize fuel s off k).1.dst = some s.src := by
  unfold cbStep
  by_cases hk' : k = 0
  · simp [hk', hd, hk0 hk']
  · rw [if_neg hk']
    have hfr := writeAll_frame fault (k + 1) s ((s.src.drop off).take k)
    have hsp := writeAll_spec fault hlw (k + 1) s ((s.src.drop off).take k) _ hd
    rcases hw : writeAll fault (k + 1) s ((s.src.drop off).take k) with ⟨s', _ | st⟩
    · rw [hw] at hfr hsp; simp only [] at hfr hsp ⊢
      have hd' := hsp.1 trivial
      rw [← List.take_add] at hd'
      have := ih s' (off + k) (by rw [hfr.1]; omega) (by rw [hfr.1]; omega) (by rw [hfr.1]; exact hd')
      rw [hfr.1] at this; exact this
    · rw [hw] at hsp; simp only [] at hsp ⊢
      intro h; exact absurd h (hsp.2 st rfl)

theorem copyBlocks_spec (hlr : ∀ n e, fault .read n = some (.err e) → e ≠ 0)
    (hlw : ∀ n e, fault .write n = some (.err e) → e ≠ 0) (bufSize : Nat) (hb : 0 < bufSize)
    (fuel : Nat) (s : St) (off : Nat) (hoff : off ≤ s.src.length) (hf : s.src.length - off < fuel)
    (hd : s.dst = some (s.src.take off)) :
    (copyBlocks fault bufSize fuel s off).2 = 0 → (copyBlocks fault bufSize fuel s off).1.dst = some s.src := by
  induction fuel generalizing s off with
  | zero => omega
  | succ fuel ih =>
    rw [copyBlocks_succ]
    rcases hq : fault .read (s.count .read) with _ | ⟨e⟩ | ⟨n⟩ <;> simp only []
    · exact cbStep_spec fault hlw bufSize fuel ih (issueSt fault s .read) off _ hoff
        (by simp; omega) (by simp; omega) hf hd
    · intro h; exact absurd h (errnoStatus_ne_zero (hlr _ _ hq))
    · exact cbStep_spec fault hlw bufSize fuel ih (issueSt fault s .read) off _ hoff
        (by simp; omega) (by simp; omega) hf hd

theorem cbStep_ok (hokw : ∀ n e, fault .write n ≠ some (.err e))
    (hshort : ∀ n k, fault .write n = some (.short k) → 0 < k) (bufSize fuel : Nat)
    (ih : ∀ (s : St) off, (copyBlocks fault bufSize fuel s off).2 = 0 ∧
      (copyBlocks fault bufSize fuel s off).1.errno = s.errno)
    (s : St) (off k : Nat) :
    (cbStep fault bufSize fuel s off k).2 = 0 ∧ (cbStep fault bufSize fuel s off k).1.errno = s.errno := by
  unfold cbStep
  by_cases hk' : k = 0
  · simp [hk']
  · rw [if_neg hk']
    have hw := writeAll_ok fault hokw hshort (k + 1) s ((s.src.drop off).take k)
      (by simp only [List.length_take]; omega)
    rcases hw' : writeAll fault (k + 1) s ((s.src.drop off).take k) with ⟨s', _ | st⟩
    · rw [hw'] at hw; simp only [] at hw ⊢
      exact ⟨(ih s' _).1, (ih s' _).2.trans hw.2⟩
    · rw [hw'] at hw; simp at hw

theorem copyBlocks_ok (hokr : ∀ n e, fault .read n ≠ some (.err e))
    (hokw : ∀ n e, fault .write n ≠ some (.err e))
    (hshort : ∀ n k, fault .write n = some (.short k) → 0 < k) (bufSize fuel : Nat) (s : St) (off : Nat) :
    (copyBlocks fault bufSize fuel s off).2 = 0 ∧ (copyBlocks fault bufSize fuel s off).1.errno = s.errno := by
  induction fuel generalizing s off with
  | zero => simp [copyBlocks]
  | succ fuel ih =>
    rw [copyBlocks_succ]
    rcases hq : fault .read (s.count .read) with _ | ⟨e⟩ | ⟨n⟩ <;> simp only []
    · exact cbStep_ok fault hokw hshort bufSize fuel ih _ _ _
    · exact absurd hq (hokr _ _)
    · exact cbStep_ok fault hokw hshort bufSize fuel ih _ _ _
end


/-! ## call counts: which calls a piece of the function can issue -/
section
variable (fault : Call → Nat → Option Fault)

theorem issueSt_count_ne (s : St) {c c' : Call} (h : c' ≠ c) : (issueSt fault s c).count c' = s.count c' :=
  (issueSt_count fault s c c').trans (if_neg h)

theorem closeOne_count (c : Call) (s : St) (hv : Bool) {c' : Call} (h : c' ≠ c) :
    (closeOne fault c s hv).1.count c' = s.count c' := by
  unfold closeOne
  cases hv
  · rfl
  · simp only [issue_eq, if_true]
    rcases fault c (s.count c) with _ | ⟨e⟩ | ⟨n⟩ <;> exact issueSt_count_ne fault s h

theorem syncOne_count (s : St) (hv : Bool) {c' : Call} (h : c' ≠ .fdatasync) :
    (syncOne fault s hv).1.count c' = s.count c' := by
  unfold syncOne
  cases hv
  · rfl
  · simp only [issue_eq, if_true]
    rcases fault .fdatasync (s.count .fdatasync) with _ | ⟨e⟩ | ⟨n⟩ <;> exact issueSt_count_ne fault s h

theorem closeFds_count (s : St) (hd hs : Bool) {c' : Call} (h1 : c' ≠ .closeDst) (h2 : c' ≠ .closeSrc) :
    (closeFds fault s hd hs).1.count c' = s.count c' := by
  rw [closeFds_eq]
  exact (closeOne_count fault .closeSrc _ hs h2).trans (closeOne_count fault .closeDst s hd h1)

theorem finishCopy_count (s : St) (hd hs : Bool) (status : Int) {c' : Call} (h0 : c' ≠ .fdatasync)
    (h1 : c' ≠ .closeDst) (h2 : c' ≠ .closeSrc) :
    (finishCopy fault s hd hs status).1.count c' = s.count c' := by
  rw [finishCopy_eq]
  exact (closeFds_count fault _ hd hs h1 h2).trans (syncOne_count fault s hd h0)

theorem cfrLoop_count {c' : Call} (h : c' ≠ .cfr) (fuel : Nat) (s : St) (r : Nat) :
    (cfrLoop fault fuel s r).1.count c' = s.count c' := by
  induction fuel generalizing s r with
  | zero => simp [cfrLoop]
  | succ fuel ih =>
    unfold cfrLoop
    split
    · rfl
    · simp only [issue_eq]
      rcases fault .cfr (s.count .cfr) with _ | ⟨e⟩ | ⟨n⟩ <;> simp only []
      · exact (ih _ _).trans (issueSt_count_ne fault s h)
      · (repeat' split) <;> exact issueSt_count_ne fault s h
      · exact (ih _ _).trans (issueSt_count_ne fault s h)

theorem writeAll_count {c' : Call} (h : c' ≠ .write) (fuel : Nat) (s : St) (chunk : List Nat) :
    (writeAll fault fuel s chunk).1.count c' = s.count c' := by
  induction fuel generalizing s chunk with
  | zero => simp [writeAll]
  | succ fuel ih =>
    unfold writeAll
    split
    · rfl
    · simp only [issue_eq]
      rcases fault .write (s.count .write) with _ | ⟨e⟩ | ⟨n⟩ <;> simp only []
      · split
        · exact issueSt_count_ne fault s h
        · exact (ih _ _).trans (issueSt_count_ne fault s h)
      · exact issueSt_count_ne fault s h
      · split
        · exact issueSt_count_ne fault s h
        · exact (ih _ _).trans (issueSt_count_ne fault s h)

theorem cbStep_count {c' : Call} (h : c' ≠ .write) (bufSize fuel : Nat)
    (ih : ∀ s off, (copyBlocks fault bufSize fuel s off).1.count c' = s.count c') (s : St) (off k : Nat) :
    (cbStep fault bufSize fuel s off k).1.count c' = s.count c' := by
  unfold cbStep
  by_cases hk : k = 0
  · simp [hk]
  · rw [if_neg hk]
    have hfr := writeAll_count fault h (k + 1) s ((s.src.drop off).take k)
    rcases hw : writeAll fault (k + 1) s ((s.src.drop off).take k) with ⟨s', _ | st⟩
    · rw [hw] at hfr; simp only [] at hfr ⊢
      exact (ih s' (off + k)).trans hfr
    · rw [hw] at hfr; exact hfr

theorem copyBlocks_count {c' : Call} (hr : c' ≠ .read) (hw : c' ≠ .write) (bufSize fuel : Nat) (s : St) (off : Nat) :
    (copyBlocks fault bufSize fuel s off).1.count c' = s.count c' := by
  induction fuel generalizing s off with
  | zero => simp [copyBlocks]
  | succ fuel ih =>
    rw [copyBlocks_succ]
    rcases fault .read (s.count .read) with _ | ⟨e⟩ | ⟨n⟩ <;> simp only []
    · exact (cbStep_count fault hw bufSize fuel ih _ _ _).trans (issueSt_count_ne fault s hr)
    · exact issueSt_count_ne fault s hr
    · exact (cbStep_count fault hw bufSize fuel ih _ _ _).trans (issueSt_count_ne fault s hr)

/-! ### a status of 0 from `finishCopy` means that nothing it called failed -/

theorem ite3_zero {a b c : Int} (h : (if a ≠ 0 then a else if b ≠ 0 then b else c) = 0) :
    a = 0 ∧ b = 0 ∧ c = 0 := by
  by_cases ha : a = 0
  · by_cases hb : b = 0
    · simpa [ha, hb] using h
    · rw [if_neg (by simpa using ha), if_pos hb] at h; exact absurd h hb
  · rw [if_pos ha] at h; exact absurd h ha

/-- No call of this kind has been made yet. -/
def Fresh (s : St) : Prop := s.count .fdatasync = 0 ∧ s.count .closeDst = 0 ∧ s.count .closeSrc = 0

/-- The first `fdatasync` and the first close of either descriptor did not fail. -/
def NoCloseErr : Prop :=
  (∀ e, fault .closeDst 0 ≠ some (.err e)) ∧ (∀ e, fault .closeSrc 0 ≠ some (.err e)) ∧
  (∀ e, fault .fdatasync 0 ≠ some (.err e))

section
variable (hl : ∀ c n e, fault c n = some (.err e) → e ≠ 0)
include hl

theorem syncOne_reported (s : St) (hc : s.count .fdatasync = 0) (h0 : (syncOne fault s true).2 = 0) :
    ∀ e, fault .fdatasync 0 ≠ some (.err e) := by
  intro e he
  unfold syncOne at h0
  simp only [issue_eq, if_true, hc, he] at h0
  exact errnoStatus_ne_zero (hl _ _ _ he) h0

theorem closeOne_reported (c : Call) (s : St) (hc : s.count c = 0)
    (h0 : (if (closeOne fault c s true).2 then errnoStatus (closeOne fault c s true).1.errno else 0) = 0) :
    ∀ e, fault c 0 ≠ some (.err e) := by
  intro e he
  unfold closeOne at h0
  simp only [issue_eq, if_true, hc, he] at h0
  exact errnoStatus_ne_zero (hl _ _ _ he) h0

theorem closeFds_reported (s : St) (hc1 : s.count .closeDst = 0) (hc2 : s.count .closeSrc = 0)
    (h0 : (closeFds fault s true true).2 = 0) :
    (∀ e, fault .closeDst 0 ≠ some (.err e)) ∧ (∀ e, fault .closeSrc 0 ≠ some (.err e)) := by
  rw [closeFds_eq] at h0
  obtain ⟨_, h1, h2⟩ := ite3_zero h0
  exact ⟨closeOne_reported fault hl .closeDst s hc1 h1,
    closeOne_reported fault hl .closeSrc _ ((closeOne_count fault .closeDst s true (by decide)).trans hc2) h2⟩

theorem finishCopy_reported (s : St) (status : Int) (hf : Fresh s)
    (h0 : (finishCopy fault s true true status).2 = 0) : NoCloseErr fault := by
  rw [finishCopy_eq] at h0
  obtain ⟨_, h1, h2⟩ := ite3_zero h0
  have hc := closeFds_reported fault hl (syncOne fault s true).1
    ((syncOne_count fault s true (by decide)).trans hf.2.1) ((syncOne_count fault s true (by decide)).trans hf.2.2) h2
  exact ⟨hc.1, hc.2, syncOne_reported fault hl s hf.1 h1⟩
end

theorem Fresh.issue {s : St} (h : Fresh s) (c : Call) (h0 : c ≠ .fdatasync := by decide)
    (h1 : c ≠ .closeDst := by decide) (h2 : c ≠ .closeSrc := by decide) : Fresh (issueSt fault s c) :=
  ⟨(issueSt_count_ne fault s (Ne.symm h0)).trans h.1, (issueSt_count_ne fault s (Ne.symm h1)).trans h.2.1,
    (issueSt_count_ne fault s (Ne.symm h2)).trans h.2.2⟩

theorem Fresh.cfrLoop {s : St} (h : Fresh s) (fuel r : Nat) : Fresh (cfrLoop fault fuel s r).1 :=
  ⟨(cfrLoop_count fault (by decide) fuel s r).trans h.1, (cfrLoop_count fault (by decide) fuel s r).trans h.2.1,
    (cfrLoop_count fault (by decide) fuel s r).trans h.2.2⟩

theorem Fresh.copyBlocks {s : St} (h : Fresh s) (bufSize fuel off : Nat) :
    Fresh (copyBlocks fault bufSize fuel s off).1 :=
  ⟨(copyBlocks_count fault (by decide) (by decide) bufSize fuel s off).trans h.1,
    (copyBlocks_count fault (by decide) (by decide) bufSize fuel s off).trans h.2.1,
    (copyBlocks_count fault (by decide) (by decide) bufSize fuel s off).trans h.2.2⟩
end


/-! ## `copyFile` in stages

The stage functions are verbatim pieces of `copyFile`, so `copyFile_eq` holds by `rfl`; each stage then
gets an equation in which the fault looked up is explicit. -/
section
variable (w : World) (ow : Bool) (fault : Call → Nat → Option Fault)

/-- `finishCopy` packaged as a `Result`. -/
def finishR (s : St) (hd hs : Bool) (status : Int) : Result :=
  ⟨(finishCopy fault s hd hs status).2, (finishCopy fault s hd hs status).1⟩

/-- Releasing the buffer (`zix_aligned_free`) and the `errno = 0` that follows: the release cannot
fail, whatever it leaves in errno is discarded. -/
def freeOne (s : St) : St :=
  let s := match issue fault s .free with
    | (s, some (.err e)) => { s with errno := e }
    | (s, _) => s
  { s with errno := 0 }

/-- The user-space copy: when the kernel copy reported NOT_SUPPORTED or the source reports no size. -/
def stageFallback (s : St) : Result :=
  let done := (s.dst.getD []).length
  let (s, f) := issue fault s .alloc
  let bufSize := match f with | some _ => 512 | none => w.blk
  let s := { s with errno := 0 }
  let (s, st) := copyBlocks fault bufSize (s.src.length + 2) s done
  let s := freeOne fault s
  let (s, st) := finishCopy fault s true true st
  ⟨st, s⟩

/-- The kernel copy (only for a source that reports a size) and what follows. -/
def stageCopy (s : St) : Result :=
  let reported := if w.sizeKnown then s.src.length else 0
  if reported = 0 then stageFallback w fault s
  else
    let s := { s with errno := 0 }
    match cfrLoop fault (s.src.length + 1) s reported with
    | (s, some st) =>
      let (s, st) := finishCopy fault s true true st
      ⟨st, s⟩
    | (s, none) => stageFallback w fault s

/-- After both files are open and examined: same-file check, truncation. -/
def stageTrunc (s : St) : Result :=
  if w.dst == .sameAsSrc then
    let (s, st) := finishCopy fault s true true stBadArg
    ⟨st, s⟩
  else
    let (s, truncErr) : St × Option Int :=
      if ow then
        match issue fault s .ftruncate with
        | (s, some (.err e)) => ({ s with errno := e }, some e)
        | (s, _) => ({ s with dst := some [] }, none)
      else (s, none)
    match truncErr with
    | some e =>
      let (s, st) := finishCopy fault s true true (errnoStatus e)
      ⟨st, s⟩
    | none => stageCopy w fault s

/-- Examine the opened destination. -/
def stageFstatDst (s : St) : Result :=
  match issue fault s .fstatDst with
  | (s, some (.err e)) =>
    let (s, st) := finishCopy fault { s with errno := e } true true (errnoStatus e)
    ⟨st, s⟩
  | (s, _) => stageTrunc w ow fault s

/-- Open the destination and examine it. -/
def stageDst (s : St) : Result :=
  let (s, f) := issue fault s .openDst
  let dstErr : Option Int := match f with
    | some (.err e) => some e
    | _ => match w.dst with
      | .directory => some (if ow then EISDIR else EEXIST)
      | .absent => none
      | _ => if ow then none else some EEXIST
  match dstErr with
  | some e =>
    let (s, st) := finishCopy fault { s with errno := e } false true (errnoStatus e)
    ⟨st, s⟩
  | none =>
    let s := { s with opened := s.opened + 1, dst := (match s.dst with | none => some [] | d => d) }
    stageFstatDst w ow fault s

/-- After the source is open: examine it. -/
def stageSrc (s : St) : Result :=
  match issue fault s .fstatSrc with
  | (s, some (.err e)) =>
    let (s, st) := finishCopy fault { s with errno := e } false true (errnoStatus e)
    ⟨st, s⟩
  | (s, _) =>
    if w.srcKind ≠ .regular then
      let (s, st) := finishCopy fault s false true stBadArg
      ⟨st, s⟩
    else stageDst w ow fault s

/-- The file system before the call. -/
def initSt : St :=
  { src := w.src, srcTouched := false,
    dst := (match w.dst with | .absent => none | .file c => some c | .sameAsSrc => some w.src | .directory => none),
    errno := 0, counts := [], trace := [], opened := 0, closed := 0 }

theorem copyFile_eq : copyFile w ow fault =
    (let (s, f) := issue fault (initSt w) .openSrc
     let openErr : Option Int := match f with
       | some (.err e) => some e
       | _ => if w.srcKind = .missing then some ENOENT else none
     match openErr with
     | some e =>
       let (s, st) := finishCopy fault { s with errno := e } false false (errnoStatus e)
       ⟨st, s⟩
     | none => stageSrc w ow fault { s with opened := s.opened + 1 }) := rfl

/-- What `open(src)` reports. -/
def openErrOf (f : Option Fault) : Option Int :=
  match f with
  | some (.err e) => some e
  | _ => if w.srcKind = .missing then some ENOENT else none

/-- What `open(dst, O_CREAT [| O_EXCL])` reports. -/
def dstErrOf (f : Option Fault) : Option Int :=
  match f with
  | some (.err e) => some e
  | _ => match w.dst with
    | .directory => some (if ow then EISDIR else EEXIST)
    | .absent => none
    | _ => if ow then none else some EEXIST

theorem copyFile_eq' : copyFile w ow fault =
    match openErrOf w (fault .openSrc 0) with
    | some e => finishR fault { issueSt fault (initSt w) .openSrc with errno := e } false false (errnoStatus e)
    | none => stageSrc w ow fault { issueSt fault (initSt w) .openSrc with opened := 1 } := rfl

theorem stageSrc_eq (s : St) : stageSrc w ow fault s =
    match fault .fstatSrc (s.count .fstatSrc) with
    | some (.err e) => finishR fault { issueSt fault s .fstatSrc with errno := e } false true (errnoStatus e)
    | _ =>
      if w.srcKind ≠ .regular then finishR fault (issueSt fault s .fstatSrc) false true stBadArg
      else stageDst w ow fault (issueSt fault s .fstatSrc) := by
  unfold stageSrc; simp only [issue_eq]
  rcases fault .fstatSrc (s.count .fstatSrc) with _ | ⟨e⟩ | ⟨n⟩ <;> rfl

/-- The state after a successful `open(dst)`. -/
def dstOpened (s : St) : St :=
  { issueSt fault s .openDst with opened := s.opened + 1, dst := (match s.dst with | none => some [] | d => d) }

theorem stageDst_eq (s : St) : stageDst w ow fault s =
    match dstErrOf w ow (fault .openDst (s.count .openDst)) with
    | some e => finishR fault { issueSt fault s .openDst with errno := e } false true (errnoStatus e)
    | none => stageFstatDst w ow fault (dstOpened fault s) := rfl

theorem stageFstatDst_eq (s : St) : stageFstatDst w ow fault s =
    match fault .fstatDst (s.count .fstatDst) with
    | some (.err e) => finishR fault { issueSt fault s .fstatDst with errno := e } true true (errnoStatus e)
    | _ => stageTrunc w ow fault (issueSt fault s .fstatDst) := by
  unfold stageFstatDst; simp only [issue_eq]
  rcases fault .fstatDst (s.count .fstatDst) with _ | ⟨e⟩ | ⟨n⟩ <;> rfl

theorem stageTrunc_eq (s : St) : stageTrunc w ow fault s =
    if w.dst = .sameAsSrc then finishR fault s true true stBadArg
    else if ow then
      match fault .ftruncate (s.count .ftruncate) with
      | some (.err e) => finishR fault { issueSt fault s .ftruncate with errno := e } true true (errnoStatus e)
      | _ => stageCopy w fault { issueSt fault s .ftruncate with dst := some [] }
    else stageCopy w fault s := by
  unfold stageTrunc
  by_cases hd : w.dst = .sameAsSrc
  · simp only [hd, if_true, beq_self_eq_true]; rfl
  · have hd' : (w.dst == Dst.sameAsSrc) = false := by simpa using hd
    simp only [hd', if_neg hd, Bool.false_eq_true, if_false]
    cases ow
    · rfl
    · simp only [if_true, issue_eq]
      rcases fault .ftruncate (s.count .ftruncate) with _ | ⟨e⟩ | ⟨n⟩ <;> rfl

theorem stageCopy_eq (s : St) : stageCopy w fault s =
    if w.sizeKnown = false ∨ s.src.length = 0 then stageFallback w fault s
    else
      match (cfrLoop fault (s.src.length + 1) { s with errno := 0 } s.src.length).2 with
      | some st => finishR fault (cfrLoop fault (s.src.length + 1) { s with errno := 0 } s.src.length).1 true true st
      | none => stageFallback w fault (cfrLoop fault (s.src.length + 1) { s with errno := 0 } s.src.length).1 := by
  unfold stageCopy
  cases w.sizeKnown
  · simp
  · by_cases h0 : s.src.length = 0
    · simp [h0]
    · simp only [if_true, if_neg h0, Bool.true_eq_false, false_or]
      show (match cfrLoop fault (s.src.length + 1) { s with errno := 0 } s.src.length with
        | (s, some st) => _ | (s, none) => _) = _
      rcases cfrLoop fault (s.src.length + 1) { s with errno := 0 } s.src.length with ⟨s', _ | st⟩ <;> rfl

/-- The buffer size used by the user-space copy. -/
def bufSizeOf (f : Option Fault) : Nat := match f with | some _ => 512 | none => w.blk

theorem stageFallback_eq (s : St) : stageFallback w fault s =
    finishR fault
      (freeOne fault (copyBlocks fault (bufSizeOf w (fault .alloc (s.count .alloc))) (s.src.length + 2)
        { issueSt fault s .alloc with errno := 0 } (s.dst.getD []).length).1) true true
      (copyBlocks fault (bufSizeOf w (fault .alloc (s.count .alloc))) (s.src.length + 2)
        { issueSt fault s .alloc with errno := 0 } (s.dst.getD []).length).2 := rfl

theorem freeOne_eq (s : St) : freeOne fault s = { issueSt fault s .free with errno := 0 } := by
  unfold freeOne; simp only [issue_eq]
  rcases fault .free (s.count .free) with _ | ⟨e⟩ | ⟨n⟩ <;> rfl

section
variable (s : St)
@[simp] theorem freeOne_src : (freeOne fault s).src = s.src := by rw [freeOne_eq]; rfl
@[simp] theorem freeOne_dst : (freeOne fault s).dst = s.dst := by rw [freeOne_eq]; rfl
@[simp] theorem freeOne_opened : (freeOne fault s).opened = s.opened := by rw [freeOne_eq]; rfl
@[simp] theorem freeOne_closed : (freeOne fault s).closed = s.closed := by rw [freeOne_eq]; rfl
@[simp] theorem freeOne_errno : (freeOne fault s).errno = 0 := by rw [freeOne_eq]
theorem freeOne_count (c : Call) (h : c ≠ .free) : (freeOne fault s).count c = s.count c := by
  rw [freeOne_eq]; exact (issueSt_count fault s .free c).trans (if_neg h)
end
end

/-! ## properties of the stages -/

section
variable (w : World) (ow : Bool) (fault : Call → Nat → Option Fault)

section
variable (s : St) (hd hs : Bool) (status : Int)
@[simp] theorem finishR_src : (finishR fault s hd hs status).st.src = s.src := by simp [finishR]
@[simp] theorem finishR_dst : (finishR fault s hd hs status).st.dst = s.dst := by simp [finishR]
@[simp] theorem finishR_opened : (finishR fault s hd hs status).st.opened = s.opened := by simp [finishR]
@[simp] theorem finishR_closed :
    (finishR fault s hd hs status).st.closed = s.closed + hd.toNat + hs.toNat := by simp [finishR]
theorem finishR_status_of_ne (h : status ≠ 0) : (finishR fault s hd hs status).status = status :=
  finishCopy_status_of_ne fault s hd hs status h
theorem status_zero_of_finishR (h : (finishR fault s hd hs status).status = 0) : status = 0 :=
  status_zero_of_finishCopy fault s hd hs status h
theorem finishR_ok (hsync : ∀ n e, fault .fdatasync n ≠ some (.err e))
    (hclose : ∀ n e, fault .closeDst n ≠ some (.err e)) (hclose' : ∀ n e, fault .closeSrc n ≠ some (.err e))
    (he : s.errno = 0) (hst : status = 0) :
    (finishR fault s hd hs status).status = 0 :=
  finishCopy_ok fault s hd hs status hsync hclose hclose' he hst
end

/-- Frame condition of a stage entered with `n` descriptors open. -/
def Bal (n : Nat) (s : St) (r : Result) : Prop :=
  r.st.src = s.src ∧ r.st.opened + s.closed + n = r.st.closed + s.opened

theorem finishR_bal (s : St) (hd hs : Bool) (status : Int) :
    Bal (hd.toNat + hs.toNat) s (finishR fault s hd hs status) := by
  simp [Bal]; omega

theorem Bal.of_eq {n : Nat} {s s' : St} {r : Result} (h : Bal n s' r) (h1 : s'.src = s.src)
    (h2 : s'.opened = s.opened) (h3 : s'.closed = s.closed) : Bal n s r := by
  unfold Bal at *; rw [← h1, ← h2, ← h3]; exact h

theorem Bal.of_open {n : Nat} {s s' : St} {r : Result} (h : Bal (n + 1) s' r) (h1 : s'.src = s.src)
    (h2 : s'.opened = s.opened + 1) (h3 : s'.closed = s.closed) : Bal n s r := by
  unfold Bal at *; rw [← h1, ← h3]; rw [h2] at h; exact ⟨h.1, by omega⟩

theorem stageFallback_bal (s : St) : Bal 2 s (stageFallback w fault s) := by
  rw [stageFallback_eq]
  have h := copyBlocks_frame fault (bufSizeOf w (fault .alloc (s.count .alloc))) (s.src.length + 2)
        { issueSt fault s .alloc with errno := 0 } (s.dst.getD []).length
  exact (finishR_bal fault _ true true _).of_eq ((freeOne_src ..).trans h.1) ((freeOne_opened ..).trans h.2.1)
    ((freeOne_closed ..).trans h.2.2)

theorem stageCopy_bal (s : St) : Bal 2 s (stageCopy w fault s) := by
  rw [stageCopy_eq]
  have h := cfrLoop_frame fault (s.src.length + 1) { s with errno := 0 } s.src.length
  split
  · exact stageFallback_bal w fault s
  · split
    · exact (finishR_bal fault _ true true _).of_eq h.1 h.2.1 h.2.2
    · exact (stageFallback_bal w fault _).of_eq h.1 h.2.1 h.2.2

theorem stageTrunc_bal (s : St) : Bal 2 s (stageTrunc w ow fault s) := by
  rw [stageTrunc_eq]
  split
  · exact finishR_bal fault _ true true _
  · split
    · split
      · exact (finishR_bal fault _ true true _).of_eq rfl rfl rfl
      · exact (stageCopy_bal w fault _).of_eq rfl rfl rfl
    · exact stageCopy_bal w fault s

theorem stageFstatDst_bal (s : St) : Bal 2 s (stageFstatDst w ow fault s) := by
  rw [stageFstatDst_eq]
  split
  · exact (finishR_bal fault _ true true _).of_eq rfl rfl rfl
  · exact (stageTrunc_bal w ow fault _).of_eq rfl rfl rfl

theorem stageDst_bal (s : St) : Bal 1 s (stageDst w ow fault s) := by
  rw [stageDst_eq]
  split
  · exact (finishR_bal fault _ false true _).of_eq rfl rfl rfl
  · exact (stageFstatDst_bal w ow fault (dstOpened fault s)).of_open rfl rfl rfl

theorem stageSrc_bal (s : St) : Bal 1 s (stageSrc w ow fault s) := by
  rw [stageSrc_eq]
  split
  · exact (finishR_bal fault _ false true _).of_eq rfl rfl rfl
  · split
    · exact (finishR_bal fault _ false true _).of_eq rfl rfl rfl
    · exact (stageDst_bal w ow fault _).of_eq rfl rfl rfl

theorem copyFile_bal : Bal 0 (initSt w) (copyFile w ow fault) := by
  rw [copyFile_eq']
  split
  · exact (finishR_bal fault _ false false _).of_eq rfl rfl rfl
  · exact (stageSrc_bal w ow fault _).of_open rfl rfl rfl

theorem dstErrOf_none {f : Option Fault} (h : dstErrOf w ow f = none) :
    (∀ e, f ≠ some (.err e)) ∧ w.dst ≠ .directory ∧ (ow = false → w.dst = .absent) := by
  unfold dstErrOf at h
  rcases f with _ | ⟨e⟩ | ⟨n⟩ <;> simp only [] at h
  · rcases hd : w.dst with _ | c | _ | _ <;> rw [hd] at h <;> cases ow <;> simp at h ⊢
  · simp at h
  · rcases hd : w.dst with _ | c | _ | _ <;> rw [hd] at h <;> cases ow <;> simp at h ⊢

theorem dstErrOf_some_ne {f : Option Fault} {e : Int} (hf : ∀ e, f = some (.err e) → e ≠ 0)
    (h : dstErrOf w ow f = some e) : e ≠ 0 := by
  unfold dstErrOf at h
  rcases f with _ | ⟨e'⟩ | ⟨n⟩ <;> simp only [] at h
  · rcases hd : w.dst with _ | c | _ | _ <;> rw [hd] at h <;> cases ow <;> simp at h <;> subst h <;> decide
  · simp only [Option.some.injEq] at h; subst h; exact hf _ rfl
  · rcases hd : w.dst with _ | c | _ | _ <;> rw [hd] at h <;> cases ow <;> simp at h <;> subst h <;> decide

theorem openErrOf_none {f : Option Fault} (h : openErrOf w f = none) :
    (∀ e, f ≠ some (.err e)) ∧ w.srcKind ≠ .missing := by
  unfold openErrOf at h
  rcases f with _ | ⟨e⟩ | ⟨n⟩ <;> simp only [] at h
  · refine ⟨by simp, fun hm => ?_⟩; rw [if_pos hm] at h; exact absurd h (by simp)
  · simp at h
  · refine ⟨by simp, fun hm => ?_⟩; rw [if_pos hm] at h; exact absurd h (by simp)

theorem openErrOf_some_ne {f : Option Fault} {e : Int} (hf : ∀ e, f = some (.err e) → e ≠ 0)
    (h : openErrOf w f = some e) : e ≠ 0 := by
  unfold openErrOf at h
  rcases f with _ | ⟨e'⟩ | ⟨n⟩ <;> simp only [] at h
  · split at h <;> simp at h; subst h; decide
  · simp only [Option.some.injEq] at h; subst h; exact hf _ rfl
  · split at h <;> simp at h; subst h; decide

/-! ### SUCCESS only for a complete copy -/
section
variable (hl : ∀ c n e, fault c n = some (.err e) → e ≠ 0)
include hl

theorem stageFallback_complete (hblk : 0 < w.blk) (s : St) (d : Nat) (hd : d ≤ s.src.length)
    (hdst : s.dst = some (s.src.take d)) (h0 : (stageFallback w fault s).status = 0) :
    (stageFallback w fault s).st.dst = some s.src := by
  rw [stageFallback_eq] at h0 ⊢
  have hst := status_zero_of_finishR _ _ _ _ _ h0
  rw [finishR_dst, freeOne_dst]
  have hlen : (s.dst.getD []).length = d := by simp [hdst]; omega
  rw [hlen] at hst ⊢
  have hb : 0 < bufSizeOf w (fault .alloc (s.count .alloc)) := by
    unfold bufSizeOf; split <;> omega
  exact copyBlocks_spec fault (hl _) (hl _) _ hb _ { issueSt fault s .alloc with errno := 0 } d hd
    (by simp; omega) hdst hst

theorem stageCopy_complete (hblk : 0 < w.blk) (s : St) (hdst : s.dst = some [])
    (h0 : (stageCopy w fault s).status = 0) : (stageCopy w fault s).st.dst = some s.src := by
  rw [stageCopy_eq] at h0 ⊢
  by_cases hc : w.sizeKnown = false ∨ s.src.length = 0
  · rw [if_pos hc] at h0 ⊢
    exact stageFallback_complete w fault hl hblk s 0 (Nat.zero_le _) (by simp [hdst]) h0
  rw [if_neg hc] at h0 ⊢
  have hfr := cfrLoop_frame fault (s.src.length + 1) { s with errno := 0 } s.src.length
  obtain ⟨r', hr', hd', hz⟩ := cfrLoop_spec fault (hl _) (s.src.length + 1) { s with errno := 0 } s.src.length
    (Nat.le_refl _) (Nat.lt_succ_self _) (by simp [hdst])
  simp only [] at hfr hr' hd' hz
  split at h0 <;> rename_i heq
  · have hst := status_zero_of_finishR _ _ _ _ _ h0
    subst hst
    rw [finishR_dst, hd', hz heq]; simp
  · have := stageFallback_complete w fault hl hblk _ (s.src.length - r') (by rw [hfr.1]; omega)
      (by rw [hfr.1]; exact hd') h0
    rw [this, hfr.1]

theorem finishR_ne_of_err (s : St) (hd hs : Bool) {c : Call} {n : Nat} {e : Int}
    (hf : fault c n = some (.err e)) : (finishR fault s hd hs (errnoStatus e)).status ≠ 0 := by
  rw [finishR_status_of_ne _ _ _ _ _ (errnoStatus_ne_zero (hl _ _ _ hf))]
  exact errnoStatus_ne_zero (hl _ _ _ hf)

theorem stageTrunc_complete (hblk : 0 < w.blk) (s : St) (hdst : ow = false → s.dst = some [])
    (h0 : (stageTrunc w ow fault s).status = 0) : (stageTrunc w ow fault s).st.dst = some s.src := by
  rw [stageTrunc_eq] at h0 ⊢
  by_cases hsame : w.dst = .sameAsSrc
  · rw [if_pos hsame, finishR_status_of_ne _ _ _ _ _ (by decide)] at h0; exact absurd h0 (by decide)
  · rw [if_neg hsame] at h0 ⊢
    cases ow
    · simp only [Bool.false_eq_true, if_false] at h0 ⊢
      exact stageCopy_complete w fault hl hblk _ (hdst rfl) h0
    · simp only [if_true] at h0 ⊢
      split at h0
      · rename_i hf; exact absurd h0 (finishR_ne_of_err fault hl _ _ _ hf)
      · exact stageCopy_complete w fault hl hblk _ rfl h0

theorem stageFstatDst_complete (hblk : 0 < w.blk) (s : St) (hdst : ow = false → s.dst = some [])
    (h0 : (stageFstatDst w ow fault s).status = 0) : (stageFstatDst w ow fault s).st.dst = some s.src := by
  rw [stageFstatDst_eq] at h0 ⊢
  split at h0
  · rename_i hf; exact absurd h0 (finishR_ne_of_err fault hl _ _ _ hf)
  · exact stageTrunc_complete w ow fault hl hblk _ hdst h0

theorem stageDst_complete (hblk : 0 < w.blk) (s : St) (hdst : w.dst = .absent → s.dst = none)
    (h0 : (stageDst w ow fault s).status = 0) : (stageDst w ow fault s).st.dst = some s.src := by
  rw [stageDst_eq] at h0 ⊢
  split at h0
  · rename_i e he
    have hne := dstErrOf_some_ne w ow (fun e h => hl _ _ e h) he
    rw [finishR_status_of_ne _ _ _ _ _ (errnoStatus_ne_zero hne)] at h0
    exact absurd h0 (errnoStatus_ne_zero hne)
  · rename_i he
    have := dstErrOf_none w ow he
    exact stageFstatDst_complete w ow fault hl hblk (dstOpened fault s)
      (fun how => by simp [dstOpened, hdst (this.2.2 how)]) h0

theorem stageSrc_complete (hblk : 0 < w.blk) (s : St) (hdst : w.dst = .absent → s.dst = none)
    (h0 : (stageSrc w ow fault s).status = 0) : (stageSrc w ow fault s).st.dst = some s.src := by
  rw [stageSrc_eq] at h0 ⊢
  split at h0
  · rename_i hf; exact absurd h0 (finishR_ne_of_err fault hl _ _ _ hf)
  · by_cases hreg : w.srcKind = .regular
    · simp only [hreg, ne_eq, not_true_eq_false, if_false] at h0 ⊢
      exact stageDst_complete w ow fault hl hblk _ hdst h0
    · rw [if_pos hreg, finishR_status_of_ne _ _ _ _ _ (by decide)] at h0; exact absurd h0 (by decide)

theorem copyFile_complete (hblk : 0 < w.blk) (h0 : (copyFile w ow fault).status = 0) :
    (copyFile w ow fault).st.dst = some w.src := by
  rw [copyFile_eq'] at h0 ⊢
  split at h0
  · rename_i e he
    have hne := openErrOf_some_ne w (fun e h => hl _ _ e h) he
    rw [finishR_status_of_ne _ _ _ _ _ (errnoStatus_ne_zero hne)] at h0
    exact absurd h0 (errnoStatus_ne_zero hne)
  · exact stageSrc_complete w ow fault hl hblk _ (fun hd => by simp [initSt, hd]) h0
end

/-! ### no failing call: SUCCESS -/
section
variable (hok : ∀ c n e, fault c n = some (.err e) →
    (c = .alloc ∨ c = .free ∨ (c = .cfr ∧ (e = EXDEV ∨ e = EINVAL ∨ e = ENOSYS))))
  (hshort : ∀ c n k, fault c n = some (.short k) → 0 < k)
include hok

theorem no_err_of_hok (c : Call) (h1 : c ≠ .alloc) (h2 : c ≠ .cfr) (h3 : c ≠ .free) (n : Nat) (e : Int) :
    fault c n ≠ some (.err e) := by
  intro h
  rcases hok c n e h with h' | h' | ⟨h', _⟩
  · exact h1 h'
  · exact h3 h'
  · exact h2 h'

include hshort

theorem stageFallback_ok (s : St) : (stageFallback w fault s).status = 0 := by
  rw [stageFallback_eq]
  have h := copyBlocks_ok fault (no_err_of_hok fault hok .read (by decide) (by decide) (by decide))
    (no_err_of_hok fault hok .write (by decide) (by decide) (by decide)) (hshort .write)
    (bufSizeOf w (fault .alloc (s.count .alloc))) (s.src.length + 2)
    { issueSt fault s .alloc with errno := 0 } (s.dst.getD []).length
  exact finishR_ok fault _ _ _ _ (no_err_of_hok fault hok .fdatasync (by decide) (by decide) (by decide))
    (no_err_of_hok fault hok .closeDst (by decide) (by decide) (by decide)) (no_err_of_hok fault hok .closeSrc (by decide) (by decide) (by decide)) (freeOne_errno ..) h.1

theorem stageCopy_ok (s : St) : (stageCopy w fault s).status = 0 := by
  rw [stageCopy_eq]
  have h := cfrLoop_ok fault (fun n e hf => by
      rcases hok _ n e hf with h' | h' | ⟨_, h'⟩
      · exact absurd h' (by decide)
      · exact absurd h' (by decide)
      · exact h') (s.src.length + 1) { s with errno := 0 } s.src.length
  split
  · exact stageFallback_ok w fault hok hshort _
  rcases h with ⟨h1, h2⟩ | h1
  · rw [h1]
    exact finishR_ok fault _ _ _ _ (no_err_of_hok fault hok .fdatasync (by decide) (by decide) (by decide))
      (no_err_of_hok fault hok .closeDst (by decide) (by decide) (by decide)) (no_err_of_hok fault hok .closeSrc (by decide) (by decide) (by decide)) h2 rfl
  · rw [h1]
    exact stageFallback_ok w fault hok hshort _

theorem stageTrunc_ok (s : St) (hne : w.dst ≠ .sameAsSrc) : (stageTrunc w ow fault s).status = 0 := by
  rw [stageTrunc_eq, if_neg hne]
  cases ow
  · simp only [Bool.false_eq_true, if_false]
    exact stageCopy_ok w fault hok hshort _
  · simp only [if_true]
    split
    · rename_i hf; exact absurd hf (no_err_of_hok fault hok .ftruncate (by decide) (by decide) (by decide) _ _)
    · exact stageCopy_ok w fault hok hshort _

theorem stageFstatDst_ok (s : St) (hne : w.dst ≠ .sameAsSrc) :
    (stageFstatDst w ow fault s).status = 0 := by
  rw [stageFstatDst_eq]
  split
  · rename_i hf; exact absurd hf (no_err_of_hok fault hok .fstatDst (by decide) (by decide) (by decide) _ _)
  · exact stageTrunc_ok w ow fault hok hshort _ hne

omit hok hshort in
theorem dstErrOf_eq_none {f : Option Fault} (hf : ∀ e, f ≠ some (.err e))
    (hdst : w.dst = .absent ∨ (ow = true ∧ ∃ c, w.dst = .file c)) : dstErrOf w ow f = none := by
  unfold dstErrOf
  rcases f with _ | ⟨e⟩ | ⟨n⟩ <;> simp only []
  · rcases hdst with h | ⟨h1, c, h⟩ <;> simp [*]
  · exact absurd rfl (hf e)
  · rcases hdst with h | ⟨h1, c, h⟩ <;> simp [*]

theorem stageDst_ok (s : St) (hdst : w.dst = .absent ∨ (ow = true ∧ ∃ c, w.dst = .file c)) :
    (stageDst w ow fault s).status = 0 := by
  rw [stageDst_eq, dstErrOf_eq_none w ow (no_err_of_hok fault hok .openDst (by decide) (by decide) (by decide) _) hdst]
  refine stageFstatDst_ok w ow fault hok hshort _ ?_
  rcases hdst with h | ⟨_, c, h⟩ <;> rw [h] <;> simp

theorem stageSrc_ok (s : St) (hreg : w.srcKind = .regular)
    (hdst : w.dst = .absent ∨ (ow = true ∧ ∃ c, w.dst = .file c)) :
    (stageSrc w ow fault s).status = 0 := by
  rw [stageSrc_eq]
  split
  · rename_i hf; exact absurd hf (no_err_of_hok fault hok .fstatSrc (by decide) (by decide) (by decide) _ _)
  · simp only [hreg, ne_eq, not_true_eq_false, if_false]
    exact stageDst_ok w ow fault hok hshort _ hdst

theorem copyFile_ok (hreg : w.srcKind = .regular)
    (hdst : w.dst = .absent ∨ (ow = true ∧ ∃ c, w.dst = .file c)) :
    (copyFile w ow fault).status = 0 := by
  rw [copyFile_eq']
  have : openErrOf w (fault .openSrc 0) = none := by
    unfold openErrOf
    rcases hf : fault .openSrc 0 with _ | ⟨e⟩ | ⟨n⟩ <;> simp only []
    · simp [hreg]
    · exact absurd hf (no_err_of_hok fault hok .openSrc (by decide) (by decide) (by decide) _ _)
    · simp [hreg]
  rw [this]
  exact stageSrc_ok w ow fault hok hshort _ hreg hdst
end

/-! ### refusals -/

theorem copyFile_nonregular (hl : ∀ c n e, fault c n = some (.err e) → e ≠ 0)
    (hk : w.srcKind ≠ .regular) : (copyFile w ow fault).status ≠ 0 := by
  rw [copyFile_eq']
  split
  · rename_i e he
    have hne := openErrOf_some_ne w (fun e h => hl _ _ e h) he
    rw [finishR_status_of_ne _ _ _ _ _ (errnoStatus_ne_zero hne)]
    exact errnoStatus_ne_zero hne
  · rw [stageSrc_eq]
    split
    · rename_i hf; exact finishR_ne_of_err fault hl _ _ _ hf
    · rw [if_pos hk, finishR_status_of_ne _ _ _ _ _ (by decide)]; decide

section
variable (hl : ∀ c n e, fault c n = some (.err e) → e ≠ 0) (hd : w.dst = .sameAsSrc)
include hl hd

omit hl in
theorem stageTrunc_same (s : St) :
    (stageTrunc w ow fault s).status ≠ 0 ∧ (stageTrunc w ow fault s).st.dst = s.dst := by
  rw [stageTrunc_eq, if_pos hd, finishR_status_of_ne _ _ _ _ _ (by decide)]
  exact ⟨by decide, finishR_dst ..⟩

theorem stageFstatDst_same (s : St) :
    (stageFstatDst w ow fault s).status ≠ 0 ∧ (stageFstatDst w ow fault s).st.dst = s.dst := by
  rw [stageFstatDst_eq]
  split
  · rename_i hf; exact ⟨finishR_ne_of_err fault hl _ _ _ hf, finishR_dst ..⟩
  · exact stageTrunc_same w ow fault hd _

theorem stageDst_same (s : St) (hs : s.dst ≠ none) :
    (stageDst w ow fault s).status ≠ 0 ∧ (stageDst w ow fault s).st.dst = s.dst := by
  rw [stageDst_eq]
  split
  · rename_i e he
    have hne := dstErrOf_some_ne w ow (fun e h => hl _ _ e h) he
    rw [finishR_status_of_ne _ _ _ _ _ (errnoStatus_ne_zero hne)]
    exact ⟨errnoStatus_ne_zero hne, finishR_dst ..⟩
  · have := stageFstatDst_same w ow fault hl hd (dstOpened fault s)
    refine ⟨this.1, this.2.trans ?_⟩
    rcases hsd : s.dst with _ | d
    · exact absurd hsd hs
    · simp [dstOpened, hsd]

theorem stageSrc_same (s : St) (hs : s.dst ≠ none) :
    (stageSrc w ow fault s).status ≠ 0 ∧ (stageSrc w ow fault s).st.dst = s.dst := by
  rw [stageSrc_eq]
  split
  · rename_i hf; exact ⟨finishR_ne_of_err fault hl _ _ _ hf, finishR_dst ..⟩
  · split
    · rw [finishR_status_of_ne _ _ _ _ _ (by decide)]; exact ⟨by decide, finishR_dst ..⟩
    · exact stageDst_same w ow fault hl hd _ hs

theorem copyFile_same :
    (copyFile w ow fault).status ≠ 0 ∧ (copyFile w ow fault).st.dst = some w.src := by
  have hi : (initSt w).dst = some w.src := by simp [initSt, hd]
  rw [copyFile_eq']
  split
  · rename_i e he
    have hne := openErrOf_some_ne w (fun e h => hl _ _ e h) he
    rw [finishR_status_of_ne _ _ _ _ _ (errnoStatus_ne_zero hne)]
    exact ⟨errnoStatus_ne_zero hne, (finishR_dst ..).trans hi⟩
  · have := stageSrc_same w ow fault hl hd { issueSt fault (initSt w) .openSrc with opened := 1 }
      (by simp [hi])
    exact ⟨this.1, this.2.trans hi⟩
end

/-! ### without the overwrite option -/
section
variable (c : List Nat) (hd : w.dst = .file c)
include hd

theorem dstErrOf_excl (f : Option Fault) : ∃ e, dstErrOf w false f = some e := by
  unfold dstErrOf
  rcases f with _ | ⟨e⟩ | ⟨n⟩ <;> simp [hd]

theorem dstErrOf_excl_eexist (f : Option Fault) (hf : ∀ e, f ≠ some (.err e)) :
    dstErrOf w false f = some EEXIST := by
  unfold dstErrOf
  rcases f with _ | ⟨e⟩ | ⟨n⟩ <;> simp [hd]
  exact absurd rfl (hf e)

theorem stageDst_excl (s : St) : (stageDst w false fault s).st.dst = s.dst := by
  rw [stageDst_eq]
  obtain ⟨e, he⟩ := dstErrOf_excl w c hd (fault .openDst (s.count .openDst))
  rw [he]; exact finishR_dst ..

theorem stageDst_excl_status (s : St) (hf : ∀ e, fault .openDst (s.count .openDst) ≠ some (.err e)) :
    (stageDst w false fault s).status = 4 := by
  rw [stageDst_eq, dstErrOf_excl_eexist w c hd _ hf]
  exact finishR_status_of_ne _ _ _ _ _ (by decide)

theorem stageSrc_excl (s : St) : (stageSrc w false fault s).st.dst = s.dst := by
  rw [stageSrc_eq]
  split
  · exact finishR_dst ..
  · split
    · exact finishR_dst ..
    · exact stageDst_excl w fault c hd _

theorem copyFile_excl : (copyFile w false fault).st.dst = some c := by
  have hi : (initSt w).dst = some c := by simp [initSt, hd]
  rw [copyFile_eq']
  split
  · exact (finishR_dst ..).trans hi
  · exact (stageSrc_excl w fault c hd _).trans hi

theorem copyFile_excl_status (hreg : w.srcKind = .regular)
    (h1 : fault .openSrc 0 = none) (h2 : fault .fstatSrc 0 = none)
    (h3 : ∀ e, fault .openDst 0 ≠ some (.err e)) : (copyFile w false fault).status = 4 := by
  rw [copyFile_eq', h1]
  have : openErrOf w none = none := by simp [openErrOf, hreg]
  rw [this]
  simp only []
  have hc1 : ({ issueSt fault (initSt w) .openSrc with opened := 1 } : St).count .fstatSrc = 0 := by
    show (issueSt fault (initSt w) .openSrc).count .fstatSrc = 0
    rw [issueSt_count]; rfl
  have hc2 : (issueSt fault ({ issueSt fault (initSt w) .openSrc with opened := 1 } : St) .fstatSrc).count
      .openDst = 0 := by
    rw [issueSt_count]
    show (issueSt fault (initSt w) .openSrc).count .openDst = 0
    rw [issueSt_count]; rfl
  rw [stageSrc_eq, hc1, h2]
  simp only [hreg, ne_eq, not_true_eq_false, if_false]
  exact stageDst_excl_status w fault c hd _ (by rw [hc2]; exact h3)
end

/-! ### SUCCESS only if the final `fdatasync` and both closes succeeded -/
section
variable (hl : ∀ c n e, fault c n = some (.err e) → e ≠ 0)
include hl

theorem finishR_reported (s : St) (status : Int) (hf : Fresh s)
    (h0 : (finishR fault s true true status).status = 0) : NoCloseErr fault :=
  finishCopy_reported fault hl s status hf h0

theorem stageFallback_reported (s : St) (hf : Fresh s) (h0 : (stageFallback w fault s).status = 0) :
    NoCloseErr fault := by
  rw [stageFallback_eq] at h0
  refine finishR_reported fault hl _ _ ?_ h0
  have h1 : Fresh ({ issueSt fault s .alloc with errno := 0 } : St) := hf.issue fault .alloc
  have h2 := h1.copyBlocks fault (bufSizeOf w (fault .alloc (s.count .alloc))) (s.src.length + 2)
    (s.dst.getD []).length
  rw [freeOne_eq]
  exact h2.issue fault .free

theorem stageCopy_reported (s : St) (hf : Fresh s) (h0 : (stageCopy w fault s).status = 0) :
    NoCloseErr fault := by
  rw [stageCopy_eq] at h0
  have h1 : Fresh ({ s with errno := 0 } : St) := hf
  have h2 := h1.cfrLoop fault (s.src.length + 1) s.src.length
  split at h0
  · exact stageFallback_reported w fault hl s hf h0
  · split at h0
    · exact finishR_reported fault hl _ _ h2 h0
    · exact stageFallback_reported w fault hl _ h2 h0

theorem stageTrunc_reported (s : St) (hf : Fresh s) (h0 : (stageTrunc w ow fault s).status = 0) :
    NoCloseErr fault := by
  rw [stageTrunc_eq] at h0
  split at h0
  · exact finishR_reported fault hl _ _ hf h0
  · split at h0
    · split at h0
      · rename_i hq; exact absurd h0 (finishR_ne_of_err fault hl _ _ _ hq)
      · refine stageCopy_reported w fault hl _ ?_ h0
        exact hf.issue fault .ftruncate
    · exact stageCopy_reported w fault hl s hf h0

theorem stageFstatDst_reported (s : St) (hf : Fresh s) (h0 : (stageFstatDst w ow fault s).status = 0) :
    NoCloseErr fault := by
  rw [stageFstatDst_eq] at h0
  split at h0
  · rename_i hq; exact absurd h0 (finishR_ne_of_err fault hl _ _ _ hq)
  · exact stageTrunc_reported w ow fault hl _ (hf.issue fault .fstatDst) h0

theorem stageDst_reported (s : St) (hf : Fresh s) (h0 : (stageDst w ow fault s).status = 0) :
    NoCloseErr fault := by
  rw [stageDst_eq] at h0
  split at h0
  · rename_i e he
    have hne := dstErrOf_some_ne w ow (fun e h => hl _ _ e h) he
    rw [finishR_status_of_ne _ _ _ _ _ (errnoStatus_ne_zero hne)] at h0
    exact absurd h0 (errnoStatus_ne_zero hne)
  · exact stageFstatDst_reported w ow fault hl (dstOpened fault s) (hf.issue fault .openDst) h0

theorem stageSrc_reported (s : St) (hf : Fresh s) (h0 : (stageSrc w ow fault s).status = 0) :
    NoCloseErr fault := by
  rw [stageSrc_eq] at h0
  split at h0
  · rename_i hq; exact absurd h0 (finishR_ne_of_err fault hl _ _ _ hq)
  · split at h0
    · rw [finishR_status_of_ne _ _ _ _ _ (by decide)] at h0; exact absurd h0 (by decide)
    · exact stageDst_reported w ow fault hl _ (hf.issue fault .fstatSrc) h0

/-- SUCCESS is never returned when the `fdatasync` or the close of either descriptor failed. -/
theorem copyFile_reported (h0 : (copyFile w ow fault).status = 0) : NoCloseErr fault := by
  rw [copyFile_eq'] at h0
  have hi : Fresh (initSt w) := ⟨rfl, rfl, rfl⟩
  split at h0
  · rename_i e he
    have hne := openErrOf_some_ne w (fun e h => hl _ _ e h) he
    rw [finishR_status_of_ne _ _ _ _ _ (errnoStatus_ne_zero hne)] at h0
    exact absurd h0 (errnoStatus_ne_zero hne)
  · refine stageSrc_reported w ow fault hl _ ?_ h0
    exact hi.issue fault .openSrc
end

/-! ### a source that reports no size never meets `copy_file_range` -/

theorem finishR_count (s : St) (hd hs : Bool) (status : Int) {c' : Call} (h0 : c' ≠ .fdatasync)
    (h1 : c' ≠ .closeDst) (h2 : c' ≠ .closeSrc) : (finishR fault s hd hs status).st.count c' = s.count c' :=
  finishCopy_count fault s hd hs status h0 h1 h2

theorem finishR_cfr (s : St) (hd hs : Bool) (status : Int) :
    (finishR fault s hd hs status).st.count .cfr = s.count .cfr :=
  finishR_count fault s hd hs status (by decide) (by decide) (by decide)

theorem stageFallback_cfr (s : St) : (stageFallback w fault s).st.count .cfr = s.count .cfr := by
  rw [stageFallback_eq, finishR_cfr, freeOne_count _ _ _ (by decide),
    copyBlocks_count fault (by decide) (by decide)]
  exact issueSt_count_ne fault s (by decide)

section
variable (hk : w.sizeKnown = false)
include hk

theorem stageCopy_cfr (s : St) : (stageCopy w fault s).st.count .cfr = s.count .cfr := by
  rw [stageCopy_eq, if_pos (Or.inl hk)]
  exact stageFallback_cfr w fault s

theorem stageTrunc_cfr (s : St) : (stageTrunc w ow fault s).st.count .cfr = s.count .cfr := by
  rw [stageTrunc_eq]
  split
  · exact finishR_cfr ..
  · split
    · split
      · exact (finishR_cfr ..).trans (issueSt_count_ne fault s (by decide))
      · exact (stageCopy_cfr w fault hk _).trans (issueSt_count_ne fault s (by decide))
    · exact stageCopy_cfr w fault hk s

theorem stageFstatDst_cfr (s : St) : (stageFstatDst w ow fault s).st.count .cfr = s.count .cfr := by
  rw [stageFstatDst_eq]
  split
  · exact (finishR_cfr ..).trans (issueSt_count_ne fault s (by decide))
  · exact (stageTrunc_cfr w ow fault hk _).trans (issueSt_count_ne fault s (by decide))

theorem stageDst_cfr (s : St) : (stageDst w ow fault s).st.count .cfr = s.count .cfr := by
  rw [stageDst_eq]
  split
  · exact (finishR_cfr ..).trans (issueSt_count_ne fault s (by decide))
  · exact (stageFstatDst_cfr w ow fault hk (dstOpened fault s)).trans (issueSt_count_ne fault s (by decide))

theorem stageSrc_cfr (s : St) : (stageSrc w ow fault s).st.count .cfr = s.count .cfr := by
  rw [stageSrc_eq]
  split
  · exact (finishR_cfr ..).trans (issueSt_count_ne fault s (by decide))
  · split
    · exact (finishR_cfr ..).trans (issueSt_count_ne fault s (by decide))
    · exact (stageDst_cfr w ow fault hk _).trans (issueSt_count_ne fault s (by decide))

/-- With `sizeKnown = false` no `copy_file_range` call is made. -/
theorem copyFile_cfr : (copyFile w ow fault).st.count .cfr = 0 := by
  rw [copyFile_eq']
  split
  · exact (finishR_cfr ..).trans (issueSt_count_ne fault (initSt w) (by decide))
  · exact (stageSrc_cfr w ow fault hk _).trans (issueSt_count_ne fault (initSt w) (by decide))
end
end

end Zix.CopyFile
