import ZixModel.Model.Digest
/-! Helper lemmas for C13 (digests).  Everything that depends on a generated constant goes through
the generated NAME and is established by `decide`. -/
namespace Zix.Digest
open Zix.Generated

/-! ## elementary bijections on bit vectors -/

/-- A bit vector equal to a proper right shift of itself is zero. -/
theorem eq_zero_of_eq_ushiftRight {w : Nat} (z : BitVec w) (s : Nat) (hs : 0 < s) (h : z = z >>> s) :
    z = 0#w := by
  have key : ∀ n i, w - i ≤ n → z.getLsbD i = false := by
    intro n
    induction n with
    | zero => intro i hi; exact BitVec.getLsbD_of_ge z i (by omega)
    | succ n ih =>
      intro i hi
      have e : z.getLsbD i = (z >>> s).getLsbD i := congrArg (fun v => v.getLsbD i) h
      rw [e, BitVec.getLsbD_ushiftRight]
      exact ih (s + i) (by omega)
  apply BitVec.eq_of_getLsbD_eq
  intro i _
  rw [key w i (by omega)]
  simp

/-- The xor-shift `x ↦ x ^^^ (x >>> s)`. -/
def xs {w : Nat} (x : BitVec w) (s : Nat) : BitVec w := x ^^^ (x >>> s)

theorem xs_inj {w : Nat} (s : Nat) (hs : 0 < s) (x y : BitVec w) (h : xs x s = xs y s) : x = y := by
  unfold xs at h
  have hz : x ^^^ y = (x ^^^ y) >>> s := by
    rw [BitVec.ushiftRight_xor_distrib]
    have h2 := congrArg (fun v => v ^^^ (y ^^^ (x >>> s))) h
    -- x ^ xs ^ (y ^ xs) = y ^ ys ^ (y ^ xs)
    have l : x ^^^ x >>> s ^^^ (y ^^^ x >>> s) = x ^^^ y := by
      rw [BitVec.xor_comm y, ← BitVec.xor_assoc, BitVec.xor_assoc x, BitVec.xor_self, BitVec.xor_zero]
    have r : y ^^^ y >>> s ^^^ (y ^^^ x >>> s) = x >>> s ^^^ y >>> s := by
      rw [BitVec.xor_comm y (y >>> s), BitVec.xor_assoc, ← BitVec.xor_assoc y, BitVec.xor_self,
        BitVec.zero_xor, BitVec.xor_comm]
    rw [l, r] at h2
    exact h2
  have hz0 := eq_zero_of_eq_ushiftRight _ s hs hz
  have := congrArg (fun v => v ^^^ y) hz0
  simp only [BitVec.xor_assoc, BitVec.xor_self, BitVec.xor_zero, BitVec.zero_xor] at this
  exact this

theorem mul_inj_of_inv {w : Nat} (m mi : BitVec w) (hm : m * mi = 1#w) (x y : BitVec w)
    (h : x * m = y * m) : x = y := by
  have := congrArg (fun v => v * mi) h
  simp only [BitVec.mul_assoc, hm, BitVec.mul_one] at this
  exact this

theorem xor_right_cancel {w : Nat} (c x y : BitVec w) (h : x ^^^ c = y ^^^ c) : x = y :=
  (BitVec.xor_left_inj c).mp h

theorem xor_left_cancel {w : Nat} (c x y : BitVec w) (h : c ^^^ x = c ^^^ y) : x = y :=
  (BitVec.xor_right_inj c).mp h

/-! ## rotations -/

theorem rotl32_eq_rotateLeft (v : BitVec 32) (n : Nat) (hn : n < 32) : rotl32 v n = v.rotateLeft n := by
  rw [BitVec.rotateLeft_def, Nat.mod_eq_of_lt hn]; rfl

theorem rotl32_inj (n : Nat) (hn : n < 32) (x y : BitVec 32) (h : rotl32 x n = rotl32 y n) : x = y := by
  rw [rotl32_eq_rotateLeft _ _ hn, rotl32_eq_rotateLeft _ _ hn] at h
  apply BitVec.eq_of_getLsbD_eq
  intro j hj
  by_cases c : j + n < 32
  · have e := congrArg (fun v => v.getLsbD (j + n)) h
    simp only [BitVec.getLsbD_rotateLeft_of_le hn] at e
    have c1 : ¬ (j + n < n) := by omega
    simp only [c1, decide_false, cond_false, c, decide_true, Bool.true_and, Nat.add_sub_cancel] at e
    exact e
  · have e := congrArg (fun v => v.getLsbD (j + n - 32)) h
    simp only [BitVec.getLsbD_rotateLeft_of_le hn] at e
    have c1 : j + n - 32 < n := by omega
    have c2 : 32 - n + (j + n - 32) = j := by omega
    simp only [c1, decide_true, cond_true, c2] at e
    exact e

/-! ## generated facts (by `decide`, through the generated names) -/

theorem mix64Shift1_pos : 0 < mix64Shift1 := by decide
theorem mix64Shift2_pos : 0 < mix64Shift2 := by decide
theorem mix32Shift1_pos : 0 < mix32Shift1 := by decide
theorem mix32Shift2_pos : 0 < mix32Shift2 := by decide
theorem mix32Shift3_pos : 0 < mix32Shift3 := by decide
theorem mix64Mul_inv : BitVec.ofNat 64 mix64Mul * BitVec.ofNat 64 mix64MulInv = 1#64 := by decide
theorem d64Mul_inv : BitVec.ofNat 64 d64Mul * BitVec.ofNat 64 d64MulInv = 1#64 := by decide
theorem mix32Mul1_inv : BitVec.ofNat 32 mix32Mul1 * BitVec.ofNat 32 mix32Mul1Inv = 1#32 := by decide
theorem mix32Mul2_inv : BitVec.ofNat 32 mix32Mul2 * BitVec.ofNat 32 mix32Mul2Inv = 1#32 := by decide
theorem k32_c1_inv : k32.c1 * BitVec.ofNat 32 d32C1Inv = 1#32 := by decide
theorem k32_c2_inv : k32.c2 * BitVec.ofNat 32 d32C2Inv = 1#32 := by decide
theorem k32_mul_inv : k32.mul * BitVec.ofNat 32 d32MulInv = 1#32 := by decide
theorem k32_r1_lt : k32.r1 < 32 := by decide
theorem k32_r2_lt : k32.r2 < 32 := by decide
theorem d64MulAligned_eq : d64MulAligned = d64Mul := by decide
theorem k32Aligned_eq : k32Aligned = k32 := by
  unfold k32Aligned k32
  have h1 : d32C1Aligned = d32C1 := by decide
  have h2 : d32C2Aligned = d32C2 := by decide
  have h3 : d32Rot1Aligned = d32Rot1 := by decide
  have h4 : d32Rot2Aligned = d32Rot2 := by decide
  have h5 : d32MulAligned = d32Mul := by decide
  have h6 : d32AddAligned = d32Add := by decide
  rw [h1, h2, h3, h4, h5, h6]

/-- The fasthash64 multiplier. -/
abbrev m64 : BitVec 64 := BitVec.ofNat 64 d64Mul

/-! ## mixers and steps are injective -/

theorem mix64_eq (h : BitVec 64) :
    mix64 h = xs (xs h mix64Shift1 * BitVec.ofNat 64 mix64Mul) mix64Shift2 := rfl

theorem mix64_inj (x y : BitVec 64) (h : mix64 x = mix64 y) : x = y := by
  rw [mix64_eq, mix64_eq] at h
  exact xs_inj _ mix64Shift1_pos _ _
    (mul_inj_of_inv _ _ mix64Mul_inv _ _ (xs_inj _ mix64Shift2_pos _ _ h))

theorem mix64_zero : mix64 0#64 = 0#64 := by decide

theorem mix32_eq (h : BitVec 32) :
    mix32 h = xs (xs (xs h mix32Shift1 * BitVec.ofNat 32 mix32Mul1) mix32Shift2
      * BitVec.ofNat 32 mix32Mul2) mix32Shift3 := rfl

theorem mix32_inj (x y : BitVec 32) (h : mix32 x = mix32 y) : x = y := by
  rw [mix32_eq, mix32_eq] at h
  exact xs_inj _ mix32Shift1_pos _ _ (mul_inj_of_inv _ _ mix32Mul1_inv _ _
    (xs_inj _ mix32Shift2_pos _ _ (mul_inj_of_inv _ _ mix32Mul2_inv _ _
      (xs_inj _ mix32Shift3_pos _ _ h))))

theorem step64_inj_h (m mi : BitVec 64) (hm : m * mi = 1#64) (k h1 h2 : BitVec 64)
    (h : step64 m h1 k = step64 m h2 k) : h1 = h2 :=
  xor_right_cancel _ _ _ (mul_inj_of_inv m mi hm _ _ h)

theorem step64_inj_k (m mi : BitVec 64) (hm : m * mi = 1#64) (h0 k1 k2 : BitVec 64)
    (h : step64 m h0 k1 = step64 m h0 k2) : k1 = k2 :=
  mix64_inj _ _ (xor_left_cancel _ _ _ (mul_inj_of_inv m mi hm _ _ h))

theorem scramble32_inj (k1 k2 : BitVec 32)
    (h : scramble32 k32.c1 k32.c2 k32.r1 k1 = scramble32 k32.c1 k32.c2 k32.r1 k2) : k1 = k2 := by
  unfold scramble32 at h
  exact mul_inj_of_inv _ _ k32_c1_inv _ _
    (rotl32_inj _ k32_r1_lt _ _ (mul_inj_of_inv _ _ k32_c2_inv _ _ h))

theorem scramble32_zero (c1 c2 : BitVec 32) (r : Nat) : scramble32 c1 c2 r 0 = 0 := by
  unfold scramble32 rotl32
  simp

theorem step32_inj_h (k h1 h2 : BitVec 32) (h : step32 k32 h1 k = step32 k32 h2 k) : h1 = h2 := by
  unfold step32 at h
  exact xor_right_cancel _ _ _ (rotl32_inj _ k32_r2_lt _ _
    (mul_inj_of_inv _ _ k32_mul_inv _ _ ((BitVec.add_left_inj _).mp h)))

theorem step32_inj_k (h0 k1 k2 : BitVec 32) (h : step32 k32 h0 k1 = step32 k32 h0 k2) : k1 = k2 := by
  unfold step32 at h
  exact scramble32_inj _ _ (xor_left_cancel _ _ _ (rotl32_inj _ k32_r2_lt _ _
    (mul_inj_of_inv _ _ k32_mul_inv _ _ ((BitVec.add_left_inj _).mp h))))

/-! ## bytes and words -/

theorem byte_step {w : Nat} (x : BitVec w) (n : Nat) :
    ((x >>> (n + 8)) <<< 8) ||| BitVec.ofNat w ((x >>> n).toNat % 256) = x >>> n := by
  apply BitVec.eq_of_getLsbD_eq
  intro i hi
  have e256 : 256 = 2 ^ 8 := rfl
  rw [BitVec.getLsbD_or, BitVec.getLsbD_shiftLeft, BitVec.getLsbD_ofNat, e256, Nat.testBit_mod_two_pow,
    BitVec.testBit_toNat]
  simp only [BitVec.getLsbD_ushiftRight]
  by_cases c : i < 8
  · simp [c, hi]
  · have e : n + 8 + (i - 8) = n + i := by omega
    simp [c, hi, e]

theorem bytesOfWord64_eq (w : BitVec 64) : bytesOfWord64 w =
    [(w >>> 0).toNat % 256, (w >>> 8).toNat % 256, (w >>> 16).toNat % 256, (w >>> 24).toNat % 256,
     (w >>> 32).toNat % 256, (w >>> 40).toNat % 256, (w >>> 48).toNat % 256, (w >>> 56).toNat % 256] := rfl

theorem bytesOfWord32_eq (w : BitVec 32) : bytesOfWord32 w =
    [(w >>> 0).toNat % 256, (w >>> 8).toNat % 256, (w >>> 16).toNat % 256, (w >>> 24).toNat % 256] := rfl

theorem leWord64_bytesOfWord64 (w : BitVec 64) : leWord64 (bytesOfWord64 w) = w := by
  rw [bytesOfWord64_eq]
  simp only [leWord64, List.foldr]
  have z : (0 : BitVec 64) = w >>> (56 + 8) := (BitVec.ushiftRight_eq_zero (by omega)).symm
  rw [z, byte_step w 56, byte_step w 48, byte_step w 40, byte_step w 32, byte_step w 24, byte_step w 16,
    byte_step w 8, byte_step w 0, BitVec.ushiftRight_zero]

theorem leWord32_bytesOfWord32 (w : BitVec 32) : leWord32 (bytesOfWord32 w) = w := by
  rw [bytesOfWord32_eq]
  simp only [leWord32, List.foldr]
  have z : (0 : BitVec 32) = w >>> (24 + 8) := (BitVec.ushiftRight_eq_zero (by omega)).symm
  rw [z, byte_step w 24, byte_step w 16, byte_step w 8, byte_step w 0, BitVec.ushiftRight_zero]

/-! ## list plumbing -/

theorem exists_cons4 (l : List Nat) (h : 4 ≤ l.length) :
    ∃ b0 b1 b2 b3 rest, l = b0 :: b1 :: b2 :: b3 :: rest := by
  rcases l with _ | ⟨b0, _ | ⟨b1, _ | ⟨b2, _ | ⟨b3, rest⟩⟩⟩⟩ <;> simp at h
  exact ⟨b0, b1, b2, b3, rest, rfl⟩

theorem exists_cons8 (l : List Nat) (h : 8 ≤ l.length) :
    ∃ b0 b1 b2 b3 b4 b5 b6 b7 rest, l = b0 :: b1 :: b2 :: b3 :: b4 :: b5 :: b6 :: b7 :: rest := by
  obtain ⟨b0, b1, b2, b3, r, rfl⟩ := exists_cons4 l (by omega)
  obtain ⟨b4, b5, b6, b7, rest, rfl⟩ := exists_cons4 r (by simp at h; omega)
  exact ⟨b0, b1, b2, b3, b4, b5, b6, b7, rest, rfl⟩

/-- Split a buffer into whole `n`-byte blocks and the tail. -/
theorem split_blocks (n : Nat) (l : List Nat) :
    ∃ pre t, l = pre ++ t ∧ pre.length = n * (l.length / n) ∧ t.length = l.length % n := by
  refine ⟨l.take (n * (l.length / n)), l.drop (n * (l.length / n)), (List.take_append_drop _ _).symm, ?_, ?_⟩
  · rw [List.length_take]
    have := Nat.mul_div_le l.length n
    omega
  · rw [List.length_drop]
    have := Nat.div_add_mod l.length n
    omega

theorem leWord64_cons (b : Nat) (bs : List Nat) :
    leWord64 (b :: bs) = (leWord64 bs <<< 8) ||| BitVec.ofNat 64 b := rfl
theorem leWord32_cons (b : Nat) (bs : List Nat) :
    leWord32 (b :: bs) = (leWord32 bs <<< 8) ||| BitVec.ofNat 32 b := rfl

theorem leWord64_zeros (k : Nat) : leWord64 (List.replicate k 0) = 0#64 := by
  induction k with
  | zero => rfl
  | succ k ih => rw [List.replicate_succ, leWord64_cons, ih]; simp

theorem leWord32_zeros (k : Nat) : leWord32 (List.replicate k 0) = 0#32 := by
  induction k with
  | zero => rfl
  | succ k ih => rw [List.replicate_succ, leWord32_cons, ih]; simp

theorem leWord64_append_zeros (t : List Nat) (k : Nat) : leWord64 (t ++ List.replicate k 0) = leWord64 t := by
  induction t with
  | nil => simp [leWord64_zeros]; rfl
  | cons b t ih => rw [List.cons_append, leWord64_cons, leWord64_cons, ih]

theorem leWord32_append_zeros (t : List Nat) (k : Nat) : leWord32 (t ++ List.replicate k 0) = leWord32 t := by
  induction t with
  | nil => simp [leWord32_zeros]; rfl
  | cons b t ih => rw [List.cons_append, leWord32_cons, leWord32_cons, ih]

/-! ## the block loops -/

theorem body64_short (m h : BitVec 64) (t : List Nat) (hl : t.length < 8) (hne : t ≠ []) :
    body64 m h t = step64 m h (leWord64 t) := by
  apply body64.eq_3
  · intro b0 b1 b2 b3 b4 b5 b6 b7 rest e
    subst e
    simp at hl
    omega
  · exact hne

theorem body32_short (c : K32) (h : BitVec 32) (t : List Nat) (hl : t.length < 4) :
    body32 c h t = h ^^^ scramble32 c.c1 c.c2 c.r1 (leWord32 t) := by
  by_cases hne : t = []
  · subst hne
    rw [body32.eq_2]
    have : leWord32 [] = 0 := rfl
    rw [this, scramble32_zero]; simp
  · apply body32.eq_3
    · intro b0 b1 b2 b3 rest e
      subst e
      simp at hl
      omega
    · exact hne

theorem body64_inj (m mi : BitVec 64) (hm : m * mi = 1#64) (l : List Nat) (h1 h2 : BitVec 64)
    (h : body64 m h1 l = body64 m h2 l) : h1 = h2 := by
  revert h2
  refine body64.induct m (fun h1 l => ∀ h2, body64 m h1 l = body64 m h2 l → h1 = h2) ?_ ?_ ?_ h1 l
  · intro h b0 b1 b2 b3 b4 b5 b6 b7 rest ih h2 e
    rw [body64.eq_1, body64.eq_1] at e
    exact step64_inj_h m mi hm _ _ _ (ih _ e)
  · intro h h2 e
    rw [body64.eq_2, body64.eq_2] at e
    exact e
  · intro h tail c1 c2 h2 e
    rw [body64.eq_3 _ _ _ c1 c2, body64.eq_3 _ _ _ c1 c2] at e
    exact step64_inj_h m mi hm _ _ _ e

theorem body32_inj (l : List Nat) (h1 h2 : BitVec 32)
    (h : body32 k32 h1 l = body32 k32 h2 l) : h1 = h2 := by
  revert h2
  refine body32.induct k32 (fun h1 l => ∀ h2, body32 k32 h1 l = body32 k32 h2 l → h1 = h2) ?_ ?_ ?_ h1 l
  · intro h b0 b1 b2 b3 rest ih h2 e
    rw [body32.eq_1, body32.eq_1] at e
    exact step32_inj_h _ _ _ (ih _ e)
  · intro h h2 e
    rw [body32.eq_2, body32.eq_2] at e
    exact e
  · intro h tail c1 c2 h2 e
    rw [body32.eq_3 _ _ _ c1 c2, body32.eq_3 _ _ _ c1 c2] at e
    exact xor_right_cancel _ _ _ e

theorem body64_append_aux (m : BitVec 64) (rest : List Nat) :
    ∀ (n : Nat) (pre : List Nat) (h : BitVec 64), pre.length = 8 * n →
      body64 m h (pre ++ rest) = body64 m (body64 m h pre) rest := by
  intro n
  induction n with
  | zero =>
    intro pre h hl
    have : pre = [] := List.eq_nil_of_length_eq_zero (by omega)
    subst this
    rw [body64.eq_2]; rfl
  | succ n ih =>
    intro pre h hl
    obtain ⟨b0, b1, b2, b3, b4, b5, b6, b7, r, rfl⟩ := exists_cons8 pre (by omega)
    simp only [List.cons_append]
    rw [body64.eq_1, body64.eq_1]
    apply ih
    simp at hl
    omega

theorem body64_append (m h : BitVec 64) (pre rest : List Nat) (hp : pre.length % 8 = 0) :
    body64 m h (pre ++ rest) = body64 m (body64 m h pre) rest :=
  body64_append_aux m rest (pre.length / 8) pre h (by omega)

theorem body32_append_aux (c : K32) (rest : List Nat) :
    ∀ (n : Nat) (pre : List Nat) (h : BitVec 32), pre.length = 4 * n →
      body32 c h (pre ++ rest) = body32 c (body32 c h pre) rest := by
  intro n
  induction n with
  | zero =>
    intro pre h hl
    have : pre = [] := List.eq_nil_of_length_eq_zero (by omega)
    subst this
    rw [body32.eq_2]; rfl
  | succ n ih =>
    intro pre h hl
    obtain ⟨b0, b1, b2, b3, r, rfl⟩ := exists_cons4 pre (by omega)
    simp only [List.cons_append]
    rw [body32.eq_1, body32.eq_1]
    apply ih
    simp at hl
    omega

theorem body32_append (c : K32) (h : BitVec 32) (pre rest : List Nat) (hp : pre.length % 4 = 0) :
    body32 c h (pre ++ rest) = body32 c (body32 c h pre) rest :=
  body32_append_aux c rest (pre.length / 4) pre h (by omega)

theorem length_bytesOfWord64 (w : BitVec 64) : (bytesOfWord64 w).length = 8 := rfl
theorem length_bytesOfWord32 (w : BitVec 32) : (bytesOfWord32 w).length = 4 := rfl

theorem body64_word (m h w : BitVec 64) (rest : List Nat) :
    body64 m h (bytesOfWord64 w ++ rest) = body64 m (step64 m h w) rest := by
  have e := leWord64_bytesOfWord64 w
  rw [bytesOfWord64_eq] at e ⊢
  simp only [List.cons_append, List.nil_append]
  rw [body64.eq_1, e]

theorem body32_word (c : K32) (h w : BitVec 32) (rest : List Nat) :
    body32 c h (bytesOfWord32 w ++ rest) = body32 c (step32 c h w) rest := by
  have e := leWord32_bytesOfWord32 w
  rw [bytesOfWord32_eq] at e ⊢
  simp only [List.cons_append, List.nil_append]
  rw [body32.eq_1, e]

theorem body64_words (m : BitVec 64) (ws : List (BitVec 64)) (h : BitVec 64) :
    body64 m h (ws.flatMap bytesOfWord64) = ws.foldl (step64 m) h := by
  induction ws generalizing h with
  | nil => rfl
  | cons w ws ih => rw [List.flatMap_cons, body64_word, ih, List.foldl_cons]

theorem body32_words (c : K32) (ws : List (BitVec 32)) (h : BitVec 32) :
    body32 c h (ws.flatMap bytesOfWord32) = ws.foldl (step32 c) h := by
  induction ws generalizing h with
  | nil => rfl
  | cons w ws ih => rw [List.flatMap_cons, body32_word, ih, List.foldl_cons]

theorem length_flatMap_bytes64 (ws : List (BitVec 64)) : (ws.flatMap bytesOfWord64).length = 8 * ws.length := by
  induction ws with
  | nil => rfl
  | cons w ws ih => rw [List.flatMap_cons, List.length_append, ih, length_bytesOfWord64, List.length_cons]; omega

theorem length_flatMap_bytes32 (ws : List (BitVec 32)) : (ws.flatMap bytesOfWord32).length = 4 * ws.length := by
  induction ws with
  | nil => rfl
  | cons w ws ih => rw [List.flatMap_cons, List.length_append, ih, length_bytesOfWord32, List.length_cons]; omega

/-! ## the digests, unfolded -/

theorem digest64_eq (seed : BitVec 64) (d : List Nat) :
    digest64 seed d = mix64 (body64 m64 (seed ^^^ (BitVec.ofNat 64 d.length * m64)) d) := rfl

theorem digest64Aligned_eq (seed : BitVec 64) (ws : List (BitVec 64)) :
    digest64Aligned seed ws =
      mix64 (ws.foldl (step64 (BitVec.ofNat 64 d64MulAligned))
        (seed ^^^ (BitVec.ofNat 64 (8 * ws.length) * BitVec.ofNat 64 d64MulAligned))) := rfl

theorem body64_m64_inj (l : List Nat) (h1 h2 : BitVec 64) (h : body64 m64 h1 l = body64 m64 h2 l) : h1 = h2 :=
  body64_inj m64 _ d64Mul_inv l h1 h2 h

theorem ofNat_ne_of_lt (w a k : Nat) (hk : 0 < k) (hlt : a + k < 2 ^ w) :
    BitVec.ofNat w (a + k) ≠ BitVec.ofNat w a := by
  intro e
  have := congrArg BitVec.toNat e
  rw [BitVec.toNat_ofNat, BitVec.toNat_ofNat, Nat.mod_eq_of_lt hlt, Nat.mod_eq_of_lt (by omega)] at this
  omega

/-! ## the short fasthash64 length law, modulo `2^5` -/

theorem short0_5 : ∀ k : Fin 8, 0 < k.val → ∀ s : BitVec 5,
    (s ^^^ BitVec.ofNat 5 k.val * BitVec.ofNat 5 d64Mul) * BitVec.ofNat 5 d64Mul ≠ s := by decide

theorem short1_5 : ∀ k : Fin 8, 0 < k.val → ∀ s x : BitVec 5,
    (s ^^^ BitVec.ofNat 5 (8 + k.val) * BitVec.ofNat 5 d64Mul ^^^ x) * BitVec.ofNat 5 d64Mul ≠
      s ^^^ BitVec.ofNat 5 8 * BitVec.ofNat 5 d64Mul ^^^ x := by decide

theorem short0_64 (k : Nat) (hk : 0 < k) (hk7 : k < 8) (s : BitVec 64) :
    (s ^^^ BitVec.ofNat 64 k * m64) * m64 ≠ s := by
  intro e
  have e5 := congrArg (BitVec.setWidth 5) e
  rw [BitVec.setWidth_mul _ _ (by omega), BitVec.setWidth_xor, BitVec.setWidth_mul _ _ (by omega),
    BitVec.setWidth_ofNat_of_le (by omega), BitVec.setWidth_ofNat_of_le (by omega)] at e5
  exact short0_5 ⟨k, hk7⟩ hk _ e5

theorem short1_64 (k : Nat) (hk : 0 < k) (hk7 : k < 8) (s x : BitVec 64) :
    (s ^^^ BitVec.ofNat 64 (8 + k) * m64 ^^^ x) * m64 ≠ s ^^^ BitVec.ofNat 64 8 * m64 ^^^ x := by
  intro e
  have e5 := congrArg (BitVec.setWidth 5) e
  rw [BitVec.setWidth_mul _ _ (by omega), BitVec.setWidth_xor, BitVec.setWidth_xor,
    BitVec.setWidth_mul _ _ (by omega), BitVec.setWidth_xor, BitVec.setWidth_xor,
    BitVec.setWidth_mul _ _ (by omega),
    BitVec.setWidth_ofNat_of_le (by omega), BitVec.setWidth_ofNat_of_le (by omega),
    BitVec.setWidth_ofNat_of_le (by omega)] at e5
  exact short1_5 ⟨k, hk7⟩ hk _ _ e5

end Zix.Digest
