import ZixModel.Spec.Env
/-! Helper lemmas relating the index-based scanner (`Model/Env.lean`) to the token-level
specification (`Spec/Env.lean`). -/
namespace Zix.Env

/-! ## reading bytes -/

theorem at'_eq_headD (str : List Nat) (i : Nat) : at' str i = (str.drop i).headD 0 := by
  induction str generalizing i with
  | nil => simp [at']
  | cons x xs ih =>
    cases i with
    | zero => simp [at']
    | succ n => simp [at']

theorem drop_succ_of_drop_eq_cons {str : List Nat} {s c : Nat} {rest : List Nat}
    (hd : str.drop s = c :: rest) : str.drop (s + 1) = rest := by
  have : str.drop (s + 1) = (str.drop s).drop 1 := by rw [List.drop_drop]
  rw [this, hd]; rfl

theorem drop_add_of_drop_eq_cons {str : List Nat} {s c : Nat} {rest : List Nat}
    (hd : str.drop s = c :: rest) (n : Nat) : str.drop (s + (1 + n)) = rest.drop n := by
  have : str.drop (s + (1 + n)) = ((str.drop s).drop 1).drop n := by
    rw [List.drop_drop, List.drop_drop]
  rw [this, hd]; rfl

theorem isVarChar_zero : isVarChar 0 = false := by decide

/-! ## `takeWhile` / `dropWhile` by length -/

theorem take_length_takeWhile (p : Nat → Bool) (l : List Nat) :
    l.take (l.takeWhile p).length = l.takeWhile p := by
  induction l with
  | nil => simp
  | cons x xs ih =>
    simp only [List.takeWhile]
    split <;> simp [ih]

theorem drop_length_takeWhile (p : Nat → Bool) (l : List Nat) :
    l.drop (l.takeWhile p).length = l.dropWhile p := by
  induction l with
  | nil => simp
  | cons x xs ih =>
    simp only [List.takeWhile, List.dropWhile]
    split <;> simp [ih]

theorem length_takeWhile_le' (p : Nat → Bool) (l : List Nat) :
    (l.takeWhile p).length ≤ l.length := by
  induction l with
  | nil => simp
  | cons x xs ih => simp only [List.takeWhile]; split <;> simp <;> omega

theorem takeWhile_append_of_headD {p : Nat → Bool} (name post : List Nat)
    (hn : ∀ c ∈ name, p c = true) (hp : p (post.headD 0) = false) :
    (name ++ post).takeWhile p = name ∧ (name ++ post).dropWhile p = post := by
  induction name with
  | nil =>
    cases post with
    | nil => simp
    | cons y ys =>
      have : p y = false := by simpa using hp
      simp [this]
  | cons x xs ih =>
    have hx : p x = true := hn x (by simp)
    have := ih (fun c hc => hn c (by simp [hc]))
    simp [hx, this]

/-! ## the inner loop -/

theorem refLen_eq (str : List Nat) (s : Nat) : ∀ (fuel t : Nat),
    ((str.drop (s + t)).takeWhile isVarChar).length ≤ fuel →
    refLen str s t fuel = t + ((str.drop (s + t)).takeWhile isVarChar).length := by
  intro fuel
  induction fuel with
  | zero =>
    intro t h
    have : ((str.drop (s + t)).takeWhile isVarChar).length = 0 := by omega
    simp [refLen, this]
  | succ fuel ih =>
    intro t h
    rw [refLen, at'_eq_headD]
    cases hd : str.drop (s + t) with
    | nil => simp [isVarChar_zero]
    | cons c rest =>
      have hr : str.drop (s + (t + 1)) = rest := by
        rw [← Nat.add_assoc]; exact drop_succ_of_drop_eq_cons hd
      rw [hd] at h
      by_cases hc : isVarChar c = true
      · simp only [List.headD_cons, hc, if_true]
        simp only [List.takeWhile, hc, List.length_cons] at h ⊢
        rw [ih (t + 1) (by rw [hr]; omega), hr]; omega
      · have hc' : isVarChar c = false := by simpa using hc
        simp [List.takeWhile, hc']

/-! ## the main loop -/

/-- Is the byte before position `s` the start of the string or a path delimiter? -/
def prevDelimAt (str : List Nat) (s : Nat) : Bool := s == 0 || isPathDelim (at' str (s - 1))

theorem prevDelimAt_iff (str : List Nat) (s : Nat) :
    (s = 0 ∨ isPathDelim (at' str (s - 1)) = true) ↔ prevDelimAt str s = true := by
  simp [prevDelimAt]

theorem prevDelimAt_succ (str : List Nat) (s : Nat) : prevDelimAt str (s + 1) = isPathDelim (at' str s) := by
  simp [prevDelimAt]

theorem isPathDelim_of_isVarChar {c : Nat} (h : isVarChar c = true) : isPathDelim c = false := by
  simp only [isVarChar, Bool.or_eq_true, Bool.and_eq_true, decide_eq_true_eq, beq_iff_eq] at h
  simp only [isPathDelim, Bool.or_eq_false_iff, beq_eq_false_iff_ne]
  omega

theorem takeWhile_getD (p : Nat → Bool) (l : List Nat) (i : Nat) (h : i < (l.takeWhile p).length) :
    p (l.getD i 0) = true := by
  induction l generalizing i with
  | nil => simp at h
  | cons x xs ih =>
    by_cases hx : p x = true
    · simp only [List.takeWhile, hx, List.length_cons] at h
      cases i with
      | zero => simpa using hx
      | succ n => simpa using ih n (by omega)
    · have hx' : p x = false := by simpa using hx
      simp [List.takeWhile, hx'] at h

theorem at'_of_drop_eq_cons {str : List Nat} {s c : Nat} {rest : List Nat}
    (hd : str.drop s = c :: rest) (j : Nat) : at' str (s + 1 + j) = rest.getD j 0 := by
  have h1 : str.drop (s + 1) = rest := drop_succ_of_drop_eq_cons hd
  rw [at'_eq_headD, ← List.drop_drop, h1]
  induction rest generalizing j with
  | nil => simp
  | cons y ys _ =>
    cases j with
    | zero => simp
    | succ n => simp [List.getD_eq_getElem?_getD, List.head?_drop, List.headD_eq_head?_getD]

theorem loop_eq (env : List (List Nat)) (str : List Nat) (h0 : 0 ∉ str) :
    ∀ (fuel s start : Nat) (out : List Nat), start ≤ s → s ≤ str.length → str.length - s < fuel →
    loop env str fuel s start out
      = some (out ++ (str.drop start).take (s - start) ++ specFrom env (prevDelimAt str s) (str.drop s)) := by
  intro fuel
  induction fuel with
  | zero => intro s start out _ _ h; omega
  | succ fuel ih =>
    intro s start out hss hsl hf
    rw [loop]
    simp only [prevDelimAt_iff]
    rw [at'_eq_headD str s, at'_eq_headD str (s + 1)]
    cases hd : str.drop s with
    | nil =>
      have hlen : str.length ≤ s := by simpa using hd
      have : (str.drop start).take (s - start) = str.drop start :=
        List.take_of_length_le (by simp; omega)
      simp [this, specFrom]
    | cons c rest =>
      have hr : str.drop (s + 1) = rest := drop_succ_of_drop_eq_cons hd
      have hlen : str.length - s = rest.length + 1 := by
        have := congrArg List.length hd; simpa using this
      have hc0 : c ≠ 0 := by
        intro hc
        apply h0
        have : c ∈ str.drop s := by rw [hd]; simp
        exact hc ▸ List.mem_of_mem_drop this
      have hatc : at' str s = c := by rw [at'_eq_headD, hd]; rfl
      simp only [List.headD_cons, hc0, if_false, hr]
      rw [specFrom]
      by_cases h1 : c = 36 ∧ isVarChar (rest.headD 0) = true
      · simp only [h1, and_self, if_true]
        have hle := length_takeWhile_le' isVarChar rest
        have ht : refLen str s 1 str.length = 1 + (rest.takeWhile isVarChar).length := by
          have := refLen_eq str s str.length 1 (by rw [hr]; omega)
          rw [this, hr]
        -- the name is not empty, and its last character is not a delimiter
        have hk : 0 < (rest.takeWhile isVarChar).length := by
          cases rest with
          | nil => simp [isVarChar_zero] at h1
          | cons y ys =>
            have : isVarChar y = true := by simpa using h1.2
            simp [List.takeWhile, this]
        have hprev : prevDelimAt str (s + (1 + (rest.takeWhile isVarChar).length)) = false := by
          have e : s + (1 + (rest.takeWhile isVarChar).length)
              = (s + 1 + ((rest.takeWhile isVarChar).length - 1)) + 1 := by omega
          rw [e, prevDelimAt_succ, at'_of_drop_eq_cons hd]
          exact isPathDelim_of_isVarChar (takeWhile_getD _ _ _ (by omega))
        rw [ht, ih _ _ _ (Nat.le_refl _) (by omega) (by omega), hprev]
        rw [drop_add_of_drop_eq_cons hd, drop_length_takeWhile]
        have h36 : c = 36 := h1.1
        subst h36
        simp [Nat.add_comm 1, take_length_takeWhile]
      · simp only [h1, if_false]
        by_cases h2 : c = 126 ∧ isPathDelim (rest.headD 0) = true ∧ prevDelimAt str s = true
        · simp only [h2, and_self, if_true]
          rw [ih _ _ _ (Nat.le_refl _) (by omega) (by omega), hr, prevDelimAt_succ, hatc]
          have : isPathDelim c = false := by rw [h2.1]; decide
          simp [this]
        · simp only [h2, if_false]
          rw [ih _ _ _ (by omega) (by omega) (by omega), hr, prevDelimAt_succ, hatc]
          have : (str.drop start).take (s + 1 - start)
              = (str.drop start).take (s - start) ++ [c] := by
            have e : s + 1 - start = (s - start) + 1 := by omega
            rw [e, List.take_add_one]
            have : (str.drop start)[s - start]? = some c := by
              rw [List.getElem?_drop]
              have e2 : start + (s - start) = s := by omega
              rw [e2]
              have := congrArg List.head? hd
              simpa [List.head?_drop] using this
            rw [this]; rfl
          rw [this]; simp

end Zix.Env
