import ZixModel.Model.EnvAlloc
import ZixModel.Lemmas.Env
/-! Helper lemmas for `Properties/C07Env.lean`: the allocating scanner (`Model/EnvAlloc.lean`)
against the value-level scanner (`Model/Env.lean`), for an arbitrary refusal oracle. -/
namespace Zix.EnvAlloc
open Zix.Env

/-! ## the checker over appended logs -/

theorem outstanding_append (l1 l2 : List Ev) (live : List Nat) :
    outstanding (l1 ++ l2) live = (outstanding l1 live).bind (outstanding l2) := by
  induction l1 generalizing live with
  | nil => simp [outstanding]
  | cons e rest ih =>
    cases e with
    | realloc old size res =>
      cases old <;> cases res <;> simp only [List.cons_append, outstanding, ih] <;> split <;> simp
    | free b =>
      cases b
      · simp only [List.cons_append, outstanding, ih]
      · simp only [List.cons_append, outstanding, ih]; split <;> simp

/-! ## the invariant of the output block -/

/-- The log so far is well formed, exactly the output block (if any) is outstanding, and the block
holds `content` (nothing allocated yet: `content = []`). -/
def Good (st : St) (content : List Nat) : Prop :=
  match st.out with
  | some (b, c) => c = content ∧ outstanding st.evs [] = some [b]
  | none => content = [] ∧ outstanding st.evs [] = some []

theorem good_init : Good init [] := by simp [Good, init, outstanding]

/-- One `append_str`: the invariant with the suffix appended, or — refused — a final log with
nothing outstanding. -/
theorem appendStr_good (fails : Nat → Bool) (st : St) (content suffix : List Nat)
    (hg : Good st content) :
    (∃ st', appendStr fails st suffix = .inl st' ∧ Good st' (content ++ suffix)) ∨
    (∃ e, appendStr fails st suffix = .inr e ∧ outstanding e [] = some [] ∧ fails st.req = true) := by
  obtain ⟨out, next, req, evs⟩ := st
  cases out with
  | none =>
    simp only [Good] at hg
    obtain ⟨hc, ho⟩ := hg
    subst hc
    by_cases hf : fails req = true
    · right
      refine ⟨_, by simp [appendStr, hf]; rfl, ?_, hf⟩
      simp [refusedEvs, outstanding_append, ho, outstanding]
    · left
      refine ⟨_, by simp [appendStr, hf]; rfl, ?_⟩
      simp [Good, outstanding_append, ho, outstanding]
  | some bc =>
    obtain ⟨b, c⟩ := bc
    simp only [Good] at hg
    obtain ⟨hc, ho⟩ := hg
    subst hc
    by_cases hf : fails req = true
    · right
      refine ⟨_, by simp [appendStr, hf]; rfl, ?_, hf⟩
      simp [refusedEvs, outstanding_append, ho, outstanding]
    · left
      refine ⟨_, by simp [appendStr, hf]; rfl, ?_⟩
      simp [Good, outstanding_append, ho, outstanding]

theorem appendTwo_good (fails : Nat → Bool) (st : St) (content pre text : List Nat)
    (hg : Good st content) :
    (∃ st', appendTwo fails st pre text = .inl st' ∧ Good st' (content ++ pre ++ text)) ∨
    (∃ e, appendTwo fails st pre text = .inr e ∧ outstanding e [] = some [] ∧ ∃ k, fails k = true) := by
  by_cases hp : pre = []
  · subst hp
    rcases appendStr_good fails st content text hg with ⟨st', h1, h2⟩ | ⟨e, h1, h2, h3⟩
    · left; exact ⟨st', by simp [appendTwo, h1], by simpa using h2⟩
    · right; exact ⟨e, by simp [appendTwo, h1], h2, _, h3⟩
  · rcases appendStr_good fails st content pre hg with ⟨st1, h1, h2⟩ | ⟨e, h1, h2, h3⟩
    · rcases appendStr_good fails st1 (content ++ pre) text h2 with ⟨st', h4, h5⟩ | ⟨e, h4, h5, h6⟩
      · left; exact ⟨st', by simp [appendTwo, hp, h1, h4], h5⟩
      · right; exact ⟨e, by simp [appendTwo, hp, h1, h4], h5, _, h6⟩
    · right; exact ⟨e, by simp [appendTwo, hp, h1], h2, _, h3⟩

/-! ## the allocating loop against the value-level loop -/

/-- What a finished call must look like when the value-level scanner yields `value`. -/
def Outcome (fails : Nat → Bool) (value : List Nat) (r : Result) : Prop :=
  (r.ret = none ∧ outstanding r.evs [] = some [] ∧ ∃ k, fails k = true) ∨
  (∃ b, r.ret = some (b, value) ∧ outstanding r.evs [] = some [b])

theorem loop_rel (fails : Nat → Bool) (env : List (List Nat)) (str : List Nat) :
    ∀ (fuel s start : Nat) (st : St) (content value : List Nat), Good st content →
    Env.loop env str fuel s start content = some value →
    ∃ r, loop fails env str fuel s start st = some r ∧ Outcome fails value r := by
  intro fuel
  induction fuel with
  | zero => intro s start st content value _ hv; simp [Env.loop] at hv
  | succ fuel ih =>
    intro s start st content value hg hv
    rw [Env.loop] at hv
    rw [loop]
    simp only [] at hv ⊢
    by_cases hc : at' str s = 0
    · simp only [hc, if_true] at hv ⊢
      have hval : value = content ++ str.drop start := by simpa using hv.symm
      by_cases ht : str.drop start ≠ [] ∨ st.out.isNone = true
      · rw [if_pos ht]
        rcases appendStr_good fails st content (str.drop start) hg with ⟨st', h1, h2⟩ | ⟨e, h1, h2, h3⟩
        · rw [h1]
          refine ⟨_, rfl, Or.inr ?_⟩
          obtain ⟨out', next', req', evs'⟩ := st'
          cases out' with
          | none =>
            simp [appendStr] at h1
            split at h1 <;> simp at h1
          | some bc =>
            obtain ⟨b, c⟩ := bc
            simp only [Good] at h2
            exact ⟨b, by simp [h2.1, hval], h2.2⟩
        · rw [h1]
          exact ⟨_, rfl, Or.inl ⟨rfl, h2, _, h3⟩⟩
      · rw [if_neg ht]
        refine ⟨_, rfl, Or.inr ?_⟩
        have ht1 : str.drop start = [] := by
          apply Classical.byContradiction; intro h; exact ht (Or.inl h)
        cases hout : st.out with
        | none => exact absurd (Or.inr (by simp [hout])) ht
        | some bc =>
          obtain ⟨b, c⟩ := bc
          simp only [Good, hout] at hg
          exact ⟨b, by simp [hg.1, hval, ht1], hg.2⟩
    · simp only [hc, if_false] at hv ⊢
      by_cases h1 : at' str s = 36 ∧ isVarChar (at' str (s + 1)) = true
      · simp only [h1, and_self, if_true] at hv ⊢
        rcases appendTwo_good fails st content ((str.drop start).take (s - start))
          (varText env ((str.drop s).take (refLen str s 1 str.length))) hg
          with ⟨st', h3, h4⟩ | ⟨e, h3, h4, h5⟩
        · rw [h3]; exact ih _ _ st' _ value h4 hv
        · rw [h3]; exact ⟨_, rfl, Or.inl ⟨rfl, h4, h5⟩⟩
      · simp only [h1, if_false] at hv ⊢
        by_cases h2 : at' str s = 126 ∧ isPathDelim (at' str (s + 1)) = true ∧
            (s = 0 ∨ isPathDelim (at' str (s - 1)) = true)
        · simp only [h2, and_self, if_true] at hv ⊢
          rcases appendTwo_good fails st content ((str.drop start).take (s - start))
            (homeText env) hg with ⟨st', h3, h4⟩ | ⟨e, h3, h4, h5⟩
          · rw [h3]; exact ih _ _ st' _ value h4 hv
          · rw [h3]; exact ⟨_, rfl, Or.inl ⟨rfl, h4, h5⟩⟩
        · simp only [h2, if_false] at hv ⊢
          exact ih _ _ st _ value hg hv

/-! ## only the requests actually made matter -/

theorem refLen_ge (str : List Nat) (s : Nat) : ∀ (fuel t : Nat), t ≤ refLen str s t fuel := by
  intro fuel
  induction fuel with
  | zero => intro t; simp [refLen]
  | succ fuel ih =>
    intro t
    rw [refLen]
    split
    · have := ih (t + 1); omega
    · omega

theorem appendStr_congr (f g : Nat → Bool) (st : St) (suffix : List Nat) (h : f st.req = g st.req) :
    appendStr f st suffix = appendStr g st suffix := by
  simp [appendStr, h]

theorem appendStr_req (f : Nat → Bool) (st st' : St) (suffix : List Nat)
    (h : appendStr f st suffix = .inl st') : st'.req = st.req + 1 := by
  simp only [appendStr] at h
  split at h
  · simp at h
  · simp at h; rw [← h]

/-- `append_two` makes at most two requests, and depends on the oracle only there. -/
theorem appendTwo_congr (f g : Nat → Bool) (st : St) (pre text : List Nat)
    (h : ∀ k, st.req ≤ k → k < st.req + 2 → f k = g k) :
    appendTwo f st pre text = appendTwo g st pre text ∧
    ∀ st', appendTwo g st pre text = .inl st' → st'.req ≤ st.req + 2 := by
  by_cases hp : pre = []
  · subst hp
    simp only [appendTwo, if_true]
    refine ⟨appendStr_congr f g st text (h _ (Nat.le_refl _) (by omega)), ?_⟩
    intro st' h1
    have := appendStr_req g st st' text h1; omega
  · simp only [appendTwo, hp, if_false]
    rw [appendStr_congr f g st pre (h _ (Nat.le_refl _) (by omega))]
    cases h1 : appendStr g st pre with
    | inr e => simp
    | inl st1 =>
      have hr := appendStr_req g st st1 pre h1
      simp only []
      refine ⟨appendStr_congr f g st1 text (h _ (by omega) (by omega)), ?_⟩
      intro st' h2
      have := appendStr_req g st1 st' text h2; omega

theorem loop_congr (f g : Nat → Bool) (env : List (List Nat)) (str : List Nat) :
    ∀ (fuel s start : Nat) (st : St), start ≤ s →
    (∀ k, k < st.req + 2 * (str.length - start) + 1 → f k = g k) →
    loop f env str fuel s start st = loop g env str fuel s start st := by
  intro fuel
  induction fuel with
  | zero => intro s start st _ _; simp [loop]
  | succ fuel ih =>
    intro s start st hss hfg
    rw [loop, loop]
    simp only []
    by_cases hc : at' str s = 0
    · simp only [hc, if_true]
      rw [appendStr_congr f g st _ (hfg _ (by omega))]
    · simp only [hc, if_false]
      have hs : s < str.length := by
        apply Classical.byContradiction; intro hn
        apply hc
        simp [at', List.getD_eq_getElem?_getD, List.getElem?_eq_none (Nat.le_of_not_lt hn)]
      by_cases h1 : at' str s = 36 ∧ isVarChar (at' str (s + 1)) = true
      · simp only [h1, and_self, if_true]
        have ht := refLen_ge str s str.length 1
        obtain ⟨e1, e2⟩ := appendTwo_congr f g st ((str.drop start).take (s - start))
          (varText env ((str.drop s).take (refLen str s 1 str.length)))
          (fun k _ hk => hfg k (by omega))
        rw [e1]
        cases h3 : appendTwo g st ((str.drop start).take (s - start))
          (varText env ((str.drop s).take (refLen str s 1 str.length))) with
        | inr e => rfl
        | inl st' =>
          have := e2 st' h3
          exact ih _ _ st' (Nat.le_refl _) (fun k hk => hfg k (by omega))
      · simp only [h1, if_false]
        by_cases h2 : at' str s = 126 ∧ isPathDelim (at' str (s + 1)) = true ∧
            (s = 0 ∨ isPathDelim (at' str (s - 1)) = true)
        · simp only [h2, and_self, if_true]
          obtain ⟨e1, e2⟩ := appendTwo_congr f g st ((str.drop start).take (s - start))
            (homeText env) (fun k _ hk => hfg k (by omega))
          rw [e1]
          cases h3 : appendTwo g st ((str.drop start).take (s - start)) (homeText env) with
          | inr e => rfl
          | inl st' =>
            have := e2 st' h3
            exact ih _ _ st' (Nat.le_refl _) (fun k hk => hfg k (by omega))
        · simp only [h2, if_false]
          exact ih _ _ st (by omega) hfg

end Zix.EnvAlloc
