import ZixModel.Model.Fs
import ZixModel.Lemmas.PathRelative
import ZixModel.Properties.C17
/-! Helper lemmas for C15: the file-type table, the page comparison loop, and
`createDirectories` over the abstract tree. -/
namespace Zix.Fs
open Zix.Generated Zix.Path Zix.PathSpec Zix.Path.Rel

/-! ## file type -/

theorem fileTypeMap_masks : fileTypeMap.map (·.1) = sIFKinds.map (·.2) := by decide

theorem statFileType_of_not_mem (mode : Nat) (h : (mode &&& sIFMT) ∉ sIFKinds.map (·.2)) :
    statFileType mode = fileTypeFallback := by
  unfold statFileType
  have : fileTypeMap.find? (fun r => decide (r.1 = mode &&& sIFMT)) = none := by
    rw [List.find?_eq_none]
    intro r hr hdec
    have h1 : r.1 = mode &&& sIFMT := by simpa using hdec
    apply h
    rw [← fileTypeMap_masks, ← h1]
    exact List.mem_map_of_mem hr
  rw [this]; rfl

theorem statFileType_mask (mode : Nat) : statFileType mode = statFileType (mode &&& sIFMT) := by
  unfold statFileType
  rw [Nat.and_assoc, Nat.and_self]

/-! ## page loop -/

theorem pagesEqual_eq (p : Nat) (hp : 0 < p) : ∀ fuel (a b : List Nat),
    a.length < fuel → pagesEqual p fuel a b = decide (a = b) := by
  intro fuel
  induction fuel with
  | zero => intro a b h; omega
  | succ fuel ih =>
    intro a b hf
    unfold pagesEqual
    simp only
    by_cases hca : a.take p = []
    · rw [if_pos hca]
      have ha : a = [] := by
        rcases List.take_eq_nil_iff.1 hca with h | h
        · omega
        · exact h
      subst ha
      cases b with
      | nil => simp
      | cons y ys =>
        have : (y :: ys).take p ≠ [] := by
          intro h
          rcases List.take_eq_nil_iff.1 h with h | h
          · omega
          · cases h
        simp [this]
    · rw [if_neg hca]
      by_cases hne : a.take p = b.take p
      · rw [if_neg (by simp [hne])]
        have hapos : 0 < a.length := by
          cases a with
          | nil => simp at hca
          | cons x xs => simp
        rw [ih _ _ (by simp [List.length_drop]; omega)]
        have : (a.drop p = b.drop p) ↔ a = b := by
          constructor
          · intro h
            rw [← List.take_append_drop p a, ← List.take_append_drop p b, hne, h]
          · intro h; rw [h]
        simp [this]
      · have hor : (b.take p).length ≠ (a.take p).length ∨ a.take p ≠ b.take p := Or.inr hne
        rw [if_pos hor]
        have : a ≠ b := fun h => hne (by rw [h])
        simp [this]

/-- Whatever sizes are reported, as long as each is the true length or zero. -/
theorem fileEqualsSized_eq (a b : List Nat) (sa sb page : Nat) (hp : 0 < page) (allocOk : Bool)
    (ha : sa = a.length ∨ sa = 0) (hb : sb = b.length ∨ sb = 0) :
    fileEqualsSized a b sa sb false page allocOk = decide (a = b) := by
  unfold fileEqualsSized
  simp only [Bool.false_eq_true, if_false]
  by_cases hc : sa = sb ∨ sa = 0 ∨ sb = 0
  · rw [if_pos hc]
    apply pagesEqual_eq _ _ _ _ _ (by omega)
    cases allocOk <;> simp [hp]
  · rw [if_neg hc]
    have : a ≠ b := by
      intro h
      subst h
      apply hc
      rcases ha with ha | ha
      · rcases hb with hb | hb
        · left; omega
        · right; right; exact hb
      · right; left; exact ha
    simp [this]

theorem fileEquals_some (a b : List Nat) (page : Nat) (hp : 0 < page) (allocOk : Bool) :
    fileEquals (some a) (some b) false page allocOk = decide (a = b) := by
  unfold fileEquals
  exact fileEqualsSized_eq a b _ _ page hp allocOk (Or.inl rfl) (Or.inl rfl)



/-! ## components of a string, character by character -/

/-- flush a (possibly empty) current name -/
def fl (cur : List Nat) : List (List Nat) := if cur = [] then [] else [cur]

/-- non-empty components of `r`, with `cur` the name being read -/
def cmpA : List Nat → List Nat → List (List Nat)
  | cur, [] => fl cur
  | cur, c :: r => if isSep c then fl cur ++ cmpA [] r else cmpA (cur ++ [c]) r

/-- the name being read after `r` -/
def curAfter : List Nat → List Nat → List Nat
  | cur, [] => cur
  | cur, c :: r => if isSep c then curAfter [] r else curAfter (cur ++ [c]) r

/-- the names completed while reading `r` -/
def doneOf : List Nat → List Nat → List (List Nat)
  | _, [] => []
  | cur, c :: r => if isSep c then fl cur ++ doneOf [] r else doneOf (cur ++ [c]) r

theorem cmpA_append (pre T : List Nat) : ∀ cur,
    cmpA cur (pre ++ T) = doneOf cur pre ++ cmpA (curAfter cur pre) T := by
  induction pre with
  | nil => intro cur; simp [doneOf, curAfter]
  | cons c r ih =>
    intro cur
    simp only [List.cons_append, cmpA, doneOf, curAfter]
    split
    · rw [ih]; simp
    · rw [ih]

theorem cmpA_eq (pre cur : List Nat) : cmpA cur pre = doneOf cur pre ++ fl (curAfter cur pre) := by
  have := cmpA_append pre [] cur
  simpa [cmpA] using this

theorem cmpA_name (name : List Nat) (h : ∀ c ∈ name, isSep c = false) : ∀ cur,
    cmpA cur name = fl (cur ++ name) := by
  induction name with
  | nil => intro cur; simp [cmpA]
  | cons c r ih =>
    intro cur
    have hc : isSep c = false := h c (by simp)
    simp only [cmpA, hc, Bool.false_eq_true, if_false]
    rw [ih (fun x hx => h x (by simp [hx]))]
    simp

theorem cmpA_seps_name (seps name : List Nat) (hs : ∀ c ∈ seps, isSep c = true)
    (hn : ∀ c ∈ name, isSep c = false) : ∀ cur, (cur = [] ∨ seps ≠ []) →
    cmpA cur (seps ++ name) = fl cur ++ fl name := by
  induction seps with
  | nil =>
    intro cur h
    rcases h with h | h
    · subst h; simp [cmpA_name name hn, fl]
    · exact absurd rfl h
  | cons c r ih =>
    intro cur _
    have hc : isSep c = true := hs c (by simp)
    simp only [List.cons_append, cmpA, hc, if_true]
    rw [ih (fun x hx => hs x (by simp [hx])) [] (Or.inl rfl)]
    simp [fl]

theorem cmpA_step (pre seps name : List Nat) (hs : ∀ c ∈ seps, isSep c = true)
    (hn : ∀ c ∈ name, isSep c = false) (h : curAfter [] pre = [] ∨ seps ≠ []) :
    cmpA [] (pre ++ (seps ++ name)) = cmpA [] pre ++ fl name := by
  rw [cmpA_append, cmpA_eq pre, cmpA_seps_name seps name hs hn _ h]
  simp

theorem cmpA_dropWhile (r : List Nat) : cmpA [] (r.dropWhile isSep) = cmpA [] r := by
  induction r with
  | nil => rfl
  | cons c r ih =>
    by_cases hc : isSep c = true
    · rw [List.dropWhile_cons_of_pos hc, ih]; simp [cmpA, hc, fl]
    · rw [List.dropWhile_cons_of_neg hc]

theorem splitAux_filter : ∀ fuel r cur, r.length ≤ fuel →
    (splitAux fuel r cur).filter (· ≠ []) = cmpA cur.reverse r := by
  intro fuel
  induction fuel with
  | zero =>
    intro r cur h
    have : r = [] := List.eq_nil_of_length_eq_zero (by omega)
    subst this
    simp [splitAux, cmpA, fl, List.filter_cons]
  | succ fuel ih =>
    intro r cur h
    cases r with
    | nil => simp [splitAux, cmpA, fl, List.filter_cons]
    | cons c rest =>
      simp only [List.length_cons] at h
      have := length_dropWhile_le isSep rest
      simp only [splitAux, cmpA]
      split
      · rw [List.filter_cons, ih _ _ (by omega), List.reverse_nil, cmpA_dropWhile]
        unfold fl; split <;> simp_all
      · rw [ih _ _ (by omega)]; simp

theorem comps_eq_cmpA (s : List Nat) : comps s = cmpA [] s := by
  unfold comps splitNames
  rw [← cmpA_dropWhile s]
  split
  · rename_i h; rw [h]; rfl
  · rw [splitAux_filter _ _ _ (by omega)]; rfl

theorem comps_step (pre seps name : List Nat) (hs : ∀ c ∈ seps, isSep c = true)
    (hn : ∀ c ∈ name, isSep c = false) (h : curAfter [] pre = [] ∨ seps ≠ []) :
    comps (pre ++ (seps ++ name)) = if name = [] then comps pre else comps pre ++ [name] := by
  rw [comps_eq_cmpA, comps_eq_cmpA, cmpA_step pre seps name hs hn h]
  unfold fl; split <;> simp

theorem curAfter_append (pre T : List Nat) : ∀ cur,
    curAfter cur (pre ++ T) = curAfter (curAfter cur pre) T := by
  induction pre with
  | nil => intro cur; rfl
  | cons c r ih =>
    intro cur
    simp only [List.cons_append, curAfter]
    split <;> rw [ih]

theorem curAfter_seps (seps : List Nat) (hs : ∀ c ∈ seps, isSep c = true) (hne : seps ≠ []) : ∀ cur,
    curAfter cur seps = [] := by
  induction seps with
  | nil => exact absurd rfl hne
  | cons c r ih =>
    intro cur
    have hc : isSep c = true := hs c (by simp)
    simp only [curAfter, hc, if_true]
    cases r with
    | nil => rfl
    | cons d r' => exact ih (fun x hx => hs x (by simp [hx])) (by simp) []



/-! ## resolution over component lists -/

def rstep (t : Tree) (acc : Option (List (List Nat))) (c : List Nat) : Option (List (List Nat)) :=
  match acc with
  | none => none
  | some cur =>
    if t.kindOf cur ≠ some .dir then none
    else if c = [dot] then some cur
    else if c = [dot, dot] then some cur.dropLast
    else some (cur ++ [c])

def startOf (t : Tree) (abs : Bool) : List (List Nat) := if abs then [] else t.cwd

def resolveC (t : Tree) (abs : Bool) (cs : List (List Nat)) : Option (List (List Nat)) :=
  cs.foldl (rstep t) (some (startOf t abs))

def statKindC (t : Tree) (abs : Bool) (cs : List (List Nat)) : Option Kind :=
  match resolveC t abs cs with
  | some p => t.kindOf p
  | none => none

def addDir (t : Tree) (p : List (List Nat)) : Tree := { t with nodes := t.nodes ++ [(p, .dir)] }

def mkdirC (t : Tree) (abs : Bool) (cs : List (List Nat)) : Tree × Option Int :=
  match cs.getLast? with
  | none => (t, some 17)
  | some last =>
    match resolveC t abs cs.dropLast with
    | none => (t, some 2)
    | some par =>
      if t.kindOf par = none then (t, some 2)
      else if t.kindOf par ≠ some .dir then (t, some 20)
      else if last = [dot] ∨ last = [dot, dot] then (t, some 17)
      else if (t.kindOf (par ++ [last])).isSome then (t, some 17)
      else (addDir t (par ++ [last]), none)

theorem resolve_eq (t : Tree) (s : List Nat) : resolve t s = resolveC t (isSep (s.headD 0)) (comps s) := rfl
theorem statKind_eq (t : Tree) (s : List Nat) : statKind t s = statKindC t (isSep (s.headD 0)) (comps s) := rfl
theorem mkdir_eq (t : Tree) (s : List Nat) : mkdir t s = mkdirC t (isSep (s.headD 0)) (comps s) := rfl


theorem foldl_rstep_none (t : Tree) (cs : List (List Nat)) : cs.foldl (rstep t) none = none := by
  induction cs with
  | nil => rfl
  | cons c cs ih => exact ih

theorem resolveC_snoc (t : Tree) (abs : Bool) (cs : List (List Nat)) (c : List Nat) :
    resolveC t abs (cs ++ [c]) = rstep t (resolveC t abs cs) c := by
  simp [resolveC, List.foldl_append]

theorem statKindC_dir_iff (t : Tree) (abs : Bool) (cs : List (List Nat)) :
    statKindC t abs cs = some .dir ↔ ∃ d, resolveC t abs cs = some d ∧ t.kindOf d = some .dir := by
  unfold statKindC
  cases h : resolveC t abs cs with
  | none => simp
  | some p => simp

theorem statKindC_snoc_prefix (t : Tree) (abs : Bool) (cs : List (List Nat)) (c : List Nat)
    (h : statKindC t abs (cs ++ [c]) = some .dir) : statKindC t abs cs = some .dir := by
  rw [statKindC_dir_iff] at h ⊢
  obtain ⟨d, hd, _⟩ := h
  rw [resolveC_snoc] at hd
  cases hr : resolveC t abs cs with
  | none => rw [hr] at hd; simp [rstep] at hd
  | some p =>
    rw [hr] at hd
    refine ⟨p, rfl, ?_⟩
    by_cases hk : t.kindOf p = some .dir
    · exact hk
    · simp [rstep, hk] at hd

theorem statKindC_prefix (t : Tree) (abs : Bool) (more : List (List Nat)) : ∀ cs,
    statKindC t abs (cs ++ more) = some .dir → statKindC t abs cs = some .dir := by
  induction more with
  | nil => intro cs h; simpa using h
  | cons c more ih =>
    intro cs h
    have : cs ++ c :: more = (cs ++ [c]) ++ more := by simp
    rw [this] at h
    exact statKindC_snoc_prefix t abs cs c (ih _ h)

/-! ## one mkdir -/

theorem mkdirC_err (t t' : Tree) (abs : Bool) (cs : List (List Nat)) (e : Int)
    (h : mkdirC t abs cs = (t', some e)) : t' = t ∧ e ≠ 0 := by
  unfold mkdirC at h
  split at h
  · simp at h; obtain ⟨h1, h2⟩ := h; subst h1 h2; exact ⟨rfl, by decide⟩
  · split at h
    · simp at h; obtain ⟨h1, h2⟩ := h; subst h1 h2; exact ⟨rfl, by decide⟩
    · split at h
      · simp at h; obtain ⟨h1, h2⟩ := h; subst h1 h2; exact ⟨rfl, by decide⟩
      · split at h
        · simp at h; obtain ⟨h1, h2⟩ := h; subst h1 h2; exact ⟨rfl, by decide⟩
        · split at h
          · simp at h; obtain ⟨h1, h2⟩ := h; subst h1 h2; exact ⟨rfl, by decide⟩
          · split at h
            · simp at h; obtain ⟨h1, h2⟩ := h; subst h1 h2; exact ⟨rfl, by decide⟩
            · simp at h

theorem mkdirC_ok (t t' : Tree) (abs : Bool) (cs : List (List Nat))
    (h : mkdirC t abs cs = (t', none)) :
    ∃ par last, cs.getLast? = some last ∧ resolveC t abs cs.dropLast = some par ∧
      t.kindOf par = some .dir ∧ last ≠ [dot] ∧ last ≠ [dot, dot] ∧
      t.kindOf (par ++ [last]) = none ∧ t' = addDir t (par ++ [last]) := by
  unfold mkdirC at h
  split at h
  · simp at h
  · rename_i last hlast
    split at h
    · simp at h
    · rename_i par hpar
      split at h
      · simp at h
      · split at h
        · simp at h
        · rename_i hk
          split at h
          · simp at h
          · rename_i hl
            split at h
            · simp at h
            · rename_i hn
              simp only [Prod.mk.injEq, and_true] at h
              refine ⟨par, last, hlast, hpar, by simpa using hk, fun h => hl (Or.inl h),
                fun h => hl (Or.inr h), by simpa using hn, h.symm⟩

theorem kindOf_addDir_mono (t : Tree) (q p : List (List Nat)) (k : Kind)
    (h : t.kindOf p = some k) : (addDir t q).kindOf p = some k := by
  unfold Tree.kindOf at h ⊢
  by_cases hp : p = []
  · simpa [hp] using h
  · rw [if_neg hp] at h ⊢
    simp only [addDir, List.find?_append]
    cases hf : t.nodes.find? (fun x => decide (x.1 = p)) with
    | none => rw [hf] at h; simp at h
    | some x => rw [hf] at h; simpa using h

theorem kindOf_addDir_new (t : Tree) (q : List (List Nat)) (h : t.kindOf q = none) :
    (addDir t q).kindOf q = some .dir := by
  unfold Tree.kindOf at h ⊢
  by_cases hp : q = []
  · simp [hp] at h
  · rw [if_neg hp] at h ⊢
    simp only [addDir, List.find?_append]
    cases hf : t.nodes.find? (fun x => decide (x.1 = q)) with
    | none => simp
    | some x => rw [hf] at h; simp at h

theorem resolveC_addDir_mono (t : Tree) (q : List (List Nat)) (abs : Bool) (cs : List (List Nat))
    (d : List (List Nat)) (h : resolveC t abs cs = some d) : resolveC (addDir t q) abs cs = some d := by
  unfold resolveC at h ⊢
  have hs : startOf (addDir t q) abs = startOf t abs := rfl
  rw [hs]
  generalize some (startOf t abs) = acc at h ⊢
  induction cs generalizing acc with
  | nil => exact h
  | cons c cs ih =>
    simp only [List.foldl_cons] at h ⊢
    cases acc with
    | none => simp [rstep, foldl_rstep_none] at h
    | some cur =>
      by_cases hk : t.kindOf cur = some .dir
      · have hk' := kindOf_addDir_mono t q cur _ hk
        have : rstep (addDir t q) (some cur) c = rstep t (some cur) c := by
          simp [rstep, hk, hk']
        rw [this]; exact ih _ h
      · simp [rstep, hk, foldl_rstep_none] at h


/-! ## well-formed trees -/

def GoodName (c : List Nat) : Prop := c ≠ [] ∧ sep ∉ c ∧ 0 ∉ c ∧ c ≠ [dot] ∧ c ≠ [dot, dot]

/-- Same content as `Zix.C15.TreeOK` (which lives with the property statements). -/
structure TreeWF (t : Tree) : Prop where
  parents : ∀ p k, (p, k) ∈ t.nodes → p ≠ [] ∧ t.kindOf p.dropLast = some .dir
  names   : ∀ p k, (p, k) ∈ t.nodes → ∀ c ∈ p, GoodName c
  nodup   : (t.nodes.map (·.1)).Nodup
  cwdDir  : t.kindOf t.cwd = some .dir
  cwdNames : ∀ c ∈ t.cwd, GoodName c

theorem kindOf_some_mem (t : Tree) (d : List (List Nat)) (k : Kind) (h : t.kindOf d = some k) :
    (d = [] ∧ k = .dir) ∨ (d, k) ∈ t.nodes := by
  unfold Tree.kindOf at h
  by_cases hd : d = []
  · left; rw [if_pos hd] at h; exact ⟨hd, by simpa using h.symm⟩
  · right
    rw [if_neg hd] at h
    cases hf : t.nodes.find? (fun x => decide (x.1 = d)) with
    | none => rw [hf] at h; simp at h
    | some x =>
      rw [hf] at h
      have h1 := List.find?_some hf
      have h2 := List.mem_of_find?_eq_some hf
      simp at h h1
      have : x = (d, k) := by rw [← h1, ← h]
      rw [← this]; exact h2

theorem kindOf_none_not_mem (t : Tree) (q : List (List Nat)) (h : t.kindOf q = none) :
    q ∉ t.nodes.map (·.1) := by
  unfold Tree.kindOf at h
  by_cases hq : q = []
  · simp [hq] at h
  · rw [if_neg hq] at h
    simp only [Option.map_eq_none_iff, List.find?_eq_none] at h
    intro hm
    obtain ⟨x, hx, hxq⟩ := List.mem_map.1 hm
    exact h x hx (by simpa using hxq)

theorem addDir_wf (t : Tree) (ht : TreeWF t) (d : List (List Nat)) (n : List Nat)
    (hd : t.kindOf d = some .dir) (hn : GoodName n) (hnew : t.kindOf (d ++ [n]) = none) :
    TreeWF (addDir t (d ++ [n])) := by
  have hdn : ∀ c ∈ d, GoodName c := by
    rcases kindOf_some_mem t d _ hd with ⟨h, _⟩ | h
    · subst h; simp
    · exact ht.names d _ h
  constructor
  · intro p k hp
    simp only [addDir, List.mem_append, List.mem_singleton, Prod.mk.injEq] at hp
    rcases hp with hp | ⟨hp, _⟩
    · obtain ⟨h1, h2⟩ := ht.parents p k hp
      exact ⟨h1, kindOf_addDir_mono t _ _ _ h2⟩
    · subst hp
      refine ⟨by simp, ?_⟩
      rw [List.dropLast_concat]
      exact kindOf_addDir_mono t _ _ _ hd
  · intro p k hp
    simp only [addDir, List.mem_append, List.mem_singleton, Prod.mk.injEq] at hp
    rcases hp with hp | ⟨hp, _⟩
    · exact ht.names p k hp
    · subst hp
      intro c hc
      rcases List.mem_append.1 hc with hc | hc
      · exact hdn c hc
      · simp at hc; subst hc; exact hn
  · simp only [addDir, List.map_append, List.map_cons, List.map_nil]
    rw [List.nodup_append]
    refine ⟨ht.nodup, by simp, ?_⟩
    intro a ha b hb
    simp at hb; subst hb
    intro hab; subst hab
    exact kindOf_none_not_mem t _ hnew ha
  · exact kindOf_addDir_mono t _ _ _ ht.cwdDir
  · exact ht.cwdNames

/-! ## the loop over component prefixes -/

def goA (abs : Bool) : List (List Nat) → List (List Nat) → Tree → Tree × Int
  | _, [], t => (t, 0)
  | cur, n :: rest, t =>
    if statKindC t abs (if n = [] then cur else cur ++ [n]) = some .dir then
      goA abs (if n = [] then cur else cur ++ [n]) rest t
    else
      match mkdirC t abs (if n = [] then cur else cur ++ [n]) with
      | (t', none) => goA abs (if n = [] then cur else cur ++ [n]) rest t'
      | (t', some e) => (t', Zix.Errno.errnoStatus e)

theorem filter_cons_ne (cur : List (List Nat)) (n : List Nat) (rest : List (List Nat)) :
    cur ++ (n :: rest).filter (· ≠ []) = (if n = [] then cur else cur ++ [n]) ++ rest.filter (· ≠ []) := by
  by_cases h : n = []
  · simp [h]
  · simp [h]

/-- When the whole path already names a directory, nothing is created. -/
theorem goA_of_dir (abs : Bool) (t : Tree) (names : List (List Nat)) : ∀ cur,
    statKindC t abs (cur ++ names.filter (· ≠ [])) = some .dir → goA abs cur names t = (t, 0) := by
  induction names with
  | nil => intro cur _; rfl
  | cons n rest ih =>
    intro cur h
    rw [filter_cons_ne] at h
    have h1 := statKindC_prefix t abs _ _ h
    rw [goA, if_pos h1]
    exact ih _ h

theorem goA_spec (abs : Bool) (names : List (List Nat)) : ∀ (cur : List (List Nat)) (t : Tree),
    TreeWF t → statKindC t abs cur = some .dir → (∀ n ∈ names, sep ∉ n ∧ 0 ∉ n) →
    TreeWF (goA abs cur names t).1 ∧
    (∀ p k, (p, k) ∈ t.nodes → (p, k) ∈ (goA abs cur names t).1.nodes) ∧
    (∀ p k, (p, k) ∈ (goA abs cur names t).1.nodes → (p, k) ∈ t.nodes ∨ k = .dir) ∧
    ((goA abs cur names t).2 = 0 ↔
      statKindC (goA abs cur names t).1 abs (cur ++ names.filter (· ≠ [])) = some .dir) := by
  induction names with
  | nil =>
    intro cur t ht hinv _
    simp only [goA, List.filter_nil, List.append_nil, hinv]
    exact ⟨ht, fun _ _ h => h, fun _ _ h => Or.inl h, by simp⟩
  | cons n rest ih =>
    intro cur t ht hinv hnames
    have hrest : ∀ m ∈ rest, sep ∉ m ∧ 0 ∉ m := fun m hm => hnames m (by simp [hm])
    rw [filter_cons_ne]
    rw [goA]
    generalize hcur' : (if n = [] then cur else cur ++ [n]) = cur'
    by_cases hk : statKindC t abs cur' = some .dir
    · rw [if_pos hk]
      exact ih cur' t ht hk hrest
    · rw [if_neg hk]
      have hn : n ≠ [] := by
        intro hn; rw [if_pos hn] at hcur'; subst hcur'; exact hk hinv
      rw [if_neg hn] at hcur'
      cases hm : mkdirC t abs cur' with
      | mk t' r =>
        cases r with
        | some e =>
          obtain ⟨h1, h2⟩ := mkdirC_err t t' abs cur' e hm
          subst h1
          refine ⟨ht, fun _ _ h => h, fun _ _ h => Or.inl h, ?_⟩
          simp only
          constructor
          · intro h; exact absurd ((Zix.C17.errno_success_iff e).1 h) h2
          · intro h; exact absurd (statKindC_prefix t' abs _ _ h) hk
        | none =>
          obtain ⟨par, last, hlast, hpar, hpk, hl1, hl2, hnone, ht'⟩ := mkdirC_ok t t' abs cur' hm
          subst hcur'
          rw [List.getLast?_concat] at hlast
          rw [List.dropLast_concat] at hpar
          simp only [Option.some.injEq] at hlast
          subst hlast
          have hgood : GoodName n := ⟨hn, (hnames n (by simp)).1, (hnames n (by simp)).2, hl1, hl2⟩
          have hwf : TreeWF t' := by rw [ht']; exact addDir_wf t ht par n hpk hgood hnone
          have hinv' : statKindC t' abs (cur ++ [n]) = some .dir := by
            rw [statKindC_dir_iff]
            refine ⟨par ++ [n], ?_, ?_⟩
            · rw [resolveC_snoc, ht', resolveC_addDir_mono t _ abs cur par hpar]
              simp [rstep, kindOf_addDir_mono t _ _ _ hpk, hl1, hl2]
            · rw [ht']; exact kindOf_addDir_new t _ hnone
          obtain ⟨i1, i2, i3, i4⟩ := ih (cur ++ [n]) t' hwf hinv' hrest
          refine ⟨i1, ?_, ?_, i4⟩
          · intro p k h
            apply i2
            rw [ht']; simp [addDir, h]
          · intro p k h
            rcases i3 p k h with h | h
            · rw [ht'] at h
              simp only [addDir, List.mem_append, List.mem_singleton, Prod.mk.injEq] at h
              rcases h with h | ⟨_, h⟩
              · exact Or.inl h
              · exact Or.inr h
            · exact Or.inr h




/-! ## the iterator's prefixes -/

/-- position `e` is not in the middle of a name -/
def Bnd (s : List Nat) (e : Nat) : Prop :=
  curAfter [] (s.take e) = [] ∨ s.drop e = [] ∨ isSep ((s.drop e).headD 0) = true

theorem take_two_runs {α} (p q : α → Bool) (X : List α) :
    X.take ((X.takeWhile p).length + ((X.dropWhile p).takeWhile q).length) =
      X.takeWhile p ++ (X.dropWhile p).takeWhile q := by
  rw [List.take_add, take_takeWhile_length, drop_takeWhile_length, take_takeWhile_length]

theorem take_G (s : List Nat) (h0 : 0 ∉ s) (e : Nat) (hs : s.drop e ≠ []) :
    s.take (G s e).range.2 = s.take e ++ ((s.drop e).takeWhile isSep ++
      ((s.drop e).dropWhile isSep).takeWhile notSep) ∧
    s.drop (G s e).range.2 = ((s.drop e).dropWhile isSep).dropWhile notSep := by
  rw [G_cons s h0 e hs]
  constructor
  · show s.take (e + _ + _) = _
    rw [Nat.add_assoc, List.take_add, take_two_runs]
  · show s.drop (e + _ + _) = _
    rw [← List.drop_drop, ← List.drop_drop, drop_takeWhile_length, drop_takeWhile_length]

theorem headD_take (s : List Nat) (k : Nat) (hk : 0 < k) : (s.take k).headD 0 = s.headD 0 := by
  cases s with
  | nil => simp
  | cons c r =>
    cases k with
    | zero => omega
    | succ k => simp

theorem go_frames (s : List Nat) (h0 : 0 ∉ s) : ∀ fuel e t, s.length - e ≤ fuel → Bnd s e →
    createDirectories.go s ((frames s fuel (G s e)).filter (fun f => f.state = .fileName)) t =
      goA (isSep (s.headD 0)) (comps (s.take e)) (elemsFrom (s.drop e)) t := by
  intro fuel
  induction fuel with
  | zero =>
    intro e t h _
    have : s.drop e = [] := by rw [List.drop_eq_nil_iff]; omega
    simp [frames, this, elemsFrom_nil, createDirectories.go, goA]
  | succ fuel ih =>
    intro e t h hb
    by_cases hs : s.drop e = []
    · rw [G_nil s h0 e hs, frames_end, hs, elemsFrom_nil]; rfl
    · obtain ⟨hst, hlt, hel, _, htext⟩ := G_step s h0 e hs
      obtain ⟨htake, hdrop⟩ := take_G s h0 e hs
      have hlen : e < s.length := by
        have : ¬ s.length ≤ e := fun hh => hs (List.drop_eq_nil_iff.2 hh)
        omega
      have hhead := headD_take s (G s e).range.2 (by omega)
      have hseps : ∀ c ∈ (s.drop e).takeWhile isSep, isSep c = true := fun c hc => mem_takeWhile hc
      have hname : ∀ c ∈ ((s.drop e).dropWhile isSep).takeWhile notSep, isSep c = false := by
        intro c hc
        have := mem_takeWhile hc
        simpa [notSep] using this
      have hcond : curAfter [] (s.take e) = [] ∨ (s.drop e).takeWhile isSep ≠ [] := by
        rcases hb with hb | hb | hb
        · exact Or.inl hb
        · exact absurd hb hs
        · right
          cases hd : s.drop e with
          | nil => exact absurd hd hs
          | cons c r => rw [hd] at hb; simp at hb; simp [hb]
      have hcomps := comps_step (s.take e) _ _ hseps hname hcond
      rw [← htake, ← htext] at hcomps
      have hb' : Bnd s (G s e).range.2 := by
        right
        rw [hdrop]
        cases hd : ((s.drop e).dropWhile isSep).dropWhile notSep with
        | nil => exact Or.inl rfl
        | cons c r =>
          right
          have := List.head_dropWhile_not notSep (l := (s.drop e).dropWhile isSep) (by rw [hd]; simp)
          simp only [hd, List.head_cons, notSep] at this
          simpa using this
      have ih' := fun t' => ih (G s e).range.2 t' (by omega) hb'
      rw [hcomps] at ih'
      unfold frames
      rw [if_neg (by rw [hst]; simp), next_of_fileName s _ hst,
        List.filter_cons_of_pos (by simp [hst]), createDirectories.go.eq_2, hel, goA,
        statKind_eq, mkdir_eq, hhead, hcomps]
      generalize (if rangeText s (G s e) = [] then comps (s.take e)
        else comps (s.take e) ++ [rangeText s (G s e)]) = cur' at ih' ⊢
      simp only [ih']
      rfl


theorem comps_eq_elems (s : List Nat) :
    comps s = (elemsFrom (s.dropWhile isSep)).filter (· ≠ []) := by
  unfold comps; rw [splitNames_eq _ (dropWhile_idem _ _)]

theorem dropWhile_takeWhile {α} (p : α → Bool) (l : List α) : (l.takeWhile p).dropWhile p = [] := by
  induction l with
  | nil => rfl
  | cons a l ih =>
    by_cases h : p a = true
    · simp [h, ih]
    · simp [h]

theorem comps_takeWhile (s : List Nat) : comps (s.takeWhile isSep) = [] := by
  unfold comps; rw [dropWhile_takeWhile]; rfl

theorem curAfter_takeWhile (s : List Nat) : curAfter [] (s.takeWhile isSep) = [] := by
  by_cases h : s.takeWhile isSep = []
  · rw [h]; rfl
  · exact curAfter_seps _ (fun c hc => mem_takeWhile hc) h []

theorem createDirectories_eq (t : Tree) (s : List Nat) (h0 : 0 ∉ s) (hs : s ≠ []) :
    createDirectories t s = goA (isSep (s.headD 0)) [] (elemsFrom (s.dropWhile isSep)) t := by
  unfold createDirectories
  rw [if_neg hs]
  simp only
  unfold allFrames
  cases hr : isSep (at' s 0) with
  | false =>
    have hr' : isSep (s.headD 0) = false := by rw [at'_eq_headD']; exact hr
    rw [begin_noroot s hr, go_frames s h0 _ 0 t (by omega) (Or.inl rfl), hr',
      dropWhile_noroot s hr']
    rfl
  | true =>
    have hr' : isSep (s.headD 0) = true := by rw [at'_eq_headD']; exact hr
    have hdrop := drop_skipSeps_one s hr
    have htake : s.take (skipSeps s (s.length + 1) 1) = s.takeWhile isSep := by
      have h1 := List.take_append_drop (skipSeps s (s.length + 1) 1) s
      have h2 : s.takeWhile isSep ++ s.dropWhile isSep = s := List.takeWhile_append_dropWhile
      rw [hdrop] at h1
      exact List.append_cancel_right (h1.trans h2.symm)
    rw [begin_root s hr]
    unfold frames
    rw [if_neg (by simp), next_rootDir, List.filter_cons_of_neg (by simp)]
    show createDirectories.go s (List.filter _ (frames s (s.length + 1) (G s (skipSeps s (s.length + 1) 1)))) t = _
    rw [go_frames s h0 _ _ t (by omega) (Or.inl (by rw [htake]; exact curAfter_takeWhile s)),
      htake, comps_takeWhile, hdrop, hr']

theorem elemsFrom_mem : ∀ k (suf : List Nat), suf.length ≤ k → ∀ n ∈ elemsFrom suf, ∀ c ∈ n,
    c ∈ suf ∧ isSep c = false := by
  intro k
  induction k with
  | zero =>
    intro suf h n hn
    have : suf = [] := List.eq_nil_of_length_eq_zero (by omega)
    subst this; simp [elemsFrom_nil] at hn
  | succ k ih =>
    intro suf hlen n hn c hc
    by_cases hs : suf = []
    · subst hs; simp [elemsFrom_nil] at hn
    · rw [elemsFrom_eq suf hs] at hn
      have a1 := length_takeWhile_add_dropWhile isSep suf
      have a2 := length_takeWhile_add_dropWhile notSep (suf.dropWhile isSep)
      have m1 : ∀ x ∈ suf.dropWhile isSep, x ∈ suf := fun x hx =>
        (List.dropWhile_sublist isSep).subset hx
      rcases List.mem_cons.1 hn with hn | hn
      · subst hn
        refine ⟨m1 c ((List.takeWhile_sublist notSep).subset hc), ?_⟩
        have := mem_takeWhile hc
        simpa [notSep] using this
      · have hlt : ((suf.dropWhile isSep).dropWhile notSep).length < suf.length := by
          cases hsuf : suf with
          | nil => exact absurd hsuf hs
          | cons c t =>
            rw [hsuf] at a1 a2
            by_cases hc : isSep c = true
            · simp [hc] at a1 a2 ⊢; omega
            · simp [hc, notSep] at a1 a2 ⊢; omega
        obtain ⟨h1, h2⟩ := ih _ (by omega) n hn c hc
        exact ⟨m1 c ((List.dropWhile_sublist notSep).subset h1), h2⟩

theorem names_good (s : List Nat) (h0 : 0 ∉ s) : ∀ n ∈ elemsFrom (s.dropWhile isSep), sep ∉ n ∧ 0 ∉ n := by
  intro n hn
  have hm := elemsFrom_mem _ _ (Nat.le_refl _) n hn
  constructor
  · intro h; have := (hm _ h).2; simp [isSep] at this
  · intro h; exact h0 ((List.dropWhile_sublist isSep).subset (hm _ h).1)


theorem statKindC_nil (t : Tree) (ht : t.kindOf t.cwd = some .dir) (abs : Bool) :
    statKindC t abs [] = some .dir := by
  cases abs with
  | true => rfl
  | false => exact ht

/-- Everything the C15 `create_directories` theorems need, for a non-empty NUL-free path. -/
theorem createDirectories_spec (t : Tree) (ht : TreeWF t) (s : List Nat) (h0 : 0 ∉ s) (hs : s ≠ []) :
    TreeWF (createDirectories t s).1 ∧
    (∀ p k, (p, k) ∈ t.nodes → (p, k) ∈ (createDirectories t s).1.nodes) ∧
    (∀ p k, (p, k) ∈ (createDirectories t s).1.nodes → (p, k) ∈ t.nodes ∨ k = .dir) ∧
    ((createDirectories t s).2 = 0 ↔ statKind (createDirectories t s).1 s = some .dir) := by
  have h := goA_spec (isSep (s.headD 0)) (elemsFrom (s.dropWhile isSep)) [] t ht
    (statKindC_nil t ht.cwdDir _) (names_good s h0)
  rw [statKind_eq, comps_eq_elems, createDirectories_eq t s h0 hs]
  simpa using h

theorem createDirectories_idem (t : Tree) (ht : TreeWF t) (s : List Nat) (h0 : 0 ∉ s)
    (h : (createDirectories t s).2 = 0) :
    createDirectories (createDirectories t s).1 s = ((createDirectories t s).1, 0) := by
  by_cases hs : s = []
  · subst hs; simp [createDirectories] at h
  · have h2 := (createDirectories_spec t ht s h0 hs).2.2.2.1 h
    rw [statKind_eq, comps_eq_elems] at h2
    rw [createDirectories_eq _ s h0 hs]
    exact goA_of_dir _ _ _ [] (by simpa using h2)

end Zix.Fs
