import ZixModel.Model.Hash
/-! Helper lemmas for C03 (hash table): cyclic-path arithmetic, `getD`/`set` facts, the
characterisation of `findEntry`/`planInsert`, and the slot-level invariant `SInv` with its
preservation under insertion, tombstoning and rehashing. -/
namespace Zix.Hash
open Zix.Generated

/-! ## arithmetic on the cyclic probe path -/

theorem mod_two {a n : Nat} (h : a < 2 * n) : a % n = if a < n then a else a - n := by
  split
  · exact Nat.mod_eq_of_lt ‹_›
  · rw [Nat.mod_eq_sub_mod (by omega)]; exact Nat.mod_eq_of_lt (by omega)

/-- position `d` on the path from `start` -/
theorem idx_eq {n start d : Nat} (hs : start < n) (hd : d ≤ n) :
    (start + d) % n = if start + d < n then start + d else start + d - n :=
  mod_two (by omega)

/-- distance of index `i` from `start` along the path -/
theorem dist_eq {n start i : Nat} (hs : start < n) (hi : i < n) :
    (i + n - start) % n = if start ≤ i then i - start else i + n - start := by
  rw [mod_two (by omega)]; split <;> split <;> omega

theorem idx_lt {n start d : Nat} (hs : start < n) : (start + d) % n < n :=
  Nat.mod_lt _ (by omega)

theorem dist_lt {n start i : Nat} (hs : start < n) : (i + n - start) % n < n :=
  Nat.mod_lt _ (by omega)

theorem dist_idx {n start e : Nat} (hs : start < n) (he : e < n) :
    ((start + e) % n + n - start) % n = e := by
  rw [dist_eq hs (idx_lt hs), idx_eq hs (by omega)]; split <;> split <;> omega

theorem idx_dist {n start i : Nat} (hs : start < n) (hi : i < n) :
    (start + (i + n - start) % n) % n = i := by
  rw [idx_eq hs (Nat.le_of_lt (dist_lt hs)), dist_eq hs hi]; split <;> split <;> omega

theorem idx_inj {n start e e' : Nat} (hs : start < n) (he : e < n) (he' : e' < n)
    (h : (start + e) % n = (start + e') % n) : e = e' := by
  rw [← dist_idx hs he, ← dist_idx hs he', h]

theorem nextIndex_idx {n start d : Nat} (hs : start < n) (hd : d < n) :
    nextIndex n ((start + d) % n) = (start + (d + 1)) % n := by
  unfold nextIndex
  rw [idx_eq hs (by omega), idx_eq hs (by omega)]; split <;> split <;> split <;> omega

theorem idx_succ_eq_start {n start d : Nat} (hs : start < n) (hd : d < n) :
    (start + (d + 1)) % n = start ↔ d + 1 = n := by
  rw [idx_eq hs (by omega)]; split <;> omega

theorem fold_lt {c n : Nat} (h : 0 < n) : fold c n < n := Nat.mod_lt _ h

/-! ## `getD`, `set` -/

theorem getD_eq_of_getElem? {l : List Slot} {i : Nat} {s : Slot} (h : l[i]? = some s) :
    l.getD i .empty = s := by
  simp [List.getD_eq_getElem?_getD, h]

theorem getElem?_of_getD {l : List Slot} {i : Nat} (hi : i < l.length) :
    l[i]? = some (l.getD i .empty) := by
  simp [List.getD_eq_getElem?_getD, hi]

theorem getD_live_iff {l : List Slot} {i c r : Nat} :
    l[i]? = some (.live c r) ↔ l.getD i .empty = .live c r := by
  constructor
  · exact getD_eq_of_getElem?
  · intro h
    by_cases hi : i < l.length
    · rw [getElem?_of_getD hi, h]
    · simp [List.getD_eq_getElem?_getD, List.getElem?_eq_none (Nat.le_of_not_lt hi)] at h

theorem lt_of_getD_ne_empty {l : List Slot} {i : Nat} (h : l.getD i .empty ≠ .empty) :
    i < l.length := by
  apply Classical.byContradiction
  intro hi
  exact h (by simp [List.getD_eq_getElem?_getD, List.getElem?_eq_none (Nat.le_of_not_lt hi)])

theorem getD_set_self {l : List Slot} {i : Nat} {x : Slot} (hi : i < l.length) :
    (l.set i x).getD i .empty = x := by
  simp [List.getD_eq_getElem?_getD, hi]

theorem getD_set_ne {l : List Slot} {i j : Nat} {x : Slot} (h : i ≠ j) :
    (l.set i x).getD j .empty = l.getD j .empty := by
  simp [List.getD_eq_getElem?_getD, List.getElem?_set_ne h]

theorem getD_set_cases {l : List Slot} {i j : Nat} {x : Slot} :
    (l.set i x).getD j .empty = l.getD j .empty ∨
      (j = i ∧ i < l.length ∧ (l.set i x).getD j .empty = x) := by
  by_cases h : i = j
  · subst h
    by_cases hi : i < l.length
    · exact Or.inr ⟨rfl, hi, getD_set_self hi⟩
    · left; rw [List.set_eq_of_length_le (Nat.le_of_not_lt hi)]
  · exact Or.inl (getD_set_ne h)

/-! ## stopping conditions of a probe -/

/-- the slot holds a record with the searched code and key -/
def Match (keyOf : Nat → Nat) (key code : Nat) (s : Slot) : Prop :=
  ∃ r, s = .live code r ∧ keyOf r = key

/-- `findEntry` stops at this slot -/
def Stop (keyOf : Nat → Nat) (key code : Nat) (s : Slot) : Prop :=
  s = .empty ∨ Match keyOf key code s

theorem not_stop_tomb {keyOf key code} : ¬ Stop keyOf key code .tomb := by
  rintro (h | ⟨r, h, _⟩) <;> cases h

theorem not_stop_live_code {keyOf key code c r} (h : c ≠ code) : ¬ Stop keyOf key code (.live c r) := by
  rintro (h' | ⟨r', h', _⟩)
  · cases h'
  · cases h'; exact h rfl

theorem not_stop_live_key {keyOf key code c r} (h : keyOf r ≠ key) : ¬ Stop keyOf key code (.live c r) := by
  rintro (h' | ⟨r', h', hk⟩)
  · cases h'
  · cases h'; exact h hk

/-- Result of a probe that starts at path position `d`: either the first stopping position
`e ≥ d`, or `n` after a whole cycle without one. -/
def ProbeRes (keyOf : Nat → Nat) (slots : List Slot) (key code start d res : Nat) : Prop :=
  (∃ e, d ≤ e ∧ e < slots.length ∧ res = (start + e) % slots.length ∧
      Stop keyOf key code (slots.getD res .empty) ∧
      ∀ e', d ≤ e' → e' < e → ¬ Stop keyOf key code (slots.getD ((start + e') % slots.length) .empty)) ∨
  (res = slots.length ∧
      ∀ e', d ≤ e' → e' < slots.length →
        ¬ Stop keyOf key code (slots.getD ((start + e') % slots.length) .empty))

theorem ProbeRes.step {keyOf slots key code start d res}
    (hns : ¬ Stop keyOf key code (slots.getD ((start + d) % slots.length) .empty))
    (h : ProbeRes keyOf slots key code start (d + 1) res) :
    ProbeRes keyOf slots key code start d res := by
  rcases h with ⟨e, hde, he, hres, hst, hbef⟩ | ⟨hres, hbef⟩
  · refine Or.inl ⟨e, by omega, he, hres, hst, ?_⟩
    intro e' h1 h2
    by_cases h : e' = d
    · subst h; exact hns
    · exact hbef e' (by omega) h2
  · refine Or.inr ⟨hres, ?_⟩
    intro e' h1 h2
    by_cases h : e' = d
    · subst h; exact hns
    · exact hbef e' (by omega) h2

theorem ProbeRes.last {keyOf slots key code start d}
    (hns : ¬ Stop keyOf key code (slots.getD ((start + d) % slots.length) .empty))
    (hd : d + 1 = slots.length) :
    ProbeRes keyOf slots key code start d slots.length := by
  refine Or.inr ⟨rfl, ?_⟩
  intro e' h1 h2
  have : e' = d := by omega
  subst this; exact hns

/-- Termination and characterisation of `findEntry`. -/
theorem findEntry_spec (keyOf : Nat → Nat) (slots : List Slot) (key code start : Nat)
    (hs : start < slots.length) :
    ∀ fuel d evs, d < slots.length → slots.length ≤ fuel + d →
      ∃ res evs', findEntry keyOf slots key code start fuel ((start + d) % slots.length) evs
          = some (res, evs') ∧ ProbeRes keyOf slots key code start d res := by
  intro fuel
  induction fuel with
  | zero => intro d evs hd hf; omega
  | succ fuel ih =>
    intro d evs hd hf
    -- the common "advance" step
    have hadv : ∀ evs, ¬ Stop keyOf key code (slots.getD ((start + d) % slots.length) .empty) →
        ∃ res evs', (if nextIndex slots.length ((start + d) % slots.length) = start
            then some (slots.length, evs)
            else findEntry keyOf slots key code start fuel
              (nextIndex slots.length ((start + d) % slots.length)) evs) = some (res, evs') ∧
          ProbeRes keyOf slots key code start d res := by
      intro evs hns
      rw [nextIndex_idx hs hd]
      by_cases hj : (start + (d + 1)) % slots.length = start
      · rw [if_pos hj]
        exact ⟨_, _, rfl, ProbeRes.last hns ((idx_succ_eq_start hs hd).1 hj)⟩
      · rw [if_neg hj]
        have hd1 : d + 1 < slots.length := by
          have := mt (idx_succ_eq_start hs hd).2 hj; omega
        obtain ⟨res, evs', h1, h2⟩ := ih (d + 1) evs hd1 (by omega)
        exact ⟨res, evs', h1, h2.step hns⟩
    unfold findEntry
    cases hsl : slots.getD ((start + d) % slots.length) .empty with
    | empty =>
      exact ⟨_, _, rfl, Or.inl ⟨d, Nat.le_refl _, hd, rfl, by rw [hsl]; exact Or.inl rfl,
        fun e' h1 h2 => by omega⟩⟩
    | tomb =>
      simp only []
      exact hadv evs (by rw [hsl]; exact not_stop_tomb)
    | live c r =>
      simp only []
      by_cases hc : c = code
      · rw [if_pos hc]
        by_cases hk : keyOf r = key
        · rw [if_pos hk]
          exact ⟨_, _, rfl, Or.inl ⟨d, Nat.le_refl _, hd, rfl,
            by rw [hsl]; exact Or.inr ⟨r, by rw [hc], hk⟩, fun e' h1 h2 => by omega⟩⟩
        · rw [if_neg hk]
          exact hadv _ (by rw [hsl]; exact not_stop_live_key hk)
      · rw [if_neg hc]
        exact hadv evs (by rw [hsl]; exact not_stop_live_code hc)

/-! ## `planInsert` -/

def IsLive (s : Slot) : Prop := ∃ c r, s = .live c r

/-- Result of `planInsert` started at path position `d` with first-tombstone register `ft`. -/
def PlanRes (keyOf : Nat → Nat) (slots : List Slot) (key code start d : Nat) (ft : Option Nat)
    (res : Nat) : Prop :=
  (∃ e, d ≤ e ∧ e < slots.length ∧ res = (start + e) % slots.length ∧
      Match keyOf key code (slots.getD res .empty) ∧
      ∀ e', d ≤ e' → e' < e → ¬ Stop keyOf key code (slots.getD ((start + e') % slots.length) .empty)) ∨
  (∃ e, d ≤ e ∧ e ≤ slots.length ∧
      (e < slots.length → slots.getD ((start + e) % slots.length) .empty = .empty) ∧
      (∀ e', d ≤ e' → e' < e → ¬ Stop keyOf key code (slots.getD ((start + e') % slots.length) .empty)) ∧
      (∀ f, ft = some f → res = f) ∧
      (ft = none → ∃ p, d ≤ p ∧ p ≤ e ∧ res = (start + p) % slots.length ∧
        (∀ e', d ≤ e' → e' < p → IsLive (slots.getD ((start + e') % slots.length) .empty)) ∧
        (p < e → slots.getD ((start + p) % slots.length) .empty = .tomb)))

theorem PlanRes.step {keyOf slots key code start d res} {ft ft' : Option Nat}
    (hns : ¬ Stop keyOf key code (slots.getD ((start + d) % slots.length) .empty))
    (hsome : ∀ f, ft = some f → ft' = some f)
    (hnone : ft = none →
      (ft' = none ∧ IsLive (slots.getD ((start + d) % slots.length) .empty)) ∨
      (ft' = some ((start + d) % slots.length) ∧
        slots.getD ((start + d) % slots.length) .empty = .tomb))
    (h : PlanRes keyOf slots key code start (d + 1) ft' res) :
    PlanRes keyOf slots key code start d ft res := by
  have ext : ∀ e, (∀ e', d + 1 ≤ e' → e' < e →
        ¬ Stop keyOf key code (slots.getD ((start + e') % slots.length) .empty)) →
      ∀ e', d ≤ e' → e' < e →
        ¬ Stop keyOf key code (slots.getD ((start + e') % slots.length) .empty) := by
    intro e hbef e' h1 h2
    by_cases h : e' = d
    · subst h; exact hns
    · exact hbef e' (by omega) h2
  rcases h with ⟨e, hde, he, hres, hst, hbef⟩ | ⟨e, hde, he, hemp, hbef, hf, hn⟩
  · exact Or.inl ⟨e, by omega, he, hres, hst, ext e hbef⟩
  · refine Or.inr ⟨e, by omega, he, hemp, ext e hbef, ?_, ?_⟩
    · intro f hft; exact hf f (hsome f hft)
    · intro hft
      rcases hnone hft with ⟨hft', hlive⟩ | ⟨hft', htomb⟩
      · obtain ⟨p, hdp, hpe, hresp, hlv, htb⟩ := hn hft'
        refine ⟨p, by omega, hpe, hresp, ?_, htb⟩
        intro e' h1 h2
        by_cases h : e' = d
        · subst h; exact hlive
        · exact hlv e' (by omega) h2
      · refine ⟨d, Nat.le_refl _, by omega, hf _ hft', fun e' h1 h2 => by omega, fun _ => htomb⟩

theorem PlanRes.last {keyOf slots key code start d} {ft ft' : Option Nat}
    (hs : start < slots.length)
    (hns : ¬ Stop keyOf key code (slots.getD ((start + d) % slots.length) .empty))
    (hsome : ∀ f, ft = some f → ft' = some f)
    (hnone : ft = none →
      (ft' = none ∧ IsLive (slots.getD ((start + d) % slots.length) .empty)) ∨
      (ft' = some ((start + d) % slots.length) ∧
        slots.getD ((start + d) % slots.length) .empty = .tomb))
    (hd : d + 1 = slots.length) :
    PlanRes keyOf slots key code start d ft (ft'.getD start) := by
  refine Or.inr ⟨slots.length, by omega, Nat.le_refl _, fun h => by omega, ?_, ?_, ?_⟩
  · intro e' h1 h2
    have : e' = d := by omega
    subst this; exact hns
  · intro f hft; rw [hsome f hft]; rfl
  · intro hft
    rcases hnone hft with ⟨hft', hlive⟩ | ⟨hft', htomb⟩
    · refine ⟨slots.length, by omega, Nat.le_refl _, ?_, ?_, fun h => by omega⟩
      · rw [hft', Nat.add_mod_right, Nat.mod_eq_of_lt hs]; rfl
      · intro e' h1 h2
        have : e' = d := by omega
        subst this; exact hlive
    · refine ⟨d, Nat.le_refl _, by omega, by rw [hft']; rfl, fun e' h1 h2 => by omega, fun _ => htomb⟩

/-- Termination and characterisation of `planInsert`. -/
theorem planInsert_spec (keyOf : Nat → Nat) (slots : List Slot) (key code start : Nat)
    (hs : start < slots.length) :
    ∀ fuel d ft evs, d < slots.length → slots.length ≤ fuel + d →
      ∃ res evs', planInsert keyOf slots key code start fuel ((start + d) % slots.length) ft evs
          = some (res, evs') ∧ PlanRes keyOf slots key code start d ft res := by
  intro fuel
  induction fuel with
  | zero => intro d ft evs hd hf; omega
  | succ fuel ih =>
    intro d ft evs hd hf
    have hadv : ∀ evs ft', ¬ Stop keyOf key code (slots.getD ((start + d) % slots.length) .empty) →
        (∀ f, ft = some f → ft' = some f) →
        (ft = none →
          (ft' = none ∧ IsLive (slots.getD ((start + d) % slots.length) .empty)) ∨
          (ft' = some ((start + d) % slots.length) ∧
            slots.getD ((start + d) % slots.length) .empty = .tomb)) →
        ∃ res evs', (if nextIndex slots.length ((start + d) % slots.length) = start
            then some (ft'.getD (nextIndex slots.length ((start + d) % slots.length)), evs)
            else planInsert keyOf slots key code start fuel
              (nextIndex slots.length ((start + d) % slots.length)) ft' evs) = some (res, evs') ∧
          PlanRes keyOf slots key code start d ft res := by
      intro evs ft' hns hsome hnone
      rw [nextIndex_idx hs hd]
      by_cases hj : (start + (d + 1)) % slots.length = start
      · rw [if_pos hj, hj]
        exact ⟨_, _, rfl, PlanRes.last hs hns hsome hnone ((idx_succ_eq_start hs hd).1 hj)⟩
      · rw [if_neg hj]
        have hd1 : d + 1 < slots.length := by
          have := mt (idx_succ_eq_start hs hd).2 hj; omega
        obtain ⟨res, evs', h1, h2⟩ := ih (d + 1) ft' evs hd1 (by omega)
        exact ⟨res, evs', h1, h2.step hns hsome hnone⟩
    unfold planInsert
    cases hsl : slots.getD ((start + d) % slots.length) .empty with
    | empty =>
      refine ⟨_, _, rfl, Or.inr ⟨d, Nat.le_refl _, by omega, fun _ => hsl, fun e' h1 h2 => by omega,
        ?_, ?_⟩⟩
      · intro f hft; rw [hft]; rfl
      · intro hft
        exact ⟨d, Nat.le_refl _, Nat.le_refl _, by rw [hft]; rfl, fun e' h1 h2 => by omega,
          fun h => by omega⟩
    | tomb =>
      simp only []
      refine hadv evs _ (by rw [hsl]; exact not_stop_tomb) ?_ ?_
      · intro f hft; rw [hft]; rfl
      · intro hft; right; rw [hft]; exact ⟨rfl, hsl⟩
    | live c r =>
      simp only []
      have hl : ft = none → (ft = none ∧ IsLive (Slot.live c r)) ∨
          (ft = some ((start + d) % slots.length) ∧ Slot.live c r = .tomb) :=
        fun h => Or.inl ⟨h, c, r, rfl⟩
      by_cases hc : c = code
      · rw [if_pos hc]
        by_cases hk : keyOf r = key
        · rw [if_pos hk]
          exact ⟨_, _, rfl, Or.inl ⟨d, Nat.le_refl _, hd, rfl,
            by rw [hsl]; exact ⟨r, by rw [hc], hk⟩, fun e' h1 h2 => by omega⟩⟩
        · rw [if_neg hk]
          exact hadv _ ft (by rw [hsl]; exact not_stop_live_key hk) (fun f h => h) (by rw [hsl]; exact hl)
      · rw [if_neg hc]
        exact hadv evs ft (by rw [hsl]; exact not_stop_live_code hc) (fun f h => h) (by rw [hsl]; exact hl)

/-! ## callback events -/

theorem findEntry_events (keyOf : Nat → Nat) (slots : List Slot) (key code start : Nat) (P : Ev → Prop)
    (hP : ∀ i c r, slots.getD i .empty = .live c r → P (.key r) ∧ P (.eq (keyOf r) key)) :
    ∀ fuel i evs res evs', findEntry keyOf slots key code start fuel i evs = some (res, evs') →
      (∀ e ∈ evs, P e) → ∀ e ∈ evs', P e := by
  intro fuel
  induction fuel with
  | zero => intro i evs res evs' h; simp [findEntry] at h
  | succ fuel ih =>
    intro i evs res evs' h hevs
    have hadv : ∀ evs, (∀ e ∈ evs, P e) →
        (if nextIndex slots.length i = start then some (slots.length, evs)
          else findEntry keyOf slots key code start fuel (nextIndex slots.length i) evs)
          = some (res, evs') → ∀ e ∈ evs', P e := by
      intro evs hevs h
      split at h
      · cases h; exact hevs
      · exact ih _ _ _ _ h hevs
    unfold findEntry at h
    cases hsl : slots.getD i .empty with
    | empty => rw [hsl] at h; cases h; exact hevs
    | tomb => rw [hsl] at h; exact hadv evs hevs h
    | live c r =>
      rw [hsl] at h
      simp only [] at h
      have hevs2 : ∀ e ∈ evs ++ [Ev.key r, Ev.eq (keyOf r) key], P e := by
        intro e he
        rcases List.mem_append.1 he with he | he
        · exact hevs e he
        · have := hP i c r hsl
          simp at he
          rcases he with rfl | rfl
          · exact this.1
          · exact this.2
      split at h
      · split at h
        · cases h; exact hevs2
        · exact hadv _ hevs2 h
      · exact hadv evs hevs h

theorem planInsert_events (keyOf : Nat → Nat) (slots : List Slot) (key code start : Nat) (P : Ev → Prop)
    (hP : ∀ i c r, slots.getD i .empty = .live c r → P (.key r) ∧ P (.eq (keyOf r) key)) :
    ∀ fuel i ft evs res evs', planInsert keyOf slots key code start fuel i ft evs = some (res, evs') →
      (∀ e ∈ evs, P e) → ∀ e ∈ evs', P e := by
  intro fuel
  induction fuel with
  | zero => intro i ft evs res evs' h; simp [planInsert] at h
  | succ fuel ih =>
    intro i ft evs res evs' h hevs
    have hadv : ∀ evs ft', (∀ e ∈ evs, P e) →
        (if nextIndex slots.length i = start then some (ft'.getD (nextIndex slots.length i), evs)
          else planInsert keyOf slots key code start fuel (nextIndex slots.length i) ft' evs)
          = some (res, evs') → ∀ e ∈ evs', P e := by
      intro evs ft' hevs h
      split at h
      · cases h; exact hevs
      · exact ih _ _ _ _ _ h hevs
    unfold planInsert at h
    cases hsl : slots.getD i .empty with
    | empty => rw [hsl] at h; cases h; exact hevs
    | tomb => rw [hsl] at h; exact hadv evs _ hevs h
    | live c r =>
      rw [hsl] at h
      simp only [] at h
      have hevs2 : ∀ e ∈ evs ++ [Ev.key r, Ev.eq (keyOf r) key], P e := by
        intro e he
        rcases List.mem_append.1 he with he | he
        · exact hevs e he
        · have := hP i c r hsl
          simp at he
          rcases he with rfl | rfl
          · exact this.1
          · exact this.2
      split at h
      · split at h
        · cases h; exact hevs2
        · exact hadv _ _ hevs2 h
      · exact hadv evs _ hevs h

/-- record `r` is stored in some slot -/
def SlotHas (slots : List Slot) (r : Nat) : Prop := ∃ i c, slots.getD i .empty = .live c r

theorem SlotHas.of_set {slots : List Slot} {i c r r' : Nat}
    (h : SlotHas (slots.set i (.live c r)) r') : r' = r ∨ SlotHas slots r' := by
  obtain ⟨j, c', h⟩ := h
  rcases getD_set_cases (l := slots) (i := i) (j := j) (x := .live c r) with h' | ⟨_, _, h'⟩
  · rw [h'] at h; exact Or.inr ⟨j, c', h⟩
  · rw [h'] at h; cases h; exact Or.inl rfl

theorem rehashInto_events (keyOf : Nat → Nat) (P : Ev → Prop) (Q : Nat → Prop)
    (hk : ∀ r, Q r → P (.key r)) (he : ∀ r s, Q r → Q s → P (.eq (keyOf r) (keyOf s))) :
    ∀ old fresh evs, (∀ r, SlotHas fresh r → Q r) → (∀ c r, Slot.live c r ∈ old → Q r) →
      (∀ e ∈ evs, P e) → ∀ e ∈ (rehashInto keyOf old fresh evs).2, P e := by
  intro old
  induction old with
  | nil => intro fresh evs _ _ hevs; simpa [rehashInto] using hevs
  | cons a rest ih =>
    intro fresh evs hf ho hevs
    have hrest : ∀ c r, Slot.live c r ∈ rest → Q r := fun c r h => ho c r (List.mem_cons_of_mem _ h)
    cases a with
    | empty => simpa [rehashInto] using ih fresh evs hf hrest hevs
    | tomb => simpa [rehashInto] using ih fresh evs hf hrest hevs
    | live c r =>
      have hq : Q r := ho c r List.mem_cons_self
      have hevs1 : ∀ e ∈ evs ++ [Ev.key r], P e := by
        intro e h
        rcases List.mem_append.1 h with h | h
        · exact hevs e h
        · simp at h; subst h; exact hk r hq
      unfold rehashInto
      simp only []
      split
      · rename_i i evs2 hfe
        apply ih
        · intro r' h
          rcases h.of_set with rfl | h
          · exact hq
          · exact hf r' h
        · exact hrest
        · refine findEntry_events keyOf fresh (keyOf r) c _ P ?_ _ _ _ _ _ hfe hevs1
          intro j c' r' hj
          have := hf r' ⟨j, c', hj⟩
          exact ⟨hk r' this, he r' r this hq⟩
      · exact ih fresh _ hf hrest hevs1

/-! ## live records of a slot list -/

def recOf : Slot → Option Nat
  | .live _ r => some r
  | .empty => none
  | .tomb => none

def liveList (slots : List Slot) : List Nat := slots.filterMap recOf

theorem iterate_eq (t : Table) : iterate t = liveList t.slots := by
  unfold iterate liveList
  congr 1
  funext s
  cases s <;> rfl

theorem recOf_eq_some {s : Slot} {r : Nat} : recOf s = some r ↔ ∃ c, s = .live c r := by
  cases s <;> simp [recOf]

theorem recOf_eq_none {s : Slot} : recOf s = none ↔ ¬ IsLive s := by
  cases s <;> simp [recOf, IsLive]

theorem mem_iff_getD {l : List Slot} {c r : Nat} :
    Slot.live c r ∈ l ↔ ∃ i, l.getD i .empty = .live c r := by
  rw [List.mem_iff_getElem?]
  exact exists_congr fun i => getD_live_iff

theorem mem_liveList {l : List Slot} {r : Nat} : r ∈ liveList l ↔ SlotHas l r := by
  unfold liveList SlotHas
  rw [List.mem_filterMap]
  constructor
  · rintro ⟨s, hs, h⟩
    obtain ⟨c, rfl⟩ := recOf_eq_some.1 h
    obtain ⟨i, hi⟩ := mem_iff_getD.1 hs
    exact ⟨i, c, hi⟩
  · rintro ⟨i, c, h⟩
    exact ⟨_, mem_iff_getD.2 ⟨i, h⟩, rfl⟩

theorem liveList_length_set (l : List Slot) (i : Nat) (x : Slot) (hi : i < l.length) :
    (liveList (l.set i x)).length + (recOf (l.getD i .empty)).toList.length
      = (liveList l).length + (recOf x).toList.length := by
  induction l generalizing i with
  | nil => simp at hi
  | cons a l ih =>
    cases i with
    | zero =>
      simp only [List.set_cons_zero, liveList, List.getD_cons_zero, List.filterMap_cons]
      cases recOf x <;> cases recOf a <;> simp <;> omega
    | succ i =>
      have := ih i (by simpa using hi)
      simp only [List.set_cons_succ, liveList, List.getD_cons_succ, List.filterMap_cons] at this ⊢
      cases recOf a <;> simp at this ⊢ <;> omega

theorem liveList_length_set_live {l : List Slot} {i c r : Nat} (hi : i < l.length)
    (h : ¬ IsLive (l.getD i .empty)) :
    (liveList (l.set i (.live c r))).length = (liveList l).length + 1 := by
  have := liveList_length_set l i (.live c r) hi
  rw [recOf_eq_none.2 h] at this
  simpa [recOf] using this

theorem liveList_length_set_tomb {l : List Slot} {i c r : Nat}
    (h : l.getD i .empty = .live c r) :
    (liveList (l.set i .tomb)).length + 1 = (liveList l).length := by
  have hi : i < l.length := lt_of_getD_ne_empty (by rw [h]; simp)
  have := liveList_length_set l i .tomb hi
  rw [h] at this
  simpa [recOf] using this

theorem liveList_length_of_all_live {l : List Slot}
    (h : ∀ j, j < l.length → IsLive (l.getD j .empty)) : (liveList l).length = l.length := by
  induction l with
  | nil => rfl
  | cons a l ih =>
    have h0 := h 0 (by simp)
    obtain ⟨c, r, h0⟩ := h0
    simp only [List.getD_cons_zero] at h0
    subst h0
    have := ih (fun j hj => by simpa using h (j + 1) (by simpa using hj))
    simp [liveList, recOf] at this ⊢
    exact this

theorem liveList_replicate_empty (n : Nat) : liveList (List.replicate n Slot.empty) = [] := by
  simp [liveList, recOf]

theorem getD_replicate_empty (n i : Nat) : (List.replicate n Slot.empty).getD i .empty = .empty := by
  rw [List.getD_eq_getElem?_getD, List.getElem?_replicate]
  split <;> rfl

theorem nodup_liveList {l : List Slot}
    (h : ∀ i j c d r, l.getD i .empty = .live c r → l.getD j .empty = .live d r → i = j) :
    (liveList l).Nodup := by
  induction l with
  | nil => simp [liveList]
  | cons a l ih =>
    have ih' := ih (fun i j c d r hi hj => by
      have := h (i + 1) (j + 1) c d r (by simpa using hi) (by simpa using hj)
      omega)
    cases a with
    | empty =>
      have : liveList (Slot.empty :: l) = liveList l := by simp [liveList, List.filterMap_cons, recOf]
      rw [this]; exact ih'
    | tomb =>
      have : liveList (Slot.tomb :: l) = liveList l := by simp [liveList, List.filterMap_cons, recOf]
      rw [this]; exact ih'
    | live c r =>
      have : liveList (Slot.live c r :: l) = r :: liveList l := by simp [liveList, recOf]
      rw [this, List.nodup_cons]
      refine ⟨?_, ih'⟩
      intro hm
      obtain ⟨j, d, hj⟩ := mem_liveList.1 hm
      have := h 0 (j + 1) c d r (by simp) (by simpa using hj)
      omega

/-! ## the slot-level invariant -/

structure SInv (keyOf codeOf : Nat → Nat) (slots : List Slot) : Prop where
  codes : ∀ i c r, slots.getD i .empty = .live c r → c = codeOf (keyOf r)
  distinct : ∀ i j c d r s, slots.getD i .empty = .live c r → slots.getD j .empty = .live d s →
    keyOf r = keyOf s → i = j
  reach : ∀ i c r, slots.getD i .empty = .live c r →
    ∀ e, e < (i + slots.length - fold c slots.length) % slots.length →
      slots.getD ((fold c slots.length + e) % slots.length) .empty ≠ .empty

theorem getD_set_live_ne_empty {l : List Slot} {i j c r : Nat}
    (h : l.getD j .empty ≠ .empty) : (l.set i (.live c r)).getD j .empty ≠ .empty := by
  rcases getD_set_cases (l := l) (i := i) (j := j) (x := .live c r) with h' | ⟨_, _, h'⟩
  · rw [h']; exact h
  · rw [h']; simp

theorem getD_set_tomb_ne_empty {l : List Slot} {i j : Nat}
    (h : l.getD j .empty ≠ .empty) : (l.set i .tomb).getD j .empty ≠ .empty := by
  rcases getD_set_cases (l := l) (i := i) (j := j) (x := .tomb) with h' | ⟨_, _, h'⟩
  · rw [h']; exact h
  · rw [h']; simp

/-- Storing a record with a fresh key at a slot whose probe path is free of empty slots. -/
theorem SInv.set_live {keyOf codeOf : Nat → Nat} {slots : List Slot} (h : SInv keyOf codeOf slots)
    {i c r : Nat} (hcode : c = codeOf (keyOf r))
    (hnew : ∀ j c' r', slots.getD j .empty = .live c' r' → keyOf r' ≠ keyOf r)
    (hpath : ∀ e, e < (i + slots.length - fold c slots.length) % slots.length →
      slots.getD ((fold c slots.length + e) % slots.length) .empty ≠ .empty) :
    SInv keyOf codeOf (slots.set i (.live c r)) := by
  refine ⟨?_, ?_, ?_⟩
  · intro j c' r' hj
    rcases getD_set_cases (l := slots) (i := i) (j := j) (x := .live c r) with h' | ⟨_, _, h'⟩
    · rw [h'] at hj; exact h.codes j c' r' hj
    · rw [h'] at hj; cases hj; exact hcode
  · intro j k c' d' r' s' hj hk hkey
    rcases getD_set_cases (l := slots) (i := i) (j := j) (x := .live c r) with h1 | ⟨e1, _, h1⟩ <;>
    rcases getD_set_cases (l := slots) (i := i) (j := k) (x := .live c r) with h2 | ⟨e2, _, h2⟩
    · rw [h1] at hj; rw [h2] at hk; exact h.distinct j k c' d' r' s' hj hk hkey
    · rw [h1] at hj; rw [h2] at hk; cases hk
      exact absurd hkey (hnew j c' r' hj)
    · rw [h1] at hj; rw [h2] at hk; cases hj
      exact absurd hkey.symm (hnew k d' s' hk)
    · rw [e1, e2]
  · intro j c' r' hj e he
    rw [List.length_set] at he ⊢
    apply getD_set_live_ne_empty
    rcases getD_set_cases (l := slots) (i := i) (j := j) (x := .live c r) with h' | ⟨e1, _, h'⟩
    · rw [h'] at hj; exact h.reach j c' r' hj e he
    · rw [h'] at hj; cases hj; subst e1; exact hpath e he

theorem SInv.set_tomb {keyOf codeOf : Nat → Nat} {slots : List Slot} (h : SInv keyOf codeOf slots)
    (i : Nat) : SInv keyOf codeOf (slots.set i .tomb) := by
  have key : ∀ j c r, (slots.set i .tomb).getD j .empty = .live c r →
      slots.getD j .empty = .live c r := by
    intro j c r hj
    rcases getD_set_cases (l := slots) (i := i) (j := j) (x := .tomb) with h' | ⟨_, _, h'⟩
    · rw [← h']; exact hj
    · rw [h'] at hj; cases hj
  refine ⟨?_, ?_, ?_⟩
  · intro j c r hj; exact h.codes j c r (key j c r hj)
  · intro j k c d r s hj hk; exact h.distinct j k c d r s (key j c r hj) (key k d s hk)
  · intro j c r hj e he
    rw [List.length_set] at he ⊢
    exact getD_set_tomb_ne_empty (h.reach j c r (key j c r hj) e he)

theorem SInv.replicate (keyOf codeOf : Nat → Nat) (n : Nat) :
    SInv keyOf codeOf (List.replicate n Slot.empty) := by
  have key : ∀ i c r, (List.replicate n Slot.empty).getD i .empty ≠ .live c r := by
    intro i c r; rw [getD_replicate_empty]; simp
  exact ⟨fun i c r h => absurd h (key i c r), fun i j c d r s h => absurd h (key i c r),
    fun i c r h => absurd h (key i c r)⟩

/-- In a table satisfying the invariant, the slot that holds `key` is the first stopping position
on the probe path of `key`. -/
theorem SInv.first_stop {keyOf codeOf : Nat → Nat} {slots : List Slot} (h : SInv keyOf codeOf slots)
    {i code r key : Nat} (hi : slots.getD i .empty = .live code r) (hk : keyOf r = key) :
    (i + slots.length - fold code slots.length) % slots.length < slots.length ∧
    (fold code slots.length + (i + slots.length - fold code slots.length) % slots.length) % slots.length = i ∧
    ∀ e', e' < (i + slots.length - fold code slots.length) % slots.length →
      ¬ Stop keyOf key code (slots.getD ((fold code slots.length + e') % slots.length) .empty) := by
  have hil : i < slots.length := lt_of_getD_ne_empty (by rw [hi]; simp)
  have hs : fold code slots.length < slots.length := fold_lt (by omega)
  refine ⟨dist_lt hs, idx_dist hs hil, ?_⟩
  intro e' he'
  rintro (hemp | ⟨r', hm, hk'⟩)
  · exact h.reach i code r hi e' he' hemp
  · have := h.distinct _ _ _ _ _ _ hm hi (by rw [hk', hk])
    have h2 : e' = (i + slots.length - fold code slots.length) % slots.length := by
      apply idx_inj hs (by have := dist_lt (n := slots.length) (i := i) hs; omega) (dist_lt hs)
      rw [this, idx_dist hs hil]
    omega

/-- `findEntry` finds the slot that holds the key. -/
theorem SInv.findEntry_found {keyOf codeOf : Nat → Nat} {slots : List Slot} (h : SInv keyOf codeOf slots)
    {i code r key : Nat} (hi : slots.getD i .empty = .live code r) (hk : keyOf r = key) (evs : List Ev) :
    ∃ evs', findEntry keyOf slots key code (fold code slots.length) slots.length
      (fold code slots.length) evs = some (i, evs') := by
  have hil : i < slots.length := lt_of_getD_ne_empty (by rw [hi]; simp)
  have hs : fold code slots.length < slots.length := fold_lt (by omega)
  obtain ⟨hlt, hidx, hbef⟩ := h.first_stop hi hk
  obtain ⟨res, evs', hfe, hres⟩ := findEntry_spec keyOf slots key code _ hs slots.length 0 evs
    (by omega) (by omega)
  rw [Nat.add_zero, Nat.mod_eq_of_lt hs] at hfe
  refine ⟨evs', ?_⟩
  rw [hfe]
  rcases hres with ⟨e, _, he, hre, hst, hb⟩ | ⟨_, hb⟩
  · have : e = (i + slots.length - fold code slots.length) % slots.length := by
      rcases Nat.lt_trichotomy e ((i + slots.length - fold code slots.length) % slots.length) with hlt' | heq | hgt
      · exact absurd (hre ▸ hst) (hbef e hlt')
      · exact heq
      · exfalso
        apply hb _ (Nat.zero_le _) hgt
        rw [hidx, hi]; exact Or.inr ⟨r, rfl, hk⟩
    rw [hre, this, hidx]
  · exfalso
    apply hb _ (Nat.zero_le _) hlt
    rw [hidx, hi]; exact Or.inr ⟨r, rfl, hk⟩

/-- `planInsert` finds the slot that holds the key. -/
theorem SInv.planInsert_found {keyOf codeOf : Nat → Nat} {slots : List Slot} (h : SInv keyOf codeOf slots)
    {i code r key : Nat} (hi : slots.getD i .empty = .live code r) (hk : keyOf r = key) (evs : List Ev) :
    ∃ evs', planInsert keyOf slots key code (fold code slots.length) slots.length
      (fold code slots.length) none evs = some (i, evs') := by
  have hil : i < slots.length := lt_of_getD_ne_empty (by rw [hi]; simp)
  have hs : fold code slots.length < slots.length := fold_lt (by omega)
  obtain ⟨hlt, hidx, hbef⟩ := h.first_stop hi hk
  obtain ⟨res, evs', hfe, hres⟩ := planInsert_spec keyOf slots key code _ hs slots.length 0 none evs
    (by omega) (by omega)
  rw [Nat.add_zero, Nat.mod_eq_of_lt hs] at hfe
  refine ⟨evs', ?_⟩
  rw [hfe]
  have hstop : Stop keyOf key code (slots.getD ((fold code slots.length +
      (i + slots.length - fold code slots.length) % slots.length) % slots.length) .empty) := by
    rw [hidx, hi]; exact Or.inr ⟨r, rfl, hk⟩
  rcases hres with ⟨e, _, he, hre, hst, hb⟩ | ⟨e, _, he, hemp, hb, _, _⟩
  · have : e = (i + slots.length - fold code slots.length) % slots.length := by
      rcases Nat.lt_trichotomy e ((i + slots.length - fold code slots.length) % slots.length) with hlt' | heq | hgt
      · exact absurd (hre ▸ Or.inr hst) (hbef e hlt')
      · exact heq
      · exact absurd hstop (hb _ (Nat.zero_le _) hgt)
    rw [hre, this, hidx]
  · exfalso
    rcases Nat.lt_trichotomy e ((i + slots.length - fold code slots.length) % slots.length) with hlt' | heq | hgt
    · exact hbef e hlt' (Or.inl (hemp (by omega)))
    · have := hemp (by omega)
      rw [heq, hidx, hi] at this; cases this
    · exact hb _ (Nat.zero_le _) hgt hstop

/-! ## `find`, `insert`: unfolding lemmas -/

theorem ProbeRes.match_of_live {keyOf slots key code start d res}
    (h : ProbeRes keyOf slots key code start d res) (hl : IsLive (slots.getD res .empty)) :
    Match keyOf key code (slots.getD res .empty) := by
  obtain ⟨c, r, hl⟩ := hl
  rcases h with ⟨e, _, _, _, hst, _⟩ | ⟨hres, _⟩
  · rcases hst with hst | hst
    · rw [hl] at hst; cases hst
    · exact hst
  · exfalso
    have : res < slots.length := lt_of_getD_ne_empty (by rw [hl]; simp)
    omega

theorem find_fst (keyOf : Nat → Nat) (t : Table) (key code i : Nat) :
    (find keyOf t key code).1 = some i ↔
      ∃ evs', findEntry keyOf t.slots key code (fold code t.n) t.n (fold code t.n) [Ev.hash key]
        = some (i, evs') ∧ IsLive (t.slots.getD i .empty) := by
  cases hfe : findEntry keyOf t.slots key code (fold code t.n) t.n (fold code t.n) [Ev.hash key] with
  | none => simp [find, hfe]
  | some p =>
    obtain ⟨res, evs'⟩ := p
    simp only [find, hfe]
    by_cases hlt : res < t.n
    · rw [if_pos hlt]
      cases hsl : t.slots.getD res .empty with
      | empty =>
        simp only []
        constructor
        · intro h; cases h
        · rintro ⟨evs2, h, c, r, hl⟩; cases h; rw [hsl] at hl; cases hl
      | tomb =>
        simp only []
        constructor
        · intro h; cases h
        · rintro ⟨evs2, h, c, r, hl⟩; cases h; rw [hsl] at hl; cases hl
      | live c r =>
        simp only []
        constructor
        · intro h; cases h; exact ⟨evs', rfl, c, r, hsl⟩
        · rintro ⟨evs2, h, _⟩; cases h; rfl
    · rw [if_neg hlt]
      constructor
      · intro h; cases h
      · rintro ⟨evs2, h, c, r, hl⟩
        cases h
        exact absurd (lt_of_getD_ne_empty (l := t.slots) (by rw [hl]; simp)) hlt

theorem find_events (keyOf : Nat → Nat) (t : Table) (key code : Nat) (P : Ev → Prop)
    (hhash : P (.hash key))
    (hP : ∀ i c r, t.slots.getD i .empty = .live c r → P (.key r) ∧ P (.eq (keyOf r) key)) :
    ∀ e ∈ (find keyOf t key code).2, P e := by
  have h0 : ∀ e ∈ [Ev.hash key], P e := by intro e he; simp at he; subst he; exact hhash
  cases hfe : findEntry keyOf t.slots key code (fold code t.n) t.n (fold code t.n) [Ev.hash key] with
  | none => simp only [find, hfe]; exact h0
  | some p =>
    obtain ⟨res, evs'⟩ := p
    have := findEntry_events keyOf t.slots key code _ P hP _ _ _ _ _ hfe h0
    simp only [find, hfe]
    split
    · split <;> exact this
    · exact this

theorem insertAt_events (keyOf : Nat → Nat) (t : Table) (index code rec : Nat) (ok : Bool)
    (evs : List Ev) (P : Ev → Prop) (Q : Nat → Prop)
    (hk : ∀ r, Q r → P (.key r)) (he : ∀ r s, Q r → Q s → P (.eq (keyOf r) (keyOf s)))
    (hQ : ∀ r, SlotHas t.slots r → Q r) (hrec : Q rec) (hevs : ∀ e ∈ evs, P e) :
    ∀ e ∈ (insertAt keyOf t index code rec ok evs).2.2, P e := by
  unfold insertAt
  have hre : ∀ e ∈ (rehash keyOf { t with slots := t.slots.set index (.live code rec) } (t.n * 2) evs).2,
      P e := by
    unfold rehash
    simp only []
    apply rehashInto_events keyOf P Q hk he _ _ _ _ _ hevs
    · rintro r ⟨i, c, h⟩; rw [getD_replicate_empty] at h; cases h
    · intro c r h
      obtain ⟨i, hi⟩ := mem_iff_getD.1 h
      rcases SlotHas.of_set ⟨i, c, hi⟩ with rfl | h
      · exact hrec
      · exact hQ r h
  split
  · exact hevs
  · simp only []
    split
    · split
      · exact hre
      · exact hevs
    · exact hevs

theorem insert_events (keyOf : Nat → Nat) (t : Table) (rec code : Nat) (ok : Bool)
    (P : Ev → Prop) (Q : Nat → Prop)
    (hhash : P (.hash (keyOf rec)))
    (hk : ∀ r, Q r → P (.key r)) (he : ∀ r s, Q r → Q s → P (.eq (keyOf r) (keyOf s)))
    (hQ : ∀ r, SlotHas t.slots r → Q r) (hrec : Q rec) :
    ∀ e ∈ (insert keyOf t rec code ok).2.2, P e := by
  have h0 : ∀ e ∈ [Ev.key rec, Ev.hash (keyOf rec)], P e := by
    intro e h
    simp at h
    rcases h with rfl | rfl
    · exact hk rec hrec
    · exact hhash
  unfold insert
  simp only []
  split
  · rename_i i evs hpl
    apply insertAt_events keyOf t i code rec ok evs P Q hk he hQ hrec
    refine planInsert_events keyOf t.slots (keyOf rec) code _ P ?_ _ _ _ _ _ _ hpl h0
    intro j c r hj
    have := hQ r ⟨j, c, hj⟩
    exact ⟨hk r this, he r rec this hrec⟩
  · exact h0

/-! ## `rehashInto` -/

def KeysPairwise (keyOf : Nat → Nat) (old : List Slot) : Prop :=
  old.Pairwise (fun a b => ∀ c r d s, a = .live c r → b = .live d s → keyOf r ≠ keyOf s)

theorem liveList_cons_live (c r : Nat) (l : List Slot) :
    liveList (Slot.live c r :: l) = r :: liveList l := by simp [liveList, recOf]

theorem liveList_cons_empty (l : List Slot) : liveList (Slot.empty :: l) = liveList l := by
  simp [liveList, List.filterMap_cons, recOf]

theorem liveList_cons_tomb (l : List Slot) : liveList (Slot.tomb :: l) = liveList l := by
  simp [liveList, List.filterMap_cons, recOf]

theorem rehashInto_spec (keyOf codeOf : Nat → Nat) (n : Nat) :
    ∀ old fresh evs, fresh.length = n → SInv keyOf codeOf fresh →
      (∀ j, fresh.getD j .empty ≠ .tomb) →
      (liveList fresh).length + (liveList old).length < n →
      (∀ c r, Slot.live c r ∈ old → c = codeOf (keyOf r)) →
      KeysPairwise keyOf old →
      (∀ c r, Slot.live c r ∈ old → ∀ j c' r', fresh.getD j .empty = .live c' r' → keyOf r' ≠ keyOf r) →
      (rehashInto keyOf old fresh evs).1.length = n ∧
      SInv keyOf codeOf (rehashInto keyOf old fresh evs).1 ∧
      (liveList (rehashInto keyOf old fresh evs).1).length
        = (liveList fresh).length + (liveList old).length ∧
      (∀ c r, (∃ j, (rehashInto keyOf old fresh evs).1.getD j .empty = .live c r) ↔
        (∃ j, fresh.getD j .empty = .live c r) ∨ Slot.live c r ∈ old) := by
  intro old
  induction old with
  | nil =>
    intro fresh evs hlen hinv _ _ _ _ _
    refine ⟨hlen, hinv, rfl, ?_⟩
    intro c r; simp [rehashInto]
  | cons a rest ih =>
    intro fresh evs hlen hinv hnt hcount hcodes hpw hkf
    have hpw' : KeysPairwise keyOf rest := (List.pairwise_cons.1 hpw).2
    have hcodes' : ∀ c r, Slot.live c r ∈ rest → c = codeOf (keyOf r) :=
      fun c r h => hcodes c r (List.mem_cons_of_mem _ h)
    have hkf' : ∀ c r, Slot.live c r ∈ rest → ∀ j c' r', fresh.getD j .empty = .live c' r' →
        keyOf r' ≠ keyOf r := fun c r h => hkf c r (List.mem_cons_of_mem _ h)
    cases a with
    | empty =>
      have heq : rehashInto keyOf (Slot.empty :: rest) fresh evs = rehashInto keyOf rest fresh evs := rfl
      rw [heq]
      rw [liveList_cons_empty] at hcount ⊢
      obtain ⟨h1, h2, h3, h4⟩ := ih fresh evs hlen hinv hnt hcount hcodes' hpw' hkf'
      refine ⟨h1, h2, h3, ?_⟩
      intro c r; rw [h4 c r]; simp
    | tomb =>
      have heq : rehashInto keyOf (Slot.tomb :: rest) fresh evs = rehashInto keyOf rest fresh evs := rfl
      rw [heq]
      rw [liveList_cons_tomb] at hcount ⊢
      obtain ⟨h1, h2, h3, h4⟩ := ih fresh evs hlen hinv hnt hcount hcodes' hpw' hkf'
      refine ⟨h1, h2, h3, ?_⟩
      intro c r; rw [h4 c r]; simp
    | live c r =>
      rw [liveList_cons_live, List.length_cons] at hcount
      have hn : 0 < fresh.length := by omega
      have hs : fold c fresh.length < fresh.length := fold_lt hn
      obtain ⟨res, evs', hfe, hres⟩ := findEntry_spec keyOf fresh (keyOf r) c _ hs fresh.length 0
        (evs ++ [Ev.key r]) hn (Nat.le_refl _)
      rw [Nat.add_zero, Nat.mod_eq_of_lt hs] at hfe
      have heq : rehashInto keyOf (Slot.live c r :: rest) fresh evs
          = rehashInto keyOf rest (fresh.set res (.live c r)) evs' := by
        simp only [rehashInto, hfe]
      rw [heq]
      have hnomatch : ∀ j, ¬ Match keyOf (keyOf r) c (fresh.getD j .empty) := by
        rintro j ⟨r', hj, hk⟩
        exact hkf c r List.mem_cons_self j c r' hj hk
      rcases hres with ⟨e, _, he, hre, hst, hb⟩ | ⟨_, hb⟩
      · -- the probe stopped at an empty slot
        have hemp : fresh.getD res .empty = .empty := by
          rcases hst with h | h
          · exact h
          · exact absurd h (hnomatch res)
        have hresn : res < fresh.length := by rw [hre]; exact idx_lt hs
        have hinv' : SInv keyOf codeOf (fresh.set res (.live c r)) := by
          refine hinv.set_live (hcodes c r List.mem_cons_self)
            (fun j c' r' hj => hkf c r List.mem_cons_self j c' r' hj) ?_
          intro e' he'
          rw [hre, dist_idx hs he] at he'
          intro hemp'
          exact hb e' (Nat.zero_le _) he' (Or.inl hemp')
        have hnt' : ∀ j, (fresh.set res (.live c r)).getD j .empty ≠ .tomb := by
          intro j
          rcases getD_set_cases (l := fresh) (i := res) (j := j) (x := .live c r) with h' | ⟨_, _, h'⟩
          · rw [h']; exact hnt j
          · rw [h']; simp
        have hcnt : (liveList (fresh.set res (.live c r))).length = (liveList fresh).length + 1 :=
          liveList_length_set_live hresn (by rw [hemp]; rintro ⟨_, _, h⟩; cases h)
        have hkf2 : ∀ c2 r2, Slot.live c2 r2 ∈ rest → ∀ j c' r',
            (fresh.set res (.live c r)).getD j .empty = .live c' r' → keyOf r' ≠ keyOf r2 := by
          intro c2 r2 hm j c' r' hj
          rcases getD_set_cases (l := fresh) (i := res) (j := j) (x := .live c r) with h' | ⟨_, _, h'⟩
          · rw [h'] at hj; exact hkf' c2 r2 hm j c' r' hj
          · rw [h'] at hj; cases hj
            exact (List.pairwise_cons.1 hpw).1 _ hm c r c2 r2 rfl rfl
        obtain ⟨h1, h2, h3, h4⟩ := ih (fresh.set res (.live c r)) evs'
          (by rw [List.length_set]; exact hlen) hinv' hnt' (by rw [hcnt]; omega) hcodes' hpw' hkf2
        refine ⟨h1, h2, ?_, ?_⟩
        · rw [h3, hcnt, liveList_cons_live, List.length_cons]; omega
        · intro c2 r2
          rw [h4 c2 r2, List.mem_cons]
          constructor
          · rintro (⟨j, hj⟩ | hm)
            · rcases getD_set_cases (l := fresh) (i := res) (j := j) (x := .live c r) with h' | ⟨_, _, h'⟩
              · rw [h'] at hj; exact Or.inl ⟨j, hj⟩
              · rw [h'] at hj; exact Or.inr (Or.inl hj.symm)
            · exact Or.inr (Or.inr hm)
          · rintro (⟨j, hj⟩ | hm | hm)
            · refine Or.inl ⟨j, ?_⟩
              rw [getD_set_ne]
              · exact hj
              · rintro rfl; rw [hemp] at hj; cases hj
            · refine Or.inl ⟨res, ?_⟩
              rw [getD_set_self hresn, hm]
            · exact Or.inr hm
      · -- a full cycle without an empty slot contradicts the count
        exfalso
        have hall : ∀ j, j < fresh.length → IsLive (fresh.getD j .empty) := by
          intro j hj
          have := hb ((j + fresh.length - fold c fresh.length) % fresh.length) (Nat.zero_le _) (dist_lt hs)
          rw [idx_dist hs hj] at this
          cases hsl : fresh.getD j .empty with
          | empty => exact absurd (Or.inl hsl) this
          | tomb => exact absurd hsl (hnt j)
          | live c' r' => exact ⟨c', r', rfl⟩
        have := liveList_length_of_all_live hall
        omega

theorem SInv.keysPairwise {keyOf codeOf : Nat → Nat} {slots : List Slot} (h : SInv keyOf codeOf slots) :
    KeysPairwise keyOf slots := by
  unfold KeysPairwise
  rw [List.pairwise_iff_getElem]
  intro i j hi hj hij c r d s hci hdj hk
  have h1 : slots.getD i .empty = .live c r :=
    getD_eq_of_getElem? (by rw [List.getElem?_eq_getElem hi, hci])
  have h2 : slots.getD j .empty = .live d s :=
    getD_eq_of_getElem? (by rw [List.getElem?_eq_getElem hj, hdj])
  have := h.distinct i j c d r s h1 h2 hk
  omega

/-- Rehashing a table that satisfies the invariant into a fresh, sufficiently large table. -/
theorem rehash_spec (keyOf codeOf : Nat → Nat) (slots : List Slot) (n : Nat) (evs : List Ev)
    (h : SInv keyOf codeOf slots) (hcount : (liveList slots).length < n) :
    (rehashInto keyOf slots (List.replicate n .empty) evs).1.length = n ∧
    SInv keyOf codeOf (rehashInto keyOf slots (List.replicate n .empty) evs).1 ∧
    (liveList (rehashInto keyOf slots (List.replicate n .empty) evs).1).length = (liveList slots).length ∧
    (∀ r, SlotHas (rehashInto keyOf slots (List.replicate n .empty) evs).1 r ↔ SlotHas slots r) := by
  have hne : ∀ j c r, (List.replicate n Slot.empty).getD j .empty ≠ .live c r := by
    intro j c r; rw [getD_replicate_empty]; simp
  obtain ⟨h1, h2, h3, h4⟩ := rehashInto_spec keyOf codeOf n slots (List.replicate n .empty) evs
    List.length_replicate (SInv.replicate _ _ _)
    (by intro j; rw [getD_replicate_empty]; simp)
    (by rw [liveList_replicate_empty]; simpa using hcount)
    (by intro c r hm; obtain ⟨i, hi⟩ := mem_iff_getD.1 hm; exact h.codes i c r hi)
    h.keysPairwise
    (by intro c r _ j c' r' hj; exact absurd hj (hne j c' r'))
  refine ⟨h1, h2, by rw [h3, liveList_replicate_empty]; simp, ?_⟩
  intro r
  unfold SlotHas
  constructor
  · rintro ⟨i, c, hi⟩
    rcases (h4 c r).1 ⟨i, hi⟩ with ⟨j, hj⟩ | hm
    · exact absurd hj (hne j c r)
    · obtain ⟨j, hj⟩ := mem_iff_getD.1 hm; exact ⟨j, c, hj⟩
  · rintro ⟨i, c, hi⟩
    obtain ⟨j, hj⟩ := (h4 c r).2 (Or.inr (mem_iff_getD.2 ⟨i, hi⟩))
    exact ⟨j, c, hj⟩

/-! ## unfolding `insertAt`, `erase`, `remove` -/

theorem insertAt_not_live (keyOf : Nat → Nat) (t : Table) (index code rec : Nat) (ok : Bool)
    (evs : List Ev) (h : ¬ IsLive (t.slots.getD index .empty)) :
    insertAt keyOf t index code rec ok evs =
      if t.count + 1 ≥ t.n / hashLoadDiv1 + t.n / hashLoadDiv2 then
        if ok then
          ({ slots := (rehashInto keyOf (t.slots.set index (.live code rec))
                (List.replicate (t.n * 2) .empty) evs).1, count := t.count + 1 }, .success,
            (rehashInto keyOf (t.slots.set index (.live code rec))
                (List.replicate (t.n * 2) .empty) evs).2)
        else (t, .noMem, evs)
      else ({ slots := t.slots.set index (.live code rec), count := t.count + 1 }, .success, evs) := by
  unfold insertAt rehash
  cases hsl : t.slots.getD index .empty with
  | empty => rfl
  | tomb => rfl
  | live c r => exact absurd ⟨c, r, hsl⟩ h

theorem erase_eq (keyOf : Nat → Nat) (t : Table) (i : Nat) (ok : Bool) :
    erase keyOf t i ok =
      if t.count - 1 < t.n / hashShrinkDiv ∧ t.n > hashMinEntries then
        if ok then
          ({ slots := (rehashInto keyOf (t.slots.set i .tomb) (List.replicate (t.n / 2) .empty) []).1,
             count := t.count - 1 }, .success, recordAt t i,
            (rehashInto keyOf (t.slots.set i .tomb) (List.replicate (t.n / 2) .empty) []).2)
        else ({ slots := t.slots.set i .tomb, count := t.count - 1 }, .noMem, recordAt t i, [])
      else ({ slots := t.slots.set i .tomb, count := t.count - 1 }, .success, recordAt t i, []) := by
  unfold erase rehash
  rfl

theorem remove_of_find_some (keyOf : Nat → Nat) (t : Table) (key code i : Nat) (ok : Bool)
    (h : (find keyOf t key code).1 = some i) :
    (remove keyOf t key code ok).1 = (erase keyOf t i ok).1 ∧
    (remove keyOf t key code ok).2.1 = (erase keyOf t i ok).2.1 ∧
    (remove keyOf t key code ok).2.2.1 = (erase keyOf t i ok).2.2.1 := by
  unfold remove
  generalize find keyOf t key code = p at h
  obtain ⟨o, evs⟩ := p
  simp only at h
  subst h
  exact ⟨rfl, rfl, rfl⟩

theorem pow2_half {n : Nat} (hp : ∃ k, n = 2 ^ k) (h : 4 < n) : 4 ≤ n / 2 ∧ ∃ k, n / 2 = 2 ^ k := by
  obtain ⟨k, rfl⟩ := hp
  match k, h with
  | 0, h => simp at h
  | 1, h => simp at h
  | 2, h => simp at h
  | k + 3, _ =>
    have h1 : 2 ^ (k + 3) / 2 = 2 ^ (k + 2) := by
      rw [Nat.pow_succ 2 (k + 2)]; exact Nat.mul_div_cancel _ (by decide)
    rw [h1]
    refine ⟨?_, k + 2, rfl⟩
    have : 0 < 2 ^ k := Nat.two_pow_pos k
    rw [Nat.pow_add]; omega

/-! ## inserting a new key / removing a present key at slot level -/

/-- For a key that is not in the table, `planInsert` returns a non-live slot whose probe path
contains no empty slot. -/
theorem planInsert_new (keyOf : Nat → Nat) (slots : List Slot) (key code : Nat)
    (hn : 0 < slots.length) (hnomatch : ∀ j, ¬ Match keyOf key code (slots.getD j .empty))
    (hload : (liveList slots).length < slots.length) (evs : List Ev) :
    ∃ res evs', planInsert keyOf slots key code (fold code slots.length) slots.length
        (fold code slots.length) none evs = some (res, evs') ∧
      res < slots.length ∧ ¬ IsLive (slots.getD res .empty) ∧
      ∀ e, e < (res + slots.length - fold code slots.length) % slots.length →
        slots.getD ((fold code slots.length + e) % slots.length) .empty ≠ .empty := by
  have hs : fold code slots.length < slots.length := fold_lt hn
  obtain ⟨res, evs', hpl, hres⟩ := planInsert_spec keyOf slots key code _ hs slots.length 0 none evs
    hn (Nat.le_refl _)
  rw [Nat.add_zero, Nat.mod_eq_of_lt hs] at hpl
  refine ⟨res, evs', hpl, ?_⟩
  rcases hres with ⟨e, _, _, _, hm, _⟩ | ⟨e, _, he, hemp, hb, _, hnone⟩
  · exact absurd hm (hnomatch res)
  · obtain ⟨p, _, hpe, hresp, hlv, htb⟩ := hnone rfl
    have hp : p < slots.length := by
      apply Classical.byContradiction
      intro hp
      have hpn : p = slots.length := by omega
      have hall : ∀ j, j < slots.length → IsLive (slots.getD j .empty) := by
        intro j hj
        have := hlv ((j + slots.length - fold code slots.length) % slots.length) (Nat.zero_le _)
          (by rw [hpn]; exact dist_lt hs)
        rwa [idx_dist hs hj] at this
      have := liveList_length_of_all_live hall
      omega
    refine ⟨by rw [hresp]; exact idx_lt hs, ?_, ?_⟩
    · rintro ⟨c, r, hl⟩
      rw [hresp] at hl
      by_cases hlt : p < e
      · rw [htb hlt] at hl; cases hl
      · have : p = e := by omega
        subst this
        rw [hemp hp] at hl; cases hl
    · intro e' he'
      rw [hresp, dist_idx hs hp] at he'
      obtain ⟨c, r, hl⟩ := hlv e' (Nat.zero_le _) he'
      rw [hl]; simp

theorem slotHas_set_live {slots : List Slot} {i c r r' : Nat} (hi : i < slots.length)
    (hnl : ¬ IsLive (slots.getD i .empty)) :
    SlotHas (slots.set i (.live c r)) r' ↔ SlotHas slots r' ∨ r' = r := by
  constructor
  · intro h
    rcases h.of_set with h | h
    · exact Or.inr h
    · exact Or.inl h
  · rintro (⟨j, c', hj⟩ | rfl)
    · refine ⟨j, c', ?_⟩
      rw [getD_set_ne]
      · exact hj
      · rintro rfl; exact hnl ⟨c', r', hj⟩
    · exact ⟨i, c, getD_set_self hi⟩

theorem slotHas_set_tomb {keyOf codeOf : Nat → Nat} {slots : List Slot} (h : SInv keyOf codeOf slots)
    {i c r0 r : Nat} (hi : slots.getD i .empty = .live c r0) :
    SlotHas (slots.set i .tomb) r ↔ SlotHas slots r ∧ r ≠ r0 := by
  have hil : i < slots.length := lt_of_getD_ne_empty (by rw [hi]; simp)
  constructor
  · rintro ⟨j, c', hj⟩
    by_cases hji : i = j
    · subst hji; rw [getD_set_self hil] at hj; cases hj
    · rw [getD_set_ne hji] at hj
      refine ⟨⟨j, c', hj⟩, ?_⟩
      rintro rfl
      exact hji (h.distinct i j c c' r r hi hj rfl)
  · rintro ⟨⟨j, c', hj⟩, hne⟩
    refine ⟨j, c', ?_⟩
    rw [getD_set_ne]
    · exact hj
    · rintro rfl; rw [hi] at hj; cases hj; exact hne rfl

end Zix.Hash
