import ZixModel.Model.PathBuf
import ZixModel.Lemmas.PathDecomp
import ZixModel.Lemmas.PathRelative
/-! Helper lemmas for `Properties/C12Buf.lean`: sizes of the results of the path builders against the
sizes they request (`Model/PathBuf.lean`). -/
namespace Zix.PathBuf.Aux
open Zix.Path Zix.PathBuf

/-! ## join -/

theorem abs_imp_rootDir (as : List Nat) (h : isAbsolute as = true) : (rootDirRange as).isEmpty = false := by
  have h1 := Rel.rootDir_nonempty as
  rw [Rel.at'_eq_headD'] at h1
  unfold isAbsolute at h
  rw [h] at h1
  simpa using h1

theorem join_fits (a b : Option (List Nat)) : (join a b).length + 1 = joinAlloc a b := by
  cases a with
  | none => simp [join, joinAlloc]
  | some as =>
    cases as with
    | nil => simp [join, joinAlloc]
    | cons c t =>
      simp only [join, joinAlloc]
      by_cases hb : (rootDirRange (b.getD [])).isEmpty = true
      · by_cases hf : (filenameRange (c :: t)).isEmpty = true
        · by_cases habs : isAbsolute (c :: t) = true
          · have := abs_imp_rootDir _ habs
            simp [hb, hf, this]; omega
          · simp [hb, hf, habs]; omega
        · simp [hb, hf]; omega
      · simp [hb]

/-! ## scanning loops: bounds -/

theorem skipSeps_bounds (s : List Nat) : ∀ fuel i, i ≤ s.length →
    i ≤ skipSeps s fuel i ∧ skipSeps s fuel i ≤ s.length := by
  intro fuel
  induction fuel with
  | zero => intro i h; simp [skipSeps, h]
  | succ fuel ih =>
    intro i h
    unfold skipSeps
    split
    · rename_i hs
      have := Dec.lt_of_isSep_at' hs
      have := ih (i + 1) (by omega)
      omega
    · omega

theorem skipName_bounds (s : List Nat) : ∀ fuel i, i ≤ s.length →
    i ≤ skipName s fuel i ∧ skipName s fuel i ≤ s.length := by
  intro fuel
  induction fuel with
  | zero => intro i h; simp [skipName, h]
  | succ fuel ih =>
    intro i h
    unfold skipName
    split
    · rename_i hs
      have : i < s.length := by
        apply Classical.byContradiction; intro hn
        exact hs.1 (Dec.at'_ge (by omega))
      have := ih (i + 1) (by omega)
      omega
    · omega

theorem skipName_stop (s : List Nat) : ∀ fuel i, s.length - i < fuel →
    ¬ (at' s (skipName s fuel i) ≠ 0 ∧ (!isSep (at' s (skipName s fuel i))) = true) := by
  intro fuel
  induction fuel with
  | zero => intro i h; omega
  | succ fuel ih =>
    intro i h
    unfold skipName
    split
    · rename_i hs
      have : i < s.length := by
        apply Classical.byContradiction; intro hn
        exact hs.1 (Dec.at'_ge (by omega))
      exact ih (i + 1) (by omega)
    · assumption

/-! ## lexically_normal -/

/-- Input bytes an element accounts for: its text and (when one follows) one separator. -/
def cost : List (List Nat × Bool) → Nat
  | [] => 0
  | el :: es => el.1.length + (if el.2 then 1 else 0) + cost es

theorem normStep_length (rl : Nat) (hr : Bool) (out : List Nat) (el : List Nat × Bool) :
    (normStep rl hr out el).length ≤ out.length + el.1.length + (if el.2 then 1 else 0) := by
  obtain ⟨name, f⟩ := el
  unfold normStep
  simp only
  split
  · omega
  · split
    · rename_i h; subst h
      split
      · simp [List.length_take]; omega
      · split
        · cases f <;> simp
        · simp; omega
    · cases f <;> simp <;> omega

theorem foldl_normStep_length (rl : Nat) (hr : Bool) : ∀ (es : List (List Nat × Bool)) (out : List Nat),
    (es.foldl (normStep rl hr) out).length ≤ out.length + cost es := by
  intro es
  induction es with
  | nil => intro out; simp [cost]
  | cons el es ih =>
    intro out
    rw [List.foldl_cons]
    have h1 := ih (normStep rl hr out el)
    have h2 := normStep_length rl hr out el
    simp only [cost]
    omega

theorem trace_length (rl : Nat) (hr : Bool) (B : Nat) : ∀ (es : List (List Nat × Bool)) (out : List Nat)
    (tr : List (List Nat)), out.length + cost es ≤ B → (∀ x ∈ tr, x.length ≤ B) →
    ∀ x ∈ (es.foldl (fun (acc : List Nat × List (List Nat)) el =>
        let o := normStep rl hr acc.1 el
        (o, acc.2 ++ [o])) (out, tr)).2, x.length ≤ B := by
  intro es
  induction es with
  | nil => intro out tr _ h; simpa using h
  | cons el es ih =>
    intro out tr hB htr
    rw [List.foldl_cons]
    have h2 := normStep_length rl hr out el
    simp only [cost] at hB
    apply ih
    · simp only; omega
    · intro x hx
      simp only [List.mem_append, List.mem_singleton] at hx
      rcases hx with hx | hx
      · exact htr x hx
      · subst hx; omega

theorem cost_relElems (s : List Nat) (h0 : 0 ∉ s) : ∀ fuel i, cost (relElems s fuel i) ≤ s.length - i := by
  intro fuel
  induction fuel with
  | zero => intro i; simp [relElems, cost]
  | succ fuel ih =>
    intro i
    unfold relElems
    split
    · simp [cost]
    · rename_i hi
      simp only [cost]
      have hb := skipName_bounds s (s.length + 1) i (by omega)
      have hsb := skipSeps_bounds s (s.length + 1) (skipName s (s.length + 1) i) hb.2
      have hih := ih (skipSeps s (s.length + 1) (skipName s (s.length + 1) i))
      have hlen : ((s.drop i).take (skipName s (s.length + 1) i - i)).length ≤ skipName s (s.length + 1) i - i := by
        simp [List.length_take]; omega
      by_cases he : skipName s (s.length + 1) i < s.length
      · -- the scan stopped at a separator: skipSeps advances
        have hstep : skipName s (s.length + 1) i < skipSeps s (s.length + 1) (skipName s (s.length + 1) i) := by
          have hstop := skipName_stop s (s.length + 1) i (by omega)
          have hne : at' s (skipName s (s.length + 1) i) ≠ 0 := by
            intro h; exact h0 (h ▸ Dec.at'_mem he)
          have hsep : isSep (at' s (skipName s (s.length + 1) i)) = true := by
            cases hq : isSep (at' s (skipName s (s.length + 1) i)) with
            | true => rfl
            | false => exact absurd ⟨hne, by simp [hq]⟩ hstop
          rw [skipSeps, if_pos hsep]
          have := skipSeps_bounds s s.length (skipName s (s.length + 1) i + 1) (by omega)
          omega
        simp only [he, decide_true, if_true]
        omega
      · simp only [he, decide_false]
        simp
        omega

theorem root_cost (s : List Nat) (h0 : 0 ∉ s) :
    ((slice s (rootPathRange s)).map (fun c => if isSep c then sep else c)).length +
      cost (relElems s (s.length + 1) (rootPathRange s).2) ≤ s.length := by
  have hc := cost_relElems s h0 (s.length + 1) (rootPathRange s).2
  rw [Dec.rootPathRange_eq] at hc ⊢
  have hk := Dec.leadingSeps_le s
  rw [List.length_map, Dec.slice_length s _ _ hk]
  simp only at hc ⊢
  omega

theorem normal_trace_le (s : List Nat) (h0 : 0 ∉ s) : ∀ o ∈ normalTrace s, o.length ≤ s.length := by
  unfold normalTrace
  simp only
  apply trace_length
  · exact root_cost s h0
  · intro x hx
    simp only [List.mem_singleton] at hx
    subst hx
    have := root_cost s h0
    omega

theorem finish_le (out : List Nat) (C : Prop) [Decidable C] (n : Nat) (hn : 0 < n) (h : out.length ≤ n) :
    (if (if C then out.dropLast else out) = [] then [dot] else (if C then out.dropLast else out)).length ≤ n := by
  by_cases hC : C
  · simp only [hC, if_true]
    split
    · simp; omega
    · simp only [List.length_dropLast]; omega
  · simp only [hC, if_false]
    split
    · simp; omega
    · exact h

theorem normalize_le (s : List Nat) (h0 : 0 ∉ s) : (normalize s).length ≤ s.length := by
  unfold normalize
  split
  · simp
  · rename_i hs
    have hlen : 0 < s.length := List.length_pos_iff.mpr hs
    simp only
    have hf := foldl_normStep_length
      ((slice s (rootPathRange s)).map (fun c => if isSep c then sep else c)).length
      (decide (((slice s (rootPathRange s)).map (fun c => if isSep c then sep else c)).length > 0 ∧
        ((slice s (rootPathRange s)).map (fun c => if isSep c then sep else c)).getLastD 0 = sep))
      (relElems s (s.length + 1) (rootPathRange s).2)
      ((slice s (rootPathRange s)).map (fun c => if isSep c then sep else c))
    have hr := root_cost s h0
    exact finish_le _ _ _ hlen (by omega)

/-! ## lexically_relative -/

/-- The iterator's range lies inside the string. -/
def WF (s : List Nat) (it : PathIter) : Prop := it.range.1 ≤ s.length ∧ it.range.2 ≤ s.length

theorem fileStep_wf (s : List Nat) (b : Nat) (hb : b ≤ s.length) :
    WF s (if at' s b = 0 then ⟨(b, b), .end_⟩
      else ⟨(skipSeps s (s.length + 1) b, skipName s (s.length + 1) (skipSeps s (s.length + 1) b)), .fileName⟩) := by
  have hs := skipSeps_bounds s (s.length + 1) b hb
  have h3 := skipName_bounds s (s.length + 1) _ hs.2
  by_cases h : at' s b = 0
  · simp only [h, if_true, WF]; omega
  · simp only [h, if_false, WF]; omega

theorem next_wf (s : List Nat) (it : PathIter) (h : WF s it) : WF s (next s it) := by
  obtain ⟨⟨a, b⟩, st⟩ := it
  have hb : b ≤ s.length := h.2
  have hs := skipSeps_bounds s (s.length + 1) b hb
  cases st
  · -- rootName
    by_cases hc : isSep (at' s b) = true
    · have := Dec.lt_of_isSep_at' hc
      simp only [next, hc, and_self, if_true, WF]; omega
    · simp only [next, hc, true_or, if_true]
      exact fileStep_wf s _ hs.2
  · simp only [next, reduceCtorEq, false_and, if_false, or_true, if_true]
    exact fileStep_wf s _ hs.2
  · simp only [next, reduceCtorEq, false_and, if_false, or_self, if_true]
    exact fileStep_wf s _ hb
  · simp only [next, reduceCtorEq, false_and, if_false, or_self]
    exact h

theorem begin_wf (s : List Nat) : WF s (begin s) := by
  apply next_wf
  simp [WF]

theorem skipCommon_wf (p b : List Nat) : ∀ fuel x y, WF p x → WF p (skipCommon p b fuel x y).1 := by
  intro fuel
  induction fuel with
  | zero => intro x y h; exact h
  | succ fuel ih =>
    intro x y h
    unfold skipCommon
    split
    · exact ih _ _ (next_wf p x h)
    · exact h

theorem upsText_length (up : Nat) : (Rel.upsText up).length = 3 * up - 1 := by
  cases up with
  | zero => rfl
  | succ n =>
    rw [Rel.upsText_succ]
    have : ∀ n, (Rel.V n).length = 3 * n := by
      intro n; induction n with
      | zero => rfl
      | succ n ih => simp [Rel.V, ih]; omega
    simp [this]; omega

theorem upsText_eq_nil (up : Nat) : Rel.upsText up = [] ↔ up = 0 := by
  cases up with
  | zero => simp [Rel.upsText_zero]
  | succ n => rw [Rel.upsText_succ]; simp

def allocAsm (p : List Nat) (x : PathIter) (up : Nat) : Option Nat :=
  if up = 0 ∧ (x.state = .end_ ∨ x.range.isEmpty) then some 2
  else some (up * 3 + p.length - x.range.1 + 1)

def modelAsm (p : List Nat) (x : PathIter) (up : Nat) : Option (List Nat) :=
  if up = 0 ∧ (x.state = .end_ ∨ x.range.isEmpty) then some [dot]
  else Rel.assembleOpt p x up

theorem allocAsm_ne_none (p : List Nat) (x : PathIter) (up : Nat) : allocAsm p x up ≠ none := by
  unfold allocAsm; split <;> simp

theorem modelAsm_ne_none (p : List Nat) (x : PathIter) (up : Nat) : modelAsm p x up ≠ none := by
  unfold modelAsm Rel.assembleOpt
  split
  · simp
  · split
    · simp
    · split <;> simp

theorem asm_fits (p : List Nat) (x : PathIter) (up : Nat) (hx : x.range.1 ≤ p.length) (r : List Nat)
    (h : modelAsm p x up = some r) : ∃ n, allocAsm p x up = some n ∧ r.length + 1 ≤ n := by
  unfold allocAsm
  unfold modelAsm Rel.assembleOpt at h
  split
  · rename_i h3; rw [if_pos h3] at h
    cases h; exact ⟨2, rfl, by simp⟩
  · rename_i h3; rw [if_neg h3] at h
    refine ⟨_, rfl, ?_⟩
    have hl := upsText_length up
    have hn := upsText_eq_nil up
    split at h
    · cases h
      split
      · simp only [List.length_drop]; omega
      · rename_i hne
        have : up ≠ 0 := fun hh => hne (hn.mpr hh)
        simp only [List.length_append, List.length_drop, List.length_singleton, hl]; omega
    · split at h
      · cases h
        simp only [List.length_append, List.length_singleton, hl]; omega
      · cases h
        omega

def allocTail (p b : List Nat) (x y : PathIter) : Option Nat :=
  if (x.state = .end_ ∧ y.state = .end_) ∨ (x.range.isEmpty ∧ y.state = .end_) then some 2
  else
    let c := countBase b (b.length + 2) y (0, 0)
    if c.1 > c.2 then none
    else allocAsm p x (if x.state = .rootDir then 0 else c.2 - c.1)

theorem relativeAlloc_eq (p b : List Nat) : relativeAlloc p b =
    if isAbsolute p ≠ isAbsolute b ∨ ((!(!(rootDirRange p).isEmpty)) ∧ (!(rootDirRange b).isEmpty)) then none
    else allocTail p b (skipCommon p b (p.length + b.length + 4) (begin p) (begin b)).1
      (skipCommon p b (p.length + b.length + 4) (begin p) (begin b)).2 := rfl

theorem modelTail_eq (p b : List Nat) (x y : PathIter) : Rel.modelTail p b x y =
    if (x.state = .end_ ∧ y.state = .end_) ∨ (x.range.isEmpty ∧ y.state = .end_) then some [dot]
    else
      if (countBase b (b.length + 2) y (0, 0)).1 > (countBase b (b.length + 2) y (0, 0)).2 then none
      else modelAsm p x (if x.state = .rootDir then 0
        else (countBase b (b.length + 2) y (0, 0)).2 - (countBase b (b.length + 2) y (0, 0)).1) := rfl

theorem tail_none_iff (p b : List Nat) (x y : PathIter) :
    allocTail p b x y = none ↔ Rel.modelTail p b x y = none := by
  rw [modelTail_eq]
  unfold allocTail
  simp only
  split
  · simp
  · split
    · simp
    · simp [allocAsm_ne_none, modelAsm_ne_none]

theorem tail_fits (p b : List Nat) (x y : PathIter) (hx : x.range.1 ≤ p.length) (r : List Nat)
    (h : Rel.modelTail p b x y = some r) : ∃ n, allocTail p b x y = some n ∧ r.length + 1 ≤ n := by
  rw [modelTail_eq] at h
  unfold allocTail
  simp only
  split
  · rename_i h1; rw [if_pos h1] at h
    cases h; exact ⟨2, rfl, by simp⟩
  · rename_i h1; rw [if_neg h1] at h
    split
    · rename_i h2; rw [if_pos h2] at h; cases h
    · rename_i h2; rw [if_neg h2] at h
      exact asm_fits p x _ hx r h

theorem relative_alloc_none_iff (p b : List Nat) : relativeAlloc p b = none ↔ relative p b = none := by
  rw [relativeAlloc_eq, Rel.relative_eq]
  split
  · simp
  · exact tail_none_iff _ _ _ _

theorem relative_fits (p b r : List Nat) (h : relative p b = some r) :
    ∃ n, relativeAlloc p b = some n ∧ r.length + 1 ≤ n := by
  rw [Rel.relative_eq] at h
  rw [relativeAlloc_eq]
  split
  · rename_i h1; rw [if_pos h1] at h; cases h
  · rename_i h1; rw [if_neg h1] at h
    exact tail_fits p b _ _ (skipCommon_wf p b _ _ _ (begin_wf p)).1 r h

end Zix.PathBuf.Aux
