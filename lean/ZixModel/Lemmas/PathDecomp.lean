import ZixModel.Model.Path
import ZixModel.Spec.Cpp17Path
/-! Helper lemmas for C10: the C scans of `Model/Path.lean` characterised by what they return, a
normal form `replicate k '/' ++ body ++ replicate j '/' ++ lastName` of every string, and the
C++17 split of that normal form. -/
namespace Zix.Path.Dec
open Zix.Path Zix.PathSpec

/-! ## bytes and indexing -/

theorem isSep_iff (c : Nat) : isSep c = true ↔ c = sep := by
  unfold isSep; simp

theorem isSep_sep : isSep sep = true := by decide
theorem isSep_zero : isSep 0 = false := by decide

def sepFree (l : List Nat) : Prop := ∀ c ∈ l, isSep c = false

theorem sepFree_nil : sepFree [] := by intro c h; cases h

theorem sepFree_cons {c : Nat} {l : List Nat} : sepFree (c :: l) ↔ isSep c = false ∧ sepFree l := by
  unfold sepFree; simp

theorem sepFree_append {a b : List Nat} : sepFree (a ++ b) ↔ sepFree a ∧ sepFree b := by
  unfold sepFree; simp only [List.mem_append]
  constructor
  · intro h; exact ⟨fun c hc => h c (Or.inl hc), fun c hc => h c (Or.inr hc)⟩
  · rintro ⟨h1, h2⟩ c (hc | hc)
    · exact h1 c hc
    · exact h2 c hc

theorem at'_lt {s : List Nat} {i : Nat} (h : i < s.length) : at' s i = s[i] := by
  unfold at'; simp [List.getD_eq_getElem?_getD, h]

theorem at'_ge {s : List Nat} {i : Nat} (h : s.length ≤ i) : at' s i = 0 := by
  unfold at'; simp [List.getD_eq_getElem?_getD, h]

theorem at'_append_left {x y : List Nat} {i : Nat} (h : i < x.length) : at' (x ++ y) i = at' x i := by
  unfold at'; simp [List.getD_eq_getElem?_getD, List.getElem?_append_left h]

theorem at'_append_right {x y : List Nat} {i : Nat} (h : x.length ≤ i) :
    at' (x ++ y) i = at' y (i - x.length) := by
  unfold at'; simp [List.getD_eq_getElem?_getD, List.getElem?_append_right h]

theorem at'_replicate {n c i : Nat} (h : i < n) : at' (List.replicate n c) i = c := by
  unfold at'; simp [List.getD_eq_getElem?_getD, h]

theorem at'_drop (s : List Nat) (n i : Nat) : at' (s.drop n) i = at' s (n + i) := by
  unfold at'; simp [List.getD_eq_getElem?_getD]

theorem at'_mem {s : List Nat} {i : Nat} (h : i < s.length) : at' s i ∈ s := by
  rw [at'_lt h]; exact List.getElem_mem h

theorem at'_eq_zero_iff {s : List Nat} (h0 : 0 ∉ s) (i : Nat) : at' s i = 0 ↔ s.length ≤ i := by
  constructor
  · intro h
    apply Nat.le_of_not_lt
    intro hlt
    exact h0 (h ▸ at'_mem hlt)
  · exact at'_ge

theorem isSep_at'_sepFree {l : List Nat} (h : sepFree l) (i : Nat) : isSep (at' l i) = false := by
  by_cases hi : i < l.length
  · exact h _ (at'_mem hi)
  · rw [at'_ge (Nat.le_of_not_lt hi)]; exact isSep_zero

theorem lt_of_isSep_at' {s : List Nat} {i : Nat} (h : isSep (at' s i) = true) : i < s.length := by
  apply Nat.lt_of_not_le
  intro hle
  rw [at'_ge hle] at h
  exact absurd h (by decide)

/-! ## slices -/

theorem slice_length (s : List Nat) (a b : Nat) (h : b ≤ s.length) : (slice s (a, b)).length = b - a := by
  unfold slice; simp; omega

theorem slice_append (s : List Nat) (a b c : Nat) (h1 : a ≤ b) (h2 : b ≤ c) :
    slice s (a, c) = slice s (a, b) ++ slice s (b, c) := by
  unfold slice
  simp only
  have e1 : c - a = (b - a) + (c - b) := by omega
  rw [e1, List.take_add, List.drop_drop]
  have e2 : a + (b - a) = b := by omega
  rw [e2]

theorem slice_empty (s : List Nat) (a : Nat) : slice s (a, a) = [] := by
  unfold slice; simp

theorem slice_to_end (s : List Nat) (a : Nat) : slice s (a, s.length) = s.drop a := by
  unfold slice; exact List.take_of_length_le (by simp)

theorem slice_ne_nil_iff (s : List Nat) (a b : Nat) (h : b ≤ s.length) : slice s (a, b) ≠ [] ↔ a < b := by
  rw [← List.length_pos_iff, slice_length s a b h]; omega

/-! ## the scans, by what they return -/

theorem rewindSeps_le (s : List Nat) (p l : Nat) : rewindSeps s p l ≤ l := by
  induction l with
  | zero => simp [rewindSeps]
  | succ l ih => rw [rewindSeps]; split <;> omega

theorem rewindSeps_eq (s : List Nat) (p g l : Nat) (hp : p ≤ g) (hg : g ≤ l)
    (hall : ∀ i, g ≤ i → i < l → isSep (at' s i) = true)
    (hstop : g = p ∨ isSep (at' s (g - 1)) = false) : rewindSeps s p l = g := by
  induction l with
  | zero => simp [rewindSeps]; omega
  | succ l ih =>
    rw [rewindSeps]
    by_cases hgl : g = l + 1
    · subst hgl
      rw [if_neg]
      rintro ⟨h1, h2⟩
      rcases hstop with h | h
      · omega
      · simp at h; rw [h] at h2; exact absurd h2 (by decide)
    · have hgl' : g ≤ l := by omega
      rw [if_pos]
      · exact ih hgl' (fun i h1 h2 => hall i h1 (by omega))
      · exact ⟨by omega, hall l hgl' (by omega)⟩

theorem rewindSeps_ge (s : List Nat) (p l : Nat) (h : p ≤ l) : p ≤ rewindSeps s p l := by
  induction l with
  | zero => simp [rewindSeps]; omega
  | succ l ih =>
    rw [rewindSeps]; split
    · apply ih; omega
    · omega

theorem rewindName_le (s : List Nat) (p l : Nat) : rewindName s p l ≤ l := by
  induction l with
  | zero => simp [rewindName]
  | succ l ih => rw [rewindName]; split <;> omega

theorem rewindName_ge (s : List Nat) (p l : Nat) (h : p ≤ l) : p ≤ rewindName s p l := by
  induction l with
  | zero => simp [rewindName]; omega
  | succ l ih =>
    rw [rewindName]; split
    · apply ih; omega
    · omega

theorem rewindName_eq (s : List Nat) (p g l : Nat) (hp : p ≤ g) (hg : g ≤ l)
    (hall : ∀ i, g < i → i ≤ l → isSep (at' s i) = false)
    (hstop : g = p ∨ isSep (at' s g) = true) : rewindName s p l = g := by
  induction l with
  | zero => simp [rewindName]; omega
  | succ l ih =>
    rw [rewindName]
    by_cases hgl : g = l + 1
    · subst hgl
      rw [if_neg]
      rintro ⟨h1, h2⟩
      rcases hstop with h | h
      · omega
      · rw [h] at h2; exact absurd h2 (by decide)
    · have hgl' : g ≤ l := by omega
      rw [if_pos]
      · exact ih hgl' (fun i h1 h2 => hall i h1 (by omega))
      · refine ⟨by omega, ?_⟩
        rw [hall (l + 1) (by omega) (by omega)]; rfl

theorem dropSeps_le (s : List Nat) (p l : Nat) : dropSeps s p l ≤ l := by
  induction l with
  | zero => simp [dropSeps]
  | succ l ih => rw [dropSeps]; split <;> omega

theorem dropSeps_ge (s : List Nat) (p l : Nat) (h : p ≤ l) : p ≤ dropSeps s p l := by
  induction l with
  | zero => simp [dropSeps]; omega
  | succ l ih =>
    rw [dropSeps]; split
    · apply ih; omega
    · omega

theorem dropSeps_eq (s : List Nat) (p g l : Nat) (hp : p ≤ g) (hg : g ≤ l)
    (hall : ∀ i, g < i → i ≤ l → isSep (at' s i) = true)
    (hstop : g = p ∨ isSep (at' s g) = false) : dropSeps s p l = g := by
  induction l with
  | zero => simp [dropSeps]; omega
  | succ l ih =>
    rw [dropSeps]
    by_cases hgl : g = l + 1
    · subst hgl
      rw [if_neg]
      rintro ⟨h1, h2⟩
      rcases hstop with h | h
      · omega
      · rw [h] at h2; exact absurd h2 (by decide)
    · have hgl' : g ≤ l := by omega
      rw [if_pos]
      · exact ih hgl' (fun i h1 h2 => hall i h1 (by omega))
      · exact ⟨by omega, hall (l + 1) (by omega) (by omega)⟩

theorem rewindToSep_le (s : List Nat) (b f : Nat) : rewindToSep s b f ≤ f := by
  induction f with
  | zero => simp [rewindToSep]
  | succ f ih => rw [rewindToSep]; split <;> omega

theorem rewindToSep_ge (s : List Nat) (b f : Nat) (h : b ≤ f) : b ≤ rewindToSep s b f := by
  induction f with
  | zero => simp [rewindToSep]; omega
  | succ f ih =>
    rw [rewindToSep]; split
    · apply ih; omega
    · omega

theorem rewindToSep_eq (s : List Nat) (b g f : Nat) (hp : b ≤ g) (hg : g ≤ f)
    (hall : ∀ i, g ≤ i → i < f → isSep (at' s i) = false)
    (hstop : g = b ∨ isSep (at' s (g - 1)) = true) : rewindToSep s b f = g := by
  induction f with
  | zero => simp [rewindToSep]; omega
  | succ f ih =>
    rw [rewindToSep]
    by_cases hgl : g = f + 1
    · subst hgl
      rw [if_neg]
      rintro ⟨h1, h2⟩
      rcases hstop with h | h
      · omega
      · simp at h; rw [h] at h2; exact absurd h2 (by decide)
    · have hgl' : g ≤ f := by omega
      rw [if_pos]
      · exact ih hgl' (fun i h1 h2 => hall i h1 (by omega))
      · refine ⟨by omega, ?_⟩
        rw [hall f hgl' (by omega)]; rfl

theorem rewindToDot_le (s : List Nat) (b e : Nat) : rewindToDot s b e ≤ e := by
  induction e with
  | zero => simp [rewindToDot]
  | succ e ih => rw [rewindToDot]; split <;> omega

theorem rewindToDot_ge (s : List Nat) (b e : Nat) (h : b ≤ e) : b ≤ rewindToDot s b e := by
  induction e with
  | zero => simp [rewindToDot]; omega
  | succ e ih =>
    rw [rewindToDot]; split
    · apply ih; omega
    · omega

theorem rewindToDot_eq (s : List Nat) (b g e : Nat) (hp : b ≤ g) (hg : g ≤ e)
    (hall : ∀ i, g < i → i ≤ e → at' s i ≠ dot)
    (hstop : g = b ∨ at' s g = dot) : rewindToDot s b e = g := by
  induction e with
  | zero => simp [rewindToDot]; omega
  | succ e ih =>
    rw [rewindToDot]
    by_cases hgl : g = e + 1
    · subst hgl
      rw [if_neg]
      rintro ⟨h1, h2⟩
      rcases hstop with h | h
      · omega
      · exact h2 h
    · have hgl' : g ≤ e := by omega
      rw [if_pos]
      · exact ih hgl' (fun i h1 h2 => hall i h1 (by omega))
      · exact ⟨by omega, hall (e + 1) (by omega) (by omega)⟩

/-! ## shapes of the ranges -/

theorem leadingSeps_le (s : List Nat) : leadingSeps s ≤ s.length := by
  unfold leadingSeps; exact (List.takeWhile_sublist _).length_le

theorem rootDirRange_eq (s : List Nat) : rootDirRange s = (leadingSeps s - 1, leadingSeps s) := by
  unfold rootDirRange
  simp only
  split
  · next h => rw [h]
  · rfl

theorem rootPathRange_eq (s : List Nat) : rootPathRange s = (leadingSeps s - 1, leadingSeps s) :=
  rootDirRange_eq s

theorem relativeRange_eq (s : List Nat) : relativeRange s = (leadingSeps s, s.length) := by
  unfold relativeRange; rw [rootPathRange_eq]

/-- `l1` of `parentRange`: where the backward scan over the last element stops. -/
def parentL1 (s : List Nat) : Nat :=
  if isSep (at' s (s.length - 1)) then rewindSeps s (leadingSeps s - 1) (s.length - 1)
  else rewindName s (leadingSeps s - 1) (s.length - 1)

theorem parentRange_eq (s : List Nat) (h : s ≠ []) :
    parentRange s =
      if parentL1 s ≤ leadingSeps s then (leadingSeps s - 1, leadingSeps s)
      else (leadingSeps s - 1, dropSeps s (leadingSeps s - 1) (parentL1 s) + 1) := by
  have hlen : ¬ s.length = 0 := by simpa using h
  unfold parentRange
  rw [if_neg hlen]
  simp only [rootPathRange_eq]
  show (if parentL1 s ≤ leadingSeps s then _ else _) = _
  split
  · rfl
  · show (leadingSeps s - 1, leadingSeps s - 1 + dropSeps s (leadingSeps s - 1) (parentL1 s) + 1
      - (leadingSeps s - 1)) = _
    congr 1; omega

theorem parentL1_le (s : List Nat) : parentL1 s ≤ s.length - 1 := by
  unfold parentL1; split
  · exact rewindSeps_le _ _ _
  · exact rewindName_le _ _ _

theorem parentRange_bounds (s : List Nat) :
    (parentRange s).1 ≤ (parentRange s).2 ∧ (parentRange s).2 ≤ s.length := by
  have hk := leadingSeps_le s
  by_cases hs : s = []
  · subst hs; simp [parentRange]
  · rw [parentRange_eq s hs]
    have hlen : s.length ≠ 0 := by simpa using hs
    split
    · simp only; omega
    · next hl1 =>
      have h1 := parentL1_le s
      have h2 := dropSeps_le s (leadingSeps s - 1) (parentL1 s)
      have h3 := dropSeps_ge s (leadingSeps s - 1) (parentL1 s) (by omega)
      simp only; omega

theorem filenameRange_cases (s : List Nat) :
    filenameRange s = (0, 0) ∨
    (s ≠ [] ∧ leadingSeps s < s.length ∧ isSep (at' s (s.length - 1)) = false ∧
      filenameRange s = (rewindToSep s (leadingSeps s) (s.length - 1), s.length)) := by
  have hk := leadingSeps_le s
  unfold filenameRange
  split
  · exact Or.inl rfl
  · next hlen =>
    simp only [rootPathRange_eq]
    split
    · exact Or.inl rfl
    · next h =>
      right
      refine ⟨?_, ?_, ?_, rfl⟩
      · intro h'; subst h'; simp at hlen
      · omega
      · simpa using (not_or.mp h).2

theorem filenameRange_bounds (s : List Nat) :
    filenameRange s = (0, 0) ∨
    ∃ g, filenameRange s = (g, s.length) ∧ leadingSeps s ≤ g ∧ g < s.length := by
  rcases filenameRange_cases s with h | ⟨_, h1, _, h2⟩
  · exact Or.inl h
  · right
    refine ⟨_, h2, rewindToSep_ge _ _ _ (by omega), ?_⟩
    have := rewindToSep_le s (leadingSeps s) (s.length - 1)
    omega

theorem isEmpty_iff (r : Range) : Range.isEmpty r = true ↔ r.1 = r.2 := by
  unfold Range.isEmpty; simp

/-- stem is the whole filename (with the reason), or it ends at a dot strictly inside the filename. -/
theorem stemRange_cases (s : List Nat) :
    (stemRange s = filenameRange s ∧
      (filenameRange s = (0, 0) ∨ ∃ g, filenameRange s = (g, s.length) ∧ g < s.length ∧
        (slice s (g, s.length) = [dot] ∨ slice s (g, s.length) = [dot, dot] ∨
          rewindToDot s g (s.length - 1) = g))) ∨
    ∃ g, filenameRange s = (g, s.length) ∧ g < s.length ∧
      slice s (g, s.length) ≠ [dot] ∧ slice s (g, s.length) ≠ [dot, dot] ∧
      stemRange s = (g, rewindToDot s g (s.length - 1)) ∧ g < rewindToDot s g (s.length - 1) ∧
      rewindToDot s g (s.length - 1) < s.length := by
  rcases filenameRange_bounds s with h | ⟨g, hg, hk, hlt⟩
  · left
    refine ⟨?_, Or.inl h⟩
    unfold stemRange
    rw [h]; simp [Range.isEmpty]
  · unfold stemRange
    rw [hg]
    simp only
    split
    · next hc =>
      split
      · next he =>
        left
        refine ⟨rfl, Or.inr ⟨g, rfl, hlt, Or.inr (Or.inr ?_)⟩⟩
        have he' : g = rewindToDot s g (s.length - 1) := by simpa [Range.isEmpty] using he
        exact he'.symm
      · next hne =>
        right
        have hne' : g ≠ rewindToDot s g (s.length - 1) := by
          simpa [Range.isEmpty] using hne
        have h1 := rewindToDot_ge s g (s.length - 1) (by omega)
        have h2 := rewindToDot_le s g (s.length - 1)
        exact ⟨g, rfl, hlt, hc.2.1, hc.2.2, rfl, by omega, by omega⟩
    · next hc =>
      left
      refine ⟨by split <;> rfl, Or.inr ⟨g, rfl, hlt, ?_⟩⟩
      have hne : ¬ (Range.isEmpty (g, s.length) = true) := by rw [isEmpty_iff]; simp only; omega
      by_cases h1 : slice s (g, s.length) = [dot]
      · exact Or.inl h1
      · by_cases h2 : slice s (g, s.length) = [dot, dot]
        · exact Or.inr (Or.inl h2)
        · exfalso; apply hc
          exact ⟨by simpa using hne, h1, h2⟩

theorem extensionRange_of_stem_eq (s : List Nat) (h : stemRange s = filenameRange s) :
    (extensionRange s).1 = (extensionRange s).2 ∧ (extensionRange s).2 ≤ s.length := by
  unfold extensionRange
  rw [h]
  simp only
  rcases filenameRange_bounds s with h | ⟨g, hg, hk, hlt⟩
  · rw [h]; simp [Range.isEmpty]
  · rw [hg]; split <;> simp_all [Range.isEmpty]

/-! ## queries -/

theorem not_isEmpty_eq (s : List Nat) (r : Range) (h1 : r.1 ≤ r.2) (h2 : r.2 ≤ s.length) :
    (!Range.isEmpty r) = decide (slice s r ≠ []) := by
  obtain ⟨a, b⟩ := r
  have := slice_ne_nil_iff s a b h2
  simp only at h1
  by_cases hab : a = b
  · subst hab; simp [Range.isEmpty, slice_empty]
  · have : slice s (a, b) ≠ [] := this.mpr (by omega)
    simp [Range.isEmpty, hab, this]

theorem isAbsolute_eq (s : List Nat) : isAbsolute s = decide (s.head? = some sep) := by
  cases s with
  | nil => rfl
  | cons c t =>
    simp only [isAbsolute, at', isSep, List.getD_cons_zero, List.head?_cons, Option.some.injEq]
    by_cases h : c = sep <;> simp [h]

theorem hasRelative_eq (s : List Nat) (h0 : 0 ∉ s) :
    decide (at' s (rootPathRange s).2 ≠ 0) = decide (slice s (relativeRange s) ≠ []) := by
  rw [relativeRange_eq, rootPathRange_eq]
  have h1 := at'_eq_zero_iff h0 (leadingSeps s)
  have h2 := slice_ne_nil_iff s (leadingSeps s) s.length (Nat.le_refl _)
  simp only
  by_cases h : leadingSeps s < s.length
  · have a1 : at' s (leadingSeps s) ≠ 0 := by rw [Ne, h1]; omega
    have a2 := h2.mpr h
    simp [a1, a2]
  · have a1 : at' s (leadingSeps s) = 0 := by rw [h1]; omega
    have a2 : slice s (leadingSeps s, s.length) = [] := by
      apply Classical.byContradiction; intro hc; exact h (h2.mp hc)
    simp [a1, a2]

theorem extensionRange_of_stem (s : List Nat) (g d : Nat) (hst : stemRange s = (g, d)) (h : g < d) :
    extensionRange s = (d, s.length) := by
  unfold extensionRange; rw [hst]
  have : Range.isEmpty (g, d) = false := by simp [Range.isEmpty]; omega
  simp [this]

theorem slice_eq_nil_of_eq (s : List Nat) (r : Range) (h : r.1 = r.2) : slice s r = [] := by
  obtain ⟨a, b⟩ := r; simp only at h; subst h; exact slice_empty s a

/-! ## the C++17 split -/

theorem splitAux_nil (fuel : Nat) (cur : List Nat) : splitAux fuel [] cur = [cur.reverse] := by
  cases fuel <;> simp [splitAux]

theorem splitAux_sepFree (xs : List Nat) : ∀ (fuel : Nat) (cur : List Nat), sepFree xs → xs.length < fuel →
    splitAux fuel xs cur = [cur.reverse ++ xs] := by
  induction xs with
  | nil => intro fuel cur _ _; simp [splitAux_nil]
  | cons c xs ih =>
    intro fuel cur hf hl
    cases fuel with
    | zero => simp at hl
    | succ f =>
      rw [sepFree_cons] at hf
      rw [splitAux, if_neg (by simp [hf.1]), ih f (c :: cur) hf.2 (by simpa using hl)]
      simp

theorem length_dropWhile_le (p : Nat → Bool) (l : List Nat) : (l.dropWhile p).length ≤ l.length :=
  (List.dropWhile_sublist p).length_le

theorem splitAux_fuel : ∀ (n : Nat) (r cur : List Nat) (f1 f2 : Nat), r.length ≤ n → r.length < f1 → r.length < f2 →
    splitAux f1 r cur = splitAux f2 r cur := by
  intro n
  induction n with
  | zero =>
    intro r cur f1 f2 h _ _
    have : r = [] := List.eq_nil_of_length_eq_zero (by omega)
    subst this; simp [splitAux_nil]
  | succ n ih =>
    intro r cur f1 f2 h h1 h2
    cases r with
    | nil => simp [splitAux_nil]
    | cons c rest =>
      cases f1 with
      | zero => simp at h1
      | succ f1 =>
        cases f2 with
        | zero => simp at h2
        | succ f2 =>
          simp only [List.length_cons] at h h1 h2
          rw [splitAux, splitAux]
          have hd := length_dropWhile_le isSep rest
          split
          · rw [ih (rest.dropWhile isSep) [] f1 f2 (by omega) (by omega) (by omega)]
          · exact ih rest (c :: cur) f1 f2 (by omega) (by omega) (by omega)

theorem dropWhile_sepFree {l : List Nat} (h : sepFree l) : l.dropWhile isSep = l := by
  cases l with
  | nil => rfl
  | cons c t => rw [sepFree_cons] at h; simp [h.1]

theorem dropWhile_replicate_sep (m : Nat) (l : List Nat) :
    (List.replicate m sep ++ l).dropWhile isSep = l.dropWhile isSep := by
  induction m with
  | zero => simp
  | succ m ih => rw [List.replicate_succ, List.cons_append, List.dropWhile_cons, if_pos isSep_sep, ih]

theorem takeWhile_replicate_sep (m : Nat) (l : List Nat) :
    (List.replicate m sep ++ l).takeWhile isSep = List.replicate m sep ++ l.takeWhile isSep := by
  induction m with
  | zero => simp
  | succ m ih => rw [List.replicate_succ, List.cons_append, List.takeWhile_cons, if_pos isSep_sep, ih]; rfl

/-- Dropping leading separators of a string that has a non-separator `x`. -/
theorem dropWhile_body (x : Nat) (hx : isSep x = false) (b0 : List Nat) :
    ∃ b1 : List Nat, b1.length ≤ b0.length ∧ ∀ t, (b0 ++ x :: t).dropWhile isSep = b1 ++ x :: t := by
  induction b0 with
  | nil => exact ⟨[], Nat.le_refl _, fun t => by simp [hx]⟩
  | cons c b0 ih =>
    by_cases hc : isSep c = true
    · obtain ⟨b1, h1, h2⟩ := ih
      refine ⟨b1, by simp; omega, fun t => ?_⟩
      rw [List.cons_append, List.dropWhile_cons, if_pos hc, h2]
    · exact ⟨c :: b0, Nat.le_refl _, fun t => by rw [List.cons_append, List.dropWhile_cons, if_neg hc]⟩

theorem splitAux_last0 (x j : Nat) (ln : List Nat) (hx : isSep x = false) (hj : 0 < j) (hln : sepFree ln)
    (cur : List Nat) (fuel : Nat) (hf : 1 + j + ln.length < fuel) :
    splitAux fuel (x :: (List.replicate j sep ++ ln)) cur = splitAux fuel [x] cur ++ [ln] := by
  obtain ⟨j, rfl⟩ : ∃ j', j = j' + 1 := ⟨j - 1, by omega⟩
  obtain ⟨f, rfl⟩ : ∃ f, fuel = f + 2 := ⟨fuel - 2, by omega⟩
  rw [splitAux, if_neg (by simp [hx]), List.replicate_succ, List.cons_append, splitAux, if_pos isSep_sep,
    dropWhile_replicate_sep, dropWhile_sepFree hln, splitAux_sepFree ln f [] hln (by omega),
    splitAux, if_neg (by simp [hx]), splitAux_nil]
  simp

theorem splitAux_last (x j : Nat) (ln : List Nat) (hx : isSep x = false) (hj : 0 < j) (hln : sepFree ln) :
    ∀ (n : Nat) (b0 cur : List Nat) (fuel : Nat), b0.length ≤ n → b0.length + 1 + j + ln.length < fuel →
      splitAux fuel (b0 ++ x :: (List.replicate j sep ++ ln)) cur = splitAux fuel (b0 ++ [x]) cur ++ [ln] := by
  intro n
  induction n with
  | zero =>
    intro b0 cur fuel h hf
    have : b0 = [] := List.eq_nil_of_length_eq_zero (by omega)
    subst this
    exact splitAux_last0 x j ln hx hj hln cur fuel (by simpa using hf)
  | succ n ih =>
    intro b0 cur fuel h hf
    cases b0 with
    | nil => exact splitAux_last0 x j ln hx hj hln cur fuel (by simpa using hf)
    | cons c b0 =>
      simp only [List.length_cons] at h hf
      obtain ⟨f, rfl⟩ : ∃ f, fuel = f + 1 := ⟨fuel - 1, by omega⟩
      rw [List.cons_append, List.cons_append, splitAux, splitAux]
      by_cases hc : isSep c = true
      · rw [if_pos hc, if_pos hc]
        obtain ⟨b1, h1, h2⟩ := dropWhile_body x hx b0
        rw [h2, h2, ih b1 [] f (by omega) (by omega)]
        simp
      · rw [if_neg hc, if_neg hc]
        exact ih b0 (c :: cur) f (by omega) (by omega)

theorem splitNames_sepFree {ln : List Nat} (h : sepFree ln) (hne : ln ≠ []) : splitNames ln = [ln] := by
  unfold splitNames
  rw [if_neg hne, splitAux_sepFree ln _ [] h (by omega)]
  simp

theorem splitNames_last (b0 : List Nat) (x j : Nat) (ln : List Nat) (hx : isSep x = false) (hj : 0 < j)
    (hln : sepFree ln) :
    splitNames (b0 ++ x :: (List.replicate j sep ++ ln)) = splitNames (b0 ++ [x]) ++ [ln] := by
  unfold splitNames
  rw [if_neg (by simp), if_neg (by simp),
    splitAux_last x j ln hx hj hln b0.length b0 [] _ (Nat.le_refl _) (by simp; omega)]
  congr 1
  exact splitAux_fuel (b0 ++ [x]).length _ _ _ _ (Nat.le_refl _) (by simp) (by omega)

/-! ## normal form of a string -/

def headNonSep (r : List Nat) : Prop := ∀ c t, r = c :: t → isSep c = false

theorem string_form (s : List Nat) : ∃ k r, s = List.replicate k sep ++ r ∧ headNonSep r := by
  induction s with
  | nil => exact ⟨0, [], rfl, fun c t h => by cases h⟩
  | cons c s ih =>
    by_cases hc : isSep c = true
    · obtain ⟨k, r, h1, h2⟩ := ih
      refine ⟨k + 1, r, ?_, h2⟩
      rw [(isSep_iff c).mp hc, h1, List.replicate_succ, List.cons_append]
    · refine ⟨0, c :: s, rfl, fun c' t h => ?_⟩
      cases h; simpa using hc

theorem rest_form_aux : ∀ (n : Nat) (r : List Nat), r.length = n → headNonSep r →
    sepFree r ∨ ∃ b0 x j ln, r = b0 ++ x :: (List.replicate j sep ++ ln) ∧ isSep x = false ∧ 0 < j ∧ sepFree ln := by
  intro n
  induction n with
  | zero =>
    intro r h _
    have : r = [] := List.eq_nil_of_length_eq_zero h
    subst this; exact Or.inl sepFree_nil
  | succ n ih =>
    intro r hlen hh
    rcases List.eq_nil_or_concat r with h | ⟨r', c, h⟩
    · subst h; simp at hlen
    · rw [List.concat_eq_append] at h
      subst h
      have hh' : headNonSep r' := by
        intro c' t ht; subst ht; exact hh c' (t ++ [c]) rfl
      have hlen' : r'.length = n := by simpa using hlen
      by_cases hc : isSep c = true
      · have hce := (isSep_iff c).mp hc
        subst hce
        rcases ih r' hlen' hh' with hsf | ⟨b0, x, j, ln, he, hx, hj, hln⟩
        · rcases List.eq_nil_or_concat r' with h | ⟨b0, x, h⟩
          · subst h; exact absurd (hh sep [] rfl) (by decide)
          · rw [List.concat_eq_append] at h
            subst h
            right
            refine ⟨b0, x, 1, [], by simp, ?_, by omega, sepFree_nil⟩
            exact hsf x (by simp)
        · rcases List.eq_nil_or_concat ln with h | ⟨ln0, y, h⟩
          · subst h he
            right
            refine ⟨b0, x, j + 1, [], ?_, hx, by omega, sepFree_nil⟩
            rw [List.replicate_succ']; simp
          · rw [List.concat_eq_append] at h
            subst h he
            right
            refine ⟨b0 ++ x :: (List.replicate j sep ++ ln0), y, 1, [], by simp, ?_, by omega, sepFree_nil⟩
            exact hln y (by simp)
      · have hc' : isSep c = false := by simpa using hc
        rcases ih r' hlen' hh' with hsf | ⟨b0, x, j, ln, he, hx, hj, hln⟩
        · left
          rw [sepFree_append]
          exact ⟨hsf, by rw [sepFree_cons]; exact ⟨hc', sepFree_nil⟩⟩
        · subst he
          right
          refine ⟨b0, x, j, ln ++ [c], by simp, hx, hj, ?_⟩
          rw [sepFree_append]
          exact ⟨hln, by rw [sepFree_cons]; exact ⟨hc', sepFree_nil⟩⟩

theorem rest_form (r : List Nat) (hh : headNonSep r) :
    sepFree r ∨ ∃ b0 x j ln, r = b0 ++ x :: (List.replicate j sep ++ ln) ∧ isSep x = false ∧ 0 < j ∧ sepFree ln :=
  rest_form_aux r.length r rfl hh

theorem takeWhile_headNonSep {r : List Nat} (hh : headNonSep r) : r.takeWhile isSep = [] := by
  cases r with
  | nil => rfl
  | cons c t => simp [hh c t rfl]

theorem dropWhile_headNonSep {r : List Nat} (hh : headNonSep r) : r.dropWhile isSep = r := by
  cases r with
  | nil => rfl
  | cons c t => simp [hh c t rfl]

theorem leadingSeps_form (k : Nat) (r : List Nat) (hh : headNonSep r) :
    leadingSeps (List.replicate k sep ++ r) = k := by
  unfold leadingSeps
  rw [takeWhile_replicate_sep, takeWhile_headNonSep hh]; simp

theorem dropWhile_form (k : Nat) (r : List Nat) (hh : headNonSep r) :
    (List.replicate k sep ++ r).dropWhile isSep = r := by
  rw [dropWhile_replicate_sep, dropWhile_headNonSep hh]

theorem parse_form (k : Nat) (r : List Nat) (hh : headNonSep r) :
    parse (List.replicate k sep ++ r) = ⟨decide (0 < k), splitNames r⟩ := by
  unfold parse
  rw [dropWhile_form k r hh]
  congr 1
  cases k with
  | zero =>
    cases r with
    | nil => rfl
    | cons c t => simpa using hh c t rfl
  | succ k => simp [List.replicate_succ, isSep_sep]

theorem at'_form_lt (k : Nat) (r : List Nat) (i : Nat) (h : i < k) : at' (List.replicate k sep ++ r) i = sep := by
  rw [at'_append_left (by simpa using h), at'_replicate h]

theorem at'_form_ge (k : Nat) (r : List Nat) (i : Nat) (h : k ≤ i) :
    at' (List.replicate k sep ++ r) i = at' r (i - k) := by
  rw [at'_append_right (by simpa using h)]; simp

/-! ## last dot -/

theorem dot_form (f : List Nat) : dot ∉ f ∨ ∃ pre tl, f = pre ++ dot :: tl ∧ dot ∉ tl := by
  induction f with
  | nil => left; simp
  | cons c f ih =>
    rcases ih with h | ⟨pre, tl, h1, h2⟩
    · by_cases hc : c = dot
      · right; exact ⟨[], f, by simp [hc], h⟩
      · left; simp only [List.mem_cons, not_or]; exact ⟨fun e => hc e.symm, h⟩
    · right; exact ⟨c :: pre, tl, by simp [h1], h2⟩

theorem takeWhile_all {p : Nat → Bool} {l : List Nat} (h : ∀ a ∈ l, p a = true) : l.takeWhile p = l := by
  have := List.takeWhile_append_of_pos (l₂ := []) h
  simpa using this

theorem lastDot_none {f : List Nat} (h : dot ∉ f) : lastDot f = none := by
  unfold lastDot
  have : f.reverse.takeWhile (· ≠ dot) = f.reverse := by
    apply takeWhile_all
    intro a ha
    simp only [List.mem_reverse] at ha
    simp only [ne_eq, decide_not, Bool.not_eq_eq_eq_not, Bool.not_true, decide_eq_false_iff_not]
    intro e; exact h (e ▸ ha)
  simp only [this, List.length_reverse, if_true]

theorem lastDot_some (pre tl : List Nat) (h : dot ∉ tl) : lastDot (pre ++ dot :: tl) = some pre.length := by
  unfold lastDot
  have : (pre ++ dot :: tl).reverse.takeWhile (· ≠ dot) = tl.reverse := by
    rw [List.reverse_append, List.reverse_cons, List.append_assoc, List.takeWhile_append_of_pos]
    · simp
    · intro a ha
      simp only [List.mem_reverse] at ha
      simp only [ne_eq, decide_not, Bool.not_eq_eq_eq_not, Bool.not_true, decide_eq_false_iff_not]
      intro e; exact h (e ▸ ha)
  simp only [this, List.length_reverse, List.length_append, List.length_cons]
  rw [if_neg (by omega)]
  congr 1; omega

/-! ## bytes of the normal form -/

theorem isSep_at'_head {r : List Nat} (hh : headNonSep r) : isSep (at' r 0) = false := by
  cases r with
  | nil => exact isSep_zero
  | cons c t => exact hh c t rfl

section nf
variable (k : Nat) (b0 : List Nat) (x j : Nat) (ln : List Nat)

theorem nf_length :
    (List.replicate k sep ++ (b0 ++ x :: (List.replicate j sep ++ ln))).length = k + b0.length + 1 + j + ln.length := by
  simp; omega

theorem nf_at_x : at' (List.replicate k sep ++ (b0 ++ x :: (List.replicate j sep ++ ln))) (k + b0.length) = x := by
  rw [at'_form_ge _ _ _ (by omega), at'_append_right (by omega)]
  have : k + b0.length - k - b0.length = 0 := by omega
  rw [this]; rfl

theorem nf_at_sep (i : Nat) (h1 : k + b0.length < i) (h2 : i ≤ k + b0.length + j) :
    at' (List.replicate k sep ++ (b0 ++ x :: (List.replicate j sep ++ ln))) i = sep := by
  rw [at'_form_ge _ _ _ (by omega), at'_append_right (by omega)]
  obtain ⟨m, hm⟩ : ∃ m, i - k - b0.length = m + 1 := ⟨i - k - b0.length - 1, by omega⟩
  rw [hm]
  show at' (List.replicate j sep ++ ln) m = sep
  rw [at'_append_left (by simp; omega), at'_replicate (by omega)]

theorem nf_at_ln (hln : sepFree ln) (i : Nat) (h1 : k + b0.length + 1 + j ≤ i) :
    isSep (at' (List.replicate k sep ++ (b0 ++ x :: (List.replicate j sep ++ ln))) i) = false := by
  rw [at'_form_ge _ _ _ (by omega), at'_append_right (by omega)]
  obtain ⟨m, hm⟩ : ∃ m, i - k - b0.length = m + 1 := ⟨i - k - b0.length - 1, by omega⟩
  rw [hm]
  show isSep (at' (List.replicate j sep ++ ln) m) = false
  rw [at'_append_right (by simp; omega)]
  exact isSep_at'_sepFree hln _

theorem nf_drop_ln :
    (List.replicate k sep ++ (b0 ++ x :: (List.replicate j sep ++ ln))).drop (k + b0.length + 1 + j) = ln := by
  have e : List.replicate k sep ++ (b0 ++ x :: (List.replicate j sep ++ ln))
      = (List.replicate k sep ++ b0 ++ [x] ++ List.replicate j sep) ++ ln := by simp
  rw [e]
  apply List.drop_left'
  simp; omega

end nf

theorem filenameRange_zero (s : List Nat)
    (h : leadingSeps s = s.length ∨ isSep (at' s (s.length - 1)) = true) : filenameRange s = (0, 0) := by
  unfold filenameRange
  split
  · rfl
  · rw [rootPathRange_eq]; simp only; rw [if_pos h]

theorem filenameRange_of (s : List Nat) (h1 : leadingSeps s < s.length)
    (h2 : isSep (at' s (s.length - 1)) = false) :
    filenameRange s = (rewindToSep s (leadingSeps s) (s.length - 1), s.length) := by
  unfold filenameRange
  rw [if_neg (by omega), rootPathRange_eq]
  simp only
  rw [if_neg]
  rw [h2]; simp; omega

theorem slice_filenameRange (s : List Nat) : slice s (filenameRange s) = PathSpec.filename s := by
  obtain ⟨k, r, rfl, hh⟩ := string_form s
  have hk := leadingSeps_form k r hh
  unfold PathSpec.filename
  rw [parse_form k r hh]
  simp only
  rcases rest_form r hh with hsf | ⟨b0, x, j, ln, rfl, hx, hj, hln⟩
  · by_cases hr : r = []
    · subst hr
      rw [filenameRange_zero _ (Or.inl (by rw [hk]; simp))]
      simp [slice_empty, splitNames]
    · have hlen : 0 < r.length := List.length_pos_iff.mpr hr
      rw [splitNames_sepFree hsf hr]
      have hL : (List.replicate k sep ++ r).length = k + r.length := by simp
      rw [filenameRange_of _ (by rw [hk, hL]; omega)
        (by rw [at'_form_ge _ _ _ (by rw [hL]; omega)]; exact isSep_at'_sepFree hsf _), hk,
        rewindToSep_eq _ k k _ (Nat.le_refl _) (by rw [hL]; omega)
          (fun i h1 _ => by rw [at'_form_ge _ _ _ h1]; exact isSep_at'_sepFree hsf _) (Or.inl rfl),
        slice_to_end]
      simp
  · rw [splitNames_last b0 x j ln hx hj hln]
    have hL := nf_length k b0 x j ln
    simp only [List.getLastD_concat]
    by_cases hl : ln = []
    · subst hl
      rw [filenameRange_zero _ (Or.inr (by
        rw [nf_at_sep k b0 x j [] _ (by rw [hL]; simp; omega) (by rw [hL]; simp)]; exact isSep_sep))]
      exact slice_empty _ _
    · have hlen : 0 < ln.length := List.length_pos_iff.mpr hl
      rw [filenameRange_of _ (by rw [hk, hL]; omega) (nf_at_ln k b0 x j ln hln _ (by rw [hL]; omega)), hk,
        rewindToSep_eq _ k (k + b0.length + 1 + j) _ (by omega) (by rw [hL]; omega)
          (fun i h1 _ => nf_at_ln k b0 x j ln hln i h1)
          (Or.inr (by rw [nf_at_sep k b0 x j ln _ (by omega) (by omega)]; exact isSep_sep)),
        slice_to_end, nf_drop_ln]

/-! ## stem and extension -/

theorem slice_filename_split (s : List Nat) :
    slice s (filenameRange s) = slice s (stemRange s) ++ slice s (extensionRange s) := by
  rcases stemRange_cases s with ⟨h, _⟩ | ⟨g, hname, _, _, _, hst, h1, h2⟩
  · have he := extensionRange_of_stem_eq s h
    rw [h, slice_eq_nil_of_eq s _ he.1, List.append_nil]
  · have he := extensionRange_of_stem s g _ hst h1
    rw [he, hst, hname]
    exact slice_append s g _ s.length (by omega) (by omega)

theorem at'_ne_of_not_mem {l : List Nat} {c : Nat} (hc : c ≠ 0) (h : c ∉ l) (i : Nat) : at' l i ≠ c := by
  by_cases hi : i < l.length
  · intro e; exact h (e ▸ at'_mem hi)
  · rw [at'_ge (Nat.le_of_not_lt hi)]; exact fun e => hc e.symm

theorem rewindToDot_drop (s : List Nat) (g : Nat) (hg : g < s.length) :
    (dot ∉ s.drop g ∧ rewindToDot s g (s.length - 1) = g) ∨
    ∃ pre tl, s.drop g = pre ++ dot :: tl ∧ dot ∉ tl ∧ rewindToDot s g (s.length - 1) = g + pre.length := by
  have hat : ∀ i, g ≤ i → at' s i = at' (s.drop g) (i - g) := by
    intro i hi; rw [at'_drop]; congr 1; omega
  rcases dot_form (s.drop g) with h | ⟨pre, tl, h1, h2⟩
  · left
    refine ⟨h, rewindToDot_eq s g g _ (Nat.le_refl _) (by omega) (fun i hi _ => ?_) (Or.inl rfl)⟩
    rw [hat i (by omega)]
    exact at'_ne_of_not_mem (by decide) h _
  · right
    refine ⟨pre, tl, h1, h2, ?_⟩
    have hlen : s.length - g = pre.length + 1 + tl.length := by
      have := congrArg List.length h1
      simp at this; omega
    refine rewindToDot_eq s g (g + pre.length) _ (by omega) (by omega) (fun i hi _ => ?_) (Or.inr ?_)
    · rw [hat i (by omega), h1, at'_append_right (by omega)]
      obtain ⟨m, hm⟩ : ∃ m, i - g - pre.length = m + 1 := ⟨i - g - pre.length - 1, by omega⟩
      rw [hm]
      exact at'_ne_of_not_mem (by decide) h2 m
    · rw [hat _ (by omega), h1, at'_append_right (by omega)]
      have : g + pre.length - g - pre.length = 0 := by omega
      rw [this]; rfl

theorem slice_extensionRange (s : List Nat) : slice s (extensionRange s) = PathSpec.extension s := by
  have hf := slice_filenameRange s
  unfold PathSpec.extension
  rw [← hf]
  simp only
  rcases stemRange_cases s with ⟨h, hr⟩ | ⟨g, hname, hlt, hn1, hn2, hst, h1, h2⟩
  · have he := extensionRange_of_stem_eq s h
    rw [slice_eq_nil_of_eq s _ he.1]
    rcases hr with h0 | ⟨g, hname, hlt, hr⟩
    · rw [h0, slice_empty]; rfl
    · rw [hname]
      rcases hr with h1 | h1 | h1
      · rw [if_pos (Or.inl h1)]
      · rw [if_pos (Or.inr h1)]
      · split
        · rfl
        · rw [slice_to_end]
          rcases rewindToDot_drop s g hlt with ⟨hd, _⟩ | ⟨pre, tl, e1, e2, e3⟩
          · rw [lastDot_none hd]
          · have : pre = [] := List.eq_nil_of_length_eq_zero (by omega)
            subst this
            rw [e1, lastDot_some [] tl e2]; rfl
  · have he := extensionRange_of_stem s g _ hst h1
    rw [he, hname, if_neg (by rw [not_or]; exact ⟨hn1, hn2⟩), slice_to_end, slice_to_end]
    rcases rewindToDot_drop s g hlt with ⟨_, hd⟩ | ⟨pre, tl, e1, e2, e3⟩
    · omega
    · rw [e1, lastDot_some pre tl e2, e3]
      obtain ⟨n, hn⟩ : ∃ n, pre.length = n + 1 := ⟨pre.length - 1, by omega⟩
      rw [hn]
      simp only
      rw [← hn, ← e1, List.drop_drop]

theorem slice_stemRange (s : List Nat) : slice s (stemRange s) = PathSpec.stem s := by
  unfold PathSpec.stem
  simp only
  rw [← slice_filenameRange, ← slice_extensionRange, slice_filename_split]
  simp

theorem slice_relativeRange (s : List Nat) : slice s (relativeRange s) = PathSpec.relativeText s := by
  obtain ⟨k, r, rfl, hh⟩ := string_form s
  unfold PathSpec.relativeText
  rw [relativeRange_eq, slice_to_end, leadingSeps_form k r hh, dropWhile_form k r hh]
  apply List.drop_left'
  simp

/-! ## root directory and parent -/

theorem slice_root (k : Nat) (r : List Nat) (n : Nat) :
    slice (List.replicate k sep ++ r) (k - 1, k + n) = List.replicate (k - (k - 1)) sep ++ r.take n := by
  unfold slice
  simp only
  rw [List.drop_append_of_le_length (by simp), List.drop_replicate]
  have e : k + n - (k - 1) = (List.replicate (k - (k - 1)) sep).length + n := by simp; omega
  rw [e, List.take_length_add_append]

theorem parse_root_eq (k : Nat) (names : List (List Nat)) :
    (⟨decide (0 < k - (k - 1)), names⟩ : P) = ⟨decide (0 < k), names⟩ := by
  congr 1
  by_cases h : 0 < k
  · have : 0 < k - (k - 1) := by omega
    simp [h, this]
  · have : ¬ 0 < k - (k - 1) := by omega
    simp [h, this]

theorem slice_rootDirRange (s : List Nat) : slice s (rootDirRange s) = PathSpec.rootDirText s := by
  obtain ⟨k, r, rfl, hh⟩ := string_form s
  unfold PathSpec.rootDirText
  rw [rootDirRange_eq, leadingSeps_form k r hh, parse_form k r hh]
  have := slice_root k r 0
  rw [Nat.add_zero] at this
  rw [this]
  simp only [List.take_zero, List.append_nil]
  by_cases h : 0 < k
  · have e : k - (k - 1) = 1 := by omega
    rw [e]; simp [h]
  · have e : k - (k - 1) = 0 := by omega
    rw [e]; simp [h]

theorem parse_slice_parentRange (s : List Nat) : parse (slice s (parentRange s)) = PathSpec.parent s := by
  obtain ⟨k, r, rfl, hh⟩ := string_form s
  have hk := leadingSeps_form k r hh
  unfold PathSpec.parent
  rw [parse_form k r hh]
  simp only
  rcases rest_form r hh with hsf | ⟨b0, x, j, ln, rfl, hx, hj, hln⟩
  · -- no separator after the root: the parent is the root
    have hL : (List.replicate k sep ++ r).length = k + r.length := by simp
    have hpr : parentRange (List.replicate k sep ++ r) = (k - 1, k) := by
      by_cases hs : List.replicate k sep ++ r = []
      · have hk0 : k = 0 := by
          have := congrArg List.length hs
          simp at this; omega
        rw [hs, hk0]; rfl
      · rw [parentRange_eq _ hs, hk, if_pos]
        have hpos : 0 < k + r.length := by
          rw [← hL]; exact List.length_pos_iff.mpr hs
        unfold parentL1
        rw [hk, hL]
        split
        · have := rewindSeps_le (List.replicate k sep ++ r) (k - 1) (k + r.length - 1)
          next hsep =>
            have hlt : k + r.length - 1 < k := by
              apply Nat.lt_of_not_le
              intro hge
              rw [at'_form_ge _ _ _ hge, isSep_at'_sepFree hsf] at hsep
              exact absurd hsep (by decide)
            omega
        · rw [rewindName_eq _ (k - 1) (k - 1) _ (Nat.le_refl _) (by omega)
            (fun i h1 _ => by rw [at'_form_ge _ _ _ (by omega)]; exact isSep_at'_sepFree hsf _) (Or.inl rfl)]
          omega
    have hsl := slice_root k r 0
    rw [Nat.add_zero] at hsl
    rw [hpr, hsl, List.take_zero, parse_form _ [] (fun c t h => by cases h), parse_root_eq]
    by_cases hr : r = []
    · subst hr; rfl
    · rw [splitNames_sepFree hsf hr]; rfl
  · -- body ++ x :: separators ++ last name
    have hL := nf_length k b0 x j ln
    have hs : List.replicate k sep ++ (b0 ++ x :: (List.replicate j sep ++ ln)) ≠ [] := by
      intro h; have := congrArg List.length h; rw [hL] at this; simp at this
    have hl1 : k + b0.length < parentL1 (List.replicate k sep ++ (b0 ++ x :: (List.replicate j sep ++ ln))) ∧
        parentL1 (List.replicate k sep ++ (b0 ++ x :: (List.replicate j sep ++ ln))) ≤ k + b0.length + j := by
      unfold parentL1
      rw [hk, hL]
      by_cases hl : ln = []
      · subst hl
        simp only [List.length_nil, Nat.add_zero]
        rw [if_pos (by rw [nf_at_sep k b0 x j [] _ (by omega) (by omega)]; exact isSep_sep)]
        rw [rewindSeps_eq _ (k - 1) (k + b0.length + 1) _ (by omega) (by omega)
          (fun i h1 h2 => by rw [nf_at_sep k b0 x j [] i (by omega) (by omega)]; exact isSep_sep)
          (Or.inr (by
            have : k + b0.length + 1 - 1 = k + b0.length := by omega
            rw [this, nf_at_x]; exact hx))]
        omega
      · have hlen : 0 < ln.length := List.length_pos_iff.mpr hl
        rw [if_neg (by rw [nf_at_ln k b0 x j ln hln _ (by omega)]; simp)]
        rw [rewindName_eq _ (k - 1) (k + b0.length + j) _ (by omega) (by omega)
          (fun i h1 _ => nf_at_ln k b0 x j ln hln i (by omega))
          (Or.inr (by rw [nf_at_sep k b0 x j ln _ (by omega) (by omega)]; exact isSep_sep))]
        omega
    have hpr : parentRange (List.replicate k sep ++ (b0 ++ x :: (List.replicate j sep ++ ln)))
        = (k - 1, k + (b0.length + 1)) := by
      rw [parentRange_eq _ hs, hk, if_neg (by omega),
        dropSeps_eq _ (k - 1) (k + b0.length) _ (by omega) (by omega)
          (fun i h1 h2 => by rw [nf_at_sep k b0 x j ln i h1 (by omega)]; exact isSep_sep)
          (Or.inr (by rw [nf_at_x]; exact hx))]
      rfl
    have htake : (b0 ++ x :: (List.replicate j sep ++ ln)).take (b0.length + 1) = b0 ++ [x] := by
      have e : b0 ++ x :: (List.replicate j sep ++ ln) = (b0 ++ [x]) ++ (List.replicate j sep ++ ln) := by simp
      rw [e]
      apply List.take_left'
      simp
    have hh' : headNonSep (b0 ++ [x]) := by
      intro c t h
      cases b0 with
      | nil => simp at h; rw [← h.1]; exact hx
      | cons c' t' =>
        simp at h
        exact hh c (t' ++ x :: (List.replicate j sep ++ ln)) (by simp [h.1])
    rw [hpr, slice_root, htake, parse_form _ _ hh', parse_root_eq, splitNames_last b0 x j ln hx hj hln]
    simp

end Zix.Path.Dec
